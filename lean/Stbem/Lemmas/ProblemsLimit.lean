import Mathlib.Analysis.SpecialFunctions.Sqrt
import Mathlib.Data.Real.Sign
import Mathlib.Topology.Algebra.Order.Field
import Mathlib.Topology.Algebra.Field
import Mathlib.Tactic.Ring
import Mathlib.Tactic.Linarith

/-!
# Initial values of the error-function closed forms (helper layer for `Props/C03Problems.lean`)

For an odd `E` with `E → 1` at `+∞`: `E(q/(2√t)) → sign q` as `t → 0+`.
-/
namespace Stbem.Problems.R
open Filter Topology

theorem tendsto_two_sqrt_nhdsGT : Tendsto (fun t : ℝ => 2 * Real.sqrt t) (𝓝[>] 0) (𝓝[>] 0) := by
  rw [tendsto_nhdsWithin_iff]
  constructor
  · have h : Tendsto (fun t : ℝ => 2 * Real.sqrt t) (𝓝 0) (𝓝 (2 * Real.sqrt 0)) :=
      (Real.continuous_sqrt.tendsto 0).const_mul 2
    rw [Real.sqrt_zero, mul_zero] at h
    exact h.mono_left nhdsWithin_le_nhds
  · filter_upwards [self_mem_nhdsWithin] with t ht
    have : 0 < Real.sqrt t := Real.sqrt_pos.mpr ht
    show (0 : ℝ) < 2 * Real.sqrt t
    linarith

/-- `q/(2√t) → +∞` as `t → 0+` for `q > 0` -/
theorem tendsto_div_two_sqrt_atTop {q : ℝ} (hq : 0 < q) :
    Tendsto (fun t : ℝ => q / (2 * Real.sqrt t)) (𝓝[>] 0) atTop := by
  have h1 : Tendsto (fun t : ℝ => (2 * Real.sqrt t)⁻¹) (𝓝[>] 0) atTop :=
    tendsto_inv_nhdsGT_zero.comp tendsto_two_sqrt_nhdsGT
  have h2 := h1.const_mul_atTop hq
  simpa [div_eq_mul_inv] using h2

/-- an odd function with limit `1` at `+∞`, evaluated at `q/(2√t)`, tends to `sign q` as `t → 0+` -/
theorem tendsto_oddLim_sign (E : ℝ → ℝ) (hodd : ∀ x, E (-x) = - E x) (hlim : Tendsto E atTop (𝓝 1)) (q : ℝ) :
    Tendsto (fun t : ℝ => E (q / (2 * Real.sqrt t))) (𝓝[>] 0) (𝓝 (Real.sign q)) := by
  rcases lt_trichotomy q 0 with hq | hq | hq
  · rw [Real.sign_of_neg hq]
    have h := (hlim.comp (tendsto_div_two_sqrt_atTop (neg_pos.mpr hq))).neg
    refine h.congr fun t => ?_
    show - E (-q / (2 * Real.sqrt t)) = E (q / (2 * Real.sqrt t))
    rw [neg_div, hodd, neg_neg]
  · subst hq
    have h0 : E 0 = 0 := by
      have := hodd 0
      rw [neg_zero] at this
      linarith
    rw [Real.sign_zero]
    simp only [zero_div, h0]
    exact tendsto_const_nhds
  · rw [Real.sign_of_pos hq]
    exact hlim.comp (tendsto_div_two_sqrt_atTop hq)

/-- 1-D indicator of `(lo, hi)` with the value `1/2` at the end points -/
noncomputable def ind (lo hi a : ℝ) : ℝ := (Real.sign (hi - a) + Real.sign (a - lo)) / 2

theorem ind_inside {lo hi a : ℝ} (h1 : lo < a) (h2 : a < hi) : ind lo hi a = 1 := by
  unfold ind
  rw [Real.sign_of_pos (by linarith), Real.sign_of_pos (by linarith)]; norm_num

theorem ind_left {lo hi a : ℝ} (h1 : a < lo) (h : lo ≤ hi) : ind lo hi a = 0 := by
  unfold ind
  rw [Real.sign_of_pos (by linarith), Real.sign_of_neg (by linarith)]; norm_num

theorem ind_right {lo hi a : ℝ} (h2 : hi < a) (h : lo ≤ hi) : ind lo hi a = 0 := by
  unfold ind
  rw [Real.sign_of_neg (by linarith), Real.sign_of_pos (by linarith)]; norm_num

theorem ind_lo {lo hi : ℝ} (h : lo < hi) : ind lo hi lo = 1 / 2 := by
  unfold ind
  rw [Real.sign_of_pos (by linarith), sub_self, Real.sign_zero]; norm_num

theorem ind_hi {lo hi : ℝ} (h : lo < hi) : ind lo hi hi = 1 / 2 := by
  unfold ind
  rw [sub_self, Real.sign_zero, Real.sign_of_pos (by linarith)]; norm_num

/-- the 1-D factor `(E((hi − a)/(2√t)) + E((a − lo)/(2√t)))/2` tends to the indicator of `(lo, hi)` -/
theorem tendsto_factor (E : ℝ → ℝ) (hodd : ∀ x, E (-x) = - E x) (hlim : Tendsto E atTop (𝓝 1)) (lo hi a : ℝ) :
    Tendsto (fun t : ℝ => (E ((hi - a) / (2 * Real.sqrt t)) + E ((a - lo) / (2 * Real.sqrt t))) / 2) (𝓝[>] 0)
      (𝓝 (ind lo hi a)) :=
  ((tendsto_oddLim_sign E hodd hlim (hi - a)).add (tendsto_oddLim_sign E hodd hlim (a - lo))).div_const 2

end Stbem.Problems.R
