import Stbem.Lemmas.EstimGenShapes
import Stbem.Lemmas.EstimHH2

/-!
# `HierarchicalErrorEstimator.estimate` regenerated from source equals `hierEstimate` of the hand-written model
-/
namespace Stbem.EstimTie
open Stbem.Estim Stbem.Gen.EstimGen Stbem.EstimConv

/-- the two entries of a row -/
def pairOfRow (l : List Rat) : Rat × Rat := (l.getD 0 0, l.getD 1 0)

/-- the per-element computation of the hand model, as a pair -/
def handLocal {Γ : Type} (rhs vphi : List Rat) (S : List (DummyElement Γ) → List (List Rat)) (kids : List (List (DummyElement Γ)))
    (x : Nat × DummyElement Γ) : Except String (Rat × Rat) :=
  hierLocal (slice rhs x.1) (slice vphi x.1) (S (kids.getD x.1 [])) >>= fun e => pure (pairOfRow (hierCombineLoc e))

theorem enumerateFrom_get {α : Type} : ∀ (l : List α) (k i : Nat), (enumerateFrom k l)[i]? = (l[i]?).map fun a => (k + i, a)
  | [], _, _ => by simp [enumerateFrom]
  | a :: l, k, 0 => by simp [enumerateFrom]
  | a :: l, k, i + 1 => by
    simp only [enumerateFrom, List.getElem?_cons_succ, enumerateFrom_get l (k + 1) i]
    cases l[i]? with
    | none => rfl
    | some b => simp only [Option.map_some]; congr 2; omega

theorem enumerate_get {α : Type} (l : List α) (i : Nat) : (enumerate l)[i]? = (l[i]?).map fun a => (i, a) := by
  rw [enumerate, enumerateFrom_get]; simp

theorem enumerate_length {α : Type} (l : List α) : (enumerate l).length = l.length := by
  have : ∀ (l : List α) (k : Nat), (enumerateFrom k l).length = l.length := by
    intro l; induction l with
    | nil => intro k; rfl
    | cons a l ih => intro k; simp [enumerateFrom, ih]
  exact this l 0

theorem pairs_of_mapM (x : Except String (List (Rat × Rat))) :
    ((x >>= fun bs => pure ([] ++ bs)) >>= fun s => (pure (npArrayPairs s) : Except String _)) =
      List.map (fun p : Rat × Rat => [p.1, p.2]) <$> x := by
  cases x with
  | error e => rfl
  | ok bs => simp [ok_bind, npArrayPairs, pure, Except.pure, Functor.map, Except.map]

theorem sum_dot (c0 c1 c2 c3 : Int) (a0 a1 a2 a3 : Rat) :
    0 + a0 * (c0 : Rat) + a1 * c1 + a2 * c2 + a3 * c3 = dot [(c0 : Rat), c1, c2, c3] [a0, a1, a2, a3] := by
  simp only [dot_cons, dot_nil_left]; ring

theorem pyAbs_eq (q : Rat) : pyAbs q = absR q := rfl

theorem kids_positions {Γ : Type} (heap n i : Nat) (e : DummyElement Γ) (h : e.vertices.length = 4) (hi : i < n) :
    (kids4 (heap + 4 * i) e).mapM (fun elem => dictGet (dictOfEnumerate (List.range' heap (4 * n))) elem.oid) =
      .ok [4 * i, 4 * i + 1, 4 * i + 2, 4 * i + 3] := by
  obtain ⟨v0, v1, v2, v3, hv⟩ := four_of_length _ h
  have e0 : heap + 4 * i = heap + (4 * i) := rfl
  simp only [kids4, hv, mkElem, List.mapM_cons, List.mapM_nil, Nat.add_assoc, dictGet_range heap (4 * n) (4 * i) (by omega),
    dictGet_range heap (4 * n) (4 * i + 1) (by omega), dictGet_range heap (4 * n) (4 * i + 2) (by omega),
    dictGet_range heap (4 * n) (4 * i + 3) (by omega), ok_bind, pure, Except.pure]

/-- the regenerated `estimate` is the hand model on the arrays the leaves return (fitting shapes) -/
theorem hier_estimate_eq {Γ : Type} (self : HierarchicalErrorEstimator Γ) (heap : Nat) (elems : List (DummyElement Γ))
    (Phi : List Rat) (hv : ∀ e ∈ elems, e.vertices.length = 4) (hPhi : Phi.length = elems.length)
    (hmat : (self.SL.bilform_matrix (kidsFrom heap elems).flatten elems (some true)).length = 4 * elems.length ∧
      ∀ r ∈ self.SL.bilform_matrix (kidsFrom heap elems).flatten elems (some true), r.length = elems.length)
    (hg : ∀ f, self.g = some f → (f (kidsFrom heap elems).flatten).length = 4 * elems.length)
    (hm : ∀ o, self.M0 = some o → (o.linform_vector (kidsFrom heap elems).flatten (some true)).length = 4 * elems.length)
    (hS : ∀ c ∈ kidsFrom heap elems, (self.SL.bilform_matrix c c none).length = 4 ∧
      ∀ r ∈ self.SL.bilform_matrix c c none, r.length = 4) :
    self.estimate heap elems Phi =
      hierEstimate (self.SL.bilform_matrix (kidsFrom heap elems).flatten elems (some true)) Phi
        (self.g.map fun f => f (kidsFrom heap elems).flatten)
        (self.M0.map fun o => o.linform_vector (kidsFrom heap elems).flatten (some true))
        ((kidsFrom heap elems).map fun c => self.SL.bilform_matrix c c none) := by
  unfold HierarchicalErrorEstimator.estimate
  simp only []
  rw [uniform_refinement_eq heap elems hv, ok_bind]
  simp only [flatMap_id_map]
  rw [npMatVec_ok (by intro r hr; rw [hmat.2 r hr, hPhi]), ok_bind, kidsFrom_flatten_length elems heap hv]
  refine Eq.trans (rhs_steps (4 * elems.length) self.g self.M0 (fun f => f (kidsFrom heap elems).flatten)
    (fun o => o.linform_vector (kidsFrom heap elems).flatten (some true)) hg hm _) ?_
  unfold hierEstimate
  rw [hmat.1]
  have hrl : (mkRhs (4 * elems.length) (Option.map (fun f => f (kidsFrom heap elems).flatten) self.g)
      (Option.map (fun o => o.linform_vector (kidsFrom heap elems).flatten (some true)) self.M0)).length = 4 * elems.length :=
    mkRhs_length _ _ _ (by intro v h; cases hgg : self.g with
      | none => rw [hgg] at h; cases h
      | some f => rw [hgg] at h; cases h; exact hg f hgg)
      (by intro v h; cases hmm : self.M0 with
      | none => rw [hmm] at h; cases h
      | some o => rw [hmm] at h; cases h; exact hm o hmm)
  have hvl : (mulVec (self.SL.bilform_matrix (kidsFrom heap elems).flatten elems (some true)) Phi).length = 4 * elems.length := by
    rw [mulVec_length, hmat.1]
  generalize mkRhs (4 * elems.length) (Option.map (fun f => f (kidsFrom heap elems).flatten) self.g)
    (Option.map (fun o => o.linform_vector (kidsFrom heap elems).flatten (some true)) self.M0) = rhs at hrl ⊢
  generalize mulVec (self.SL.bilform_matrix (kidsFrom heap elems).flatten elems (some true)) Phi = vphi at hvl ⊢
  rw [forIn_append_mapM_on _ (handLocal rhs vphi (fun c => self.SL.bilform_matrix c c none) (kidsFrom heap elems))
    (fun x => elems[x.1]? = some x.2) ?_ (enumerate elems) [] (fun x hx => mem_enumerate elems x hx)]
  · rw [pairs_of_mapM]
    apply mapM_congr_idx
    · rw [enumerate_length, List.length_zip, List.length_range, List.length_map, kidsFrom_length]; simp
    · intro i a b ha hb
      rw [enumerate_get] at ha
      cases hie : elems[i]? with
      | none => rw [hie] at ha; cases ha
      | some e =>
        rw [hie] at ha
        cases ha
        have hk : (kidsFrom heap elems)[i]? = some (kids4 (heap + 4 * i) e) := by rw [kidsFrom_get, hie]; rfl
        have hgd : (kidsFrom heap elems).getD i [] = kids4 (heap + 4 * i) e := by
          rw [List.getD_eq_getElem?_getD, hk]; rfl
        rw [List.getElem?_zip_eq_some] at hb
        obtain ⟨hb1, hb2⟩ := hb
        rw [List.getElem?_map, hk] at hb2
        have hbi : b.1 = i := by
          rw [List.getElem?_range (by rw [List.length_map, kidsFrom_length]; by_contra hn; rw [List.getElem?_eq_none (by omega)] at hie; cases hie)] at hb1
          exact (Option.some.inj hb1).symm
        obtain ⟨b1, b2⟩ := b
        simp only [Option.map_some, Option.some.injEq] at hbi hb2
        subst hbi
        subst hb2
        simp only [handLocal, hgd]
        cases hl : hierLocal (slice rhs b1) (slice vphi b1) (self.SL.bilform_matrix (kids4 (heap + 4 * b1) e) (kids4 (heap + 4 * b1) e) none) with
        | error err => rfl
        | ok es =>
          obtain ⟨e0, e1, e2, rfl, -⟩ := hierLocal_ok hl
          simp only [ok_bind, hierCombineLoc_eq, pairOfRow]
          rfl
  · rintro ⟨i, e⟩ s hie
    simp only [] at hie
    have hi : i < elems.length := by
      by_contra hn; rw [List.getElem?_eq_none (by omega)] at hie; cases hie
    have he4 : e.vertices.length = 4 := hv e (List.mem_of_getElem? hie)
    have hk : (kidsFrom heap elems)[i]? = some (kids4 (heap + 4 * i) e) := by rw [kidsFrom_get, hie]; rfl
    have hkm : kids4 (heap + 4 * i) e ∈ kidsFrom heap elems := List.mem_of_getElem? hk
    obtain ⟨hS1, hS2⟩ := hS _ hkm
    simp only [getIdx_of_some hk, ok_bind, kidsFrom_oids elems heap hv]
    rw [forIn_append_mapM _ (fun (elem : DummyElement Γ) => dictGet (dictOfEnumerate (List.range' heap (4 * elems.length))) elem.oid) (fun _ _ => rfl),
      kids_positions heap elems.length i e he4 hi, ok_bind]
    obtain ⟨a0, a1, a2, a3, hsa, ha0, ha1, ha2, ha3⟩ := slice_four rhs i (by omega)
    obtain ⟨b0, b1, b2, b3, hsb, hb0, hb1, hb2, hb3⟩ := slice_four vphi i (by omega)
    have hgd : (kidsFrom heap elems).getD i [] = kids4 (heap + 4 * i) e := by
      rw [List.getD_eq_getElem?_getD, hk]; rfl
    simp only [handLocal, hgd]
    generalize self.SL.bilform_matrix (kids4 (heap + 4 * i) e) (kids4 (heap + 4 * i) e) none = S at hS1 hS2 ⊢
    simp only [pure_bind, List.nil_append, enumerate, enumerateFrom, HierarchicalErrorEstimator.estimate_table1, List.forIn_cons,
      List.forIn_nil, List.zip_cons_cons, List.zip_nil_right, getIdx_of_some ha0, getIdx_of_some ha1, getIdx_of_some ha2,
      getIdx_of_some ha3, getIdx_of_some hb0, getIdx_of_some hb1, getIdx_of_some hb2, getIdx_of_some hb3, ok_bind,
      npCast, npT, npArrayI, List.map_cons, List.map_nil]
    have hp : ∀ (c0 c1 c2 c3 : Int), npMatVec S [(c0 : Rat), c1, c2, c3] = .ok (mulVec S [(c0 : Rat), c1, c2, c3]) :=
      fun _ _ _ _ => npMatVec_ok (by intro r hr; rw [hS2 r hr]; rfl)
    have hq : ∀ (c0 c1 c2 c3 : Int), npVecVec [(c0 : Rat), c1, c2, c3] (mulVec S [(c0 : Rat), c1, c2, c3]) =
        .ok (dot [(c0 : Rat), c1, c2, c3] (mulVec S [(c0 : Rat), c1, c2, c3])) :=
      fun _ _ _ _ => npVecVec_ok (by rw [mulVec_length, hS1]; rfl)
    simp only [hp, hq, ok_bind, sum_dot, hsa, hsb, hierLocal, Stbem.Gen.Consts.hierPatterns, List.mapM_cons,
      List.mapM_nil, hierOne, patRat, List.map_cons, List.map_nil, pyAbs_eq]
    generalize dot [((1 : Int) : Rat), ((1 : Int) : Rat), ((-1 : Int) : Rat), ((-1 : Int) : Rat)]
      (mulVec S [((1 : Int) : Rat), ((1 : Int) : Rat), ((-1 : Int) : Rat), ((-1 : Int) : Rat)]) = sc1
    generalize dot [((1 : Int) : Rat), ((-1 : Int) : Rat), ((1 : Int) : Rat), ((-1 : Int) : Rat)]
      (mulVec S [((1 : Int) : Rat), ((-1 : Int) : Rat), ((1 : Int) : Rat), ((-1 : Int) : Rat)]) = sc2
    generalize dot [((1 : Int) : Rat), ((-1 : Int) : Rat), ((-1 : Int) : Rat), ((1 : Int) : Rat)]
      (mulVec S [((1 : Int) : Rat), ((-1 : Int) : Rat), ((-1 : Int) : Rat), ((1 : Int) : Rat)]) = sc3
    generalize absR (dot [((1 : Int) : Rat), ((1 : Int) : Rat), ((-1 : Int) : Rat), ((-1 : Int) : Rat)] [a0, a1, a2, a3] -
      dot [((1 : Int) : Rat), ((1 : Int) : Rat), ((-1 : Int) : Rat), ((-1 : Int) : Rat)] [b0, b1, b2, b3]) ^ 2 = n1
    generalize absR (dot [((1 : Int) : Rat), ((-1 : Int) : Rat), ((1 : Int) : Rat), ((-1 : Int) : Rat)] [a0, a1, a2, a3] -
      dot [((1 : Int) : Rat), ((-1 : Int) : Rat), ((1 : Int) : Rat), ((-1 : Int) : Rat)] [b0, b1, b2, b3]) ^ 2 = n2
    generalize absR (dot [((1 : Int) : Rat), ((-1 : Int) : Rat), ((-1 : Int) : Rat), ((1 : Int) : Rat)] [a0, a1, a2, a3] -
      dot [((1 : Int) : Rat), ((-1 : Int) : Rat), ((-1 : Int) : Rat), ((1 : Int) : Rat)] [b0, b1, b2, b3]) ^ 2 = n3
    by_cases h1 : sc1 > 0
    · by_cases h2 : sc2 > 0
      · by_cases h3 : sc3 > 0
        · simp only [assertThat_true _ h1, assertThat_true _ h2, assertThat_true _ h3, if_pos h1, if_pos h2, if_pos h3, ok_bind,
            pure_bind, listSet, npZeros, getIdx, hierCombineLoc_eq, pairOfRow, c_0p5]
          simp [pure, Except.pure, ok_bind]
        · simp only [assertThat_true _ h1, assertThat_true _ h2, assertThat_false _ h3, if_pos h1, if_pos h2, if_neg h3, ok_bind,
            pure_bind, listSet, npZeros]
          simp [pure, Except.pure, ok_bind, error_bind]
      · simp only [assertThat_true _ h1, assertThat_false _ h2, if_pos h1, if_neg h2, ok_bind, pure_bind, listSet, npZeros]
        simp [pure, Except.pure, ok_bind, error_bind]
    · simp only [assertThat_false _ h1, if_neg h1, pure_bind, listSet, npZeros]
      simp [pure, Except.pure, ok_bind, error_bind]
end Stbem.EstimTie
