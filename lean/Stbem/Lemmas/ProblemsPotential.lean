import Mathlib.Analysis.SpecialFunctions.Sqrt
import Mathlib.Analysis.SpecialFunctions.ExpDeriv
import Mathlib.Analysis.SpecialFunctions.Integrals.Basic
import Mathlib.MeasureTheory.Integral.IntervalIntegral.FundThmCalculus
import Mathlib.Analysis.SpecialFunctions.Trigonometric.Basic
import Mathlib.Tactic.Ring
import Mathlib.Tactic.FieldSimp
import Mathlib.Tactic.Linarith

/-!
# The heat kernel integrated over a rectangle (helper layer for `Props/C03Problems.lean`)

`heatKernel t x y = 1/(4πt) · exp(−(x² + y²)/(4t))` is the integrand of `InitialOperator.evaluate`
(`src/initial_potential.py`).  For any `E` with `E' x = 2/√π · exp(−x²)`:
`∫_p^q ∫_r^s heatKernel t (a − x) (b − y) dy dx = ¼ (E((a−p)/2√t) − E((a−q)/2√t)) (E((b−r)/2√t) − E((b−s)/2√t))`.
-/
namespace Stbem.Problems.R
open MeasureTheory

/-- the 2-D heat kernel `G(t, z)`, `z = (x, y)` -/
noncomputable def heatKernel (t x y : ℝ) : ℝ := 1 / (4 * Real.pi * t) * Real.exp (-(x ^ 2 + y ^ 2) / (4 * t))

/-- the 1-D heat kernel -/
noncomputable def heatKernel1 (t x : ℝ) : ℝ := 1 / (2 * Real.sqrt (Real.pi * t)) * Real.exp (-x ^ 2 / (4 * t))

theorem heatKernel_eq_mul {t : ℝ} (ht : 0 < t) (x y : ℝ) : heatKernel t x y = heatKernel1 t x * heatKernel1 t y := by
  unfold heatKernel heatKernel1
  have hpt : 0 < Real.pi * t := mul_pos Real.pi_pos ht
  have hs : Real.sqrt (Real.pi * t) * Real.sqrt (Real.pi * t) = Real.pi * t := Real.mul_self_sqrt hpt.le
  have hs0 : 0 < Real.sqrt (Real.pi * t) := Real.sqrt_pos.mpr hpt
  have he : Real.exp (-(x ^ 2 + y ^ 2) / (4 * t)) = Real.exp (-x ^ 2 / (4 * t)) * Real.exp (-y ^ 2 / (4 * t)) := by
    rw [← Real.exp_add]; congr 1; ring
  rw [he]
  have : 1 / (4 * Real.pi * t) = 1 / (2 * Real.sqrt (Real.pi * t)) * (1 / (2 * Real.sqrt (Real.pi * t))) := by
    rw [div_mul_div_comm, one_mul]
    congr 1
    calc 4 * Real.pi * t = 4 * (Real.pi * t) := by ring
      _ = 4 * (Real.sqrt (Real.pi * t) * Real.sqrt (Real.pi * t)) := by rw [hs]
      _ = _ := by ring
  rw [this]; ring

/-- primitive of the 1-D kernel in the integration variable -/
theorem hasDerivAt_erfPrimitive (E : ℝ → ℝ)
    (hE : ∀ x, HasDerivAt E (2 / Real.sqrt Real.pi * Real.exp (-x ^ 2)) x) {t : ℝ} (ht : 0 < t) (a s : ℝ) :
    HasDerivAt (fun s => -(E ((a - s) / (2 * Real.sqrt t))) / 2) (heatKernel1 t (a - s)) s := by
  have hst : 0 < Real.sqrt t := Real.sqrt_pos.mpr ht
  have hsp : 0 < Real.sqrt Real.pi := Real.sqrt_pos.mpr Real.pi_pos
  have hin : HasDerivAt (fun s : ℝ => (a - s) / (2 * Real.sqrt t)) (-1 / (2 * Real.sqrt t)) s := by
    have h1 : HasDerivAt (fun s : ℝ => a - s) (-1) s := by
      simpa using (hasDerivAt_id s).const_sub a
    exact h1.div_const _
  have h2 : HasDerivAt (fun s : ℝ => E ((a - s) / (2 * Real.sqrt t)))
      (2 / Real.sqrt Real.pi * Real.exp (-((a - s) / (2 * Real.sqrt t)) ^ 2) * (-1 / (2 * Real.sqrt t))) s :=
    (hE _).comp s hin
  have h3 := (h2.fun_neg).div_const 2
  refine h3.congr_deriv ?_
  unfold heatKernel1
  have e1 : -((a - s) / (2 * Real.sqrt t)) ^ 2 = -(a - s) ^ 2 / (4 * t) := by
    rw [div_pow, mul_pow, Real.sq_sqrt ht.le]; ring
  have e2 : Real.sqrt (Real.pi * t) = Real.sqrt Real.pi * Real.sqrt t := Real.sqrt_mul Real.pi_pos.le t
  rw [e1, e2]
  field_simp

theorem continuous_heatKernel1 (t a : ℝ) : Continuous fun s => heatKernel1 t (a - s) := by
  unfold heatKernel1
  fun_prop

/-- the 1-D kernel integrated over `[p, q]` -/
theorem integral_heatKernel1 (E : ℝ → ℝ)
    (hE : ∀ x, HasDerivAt E (2 / Real.sqrt Real.pi * Real.exp (-x ^ 2)) x) {t : ℝ} (ht : 0 < t) (a p q : ℝ) :
    ∫ s in p..q, heatKernel1 t (a - s)
      = (E ((a - p) / (2 * Real.sqrt t)) - E ((a - q) / (2 * Real.sqrt t))) / 2 := by
  rw [intervalIntegral.integral_eq_sub_of_hasDerivAt (fun s _ => hasDerivAt_erfPrimitive E hE ht a s)
    ((continuous_heatKernel1 t a).intervalIntegrable _ _)]
  ring

/-- the 2-D kernel integrated over the rectangle `[p, q] × [r, s]` -/
theorem integral_heatKernel_rect (E : ℝ → ℝ)
    (hE : ∀ x, HasDerivAt E (2 / Real.sqrt Real.pi * Real.exp (-x ^ 2)) x) {t : ℝ} (ht : 0 < t)
    (a b p q r s : ℝ) :
    ∫ x in p..q, ∫ y in r..s, heatKernel t (a - x) (b - y)
      = 1 / 4 * (E ((a - p) / (2 * Real.sqrt t)) - E ((a - q) / (2 * Real.sqrt t)))
          * (E ((b - r) / (2 * Real.sqrt t)) - E ((b - s) / (2 * Real.sqrt t))) := by
  have h1 : ∀ x, ∫ y in r..s, heatKernel t (a - x) (b - y)
      = heatKernel1 t (a - x) * ((E ((b - r) / (2 * Real.sqrt t)) - E ((b - s) / (2 * Real.sqrt t))) / 2) := by
    intro x
    simp_rw [heatKernel_eq_mul ht]
    rw [intervalIntegral.integral_const_mul, integral_heatKernel1 E hE ht]
  simp_rw [h1]
  rw [intervalIntegral.integral_mul_const, integral_heatKernel1 E hE ht]
  ring

end Stbem.Problems.R
