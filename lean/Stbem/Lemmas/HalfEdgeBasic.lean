import Stbem.Model.HalfEdge
import Stbem.Lemmas.MeshNbrs

/-!
# H-layer: arena access lemmas (read-after-write for the three arrays)
-/
namespace Stbem.HalfEdge
open Stbem.Mesh (Ax Side Cell Mesh)

/-! ### edges -/

theorem edge_def (h : HMesh) (i : Nat) : h.edge i = (h.edges[i]?).getD {} := by
  simp [HMesh.edge, Array.getD_eq_getD_getElem?]

theorem edge_setEdge_ne (h : HMesh) {i j : Nat} (f : HEdge → HEdge) (hne : j ≠ i) :
    (h.setEdge i f).edge j = h.edge j := by
  simp only [edge_def, HMesh.setEdge, Array.getElem?_modify]
  rw [if_neg (fun e => hne e.symm)]

theorem edge_setEdge_self (h : HMesh) {i : Nat} (f : HEdge → HEdge) (hi : i < h.edges.size) :
    (h.setEdge i f).edge i = f (h.edge i) := by
  simp only [edge_def, HMesh.setEdge, Array.getElem?_modify, if_true]
  rw [Array.getElem?_eq_getElem hi]
  rfl

theorem edge_setEdge (h : HMesh) {i : Nat} (f : HEdge → HEdge) (hi : i < h.edges.size) (j : Nat) :
    (h.setEdge i f).edge j = if j = i then f (h.edge i) else h.edge j := by
  by_cases hj : j = i
  · subst hj; rw [if_pos rfl, edge_setEdge_self h f hi]
  · rw [if_neg hj, edge_setEdge_ne h f hj]

@[simp] theorem size_setEdge (h : HMesh) (i : Nat) (f : HEdge → HEdge) :
    (h.setEdge i f).edges.size = h.edges.size := by
  simp [HMesh.setEdge]

@[simp] theorem setEdge_verts (h : HMesh) (i : Nat) (f : HEdge → HEdge) :
    (h.setEdge i f).verts = h.verts := rfl
@[simp] theorem setEdge_elems (h : HMesh) (i : Nat) (f : HEdge → HEdge) :
    (h.setEdge i f).elems = h.elems := rfl
@[simp] theorem setEdge_leaves (h : HMesh) (i : Nat) (f : HEdge → HEdge) :
    (h.setEdge i f).leaves = h.leaves := rfl
@[simp] theorem setEdge_nElems (h : HMesh) (i : Nat) (f : HEdge → HEdge) :
    (h.setEdge i f).nElems = h.nElems := rfl
@[simp] theorem setEdge_vert (h : HMesh) (i : Nat) (f : HEdge → HEdge) (j : Nat) :
    (h.setEdge i f).vert j = h.vert j := rfl
@[simp] theorem setEdge_elem (h : HMesh) (i : Nat) (f : HEdge → HEdge) (j : Nat) :
    (h.setEdge i f).elem j = h.elem j := rfl

theorem edge_newEdge_lt (h : HMesh) (v0 v1 : Nat) (p : Option Nat) {j : Nat} (hj : j < h.edges.size) :
    (h.newEdge v0 v1 p).1.edge j = h.edge j := by
  simp only [edge_def, HMesh.newEdge, Array.getElem?_push]
  rw [if_neg (by omega)]

theorem edge_newEdge_self (h : HMesh) (v0 v1 : Nat) (p : Option Nat) :
    (h.newEdge v0 v1 p).1.edge h.edges.size = h.mkEdge v0 v1 p := by
  simp [edge_def, HMesh.newEdge]

@[simp] theorem newEdge_snd (h : HMesh) (v0 v1 : Nat) (p : Option Nat) :
    (h.newEdge v0 v1 p).2 = h.edges.size := rfl

@[simp] theorem size_newEdge (h : HMesh) (v0 v1 : Nat) (p : Option Nat) :
    (h.newEdge v0 v1 p).1.edges.size = h.edges.size + 1 := by
  simp [HMesh.newEdge]

@[simp] theorem newEdge_verts (h : HMesh) (v0 v1 : Nat) (p : Option Nat) :
    (h.newEdge v0 v1 p).1.verts = h.verts := rfl
@[simp] theorem newEdge_elems (h : HMesh) (v0 v1 : Nat) (p : Option Nat) :
    (h.newEdge v0 v1 p).1.elems = h.elems := rfl
@[simp] theorem newEdge_leaves (h : HMesh) (v0 v1 : Nat) (p : Option Nat) :
    (h.newEdge v0 v1 p).1.leaves = h.leaves := rfl
@[simp] theorem newEdge_nElems (h : HMesh) (v0 v1 : Nat) (p : Option Nat) :
    (h.newEdge v0 v1 p).1.nElems = h.nElems := rfl
@[simp] theorem newEdge_vert (h : HMesh) (v0 v1 : Nat) (p : Option Nat) (j : Nat) :
    (h.newEdge v0 v1 p).1.vert j = h.vert j := rfl
@[simp] theorem newEdge_elem (h : HMesh) (v0 v1 : Nat) (p : Option Nat) (j : Nat) :
    (h.newEdge v0 v1 p).1.elem j = h.elem j := rfl

theorem edge_ge_size (h : HMesh) {j : Nat} (hj : h.edges.size ≤ j) : h.edge j = {} := by
  simp [edge_def, Array.getElem?_eq_none hj]

/-! ### vertices -/

theorem vert_def (h : HMesh) (i : Nat) : h.vert i = (h.verts[i]?).getD {} := by
  simp [HMesh.vert, Array.getD_eq_getD_getElem?]

theorem vert_pushVert_lt (h : HMesh) (t x : Rat) {j : Nat} (hj : j < h.verts.size) :
    (h.pushVert t x).1.vert j = h.vert j := by
  simp only [vert_def, HMesh.pushVert, Array.getElem?_push]
  rw [if_neg (by omega)]

theorem vert_pushVert_self (h : HMesh) (t x : Rat) :
    (h.pushVert t x).1.vert h.verts.size = { t := t, x := x, idx := h.verts.size } := by
  simp [vert_def, HMesh.pushVert]

@[simp] theorem pushVert_snd (h : HMesh) (t x : Rat) : (h.pushVert t x).2 = h.verts.size := rfl
@[simp] theorem size_pushVert (h : HMesh) (t x : Rat) :
    (h.pushVert t x).1.verts.size = h.verts.size + 1 := by simp [HMesh.pushVert]
@[simp] theorem pushVert_edges (h : HMesh) (t x : Rat) : (h.pushVert t x).1.edges = h.edges := rfl
@[simp] theorem pushVert_elems (h : HMesh) (t x : Rat) : (h.pushVert t x).1.elems = h.elems := rfl
@[simp] theorem pushVert_leaves (h : HMesh) (t x : Rat) : (h.pushVert t x).1.leaves = h.leaves := rfl
@[simp] theorem pushVert_nElems (h : HMesh) (t x : Rat) : (h.pushVert t x).1.nElems = h.nElems := rfl
@[simp] theorem pushVert_edge (h : HMesh) (t x : Rat) (j : Nat) : (h.pushVert t x).1.edge j = h.edge j := rfl
@[simp] theorem pushVert_elem (h : HMesh) (t x : Rat) (j : Nat) : (h.pushVert t x).1.elem j = h.elem j := rfl

/-! ### elements -/

theorem elem_def (h : HMesh) (i : Nat) : h.elem i = (h.elems[i]?).getD {} := by
  simp [HMesh.elem, Array.getD_eq_getD_getElem?]

theorem elem_setElem_ne (h : HMesh) {i j : Nat} (f : HElem → HElem) (hne : j ≠ i) :
    (h.setElem i f).elem j = h.elem j := by
  simp only [elem_def, HMesh.setElem, Array.getElem?_modify]
  rw [if_neg (fun e => hne e.symm)]

theorem elem_setElem_self (h : HMesh) {i : Nat} (f : HElem → HElem) (hi : i < h.elems.size) :
    (h.setElem i f).elem i = f (h.elem i) := by
  simp only [elem_def, HMesh.setElem, Array.getElem?_modify, if_true]
  rw [Array.getElem?_eq_getElem hi]
  rfl

@[simp] theorem size_setElem (h : HMesh) (i : Nat) (f : HElem → HElem) :
    (h.setElem i f).elems.size = h.elems.size := by
  simp [HMesh.setElem]
@[simp] theorem setElem_verts (h : HMesh) (i : Nat) (f : HElem → HElem) : (h.setElem i f).verts = h.verts := rfl
@[simp] theorem setElem_edges (h : HMesh) (i : Nat) (f : HElem → HElem) : (h.setElem i f).edges = h.edges := rfl
@[simp] theorem setElem_leaves (h : HMesh) (i : Nat) (f : HElem → HElem) : (h.setElem i f).leaves = h.leaves := rfl
@[simp] theorem setElem_nElems (h : HMesh) (i : Nat) (f : HElem → HElem) : (h.setElem i f).nElems = h.nElems := rfl
@[simp] theorem setElem_vert (h : HMesh) (i : Nat) (f : HElem → HElem) (j : Nat) : (h.setElem i f).vert j = h.vert j := rfl
@[simp] theorem setElem_edge (h : HMesh) (i : Nat) (f : HElem → HElem) (j : Nat) : (h.setElem i f).edge j = h.edge j := rfl

/-! ### `neighbour_elements`: the recursion returns after one step -/

theorem neighbourElementsF_succ (fuel : Nat) (h : HMesh) (ei : Nat) :
    neighbourElementsF (fuel + 1) h ei =
      (match (h.edge ei).nbr with
      | some f =>
        match (h.edge f).kids with
        | none => pure [(h.edge f).elem]
        | some (f0, f1) => pure [(h.edge f0).elem, (h.edge f1).elem]
      | none =>
        match (h.edge ei).parent.filter fun p => (h.edge p).nbr.isSome with
        | some p => neighbourElementsF fuel h p
        | none => do
          assert ((h.edge ei).onBoundary && !(h.edge ei).glued) "no-neighbour-not-boundary"
          pure []) := by
  rw [neighbourElementsF]
  rfl

theorem neighbourElementsF_fuel (h : HMesh) (ei : Nat) (fuel : Nat) :
    neighbourElementsF (fuel + 2) h ei = neighbourElementsF 2 h ei := by
  rw [neighbourElementsF_succ (fuel + 1), neighbourElementsF_succ 1]
  cases hn : (h.edge ei).nbr with
  | some f => rfl
  | none =>
    simp only
    cases hp : ((h.edge ei).parent.filter fun p => (h.edge p).nbr.isSome) with
    | none => rfl
    | some p =>
      simp only
      have hpn : (h.edge p).nbr.isSome = true := (Option.filter_eq_some_iff.mp hp).2
      rw [neighbourElementsF_succ fuel, neighbourElementsF_succ 0]
      cases hq : (h.edge p).nbr with
      | none => rw [hq] at hpn; cases hpn
      | some f => rfl

end Stbem.HalfEdge
