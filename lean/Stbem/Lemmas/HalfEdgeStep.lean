import Stbem.Lemmas.HalfEdgeRes
import Stbem.Lemmas.HalfEdgeCases

/-!
# H-layer: one legal bisection — `refine_axis` does not assert and preserves the pointer invariant

`Legal h el ax`: every edge-neighbour of the leaf `el` is at least as deep in the axis `ax` (this is what the
conformity loop of `refine_axis` establishes, `outer_loop` of the A-layer).
-/
namespace Stbem.HalfEdge
open Stbem.Mesh (Ax Side Cell Mesh Inv Adj nbrs)

/-- all edge-neighbours of the leaf are at least as deep in the axis (what the conformity loop establishes) -/
def Legal (h : HMesh) (el : Nat) (ax : Ax) : Prop :=
  ∀ s, ∀ n ∈ h.abs.leaves, Adj h.abs (h.cellOf el) s n → (h.cellOf el).level ax ≤ n.level ax

theorem sideAx_bis (ax : Ax) : sideAx (bisSide ax) = ax ∧ sideAx (bisSide ax).opp = ax := by
  cases ax <;> exact ⟨rfl, rfl⟩

theorem cellOf_level (h : HMesh) (n : Nat) (ax : Ax) : (h.cellOf n).level ax = (h.elem n).level ax := by
  cases ax <;> rfl

theorem corner_inj {c : Cell} (hp : c.t0 < c.t1 ∧ c.x0 < c.x1) {s s' : Side} (e : corner c s = corner c s') :
    s = s' := by
  obtain ⟨p1, p2⟩ := hp
  have e1 := congrArg Prod.fst e
  have e2 := congrArg Prod.snd e
  cases s <;> cases s' <;> simp only [corner] at e1 e2 <;> first | rfl | (exfalso; linarith)

theorem sideNext_bis_ne (ax : Ax) : bisSide ax ≠ sideNext (bisSide ax).opp := by
  cases ax <;> simp [bisSide, sideNext, Side.opp]

section
variable {h : HMesh} (hi : HInv h)
include hi

theorem HInv.side_inj {el : Nat} (hel : el ∈ h.leaves) {s s' : Side}
    (e : (h.elem el).side s = (h.elem el).side s') : s = s' := by
  have g := hi.geom el hel
  apply corner_inj g.proper
  rw [← g.start s, ← g.start s', e]

/-- an edge owned by a leaf is one of its sides only for that leaf -/
theorem HInv.owner_unique {n m : Nat} (hn : n ∈ h.leaves) (hm : m ∈ h.leaves) {s t : Side}
    (e : (h.elem n).side s = (h.elem m).side t) : n = m := by
  have a := hi.own.elem n hn s
  have b := hi.own.elem m hm t
  rw [e, b] at a
  exact (Option.some.inj a).symm

/-- case (c) cannot occur on a side whose neighbours are all at least as deep in its axis -/
theorem HInv.no_caseC (ha : Inv h.abs) {el : Nat} (hel : el ∈ h.leaves) {ax : Ax} (hl : Legal h el ax) {s : Side}
    (hs : sideAx s = ax) : ¬ CaseC h ((h.elem el).side s) s := by
  rintro ⟨p, k0, k1, f, n, h1, h2, hk, he, -, h6, h7, -, hn, hf, ho, hlev⟩
  have hnb := caseC_nbrs hi ha hel hk he hn hf ho
  have hmem : h.cellOf n ∈ nbrs h.abs (h.cellOf el) s := by rw [hnb]; simp
  obtain ⟨m1, m2⟩ := Stbem.Mesh.mem_nbrs.mp hmem
  have := hl s _ m1 m2
  rw [cellOf_level, cellOf_level] at this
  have := hlev el (hi.own.elem el hel s)
  rw [hs] at this
  omega

/-- `nbr_edge.children` of the edge `e` (empty when there is no neighbour edge) -/
def linkOf (h : HMesh) (e : Nat) : Option (Nat × Nat) :=
  match (h.edge e).nbr with
  | none => none
  | some f => (h.edge f).kids

theorem HInv.side_lt {el : Nat} (hel : el ∈ h.leaves) (s : Side) : (h.elem el).side s < h.edges.size :=
  hi.wf.elemE el (hi.wf.leaf el hel) s

theorem HInv.linkDesc (ha : Inv h.abs) {el : Nat} (hel : el ∈ h.leaves) {ax : Ax} (hl : Legal h el ax) {s : Side}
    (hs : sideAx s = ax) :
    LinkDesc h el ((h.elem el).side s) (linkOf h ((h.elem el).side s)) := by
  have her := hi.side_lt hel s
  rcases hi.cases el hel s with hA | hB | hC | hD
  · obtain ⟨f, n, h1, h2, h3, hn, hf, ho, -⟩ := hA
    have : linkOf h ((h.elem el).side s) = none := by unfold linkOf; rw [h1]; exact h2
    rw [this]
    refine Or.inr ⟨f, h1, hi.wf.edgeN _ her f h1, ?_, h2⟩
    intro e
    rw [← hf] at e
    have hnel := hi.owner_unique hn hel e
    subst hnel
    have := hi.side_inj hel e
    cases s <;> cases this
  · obtain ⟨f, f0, f1, n0, n1, h1, h2, h3, hk, ho, z0, z1, hn0, hf0, hn1, hf1, hlev⟩ := hB
    have : linkOf h ((h.elem el).side s) = some (f0, f1) := by unfold linkOf; rw [h1]; exact hk.kids
    rw [this]
    have hfr := hi.wf.edgeN _ her f h1
    obtain ⟨r0, r1⟩ := hi.wf.edgeK f hfr _ hk.kids
    obtain ⟨l0, l1⟩ := hlev el (hi.own.elem el hel s)
    refine ⟨f, h1, hfr, ?_, hk.kids, r0, r1, ?_, ?_, hk.ne, ?_, z0, z1⟩
    · intro s' e
      have := hi.own.elem el hel s'
      rw [← e, h3] at this
      cases this
    · intro s' e
      rw [← hf0] at e
      have := hi.owner_unique hn0 hel e
      subst this
      omega
    · intro s' e
      rw [← hf1] at e
      have := hi.owner_unique hn1 hel e
      subst this
      omega
    · intro hg
      obtain ⟨-, ho2⟩ := ho
      rw [hg] at ho2
      simp only [Bool.false_eq_true, if_false] at ho2
      exact ⟨ho2.2.symm, ho2.1.symm⟩
  · exact absurd hC (hi.no_caseC ha hel hl hs)
  · obtain ⟨h1, -⟩ := hD
    have : linkOf h ((h.elem el).side s) = none := by unfold linkOf; rw [h1]
    rw [this]
    exact Or.inl h1

/-- the vertex in the middle of a refined, unglued neighbour edge is the mid point of the own edge -/
theorem HInv.link_mid {el : Nat} (hel : el ∈ h.leaves) {s : Side} {a0 a1 : Nat}
    (hL : linkOf h ((h.elem el).side s) = some (a0, a1))
    (hg : (h.edge ((h.elem el).side s)).glued = false) :
    (h.edge a0).v1 < h.verts.size ∧
    h.pt (h.edge a0).v1 = mid (h.pt (h.edge ((h.elem el).side s)).v0) (h.pt (h.edge ((h.elem el).side s)).v1) := by
  have her := hi.side_lt hel s
  rcases hi.cases el hel s with hA | hB | hC | hD
  · obtain ⟨f, n, h1, h2, -⟩ := hA
    unfold linkOf at hL; rw [h1] at hL; change (h.edge f).kids = _ at hL; rw [h2] at hL; cases hL
  · obtain ⟨f, f0, f1, n0, n1, h1, h2, h3, hk, ho, -⟩ := hB
    unfold linkOf at hL
    rw [h1] at hL
    change (h.edge f).kids = _ at hL
    rw [hk.kids] at hL
    cases hL
    have hfr := hi.wf.edgeN _ her f h1
    obtain ⟨r0, r1⟩ := hi.wf.edgeK f hfr _ hk.kids
    refine ⟨(hi.wf.edgeV _ r0).2, ?_⟩
    obtain ⟨-, ho2⟩ := ho
    rw [hg] at ho2
    simp only [Bool.false_eq_true, if_false] at ho2
    rw [hk.midpt, ho2.1, ho2.2, mid_comm]
  · obtain ⟨p, k0, k1, f, n, h1, -⟩ := hC
    unfold linkOf at hL; rw [h1] at hL; cases hL
  · obtain ⟨h1, -⟩ := hD
    unfold linkOf at hL; rw [h1] at hL; cases hL

/-- a refined neighbour edge means case (b), with these children -/
theorem HInv.caseB_of_link {el : Nat} (hel : el ∈ h.leaves) {s : Side} {a0 a1 : Nat}
    (hL : linkOf h ((h.elem el).side s) = some (a0, a1)) :
    ∃ f n0 n1, (h.edge ((h.elem el).side s)).nbr = some f ∧ (h.edge f).nbr = some ((h.elem el).side s) ∧
      (h.edge f).elem = none ∧ KidsCover h f a0 a1 ∧ Opp h ((h.elem el).side s) f ∧
      (h.edge a0).nbr = none ∧ (h.edge a1).nbr = none ∧
      n0 ∈ h.leaves ∧ (h.elem n0).side s.opp = a0 ∧ n1 ∈ h.leaves ∧ (h.elem n1).side s.opp = a1 ∧
      (h.elem n0).level (sideAx s) = (h.elem el).level (sideAx s) + 1 ∧
      (h.elem n1).level (sideAx s) = (h.elem el).level (sideAx s) + 1 := by
  rcases hi.cases el hel s with hA | hB | hC | hD
  · obtain ⟨f, n, h1, h2, -⟩ := hA
    unfold linkOf at hL; rw [h1] at hL; change (h.edge f).kids = _ at hL; rw [h2] at hL; cases hL
  · obtain ⟨f, f0, f1, n0, n1, h1, h2, h3, hk, ho, z0, z1, hn0, hf0, hn1, hf1, hlev⟩ := hB
    unfold linkOf at hL
    rw [h1] at hL
    change (h.edge f).kids = _ at hL
    rw [hk.kids] at hL
    cases hL
    obtain ⟨l0, l1⟩ := hlev el (hi.own.elem el hel s)
    exact ⟨f, n0, n1, h1, h2, h3, hk, ho, z0, z1, hn0, hf0, hn1, hf1, l0, l1⟩
  · obtain ⟨p, k0, k1, f, n, h1, -⟩ := hC
    unfold linkOf at hL; rw [h1] at hL; cases hL
  · obtain ⟨h1, -⟩ := hD
    unfold linkOf at hL; rw [h1] at hL; cases hL

theorem HInv.bisectPre (ha : Inv h.abs) {el : Nat} (hel : el ∈ h.leaves) {ax : Ax} (hl : Legal h el ax) :
    BisectPre h el ax (linkOf h ((h.elem el).side (bisSide ax))) (linkOf h ((h.elem el).side (bisSide ax).opp)) := by
  have g := hi.geom el hel
  obtain ⟨sa1, sa2⟩ := sideAx_bis ax
  refine ⟨hi.wf.leaf el hel, hi.own.leafKids el hel, hel, hi.side_lt hel, fun s s' e => hi.side_inj hel e,
    hi.own.elem el hel, hi.own.unref el hel, fun s => (hi.wf.edgeV _ (hi.side_lt hel s)).1, g.chain, g.start,
    g.proper, hi.linkDesc ha hel hl sa1, hi.linkDesc ha hel hl sa2, ?_, ?_,
    fun a0 a1 hL hg => hi.link_mid hel hL hg, fun b0 b1 hL hg => hi.link_mid hel hL hg⟩
  · -- the single glued column
    intro hs
    rcases hi.cases el hel (bisSide ax).opp with hA | hB | hC | hD
    · obtain ⟨f, n, h1, h2, h3, hn, hf, ho, -⟩ := hA
      rw [hs] at h1
      cases h1
      constructor
      · unfold linkOf; rw [h3]; exact hi.own.unref el hel _
      · by_contra hg
        have hg' : (h.edge ((h.elem el).side (bisSide ax).opp)).glued = false := by
          cases hgg : (h.edge ((h.elem el).side (bisSide ax).opp)).glued
          · rfl
          · exact absurd hgg hg
        obtain ⟨-, ho2⟩ := ho
        rw [hg'] at ho2
        simp only [Bool.false_eq_true, if_false] at ho2
        have e := g.start (bisSide ax)
        rw [ho2.1, g.chain, g.start] at e
        exact sideNext_bis_ne ax (corner_inj g.proper e).symm
    · obtain ⟨f, f0, f1, n0, n1, h1, h2, h3, hk, -⟩ := hB
      rw [hs] at h1
      cases h1
      have := hi.own.unref el hel (bisSide ax)
      rw [hk.kids] at this
      cases this
    · obtain ⟨p, k0, k1, f, n, h1, -⟩ := hC
      rw [hs] at h1; cases h1
    · obtain ⟨h1, -⟩ := hD
      rw [hs] at h1; cases h1
  · intro a0 a1 b0 b1 hLa hLb
    obtain ⟨fa, -, -, na, fan, -, ka, -⟩ := hi.caseB_of_link hel hLa
    obtain ⟨fb, -, -, nb, fbn, -, kb, -⟩ := hi.caseB_of_link hel hLb
    have hne : fa ≠ fb := by
      rintro rfl
      rw [fan] at fbn
      exact bisSide_opp_ne ax (hi.side_inj hel (Option.some.inj fbn)).symm
    have key : ∀ x, (h.edge x).parent = some fa → (h.edge x).parent = some fb → False := by
      intro x p1 p2
      rw [p1] at p2
      exact hne (Option.some.inj p2)
    refine ⟨?_, ?_, ?_, ?_⟩
    · rintro rfl; exact key _ ka.par0 kb.par0
    · rintro rfl; exact key _ ka.par0 kb.par1
    · rintro rfl; exact key _ ka.par1 kb.par0
    · rintro rfl; exact key _ ka.par1 kb.par1
end

end Stbem.HalfEdge
