import Stbem.Lemmas.HalfEdgeStep

/-!
# H-layer: one legal bisection preserves the pointer invariant (`HInv`)
-/
namespace Stbem.HalfEdge
open Stbem.Mesh (Ax Side Cell Mesh Inv Adj nbrs children)

/-- the hypotheses of one legal bisection -/
structure Ctx (h : HMesh) (el : Nat) (ax : Ax) : Prop where
  hi : HInv h
  ha : Inv h.abs
  hel : el ∈ h.leaves
  hl : Legal h el ax

def LA (h : HMesh) (el : Nat) (ax : Ax) : Option (Nat × Nat) := linkOf h ((h.elem el).side (bisSide ax))
def LB (h : HMesh) (el : Nat) (ax : Ax) : Option (Nat × Nat) := linkOf h ((h.elem el).side (bisSide ax).opp)

/-- the mesh after the bisection of `el` -/
abbrev res (h : HMesh) (el : Nat) (ax : Ax) : HMesh := bisectRes h el ax (LA h el ax) (LB h el ax)

theorem mem_res_leaves (h : HMesh) (el : Nat) (ax : Ax) (l : Nat) :
    l ∈ (res h el ax).leaves ↔ (l ∈ h.leaves ∧ l ≠ el) ∨ l = h.elems.size ∨ l = h.elems.size + 1 := by
  rw [res_leaves]
  simp only [List.mem_append, List.mem_filter, bne_iff_ne, ne_eq, List.mem_cons, List.not_mem_nil, or_false]

theorem linkUpd_nbr (L : Option (Nat × Nat)) (K j : Nat) (e : HEdge) (f : Nat)
    (hf : (linkUpd L K j e).nbr = some f) : f = K ∨ f = K + 1 ∨ e.nbr = some f := by
  unfold linkUpd at hf
  cases L with
  | none => exact Or.inr (Or.inr hf)
  | some p =>
    obtain ⟨f0, f1⟩ := p
    simp only at hf
    split_ifs at hf
    · simp only [setNbr, Option.some.injEq] at hf; omega
    · simp only [setNbr, Option.some.injEq] at hf; omega
    · exact Or.inr (Or.inr hf)

theorem vidx_bisectEdgeRes (h : HMesh) (ei : Nat) (L : Option (Nat × Nat))
    (hv : ∀ v < h.verts.size, (h.vert v).idx = v) :
    ∀ v < (bisectEdgeRes h ei L).verts.size, ((bisectEdgeRes h ei L).vert v).idx = v := by
  intro v hlt
  have hvs := bisectEdgeRes_verts h ei L
  split at hvs
  · rw [vert_of_verts_eq hvs]
    rw [hvs, pushMid_size] at hlt
    by_cases hv' : v < h.verts.size
    · rw [pushMid_vert_lt h ei hv']; exact hv v hv'
    · have : v = h.verts.size := by omega
      subst this
      rw [pushMid_vert_self]
  · rw [vert_of_verts_eq hvs]
    rw [hvs] at hlt
    exact hv v hlt

/-- `Opp` only depends on the `glued` flags, the vertex handles, their coordinates and the box -/
theorem opp_transfer {h R : HMesh} {e f e' f' : Nat}
    (ge : (R.edge e').glued = (h.edge e).glued) (gf : (R.edge f').glued = (h.edge f).glued)
    (e0 : (R.edge e').v0 = (h.edge e).v0) (e1 : (R.edge e').v1 = (h.edge e).v1)
    (f0 : (R.edge f').v0 = (h.edge f).v0) (f1 : (R.edge f').v1 = (h.edge f).v1)
    (p0 : R.pt (h.edge e).v0 = h.pt (h.edge e).v0) (p1 : R.pt (h.edge e).v1 = h.pt (h.edge e).v1)
    (q0 : R.pt (h.edge f).v0 = h.pt (h.edge f).v0) (q1 : R.pt (h.edge f).v1 = h.pt (h.edge f).v1)
    (bx : R.xmin = h.xmin ∧ R.xmax = h.xmax) (ho : Opp h e f) : Opp R e' f' := by
  obtain ⟨o1, o2⟩ := ho
  refine ⟨by rw [ge, gf, o1], ?_⟩
  rw [ge, e0, e1, f0, f1]
  split
  · rename_i hg
    rw [if_pos hg] at o2
    unfold SeamEq at o2 ⊢
    rw [p0, p1, q0, q1, bx.1, bx.2]
    exact o2
  · rename_i hg
    rw [if_neg hg] at o2
    exact o2

theorem sideAx_opp (s : Side) : sideAx s.opp = sideAx s := by cases s <;> rfl
theorem sideAx_mid (ax : Ax) : sideAx (midSide ax) ≠ ax ∧ sideAx (midSide ax).opp ≠ ax := by
  cases ax <;> simp [midSide, bisSide, sideNext, sideAx, Side.opp]
theorem opp_opp (s : Side) : s.opp.opp = s := by cases s <;> rfl

theorem cellOf_id (h : HMesh) (el : Nat) : (h.cellOf el).id = (h.elem el).id := rfl
theorem cellOf_lt (h : HMesh) (el : Nat) : (h.cellOf el).lt = (h.elem el).lt := rfl
theorem cellOf_lx (h : HMesh) (el : Nat) : (h.cellOf el).lx = (h.elem el).lx := rfl
theorem cellOf_piece (h : HMesh) (el : Nat) : (h.cellOf el).piece = (h.elem el).piece := rfl

theorem cellOf_def (h : HMesh) (el : Nat) :
    h.cellOf el =
      { t0 := (h.vert (h.edge (h.elem el).e0).v0).t, t1 := (h.vert (h.edge (h.elem el).e2).v0).t,
        x0 := (h.vert (h.edge (h.elem el).e0).v0).x, x1 := (h.vert (h.edge (h.elem el).e2).v0).x,
        lt := (h.elem el).lt, lx := (h.elem el).lx, id := (h.elem el).id,
        par := (h.elem el).parent.map fun p => (h.elem p).id, piece := (h.elem el).piece } := rfl

theorem onBoundary_res (h : HMesh) (el : Nat) (ax : Ax) (c : Cell) (s : Side) :
    Stbem.Mesh.onBoundary (res h el ax).abs c s = Stbem.Mesh.onBoundary h.abs c s := by
  obtain ⟨-, b1, b2, b3, b4⟩ := res_box h el ax (LA h el ax) (LB h el ax)
  cases s <;> simp only [Stbem.Mesh.onBoundary, HMesh.abs, b1, b2, b3, b4] <;> rfl

theorem isSeam_res (h : HMesh) (el : Nat) (ax : Ax) (c : Cell) (s : Side) :
    isSeam (res h el ax) c s = isSeam h c s := by
  unfold isSeam
  rw [onBoundary_res, (res_box h el ax _ _).1]

section
variable {h : HMesh} {el : Nat} {ax : Ax} (C : Ctx h el ax)
include C

theorem Ctx.pre : BisectPre h el ax (LA h el ax) (LB h el ax) := C.hi.bisectPre C.ha C.hel C.hl

/-- `refine_axis` after the conformity loop does not raise -/
theorem Ctx.run : h.bisectElem el ax = .ok (res h el ax) := C.pre.run

theorem Ctx.elr : el < h.elems.size := C.hi.wf.leaf el C.hel

/-- an edge of another leaf is not an edge of `el` -/
theorem Ctx.not_el_edge {l : Nat} (hl : l ∈ h.leaves) (hne : l ≠ el) (t : Side) :
    ∀ s, (h.elem l).side t ≠ (h.elem el).side s := by
  intro s e
  exact hne (C.hi.owner_unique hl C.hel e)

/-- the final edge record of an old edge that is not an edge of `el` -/
theorem Ctx.edge_other {j : Nat} (hj : j < h.edges.size) (hne : ∀ s, j ≠ (h.elem el).side s) :
    (res h el ax).edge j =
      linkUpd (lbEff h el ax (LB h el ax)) (h.edges.size + 2) j (linkUpd (LA h el ax) h.edges.size j (h.edge j)) :=
  C.pre.res_edge_other hj hne

theorem Ctx.edge_other_fields {j : Nat} (hj : j < h.edges.size) (hne : ∀ s, j ≠ (h.elem el).side s) :
    ((res h el ax).edge j).kids = (h.edge j).kids ∧ ((res h el ax).edge j).v0 = (h.edge j).v0 ∧
    ((res h el ax).edge j).v1 = (h.edge j).v1 ∧ ((res h el ax).edge j).glued = (h.edge j).glued ∧
    ((res h el ax).edge j).parent = (h.edge j).parent ∧
    ((res h el ax).edge j).onBoundary = (h.edge j).onBoundary ∧ ((res h el ax).edge j).elem = (h.edge j).elem := by
  rw [C.edge_other hj hne]
  obtain ⟨a1, a2, a3, a4, a5, a6, a7⟩ := linkUpd_fields (lbEff h el ax (LB h el ax)) (h.edges.size + 2) j
    (linkUpd (LA h el ax) h.edges.size j (h.edge j))
  obtain ⟨b1, b2, b3, b4, b5, b6, b7⟩ := linkUpd_fields (LA h el ax) h.edges.size j (h.edge j)
  exact ⟨a1.trans b1, a2.trans b2, a3.trans b3, a4.trans b4, a5.trans b5, a6.trans b6, a7.trans b7⟩

/-- `nbr_edge` of an old edge outside `el` changes only for the children of the refined neighbour edges -/
theorem Ctx.edge_other_nbr {j : Nat} (hj : j < h.edges.size) (hne : ∀ s, j ≠ (h.elem el).side s)
    (ha : ∀ a0 a1, LA h el ax = some (a0, a1) → j ≠ a0 ∧ j ≠ a1)
    (hb : ∀ b0 b1, LB h el ax = some (b0, b1) → j ≠ b0 ∧ j ≠ b1) :
    ((res h el ax).edge j).nbr = (h.edge j).nbr := by
  rw [C.edge_other hj hne, linkUpd_not_mem, linkUpd_not_mem _ ha]
  intro b0 b1 e
  unfold lbEff at e
  split at e
  · cases e; constructor <;> omega
  · exact hb b0 b1 e

theorem Ctx.elem_old {k : Nat} (hk : k < h.elems.size) (hne : k ≠ el) : (res h el ax).elem k = h.elem k :=
  res_elem_old h el ax _ _ hk hne

theorem Ctx.elem_fields {k : Nat} (hk : k < h.elems.size) :
    ((res h el ax).elem k).id = (h.elem k).id ∧ ((res h el ax).elem k).lt = (h.elem k).lt ∧
    ((res h el ax).elem k).lx = (h.elem k).lx ∧ ((res h el ax).elem k).piece = (h.elem k).piece ∧
    ((res h el ax).elem k).parent = (h.elem k).parent ∧
    (∀ s, ((res h el ax).elem k).side s = (h.elem k).side s) := by
  by_cases hne : k = el
  · subst hne
    unfold res
    rw [C.pre.res_elem_el]
    exact ⟨rfl, rfl, rfl, rfl, rfl, fun s => by cases s <;> rfl⟩
  · rw [C.elem_old hk hne]
    exact ⟨rfl, rfl, rfl, rfl, rfl, fun s => rfl⟩

theorem Ctx.leaf_lt {l : Nat} (hl : l ∈ h.leaves) : l < h.elems.size := C.hi.wf.leaf l hl

theorem Ctx.side_lt {l : Nat} (hl : l ∈ h.leaves) (t : Side) : (h.elem l).side t < h.edges.size :=
  C.hi.side_lt hl t

theorem Ctx.v0_lt {l : Nat} (hl : l ∈ h.leaves) (t : Side) :
    (h.edge ((h.elem l).side t)).v0 < h.verts.size ∧ (h.edge ((h.elem l).side t)).v1 < h.verts.size :=
  C.hi.wf.edgeV _ (C.side_lt hl t)

/-- coordinates of old vertices are unchanged -/
theorem Ctx.pt_old {v : Nat} (hv : v < h.verts.size) : (res h el ax).pt v = h.pt v :=
  pt_of_vert (res_vert_old h el ax _ _ hv)

theorem Ctx.cellOf_old {l : Nat} (hl : l ∈ h.leaves) (hne : l ≠ el) : (res h el ax).cellOf l = h.cellOf l := by
  have hlt := C.leaf_lt hl
  rw [cellOf_def, cellOf_def, C.elem_old hlt hne]
  have e0 := C.edge_other_fields (C.side_lt hl .bottom) (C.not_el_edge hl hne .bottom)
  have e2 := C.edge_other_fields (C.side_lt hl .top) (C.not_el_edge hl hne .top)
  simp only [HElem.side] at e0 e2
  have w0 := res_vert_old h el ax (LA h el ax) (LB h el ax) (C.v0_lt hl .bottom).1
  have w2 := res_vert_old h el ax (LA h el ax) (LB h el ax) (C.v0_lt hl .top).1
  simp only [HElem.side] at w0 w2
  rw [e0.2.1, e2.2.1, w0, w2]
  congr 1
  cases hp : (h.elem l).parent with
  | none => rfl
  | some p =>
    have hp' := C.hi.wf.elemP l hlt p hp
    simp only [Option.map_some, (C.elem_fields hp').1]

theorem Ctx.geom_old {l : Nat} (hl : l ∈ h.leaves) (hne : l ≠ el) : ElemGeom (res h el ax) l := by
  have g := C.hi.geom l hl
  have hlt := C.leaf_lt hl
  refine ⟨fun s => ?_, fun s => ?_, ?_⟩
  · rw [C.elem_old hlt hne, (C.edge_other_fields (C.side_lt hl s) (C.not_el_edge hl hne s)).2.1,
      C.pt_old (C.v0_lt hl s).1, C.cellOf_old hl hne, g.start]
  · rw [C.elem_old hlt hne, (C.edge_other_fields (C.side_lt hl s) (C.not_el_edge hl hne s)).2.2.1,
      (C.edge_other_fields (C.side_lt hl _) (C.not_el_edge hl hne _)).2.1, g.chain]
  · rw [C.cellOf_old hl hne]; exact g.proper

theorem Ctx.flags_old {l : Nat} (hl : l ∈ h.leaves) (hne : l ≠ el) : FlagsOK (res h el ax) l := by
  intro s
  have f := C.hi.flags l hl s
  have e := C.edge_other_fields (C.side_lt hl s) (C.not_el_edge hl hne s)
  rw [C.elem_old (C.leaf_lt hl) hne, e.2.2.2.2.2.1, e.2.2.2.1, C.cellOf_old hl hne, onBoundary_res, isSeam_res]
  exact f

/-- start vertex of side `s` of `el`: unchanged coordinates in the result -/
theorem Ctx.pt_el_side (s : Side) :
    (res h el ax).pt (h.edge ((h.elem el).side s)).v0 = corner (h.cellOf el) s := by
  rw [C.pt_old (C.v0_lt C.hel s).1, (C.hi.geom el C.hel).start]

theorem Ctx.elem_el_id : ((res h el ax).elem el).id = (h.elem el).id := (C.elem_fields C.elr).1

theorem Ctx.cellOf_c1 : (res h el ax).cellOf h.elems.size = (children h.nElems (h.cellOf el) ax).1 := by
  have P := C.pre
  obtain ⟨n0, n1, n2, n3, n4, n5⟩ := P.res_new
  have sB := P.res_edge_side .bottom
  have pA := P.res_ptA.2
  have pB := P.res_ptB.2
  have qB := C.pt_el_side .bottom
  have hid := C.elem_el_id
  rw [cellOf_def, P.res_elem_c1]
  cases ax with
  | time =>
    simp only [childEdges, childLevels]
    simp only [bisSide, midSide, sideNext, Side.opp, HElem.side, reduceCtorEq, if_false] at sB pA pB qB
    rw [sB, n4]
    simp only [setOwner_v0]
    have a1 := congrArg Prod.fst pA; have a2 := congrArg Prod.snd pA
    have b1 := congrArg Prod.fst qB; have b2 := congrArg Prod.snd qB
    simp only [HMesh.pt, corner, mid] at a1 a2 b1 b2
    rw [a1, a2, b1, b2]
    simp only [children, Option.map_some, hid, Cell.mk.injEq, cellOf_id, cellOf_lt, cellOf_lx, cellOf_piece,
      true_and, and_true]
    ring
  | space =>
    simp only [childEdges, childLevels]
    simp only [bisSide, midSide, sideNext, Side.opp, HElem.side, reduceCtorEq, if_false] at sB pA pB qB n0 n3
    rw [n0, n3]
    simp only
    have a1 := congrArg Prod.fst pB; have a2 := congrArg Prod.snd pB
    have b1 := congrArg Prod.fst qB; have b2 := congrArg Prod.snd qB
    simp only [HMesh.pt, corner, mid] at a1 a2 b1 b2
    rw [a1, a2, b1, b2]
    simp only [children, Option.map_some, hid, Cell.mk.injEq, cellOf_id, cellOf_lt, cellOf_lx, cellOf_piece,
      true_and, and_true]
    constructor <;> ring

theorem Ctx.cellOf_c2 : (res h el ax).cellOf (h.elems.size + 1) = (children h.nElems (h.cellOf el) ax).2 := by
  have P := C.pre
  obtain ⟨n0, n1, n2, n3, n4, n5⟩ := P.res_new
  have sT := P.res_edge_side .top
  have pA := P.res_ptA.2
  have pB := P.res_ptB.2
  have qT := C.pt_el_side .top
  have hid := C.elem_el_id
  rw [cellOf_def, P.res_elem_c2]
  cases ax with
  | time =>
    simp only [childEdges, childLevels]
    simp only [bisSide, midSide, sideNext, Side.opp, HElem.side, reduceCtorEq, if_false, if_true] at sT pA pB qT
    rw [sT, n5]
    simp only [setOwner_v0]
    have a1 := congrArg Prod.fst pB; have a2 := congrArg Prod.snd pB
    have b1 := congrArg Prod.fst qT; have b2 := congrArg Prod.snd qT
    simp only [HMesh.pt, corner, mid] at a1 a2 b1 b2
    rw [a1, a2, b1, b2]
    simp only [children, Option.map_some, hid, Cell.mk.injEq, cellOf_id, cellOf_lt, cellOf_lx, cellOf_piece,
      true_and, and_true]
    constructor <;> ring
  | space =>
    simp only [childEdges, childLevels]
    simp only [bisSide, midSide, sideNext, Side.opp, HElem.side, reduceCtorEq, if_false, if_true] at sT pA pB qT n1 n2
    rw [n1, n2]
    simp only
    have a1 := congrArg Prod.fst pA; have a2 := congrArg Prod.snd pA
    have b1 := congrArg Prod.fst qT; have b2 := congrArg Prod.snd qT
    simp only [HMesh.pt, corner, mid] at a1 a2 b1 b2
    rw [a1, a2, b1, b2]
    simp only [children, Option.map_some, hid, Cell.mk.injEq, cellOf_id, cellOf_lt, cellOf_lx, cellOf_piece,
      true_and, and_true]
    ring

/-- the edge of side `s` of `child1` in the result -/
theorem Ctx.edge_c1 (s : Side) :
    (res h el ax).edge (c1Side (h.elem el) h.edges.size ax s) =
      if s = bisSide ax then (res h el ax).edge h.edges.size
      else if s = (bisSide ax).opp then (res h el ax).edge (h.edges.size + 3)
      else if s = midSide ax then (res h el ax).edge (h.edges.size + 4)
      else setOwner (some h.elems.size) (h.edge ((h.elem el).side s)) := by
  obtain ⟨d1, d2, d3, d4, d5, d6⟩ := side_distinct ax
  unfold c1Side
  split_ifs with a b c
  · rfl
  · rfl
  · rfl
  · have : s = (midSide ax).opp := by
      rcases side_cases ax s with e | e | e | e
      · exact absurd e a
      · exact absurd e b
      · exact absurd e c
      · exact e
    subst this
    rw [C.pre.res_edge_side, if_neg d5.symm, if_neg d3.symm, if_neg d6.symm]

theorem Ctx.edge_c2 (s : Side) :
    (res h el ax).edge (c2Side (h.elem el) h.edges.size ax s) =
      if s = bisSide ax then (res h el ax).edge (h.edges.size + 1)
      else if s = (bisSide ax).opp then (res h el ax).edge (h.edges.size + 2)
      else if s = midSide ax then setOwner (some (h.elems.size + 1)) (h.edge ((h.elem el).side s))
      else (res h el ax).edge (h.edges.size + 5) := by
  obtain ⟨d1, d2, d3, d4, d5, d6⟩ := side_distinct ax
  unfold c2Side
  split_ifs with a b c
  · rfl
  · rfl
  · subst c
    rw [C.pre.res_edge_side, if_neg d4.symm, if_neg d2.symm, if_pos rfl]
  · rfl

theorem Ctx.geom_c1 : ElemGeom (res h el ax) h.elems.size := by
  have P := C.pre
  obtain ⟨n0, n1, n2, n3, n4, n5⟩ := P.res_new
  have pA := P.res_ptA.2
  have pB := P.res_ptB.2
  have g := C.hi.geom el C.hel
  obtain ⟨p1, p2⟩ := g.proper
  refine ⟨fun s => ?_, fun s => ?_, ?_⟩
  · rw [P.res_c1_side, C.edge_c1, C.cellOf_c1]
    cases ax <;> cases s <;>
      simp only [bisSide, midSide, sideNext, Side.opp, reduceCtorEq, if_true, if_false, n0, n3, n4, setOwner_v0,
        C.pt_el_side, pA, pB, corner, children, mid, Prod.mk.injEq]
    all_goals (constructor <;> first | exact trivial | ring)
  · rw [P.res_c1_side, P.res_c1_side, C.edge_c1, C.edge_c1]
    have ch := g.chain
    cases ax <;> cases s <;>
      simp only [bisSide, midSide, sideNext, Side.opp, reduceCtorEq, if_true, if_false, n0, n3, n4, setOwner_v0,
        setOwner_v1, HElem.side] <;>
      first | exact ch .bottom | exact ch .right | exact ch .top | exact ch .left | rfl
  · rw [C.cellOf_c1]
    cases ax <;> simp only [children] <;> constructor <;> linarith

theorem Ctx.geom_c2 : ElemGeom (res h el ax) (h.elems.size + 1) := by
  have P := C.pre
  obtain ⟨n0, n1, n2, n3, n4, n5⟩ := P.res_new
  have pA := P.res_ptA.2
  have pB := P.res_ptB.2
  have g := C.hi.geom el C.hel
  obtain ⟨p1, p2⟩ := g.proper
  refine ⟨fun s => ?_, fun s => ?_, ?_⟩
  · rw [P.res_c2_side, C.edge_c2, C.cellOf_c2]
    cases ax <;> cases s <;>
      simp only [bisSide, midSide, sideNext, Side.opp, reduceCtorEq, if_true, if_false, n1, n2, n5, setOwner_v0,
        C.pt_el_side, pA, pB, corner, children, mid, Prod.mk.injEq]
    all_goals (constructor <;> first | exact trivial | ring)
  · rw [P.res_c2_side, P.res_c2_side, C.edge_c2, C.edge_c2]
    have ch := g.chain
    cases ax <;> cases s <;>
      simp only [bisSide, midSide, sideNext, Side.opp, reduceCtorEq, if_true, if_false, n1, n2, n5, setOwner_v0,
        setOwner_v1, HElem.side] <;>
      first | exact ch .bottom | exact ch .right | exact ch .top | exact ch .left | rfl
  · rw [C.cellOf_c2]
    cases ax <;> simp only [children] <;> constructor <;> linarith

/-- flags of the edges of `el` -/
theorem Ctx.flags_el (s : Side) :
    (h.edge ((h.elem el).side s)).onBoundary = Stbem.Mesh.onBoundary h.abs (h.cellOf el) s ∧
    (h.edge ((h.elem el).side s)).glued = isSeam h (h.cellOf el) s := C.hi.flags el C.hel s

theorem Ctx.flags_c1 : FlagsOK (res h el ax) h.elems.size := by
  have P := C.pre
  obtain ⟨n0, n1, n2, n3, n4, n5⟩ := P.res_new
  obtain ⟨p1, p2⟩ := (C.hi.geom el C.hel).proper
  obtain ⟨i1, i2, i3, i4⟩ := C.ha.tiles.inside (h.cellOf el) (mem_abs_leaves C.hel)
  have hb : ∀ s, Stbem.Mesh.onBoundary (res h el ax).abs ((res h el ax).cellOf h.elems.size) s =
      if s = midSide ax then false else Stbem.Mesh.onBoundary h.abs (h.cellOf el) s := by
    intro s
    rw [onBoundary_res, C.cellOf_c1]
    cases ax <;> cases s <;>
      simp only [midSide, bisSide, sideNext, reduceCtorEq, if_true, if_false, Stbem.Mesh.onBoundary, children]
    all_goals first
      | exact decide_eq_false (by intro e; linarith)
      | rfl
  intro s
  have fe := C.flags_el s
  have key : ((res h el ax).edge (c1Side (h.elem el) h.edges.size ax s)).onBoundary =
        (if s = midSide ax then false else (h.edge ((h.elem el).side s)).onBoundary) ∧
      ((res h el ax).edge (c1Side (h.elem el) h.edges.size ax s)).glued =
        (if s = midSide ax then false else (h.edge ((h.elem el).side s)).glued) := by
    rw [C.edge_c1]
    obtain ⟨d1, d2, d3, d4, d5, d6⟩ := side_distinct ax
    rcases side_cases ax s with rfl | rfl | rfl | rfl
    · rw [if_pos rfl, n0]; simp only [if_neg d2, and_self]
    · rw [if_neg d1.symm, if_pos rfl, n3]; simp only [if_neg d4, and_self]
    · rw [if_neg d2.symm, if_neg d4.symm, if_pos rfl, n4]; simp only [if_true, and_self]
    · rw [if_neg d3.symm, if_neg d5.symm, if_neg d6.symm]; simp only [if_neg d6.symm]; exact ⟨rfl, rfl⟩
  rw [P.res_c1_side, key.1, key.2]
  unfold isSeam
  rw [hb s, (res_box h el ax _ _).1]
  by_cases hs : s = midSide ax
  · simp [hs]
  · rw [if_neg hs, if_neg hs, if_neg hs]
    exact ⟨fe.1, fe.2⟩

theorem Ctx.flags_c2 : FlagsOK (res h el ax) (h.elems.size + 1) := by
  have P := C.pre
  obtain ⟨n0, n1, n2, n3, n4, n5⟩ := P.res_new
  obtain ⟨p1, p2⟩ := (C.hi.geom el C.hel).proper
  obtain ⟨i1, i2, i3, i4⟩ := C.ha.tiles.inside (h.cellOf el) (mem_abs_leaves C.hel)
  have hb : ∀ s, Stbem.Mesh.onBoundary (res h el ax).abs ((res h el ax).cellOf (h.elems.size + 1)) s =
      if s = (midSide ax).opp then false else Stbem.Mesh.onBoundary h.abs (h.cellOf el) s := by
    intro s
    rw [onBoundary_res, C.cellOf_c2]
    cases ax <;> cases s <;>
      simp only [midSide, bisSide, sideNext, Side.opp, reduceCtorEq, if_true, if_false, Stbem.Mesh.onBoundary,
        children]
    all_goals first
      | exact decide_eq_false (by intro e; linarith)
      | rfl
  intro s
  have fe := C.flags_el s
  have key : ((res h el ax).edge (c2Side (h.elem el) h.edges.size ax s)).onBoundary =
        (if s = (midSide ax).opp then false else (h.edge ((h.elem el).side s)).onBoundary) ∧
      ((res h el ax).edge (c2Side (h.elem el) h.edges.size ax s)).glued =
        (if s = (midSide ax).opp then false else (h.edge ((h.elem el).side s)).glued) := by
    rw [C.edge_c2]
    obtain ⟨d1, d2, d3, d4, d5, d6⟩ := side_distinct ax
    rcases side_cases ax s with rfl | rfl | rfl | rfl
    · rw [if_pos rfl, n1]; simp only [if_neg d3, and_self]
    · rw [if_neg d1.symm, if_pos rfl, n2]; simp only [if_neg d5, and_self]
    · rw [if_neg d2.symm, if_neg d4.symm, if_pos rfl]; simp only [if_neg d6]; exact ⟨rfl, rfl⟩
    · rw [if_neg d3.symm, if_neg d5.symm, if_neg d6.symm, n5]; simp only [if_true, and_self]
  rw [P.res_c2_side, key.1, key.2]
  unfold isSeam
  rw [hb s, (res_box h el ax _ _).1]
  by_cases hs : s = (midSide ax).opp
  · simp [hs]
  · rw [if_neg hs, if_neg hs, if_neg hs]
    exact ⟨fe.1, fe.2⟩

theorem Ctx.own_res : Own (res h el ax) := by
  have P := C.pre
  obtain ⟨n0, n1, n2, n3, n4, n5⟩ := P.res_new
  have hun := C.hi.own.unref el C.hel
  obtain ⟨d1, d2, d3, d4, d5, d6⟩ := side_distinct ax
  refine ⟨?_, ?_, ?_, ?_⟩
  · rw [res_leaves, List.nodup_append]
    refine ⟨C.hi.own.nodup.filter _, by simp, ?_⟩
    intro a ha b hb
    have := C.leaf_lt (List.mem_filter.mp ha).1
    simp only [List.mem_cons, List.not_mem_nil, or_false] at hb
    omega
  · intro l hl s
    rcases (mem_res_leaves h el ax l).mp hl with ⟨hl1, hl2⟩ | rfl | rfl
    · rw [C.elem_old (C.leaf_lt hl1) hl2,
        (C.edge_other_fields (C.side_lt hl1 s) (C.not_el_edge hl1 hl2 s)).2.2.2.2.2.2]
      exact C.hi.own.elem l hl1 s
    · rw [P.res_c1_side, C.edge_c1]
      rcases side_cases ax s with rfl | rfl | rfl | rfl
      · rw [if_pos rfl, n0]
      · rw [if_neg d1.symm, if_pos rfl, n3]
      · rw [if_neg d2.symm, if_neg d4.symm, if_pos rfl, n4]
      · rw [if_neg d3.symm, if_neg d5.symm, if_neg d6.symm]; rfl
    · rw [P.res_c2_side, C.edge_c2]
      rcases side_cases ax s with rfl | rfl | rfl | rfl
      · rw [if_pos rfl, n1]
      · rw [if_neg d1.symm, if_pos rfl, n2]
      · rw [if_neg d2.symm, if_neg d4.symm, if_pos rfl]; rfl
      · rw [if_neg d3.symm, if_neg d5.symm, if_neg d6.symm, n5]
  · intro l hl s
    rcases (mem_res_leaves h el ax l).mp hl with ⟨hl1, hl2⟩ | rfl | rfl
    · rw [C.elem_old (C.leaf_lt hl1) hl2, (C.edge_other_fields (C.side_lt hl1 s) (C.not_el_edge hl1 hl2 s)).1]
      exact C.hi.own.unref l hl1 s
    · rw [P.res_c1_side, C.edge_c1]
      rcases side_cases ax s with rfl | rfl | rfl | rfl
      · rw [if_pos rfl, n0]
      · rw [if_neg d1.symm, if_pos rfl, n3]
      · rw [if_neg d2.symm, if_neg d4.symm, if_pos rfl, n4]
      · rw [if_neg d3.symm, if_neg d5.symm, if_neg d6.symm]; exact hun _
    · rw [P.res_c2_side, C.edge_c2]
      rcases side_cases ax s with rfl | rfl | rfl | rfl
      · rw [if_pos rfl, n1]
      · rw [if_neg d1.symm, if_pos rfl, n2]
      · rw [if_neg d2.symm, if_neg d4.symm, if_pos rfl]; exact hun _
      · rw [if_neg d3.symm, if_neg d5.symm, if_neg d6.symm, n5]
  · intro l hl
    rcases (mem_res_leaves h el ax l).mp hl with ⟨hl1, hl2⟩ | rfl | rfl
    · rw [C.elem_old (C.leaf_lt hl1) hl2]; exact C.hi.own.leafKids l hl1
    · rw [P.res_elem_c1]
    · rw [P.res_elem_c2]

theorem Ctx.vidx_res : ∀ v < (res h el ax).verts.size, ((res h el ax).vert v).idx = v := by
  intro v hv
  rw [res_verts] at hv
  rw [res_vert]
  unfold mesh3 at hv ⊢
  apply vidx_bisectEdgeRes _ _ _ _ v hv
  unfold mesh2
  apply vidx_bisectEdgeRes
  intro w hw
  rw [mesh1_verts] at hw
  exact C.hi.wf.vidx w hw

/-- classification of the edge handles of the result -/
theorem Ctx.edge_class {i : Nat} (hi : i < h.edges.size + 6) :
    (i < h.edges.size ∧ ∀ s, i ≠ (h.elem el).side s) ∨ (∃ s, i = (h.elem el).side s) ∨
    (∃ k, k < 6 ∧ i = h.edges.size + k) := by
  by_cases h1 : i < h.edges.size
  · by_cases h2 : ∃ s, i = (h.elem el).side s
    · exact Or.inr (Or.inl h2)
    · exact Or.inl ⟨h1, fun s e => h2 ⟨s, e⟩⟩
  · exact Or.inr (Or.inr ⟨i - h.edges.size, by omega, by omega⟩)

theorem Ctx.la_lt : ∀ a0 a1, LA h el ax = some (a0, a1) → a0 < h.edges.size ∧ a1 < h.edges.size := by
  intro a0 a1 e
  have := C.pre.la
  rw [e] at this
  obtain ⟨f, -, -, -, -, r0, r1, -⟩ := this
  exact ⟨r0, r1⟩

theorem Ctx.lb_lt : ∀ b0 b1, LB h el ax = some (b0, b1) → b0 < h.edges.size ∧ b1 < h.edges.size := by
  intro b0 b1 e
  have := C.pre.lb
  rw [e] at this
  obtain ⟨f, -, -, -, -, r0, r1, -⟩ := this
  exact ⟨r0, r1⟩

theorem Ctx.lbEff_lt' : ∀ b0 b1, lbEff h el ax (LB h el ax) = some (b0, b1) →
    b0 < h.edges.size + 2 ∧ b1 < h.edges.size + 2 := by
  intro b0 b1 e
  unfold lbEff at e
  split at e
  · cases e; constructor <;> omega
  · have := C.lb_lt b0 b1 e; constructor <;> omega

theorem Ctx.wf_res : WF (res h el ax) := by
  have P := C.pre
  obtain ⟨n0, n1, n2, n3, n4, n5⟩ := P.res_new
  have hw := C.hi.wf
  have hvle : h.verts.size ≤ (res h el ax).verts.size := res_verts_le h el ax (LA h el ax) (LB h el ax)
  have hA : vtxA h el ax (LA h el ax) < (res h el ax).verts.size := P.res_ptA.1
  have hB : vtxB h el ax (LA h el ax) (LB h el ax) < (res h el ax).verts.size := P.res_ptB.1
  have hes : (res h el ax).edges.size = h.edges.size + 6 := res_edges_size h el ax (LA h el ax) (LB h el ax)
  have hels : (res h el ax).elems.size = h.elems.size + 2 := res_elems_size h el ax (LA h el ax) (LB h el ax)
  have eav := C.v0_lt C.hel (bisSide ax)
  have ebv := C.v0_lt C.hel (bisSide ax).opp
  have ear := C.side_lt C.hel (bisSide ax)
  have ebr := C.side_lt C.hel (bisSide ax).opp
  refine ⟨?_, ?_, ?_, ?_, ?_, ?_, ?_, ?_, ?_, ?_, ?_, C.vidx_res⟩
  · -- edgeV
    intro i hi
    rw [hes] at hi
    rcases C.edge_class hi with ⟨h1, h2⟩ | ⟨s, rfl⟩ | ⟨k, hk, rfl⟩
    · obtain ⟨-, f2, f3, -⟩ := C.edge_other_fields h1 h2
      rw [f2, f3]
      have := hw.edgeV i h1
      constructor <;> omega
    · have := C.v0_lt C.hel s
      have hv : ((res h el ax).edge ((h.elem el).side s)).v0 = (h.edge ((h.elem el).side s)).v0 ∧
          ((res h el ax).edge ((h.elem el).side s)).v1 = (h.edge ((h.elem el).side s)).v1 := by
        rw [P.res_edge_side]; split_ifs <;> exact ⟨rfl, rfl⟩
      rw [hv.1, hv.2]
      constructor <;> omega
    · have : k = 0 ∨ k = 1 ∨ k = 2 ∨ k = 3 ∨ k = 4 ∨ k = 5 := by omega
      rcases this with rfl | rfl | rfl | rfl | rfl | rfl
      · rw [Nat.add_zero, n0]; constructor <;> simp only <;> omega
      · rw [n1]; constructor <;> simp only <;> omega
      · rw [n2]; constructor <;> simp only <;> omega
      · rw [n3]; constructor <;> simp only <;> omega
      · rw [n4]; constructor <;> simp only <;> omega
      · rw [n5]; constructor <;> simp only <;> omega
  · -- edgeP
    intro i hi p hp
    rw [hes] at hi ⊢
    rcases C.edge_class hi with ⟨h1, h2⟩ | ⟨s, rfl⟩ | ⟨k, hk, rfl⟩
    · rw [(C.edge_other_fields h1 h2).2.2.2.2.1] at hp
      have := hw.edgeP i h1 p hp; omega
    · have hs := C.side_lt C.hel s
      have : ((res h el ax).edge ((h.elem el).side s)).parent = (h.edge ((h.elem el).side s)).parent := by
        rw [P.res_edge_side]; split_ifs <;> rfl
      rw [this] at hp
      have := hw.edgeP _ hs p hp; omega
    · have : k = 0 ∨ k = 1 ∨ k = 2 ∨ k = 3 ∨ k = 4 ∨ k = 5 := by omega
      rcases this with rfl | rfl | rfl | rfl | rfl | rfl
      · rw [Nat.add_zero, n0] at hp; simp only [Option.some.injEq] at hp; omega
      · rw [n1] at hp; simp only [Option.some.injEq] at hp; omega
      · rw [n2] at hp; simp only [Option.some.injEq] at hp; omega
      · rw [n3] at hp; simp only [Option.some.injEq] at hp; omega
      · rw [n4] at hp; cases hp
      · rw [n5] at hp; cases hp
  · -- edgeN
    intro i hi f hf
    rw [hes] at hi ⊢
    rcases C.edge_class hi with ⟨h1, h2⟩ | ⟨s, rfl⟩ | ⟨k, hk, rfl⟩
    · rw [C.edge_other h1 h2] at hf
      rcases linkUpd_nbr _ _ _ _ _ hf with e | e | e
      · omega
      · omega
      · rcases linkUpd_nbr _ _ _ _ _ e with e | e | e
        · omega
        · omega
        · have := hw.edgeN i h1 f e; omega
    · have hs := C.side_lt C.hel s
      have : ((res h el ax).edge ((h.elem el).side s)).nbr = (h.edge ((h.elem el).side s)).nbr := by
        rw [P.res_edge_side]; split_ifs <;> rfl
      rw [this] at hf
      have := hw.edgeN _ hs f hf; omega
    · have : k = 0 ∨ k = 1 ∨ k = 2 ∨ k = 3 ∨ k = 4 ∨ k = 5 := by omega
      rcases this with rfl | rfl | rfl | rfl | rfl | rfl
      · rw [Nat.add_zero, n0] at hf
        simp only at hf
        split_ifs at hf
        · cases hf; omega
        · cases hL : LA h el ax with
          | none => rw [hL] at hf; cases hf
          | some p =>
            obtain ⟨a0, a1⟩ := p
            rw [hL] at hf
            simp only [Option.map_some, Option.some.injEq] at hf
            have := C.la_lt a0 a1 hL; omega
      · rw [n1] at hf
        simp only at hf
        split_ifs at hf
        · cases hf; omega
        · cases hL : LA h el ax with
          | none => rw [hL] at hf; cases hf
          | some p =>
            obtain ⟨a0, a1⟩ := p
            rw [hL] at hf
            simp only [Option.map_some, Option.some.injEq] at hf
            have := C.la_lt a0 a1 hL; omega
      · rw [n2] at hf
        simp only at hf
        cases hL : lbEff h el ax (LB h el ax) with
        | none => rw [hL] at hf; cases hf
        | some p =>
          obtain ⟨b0, b1⟩ := p
          rw [hL] at hf
          simp only [Option.map_some, Option.some.injEq] at hf
          have := C.lbEff_lt' b0 b1 hL; omega
      · rw [n3] at hf
        simp only at hf
        cases hL : lbEff h el ax (LB h el ax) with
        | none => rw [hL] at hf; cases hf
        | some p =>
          obtain ⟨b0, b1⟩ := p
          rw [hL] at hf
          simp only [Option.map_some, Option.some.injEq] at hf
          have := C.lbEff_lt' b0 b1 hL; omega
      · rw [n4] at hf; cases hf; omega
      · rw [n5] at hf; cases hf; omega
  · -- edgeK
    intro i hi k hk
    rw [hes] at hi ⊢
    rcases C.edge_class hi with ⟨h1, h2⟩ | ⟨s, rfl⟩ | ⟨j, hj, rfl⟩
    · rw [(C.edge_other_fields h1 h2).1] at hk
      have := hw.edgeK i h1 k hk; constructor <;> omega
    · rw [P.res_edge_side] at hk
      have hun := C.hi.own.unref el C.hel s
      split_ifs at hk
      · simp only [setKids, Option.some.injEq] at hk; subst hk; constructor <;> simp only <;> omega
      · simp only [setKids, Option.some.injEq] at hk; subst hk; constructor <;> simp only <;> omega
      · simp only [setOwner_kids] at hk; rw [hun] at hk; cases hk
      · simp only [setOwner_kids] at hk; rw [hun] at hk; cases hk
    · have : j = 0 ∨ j = 1 ∨ j = 2 ∨ j = 3 ∨ j = 4 ∨ j = 5 := by omega
      rcases this with rfl | rfl | rfl | rfl | rfl | rfl
      · rw [Nat.add_zero, n0] at hk; cases hk
      · rw [n1] at hk; cases hk
      · rw [n2] at hk; cases hk
      · rw [n3] at hk; cases hk
      · rw [n4] at hk; cases hk
      · rw [n5] at hk; cases hk
  · -- edgeE
    intro i hi e he
    rw [hes] at hi
    rw [hels]
    rcases C.edge_class hi with ⟨h1, h2⟩ | ⟨s, rfl⟩ | ⟨j, hj, rfl⟩
    · rw [(C.edge_other_fields h1 h2).2.2.2.2.2.2] at he
      have := hw.edgeE i h1 e he; omega
    · rw [P.res_edge_side] at he
      split_ifs at he
      · cases he
      · cases he
      · cases he; omega
      · cases he; omega
    · have : j = 0 ∨ j = 1 ∨ j = 2 ∨ j = 3 ∨ j = 4 ∨ j = 5 := by omega
      rcases this with rfl | rfl | rfl | rfl | rfl | rfl
      · rw [Nat.add_zero, n0] at he; cases he; omega
      · rw [n1] at he; cases he; omega
      · rw [n2] at he; cases he; omega
      · rw [n3] at he; cases he; omega
      · rw [n4] at he; cases he; omega
      · rw [n5] at he; cases he; omega
  · -- elemE
    intro k hk s
    rw [hels] at hk
    rw [hes]
    by_cases h1 : k < h.elems.size
    · rw [(C.elem_fields h1).2.2.2.2.2 s]
      have := hw.elemE k h1 s; omega
    · have hks := C.side_lt C.hel s
      have : k = h.elems.size ∨ k = h.elems.size + 1 := by omega
      rcases this with rfl | rfl
      · rw [P.res_c1_side]; unfold c1Side; split_ifs <;> omega
      · rw [P.res_c2_side]; unfold c2Side; split_ifs <;> omega
  · -- elemP
    intro k hk p hp
    rw [hels] at hk ⊢
    by_cases h1 : k < h.elems.size
    · rw [(C.elem_fields h1).2.2.2.2.1] at hp
      have := hw.elemP k h1 p hp; omega
    · have := C.elr
      have : k = h.elems.size ∨ k = h.elems.size + 1 := by omega
      rcases this with rfl | rfl
      · rw [P.res_elem_c1] at hp; cases hp; omega
      · rw [P.res_elem_c2] at hp; cases hp; omega
  · -- elemK
    intro k hk kk hkk
    rw [hels] at hk ⊢
    by_cases h1 : k < h.elems.size
    · by_cases h2 : k = el
      · subst h2
        rw [P.res_elem_el] at hkk
        simp only [Option.some.injEq] at hkk
        subst hkk
        constructor <;> simp only <;> omega
      · rw [C.elem_old h1 h2] at hkk
        have := hw.elemK k h1 kk hkk
        constructor <;> omega
    · have : k = h.elems.size ∨ k = h.elems.size + 1 := by omega
      rcases this with rfl | rfl
      · rw [P.res_elem_c1] at hkk; cases hkk
      · rw [P.res_elem_c2] at hkk; cases hkk
  · -- elemId
    intro k hk
    rw [hels] at hk
    by_cases h1 : k < h.elems.size
    · rw [(C.elem_fields h1).1]; exact hw.elemId k h1
    · have : k = h.elems.size ∨ k = h.elems.size + 1 := by omega
      rcases this with rfl | rfl
      · rw [P.res_elem_c1]; exact hw.count
      · rw [P.res_elem_c2]; simp only; rw [hw.count]
  · -- leaf
    intro l hl
    rw [hels]
    rcases (mem_res_leaves h el ax l).mp hl with ⟨hl1, -⟩ | rfl | rfl
    · have := C.leaf_lt hl1; omega
    · omega
    · omega
  · -- count
    rw [res_nElems, hels, hw.count]

/-- geometric fields of every old edge are unchanged -/
theorem Ctx.geo_old {i : Nat} (hi : i < h.edges.size) :
    ((res h el ax).edge i).v0 = (h.edge i).v0 ∧ ((res h el ax).edge i).v1 = (h.edge i).v1 ∧
    ((res h el ax).edge i).parent = (h.edge i).parent ∧ ((res h el ax).edge i).glued = (h.edge i).glued ∧
    ((res h el ax).edge i).onBoundary = (h.edge i).onBoundary := by
  by_cases h2 : ∃ s, i = (h.elem el).side s
  · obtain ⟨s, rfl⟩ := h2
    rw [C.pre.res_edge_side]
    split_ifs <;> exact ⟨rfl, rfl, rfl, rfl, rfl⟩
  · obtain ⟨-, a, b, c, d, e, -⟩ := C.edge_other_fields hi (fun s e => h2 ⟨s, e⟩)
    exact ⟨a, b, d, c, e⟩

theorem Ctx.opp_old {e f : Nat} (he : e < h.edges.size) (hf : f < h.edges.size) (ho : Opp h e f) :
    Opp (res h el ax) e f := by
  obtain ⟨a0, a1, -, a3, -⟩ := C.geo_old he
  obtain ⟨b0, b1, -, b3, -⟩ := C.geo_old hf
  obtain ⟨ev0, ev1⟩ := C.hi.wf.edgeV e he
  obtain ⟨fv0, fv1⟩ := C.hi.wf.edgeV f hf
  obtain ⟨-, x1, x2, -⟩ := res_box h el ax (LA h el ax) (LB h el ax)
  exact opp_transfer a3 b3 a0 a1 b0 b1 (C.pt_old ev0) (C.pt_old ev1) (C.pt_old fv0) (C.pt_old fv1) ⟨x1, x2⟩ ho

/-- `kids` of an old edge other than the two bisected ones -/
theorem Ctx.kids_old {i : Nat} (hi : i < h.edges.size) (ha : i ≠ (h.elem el).side (bisSide ax))
    (hb : i ≠ (h.elem el).side (bisSide ax).opp) : ((res h el ax).edge i).kids = (h.edge i).kids := by
  by_cases h2 : ∃ s, i = (h.elem el).side s
  · obtain ⟨s, rfl⟩ := h2
    rw [C.pre.res_edge_side, if_neg (fun e => hb (by rw [e])), if_neg (fun e => ha (by rw [e]))]
    split_ifs <;> rfl
  · exact (C.edge_other_fields hi (fun s e => h2 ⟨s, e⟩)).1

theorem Ctx.kidsCover_old {p k0 k1 : Nat} (hp : p < h.edges.size) (hk : KidsCover h p k0 k1) :
    KidsCover (res h el ax) p k0 k1 := by
  obtain ⟨r0, r1⟩ := C.hi.wf.edgeK p hp _ hk.kids
  obtain ⟨a0, a1, a2, a3, -⟩ := C.geo_old hp
  obtain ⟨b0, b1, b2, b3, -⟩ := C.geo_old r0
  obtain ⟨c0, c1, c2, c3, -⟩ := C.geo_old r1
  have hne : ∀ s, p ≠ (h.elem el).side s := by
    intro s e
    have := C.hi.own.unref el C.hel s
    rw [← e, hk.kids] at this
    cases this
  refine ⟨by rw [C.kids_old hp (hne _) (hne _)]; exact hk.kids, by rw [b2]; exact hk.par0, by rw [c2]; exact hk.par1,
    by rw [b0, a0]; exact hk.v00, by rw [b1, c0]; exact hk.vm, by rw [c1, a1]; exact hk.v11, ?_,
    by rw [b3, a3]; exact hk.glued0, by rw [c3, a3]; exact hk.glued1, hk.ne⟩
  rw [b1, a0, a1, C.pt_old (C.hi.wf.edgeV k0 r0).2, C.pt_old (C.hi.wf.edgeV p hp).1,
    C.pt_old (C.hi.wf.edgeV p hp).2]
  exact hk.midpt

/-- the children of the refined neighbour edges have no neighbour edge themselves before the bisection -/
theorem Ctx.link_nbr_none :
    (∀ a0 a1, LA h el ax = some (a0, a1) → (h.edge a0).nbr = none ∧ (h.edge a1).nbr = none) ∧
    (∀ b0 b1, LB h el ax = some (b0, b1) → (h.edge b0).nbr = none ∧ (h.edge b1).nbr = none) := by
  constructor
  · intro a0 a1 e
    obtain ⟨f, -, -, -, -, -, -, -, z0, z1, -⟩ := C.hi.caseB_of_link C.hel (s := bisSide ax) e
    exact ⟨z0, z1⟩
  · intro b0 b1 e
    obtain ⟨f, -, -, -, -, -, -, -, z0, z1, -⟩ := C.hi.caseB_of_link C.hel (s := (bisSide ax).opp) e
    exact ⟨z0, z1⟩

/-- an old edge outside `el` that has a neighbour edge keeps it -/
theorem Ctx.nbr_keep {j x : Nat} (hj : j < h.edges.size) (hne : ∀ s, j ≠ (h.elem el).side s)
    (hn : (h.edge j).nbr = some x) : ((res h el ax).edge j).nbr = some x := by
  obtain ⟨la, lb⟩ := C.link_nbr_none
  rw [C.edge_other_nbr hj hne ?_ ?_, hn]
  · intro a0 a1 e
    obtain ⟨z0, z1⟩ := la a0 a1 e
    constructor <;> (rintro rfl; simp_all)
  · intro b0 b1 e
    obtain ⟨z0, z1⟩ := lb b0 b1 e
    constructor <;> (rintro rfl; simp_all)

theorem Ctx.level_old {k : Nat} (hk : k < h.elems.size) (a : Ax) :
    ((res h el ax).elem k).level a = (h.elem k).level a := by
  obtain ⟨-, l1, l2, -⟩ := C.elem_fields hk
  cases a <;> simp only [HElem.level, l1, l2]

theorem Ctx.level_child (a : Ax) :
    ((res h el ax).elem h.elems.size).level a = (if a = ax then (h.elem el).level a + 1 else (h.elem el).level a) ∧
    ((res h el ax).elem (h.elems.size + 1)).level a =
      (if a = ax then (h.elem el).level a + 1 else (h.elem el).level a) := by
  rw [C.pre.res_elem_c1, C.pre.res_elem_c2]
  cases ax <;> cases a <;> simp [HElem.level, childLevels]

theorem Ctx.mem_old {n : Nat} (hn : n ∈ h.leaves) (hne : n ≠ el) : n ∈ (res h el ax).leaves :=
  (mem_res_leaves h el ax n).mpr (Or.inl ⟨hn, hne⟩)

theorem Ctx.mem_c1 : h.elems.size ∈ (res h el ax).leaves := (mem_res_leaves h el ax _).mpr (Or.inr (Or.inl rfl))
theorem Ctx.mem_c2 : h.elems.size + 1 ∈ (res h el ax).leaves :=
  (mem_res_leaves h el ax _).mpr (Or.inr (Or.inr rfl))

theorem Ctx.side_old {n : Nat} (hn : n ∈ h.leaves) (s : Side) :
    ((res h el ax).elem n).side s = (h.elem n).side s := (C.elem_fields (C.leaf_lt hn)).2.2.2.2.2 s

/-- the bisected edges and their children in the result -/
theorem Ctx.kidsCover_A :
    KidsCover (res h el ax) ((h.elem el).side (bisSide ax)) h.edges.size (h.edges.size + 1) := by
  have P := C.pre
  obtain ⟨n0, n1, -⟩ := P.res_new
  have he := P.res_edge_side (bisSide ax)
  rw [if_neg (bisSide_opp_ne ax).symm, if_pos rfl] at he
  obtain ⟨ev0, ev1⟩ := C.v0_lt C.hel (bisSide ax)
  refine ⟨by rw [he]; rfl, by rw [n0], by rw [n1], by rw [n0, he]; rfl, by rw [n0, n1], by rw [n1, he]; rfl, ?_,
    by rw [n0, he]; rfl, by rw [n1, he]; rfl, by omega⟩
  rw [n0, he]
  simp only [setKids, setOwner]
  rw [P.res_ptA.2, C.pt_old ev0, C.pt_old ev1, (P.seg _).1, (P.seg _).2]

theorem Ctx.kidsCover_B :
    KidsCover (res h el ax) ((h.elem el).side (bisSide ax).opp) (h.edges.size + 2) (h.edges.size + 3) := by
  have P := C.pre
  obtain ⟨-, -, n2, n3, -⟩ := P.res_new
  have he := P.res_edge_side (bisSide ax).opp
  rw [if_pos rfl] at he
  obtain ⟨ev0, ev1⟩ := C.v0_lt C.hel (bisSide ax).opp
  refine ⟨by rw [he]; rfl, by rw [n2], by rw [n3], by rw [n2, he]; rfl, by rw [n2, n3], by rw [n3, he]; rfl, ?_,
    by rw [n2, he]; rfl, by rw [n3, he]; rfl, by omega⟩
  rw [n2, he]
  simp only [setKids, setOwner]
  rw [P.res_ptB.2, C.pt_old ev0, C.pt_old ev1, (P.seg _).1, (P.seg _).2]

/-- fields of the edges of `el` that the bisection does not touch -/
theorem Ctx.el_edge_fields (s : Side) :
    ((res h el ax).edge ((h.elem el).side s)).nbr = (h.edge ((h.elem el).side s)).nbr ∧
    ((res h el ax).edge ((h.elem el).side s)).elem =
      (if s = (bisSide ax).opp ∨ s = bisSide ax then none
       else if s = midSide ax then some (h.elems.size + 1) else some h.elems.size) := by
  rw [C.pre.res_edge_side]
  split_ifs <;> first | exact ⟨rfl, rfl⟩ | (exfalso; tauto)

end

end Stbem.HalfEdge
