import Stbem.Lemmas.MeshOpsLoops

/-!
# `Prolongate` regenerated from `src/mesh.py`: lemmas for `Props/MeshOpsTieC20.lean`

The position map `{k: v for v, k in enumerate(elems_coarse)}` (a later duplicate wins) versus `List.idxOf?` (first
occurrence) of the model: equal on lists without repetition; the parent-chain loop versus `prolongOne`; the item
assignments `vec_fine[j] = …` versus `List.mapM`.
-/
namespace Stbem.MeshOpsTie
open Stbem.Mesh Stbem.Gen

theorem toOption_bind {ε α β : Type} (x : Except ε α) (f : α → Except ε β) :
    (x >>= f).toOption = x.toOption.bind fun a => (f a).toOption := by
  cases x <;> rfl

/-! ### the position map -/

theorem dictHas_enumerateFrom (k : Nat) : ∀ (l : List Nat) (n : Nat),
    MeshOps.dictHas ((MeshOps.enumerateFrom n l).map fun x => (x.2, x.1)) k = l.contains k
  | [], _ => rfl
  | a :: l, n => by
    have ih := dictHas_enumerateFrom k l (n + 1)
    simp only [MeshOps.dictHas] at ih
    simp only [MeshOps.enumerateFrom, List.map_cons, MeshOps.dictHas, List.any_cons, ih, List.contains_cons]
    rw [Bool.beq_comm]

theorem dictHas_eq (l : List Nat) (k : Nat) : MeshOps.dictHas (MeshOps.dictOfEnumerate l) k = l.contains k :=
  dictHas_enumerateFrom k l 0

theorem idxOf?_isSome (l : List Nat) (k : Nat) : (l.idxOf? k).isSome = l.contains k := by
  induction l with
  | nil => rfl
  | cons a l ih =>
    simp only [List.idxOf?, List.findIdx?_cons, List.contains_cons] at ih ⊢
    by_cases h : (a == k) = true
    · have : (k == a) = true := by rw [Bool.beq_comm]; exact h
      simp [h, this]
    · have h' : (a == k) = false := by simpa using h
      have : (k == a) = false := by rw [Bool.beq_comm]; exact h'
      simp only [h', Bool.false_eq_true, if_false, Option.isSome_map, this, Bool.false_or]
      exact ih

/-- folding "last insertion wins" over the enumeration of a list without repetition finds the first position -/
theorem foldl_last (k : Nat) : ∀ (l : List Nat) (n : Nat) (acc : Option Nat), l.Nodup →
    ((MeshOps.enumerateFrom n l).map fun x => (x.2, x.1)).foldl
      (fun acc (x : Nat × Nat) => if x.1 == k then some x.2 else acc) acc =
    match l.idxOf? k with
    | some i => some (n + i)
    | none => acc
  | [], _, _, _ => rfl
  | a :: l, n, acc, hnd => by
    have hnd' := List.nodup_cons.mp hnd
    simp only [MeshOps.enumerateFrom, List.map_cons, List.foldl_cons]
    rw [foldl_last k l (n + 1) _ hnd'.2]
    simp only [List.idxOf?, List.findIdx?_cons]
    by_cases h : (a == k) = true
    · have hak : a = k := by simpa using h
      have hnot : (l.idxOf? k) = none := by
        cases hc : l.idxOf? k with
        | none => rfl
        | some i =>
          exfalso
          have h1 : (l.idxOf? k).isSome = true := by rw [hc]; rfl
          rw [idxOf?_isSome] at h1
          have : k ∈ l := by simpa using h1
          exact hnd'.1 (hak ▸ this)
      simp only [List.idxOf?] at hnot
      simp [h, hnot]
    · have h' : (a == k) = false := by simpa using h
      simp only [h', Bool.false_eq_true, if_false]
      cases List.findIdx? (fun x => x == k) l with
      | none => rfl
      | some i => simp only [Option.map_some]; congr 1; omega

theorem dictGet_eq (l : List Nat) (k : Nat) (hnd : l.Nodup) :
    MeshOps.dictGet (MeshOps.dictOfEnumerate l) k =
      match l.idxOf? k with
      | some i => .ok i
      | none => .error "key" := by
  unfold MeshOps.dictGet MeshOps.dictOfEnumerate MeshOps.enumerate
  rw [foldl_last k l 0 none hnd]
  cases l.idxOf? k with
  | none => rfl
  | some i => simp; rfl

/-! ### the parent chain -/

/-- the chain loop followed by the lookups of the loop body is `prolongOne` of the model -/
theorem climb_eq (m : Mesh) (coarse : List Nat) (vec : List Rat) (hnd : coarse.Nodup) : ∀ (fuel id : Nat),
    (do
      let a ← MeshOps.Prolongate_climb m (MeshOps.dictOfEnumerate coarse) fuel id
      MeshOps.assertThat (MeshOps.dictHas (MeshOps.dictOfEnumerate coarse) a = true) "assert:coarse"
      let i ← MeshOps.dictGet (MeshOps.dictOfEnumerate coarse) a
      MeshOps.getIdx vec i).toOption = prolongOne m coarse vec fuel id
  | 0, _ => rfl
  | fuel + 1, id => by
    rw [MeshOps.Prolongate_climb, prolongOne]
    have hh := dictHas_eq coarse id
    have hs := idxOf?_isSome coarse id
    cases hi : coarse.idxOf? id with
    | some i =>
      have hc : MeshOps.dictHas (MeshOps.dictOfEnumerate coarse) id = true := by rw [hh, ← hs, hi]; rfl
      simp only [hc, not_true_eq_false, if_false, pure_bind, assertThat_true, ok_bind, dictGet_eq coarse id hnd, hi]
      unfold MeshOps.getIdx
      cases vec[i]? <;> rfl
    | none =>
      have hc : MeshOps.dictHas (MeshOps.dictOfEnumerate coarse) id = false := by
        rw [hh, ← hs, hi]; rfl
      simp only [hc, Bool.false_eq_true, not_false_eq_true, if_true]
      cases hp : parentOf m id with
      | none =>
        rw [assertThat_false _ (by simp)]
        rfl
      | some p =>
        rw [assertThat_true _ (by simp)]
        simp only [ok_bind, MeshOps.optGet, pure_bind]
        exact climb_eq m coarse vec hnd fuel p

/-! ### the item assignments -/

theorem listSet_at (pre : List Rat) (n : Nat) (v : Rat) :
    MeshOps.listSet (pre ++ List.replicate (n + 1) 0) pre.length v = .ok ((pre ++ [v]) ++ List.replicate n 0) := by
  unfold MeshOps.listSet
  have h : pre.length < (pre ++ List.replicate (n + 1) 0).length := by simp
  rw [if_pos h]
  simp [List.replicate_succ, List.set_append_right]
  rfl

/-- the loop `for j, elem_fine in enumerate(elems_fine): … vec_fine[j] = …` writes the results of the body, in order -/
theorem forIn_set (g : Nat → Except String Rat) : ∀ (rest : List Nat) (pre : List Rat),
    (forIn (MeshOps.enumerateFrom pre.length rest) (pre ++ List.replicate rest.length (0 : Rat))
      (fun (x : Nat × Nat) (vf : List Rat) => do
        let t ← g x.2
        let vf ← MeshOps.listSet vf x.1 t
        pure (ForInStep.yield vf))).toOption =
    (rest.mapM fun e => (g e).toOption).map (pre ++ ·)
  | [], pre => by simp [MeshOps.enumerateFrom]; rfl
  | e :: rest, pre => by
    rw [MeshOps.enumerateFrom, List.forIn_cons, List.mapM_cons]
    cases hg : g e with
    | error err =>
      show none = Option.map (fun x => pre ++ x) ((Except.error err : Except String Rat).toOption >>= _)
      rfl
    | ok v =>
      simp only [ok_bind, List.length_cons, listSet_at, pure_bind]
      have ih := forIn_set g rest (pre ++ [v])
      simp only [List.length_append, List.length_cons, List.length_nil, Nat.zero_add] at ih
      rw [ih]
      show _ = Option.map (fun x => pre ++ x) (some v >>= fun b => (rest.mapM fun e => (g e).toOption) >>= fun bs =>
        pure (b :: bs))
      cases rest.mapM fun e => (g e).toOption with
      | none => rfl
      | some out => simp

end Stbem.MeshOpsTie
