import Stbem.Model.PosDef
import Mathlib.Algebra.Order.Field.Basic
import Mathlib.Tactic.Ring
import Mathlib.Tactic.FieldSimp
import Mathlib.Tactic.Linarith
import Mathlib.Tactic.Positivity
import Mathlib.Tactic.LinearCombination

/-!
# Positive-definiteness certificate: algebra of the elimination step, soundness, completeness

Everything is over an arbitrary linearly ordered field `K`; the functions are the generic ones of
`Stbem/Model/PosDef.lean` (the driver runs them at `K = Rat`).
-/
namespace Stbem.PosDef
set_option linter.unusedSectionVars false

variable {K : Type} [Field K] [LinearOrder K] [IsStrictOrderedRing K]

/-- well-shaped `m × n` -/
def Shape (m n : Nat) (M : List (List K)) : Prop := M.length = m ∧ ∀ r ∈ M, r.length = n

/-- the vector has a non-zero entry -/
def NonZero (x : List K) : Prop := ∃ v ∈ x, v ≠ 0

/-! ## `dot` -/

@[simp] theorem dot_nil_left (y : List K) : dot ([] : List K) y = 0 := by simp [dot]
@[simp] theorem dot_nil_right (x : List K) : dot x ([] : List K) = 0 := by cases x <;> simp [dot]
@[simp] theorem dot_cons_cons (a b : K) (x y : List K) : dot (a :: x) (b :: y) = a * b + dot x y := by simp [dot]

theorem dot_comm (x y : List K) : dot x y = dot y x := by
  induction x generalizing y with
  | nil => simp
  | cons a x ih => cases y with
    | nil => simp
    | cons b y => simp [ih y, mul_comm]

theorem dot_zero_right (y x : List K) (h : ∀ v ∈ x, v = 0) : dot y x = 0 := by
  induction x generalizing y with
  | nil => simp
  | cons b x ih => cases y with
    | nil => simp
    | cons a y =>
      have hb : b = 0 := h b (by simp)
      have := ih y (fun v hv => h v (by simp [hv]))
      simp [hb, this]

theorem dot_zero_left (x y : List K) (h : ∀ v ∈ x, v = 0) : dot x y = 0 := by
  rw [dot_comm]; exact dot_zero_right y x h

theorem not_nonZero {x : List K} (h : ¬ NonZero x) : ∀ v ∈ x, v = 0 := by
  intro v hv; by_contra hne; exact h ⟨v, hv, hne⟩

theorem quad_of_zero (M : List (List K)) (x : List K) (h : ∀ v ∈ x, v = 0) : quad M x = 0 :=
  dot_zero_left x _ h

/-- `row · (x₀ :: x') = head·x₀ + tail·x'` (also for the empty row) -/
theorem dot_headD_tail (row : List K) (x0 : K) (x' : List K) :
    dot row (x0 :: x') = row.headD 0 * x0 + dot row.tail x' := by
  cases row <;> simp

/-- linearity of `dot x ·` along a mapped list -/
theorem dot_map_lin {β : Type} (L : List β) (f g : β → K) (c : K) (x : List K) :
    dot x (L.map fun b => f b * c + g b) = c * dot x (L.map f) + dot x (L.map g) := by
  induction L generalizing x with
  | nil => simp
  | cons b L ih => cases x with
    | nil => simp
    | cons a x => simp [ih x]; ring

/-- `(row − c·s) · x = row·x − c (s·x)` for rows of equal length -/
theorem dot_zipWith_sub (si a : K) (row s x : List K) (h : row.length = s.length) :
    dot (List.zipWith (fun b sj => b - si * sj / a) row s) x = dot row x - si * dot s x / a := by
  induction row generalizing s x with
  | nil => cases s with
    | nil => simp
    | cons _ _ => simp at h
  | cons b row ih => cases s with
    | nil => simp at h
    | cons sj s => cases x with
      | nil => simp
      | cons x0 x =>
        have := ih s x (by simpa using h)
        simp [this]; ring

theorem dot_zipWith_lin {β : Type} (g : β → K) (t : K) (x s : List K) (B : List β) (h : s.length = B.length) :
    dot x (List.zipWith (fun si row => g row - si * t) s B) = dot x (B.map g) - t * dot x s := by
  induction s generalizing x B with
  | nil => cases B with
    | nil => simp
    | cons _ _ => simp at h
  | cons si s ih => cases B with
    | nil => simp at h
    | cons row B => cases x with
      | nil => simp
      | cons x0 x =>
        have := ih x B (by simpa using h)
        simp [this]; ring

theorem dot_avg (r c x : List K) (h : r.length = c.length) :
    dot (List.zipWith (fun u v => (u + v) / 2) r c) x = (dot r x + dot c x) / 2 := by
  induction r generalizing c x with
  | nil => cases c with
    | nil => simp
    | cons _ _ => simp at h
  | cons u r ih => cases c with
    | nil => simp at h
    | cons v c => cases x with
      | nil => simp
      | cons x0 x =>
        have := ih c x (by simpa using h)
        simp [this]; ring

/-! ## the quadratic form of a bordered matrix -/

theorem quad_cons (a : K) (r : List K) (rest : List (List K)) (x0 : K) (x' : List K) :
    quad ((a :: r) :: rest) (x0 :: x') =
      a * x0 * x0 + x0 * dot r x' + x0 * dot (heads rest) x' + quad (tails rest) x' := by
  unfold quad mulVec
  simp only [List.map_cons, dot_cons_cons]
  have h1 : (rest.map fun row => dot row (x0 :: x')) =
      rest.map fun row => row.headD 0 * x0 + dot row.tail x' := by
    apply List.map_congr_left; intro row _; exact dot_headD_tail row x0 x'
  rw [h1, dot_map_lin rest (fun row => row.headD 0) (fun row => dot row.tail x') x0 x']
  have h2 : dot x' (rest.map fun row => row.headD 0) = dot (heads rest) x' := by
    rw [dot_comm]; rfl
  have h3 : (rest.map fun row => dot row.tail x') = (tails rest).map (dot · x') := by
    simp [tails, List.map_map, Function.comp_def]
  rw [h2, h3]; ring

theorem zipWith_congr_mem {α β γ : Type} (f g : α → β → γ) (l1 : List α) (l2 : List β)
    (h : ∀ a, ∀ b ∈ l2, f a b = g a b) : List.zipWith f l1 l2 = List.zipWith g l1 l2 := by
  induction l1 generalizing l2 with
  | nil => simp
  | cons a l1 ih => cases l2 with
    | nil => simp
    | cons b l2 =>
      simp only [List.zipWith_cons_cons]
      rw [h a b (by simp), ih l2 (fun a b hb => h a b (by simp [hb]))]

/-- quadratic form of the Schur complement -/
theorem quad_schur (a : K) (s : List K) (B : List (List K)) (x : List K)
    (hB : Shape s.length s.length B) :
    quad (schur a s B) x = quad B x - dot s x * dot s x / a := by
  unfold quad mulVec schur
  rw [List.map_zipWith]
  have h1 : List.zipWith (fun si row => dot (List.zipWith (fun b sj => b - si * sj / a) row s) x) s B =
      List.zipWith (fun si row => dot row x - si * (dot s x / a)) s B := by
    apply zipWith_congr_mem
    intro si row hrow
    rw [dot_zipWith_sub si a row s x (hB.2 row hrow)]; ring
  rw [h1, dot_zipWith_lin (fun row => dot row x) (dot s x / a) x s B hB.1.symm, dot_comm x s]
  ring

end Stbem.PosDef
