import Stbem.Lemmas.MeshGeom
import Mathlib.Tactic.Positivity

/-!
# Dörfler marking: pure list lemmas (`sumQ`, `takeBulk`, `sortBy`, `sortDesc`)
-/
namespace Stbem.Mesh

/-! ### `sumQ` -/

theorem foldl_add_init (a : Rat) (l : List Rat) :
    l.foldl (· + ·) a = a + l.foldl (· + ·) 0 := by
  induction l generalizing a with
  | nil => simp
  | cons b l ih =>
    simp only [List.foldl_cons]
    rw [ih (a + b), ih (0 + b)]
    ring

@[simp] theorem sumQ_nil : sumQ [] = 0 := rfl

theorem sumQ_cons (a : Rat) (l : List Rat) : sumQ (a :: l) = a + sumQ l := by
  unfold sumQ
  rw [List.foldl_cons, foldl_add_init]
  ring

theorem sumQ_append (l l' : List Rat) : sumQ (l ++ l') = sumQ l + sumQ l' := by
  induction l with
  | nil => simp
  | cons a l ih => rw [List.cons_append, sumQ_cons, sumQ_cons, ih]; ring

theorem sumQ_nonneg (l : List Rat) (h : ∀ v ∈ l, 0 ≤ v) : 0 ≤ sumQ l := by
  induction l with
  | nil => simp
  | cons a l ih =>
    rw [sumQ_cons]
    have h1 := h a (by simp)
    have h2 := ih (fun v hv => h v (by simp [hv]))
    linarith

theorem sumQ_perm {l l' : List Rat} (h : l.Perm l') : sumQ l = sumQ l' := by
  induction h with
  | nil => rfl
  | cons a _ ih => rw [sumQ_cons, sumQ_cons, ih]
  | swap a b l => rw [sumQ_cons, sumQ_cons, sumQ_cons, sumQ_cons]; ring
  | trans _ _ ih1 ih2 => exact ih1.trans ih2

/-! ### `takeBulk` -/

theorem takeBulk_cons {α} (bound acc v : Rat) (a : α) (l : List (Rat × α)) :
    takeBulk bound acc ((v, a) :: l) =
      if acc + v ≥ bound then [(v, a)] else (v, a) :: takeBulk bound (acc + v) l := rfl

/-- `takeBulk` returns a prefix of the input -/
theorem takeBulk_prefix {α} (bound acc : Rat) (l : List (Rat × α)) : takeBulk bound acc l <+: l := by
  induction l generalizing acc with
  | nil => exact List.prefix_refl _
  | cons p l ih =>
    obtain ⟨v, a⟩ := p
    rw [takeBulk_cons]
    split
    · exact ⟨l, rfl⟩
    · exact (List.prefix_cons_inj _).mpr (ih _)

/-- ... which is non-empty when the input is non-empty -/
theorem takeBulk_ne_nil {α} (bound acc : Rat) (l : List (Rat × α)) (h : l ≠ []) :
    takeBulk bound acc l ≠ [] := by
  cases l with
  | nil => exact absurd rfl h
  | cons p l =>
    obtain ⟨v, a⟩ := p
    rw [takeBulk_cons]
    split <;> simp

/-- it reaches the bound if the whole list does -/
theorem takeBulk_reaches {α} (bound acc : Rat) (l : List (Rat × α))
    (h : bound ≤ acc + sumQ (l.map (·.1))) (hl : l ≠ []) :
    bound ≤ acc + sumQ ((takeBulk bound acc l).map (·.1)) := by
  induction l generalizing acc with
  | nil => exact absurd rfl hl
  | cons p l ih =>
    obtain ⟨v, a⟩ := p
    rw [takeBulk_cons]
    split
    · rename_i hge
      simp only [List.map_cons, List.map_nil, sumQ_cons, sumQ_nil]
      linarith
    · simp only [List.map_cons, sumQ_cons] at h ⊢
      cases l with
      | nil =>
        simp only [List.map_nil, sumQ_nil] at h
        simp only [takeBulk, List.map_nil, sumQ_nil]
        linarith
      | cons q l =>
        have := ih (acc + v) (by linarith) (by simp)
        linarith

/-- minimality: every strictly shorter non-empty prefix stays below the bound (for the empty
prefix this is the statement `acc < bound`, which is not guaranteed: `bound` may be `0`) -/
theorem takeBulk_minimal {α} (bound acc : Rat) (l : List (Rat × α)) (p : List (Rat × α))
    (hp : p <+: takeBulk bound acc l) (hlen : p.length < (takeBulk bound acc l).length)
    (hne : p ≠ [] ∨ acc < bound) :
    acc + sumQ (p.map (·.1)) < bound := by
  induction l generalizing acc p with
  | nil => simp [takeBulk] at hlen
  | cons q l ih =>
    obtain ⟨v, a⟩ := q
    rw [takeBulk_cons] at hp hlen
    split at hp
    · rename_i hge
      rw [if_pos hge] at hlen
      have : p = [] := by
        cases p with
        | nil => rfl
        | cons _ _ => simp at hlen
      subst this
      rcases hne with h | h
      · exact absurd rfl h
      · simpa using h
    · rename_i hlt
      rw [if_neg hlt] at hlen
      have hlt' : acc + v < bound := lt_of_not_ge hlt
      cases p with
      | nil =>
        rcases hne with h | h
        · exact absurd rfl h
        · simpa using h
      | cons q p' =>
        obtain ⟨e, hp'⟩ := List.cons_prefix_cons.mp hp
        subst e
        simp only [List.length_cons, Nat.add_lt_add_iff_right] at hlen
        have := ih (acc + v) p' hp' hlen (Or.inr hlt')
        simp only [List.map_cons, sumQ_cons]
        linarith

/-- with `0 ≤ θ ≤ 1` and non-negative values the bound `θ²·total` is reached by the full list -/
theorem bulk_bound_reached (vals : List Rat) (hv : ∀ v ∈ vals, 0 ≤ v) (θ : Rat) (h0 : 0 ≤ θ)
    (h1 : θ ≤ 1) : sumQ vals * θ ^ 2 ≤ sumQ vals := by
  have hs := sumQ_nonneg vals hv
  have h2 : θ ^ 2 ≤ 1 := by nlinarith
  nlinarith

/-- for `0 < θ` and a positive total the bound is positive: the empty prefix is below it -/
theorem bulk_bound_pos (vals : List Rat) (θ : Rat) (h0 : 0 < θ) (hs : 0 < sumQ vals) :
    0 < sumQ vals * θ ^ 2 := by
  positivity

/-! ### `sortBy` sorts -/

theorem mem_insertBy {α} (lt : α → α → Bool) (a : α) (l : List α) (x : α) :
    x ∈ insertBy lt a l ↔ x = a ∨ x ∈ l := by
  rw [(insertBy_perm lt a l).mem_iff, List.mem_cons]

theorem insertBy_pairwise {α} (lt : α → α → Bool) (R : α → α → Prop)
    (htrans : ∀ a b c, R a b → R b c → R a c)
    (h1 : ∀ a b, lt b a = true → R b a) (h2 : ∀ a b, lt b a = false → R a b)
    (a : α) (l : List α) (hl : l.Pairwise R) : (insertBy lt a l).Pairwise R := by
  induction l with
  | nil => simp [insertBy]
  | cons b l ih =>
    rw [List.pairwise_cons] at hl
    simp only [insertBy]
    split
    · rename_i hlt
      rw [List.pairwise_cons]
      refine ⟨?_, ih hl.2⟩
      intro x hx
      rcases (mem_insertBy lt a l x).mp hx with rfl | hx
      · exact h1 _ _ hlt
      · exact hl.1 x hx
    · rename_i hlt
      have hab : R a b := h2 a b (by simpa using hlt)
      rw [List.pairwise_cons]
      refine ⟨?_, List.pairwise_cons.mpr hl⟩
      intro x hx
      rcases List.mem_cons.mp hx with rfl | hx
      · exact hab
      · exact htrans _ _ _ hab (hl.1 x hx)

theorem sortBy_cons {α} (lt : α → α → Bool) (a : α) (l : List α) :
    sortBy lt (a :: l) = insertBy lt a (sortBy lt l) := rfl

theorem sortBy_pairwise {α} (lt : α → α → Bool) (R : α → α → Prop)
    (htrans : ∀ a b c, R a b → R b c → R a c)
    (h1 : ∀ a b, lt b a = true → R b a) (h2 : ∀ a b, lt b a = false → R a b)
    (l : List α) : (sortBy lt l).Pairwise R := by
  induction l with
  | nil => simp [sortBy]
  | cons a l ih =>
    rw [sortBy_cons]
    exact insertBy_pairwise lt R htrans h1 h2 a _ ih

/-- `sortDesc` is a permutation -/
theorem sortDesc_perm {α} (l : List (Rat × α)) : (sortDesc l).Perm l := sortBy_perm _ l

/-- ... that is descending in the value -/
theorem sortDesc_sorted {α} (l : List (Rat × α)) :
    (sortDesc l).Pairwise (fun a b => a.1 ≥ b.1) := by
  unfold sortDesc
  refine sortBy_pairwise _ _ (fun a b c (h1 : a.1 ≥ b.1) (h2 : b.1 ≥ c.1) => ge_trans h1 h2) ?_ ?_ l
  · intro a b h
    have : b.1 > a.1 := by simpa using h
    exact le_of_lt this
  · intro a b h
    have : ¬ b.1 > a.1 := by simpa using h
    exact not_lt.mp this

/-- the level-sorted list of `refinePhase` is ascending in the level -/
theorem sortLevel_sorted (ax : Ax) (l : List Cell) :
    (sortBy (fun a b : Cell => decide (a.level ax < b.level ax)) l).Pairwise
      (fun a b => a.level ax ≤ b.level ax) := by
  refine sortBy_pairwise _ _ (fun a b c (h1 : a.level ax ≤ b.level ax) (h2 : b.level ax ≤ c.level ax) => le_trans h1 h2) ?_ ?_ l
  · intro a b h
    have : b.level ax < a.level ax := by simpa using h
    exact le_of_lt this
  · intro a b h
    have : ¬ b.level ax < a.level ax := by simpa using h
    exact not_lt.mp this

end Stbem.Mesh
