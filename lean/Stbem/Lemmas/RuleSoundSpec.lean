import Stbem.Model.RuleCheck
import Mathlib.Analysis.SpecialFunctions.Log.Deriv
import Mathlib.Analysis.SpecialFunctions.Sqrt

/-!
Real-valued meaning of the rule checks: the weighted sums over `ℝ` with the true `Real.log` and
`Real.sqrt`.  (`Stbem.Lemmas.RuleSound` proves that a successful Boolean check implies these.)
-/
namespace Stbem.Rules

/-- `Σ wᵢ xᵢᵏ g(xᵢ)` over the reals -/
noncomputable def rsum (xs ws : List ℚ) (k : ℕ) (g : ℝ → ℝ) : ℝ :=
  ((xs.zip ws).map fun p => (p.2 : ℝ) * (p.1 : ℝ) ^ k * g (p.1 : ℝ)).sum

/-- the tolerance used by the checks, as a real number -/
noncomputable def rtol (rel : Bool) (tol target : ℚ) : ℝ := ((tolFor rel tol target : ℚ) : ℝ)

/-- harmonic number over the reals (cast of the computable one) -/
noncomputable def rharm (n : ℕ) : ℝ := ((harmonic n : ℚ) : ℝ)

end Stbem.Rules
