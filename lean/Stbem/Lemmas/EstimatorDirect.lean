import Stbem.Lemmas.EstimatorShortcut

/-!
# `estimate_sobolev` = direct definition; pool path = serial path (generic statements)
-/
namespace Stbem.Estimator
open Stbem.Mesh

theorem kept_false (e : Cell) (ns : List Cell) : kept false e ns = ns := by
  unfold kept
  simp

/-- what both paths compute -/
def indicators (m : Mesh) (FT FS : Cell → Cell → Rat) (elems : List Cell) : List (Rat × Rat) :=
  elems.map fun c => (lsum ((timeNbrs m c).map (FT c)), lsum ((spaceNbrs m c).map (FS c)))

theorem mem_spaceNbrs_self (m : Mesh) (c : Cell) : c ∈ spaceNbrs m c := by simp [spaceNbrs]
theorem mem_timeNbrs_self (m : Mesh) (c : Cell) : c ∈ timeNbrs m c := by simp [timeNbrs]

theorem directSobolev_ok (m : Mesh) (evT evS : Cell → Cell → Except String Rat) (FT FS : Cell → Cell → Rat)
    (elems : List Cell)
    (hevT : ∀ c ∈ elems, ∀ n ∈ timeNbrs m c, evT c n = .ok (FT c n))
    (hevS : ∀ c ∈ elems, ∀ n ∈ spaceNbrs m c, evS c n = .ok (FS c n)) :
    directSobolev m evT evS elems = .ok (indicators m FT FS elems) := by
  unfold directSobolev indicators
  apply mapM_ok
  intro c hc
  rw [sobolevLoop_ok evT FT false c _ (hevT c hc) (mem_timeNbrs_self m c),
    sobolevLoop_ok evS FS false c _ (hevS c hc) (mem_spaceNbrs_self m c)]
  simp only [bind, Except.bind, pure, Except.pure, loopVal, kept_false]

theorem estimateSobolev_ok (m : Mesh) (evT evS : Cell → Cell → Except String Rat) (FT FS : Cell → Cell → Rat)
    (elems : List Cell) (hid : (elems.map (·.id)).Nodup)
    (hclT : ∀ c ∈ elems, ∀ n ∈ timeNbrs m c, n ∈ elems) (hclS : ∀ c ∈ elems, ∀ n ∈ spaceNbrs m c, n ∈ elems)
    (hcT : ∀ a ∈ elems, ∀ b ∈ elems, (timeNbrs m a).count b = (timeNbrs m b).count a)
    (hcS : ∀ a ∈ elems, ∀ b ∈ elems, (spaceNbrs m a).count b = (spaceNbrs m b).count a)
    (hFT : ∀ a ∈ elems, ∀ b ∈ timeNbrs m a, FT a b = FT b a)
    (hFS : ∀ a ∈ elems, ∀ b ∈ spaceNbrs m a, FS a b = FS b a)
    (hevT : ∀ c ∈ elems, ∀ n ∈ timeNbrs m c, evT c n = .ok (FT c n))
    (hevS : ∀ c ∈ elems, ∀ n ∈ spaceNbrs m c, evS c n = .ok (FS c n)) :
    estimateSobolev m evT evS elems = .ok (indicators m FT FS elems) := by
  unfold estimateSobolev
  rw [mapM_ok (fun e => sobolevLoop evT true e (timeNbrs m e)) (fun e => loopVal FT true e (timeNbrs m e)) elems
      (fun c hc => sobolevLoop_ok evT FT true c _ (hevT c hc) (mem_timeNbrs_self m c)),
    mapM_ok (fun e => sobolevLoop evS true e (spaceNbrs m e)) (fun e => loopVal FS true e (spaceNbrs m e)) elems
      (fun c hc => sobolevLoop_ok evS FS true c _ (hevS c hc) (mem_spaceNbrs_self m c))]
  simp only [bind, Except.bind]
  rw [accumulate_eq elems (timeNbrs m) FT hid hclT hcT hFT, accumulate_eq elems (spaceNbrs m) FS hid hclS hcS hFS]
  simp only [pure, Except.pure, indicators, zip_map_map]

/-! ### pool = serial -/

theorem mapM_map_id {α β} (g : α → Except String β) : ∀ l : List α, (l.map g).mapM id = l.mapM g := by
  intro l
  induction l with
  | nil => rfl
  | cons a l ih => rw [List.map_cons, List.mapM_cons, List.mapM_cons, ih]; rfl

theorem mapM_range_workerAt {β} (f : Cell → Except String β) : ∀ elems : List Cell,
    (List.range elems.length).mapM (workerAt elems f) = elems.mapM f := by
  intro elems
  induction elems with
  | nil => rfl
  | cons a l ih =>
    rw [List.length_cons, List.range_succ_eq_map, List.mapM_cons, List.mapM_cons]
    have h0 : workerAt (a :: l) f 0 = f a := rfl
    have h1 : (List.map Nat.succ (List.range l.length)).mapM (workerAt (a :: l) f) =
        (List.range l.length).mapM (workerAt l f) := by
      rw [← mapM_map_id, ← mapM_map_id (workerAt l f), List.map_map]
      rfl
    rw [h0, h1, ih]

/-- the pool path returns what the serial path returns, for every worker count, provided the pool's
`map` returns the results in argument order -/
theorem pool_eq_serial_generic
    (pmap : (Nat → Except String (Rat × List (Nat × Rat))) → Nat → Nat →
      List (Except String (Rat × List (Nat × Rat))))
    (hpmap : ∀ f N chunk, 1 ≤ chunk → pmap f N chunk = (List.range N).map f)
    (cpu : Nat) (m : Mesh) (evT evS : Cell → Cell → Except String Rat) (elems : List Cell) :
    estimateSobolevPool pmap cpu m evT evS elems = estimateSobolev m evT evS elems := by
  unfold estimateSobolevPool estimateSobolev
  simp only
  rw [hpmap _ _ _ (Nat.le_add_left 1 _), hpmap _ _ _ (Nat.le_add_left 1 _), mapM_map_id, mapM_map_id,
    mapM_range_workerAt, mapM_range_workerAt]

end Stbem.Estimator
