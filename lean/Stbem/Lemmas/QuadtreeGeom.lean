import Stbem.Lemmas.QuadtreeForest

/-!
# Geometry: adjacency against containment, the four children
-/
namespace Stbem.Quadtree

/-! ### adjacency and containment -/

/-- a neighbour `d'` of the leaf `c` that lies inside another leaf `d` makes `d` a neighbour of `c`
across the same side -/
theorem Adj.of_sub {m : QT} (ht : Tiles m) {c d d' : Elem} (hc : c ∈ m.leaves) (hd : d ∈ m.leaves)
    (hne : c ≠ d) (hsub : d'.Sub d) (pc : 0 < c.size) (pd : 0 < d.size) (pd' : 0 < d'.size)
    {s : Side} (h : Adj c s d') : Adj c s d := by
  obtain ⟨s1, s2, s3, s4⟩ := hsub
  have dis := ht.disjoint c hc d hd
  cases s <;> simp only [Adj, OvX, OvY] at h ⊢
  · -- bottom: d'.y0 + d'.size = c.y0
    obtain ⟨e, o1, o2⟩ := h
    refine ⟨?_, by linarith, by linarith⟩
    by_contra hne'
    have hlt : c.y0 < d.y0 + d.size := lt_of_le_of_ne (by linarith) (fun h => hne' h.symm)
    have hx : ∃ x, c.x0 ≤ x ∧ x < c.x0 + c.size ∧ d.x0 ≤ x ∧ x < d.x0 + d.size := by
      rcases le_total c.x0 d.x0 with hh | hh
      · exact ⟨d.x0, hh, by linarith, le_refl _, by linarith⟩
      · exact ⟨c.x0, le_refl _, by linarith, hh, by linarith⟩
    obtain ⟨x, x1, x2, x3, x4⟩ := hx
    exact hne (dis x c.y0 ⟨x1, x2, le_refl _, by linarith⟩ ⟨x3, x4, by linarith, hlt⟩)
  · -- right: d'.x0 = c.x0 + c.size
    obtain ⟨e, o1, o2⟩ := h
    refine ⟨?_, by linarith, by linarith⟩
    by_contra hne'
    have hlt : d.x0 < c.x0 + c.size := lt_of_le_of_ne (by linarith) hne'
    have hy : ∃ y, c.y0 ≤ y ∧ y < c.y0 + c.size ∧ d.y0 ≤ y ∧ y < d.y0 + d.size := by
      rcases le_total c.y0 d.y0 with hh | hh
      · exact ⟨d.y0, hh, by linarith, le_refl _, by linarith⟩
      · exact ⟨c.y0, le_refl _, by linarith, hh, by linarith⟩
    obtain ⟨y, y1, y2, y3, y4⟩ := hy
    rcases le_total c.x0 d.x0 with hh | hh
    · exact hne (dis d.x0 y ⟨hh, hlt, y1, y2⟩ ⟨le_refl _, by linarith, y3, y4⟩)
    · exact hne (dis c.x0 y ⟨le_refl _, by linarith, y1, y2⟩ ⟨hh, by linarith, y3, y4⟩)
  · -- top: d'.y0 = c.y0 + c.size
    obtain ⟨e, o1, o2⟩ := h
    refine ⟨?_, by linarith, by linarith⟩
    by_contra hne'
    have hlt : d.y0 < c.y0 + c.size := lt_of_le_of_ne (by linarith) hne'
    have hx : ∃ x, c.x0 ≤ x ∧ x < c.x0 + c.size ∧ d.x0 ≤ x ∧ x < d.x0 + d.size := by
      rcases le_total c.x0 d.x0 with hh | hh
      · exact ⟨d.x0, hh, by linarith, le_refl _, by linarith⟩
      · exact ⟨c.x0, le_refl _, by linarith, hh, by linarith⟩
    obtain ⟨x, x1, x2, x3, x4⟩ := hx
    rcases le_total c.y0 d.y0 with hh | hh
    · exact hne (dis x d.y0 ⟨x1, x2, hh, hlt⟩ ⟨x3, x4, le_refl _, by linarith⟩)
    · exact hne (dis x c.y0 ⟨x1, x2, le_refl _, by linarith⟩ ⟨x3, x4, hh, by linarith⟩)
  · -- left: d'.x0 + d'.size = c.x0
    obtain ⟨e, o1, o2⟩ := h
    refine ⟨?_, by linarith, by linarith⟩
    by_contra hne'
    have hlt : c.x0 < d.x0 + d.size := lt_of_le_of_ne (by linarith) (fun h => hne' h.symm)
    have hy : ∃ y, c.y0 ≤ y ∧ y < c.y0 + c.size ∧ d.y0 ≤ y ∧ y < d.y0 + d.size := by
      rcases le_total c.y0 d.y0 with hh | hh
      · exact ⟨d.y0, hh, by linarith, le_refl _, by linarith⟩
      · exact ⟨c.y0, le_refl _, by linarith, hh, by linarith⟩
    obtain ⟨y, y1, y2, y3, y4⟩ := hy
    exact hne (dis c.x0 y ⟨le_refl _, by linarith, y1, y2⟩ ⟨by linarith, hlt, y3, y4⟩)

theorem Side.opp_opp (s : Side) : s.opp.opp = s := by cases s <;> rfl

/-- a part `c'` of the leaf `c` that has the leaf `d` as a neighbour makes `d` a neighbour of `c` -/
theorem Adj.of_sub_left {m : QT} (ht : Tiles m) {c c' d : Elem} (hc : c ∈ m.leaves)
    (hd : d ∈ m.leaves) (hne : c ≠ d) (hsub : c'.Sub c) (pc : 0 < c.size) (pd : 0 < d.size)
    (pc' : 0 < c'.size) {s : Side} (h : Adj c' s d) : Adj c s d := by
  have h2 := Adj.of_sub ht hd hc (Ne.symm hne) hsub pd pc pc' h.symm
  have h3 := h2.symm
  rwa [Side.opp_opp] at h3

/-! ### the four children -/

/-- the `k`-th child -/
def child (n : Nat) (e : Elem) (k : Nat) : Elem :=
  ⟨e.x0 + posDx k * (e.size / 2), e.y0 + posDy k * (e.size / 2), e.size / 2, e.level + 1, n + k,
    some e.id, k⟩

theorem children_eq (n : Nat) (e : Elem) :
    children n e = [child n e 0, child n e 1, child n e 2, child n e 3] := by
  simp [children, child, posDx, posDy]

theorem mem_children {n : Nat} {e l : Elem} : l ∈ children n e ↔ ∃ k, k < 4 ∧ l = child n e k := by
  rw [children_eq]
  constructor
  · intro h
    simp only [List.mem_cons, List.not_mem_nil, or_false] at h
    rcases h with rfl | rfl | rfl | rfl
    · exact ⟨0, by omega, rfl⟩
    · exact ⟨1, by omega, rfl⟩
    · exact ⟨2, by omega, rfl⟩
    · exact ⟨3, by omega, rfl⟩
  · rintro ⟨k, hk, rfl⟩
    rcases lt_four hk with rfl | rfl | rfl | rfl <;> simp

theorem child_sub (n : Nat) (e : Elem) (k : Nat) (hp : 0 < e.size) : (child n e k).Sub e := by
  rcases posDx_cases k with e1 | e1 <;> rcases posDy_cases k with e2 | e2 <;>
    simp only [child, Elem.Sub, e1, e2] <;> refine ⟨?_, ?_, ?_, ?_⟩ <;> linarith

theorem child_onGrid (n : Nat) {e : Elem} (k : Nat) (h : OnGrid e) : OnGrid (child n e k) := by
  obtain ⟨hs, i, j, hx, hy⟩ := h
  refine ⟨?_, ?_⟩
  · show e.size / 2 = 1 / 2 ^ (e.level + 1)
    rw [hs, half_pow]
  · rcases posDx_cases k with e1 | e1 <;> rcases posDy_cases k with e2 | e2
    · exact ⟨2 * i, 2 * j, by simp only [child, e1]; push_cast; rw [hx]; ring,
        by simp only [child, e2]; push_cast; rw [hy]; ring⟩
    · exact ⟨2 * i, 2 * j + 1, by simp only [child, e1]; push_cast; rw [hx]; ring,
        by simp only [child, e2]; push_cast; rw [hy]; ring⟩
    · exact ⟨2 * i + 1, 2 * j, by simp only [child, e1]; push_cast; rw [hx]; ring,
        by simp only [child, e2]; push_cast; rw [hy]; ring⟩
    · exact ⟨2 * i + 1, 2 * j + 1, by simp only [child, e1]; push_cast; rw [hx]; ring,
        by simp only [child, e2]; push_cast; rw [hy]; ring⟩

/-- the children cover the parent -/
theorem child_cover (n : Nat) (e : Elem) {x y : Rat} (h : e.Contains x y) :
    ∃ k, k < 4 ∧ (child n e k).Contains x y := by
  obtain ⟨h1, h2, h3, h4⟩ := h
  rcases lt_or_ge x (e.x0 + e.size / 2) with hx | hx <;>
    rcases lt_or_ge y (e.y0 + e.size / 2) with hy | hy
  · exact ⟨0, by omega, by simp only [child, Elem.Contains, posDx, posDy]; exact ⟨by linarith, by linarith, by linarith, by linarith⟩⟩
  · exact ⟨3, by omega, by simp only [child, Elem.Contains, posDx, posDy]; exact ⟨by linarith, by linarith, by linarith, by linarith⟩⟩
  · exact ⟨1, by omega, by simp only [child, Elem.Contains, posDx, posDy]; exact ⟨by linarith, by linarith, by linarith, by linarith⟩⟩
  · exact ⟨2, by omega, by simp only [child, Elem.Contains, posDx, posDy]; exact ⟨by linarith, by linarith, by linarith, by linarith⟩⟩

/-- the offsets determine the position -/
theorem pos_eq_of_offsets {k k' : Nat} (hk : k < 4) (hk' : k' < 4) (hx : posDx k = posDx k')
    (hy : posDy k = posDy k') : k = k' := by
  rcases lt_four hk with rfl | rfl | rfl | rfl <;> rcases lt_four hk' with rfl | rfl | rfl | rfl <;>
    first | rfl | (simp [posDx, posDy] at hx hy)

/-- children with a common point are the same child -/
theorem child_disjoint (n : Nat) (e : Elem) (_hp : 0 < e.size) {k k' : Nat} (hk : k < 4) (hk' : k' < 4)
    {x y : Rat} (h1 : (child n e k).Contains x y) (h2 : (child n e k').Contains x y) : k = k' := by
  obtain ⟨a1, a2, a3, a4⟩ := h1
  obtain ⟨b1, b2, b3, b4⟩ := h2
  simp only [child] at a1 a2 a3 a4 b1 b2 b3 b4
  apply pos_eq_of_offsets hk hk'
  · rcases posDx_cases k with e1 | e1 <;> rcases posDx_cases k' with e2 | e2 <;>
      rw [e1] at a1 a2 <;> rw [e2] at b1 b2 <;> rw [e1, e2] <;> first | rfl | (exfalso; linarith)
  · rcases posDy_cases k with e1 | e1 <;> rcases posDy_cases k' with e2 | e2 <;>
      rw [e1] at a3 a4 <;> rw [e2] at b3 b4 <;> rw [e1, e2] <;> first | rfl | (exfalso; linarith)

end Stbem.Quadtree
