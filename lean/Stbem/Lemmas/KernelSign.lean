import Stbem.Lemmas.FormulasC
import Mathlib.Analysis.Calculus.Deriv.MeanValue
import Mathlib.Analysis.SpecialFunctions.Exp
import Mathlib.Topology.Algebra.Order.Field

/-!
# Sign of the exponential integral and of `sl_tik` (property C04, sign part)

Hypotheses on the special functions `S : Fns` (all of them hold for the true functions):

* `EiLaw S`  : `Ei' x = e^x / x` for `x < 0`        (`Stbem/Lemmas/FormulasC.lean`);
* `EiLim S`  : `Ei x → 0` as `x → -∞`;
* `0 < S.fpiInv` (the module constant `FPI_INV = 1/(4π)`).

From the first two: `Ei` is strictly decreasing and negative on `(-∞, 0)`.  Hence the generated term
`sl_tik S t a b x = g(t-b) - g(t-a)` (with the guards `if a ≤ b then 0` of `g` as generated) is
`≥ 0` for `a < b`, `x > 0`, and `> 0` iff `a < t`.
-/
namespace Stbem.Formulas.R
open Filter Topology

/-- `Ei x → 0` as `x → -∞` -/
def EiLim (S : Fns) : Prop := Tendsto S.ei atBot (𝓝 0)

/-- `Ei` is strictly decreasing on the negative axis -/
theorem ei_strictAntiOn (S : Fns) (hei : EiLaw S) : StrictAntiOn S.ei (Set.Iio 0) := by
  refine strictAntiOn_of_deriv_neg (convex_Iio 0) ?_ ?_
  · intro x hx
    exact (hei x hx).continuousAt.continuousWithinAt
  · intro x hx
    rw [interior_Iio] at hx
    rw [(hei x hx).deriv]
    exact div_neg_of_pos_of_neg (Real.exp_pos x) hx

theorem ei_strictAnti (S : Fns) (hei : EiLaw S) {x y : ℝ} (hxy : x < y) (hy : y < 0) :
    S.ei y < S.ei x :=
  ei_strictAntiOn S hei (Set.mem_Iio.mpr (hxy.trans hy)) (Set.mem_Iio.mpr hy) hxy

/-- `Ei x < 0` for `x < 0` -/
theorem ei_neg (S : Fns) (hei : EiLaw S) (hlim : EiLim S) {x : ℝ} (hx : x < 0) : S.ei x < 0 := by
  have h1 : S.ei x < S.ei (x - 1) := ei_strictAnti S hei (by linarith) hx
  have h2 : S.ei (x - 1) ≤ 0 := by
    refine ge_of_tendsto hlim ?_
    filter_upwards [eventually_lt_atBot (x - 1)] with y hy
    exact (ei_strictAnti S hei hy (by linarith)).le
  linarith

/-! ### `sl_g`, `sl_tik` -/

theorem arg_neg {x z : ℝ} (hx : 0 < x) (hz : 0 < z) : -x / (4 * z) < 0 :=
  div_neg_of_neg_of_pos (neg_lt_zero.mpr hx) (by linarith)

theorem arg_lt {x z w : ℝ} (hx : 0 < x) (hz : 0 < z) (hzw : z < w) : -x / (4 * z) < -x / (4 * w) := by
  rw [neg_div, neg_div, neg_lt_neg_iff]
  exact div_lt_div_of_pos_left hx (by linarith) (by linarith)

/-- `g_z(x) = fpiInv·Ei(-x/(4z)) < 0` for `z = a - b > 0`, `x = |·|² > 0` -/
theorem g_neg (S : Fns) (hei : EiLaw S) (hlim : EiLim S) (hfpi : 0 < S.fpiInv) {a b x : ℝ}
    (hx : 0 < x) (hab : b < a) : sl_g S a b x < 0 := by
  rw [g_pos S a b x hab]
  exact mul_neg_of_pos_of_neg hfpi (ei_neg S hei hlim (arg_neg hx (by linarith)))

theorem g_nonpos (S : Fns) (hei : EiLaw S) (hlim : EiLim S) (hfpi : 0 < S.fpiInv) {x : ℝ}
    (hx : 0 < x) (a b : ℝ) : sl_g S a b x ≤ 0 := by
  by_cases h : a ≤ b
  · rw [g_zero' S a b x h]
  · exact (g_neg S hei hlim hfpi hx (not_le.mp h)).le

/-- `z ↦ g_z(x)` is strictly decreasing on `z > 0`: `sl_g S t b x > sl_g S t a x` for `a < b < t` -/
theorem g_strictAnti (S : Fns) (hei : EiLaw S) (hfpi : 0 < S.fpiInv) {t a b x : ℝ} (hx : 0 < x)
    (hab : a < b) (hbt : b < t) : sl_g S t a x < sl_g S t b x := by
  rw [g_pos S t a x (hab.trans hbt), g_pos S t b x hbt]
  refine mul_lt_mul_of_pos_left ?_ hfpi
  exact ei_strictAnti S hei (arg_lt hx (by linarith) (by linarith)) (arg_neg hx (by linarith))

/-- **`time_integrated_kernel` is positive** as soon as the trial interval has begun -/
theorem tik_pos' (S : Fns) (hei : EiLaw S) (hlim : EiLim S) (hfpi : 0 < S.fpiInv) {t a b x : ℝ}
    (hab : a < b) (hx : 0 < x) (hta : a < t) : 0 < sl_tik S t a b x := by
  rw [tik_eq']
  by_cases htb : t ≤ b
  · rw [g_zero' S t b x htb]
    have := g_neg S hei hlim hfpi hx hta
    linarith
  · have := g_strictAnti S hei hfpi hx hab (not_le.mp htb)
    linarith

/-- **`time_integrated_kernel` is never negative** -/
theorem tik_nonneg' (S : Fns) (hei : EiLaw S) (hlim : EiLim S) (hfpi : 0 < S.fpiInv) {t a b x : ℝ}
    (hab : a < b) (hx : 0 < x) : 0 ≤ sl_tik S t a b x := by
  by_cases hta : t ≤ a
  · rw [tik_zero' S t a b x hab hta]
  · exact (tik_pos' S hei hlim hfpi hab hx (not_le.mp hta)).le

/-- the sign is sharp: positive **iff** `a < t` -/
theorem tik_pos_iff' (S : Fns) (hei : EiLaw S) (hlim : EiLim S) (hfpi : 0 < S.fpiInv) {t a b x : ℝ}
    (hab : a < b) (hx : 0 < x) : 0 < sl_tik S t a b x ↔ a < t := by
  constructor
  · intro h
    by_contra hn
    rw [tik_zero' S t a b x hab (not_lt.mp hn)] at h
    exact lt_irrefl _ h
  · exact tik_pos' S hei hlim hfpi hab hx

end Stbem.Formulas.R
