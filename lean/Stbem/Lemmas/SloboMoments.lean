import Mathlib.Analysis.SpecialFunctions.Integrals.Basic

/-! The moment values assumed of the three base rules are the moments of the weight functions
`x^{-1/2}`, `x`, `1` on `[0, 1]` (real integrals, Mathlib). -/
namespace Stbem.Quad
open intervalIntegral

/-- `∫₀¹ xᵏ · x^{-1/2} dx = 2 / (2k + 1)` -/
theorem sqrtinv_weight_moment (k : ℕ) :
    ∫ x in (0 : ℝ)..1, x ^ ((k : ℝ) - 1 / 2) = 2 / (2 * (k : ℝ) + 1) := by
  have hk : (0 : ℝ) ≤ k := Nat.cast_nonneg k
  rw [integral_rpow (Or.inl (by linarith))]
  have h0 : ((k : ℝ) - 1 / 2 + 1) ≠ 0 := by linarith
  rw [Real.one_rpow, Real.zero_rpow h0]
  have h1 : (2 * (k : ℝ) + 1) ≠ 0 := by positivity
  have h2 : ((k : ℝ) - 1 / 2 + 1) = (2 * (k : ℝ) + 1) / 2 := by ring
  rw [h2, sub_zero, div_div_eq_mul_div, one_mul]

/-- `∫₀¹ xᵏ · x dx = 1 / (k + 2)` -/
theorem x_weight_moment (k : ℕ) : ∫ x in (0 : ℝ)..1, x ^ k * x = 1 / ((k : ℝ) + 2) := by
  have : ∀ x : ℝ, x ^ k * x = x ^ (k + 1) := fun x => (pow_succ x k).symm
  simp only [this, integral_pow]
  push_cast
  norm_num
  ring

/-- `∫₀¹ xᵏ dx = 1 / (k + 1)` -/
theorem legendre_weight_moment (k : ℕ) : ∫ x in (0 : ℝ)..1, x ^ k = 1 / ((k : ℝ) + 1) := by
  simp only [integral_pow]
  norm_num

end Stbem.Quad
