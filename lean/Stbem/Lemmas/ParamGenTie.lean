import Stbem.Lemmas.ParamGenBasic
import Stbem.Lemmas.Param

/-!
# Bridge between the definitions regenerated from `src/parametrization.py` (`Gen/ParamGen.lean`) and the hand-written
polygon model (`Model/Param.lean`): representation of points / pieces / curves, `line`, calling a piece, `eval`
-/
namespace Stbem.ParamTie
open Stbem.Gen.ParamGen
open Stbem.Param
open Stbem.SL (Piece absR distSq)
open Stbem.Mesh (pairs)

/-- a point as the 1-D array `np.array([x, y])` -/
def arr (p : Pt) : List Rat := [p.1, p.2]
/-- a point as the `(2, 1)` array `p.reshape(2, 1)` -/
def col (p : Pt) : List (List Rat) := [[p.1], [p.2]]
/-- points as the `(2, n)` array of their coordinates -/
def toRows (ps : List Pt) : List (List Rat) := [ps.map (·.1), ps.map (·.2)]

/-- a piece of the hand model as the closure `fun` that `line` returns -/
def ofPiece (g : Piece) : Gamma := .of_line_fun g.start (col (g.dx, g.dy)) (col (g.px, g.py))

/-- a curve of the hand model as the object the generated constructors return -/
def ofCurve (c : Curve) : PiecewiseParametrization :=
  { pw_start := c.pw, pw_gamma := c.pieces.map ofPiece, closed := c.closed, gamma_length := c.length }

theorem ofPiece_injective : Function.Injective ofPiece := by
  intro a b h
  cases a; cases b
  simp only [ofPiece, col, Gamma.of_line_fun.injEq, List.cons.injEq, and_true] at h
  obtain ⟨h1, ⟨h2, h3⟩, h4, h5⟩ := h
  subst h1 h2 h3 h4 h5
  rfl

/-! ### calling a piece -/

/-- the generated closure body on an array of parameters = the hand model's `Piece.at`, entry by entry -/
theorem call_ofPiece (S : Fns) (g : Piece) (xs : List Rat) : (ofPiece g).call S xs = toRows (xs.map g.at) := by
  simp only [Gamma.call, ofPiece, line_fun, npBcMC, npBcAC, npAS, col, toRows, List.map_cons, List.map_nil, List.map_map,
    List.zipWith_cons_cons, List.zipWith_nil_right, List.headD_cons, List.cons.injEq, and_true]
  constructor <;>
  · apply List.map_congr_left
    intro x _
    simp only [Function.comp, Piece.at]
    ring

theorem call_ofPiece_scalar (S : Fns) (g : Piece) (x : Rat) : (ofPiece g).call S (npScalar x) = col (g.at x) := by
  rw [npScalar, call_ofPiece]; rfl

/-! ### `line` -/

theorem axisNorm_sq {a b : Pt} {n : Rat} (h : axisNorm a b = some n) :
    n * n = (b.1 - a.1) * (b.1 - a.1) + (b.2 - a.2) * (b.2 - a.2) ∧ 0 ≤ n := by
  obtain ⟨h1, h2, h3⟩ := axisNorm_len h
  refine ⟨?_, h3⟩
  rcases axisNorm_spec h with ⟨e, hn⟩ | ⟨e, hn⟩
  · rw [hn, e, abs_mul_abs_self]; ring
  · rw [hn, e, abs_mul_abs_self]; ring

/-- the generated `np.linalg.norm(b - a)` is the hand model's side length -/
theorem norm_eq_axisNorm {a b : Pt} {n : Rat} (h : axisNorm a b = some n) :
    npLinalgNorm (npAA (· - ·) (arr b) (arr a)) = .ok n := by
  obtain ⟨h1, h2⟩ := axisNorm_sq h
  have := npLinalgNorm_pair (b.1 - a.1) (b.2 - a.2) n h1
  rw [abs_of_nonneg h2] at this
  exact this

/-- **`line(a, b, x_start)`**: for an axis-parallel side of positive length the generated function returns the closure of
the hand model's piece and the hand model's length -/
theorem gen_line_eq {a b : Pt} {n : Rat} (h : axisNorm a b = some n) (hn : n ≠ 0) (xs : Rat) :
    Gen.ParamGen.line (arr a) (arr b) xs = .ok (ofPiece (mkPiece a b n xs), n) := by
  unfold Gen.ParamGen.line
  rw [norm_eq_axisNorm h]
  simp only [bind, Except.bind, npDivAS, if_neg hn, pure, Except.pure, npAA, arr, List.zipWith_cons_cons, List.zipWith_nil_right,
    List.map_cons, List.map_nil, npReshape21, npCopyM, ofPiece, mkPiece, col]

/-- a side of length 0: the generated function stops at the division (`nan`) -/
theorem gen_line_zero {a b : Pt} (h : axisNorm a b = some 0) (xs : Rat) :
    Gen.ParamGen.line (arr a) (arr b) xs = .error "nan:division-by-zero" := by
  unfold Gen.ParamGen.line
  rw [norm_eq_axisNorm h]
  simp only [bind, Except.bind, npDivAS, if_pos]

/-- the same for `line_project` (its result is dropped by the constructor; it can only stop it) -/
theorem gen_line_project_ok {a b : Pt} {n : Rat} (h : axisNorm a b = some n) (hn : n ≠ 0) (xs : Rat) :
    ∃ p, line_project (arr a) (arr b) xs = .ok p := by
  unfold line_project
  rw [norm_eq_axisNorm h]
  simp only [bind, Except.bind, npDivAS, if_neg hn, pure, Except.pure]
  exact ⟨_, rfl⟩

/-! ### `PiecewiseParametrization.eval` -/

theorem mapM_ok_of_forall {α β : Type} (f : α → Except String β) (g : α → β) :
    ∀ (xs : List α), (∀ x ∈ xs, f x = .ok (g x)) → xs.mapM f = .ok (xs.map g) := by
  intro xs
  induction xs with
  | nil => intro _; rfl
  | cons x xs ih =>
    intro h
    rw [List.mapM_cons, h x (by simp), ih (fun y hy => h y (by simp [hy]))]
    rfl

theorem mapM_error_of_exists {α β : Type} (f : α → Except String β) (e : String) :
    ∀ (xs : List α), (∀ x ∈ xs, (∃ b, f x = .ok b) ∨ f x = .error e) → (∃ x ∈ xs, f x = .error e) →
      xs.mapM f = .error e := by
  intro xs
  induction xs with
  | nil => intro _ h; simp at h
  | cons x xs ih =>
    intro hall hex
    rw [List.mapM_cons]
    rcases hall x (by simp) with ⟨b, hb⟩ | he
    · rw [hb]
      have hex' : ∃ y ∈ xs, f y = .error e := by
        obtain ⟨y, hy, hye⟩ := hex
        rcases List.mem_cons.mp hy with rfl | hy
        · rw [hb] at hye; cases hye
        · exact ⟨y, hy, hye⟩
      rw [show (Except.ok b >>= fun y => (do let ys ← xs.mapM f; pure (y :: ys) : Except String (List β))) =
        (do let ys ← xs.mapM f; pure (b :: ys)) from rfl, ih (fun y hy => hall y (by simp [hy])) hex']
      rfl
    · rw [he]; rfl

/-- the range assertion of `eval` -/
theorem rangeOK_iff (L : Rat) (xs : List Rat) :
    npAll (npAndB (npLeSA (0 : Rat) xs) (npLeAS xs L)) = true ↔ ∀ x ∈ xs, 0 ≤ x ∧ x ≤ L := by
  induction xs with
  | nil => simp [npAll, npAndB, npLeSA, npLeAS]
  | cons x xs ih =>
    simp only [npAll, npAndB, npLeSA, npLeAS, List.map_cons, List.zipWith_cons_cons, List.all_cons, id, Bool.and_eq_true,
      decide_eq_true_eq, List.mem_cons, forall_eq_or_imp] at ih ⊢
    rw [ih]

/-- the hand model's `np.select` with its default -/
def selD (pw : List Rat) (gs : List Piece) (x : Rat) : Pt := (select pw gs x).getD (0, 0)

theorem selD_cons2 (lo hi : Rat) (pw : List Rat) (g : Piece) (gs : List Piece) (x : Rat) :
    selD (lo :: hi :: pw) (g :: gs) x = if lo ≤ x ∧ x ≤ hi then g.at x else selD (hi :: pw) gs x := by
  unfold selD
  rw [select]
  split <;> rfl

theorem selD_nil_right (pw : List Rat) (x : Rat) : selD pw [] x = (0, 0) := by
  unfold selD
  cases pw with
  | nil => rfl
  | cons a pw => cases pw <;> rfl

/-- the boolean array `(lo <= x_hat) & (x_hat <= hi)` -/
def condOf (r : Rat × Rat) (xs : List Rat) : List Bool := npAndB (npLeSA r.1 xs) (npLeAS xs r.2)

theorem condOf_eq (r : Rat × Rat) (xs : List Rat) : condOf r xs = xs.map fun x => decide (r.1 ≤ x ∧ x ≤ r.2) := by
  unfold condOf npAndB npLeSA npLeAS
  induction xs with
  | nil => rfl
  | cons x xs ih => simp only [List.map_cons, List.zipWith_cons_cons, ih, Bool.decide_and]

theorem npWhere_toRows (p : Rat → Bool) (u v : Rat → Pt) (xs : List Rat) :
    npWhere (xs.map p) (toRows (xs.map u)) (toRows (xs.map v)) = toRows (xs.map fun x => if p x then u x else v x) := by
  simp only [npWhere, toRows, List.zipWith_cons_cons, List.zipWith_nil_right, List.map_map, List.cons.injEq, and_true]
  constructor <;>
  · induction xs with
    | nil => rfl
    | cons x xs ih =>
      simp only [List.map_cons, List.zip_cons_cons, List.zipWith_cons_cons, Function.comp, ih, List.cons.injEq, and_true]
      split <;> rfl

/-- `np.select` on the lists the loop of `eval` builds = the hand model's `select`, entry by entry -/
theorem npSelectGo_eq (xs : List Rat) : ∀ (gs : List Piece) (pw : List Rat),
    npSelectGo ((segsOf pw gs).map fun q => condOf q.1 xs) (gs.map fun g => toRows (xs.map g.at))
      (toRows (xs.map fun _ => ((0, 0) : Pt))) = toRows (xs.map (selD pw gs)) := by
  intro gs
  induction gs with
  | nil =>
    intro pw
    simp only [segsOf_nil_right, List.map_nil, npSelectGo]
    congr 1
    apply List.map_congr_left
    intro x _
    rw [selD_nil_right]
  | cons g gs ih =>
    intro pw
    match pw with
    | [] =>
      simp only [segsOf, pairs, List.zip_nil_left, List.map_nil, npSelectGo]
      rfl
    | [a] =>
      simp only [segsOf, pairs, List.zip_nil_left, List.map_nil, npSelectGo]
      rfl
    | lo :: hi :: pw =>
      rw [segsOf_cons2]
      simp only [List.map_cons, npSelectGo]
      rw [ih (hi :: pw), condOf_eq, npWhere_toRows]
      congr 1
      apply List.map_congr_left
      intro x _
      rw [selD_cons2]
      simp only [decide_eq_true_eq]

theorem pyIdx_append_len {α} (pre : List α) (a : α) (l : List α) : pyIdx (pre ++ a :: l) pre.length = .ok a := by
  simp [pyIdx]; rfl

theorem pyIdx_append_len_succ {α} (pre : List α) (a b : α) (l : List α) :
    pyIdx (pre ++ a :: b :: l) (pre.length + 1) = .ok b := by
  have : pre ++ a :: b :: l = (pre ++ [a]) ++ b :: l := by simp
  rw [this, show pre.length + 1 = (pre ++ [a]).length by simp]
  exact pyIdx_append_len _ _ _

theorem ok_bind {ε α β : Type} (a : α) (f : α → Except ε β) : (Except.ok a >>= f) = f a := rfl

/-- the loop of `eval`: the condition list and the list of evaluated pieces -/
theorem evalLoop_eq (S : Fns) (xs : List Rat) (cl : Bool) (L : Rat) : ∀ (gs : List Piece) (pw preP : List Rat) (preG : List Piece)
    (C : List (List Bool)) (E : List (List (List Rat))), preP.length = preG.length → pw.length = gs.length + 1 →
    (List.range' preG.length gs.length).foldlM
      (PiecewiseParametrization.eval.loop1 S ⟨preP ++ pw, (preG ++ gs).map ofPiece, cl, L⟩ xs) (C, E) =
    .ok (C ++ (segsOf pw gs).map (fun q => condOf q.1 xs), E ++ gs.map fun g => toRows (xs.map g.at)) := by
  intro gs
  induction gs with
  | nil =>
    intro pw preP preG C E _ _
    simp [segsOf_nil_right]
    rfl
  | cons g gs ih =>
    intro pw preP preG C E hpre hlen
    match pw, hlen with
    | lo :: hi :: rest, hlen =>
      have hlen' : (hi :: rest).length = gs.length + 1 := by simpa using hlen
      have h1 : (List.range' preG.length (g :: gs).length) = preG.length :: List.range' (preG.length + 1) gs.length := by
        simp [List.range'_succ]
      rw [h1, List.foldlM_cons]
      have hbody : PiecewiseParametrization.eval.loop1 S
          ⟨preP ++ lo :: hi :: rest, (preG ++ g :: gs).map ofPiece, cl, L⟩ xs (C, E) preG.length =
          .ok (C ++ [condOf (lo, hi) xs], E ++ [toRows (xs.map g.at)]) := by
        unfold PiecewiseParametrization.eval.loop1
        simp only [← hpre]
        rw [pyIdx_append_len, ok_bind, pyIdx_append_len_succ, ok_bind]
        have hg : pyIdx ((preG ++ g :: gs).map ofPiece) preP.length = .ok (ofPiece g) := by
          rw [List.map_append, List.map_cons, hpre, ← List.length_map (f := ofPiece)]
          exact pyIdx_append_len _ _ _
        rw [hg, ok_bind, call_ofPiece]
        rfl
      rw [hbody, ok_bind]
      have e1 : preP ++ lo :: hi :: rest = (preP ++ [lo]) ++ hi :: rest := by simp
      have e2 : preG ++ g :: gs = (preG ++ [g]) ++ gs := by simp
      have := ih (hi :: rest) (preP ++ [lo]) (preG ++ [g]) (C ++ [condOf (lo, hi) xs]) (E ++ [toRows (xs.map g.at)])
        (by simp [hpre]) hlen'
      rw [e1, e2]
      rw [show (preG ++ [g]).length = preG.length + 1 by simp] at this
      rw [this, segsOf_cons2]
      simp

theorem assertThat_true {c : Prop} [Decidable c] (tag : String) (h : c) : assertThat c tag = .ok () := by
  simp [assertThat, h]; rfl

theorem assertThat_false {c : Prop} [Decidable c] (tag : String) (h : ¬ c) : assertThat c tag = .error tag := by
  simp [assertThat, h]

theorem error_bind {ε α β : Type} (e : ε) (f : α → Except ε β) : ((Except.error e : Except ε α) >>= f) = .error e := rfl

/-- the point the hand model's `eval` returns for a parameter in range -/
def evalPt (c : Curve) (x : Rat) : Pt :=
  match c.pieces with
  | [g] => g.at x
  | gs => selD c.pw gs x

theorem evalCurve_in {c : Curve} {x : Rat} (h : 0 ≤ x ∧ x ≤ c.length) : evalCurve c x = .ok (evalPt c x) := by
  obtain ⟨pw, gs, cl⟩ := c
  unfold evalCurve evalPt
  rw [if_neg (by simp [h.1, h.2])]
  match gs with
  | [] => rfl
  | [g] => rfl
  | _ :: _ :: _ => rfl

theorem evalCurve_out {c : Curve} {x : Rat} (h : ¬ (0 ≤ x ∧ x ≤ c.length)) : evalCurve c x = .error "assert:range" := by
  unfold evalCurve
  rw [if_pos]
  rw [not_and_or] at h
  rcases h with h | h <;> simp [h]

theorem zeros_eq (u : Rat → Pt) (xs : List Rat) :
    ((toRows (xs.map u)).map fun r => r.map fun _ => (0 : Rat)) = toRows (xs.map fun _ => ((0, 0) : Pt)) := by
  simp [toRows, Function.comp_def]

/-- **`PiecewiseParametrization.eval`** (range assertion for the whole array, single-piece shortcut, `np.select` = first
matching piece, `0` if none): the generated method on an array of parameters is the hand model's `evalCurve` entry by entry,
for every curve with one break point more than pieces and at least one piece -/
theorem gen_eval_eq (S : Fns) (c : Curve) (hlen : c.pw.length = c.pieces.length + 1) (hne : c.pieces ≠ [])
    (xs : List Rat) :
    PiecewiseParametrization.eval S (ofCurve c) xs = (xs.mapM (evalCurve c)).map toRows := by
  unfold PiecewiseParametrization.eval
  rw [show (ofCurve c).gamma_length = c.length from rfl]
  by_cases hr : ∀ x ∈ xs, 0 ≤ x ∧ x ≤ c.length
  · rw [assertThat_true _ ((rangeOK_iff _ _).mpr hr), ok_bind,
      mapM_ok_of_forall (evalCurve c) (evalPt c) xs (fun x hx => evalCurve_in (hr x hx))]
    simp only [Except.map]
    obtain ⟨pw, gs, cl⟩ := c
    simp only [ofCurve, List.length_map] at hlen hne ⊢
    match gs, hne with
    | [g], _ =>
      rw [if_pos (by simp)]
      simp only [List.map_cons, List.map_nil]
      rw [show pyIdx [ofPiece g] 0 = .ok (ofPiece g) from rfl, ok_bind, call_ofPiece]
      rfl
    | g1 :: g2 :: gs, _ =>
      rw [if_neg (by simp)]
      have hloop := evalLoop_eq S xs cl (Curve.length ⟨pw, g1 :: g2 :: gs, cl⟩) (g1 :: g2 :: gs) pw [] [] [] [] rfl hlen
      simp only [List.nil_append, List.length_nil] at hloop
      simp only [pyRange, List.range_eq_range']
      rw [hloop, ok_bind]
      simp only [List.map_cons, npSelect]
      rw [zeros_eq]
      have := npSelectGo_eq xs (g1 :: g2 :: gs) pw
      simp only [List.map_cons] at this
      rw [this]
      rfl
  · rw [assertThat_false _ (fun h => hr ((rangeOK_iff _ _).mp h)), error_bind]
    have : xs.mapM (evalCurve c) = .error "assert:range" := by
      apply mapM_error_of_exists
      · intro x _
        by_cases hx : 0 ≤ x ∧ x ≤ c.length
        · exact Or.inl ⟨_, evalCurve_in hx⟩
        · exact Or.inr (evalCurve_out hx)
      · simp only [not_forall] at hr
        obtain ⟨x, hx, hx'⟩ := hr
        exact ⟨x, hx, evalCurve_out hx'⟩
    rw [this]
    rfl

end Stbem.ParamTie
