import Stbem.Model.Estimator
import Mathlib.Algebra.Order.Field.Rat
import Mathlib.Tactic.Linarith
import Mathlib.Tactic.Ring
import Mathlib.Data.List.Nodup
import Mathlib.Data.List.Count

/-!
# The accumulation loop of `estimate_sobolev` equals the direct definition (generic part)

`gather cs k` is the sum of the contributions addressed to position `k`; the array produced by the loop
is `k ↦ gather cs k`; a double-counting argument over the duplicate-free element list identifies
it with the direct sum over the element and its neighbours.
-/
namespace Stbem.Estimator
open Stbem.Mesh

/-! ### sums -/

theorem lsum_nil : lsum [] = 0 := rfl
theorem lsum_cons (a : Rat) (l : List Rat) : lsum (a :: l) = a + lsum l := rfl

theorem lsum_append (a b : List Rat) : lsum (a ++ b) = lsum a + lsum b := by
  induction a with
  | nil => simp [lsum_nil]
  | cons x a ih => rw [List.cons_append, lsum_cons, lsum_cons, ih]; ring

/-- a sum over a list split by a predicate -/
theorem lsum_filter_split {α} (p : α → Bool) (g : α → Rat) (l : List α) :
    lsum (l.map g) = lsum ((l.filter p).map g) + lsum ((l.filter fun a => !p a).map g) := by
  induction l with
  | nil => simp [lsum_nil]
  | cons x l ih =>
    by_cases h : p x = true
    · simp only [List.map_cons, List.filter_cons, h, lsum_cons, if_true, Bool.not_true]
      rw [ih]; simp only [Bool.false_eq_true, if_false]; ring
    · have h' : p x = false := by simpa using h
      simp only [List.map_cons, List.filter_cons, h', lsum_cons, Bool.not_false, if_true]
      rw [ih]; simp only [Bool.false_eq_true, if_false]; ring

theorem lsum_map_congr {α} (g h : α → Rat) (l : List α) (e : ∀ a ∈ l, g a = h a) :
    lsum (l.map g) = lsum (l.map h) := by
  induction l with
  | nil => rfl
  | cons x l ih =>
    simp only [List.map_cons, lsum_cons]
    rw [e x (by simp), ih (fun a ha => e a (List.mem_cons_of_mem _ ha))]

theorem lsum_map_zero {α} (l : List α) (g : α → Rat) (h : ∀ a ∈ l, g a = 0) : lsum (l.map g) = 0 := by
  induction l with
  | nil => rfl
  | cons x l ih =>
    simp only [List.map_cons, lsum_cons]
    rw [h x (by simp), ih (fun a ha => h a (List.mem_cons_of_mem _ ha))]; ring

theorem lsum_map_add {α} (l : List α) (g h : α → Rat) :
    lsum (l.map fun a => g a + h a) = lsum (l.map g) + lsum (l.map h) := by
  induction l with
  | nil => simp [lsum_nil]
  | cons x l ih => simp only [List.map_cons, lsum_cons, ih]; ring

/-- in a duplicate-free list exactly one entry equals `c` -/
theorem lsum_single {α} [DecidableEq α] (l : List α) (hnd : l.Nodup) (c : α) (hc : c ∈ l) (g : α → Rat) :
    lsum (l.map fun e => if e = c then g e else 0) = g c := by
  induction l with
  | nil => simp at hc
  | cons x l ih =>
    simp only [List.map_cons, lsum_cons]
    rw [List.nodup_cons] at hnd
    by_cases hx : x = c
    · subst hx
      rw [if_pos rfl, lsum_map_zero]
      · ring
      · intro a ha
        rw [if_neg]
        rintro rfl
        exact hnd.1 ha
    · rw [if_neg hx, ih hnd.2 (by
        rcases List.mem_cons.mp hc with h | h
        · exact absurd h.symm hx
        · exact h)]
      ring

/-- a sum over a list `l ⊆ elems` regrouped by the elements of the duplicate-free list `elems` -/
theorem lsum_by_count {α} [DecidableEq α] (elems : List α) (hnd : elems.Nodup) (g : α → Rat) :
    ∀ l : List α, (∀ a ∈ l, a ∈ elems) →
      lsum (l.map g) = lsum (elems.map fun e => (l.count e : Rat) * g e) := by
  intro l
  induction l with
  | nil =>
    intro _
    rw [lsum_map_zero elems _ (by intro a _; simp)]; rfl
  | cons x l ih =>
    intro hsub
    have hx : x ∈ elems := hsub x (by simp)
    have e1 : ∀ e ∈ elems, ((x :: l).count e : Rat) * g e = (if e = x then g e else 0) + (l.count e : Rat) * g e := by
      intro e _
      rw [List.count_cons]
      by_cases h : e = x
      · subst h; simp; ring
      · have : (x == e) = false := by simpa using fun h' => h h'.symm
        simp [this, h]
    rw [lsum_map_congr _ _ elems e1, lsum_map_add, lsum_single elems hnd x hx, List.map_cons, lsum_cons,
      ih (fun a ha => hsub a (List.mem_cons_of_mem _ ha))]

/-! ### the array update -/

theorem addAt_length (l : List Rat) (i : Nat) (v : Rat) : (addAt l i v).length = l.length := by
  simp [addAt]

theorem addAt_getD (l : List Rat) (i k : Nat) (v : Rat) (hk : k < l.length) :
    (addAt l i v).getD k 0 = l.getD k 0 + if i = k then v else 0 := by
  unfold addAt
  simp only [List.getD_eq_getElem?_getD, List.getElem?_modify]
  by_cases h : i = k
  · subst h; simp [List.getElem?_eq_getElem hk]
  · simp [h, List.getElem?_eq_getElem hk]

/-- the contributions addressed to position `k` -/
def gather (cs : List (Nat × Rat)) (k : Nat) : Rat :=
  lsum (cs.map fun p => if p.1 = k then p.2 else 0)

theorem gather_nil (k : Nat) : gather [] k = 0 := rfl

theorem gather_cons (p : Nat × Rat) (cs : List (Nat × Rat)) (k : Nat) :
    gather (p :: cs) k = (if p.1 = k then p.2 else 0) + gather cs k := rfl

theorem gather_append (a b : List (Nat × Rat)) (k : Nat) : gather (a ++ b) k = gather a k + gather b k := by
  unfold gather; rw [List.map_append, lsum_append]

theorem foldl_addAt_length (cs : List (Nat × Rat)) :
    ∀ acc : List Rat, (cs.foldl (fun acc p => addAt acc p.1 p.2) acc).length = acc.length := by
  induction cs with
  | nil => intro acc; rfl
  | cons p cs ih => intro acc; rw [List.foldl_cons, ih, addAt_length]

theorem foldl_addAt_getD (cs : List (Nat × Rat)) :
    ∀ (acc : List Rat) (k : Nat), k < acc.length →
      (cs.foldl (fun acc p => addAt acc p.1 p.2) acc).getD k 0 = acc.getD k 0 + gather cs k := by
  induction cs with
  | nil => intro acc k _; simp [gather_nil]
  | cons p cs ih =>
    intro acc k hk
    rw [List.foldl_cons, ih _ k (by rw [addAt_length]; exact hk), addAt_getD _ _ _ _ hk, gather_cons]
    ring

/-- the array after the loop: position `k` holds the sum of the contributions addressed to it -/
theorem foldl_addAt_eq (cs : List (Nat × Rat)) (N : Nat) :
    cs.foldl (fun acc p => addAt acc p.1 p.2) (List.replicate N 0) = (List.range N).map (gather cs) := by
  apply List.ext_getElem
  · rw [foldl_addAt_length]; simp
  · intro k h1 h2
    have hk : k < N := by simpa using h2
    have := foldl_addAt_getD cs (List.replicate N 0) k (by simpa using hk)
    rw [List.getD_eq_getElem?_getD, List.getElem?_eq_getElem h1, Option.getD_some] at this
    rw [this]
    simp [hk]

end Stbem.Estimator
