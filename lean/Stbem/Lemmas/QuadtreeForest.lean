import Stbem.Lemmas.QuadtreeGrid

/-!
# Consequences of the forest structure: look-ups, ancestors, leaves against elements
-/
namespace Stbem.Quadtree

/-! ### `findSq` -/

theorem findSq_some {m : QT} {x y s : Rat} {f : Elem} (h : findSq m x y s = some f) :
    f ∈ m.elems ∧ f.x0 = x ∧ f.y0 = y ∧ f.size = s := by
  unfold findSq at h
  have h1 := List.mem_of_find?_eq_some h
  have h2 := List.find?_some h
  exact ⟨h1, of_decide_eq_true h2⟩

theorem findSq_none {m : QT} {x y s : Rat} (h : findSq m x y s = none) {f : Elem} (hf : f ∈ m.elems) :
    ¬ (f.x0 = x ∧ f.y0 = y ∧ f.size = s) := by
  unfold findSq at h
  rw [List.find?_eq_none] at h
  have := h f hf
  simpa using this

theorem findSq_isSome {m : QT} {x y s : Rat} {f : Elem} (hf : f ∈ m.elems) (hx : f.x0 = x)
    (hy : f.y0 = y) (hs : f.size = s) : (findSq m x y s).isSome = true := by
  cases h : findSq m x y s with
  | none => exact absurd ⟨hx, hy, hs⟩ (findSq_none h hf)
  | some g => rfl

/-! ### positions -/

theorem posDx_cases (k : Nat) : posDx k = 0 ∨ posDx k = 1 := by
  unfold posDx; split <;> simp

theorem posDy_cases (k : Nat) : posDy k = 0 ∨ posDy k = 1 := by
  unfold posDy; split <;> simp

theorem lt_four {k : Nat} (h : k < 4) : k = 0 ∨ k = 1 ∨ k = 2 ∨ k = 3 := by omega

/-! ### parents and ancestors -/

theorem IdsOK.id_lt {m : QT} (h : IdsOK m) {f : Elem} (hf : f ∈ m.elems) : f.id < m.elems.length := by
  have : f.id ∈ m.elems.map (·.id) := List.mem_map.mpr ⟨f, hf, rfl⟩
  rw [h.ids] at this
  exact List.mem_range.mp this

/-- a non-root element is a quarter of a refined element -/
theorem Forest.parent_sub {m : QT} (h : Forest m) {f : Elem} (hf : f ∈ m.elems) (hp : f.pos < 4) :
    ∃ p ∈ m.elems, p ∉ m.leaves ∧ f.level = p.level + 1 ∧ p.size = 2 * f.size ∧ f.Sub p ∧
      f.x0 = p.x0 + posDx f.pos * f.size ∧ f.y0 = p.y0 + posDy f.pos * f.size := by
  obtain ⟨p, hpm, hnl, hl, hx, hy⟩ := h.parent f hf hp
  have hs : p.size = 2 * f.size := (h.grid f hf).size_succ (h.grid p hpm) hl
  have hpos := (h.grid f hf).size_pos
  refine ⟨p, hpm, hnl, hl, hs, ?_, hx, hy⟩
  rcases posDx_cases f.pos with e1 | e1 <;> rcases posDy_cases f.pos with e2 | e2 <;>
    rw [e1] at hx <;> rw [e2] at hy <;> refine ⟨?_, ?_, ?_, ?_⟩ <;> linarith

theorem Forest.pos_lt {m : QT} (h : Forest m) {f : Elem} (hf : f ∈ m.elems) (hl : 0 < f.level) :
    f.pos < 4 := by
  by_contra hn
  have := h.root f hf (by omega)
  omega

/-- the ancestor of level `k` of an element of level `> k`: a refined element containing it -/
theorem Forest.ancestor {m : QT} (h : Forest m) : ∀ (n : Nat) (f : Elem), f ∈ m.elems → ∀ k,
    f.level = k + n + 1 → ∃ a ∈ m.elems, a ∉ m.leaves ∧ a.level = k ∧ f.Sub a := by
  intro n
  induction n with
  | zero =>
    intro f hf k hl
    obtain ⟨p, hpm, hnl, hl', -, hsub, -, -⟩ := h.parent_sub hf (h.pos_lt hf (by omega))
    exact ⟨p, hpm, hnl, by omega, hsub⟩
  | succ n ih =>
    intro f hf k hl
    obtain ⟨p, hpm, hnl, hl', -, hsub, -, -⟩ := h.parent_sub hf (h.pos_lt hf (by omega))
    obtain ⟨a, ham, hal, hak, hsa⟩ := ih p hpm k (by omega)
    exact ⟨a, ham, hal, hak, hsub.trans hsa⟩

theorem Forest.ancestor' {m : QT} (h : Forest m) {f : Elem} (hf : f ∈ m.elems) {k : Nat}
    (hk : k < f.level) : ∃ a ∈ m.elems, a ∉ m.leaves ∧ a.level = k ∧ f.Sub a :=
  h.ancestor (f.level - k - 1) f hf k (by omega)

/-- an element that shares a point with a leaf is not deeper than the leaf -/
theorem Forest.leaf_level {m : QT} (h : Forest m) {c f : Elem} (hc : c ∈ m.leaves) (hf : f ∈ m.elems)
    {x y : Rat} (h1 : c.Contains x y) (h2 : f.Contains x y) : f.level ≤ c.level := by
  by_contra hn
  obtain ⟨a, ham, hal, hak, hsa⟩ := h.ancestor' hf (k := c.level) (by omega)
  have hcm := h.leaves_sub c hc
  obtain ⟨e1, e2⟩ := (h.grid a ham).same (h.grid c hcm) hak (hsa.contains h2) h1
  have : a = c := h.uniq a ham c hcm hak e1 e2
  exact hal (this ▸ hc)

/-- the element with a given lower left corner and size is unique -/
theorem Forest.uniq_size {m : QT} (h : Forest m) {f g : Elem} (hf : f ∈ m.elems) (hg : g ∈ m.elems)
    (hs : f.size = g.size) (hx : f.x0 = g.x0) (hy : f.y0 = g.y0) : f = g :=
  h.uniq f hf g hg ((h.grid f hf).level_eq (h.grid g hg) hs) hx hy

theorem QInv.size_pos {m : QT} (h : QInv m) {c : Elem} (hc : c ∈ m.leaves) : 0 < c.size :=
  (h.forest.grid c (h.forest.leaves_sub c hc)).size_pos

end Stbem.Quadtree
