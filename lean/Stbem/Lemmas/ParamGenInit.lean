import Stbem.Lemmas.ParamGenTie

/-!
# `PiecewiseParametrization.__init__` regenerated from source: its four assertions on the hand model

`closeOK` / `fdOK` are the constructor's two numerical self checks (`np.allclose(eval(0), eval(L))` and the finite-difference
arc-length test on 50 sample points) expressed through the hand model's `evalCurve`; `gen_init_toOption` shows that the
generated constructor accepts exactly when the hand model's length test and these two checks pass, and then returns the
hand model's curve.
-/
namespace Stbem.ParamTie
open Stbem.Gen.ParamGen
open Stbem.Param
open Stbem.SL (Piece absR distSq)
open Stbem.Mesh (pairs)

theorem toOption_bind {ε α β : Type} (x : Except ε α) (f : α → Except ε β) :
    (x >>= f).toOption = x.toOption.bind fun a => (f a).toOption := by
  cases x <;> rfl

theorem toOption_assertThat {c : Prop} [Decidable c] (tag : String) :
    (assertThat c tag).toOption = if c then some () else none := by
  unfold assertThat
  split <;> rfl

/-- the closing test `np.allclose(self.eval(0), self.eval(self.gamma_length))` on the hand model -/
def closeOK (c : Curve) : Bool :=
  match evalCurve c 0, evalCurve c c.length with
  | .ok p, .ok q => npAllcloseMM (col p) (col q)
  | _, _ => false

/-- the sample points `np.linspace(1e-4, L - 1e-4)` of the arc-length test -/
def fdSamples (L : Rat) : List Rat := npLinspace c_1e_m4 (L - c_1e_m4)

/-- `|‖(p - q) / (2h)‖ - 1| <= atol + rtol` (decided on the squares), `h = 1e-5` -/
def speedOK (p q : Pt) : Bool :=
  decide (((1 : Rat) - (c_atol + c_rtol * absQ (1 : Rat))) ^ 2 ≤
      (p.1 - q.1) / ((2 : Rat) * c_1e_m5) * ((p.1 - q.1) / ((2 : Rat) * c_1e_m5)) +
        (p.2 - q.2) / ((2 : Rat) * c_1e_m5) * ((p.2 - q.2) / ((2 : Rat) * c_1e_m5)) ∧
    (p.1 - q.1) / ((2 : Rat) * c_1e_m5) * ((p.1 - q.1) / ((2 : Rat) * c_1e_m5)) +
        (p.2 - q.2) / ((2 : Rat) * c_1e_m5) * ((p.2 - q.2) / ((2 : Rat) * c_1e_m5)) ≤
      ((1 : Rat) + (c_atol + c_rtol * absQ (1 : Rat))) ^ 2)

/-- the finite-difference arc-length test of the constructor on the hand model: central differences of `eval` at the 50
sample points have Euclidean norm 1 up to `np.allclose` -/
def fdOK (c : Curve) : Bool :=
  match ((fdSamples c.length).map (· + c_1e_m5)).mapM (evalCurve c),
      ((fdSamples c.length).map (· - c_1e_m5)).mapM (evalCurve c) with
  | .ok ps, .ok qs => (List.zipWith speedOK ps qs).all id
  | _, _ => false

theorem two_h_ne : (2 : Rat) * c_1e_m5 ≠ 0 := by decide +kernel

theorem fd_cols : ∀ (ps qs : List Pt),
    npAllcloseNormAxis0 ((npMM (· - ·) (toRows ps) (toRows qs)).map fun r => r.map fun u => u / ((2 : Rat) * c_1e_m5)) (1 : Rat) =
      (List.zipWith speedOK ps qs).all id := by
  intro ps qs
  simp only [npAllcloseNormAxis0, npMM, toRows, List.zipWith_cons_cons, List.zipWith_nil_right, List.map_cons, List.map_nil,
    npColSumSq]
  induction ps generalizing qs with
  | nil => simp
  | cons p ps ih =>
    cases qs with
    | nil => simp
    | cons q qs =>
      simp only [List.map_cons, List.zipWith_cons_cons, List.all_cons, ih qs, speedOK, id]

theorem evalCurve_scalar (S : Fns) (c : Curve) (hlen : c.pw.length = c.pieces.length + 1) (hne : c.pieces ≠ []) (x : Rat) :
    PiecewiseParametrization.eval S (ofCurve c) (npScalar x) = (evalCurve c x).map col := by
  rw [npScalar, gen_eval_eq S c hlen hne]
  simp only [List.mapM_cons, List.mapM_nil]
  cases evalCurve c x <;> rfl

theorem toOption_assert_then {c : Prop} [Decidable c] (tag : String) {β : Type} (rest : Except String β) :
    (assertThat c tag >>= fun _ => rest).toOption = if c then rest.toOption else none := by
  rw [toOption_bind, toOption_assertThat]
  split <;> rfl

/-- the closing test of the generated constructor (followed by the rest of the constructor) -/
theorem close_step (S : Fns) (c : Curve) (hlen : c.pw.length = c.pieces.length + 1) (hne : c.pieces ≠ []) {β : Type}
    (rest : Except String β) :
    (do
      let t3 ← PiecewiseParametrization.eval S (ofCurve c) (npScalar (0 : Rat))
      let t4 ← PiecewiseParametrization.eval S (ofCurve c) (npScalar c.length)
      assertThat (npAllcloseMM t3 t4 = true) "assert:closed"
      rest).toOption =
    if closeOK c = true then rest.toOption else none := by
  rw [evalCurve_scalar S c hlen hne, evalCurve_scalar S c hlen hne]
  unfold closeOK
  cases h0 : evalCurve c 0 with
  | error e => rfl
  | ok p =>
    cases hL : evalCurve c c.length with
    | error e => rfl
    | ok q =>
      simp only [Except.map, ok_bind]
      rw [toOption_assert_then]

/-- the arc-length test of the generated constructor (followed by the rest of the constructor) -/
theorem fd_step (S : Fns) (c : Curve) (hlen : c.pw.length = c.pieces.length + 1) (hne : c.pieces ≠ []) {β : Type}
    (rest : Except String β) :
    (do
      let t5 ← central_derivative (fun x => PiecewiseParametrization.eval S (ofCurve c) x)
        (npLinspace c_1e_m4 (c.length - c_1e_m4)) c_1e_m5
      assertThat (npAllcloseNormAxis0 t5 (1 : Rat) = true) "assert:arclength"
      rest).toOption =
    if fdOK c = true then rest.toOption else none := by
  unfold central_derivative fdOK fdSamples
  simp only [gen_eval_eq S c hlen hne, npAS]
  cases hp : ((npLinspace c_1e_m4 (c.length - c_1e_m4)).map fun u => u + c_1e_m5).mapM (evalCurve c) with
  | error e => rfl
  | ok ps =>
    cases hq : ((npLinspace c_1e_m4 (c.length - c_1e_m4)).map fun u => u - c_1e_m5).mapM (evalCurve c) with
    | error e => rfl
    | ok qs =>
      simp only [Except.map, ok_bind, npDivMS, if_neg two_h_ne, pure, Except.pure]
      rw [toOption_assert_then, fd_cols]

theorem pyLast_eq {pw : List Rat} (h : pw ≠ []) : pyLast pw = .ok (pw.getLastD 0) := by
  unfold pyLast
  cases pw with
  | nil => exact absurd rfl h
  | cons a l => simp [List.getLast?_eq_getLast_of_ne_nil, List.getLastD]; rfl

theorem pyIdx_zero {pw : List Rat} (h : pw ≠ []) : pyIdx pw 0 = .ok (pw.headD 0) := by
  cases pw with
  | nil => exact absurd rfl h
  | cons a l => rfl

/-- **`PiecewiseParametrization.__init__`**: on the data of a hand-model curve (one break point more than pieces, at least
one piece) the generated constructor succeeds iff `pw_start[0] == 0`, `gamma_length > 0`, the closing test (when declared
closed) and the arc-length test pass, and then it returns that curve -/
theorem gen_init_toOption (S : Fns) (c : Curve) (hlen : c.pw.length = c.pieces.length + 1) (hne : c.pieces ≠ []) :
    (PiecewiseParametrization.init S c.pw (c.pieces.map ofPiece) c.closed).toOption =
      if (c.pw.headD 0 = 0 ∧ 0 < c.length) ∧ (c.closed = true → closeOK c = true) ∧ fdOK c = true then some (ofCurve c)
      else none := by
  have hpw : c.pw ≠ [] := by
    intro h; rw [h] at hlen; simp at hlen
  unfold PiecewiseParametrization.init
  rw [pyLast_eq hpw, ok_bind]
  have hself : ({ pw_start := c.pw, pw_gamma := c.pieces.map ofPiece, closed := c.closed, gamma_length := c.pw.getLastD 0 } :
      PiecewiseParametrization) = ofCurve c := rfl
  simp only [hself]
  rw [pyIdx_zero hpw, ok_bind, show c.pw.getLastD 0 = c.length from rfl, toOption_assert_then]
  by_cases h1 : c.pw.headD 0 = 0 ∧ 0 < c.length
  · rw [if_pos (by exact ⟨h1.1, h1.2⟩)]
    cases hc : c.closed with
    | false =>
      rw [if_neg (by simp), fd_step S c hlen hne]
      by_cases h3 : fdOK c = true
      · rw [if_pos h3, if_pos ⟨h1, by simp, h3⟩]; rfl
      · rw [if_neg h3, if_neg (fun h => h3 h.2.2)]
    | true =>
      rw [if_pos rfl, close_step S c hlen hne, fd_step S c hlen hne]
      by_cases h2 : closeOK c = true
      · by_cases h3 : fdOK c = true
        · rw [if_pos h2, if_pos h3, if_pos ⟨h1, fun _ => h2, h3⟩]; rfl
        · rw [if_pos h2, if_neg h3, if_neg (fun h => h3 h.2.2)]
      · rw [if_neg h2, if_neg (fun h => h2 (h.2.1 rfl))]
  · rw [if_neg (by intro h; exact h1 ⟨h.1, h.2⟩), if_neg (fun h => h1 h.1)]

end Stbem.ParamTie
