import Stbem.Lemmas.PosDefLDL

/-!
# Quadratic forms of `transposeN`, `symPart`, `shiftDiag`, `scaledShift`
-/
namespace Stbem.PosDef
set_option linter.unusedSectionVars false

variable {K : Type} [Field K] [LinearOrder K] [IsStrictOrderedRing K]

/-! ## transpose -/

/-- `yᵀ (Mᵀ x)`-form of the transpose:  `x · (Mᵀ y) = y · (M x)` -/
theorem dot_mulVec_transposeN : ∀ (n : Nat) (M : List (List K)) (x y : List K), x.length ≤ n →
    dot x (mulVec (transposeN n M) y) = dot y (mulVec M x) := by
  intro n
  induction n with
  | zero =>
    intro M x y hx
    have : x = [] := List.eq_nil_of_length_eq_zero (Nat.le_zero.mp hx)
    subst this
    simp only [transposeN, mulVec, List.map_nil, dot_nil_right]
    symm; apply dot_zero_right; intro v hv
    simp only [List.mem_map] at hv
    obtain ⟨row, _, rfl⟩ := hv; simp
  | succ n ih =>
    intro M x y hx
    cases x with
    | nil =>
      simp only [dot_nil_left]
      symm; apply dot_zero_right; intro v hv
      simp only [mulVec, List.mem_map] at hv
      obtain ⟨row, _, rfl⟩ := hv; simp
    | cons x0 x' =>
      have hx' : x'.length ≤ n := by simpa using hx
      have h1 : mulVec M (x0 :: x') = M.map fun row => row.headD 0 * x0 + dot row.tail x' := by
        unfold mulVec; apply List.map_congr_left; intro row _; exact dot_headD_tail row x0 x'
      rw [h1, dot_map_lin M (fun row => row.headD 0) (fun row => dot row.tail x') x0 y]
      have h3 : (M.map fun row => dot row.tail x') = mulVec (tails M) x' := by
        simp [mulVec, tails, List.map_map, Function.comp_def]
      rw [h3, ← ih (tails M) x' y hx']
      simp only [transposeN, mulVec, List.map_cons, dot_cons_cons]
      rw [dot_comm y]; rfl

theorem quad_transposeN (n : Nat) (M : List (List K)) (x : List K) (hx : x.length ≤ n) :
    quad (transposeN n M) x = quad M x :=
  dot_mulVec_transposeN n M x x hx

theorem transposeN_length (n : Nat) (M : List (List K)) : (transposeN n M).length = n := by
  induction n generalizing M with
  | zero => simp [transposeN]
  | succ n ih => simp [transposeN, ih]

theorem transposeN_rows (n : Nat) (M : List (List K)) : ∀ r ∈ transposeN n M, r.length = M.length := by
  induction n generalizing M with
  | zero => simp [transposeN]
  | succ n ih =>
    intro r hr
    simp only [transposeN, List.mem_cons] at hr
    rcases hr with rfl | hr
    · simp [heads]
    · have := ih (tails M) r hr
      simpa [tails] using this

theorem tails_transposeN_cons (n : Nat) (r : List K) (X : List (List K)) :
    tails (transposeN n (r :: X)) = transposeN n X := by
  induction n generalizing r X with
  | zero => simp [transposeN, tails]
  | succ n ih =>
    have := ih r.tail (tails X)
    simp only [transposeN, tails, heads, List.map_cons, List.tail_cons] at this ⊢
    rw [this]

theorem heads_transposeN_cons (n : Nat) (r : List K) (X : List (List K)) (hr : r.length = n) :
    heads (transposeN n (r :: X)) = r := by
  induction n generalizing r X with
  | zero => simp [transposeN, heads, List.eq_nil_of_length_eq_zero hr]
  | succ n ih =>
    cases r with
    | nil => simp at hr
    | cons a r =>
      have := ih r (tails X) (by simpa using hr)
      simp only [transposeN, tails, heads, List.map_cons, List.tail_cons, List.headD_cons] at this ⊢
      rw [this]

/-! ## symmetric part -/

theorem dot_zipWith_avg2 {β γ : Type} (g : β → K) (h : γ → K) (x : List K) (L1 : List β) (L2 : List γ)
    (hl : L1.length = L2.length) :
    dot x (List.zipWith (fun a b => (g a + h b) / 2) L1 L2) = (dot x (L1.map g) + dot x (L2.map h)) / 2 := by
  induction L1 generalizing x L2 with
  | nil => cases L2 with
    | nil => simp
    | cons _ _ => simp at hl
  | cons a L1 ih => cases L2 with
    | nil => simp at hl
    | cons b L2 => cases x with
      | nil => simp
      | cons x0 x =>
        have := ih x L2 (by simpa using hl)
        simp [this]; ring

theorem zipWith_congr_mem2 {α β γ : Type} (f g : α → β → γ) (l1 : List α) (l2 : List β)
    (h : ∀ a ∈ l1, ∀ b ∈ l2, f a b = g a b) : List.zipWith f l1 l2 = List.zipWith g l1 l2 := by
  induction l1 generalizing l2 with
  | nil => simp
  | cons a l1 ih => cases l2 with
    | nil => simp
    | cons b l2 =>
      simp only [List.zipWith_cons_cons]
      rw [h a (by simp) b (by simp), ih l2 (fun a ha b hb => h a (by simp [ha]) b (by simp [hb]))]

/-- the symmetric part has the same quadratic form -/
theorem quad_symPart {n : Nat} {A : List (List K)} (hA : Shape n n A) (x : List K) (hx : x.length ≤ n) :
    quad (symPart A) x = quad A x := by
  obtain ⟨hl, hr⟩ := hA
  have h1 : mulVec (symPart A) x =
      List.zipWith (fun row rowT => (dot row x + dot rowT x) / 2) A (transposeN n A) := by
    unfold mulVec symPart
    rw [List.map_zipWith, hl]
    apply zipWith_congr_mem2
    intro row hrow rowT hT
    exact dot_avg row rowT x (by rw [hr row hrow, transposeN_rows n A rowT hT, hl])
  unfold quad
  rw [h1, dot_zipWith_avg2 (fun row => dot row x) (fun row => dot row x) x A (transposeN n A)
    (by rw [hl, transposeN_length])]
  have h2 := dot_mulVec_transposeN n A x x hx
  unfold mulVec at h2
  rw [h2]; unfold mulVec; ring

theorem mem_zipWith_elim2 {α β γ : Type} (f : α → β → γ) (P : γ → Prop) (l1 : List α) (l2 : List β)
    (h : ∀ a ∈ l1, ∀ b ∈ l2, P (f a b)) : ∀ c ∈ List.zipWith f l1 l2, P c := by
  induction l1 generalizing l2 with
  | nil => simp
  | cons a l1 ih => cases l2 with
    | nil => simp
    | cons b l2 =>
      intro c hc
      simp only [List.zipWith_cons_cons, List.mem_cons] at hc
      rcases hc with rfl | hc
      · exact h a (by simp) b (by simp)
      · exact ih l2 (fun a ha b hb => h a (by simp [ha]) b (by simp [hb])) c hc

theorem shape_symPart {n : Nat} {A : List (List K)} (hA : Shape n n A) : Shape n n (symPart A) := by
  obtain ⟨hl, hr⟩ := hA
  refine ⟨by simp [symPart, hl, transposeN_length], ?_⟩
  unfold symPart
  rw [hl]
  apply mem_zipWith_elim2
  intro row hrow rowT hT
  simp [hr row hrow, transposeN_rows n A rowT hT, hl]

/-- the symmetric part is built structurally -/
theorem symPart_cons {k : Nat} (a : K) (r : List K) (rest : List (List K)) (hrest : rest.length = k) :
    symPart ((a :: r) :: rest) =
      ((a + a) / 2 :: rowcol r rest) ::
        List.zipWith (List.zipWith fun a b => (a + b) / 2) rest (transposeN k (r :: tails rest)) := by
  simp [symPart, transposeN, heads, tails, rowcol, hrest]

theorem tails_symPart_rest {k : Nat} (r : List K) (rest : List (List K)) (hrest : rest.length = k) :
    tails (List.zipWith (List.zipWith fun a b => (a + b) / 2) rest (transposeN k (r :: tails rest))) =
      symPart (tails rest) := by
  have h1 : (tails rest).length = k := by simp [tails, hrest]
  unfold symPart
  rw [h1, ← tails_transposeN_cons k r (tails rest)]
  simp only [tails, List.map_zipWith, List.zipWith_map, List.tail_zipWith]

theorem diagN_symPart : ∀ (n : Nat) (A : List (List K)), Shape n n A → diagN n (symPart A) = diagN n A := by
  intro n
  induction n with
  | zero => intro A _; cases A <;> simp [diagN]
  | succ k ih =>
    intro A hA
    obtain ⟨row, rest, rfl⟩ := shape_succ_cases hA
    obtain ⟨hrow, hrest⟩ := shape_cons_inv hA
    cases row with
    | nil => simp at hrow
    | cons a r =>
      rw [symPart_cons a r rest hrest.1]
      simp only [diagN]
      rw [tails_symPart_rest r rest hrest.1, ih _ (shape_tails hrest)]
      congr 1
      ring

/-! ## diagonal shift -/

theorem sqsum_nil_left (x : List K) : sqsum ([] : List K) x = 0 := by simp [sqsum]
theorem sqsum_nil_right (d : List K) : sqsum d ([] : List K) = 0 := by simp [sqsum]
theorem sqsum_cons_cons (d x0 : K) (ds x : List K) :
    sqsum (d :: ds) (x0 :: x) = d * x0 * x0 + sqsum ds x := by simp [sqsum]

theorem sqsum_map_mul (μ : K) (d x : List K) : sqsum (d.map (μ * ·)) x = μ * sqsum d x := by
  induction d generalizing x with
  | nil => simp [sqsum_nil_left]
  | cons d0 d ih => cases x with
    | nil => simp [sqsum_nil_right]
    | cons x0 x => simp only [List.map_cons, sqsum_cons_cons, ih x]; ring

theorem shiftDiag_length : ∀ (ds : List K) (M : List (List K)), (shiftDiag M ds).length = M.length := by
  intro ds
  induction ds with
  | nil => intro M; cases M with
    | nil => simp [shiftDiag]
    | cons row rest => cases row <;> simp [shiftDiag]
  | cons d ds ih =>
    intro M
    cases M with
    | nil => simp [shiftDiag]
    | cons row rest => cases row with
      | nil => simp [shiftDiag]
      | cons a r =>
        have h := ih (tails rest)
        simp only [tails] at h
        simp [shiftDiag, heads, tails, h]

theorem heads_zipWith_cons (h : List K) (T : List (List K)) (hl : h.length = T.length) :
    heads (List.zipWith (fun c row => c :: row) h T) = h := by
  induction h generalizing T with
  | nil => simp [heads]
  | cons c h ih => cases T with
    | nil => simp at hl
    | cons row T =>
      have := ih T (by simpa using hl)
      simp only [heads, List.zipWith_cons_cons, List.map_cons, List.headD_cons] at this ⊢
      rw [this]

theorem tails_zipWith_cons (h : List K) (T : List (List K)) (hl : h.length = T.length) :
    tails (List.zipWith (fun c row => c :: row) h T) = T := by
  induction h generalizing T with
  | nil => cases T with
    | nil => simp [tails]
    | cons _ _ => simp at hl
  | cons c h ih => cases T with
    | nil => simp at hl
    | cons row T =>
      have := ih T (by simpa using hl)
      simp only [tails, List.zipWith_cons_cons, List.map_cons, List.tail_cons] at this ⊢
      rw [this]

/-- quadratic form after subtracting `d` from the diagonal -/
theorem quad_shiftDiag : ∀ (n : Nat) (M : List (List K)) (ds x : List K), Shape n n M → ds.length = n →
    quad (shiftDiag M ds) x = quad M x - sqsum ds x := by
  intro n
  induction n with
  | zero =>
    intro M ds x _ hds
    have : ds = [] := List.eq_nil_of_length_eq_zero hds
    subst this
    cases M with
    | nil => simp [shiftDiag, sqsum_nil_left]
    | cons row rest => cases row <;> simp [shiftDiag, sqsum_nil_left]
  | succ k ih =>
    intro M ds x hM hds
    obtain ⟨row, rest, rfl⟩ := shape_succ_cases hM
    obtain ⟨hrow, hrest⟩ := shape_cons_inv hM
    cases row with
    | nil => simp at hrow
    | cons a r => cases ds with
      | nil => simp at hds
      | cons d ds => cases x with
        | nil => simp [quad, sqsum_nil_right]
        | cons x0 x' =>
          have hlen : (heads rest).length = (shiftDiag (tails rest) ds).length := by
            rw [shiftDiag_length, heads_length]; simp [tails]
          simp only [shiftDiag]
          rw [quad_cons, quad_cons, heads_zipWith_cons _ _ hlen, tails_zipWith_cons _ _ hlen,
            ih (tails rest) ds x' (shape_tails hrest) (by simpa using hds), sqsum_cons_cons]
          ring

theorem shape_shiftDiag : ∀ (n : Nat) (M : List (List K)) (ds : List K), Shape n n M → ds.length = n →
    Shape n n (shiftDiag M ds) := by
  intro n
  induction n with
  | zero =>
    intro M ds hM hds
    have : ds = [] := List.eq_nil_of_length_eq_zero hds
    subst this
    cases M with
    | nil => simpa [shiftDiag] using hM
    | cons row rest => cases row <;> simpa [shiftDiag] using hM
  | succ k ih =>
    intro M ds hM hds
    obtain ⟨row, rest, rfl⟩ := shape_succ_cases hM
    obtain ⟨hrow, hrest⟩ := shape_cons_inv hM
    cases row with
    | nil => simp at hrow
    | cons a r => cases ds with
      | nil => simp at hds
      | cons d ds =>
        have hT := ih (tails rest) ds (shape_tails hrest) (by simpa using hds)
        refine ⟨by simp [shiftDiag, shiftDiag_length, heads, tails, hrest.1], ?_⟩
        intro c hc
        simp only [shiftDiag, List.mem_cons] at hc
        rcases hc with rfl | hc
        · simpa using hrow
        · revert c
          apply mem_zipWith_elim
          intro c0 row hrow'
          simp [hT.2 row hrow']

theorem diagN_length : ∀ (n : Nat) (M : List (List K)), Shape n n M → (diagN n M).length = n := by
  intro n
  induction n with
  | zero => intro M _; cases M with
    | nil => simp [diagN]
    | cons row rest => cases row <;> simp [diagN]
  | succ k ih =>
    intro M hM
    obtain ⟨row, rest, rfl⟩ := shape_succ_cases hM
    obtain ⟨hrow, hrest⟩ := shape_cons_inv hM
    cases row with
    | nil => simp at hrow
    | cons a r => simp [diagN, ih _ (shape_tails hrest)]

/-! ## `scaledShift` -/

theorem shape_scaledShift {n : Nat} {A : List (List K)} (hA : Shape n n A) (μ : K) : Shape n n (scaledShift A μ) := by
  have hS := shape_symPart hA
  unfold scaledShift
  simp only
  rw [hS.1]
  exact shape_shiftDiag n _ _ hS (by simp [diagN_length n _ hS])

/-- `xᵀ (sym A − μ diag A) x = xᵀ A x − μ Σ aᵢᵢ xᵢ²` -/
theorem quad_scaledShift {n : Nat} {A : List (List K)} (hA : Shape n n A) (μ : K) (x : List K) (hx : x.length ≤ n) :
    quad (scaledShift A μ) x = quad A x - μ * sqsum (diagN n A) x := by
  have hS := shape_symPart hA
  unfold scaledShift
  simp only
  rw [hS.1, quad_shiftDiag n _ _ x hS (by simp [diagN_length n _ hS]), sqsum_map_mul, quad_symPart hA x hx,
    diagN_symPart n A hA]

/-- **scaled bound (list form)**: a certificate for `sym A − μ diag A` bounds the form of `A` from below -/
theorem scaled_bound_list {n : Nat} {A : List (List K)} (hA : Shape n n A) (μ : K)
    (h : certPD (scaledShift A μ) = true) (x : List K) (hx : x.length = n) (hnz : NonZero x) :
    μ * sqsum (diagN n A) x < quad A x := by
  have := certPD_sound' (shape_scaledShift hA μ) h x hx hnz
  rw [quad_scaledShift hA μ x hx.le] at this
  linarith

/-- and conversely (completeness): if the bound holds strictly for every non-zero vector, the certificate is found -/
theorem scaled_bound_list_conv {n : Nat} {A : List (List K)} (hA : Shape n n A) (μ : K)
    (h : ∀ x : List K, x.length = n → NonZero x → μ * sqsum (diagN n A) x < quad A x) :
    certPD (scaledShift A μ) = true := by
  apply certPD_complete' (shape_scaledShift hA μ)
  intro x hx hnz
  rw [quad_scaledShift hA μ x hx.le]
  linarith [h x hx hnz]

end Stbem.PosDef
