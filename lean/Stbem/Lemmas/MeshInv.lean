import Stbem.Model.Mesh
import Mathlib.Tactic.Linarith
import Mathlib.Tactic.Ring
import Mathlib.Algebra.Order.Field.Rat

/-!
# Invariants of the boundary mesh (definitions)

`Inv m` is the conjunction of the statements of C02/C10 that are about the leaf set:
the leaves tile the cylinder (half-open rectangles: every point in exactly one leaf), leaves that
share a piece of positive length of an edge (seam identified when glued) differ by at most one
level per axis, element indices are unique and below the element counter.
-/
namespace Stbem.Mesh

/-- half-open membership -/
def Cell.Contains (c : Cell) (t x : Rat) : Prop := c.t0 ≤ t ∧ t < c.t1 ∧ c.x0 ≤ x ∧ x < c.x1

def Mesh.InDomain (m : Mesh) (t x : Rat) : Prop := m.tmin ≤ t ∧ t < m.tmax ∧ m.xmin ≤ x ∧ x < m.xmax

/-- geometric containment of cells -/
def Cell.Sub (c d : Cell) : Prop := d.t0 ≤ c.t0 ∧ c.t1 ≤ d.t1 ∧ d.x0 ≤ c.x0 ∧ c.x1 ≤ d.x1

structure Tiles (m : Mesh) : Prop where
  proper : ∀ c ∈ m.leaves, c.t0 < c.t1 ∧ c.x0 < c.x1
  inside : ∀ c ∈ m.leaves, m.tmin ≤ c.t0 ∧ c.t1 ≤ m.tmax ∧ m.xmin ≤ c.x0 ∧ c.x1 ≤ m.xmax
  cover : ∀ t x, m.InDomain t x → ∃ c ∈ m.leaves, c.Contains t x
  disjoint : ∀ c ∈ m.leaves, ∀ d ∈ m.leaves, ∀ t x, c.Contains t x → d.Contains t x → c = d

/-- 1-irregularity: edge neighbours differ by at most one level in time and in space -/
def Irr (m : Mesh) : Prop :=
  ∀ c ∈ m.leaves, ∀ n ∈ m.leaves, ∀ s, adjacent m c s n = true →
    c.lt ≤ n.lt + 1 ∧ n.lt ≤ c.lt + 1 ∧ c.lx ≤ n.lx + 1 ∧ n.lx ≤ c.lx + 1

def IdsOK (m : Mesh) : Prop :=
  (m.leaves.map (·.id)).Nodup ∧ ∀ c ∈ m.leaves, c.id < m.nElems

structure Inv (m : Mesh) : Prop where
  dom : m.tmin < m.tmax ∧ m.xmin < m.xmax
  tiles : Tiles m
  irr : Irr m
  ids : IdsOK m

/-- `m'` is a refinement of `m`: same cylinder, every new leaf lies inside an old leaf and is at
least as deep -/
structure Refines (m m' : Mesh) : Prop where
  glue : m'.glue = m.glue
  box : m'.xmin = m.xmin ∧ m'.xmax = m.xmax ∧ m'.tmin = m.tmin ∧ m'.tmax = m.tmax
  sub : ∀ d' ∈ m'.leaves, ∃ d ∈ m.leaves, d'.Sub d ∧ d.lt ≤ d'.lt ∧ d.lx ≤ d'.lx
  count : m.nElems ≤ m'.nElems

end Stbem.Mesh
