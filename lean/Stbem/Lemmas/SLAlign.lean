import Stbem.Lemmas.SLTile

/-! Alignment of the rule kinds with the singular set, by induction on `Tiles`. -/
namespace Stbem.SL

/-- the side lengths of a panel agree exactly or up to the `1e-10` test of the code -/
def Panel.squarish (cfg : Cfg) (p : Panel) : Prop :=
  p.b - p.a = p.d - p.c ∨ absR ((p.b - p.a) - (p.d - p.c)) < cfg.eps10

/-- what the rule kind of a panel promises about the position of the panel -/
def Panel.Aligned (cfg : Cfg) (p : Panel) : Prop :=
  match p.kind with
  | .duffyId => p.a = p.c ∧ p.b = p.d
  | .duffyMx => p.b = p.c ∧ p.squarish cfg
  | .duffyMy => p.a = p.d ∨ (cfg.glue = true ∧ p.a = 0 ∧ p.d = cfg.len ∧ p.b < p.c ∧ p.squarish cfg)
  | .logMx => p.b < p.c ∧ (cfg.glue = false ∨ p.c - p.b < cfg.len - p.d + p.a)
  | .logMy => cfg.glue = true ∧ p.b < p.c ∧ cfg.len - p.d + p.a ≤ p.c - p.b

theorem Tiles.aligned {cfg n a b c d ps} (h : Tiles cfg n a b c d ps) : ∀ p ∈ ps, p.Aligned cfg := by
  induction h with
  | ident hB h1 h2 =>
    intro p hp; rw [List.mem_singleton] at hp; subst hp; exact ⟨h1, h2⟩
  | touchSq hB _ h1 h2 =>
    intro p hp; rw [List.mem_singleton] at hp; subst hp; exact ⟨h1, Or.inr h2⟩
  | @touchWide n a b c d r hB _ hbc _ hw _ ih =>
    intro p hp
    rcases List.mem_cons.mp hp with hp | hp
    · subst hp; exact ⟨hbc, Or.inl (by simp only []; ring)⟩
    · exact ih p hp
  | @touchTall n a b c d r hB _ hbc _ hw _ ih =>
    intro p hp
    rcases List.mem_cons.mp hp with hp | hp
    · subst hp; exact ⟨hbc, Or.inl (by simp only []; ring)⟩
    · exact ih p hp
  | seamSq hA hs hbc hsq =>
    intro p hp; rw [List.mem_singleton] at hp; subst hp
    exact Or.inr ⟨hs.2.2, hs.1, hs.2.1, hbc, Or.inr hsq⟩
  | @seamWide n a b c d r hA hs hbc _ hw _ ih =>
    intro p hp
    rcases List.mem_cons.mp hp with hp | hp
    · subst hp
      exact Or.inr ⟨hs.2.2, hs.1, hs.2.1, by simp only []; linarith, Or.inl (by simp only []; ring)⟩
    · exact ih p hp
  | @seamTall n a b c d r hA hs hbc _ hw _ ih =>
    intro p hp
    rcases List.mem_append.mp hp with hp | hp
    · exact ih p hp
    · rw [List.mem_singleton] at hp; subst hp
      exact Or.inr ⟨hs.2.2, hs.1, hs.2.1, by simp only []; linarith [not_lt.mp hw],
        Or.inl (by simp only []; ring)⟩
  | farX hA hs hbc hn =>
    intro p hp; rw [List.mem_singleton] at hp; subst hp
    exact ⟨hbc, hn.symm⟩
  | farY hA hs hbc hn =>
    intro p hp; rw [List.mem_singleton] at hp; subst hp
    rw [not_or] at hn
    exact ⟨by simpa using hn.2, hbc, not_lt.mp hn.1⟩
  | @over n a b c d r hA _ _ hdb _ ih =>
    intro p hp
    rcases List.mem_append.mp hp with hp | hp
    · exact ih p hp
    · rw [List.mem_singleton] at hp; subst hp; exact Or.inl rfl
  | nest _ _ _ _ _ _ _ _ ih1 ih2 | stag _ _ _ _ _ _ _ _ _ ih1 ih2 =>
    intro p hp
    rcases List.mem_append.mp hp with hp | hp
    · exact ih1 p hp
    · exact ih2 p hp

/-- every panel whose closed rectangle contains the seam pair `(0, len)` of a closed curve is a
seam Duffy panel — or the degenerate configurations "two elements" (`duffyMx`, both corners
singular) and "one element" (`duffyId`) -/
theorem Tiles.seam {cfg n a b c d ps} (h : Tiles cfg n a b c d ps) (hg : cfg.glue = true) (h0 : 0 ≤ a) :
    ∀ p ∈ ps, p.a = 0 → p.d = cfg.len →
      (p.kind = .duffyMy ∧ p.b < p.c) ∨ (p.kind = .duffyMx ∧ p.b = p.c) ∨
      (p.kind = .duffyId ∧ p.a = p.c ∧ p.b = p.d) := by
  induction h with
  | ident hB h1 h2 =>
    intro p hp _ _; rw [List.mem_singleton] at hp; subst hp; exact Or.inr (Or.inr ⟨rfl, h1, h2⟩)
  | touchSq hB _ h1 h2 =>
    intro p hp _ _; rw [List.mem_singleton] at hp; subst hp; exact Or.inr (Or.inl ⟨rfl, h1⟩)
  | @touchWide n a b c d r hB _ hbc _ hw _ ih =>
    intro p hp
    rcases List.mem_cons.mp hp with hp | hp
    · subst hp; intro _ _; exact Or.inr (Or.inl ⟨rfl, hbc⟩)
    · exact ih h0 p hp
  | @touchTall n a b c d r hB _ hbc _ hw _ ih =>
    intro p hp
    rcases List.mem_cons.mp hp with hp | hp
    · subst hp; intro _ _; exact Or.inr (Or.inl ⟨rfl, hbc⟩)
    · exact ih h0 p hp
  | seamSq hA hs hbc hsq =>
    intro p hp _ _; rw [List.mem_singleton] at hp; subst hp
    exact Or.inl ⟨rfl, hbc⟩
  | @seamWide n a b c d r hA hs hbc _ hw _ ih =>
    intro p hp
    rcases List.mem_cons.mp hp with hp | hp
    · subst hp; intro _ _
      exact Or.inl ⟨rfl, by simp only []; linarith⟩
    · exact ih (by linarith [hA.cd]) p hp
  | @seamTall n a b c d r hA hs hbc _ hw _ ih =>
    intro p hp
    rcases List.mem_append.mp hp with hp | hp
    · exact ih h0 p hp
    · rw [List.mem_singleton] at hp; subst hp; intro _ _
      exact Or.inl ⟨rfl, by simp only []; linarith [not_lt.mp hw]⟩
  | farX hA hs hbc hn =>
    intro p hp h1 h2; rw [List.mem_singleton] at hp; subst hp
    exact absurd ⟨h1, h2, hg⟩ hs
  | farY hA hs hbc hn =>
    intro p hp h1 h2; rw [List.mem_singleton] at hp; subst hp
    exact absurd ⟨h1, h2, hg⟩ hs
  | @over n a b c d r hA _ _ hdb _ ih =>
    intro p hp
    rcases List.mem_append.mp hp with hp | hp
    · exact ih h0 p hp
    · rw [List.mem_singleton] at hp; subst hp; intro h1 _
      simp only [] at h1
      have hac : a ≤ c := by rcases hA.lex with h | ⟨h, _⟩ <;> linarith
      linarith [hA.cd]
  | nest _ _ _ _ _ _ _ _ ih1 ih2 =>
    intro p hp
    rcases List.mem_append.mp hp with hp | hp
    · exact ih1 h0 p hp
    · exact ih2 h0 p hp
  | stag _ _ _ _ _ _ hac _ _ ih1 ih2 =>
    intro p hp
    rcases List.mem_append.mp hp with hp | hp
    · exact ih1 h0 p hp
    · exact ih2 (by linarith) p hp

/-! ### consequences of alignment for the position of the singular set -/

/-- the open rectangle of a panel that is not `duffyId` misses the diagonal -/
theorem Panel.Aligned.open_misses_diag {cfg : Cfg} {p : Panel} (h : p.Aligned cfg)
    (hk : p.kind ≠ .duffyId) {x y : Rat} (hx1 : p.a < x) (hx2 : x < p.b) (hy1 : p.c < y) (hy2 : y < p.d) :
    x ≠ y := by
  unfold Panel.Aligned at h
  intro hxy; subst hxy
  cases hkind : p.kind <;> rw [hkind] at h <;> simp only [] at h
  · exact hk hkind
  · linarith [h.1]
  · rcases h with h | h
    · linarith
    · linarith [h.2.2.2.1]
  · linarith [h.1]
  · linarith [h.2.1]

/-- the closed rectangle meets the diagonal only in the corner at which the rule is singular -/
theorem Panel.Aligned.closed_meets_diag {cfg : Cfg} {p : Panel} (h : p.Aligned cfg)
    {x : Rat} (hx1 : p.a ≤ x) (hx2 : x ≤ p.b) (hy1 : p.c ≤ x) (hy2 : x ≤ p.d) :
    p.kind = .duffyId ∨ (p.kind = .duffyMx ∧ x = p.b ∧ x = p.c) ∨
      (p.kind = .duffyMy ∧ x = p.a ∧ x = p.d) := by
  unfold Panel.Aligned at h
  cases hkind : p.kind <;> rw [hkind] at h <;> simp only [] at h
  · exact Or.inl rfl
  · exact Or.inr (Or.inl ⟨rfl, by linarith [h.1], by linarith [h.1]⟩)
  · rcases h with h | h
    · exact Or.inr (Or.inr ⟨rfl, by linarith, by linarith⟩)
    · linarith [h.2.2.2.1]
  · linarith [h.1]
  · linarith [h.2.1]

end Stbem.SL
