import Stbem.Lemmas.MeshTrack
import Stbem.Lemmas.MeshBulk

/-!
# The level-sorted refinement phase of the Dörfler routines never fails

`refinePhase m marked ax` bisects the cells of `marked` (distinct leaves of `m`) in ascending
`ax`-level.  Invariants of the loop, relative to the mesh `m₀` at the start of the phase:

* `Track`: every current leaf is a leaf of `m₀` or lies in a leaf of `m₀` that is exactly one level
  shallower ("each original leaf is bisected at most once");
* every cell that is bisected (marked or reached by the 1-irregular closure) is a leaf of `m₀`
  (the guard `PG`): a shallower neighbour `n` of a leaf `c ∈ m₀` cannot be a child of an
  `m₀`-leaf `o`, because `o` would be a neighbour of `c` in `m₀` two levels above `c`;
* `PT`: the new cells, once created, stay leaves until the end of the phase; original leaves that
  have been bisected do not come back;
* `KidsTrack` (under `KidsOK m₀`): the `kids` table records for each bisected original leaf its two
  children, and has no entry for a current leaf.
-/
namespace Stbem.Mesh

/-! ### small tools -/

/-- two leaves that contain a common non-degenerate cell coincide -/
theorem leaf_sub_unique {m : Mesh} (ht : Tiles m) {x d d' : Cell} (hd : d ∈ m.leaves)
    (hd' : d' ∈ m.leaves) (hp : x.t0 < x.t1 ∧ x.x0 < x.x1) (h1 : x.Sub d) (h2 : x.Sub d') :
    d = d' :=
  ht.disjoint d hd d' hd' x.t0 x.x0 (h1.contains ⟨le_refl _, hp.1, le_refl _, hp.2⟩)
    (h2.contains ⟨le_refl _, hp.1, le_refl _, hp.2⟩)

theorem flatMap_congr_mem {α β} {f g : α → List β} {l : List α} (h : ∀ x ∈ l, f x = g x) :
    l.flatMap f = l.flatMap g := by
  induction l with
  | nil => rfl
  | cons a l ih =>
    rw [List.flatMap_cons, List.flatMap_cons, h a (by simp), ih (fun x hx => h x (by simp [hx]))]

theorem flatMap_nodup_of {α β} {g : α → List β} {l : List α} (hl : l.Nodup)
    (h1 : ∀ x ∈ l, (g x).Nodup)
    (h2 : ∀ x ∈ l, ∀ y ∈ l, ∀ k, k ∈ g x → k ∈ g y → x = y) : (l.flatMap g).Nodup := by
  induction l with
  | nil => simp
  | cons a l ih =>
    rw [List.flatMap_cons, List.nodup_append]
    have hl' := List.nodup_cons.mp hl
    refine ⟨h1 a (by simp), ih hl'.2 (fun x hx => h1 x (by simp [hx]))
      (fun x hx y hy => h2 x (by simp [hx]) y (by simp [hy])), ?_⟩
    intro k hk k' hk' e
    subst e
    obtain ⟨y, hy, hky⟩ := List.mem_flatMap.mp hk'
    have := h2 a (by simp) y (by simp [hy]) k hk hky
    subst this
    exact hl'.1 hy

theorem flatMap_length_two {α β} {g : α → List β} {l : List α} (h : ∀ x ∈ l, (g x).length = 2) :
    (l.flatMap g).length = 2 * l.length := by
  induction l with
  | nil => simp
  | cons a l ih =>
    rw [List.flatMap_cons, List.length_append, h a (by simp), ih (fun x hx => h x (by simp [hx])),
      List.length_cons]
    omega

/-! ### the children lists -/

/-- the two children of `c` with the ids `f c`, `f c + 1` -/
def kidsOf (ax : Ax) (f : Cell → Nat) (c : Cell) : List Cell :=
  [(children (f c) c ax).1, (children (f c) c ax).2]

theorem mem_kidsOf {ax : Ax} {f : Cell → Nat} {c k : Cell} :
    k ∈ kidsOf ax f c ↔ k = (children (f c) c ax).1 ∨ k = (children (f c) c ax).2 := by
  simp [kidsOf]

theorem kidsOf_props {ax : Ax} {f : Cell → Nat} {c k : Cell} (hk : k ∈ kidsOf ax f c)
    (hp : c.t0 < c.t1 ∧ c.x0 < c.x1) :
    k.Sub c ∧ (k.t0 < k.t1 ∧ k.x0 < k.x1) ∧ k.level ax = c.level ax + 1 ∧
      (match ax with
       | .time => k.lt = c.lt + 1 ∧ k.lx = c.lx
       | .space => k.lt = c.lt ∧ k.lx = c.lx + 1) := by
  have h1 := children_sub (f c) c ax hp
  have h2 := children_proper (f c) c ax hp
  have h3 := children_level (f c) c ax
  rcases mem_kidsOf.mp hk with rfl | rfl
  · refine ⟨h1.1, h2.1, h3.1, ?_⟩
    cases ax <;> simp [children]
  · refine ⟨h1.2, h2.2, h3.2, ?_⟩
    cases ax <;> simp [children]

theorem kidsOf_nodup (ax : Ax) (f : Cell → Nat) (c : Cell) : (kidsOf ax f c).Nodup := by
  have hid := children_id (f c) c ax
  simp only [kidsOf, List.nodup_cons, List.mem_cons, List.not_mem_nil, or_false, not_false_eq_true,
    List.nodup_nil, and_true]
  intro e
  have := congrArg Cell.id e
  rw [hid.1, hid.2] at this
  omega

theorem kidsOf_length (ax : Ax) (f : Cell → Nat) (c : Cell) : (kidsOf ax f c).length = 2 := rfl

/-- children of distinct leaves are distinct -/
theorem kidsOf_parent {m : Mesh} (ht : Tiles m) {ax ax' : Ax} {f f' : Cell → Nat} {c c' k : Cell}
    (hc : c ∈ m.leaves) (hc' : c' ∈ m.leaves) (hk : k ∈ kidsOf ax f c) (hk' : k ∈ kidsOf ax' f' c') :
    c = c' := by
  obtain ⟨s1, p1, -, -⟩ := kidsOf_props hk (ht.proper c hc)
  obtain ⟨s2, -, -, -⟩ := kidsOf_props hk' (ht.proper c' hc')
  exact leaf_sub_unique ht hc hc' p1 s1 s2

theorem kidsFlat_nodup {m : Mesh} (ht : Tiles m) (ax : Ax) (f : Cell → Nat) {l : List Cell}
    (hl : l.Nodup) (hm : ∀ c ∈ l, c ∈ m.leaves) : (l.flatMap (kidsOf ax f)).Nodup :=
  flatMap_nodup_of hl (fun c _ => kidsOf_nodup ax f c)
    (fun c hc c' hc' _ hk hk' => kidsOf_parent ht (hm c hc) (hm c' hc') hk hk')

/-! ### the invariants of a phase -/

/-- every leaf of `M` is a leaf of `m₀` or lies in a leaf of `m₀` exactly one `ax`-level above -/
def Track (ax : Ax) (m₀ M : Mesh) : Prop :=
  ∀ d ∈ M.leaves, d ∈ m₀.leaves ∨ ∃ o ∈ m₀.leaves, d.Sub o ∧ d.level ax = o.level ax + 1

/-- the parents recorded in the `kids` table are old element indices and not leaves -/
def KidsOK (M : Mesh) : Prop :=
  ∀ k ∈ M.kids, k.1 < M.nElems ∧ ∀ c ∈ M.leaves, c.id ≠ k.1

/-- an original leaf is still a leaf, or the `kids` table lists its two children, which are leaves -/
def KidsTrack (ax : Ax) (m₀ M : Mesh) : Prop :=
  ∀ d ∈ m₀.leaves, d ∈ M.leaves ∨
    ∃ n, M.kids.find? (fun k => k.1 == d.id) = some (d.id, n, n + 1) ∧
      (children n d ax).1 ∈ M.leaves ∧ (children n d ax).2 ∈ M.leaves

def PQ (ax : Ax) (m₀ M : Mesh) : Prop :=
  Refines m₀ M ∧ Track ax m₀ M ∧ (KidsOK m₀ → KidsOK M ∧ KidsTrack ax m₀ M)

def PG (m₀ : Mesh) (c : Cell) : Prop := c ∈ m₀.leaves

def PT (m₀ M M' : Mesh) : Prop :=
  (∀ d ∈ M.leaves, d ∉ m₀.leaves → d ∈ M'.leaves) ∧
  (∀ d ∈ m₀.leaves, d ∈ M'.leaves → d ∈ M.leaves)

theorem PQ.start (ax : Ax) (m : Mesh) : PQ ax m m :=
  ⟨Refines.refl m, fun _ hd => Or.inl hd, fun hk => ⟨hk, fun _ hd => Or.inl hd⟩⟩

theorem KidsOK.find_none {M : Mesh} (h : KidsOK M) {c : Cell} (hc : c ∈ M.leaves) :
    M.kids.find? (fun k => k.1 == c.id) = none := by
  rw [List.find?_eq_none]
  intro k hk
  have := (h k hk).2 c hc
  simpa using fun e : k.1 = c.id => this e.symm

theorem bisect_kidsOK {M : Mesh} (hinv : Inv M) (hK : KidsOK M) {c : Cell} (hc : c ∈ M.leaves)
    (ax : Ax) : KidsOK (bisect M c ax) := by
  have hp := hinv.tiles.proper c hc
  intro k hk
  have hk' : k ∈ M.kids ∨ k = (c.id, M.nElems, M.nElems + 1) := by
    have : k ∈ M.kids ++ [(c.id, M.nElems, M.nElems + 1)] := hk
    simpa using this
  show k.1 < M.nElems + 2 ∧ _
  rcases hk' with hk' | rfl
  · obtain ⟨h1, h2⟩ := hK k hk'
    refine ⟨by omega, ?_⟩
    intro l hl
    rcases (mem_bisect hinv.ids hc ax l).mp hl with ⟨hl1, _⟩ | hch
    · exact h2 l hl1
    · have := (hch.props hp).2.2.2.2.2
      omega
  · have hcid := hinv.ids.2 c hc
    refine ⟨by show c.id < _; omega, ?_⟩
    intro l hl
    show l.id ≠ c.id
    rcases (mem_bisect hinv.ids hc ax l).mp hl with ⟨hl1, hl2⟩ | hch
    · exact fun e => hl2 (hinv.ids.id_inj hl1 hc e)
    · have := (hch.props hp).2.2.2.2.2
      omega

theorem phase_genHyp {m₀ : Mesh} (h₀ : Inv m₀) (ax : Ax) :
    GenHyp ax (PQ ax m₀) (PG m₀) (PT m₀) := by
  constructor
  · intro M
    exact ⟨fun _ hd _ => hd, fun _ _ hd => hd⟩
  · intro A B C h1 h2
    refine ⟨fun d hd hn => h2.1 d (h1.1 d hd hn) hn, fun d hd hC => h1.2 d hd (h2.2 d hd hC)⟩
  · -- the guard propagates to shallower neighbours
    intro M c s n hinv hQ hcM hc0 hnM hadj hlt
    show n ∈ m₀.leaves
    rcases hQ.2.1 n hnM with h | ⟨o, ho, sub, lev⟩
    · exact h
    · exfalso
      have hpn := hinv.tiles.proper n hnM
      have hne : c ≠ o := by
        rintro rfl
        have : n = c := leaf_sub_unique hinv.tiles hnM hcM hpn (Cell.Sub.refl n) sub
        subst this
        omega
      have ha' : Adj m₀ c s n := hQ.1.adj.mp hadj
      have h1 : Adj m₀ c s o := Adj.of_sub h₀.tiles hc0 ho hne sub hpn ha'
      have := (h₀.irr.level hc0 ho h1 ax).1
      omega
  · -- one bisection of an original leaf
    intro M c hinv hQ hcM hc0
    have hc0' : c ∈ m₀.leaves := hc0
    have hp := hinv.tiles.proper c hcM
    obtain ⟨hR, hTr, hK⟩ := hQ
    refine ⟨⟨hR.trans (bisect_refines hinv hcM ax), ?_, ?_⟩, ?_, ?_⟩
    · intro d hd
      rcases (mem_bisect hinv.ids hcM ax d).mp hd with ⟨hd1, _⟩ | hch
      · exact hTr d hd1
      · obtain ⟨bs, -, bl, -⟩ := hch.props hp
        exact Or.inr ⟨c, hc0', bs, bl⟩
    · intro hK0
      obtain ⟨hKM, hKT⟩ := hK hK0
      refine ⟨bisect_kidsOK hinv hKM hcM ax, ?_⟩
      intro d hd0
      have hkids : (bisect M c ax).kids = M.kids ++ [(c.id, M.nElems, M.nElems + 1)] := rfl
      by_cases hdc : d = c
      · subst hdc
        right
        refine ⟨M.nElems, ?_, (mem_bisect hinv.ids hcM ax _).mpr (Or.inr (Or.inl rfl)),
          (mem_bisect hinv.ids hcM ax _).mpr (Or.inr (Or.inr rfl))⟩
        rw [hkids, List.find?_append, hKM.find_none hcM]
        simp
      · rcases hKT d hd0 with hdM | ⟨n, hf, k1, k2⟩
        · exact Or.inl ((mem_bisect hinv.ids hcM ax d).mpr (Or.inl ⟨hdM, hdc⟩))
        · right
          have hpd := h₀.tiles.proper d hd0
          have hsub := children_sub n d ax hpd
          refine ⟨n, ?_, ?_, ?_⟩
          · rw [hkids, List.find?_append, hf]; rfl
          · refine (mem_bisect hinv.ids hcM ax _).mpr (Or.inl ⟨k1, ?_⟩)
            intro e
            rw [e] at hsub
            exact hdc (leaf_sub_unique h₀.tiles hd0 hc0' hp hsub.1 (Cell.Sub.refl c))
          · refine (mem_bisect hinv.ids hcM ax _).mpr (Or.inl ⟨k2, ?_⟩)
            intro e
            rw [e] at hsub
            exact hdc (leaf_sub_unique h₀.tiles hd0 hc0' hp hsub.2 (Cell.Sub.refl c))
    · intro d hd hn
      refine (mem_bisect hinv.ids hcM ax d).mpr (Or.inl ⟨hd, ?_⟩)
      rintro rfl
      exact hn hc0'
    · intro d hd0 hd
      rcases (mem_bisect hinv.ids hcM ax d).mp hd with ⟨hd1, _⟩ | hch
      · exact hd1
      · exfalso
        obtain ⟨bs, bp, bl, -⟩ := hch.props hp
        have : d = c := leaf_sub_unique h₀.tiles hd0 hc0' bp (Cell.Sub.refl d) bs
        subst this
        omega

/-! ### the loop of `refinePhase` -/

def phaseStep (ax : Ax) (st : Mesh × List Cell) (c : Cell) : Except String (Mesh × List Cell) :=
  match findLeaf st.1 c.id with
  | none => .error "assert:marked-not-leaf"
  | some c => do
    let m ← refineId st.1 c.id ax
    let ch := children (m.nElems - 2) c ax
    pure (m, st.2 ++ [ch.1, ch.2])

theorem refinePhase_eq (m : Mesh) (marked : List Cell) (ax : Ax) :
    refinePhase m marked ax =
      (sortBy (fun a b : Cell => decide (a.level ax < b.level ax)) marked).foldlM
        (phaseStep ax) (m, []) := rfl

theorem phaseStep_ok {ax : Ax} {M M' : Mesh} (hinv : Inv M) {c : Cell} (hc : c ∈ M.leaves)
    (acc : List Cell) (h1 : refineId M c.id ax = .ok M') :
    phaseStep ax (M, acc) c =
      .ok (M', acc ++ [(children (M'.nElems - 2) c ax).1, (children (M'.nElems - 2) c ax).2]) := by
  simp only [phaseStep, findLeaf_of_mem hinv.ids hc, h1, bind, Except.bind]
  rfl

theorem phase_loop {m₀ : Mesh} (h₀ : Inv m₀) (ax : Ax) (rest : List Cell) :
    ∀ (M : Mesh) (acc : List Cell),
      rest.Pairwise (fun a b => a.level ax ≤ b.level ax) → rest.Nodup →
      (∀ c ∈ rest, c ∈ m₀.leaves) → Inv M → PQ ax m₀ M → (∀ c ∈ rest, c ∈ M.leaves) →
      ∃ (r : Mesh × List Cell) (f : Cell → Nat),
        rest.foldlM (phaseStep ax) (M, acc) = .ok r ∧ Inv r.1 ∧ PQ ax m₀ r.1 ∧ PT m₀ M r.1 ∧
        (∀ c ∈ rest, c ∉ r.1.leaves) ∧ r.2 = acc ++ rest.flatMap (kidsOf ax f) ∧
        (∀ c ∈ rest, ∀ k ∈ kidsOf ax f c, k ∈ r.1.leaves) := by
  have H := phase_genHyp h₀ ax
  induction rest with
  | nil =>
    intro M acc _ _ _ hinv hQ _
    exact ⟨(M, acc), fun _ => 0, rfl, hinv, hQ, H.refl M, by simp, by simp, by simp⟩
  | cons c rest ih =>
    intro M acc hsort hnd h0 hinv hQ hM
    have hsort' := List.pairwise_cons.mp hsort
    have hnd' := List.nodup_cons.mp hnd
    have hc0 : c ∈ m₀.leaves := h0 c (by simp)
    have hcM : c ∈ M.leaves := hM c (by simp)
    obtain ⟨M1, h1, res, hQ1, hT1⟩ := refineId_gen H hinv hQ hcM hc0
    have hstep := phaseStep_ok hinv hcM acc h1
    have hrest1 : ∀ c' ∈ rest, c' ∈ M1.leaves := by
      intro c' hc'
      refine res.keep c' (hM c' (by simp [hc'])) ?_ (hsort'.1 c' hc')
      rintro rfl
      exact hnd'.1 hc'
    obtain ⟨r, f', hr, hinvr, hQr, hTr, hgone, hr2, hkids⟩ :=
      ih M1 (acc ++ [(children (M1.nElems - 2) c ax).1, (children (M1.nElems - 2) c ax).2])
        hsort'.2 hnd'.2 (fun c' hc' => h0 c' (by simp [hc'])) res.inv hQ1 hrest1
    have hfc : kidsOf ax (Function.update f' c (M1.nElems - 2)) c =
        [(children (M1.nElems - 2) c ax).1, (children (M1.nElems - 2) c ax).2] := by
      simp [kidsOf]
    have hfr : ∀ c' ∈ rest, kidsOf ax (Function.update f' c (M1.nElems - 2)) c' =
        kidsOf ax f' c' := by
      intro c' hc'
      have hne : c' ≠ c := by rintro rfl; exact hnd'.1 hc'
      simp [kidsOf, Function.update_of_ne hne]
    have hcgone : c ∉ r.1.leaves := fun hcr => res.gone (hTr.2 c hc0 hcr)
    refine ⟨r, Function.update f' c (M1.nElems - 2), ?_, hinvr, hQr, H.trans _ _ _ hT1 hTr, ?_, ?_, ?_⟩
    · rw [List.foldlM_cons, hstep]
      exact hr
    · intro c' hc'
      rcases List.mem_cons.mp hc' with rfl | hc'
      · exact hcgone
      · exact hgone c' hc'
    · rw [hr2, List.flatMap_cons, hfc, flatMap_congr_mem hfr, List.append_assoc]
    · intro c' hc' k hk
      rcases List.mem_cons.mp hc' with rfl | hc'
      · rw [hfc] at hk
        have hkM1 : k ∈ M1.leaves := by
          rcases List.mem_cons.mp hk with rfl | hk
          · exact res.kids.1
          · rcases List.mem_cons.mp hk with rfl | hk
            · exact res.kids.2
            · simp at hk
        refine hTr.1 k hkM1 ?_
        intro hk0
        have hsub : k.Sub c' := by
          have := children_sub (M1.nElems - 2) c' ax (hinv.tiles.proper c' hcM)
          rcases List.mem_cons.mp hk with rfl | hk
          · exact this.1
          · rcases List.mem_cons.mp hk with rfl | hk
            · exact this.2
            · simp at hk
        have : k = c' := leaf_sub_unique h₀.tiles hk0 hc0 (res.inv.tiles.proper k hkM1)
          (Cell.Sub.refl k) hsub
        subst this
        exact res.gone hkM1
      · rw [hfr c' hc'] at hk
        exact hkids c' hc' k hk

/-- full specification of a phase -/
theorem refinePhase_spec (m : Mesh) (h : Inv m) (marked : List Cell) (ax : Ax)
    (hm : ∀ c ∈ marked, c ∈ m.leaves) (hnd : marked.Nodup) :
    ∃ (r : Mesh × List Cell) (f : Cell → Nat), refinePhase m marked ax = .ok r ∧ Inv r.1 ∧
      PQ ax m r.1 ∧ PT m m r.1 ∧ (∀ c ∈ marked, c ∉ r.1.leaves) ∧
      r.2 = (sortBy (fun a b : Cell => decide (a.level ax < b.level ax)) marked).flatMap
        (kidsOf ax f) ∧
      (∀ c ∈ marked, ∀ k ∈ kidsOf ax f c, k ∈ r.1.leaves) := by
  have hperm := sortBy_perm (fun a b : Cell => decide (a.level ax < b.level ax)) marked
  obtain ⟨r, f, hr, hinv, hQ, hT, hgone, hr2, hk⟩ :=
    phase_loop h ax _ m [] (sortLevel_sorted ax marked) (hperm.nodup_iff.mpr hnd)
      (fun c hc => hm c (hperm.mem_iff.mp hc)) h (PQ.start ax m)
      (fun c hc => hm c (hperm.mem_iff.mp hc))
  refine ⟨r, f, ?_, hinv, hQ, hT, fun c hc => hgone c (hperm.mem_iff.mpr hc), by simpa using hr2,
    fun c hc => hk c (hperm.mem_iff.mpr hc)⟩
  rw [refinePhase_eq]
  exact hr

/-- the level-sorted phase succeeds when the marked cells are distinct leaves; every marked cell is
gone afterwards, the returned children are distinct leaves of the result, two per marked cell -/
theorem refinePhase_ok' (m : Mesh) (h : Inv m) (marked : List Cell) (ax : Ax)
    (hm : ∀ c ∈ marked, c ∈ m.leaves) (hnd : marked.Nodup) :
    ∃ r, refinePhase m marked ax = .ok r ∧ Inv r.1 ∧ Refines m r.1 ∧
      (∀ c ∈ marked, c ∉ r.1.leaves) ∧ (∀ k ∈ r.2, k ∈ r.1.leaves) ∧ r.2.Nodup ∧
      r.2.length = 2 * marked.length := by
  have hperm := sortBy_perm (fun a b : Cell => decide (a.level ax < b.level ax)) marked
  obtain ⟨r, f, hr, hinv, hQ, hT, hgone, hr2, hk⟩ := refinePhase_spec m h marked ax hm hnd
  refine ⟨r, hr, hinv, hQ.1, hgone, ?_, ?_, ?_⟩
  · intro k hk'
    rw [hr2] at hk'
    obtain ⟨c, hc, hkc⟩ := List.mem_flatMap.mp hk'
    exact hk c (hperm.mem_iff.mp hc) k hkc
  · rw [hr2]
    exact kidsFlat_nodup h.tiles ax f (hperm.nodup_iff.mpr hnd)
      (fun c hc => hm c (hperm.mem_iff.mp hc))
  · rw [hr2, flatMap_length_two (fun c _ => kidsOf_length ax f c), hperm.length_eq]

end Stbem.Mesh
