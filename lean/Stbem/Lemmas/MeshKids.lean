import Stbem.Lemmas.MeshDorfler

/-!
# `KidsOK` (no entry of the `kids` table has a current leaf as parent) is preserved by every
refinement operation of the model
-/
namespace Stbem.Mesh

/-- combined invariant -/
def InvK (m : Mesh) : Prop := Inv m ∧ KidsOK m

theorem refineId_invK {m : Mesh} (h : InvK m) {id : Nat} {ax : Ax} {m' : Mesh}
    (hr : refineId m id ax = .ok m') : InvK m' :=
  ⟨(refineId_inv' h.1 hr).1, refineId_kidsOK h.1 h.2 hr⟩

theorem refineAll_invK {m : Mesh} (h : InvK m) {ids : List Nat} {ax : Ax} {m' : Mesh}
    (hr : refineAll m ids ax = .ok m') : InvK m' :=
  ⟨(refineAll_inv' h.1 hr).1, refineAll_kidsOK h.1 h.2 hr⟩

theorem refineBoth_invK {m : Mesh} (h : InvK m) {id : Nat} {r : Mesh × List Nat}
    (hr : refineBoth m id = .ok r) : InvK r.1 := by
  unfold refineBoth at hr
  simp only [bind, Except.bind, pure, Except.pure, lastChildren] at hr
  split at hr
  · cases hr
  · rename_i m1 h1
    split at hr
    · cases hr
    · rename_i m2 h2
      split at hr
      · cases hr
      · rename_i m3 h3
        cases hr
        exact refineId_invK (refineId_invK (refineId_invK h h1) h2) h3

theorem uniformRefine_invK {m : Mesh} (h : InvK m) {m' : Mesh}
    (hr : uniformRefine m = .ok m') : InvK m' := by
  unfold uniformRefine at hr
  simp only [bind, Except.bind] at hr
  split at hr
  · cases hr
  · rename_i m1 h1
    exact refineAll_invK (refineAll_invK h h1) hr

theorem uniformRefineSpace_invK {m : Mesh} (h : InvK m) {m' : Mesh}
    (hr : uniformRefineSpace m = .ok m') : InvK m' :=
  refineAll_invK h hr

theorem refinePhase_invK {m : Mesh} (h : InvK m) {marked : List Cell} {ax : Ax}
    {r : Mesh × List Cell} (hr : refinePhase m marked ax = .ok r) : InvK r.1 := by
  unfold refinePhase at hr
  refine (foldlM_except_inv _ (fun st : Mesh × List Cell => InvK st.1)
    (fun _ _ => True) (fun _ => trivial) (fun _ _ _ _ _ => trivial) ?_ _ (m, []) r h hr).1
  intro st c st' hI hf
  simp only [bind, Except.bind] at hf
  split at hf
  · cases hf
  · split at hf
    · cases hf
    · rename_i m1 h1
      cases hf
      exact ⟨refineId_invK hI h1, trivial⟩

theorem dorflerIso_invK {m : Mesh} (h : InvK m) {eta : List Rat} {perm : List Nat} {theta : Rat}
    {m' : Mesh} (hr : dorflerIso m eta perm theta = .ok m') : InvK m' := by
  unfold dorflerIso at hr
  simp only [bind, Except.bind, pure, Except.pure] at hr
  split at hr
  · cases hr
  · split at hr
    · cases hr
    · split at hr
      · cases hr
      · rename_i r1 h1
        split at hr
        · cases hr
        · rename_i r2 h2
          cases hr
          exact refinePhase_invK (refinePhase_invK h h1) h2

theorem dorflerAniso_invK {m : Mesh} (h : InvK m) {eta : List (Rat × Rat)} {theta : Rat}
    {m' : Mesh} (hr : dorflerAniso m eta theta = .ok m') : InvK m' := by
  unfold dorflerAniso at hr
  simp only [bind, Except.bind, pure, Except.pure] at hr
  split at hr
  · cases hr
  · split at hr
    · cases hr
    · rename_i r1 h1
      split at hr
      · cases hr
      · rename_i r2 h2
        cases hr
        exact refinePhase_invK (refinePhase_invK h h1) h2

theorem gradeSweep_invK {fixed : Bool} {m : Mesh} (h : InvK m) {p q : Nat} {K : Rat}
    {r : Mesh × Bool} (hr : gradeSweep fixed m p q K = .ok r) : InvK r.1 := by
  unfold gradeSweep at hr
  simp only [bind, Except.bind, pure, Except.pure] at hr
  split at hr
  · cases hr
  · rename_i m1 h1
    split at hr
    · cases hr
    · rename_i m2 h2
      cases hr
      refine (foldlM_except_inv _ InvK (fun _ _ => True) (fun _ => trivial)
        (fun _ _ _ _ _ => trivial) (by
          intro s a s' hI hf
          split at hf
          · split at hf
            · cases hf; exact ⟨hI, trivial⟩
            · cases hf
          · exact ⟨refineId_invK hI hf, trivial⟩) _ m1 m2 (refineAll_invK h h1) h2).1

theorem grading_invK (fixed : Bool) (fuel : Nat) : ∀ {m : Mesh}, InvK m → ∀ {p q : Nat} {K : Rat}
    {m' : Mesh}, grading fixed fuel m p q K = .ok m' → InvK m' := by
  induction fuel with
  | zero => intro m _ p q K m' hr; simp [grading] at hr
  | succ fuel ih =>
    intro m h p q K m' hr
    rw [grading] at hr
    simp only [bind, Except.bind, pure, Except.pure] at hr
    split at hr
    · cases hr
    · rename_i r h1
      have i1 := gradeSweep_invK h h1
      split at hr
      · exact ih i1 hr
      · cases hr
        exact i1

end Stbem.Mesh
