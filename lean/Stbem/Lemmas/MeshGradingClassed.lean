import Stbem.Lemmas.MeshGradingDyadic

/-!
# Termination of the repaired grading loop for root cells of arbitrary (not dyadically related) sizes

`MeshGradingDyadic` proves: the loop terminates from a mesh all of whose leaves are `Good` for base levels
`(Lt0, Lx0)` (each leaf lies below a target — a level pair whose cell size is in the window — for the size
of its own root, all targets in `{Lt0, Lt0+1} × {Lx0, Lx0+1}`).  Nothing in that argument needs the root
sizes to be dyadically related; that hypothesis is only used there to *find* the targets.

Here the targets are an input: `Classed p q K Lt0 Lx0 c` says that the root size of `c` has a target in the
box (no bound on the levels of `c`).  This is inherited by children, and the targets can be shifted along
the diagonal `(Lt + p·k, Lx + q·k)` (the window is invariant under `h_t ↦ h_t/2^p`, `h_x ↦ h_x/2^q` for
`σ = p/q`), hence above the levels of any given mesh: `grading_terminates_classed`.
-/
namespace Stbem.Mesh

/-- the root size of `c` has a target in `{Lt0, Lt0+1} × {Lx0, Lx0+1}` -/
def Classed (p q : Nat) (K : Rat) (Lt0 Lx0 : Nat) (c : Cell) : Prop :=
  ∃ (Ht Hx : Rat) (Lt Lx : Nat),
    (c.t1 - c.t0 = Ht / 2 ^ c.lt ∧ c.x1 - c.x0 = Hx / 2 ^ c.lx) ∧
    (Lt0 ≤ Lt ∧ Lt ≤ Lt0 + 1) ∧ (Lx0 ≤ Lx ∧ Lx ≤ Lx0 + 1) ∧ Target Ht Hx p q K Lt Lx

theorem classed_childStable (p q : Nat) (K : Rat) (Lt0 Lx0 : Nat) :
    ChildStable (Classed p q K Lt0 Lx0) := by
  rintro M c ax ch ⟨Ht, Hx, Lt, Lx, hs, h1, h2, T⟩ hch
  exact ⟨Ht, Hx, Lt, Lx, hch.size hs, h1, h2, T⟩

/-- the window is invariant under `p·k` more time levels and `q·k` more space levels -/
theorem Target.shift {Ht Hx : Rat} {p q : Nat} {K : Rat} {Lt Lx : Nat}
    (T : Target Ht Hx p q K Lt Lx) (k : Nat) : Target Ht Hx p q K (Lt + p * k) (Lx + q * k) := by
  have hpos : (0 : Rat) < 2 ^ (p * k * q) := by positivity
  have e1 : (Ht / 2 ^ (Lt + p * k) / K) ^ q = (Ht / 2 ^ Lt / K) ^ q / 2 ^ (p * k * q) := by
    rw [pow_add, pow_mul (2 : Rat) (p * k) q, ← div_pow]
    congr 1
    field_simp
  have e2 : (Hx / 2 ^ (Lx + q * k)) ^ p = (Hx / 2 ^ Lx) ^ p / 2 ^ (p * k * q) := by
    have : p * k * q = q * k * p := by ring
    rw [this, pow_add, pow_mul (2 : Rat) (q * k) p, ← div_pow]
    congr 1
    field_simp
  have e3 : (K * (Ht / 2 ^ (Lt + p * k))) ^ q = (K * (Ht / 2 ^ Lt)) ^ q / 2 ^ (p * k * q) := by
    rw [pow_add, pow_mul (2 : Rat) (p * k) q, ← div_pow]
    congr 1
    field_simp
  refine ⟨T.hHt, T.hHx, T.hK, ?_, ?_⟩
  · rw [e1, e2]
    exact div_lt_div_of_pos_right T.wt hpos
  · rw [e2, e3]
    exact div_lt_div_of_pos_right T.ws hpos

theorem Classed.shift {p q : Nat} {K : Rat} {Lt0 Lx0 : Nat} {c : Cell}
    (h : Classed p q K Lt0 Lx0 c) (k : Nat) : Classed p q K (Lt0 + p * k) (Lx0 + q * k) c := by
  obtain ⟨Ht, Hx, Lt, Lx, hs, h1, h2, T⟩ := h
  exact ⟨Ht, Hx, Lt + p * k, Lx + q * k, hs, by omega, by omega, T.shift k⟩

theorem Classed.good {p q : Nat} {K : Rat} {Lt0 Lx0 : Nat} {c : Cell}
    (h : Classed p q K Lt0 Lx0 c) (hl : c.lt ≤ Lt0 ∧ c.lx ≤ Lx0) : Good p q K Lt0 Lx0 c := by
  obtain ⟨Ht, Hx, Lt, Lx, hs, h1, h2, T⟩ := h
  exact ⟨Ht, Hx, Lt, Lx, hs, h1, h2, ⟨by omega, by omega⟩, T⟩

/-- **Termination** from a mesh whose root sizes all have targets in one `2 × 2` box of level pairs -/
theorem grading_terminates_classed {m : Mesh} (h : Inv m) {p q : Nat} (hp : 1 ≤ p) (hq : 1 ≤ q)
    {K : Rat} {Lt0 Lx0 : Nat} (hc : ∀ c ∈ m.leaves, Classed p q K Lt0 Lx0 c) :
    ∃ fuel m', grading true fuel m p q K = .ok m' := by
  obtain ⟨A, hA⟩ := exists_bound (fun c => c.lt) m.leaves
  obtain ⟨B, hB⟩ := exists_bound (fun c => c.lx) m.leaves
  have hkA : A ≤ Lt0 + p * (A + B) := by
    have : A + B ≤ p * (A + B) := Nat.le_mul_of_pos_left _ hp
    omega
  have hkB : B ≤ Lx0 + q * (A + B) := by
    have : A + B ≤ q * (A + B) := Nat.le_mul_of_pos_left _ hq
    omega
  have hgood : AllGood p q K (Lt0 + p * (A + B)) (Lx0 + q * (A + B)) m := fun c hcm =>
    ((hc c hcm).shift (A + B)).good ⟨le_trans (hA c hcm) hkA, le_trans (hB c hcm) hkB⟩
  exact ⟨_, grading_terminates_of_good _ h hgood (Nat.lt_succ_self _)⟩

/-- the roots of an initial mesh are classed if every pair of grid spacings has a target in the box -/
theorem init_classed (glue : Bool) {X T : List Rat} {p q : Nat} {K : Rat} {Lt0 Lx0 : Nat}
    (hXT : ∀ tp ∈ pairs T, ∀ xp ∈ pairs X, ∃ Lt Lx, (Lt0 ≤ Lt ∧ Lt ≤ Lt0 + 1) ∧
      (Lx0 ≤ Lx ∧ Lx ≤ Lx0 + 1) ∧ Target (tp.2 - tp.1) (xp.2 - xp.1) p q K Lt Lx) :
    ∀ c ∈ (init glue X T).leaves, Classed p q K Lt0 Lx0 c := by
  intro c hc
  have hleaves : (init glue X T).leaves =
      init.number 0 ((pairs T).flatMap fun tp => (pairs X).map fun xp => (tp, xp)) := rfl
  rw [hleaves] at hc
  obtain ⟨r, hr, i, rfl, _, _⟩ := number_mem hc
  simp only [List.mem_flatMap, List.mem_map] at hr
  obtain ⟨tp, htp, xp, hxp, rfl⟩ := hr
  obtain ⟨Lt, Lx, h1, h2, T⟩ := hXT tp htp xp hxp
  exact ⟨tp.2 - tp.1, xp.2 - xp.1, Lt, Lx,
    ⟨by simp only [mkCell, pow_zero, div_one], by simp only [mkCell, pow_zero, div_one]⟩, h1, h2, T⟩

end Stbem.Mesh
