import Stbem.Model.Estim
import Mathlib.Tactic.Linarith
import Mathlib.Tactic.Ring
import Mathlib.Tactic.FieldSimp
import Mathlib.Algebra.Order.Field.Rat

/-!
# List algebra for the estimator model: dot products, blocks of a flattened list, `mapM` in `Except`
-/
namespace Stbem.Estim

/-! ### dot products -/

@[simp] theorem dot_nil_left (b : List Rat) : dot [] b = 0 := by simp [dot]
@[simp] theorem dot_nil_right (a : List Rat) : dot a [] = 0 := by simp [dot]
@[simp] theorem dot_cons (x y : Rat) (a b : List Rat) : dot (x :: a) (y :: b) = x * y + dot a b := by
  simp [dot]

theorem dot_comm (a b : List Rat) : dot a b = dot b a := by
  induction a generalizing b with
  | nil => simp
  | cons x a ih => cases b with
    | nil => simp
    | cons y b => simp [ih b, mul_comm]

theorem vsub_length {a b : List Rat} (h : a.length = b.length) : (vsub a b).length = a.length := by
  simp [vsub, h]

/-- `⟨c, a - b⟩ = ⟨c, a⟩ - ⟨c, b⟩` for vectors of equal length -/
theorem dot_vsub (c : List Rat) {a b : List Rat} (h : a.length = b.length) :
    dot c (vsub a b) = dot c a - dot c b := by
  induction c generalizing a b with
  | nil => simp
  | cons x c ih =>
    cases a with
    | nil => cases b with
      | nil => simp [vsub]
      | cons _ _ => simp at h
    | cons y a => cases b with
      | nil => simp at h
      | cons z b =>
        have h' : a.length = b.length := by simpa using h
        have := ih h'
        simp only [vsub, List.zipWith_cons_cons, dot_cons] at this ⊢
        rw [this]; ring

theorem mulVec_vsub (A : List (List Rat)) {a b : List Rat} (h : a.length = b.length) :
    mulVec A (vsub a b) = vsub (mulVec A a) (mulVec A b) := by
  induction A with
  | nil => simp [mulVec, vsub]
  | cons r A ih =>
    have e := dot_vsub r h
    simp only [mulVec, List.map_cons, vsub, List.zipWith_cons_cons] at ih e ⊢
    rw [ih, e]

@[simp] theorem mulVec_length (A : List (List Rat)) (v : List Rat) : (mulVec A v).length = A.length := by
  simp [mulVec]

theorem vsub_self (a : List Rat) : vsub a a = List.replicate a.length 0 := by
  induction a with
  | nil => rfl
  | cons x a ih => simp [vsub, List.replicate_succ] at ih ⊢

theorem dot_replicate_zero_left (n : Nat) (b : List Rat) : dot (List.replicate n 0) b = 0 := by
  induction n generalizing b with
  | zero => simp
  | succ n ih => cases b with
    | nil => simp
    | cons y b => simp [List.replicate_succ, ih]

/-! ### blocks of a flattened list -/

theorem flatMap_block {α β} (f : α → List β) (n : Nat) (l : List α) (hf : ∀ a ∈ l, (f a).length = n)
    (i k : Nat) (hk : k < n) : (l.flatMap f)[n * i + k]? = (l[i]?).bind fun a => (f a)[k]? := by
  induction l generalizing i with
  | nil => simp
  | cons a l ih =>
    have ha : (f a).length = n := hf a (by simp)
    rw [List.flatMap_cons]
    cases i with
    | zero =>
      simp only [Nat.mul_zero, Nat.zero_add, List.getElem?_cons_zero, Option.bind_some]
      rw [List.getElem?_append_left (by omega)]
    | succ i =>
      rw [List.getElem?_append_right (by rw [ha, Nat.mul_succ]; omega)]
      have : n * (i + 1) + k - (f a).length = n * i + k := by rw [ha, Nat.mul_succ]; omega
      rw [this, ih (fun b hb => hf b (by simp [hb]))]
      simp

theorem flatMap_length_const {α β} (f : α → List β) (n : Nat) (l : List α)
    (hf : ∀ a ∈ l, (f a).length = n) : (l.flatMap f).length = n * l.length := by
  induction l with
  | nil => simp
  | cons a l ih =>
    rw [List.flatMap_cons, List.length_append, hf a (by simp), ih (fun b hb => hf b (by simp [hb]))]
    simp [Nat.mul_succ]; omega

/-! ### `mapM` in `Except` -/

theorem mapM_except_ok {ε α β} (f : α → Except ε β) :
    ∀ (l : List α) (out : List β), l.mapM f = .ok out →
      out.length = l.length ∧ ∀ (i : Nat) a, l[i]? = some a → ∃ b, out[i]? = some b ∧ f a = .ok b := by
  intro l
  induction l with
  | nil =>
    intro out h
    simp only [List.mapM_nil, pure, Except.pure] at h
    cases h
    simp
  | cons a l ih =>
    intro out h
    rw [List.mapM_cons] at h
    simp only [bind, Except.bind, pure, Except.pure] at h
    split at h
    · cases h
    · rename_i b hb
      split at h
      · cases h
      · rename_i bs hbs
        cases h
        obtain ⟨h1, h2⟩ := ih bs hbs
        refine ⟨by simp [h1], ?_⟩
        intro i x hx
        cases i with
        | zero =>
          simp only [List.getElem?_cons_zero, Option.some.injEq] at hx
          subst hx
          exact ⟨b, by simp, hb⟩
        | succ i =>
          simp only [List.getElem?_cons_succ] at hx ⊢
          exact h2 i x hx

end Stbem.Estim
