import Mathlib.Analysis.SpecialFunctions.Integrals.Basic
import Mathlib.MeasureTheory.Integral.DominatedConvergence

/-!
# Iterated integrals of real polynomials in two variables: triangle + mirrored triangle = square

`Poly2 F` : `F : ℝ → ℝ → ℝ` is a polynomial function.  For such `F`
`∫_a^b ∫_a^u F(u,v) dv du + ∫_a^b ∫_a^u F(v,u) dv du = ∫_a^b ∫_a^b F(u,v) dv du` (`Poly2.tri_add_tri`),
proved monomial by monomial with `integral_pow` (no measure-theoretic Fubini needed); for symmetric `F` the square
integral is twice the triangle integral.
-/
namespace Stbem.Quad
open intervalIntegral

inductive Poly2 : (ℝ → ℝ → ℝ) → Prop
  | mono (i j : ℕ) : Poly2 (fun u v => u ^ i * v ^ j)
  | add {F G : ℝ → ℝ → ℝ} : Poly2 F → Poly2 G → Poly2 (fun u v => F u v + G u v)
  | smul (c : ℝ) {F : ℝ → ℝ → ℝ} : Poly2 F → Poly2 (fun u v => c * F u v)

namespace Poly2

theorem congr {F G : ℝ → ℝ → ℝ} (h : Poly2 F) (e : ∀ u v, F u v = G u v) : Poly2 G := by
  have : F = G := by funext u v; exact e u v
  exact this ▸ h

theorem const (c : ℝ) : Poly2 (fun _ _ => c) :=
  (Poly2.smul c (Poly2.mono 0 0)).congr (by intro u v; simp)

theorem varU : Poly2 (fun u _ => u) := (Poly2.mono 1 0).congr (by intro u v; simp)
theorem varV : Poly2 (fun _ v => v) := (Poly2.mono 0 1).congr (by intro u v; simp)

theorem swap {F : ℝ → ℝ → ℝ} (h : Poly2 F) : Poly2 (fun u v => F v u) := by
  induction h with
  | mono i j => exact (Poly2.mono j i).congr (by intro u v; ring)
  | add _ _ ih1 ih2 => exact Poly2.add ih1 ih2
  | smul c _ ih => exact Poly2.smul c ih

private theorem mono_mul {G : ℝ → ℝ → ℝ} (hG : Poly2 G) (i j : ℕ) : Poly2 (fun u v => u ^ i * v ^ j * G u v) := by
  induction hG with
  | mono i' j' => exact (Poly2.mono (i + i') (j + j')).congr (by intro u v; rw [pow_add, pow_add]; ring)
  | add _ _ ih1 ih2 => exact (Poly2.add ih1 ih2).congr (by intro u v; ring)
  | smul c _ ih => exact (Poly2.smul c ih).congr (by intro u v; ring)

theorem mul {F G : ℝ → ℝ → ℝ} (hF : Poly2 F) (hG : Poly2 G) : Poly2 (fun u v => F u v * G u v) := by
  induction hF with
  | mono i j => exact mono_mul hG i j
  | add _ _ ih1 ih2 => exact (Poly2.add ih1 ih2).congr (by intro u v; ring)
  | smul c _ ih => exact (Poly2.smul c ih).congr (by intro u v; ring)

theorem sq {F : ℝ → ℝ → ℝ} (hF : Poly2 F) : Poly2 (fun u v => F u v ^ 2) :=
  (hF.mul hF).congr (by intro u v; ring)

theorem continuous {F : ℝ → ℝ → ℝ} (h : Poly2 F) : Continuous (Function.uncurry F) := by
  induction h with
  | mono i j => show Continuous fun p : ℝ × ℝ => p.1 ^ i * p.2 ^ j; fun_prop
  | add _ _ ih1 ih2 => exact ih1.add ih2
  | smul c _ ih => exact continuous_const.mul ih

theorem continuous_right {F : ℝ → ℝ → ℝ} (h : Poly2 F) (u : ℝ) : Continuous (F u) :=
  h.continuous.comp (Continuous.prodMk_right u)

/-- `u ↦ ∫_a^u F(u, v) dv` is continuous -/
theorem continuous_tri {F : ℝ → ℝ → ℝ} (h : Poly2 F) (a : ℝ) : Continuous fun u => ∫ v in a..u, F u v :=
  continuous_parametric_intervalIntegral_of_continuous h.continuous continuous_id

/-- `u ↦ ∫_a^b F(u, v) dv` is continuous -/
theorem continuous_sq {F : ℝ → ℝ → ℝ} (h : Poly2 F) (a b : ℝ) : Continuous fun u => ∫ v in a..b, F u v :=
  continuous_parametric_intervalIntegral_of_continuous' h.continuous a b

end Poly2

/-- the integral over the triangle `a ≤ v ≤ u ≤ b` (oriented) -/
noncomputable def triI (F : ℝ → ℝ → ℝ) (a b : ℝ) : ℝ := ∫ u in a..b, ∫ v in a..u, F u v
/-- the integral over the square -/
noncomputable def sqI (F : ℝ → ℝ → ℝ) (a b : ℝ) : ℝ := ∫ u in a..b, ∫ v in a..b, F u v

theorem triI_add {F G : ℝ → ℝ → ℝ} (hF : Poly2 F) (hG : Poly2 G) (a b : ℝ) :
    triI (fun u v => F u v + G u v) a b = triI F a b + triI G a b := by
  unfold triI
  have : ∀ u, (∫ v in a..u, F u v + G u v) = (∫ v in a..u, F u v) + ∫ v in a..u, G u v := fun u =>
    integral_add ((hF.continuous_right u).intervalIntegrable _ _) ((hG.continuous_right u).intervalIntegrable _ _)
  simp_rw [this]
  exact integral_add ((hF.continuous_tri a).intervalIntegrable _ _) ((hG.continuous_tri a).intervalIntegrable _ _)

theorem sqI_add {F G : ℝ → ℝ → ℝ} (hF : Poly2 F) (hG : Poly2 G) (a b : ℝ) :
    sqI (fun u v => F u v + G u v) a b = sqI F a b + sqI G a b := by
  unfold sqI
  have : ∀ u, (∫ v in a..b, F u v + G u v) = (∫ v in a..b, F u v) + ∫ v in a..b, G u v := fun u =>
    integral_add ((hF.continuous_right u).intervalIntegrable _ _) ((hG.continuous_right u).intervalIntegrable _ _)
  simp_rw [this]
  exact integral_add ((hF.continuous_sq a b).intervalIntegrable _ _) ((hG.continuous_sq a b).intervalIntegrable _ _)

theorem triI_smul (c : ℝ) (F : ℝ → ℝ → ℝ) (a b : ℝ) : triI (fun u v => c * F u v) a b = c * triI F a b := by
  unfold triI
  simp_rw [integral_const_mul]

theorem sqI_smul (c : ℝ) (F : ℝ → ℝ → ℝ) (a b : ℝ) : sqI (fun u v => c * F u v) a b = c * sqI F a b := by
  unfold sqI
  simp_rw [integral_const_mul]

theorem triI_mono (i j : ℕ) (a b : ℝ) :
    triI (fun u v => u ^ i * v ^ j) a b =
      ((b ^ (i + j + 2) - a ^ (i + j + 2)) / ((i : ℝ) + (j : ℝ) + 2) -
        a ^ (j + 1) * ((b ^ (i + 1) - a ^ (i + 1)) / ((i : ℝ) + 1))) / ((j : ℝ) + 1) := by
  unfold triI
  have hj : ((j : ℝ) + 1) ≠ 0 := by positivity
  have h1 : ∀ u : ℝ, (∫ v in a..u, u ^ i * v ^ j) =
      (1 / ((j : ℝ) + 1)) * u ^ (i + j + 1) - (a ^ (j + 1) / ((j : ℝ) + 1)) * u ^ i := by
    intro u
    rw [integral_const_mul, integral_pow]
    field_simp
    ring
  simp_rw [h1]
  rw [integral_sub (Continuous.intervalIntegrable (by fun_prop) _ _)
    (Continuous.intervalIntegrable (by fun_prop) _ _), integral_const_mul, integral_const_mul, integral_pow,
    integral_pow]
  have hij : ((i : ℝ) + (j : ℝ) + 2) ≠ 0 := by positivity
  have hi : ((i : ℝ) + 1) ≠ 0 := by positivity
  push_cast
  have e : ((i : ℝ) + (j : ℝ) + 1 + 1) = (i : ℝ) + (j : ℝ) + 2 := by ring
  rw [e]
  field_simp

theorem sqI_mono (i j : ℕ) (a b : ℝ) :
    sqI (fun u v => u ^ i * v ^ j) a b =
      ((b ^ (i + 1) - a ^ (i + 1)) / ((i : ℝ) + 1)) * ((b ^ (j + 1) - a ^ (j + 1)) / ((j : ℝ) + 1)) := by
  unfold sqI
  simp_rw [integral_const_mul, integral_mul_const, integral_pow]

/-- **triangle + mirrored triangle = square** for polynomial integrands -/
theorem Poly2.tri_add_tri {F : ℝ → ℝ → ℝ} (h : Poly2 F) (a b : ℝ) :
    triI F a b + triI (fun u v => F v u) a b = sqI F a b := by
  induction h with
  | mono i j =>
    have e : (fun u v : ℝ => v ^ i * u ^ j) = fun u v => u ^ j * v ^ i := by funext u v; ring
    rw [e, triI_mono, triI_mono, sqI_mono]
    have hj : ((j : ℝ) + 1) ≠ 0 := by positivity
    have hi : ((i : ℝ) + 1) ≠ 0 := by positivity
    have hij : ((i : ℝ) + (j : ℝ) + 2) ≠ 0 := by positivity
    have hji : ((j : ℝ) + (i : ℝ) + 2) ≠ 0 := by positivity
    have e2 : j + i + 2 = i + j + 2 := by omega
    rw [e2]
    field_simp
    ring
  | add hF hG ih1 ih2 =>
    rw [triI_add hF hG, triI_add hF.swap hG.swap, sqI_add hF hG, ← ih1, ← ih2]; ring
  | smul c _ ih =>
    rw [triI_smul, triI_smul c (fun u v => _), sqI_smul, ← ih]; ring

/-- for a symmetric polynomial the square integral is twice the triangle integral -/
theorem Poly2.sq_eq_two_tri {F : ℝ → ℝ → ℝ} (h : Poly2 F) (hs : ∀ u v, F u v = F v u) (a b : ℝ) :
    sqI F a b = 2 * triI F a b := by
  have e : (fun u v => F v u) = F := by funext u v; exact (hs u v).symm
  have := h.tri_add_tri a b
  rw [e] at this
  linarith

end Stbem.Quad
