import Stbem.Lemmas.MeshGeom

/-!
# One bisection preserves the invariant; `refineAxis` terminates without assertion failure
-/
namespace Stbem.Mesh

/-! ### `Refines` is a preorder -/

theorem Refines.refl (m : Mesh) : Refines m m :=
  ⟨rfl, ⟨rfl, rfl, rfl, rfl⟩, fun d hd => ⟨d, hd, Cell.Sub.refl d, le_refl _, le_refl _⟩, le_refl _⟩

theorem Refines.trans {a b c : Mesh} (h1 : Refines a b) (h2 : Refines b c) : Refines a c := by
  refine ⟨h2.glue.trans h1.glue, ⟨h2.box.1.trans h1.box.1, h2.box.2.1.trans h1.box.2.1,
    h2.box.2.2.1.trans h1.box.2.2.1, h2.box.2.2.2.trans h1.box.2.2.2⟩, ?_, le_trans h1.count h2.count⟩
  intro d'' hd''
  obtain ⟨d', hd', s', l1', l2'⟩ := h2.sub d'' hd''
  obtain ⟨d, hd, s, l1, l2⟩ := h1.sub d' hd'
  exact ⟨d, hd, s'.trans s, le_trans l1 l1', le_trans l2 l2'⟩

theorem Refines.adj {m m' : Mesh} (h : Refines m m') {c : Cell} {s : Side} {n : Cell} :
    Adj m' c s n ↔ Adj m c s n :=
  Adj.congr h.glue h.box.1 h.box.2.1

/-! ### membership in the bisected mesh -/

theorem bisect_leaves (m : Mesh) (c : Cell) (ax : Ax) :
    (bisect m c ax).leaves = m.leaves.filter (fun l => l.id != c.id) ++
      [(children m.nElems c ax).1, (children m.nElems c ax).2] := rfl

def IsChild (m : Mesh) (c : Cell) (ax : Ax) (ch : Cell) : Prop :=
  ch = (children m.nElems c ax).1 ∨ ch = (children m.nElems c ax).2

theorem mem_bisect {m : Mesh} (hids : IdsOK m) {c : Cell} (hc : c ∈ m.leaves) (ax : Ax) (l : Cell) :
    l ∈ (bisect m c ax).leaves ↔ (l ∈ m.leaves ∧ l ≠ c) ∨ IsChild m c ax l := by
  rw [bisect_leaves]
  simp only [List.mem_append, List.mem_filter, bne_iff_ne, ne_eq, List.mem_cons,
    List.not_mem_nil, or_false, IsChild]
  constructor
  · rintro (⟨h1, h2⟩ | h)
    · left; exact ⟨h1, fun e => h2 (e ▸ rfl)⟩
    · right; exact h
  · rintro (⟨h1, h2⟩ | h)
    · left; exact ⟨h1, fun e => h2 (hids.id_inj h1 hc e)⟩
    · right; exact h

theorem IsChild.props {m : Mesh} {c : Cell} {ax : Ax} {ch : Cell} (h : IsChild m c ax ch)
    (hp : c.t0 < c.t1 ∧ c.x0 < c.x1) :
    ch.Sub c ∧ (ch.t0 < ch.t1 ∧ ch.x0 < ch.x1) ∧ ch.level ax = c.level ax + 1 ∧
    (ax = .time → ch.lt = c.lt + 1 ∧ ch.lx = c.lx) ∧
    (ax = .space → ch.lt = c.lt ∧ ch.lx = c.lx + 1) ∧
    (ch.id = m.nElems ∨ ch.id = m.nElems + 1) := by
  have h1 := children_sub m.nElems c ax hp
  have h2 := children_proper m.nElems c ax hp
  have h3 := children_level m.nElems c ax
  have h4 := children_id m.nElems c ax
  rcases h with rfl | rfl
  · refine ⟨h1.1, h2.1, h3.1, ?_, ?_, Or.inl h4.1⟩ <;> rintro rfl <;> simp [children]
  · refine ⟨h1.2, h2.2, h3.2, ?_, ?_, Or.inr h4.2⟩ <;> rintro rfl <;> simp [children]

/-! ### one bisection -/

theorem bisect_tiles {m : Mesh} (h : Inv m) {c : Cell} (hc : c ∈ m.leaves) (ax : Ax) :
    Tiles (bisect m c ax) := by
  have hp := h.tiles.proper c hc
  have hin := h.tiles.inside c hc
  constructor
  · intro l hl
    rcases (mem_bisect h.ids hc ax l).mp hl with ⟨h1, _⟩ | hch
    · exact h.tiles.proper l h1
    · exact (hch.props hp).2.1
  · intro l hl
    show m.tmin ≤ l.t0 ∧ l.t1 ≤ m.tmax ∧ m.xmin ≤ l.x0 ∧ l.x1 ≤ m.xmax
    rcases (mem_bisect h.ids hc ax l).mp hl with ⟨h1, _⟩ | hch
    · exact h.tiles.inside l h1
    · obtain ⟨s1, s2, s3, s4⟩ := (hch.props hp).1
      obtain ⟨i1, i2, i3, i4⟩ := hin
      exact ⟨by linarith, by linarith, by linarith, by linarith⟩
  · intro t x hd
    obtain ⟨d, hdm, hcont⟩ := h.tiles.cover t x hd
    by_cases hdc : d = c
    · subst hdc
      rcases children_cover m.nElems d ax t x hcont with h1 | h1
      · exact ⟨_, (mem_bisect h.ids hc ax _).mpr (Or.inr (Or.inl rfl)), h1⟩
      · exact ⟨_, (mem_bisect h.ids hc ax _).mpr (Or.inr (Or.inr rfl)), h1⟩
    · exact ⟨d, (mem_bisect h.ids hc ax _).mpr (Or.inl ⟨hdm, hdc⟩), hcont⟩
  · intro a ha b hb t x hat hbt
    rcases (mem_bisect h.ids hc ax a).mp ha with ⟨ha1, ha2⟩ | hach <;>
      rcases (mem_bisect h.ids hc ax b).mp hb with ⟨hb1, hb2⟩ | hbch
    · exact h.tiles.disjoint a ha1 b hb1 t x hat hbt
    · exact absurd (h.tiles.disjoint a ha1 c hc t x hat ((hbch.props hp).1.contains hbt)) ha2
    · exact absurd (h.tiles.disjoint b hb1 c hc t x hbt ((hach.props hp).1.contains hat)) hb2
    · rcases hach with rfl | rfl <;> rcases hbch with rfl | rfl
      · rfl
      · exact (children_disjoint _ _ _ t x hat hbt).elim
      · exact (children_disjoint _ _ _ t x hbt hat).elim
      · rfl

theorem bisect_ids {m : Mesh} (h : Inv m) {c : Cell} (hc : c ∈ m.leaves) (ax : Ax) :
    IdsOK (bisect m c ax) := by
  have hid := children_id m.nElems c ax
  constructor
  · rw [bisect_leaves, List.map_append, List.nodup_append]
    refine ⟨(h.ids.1.sublist (List.Sublist.map _ List.filter_sublist)), ?_, ?_⟩
    · simp [hid.1, hid.2]
    · intro a ha b hb
      simp only [List.mem_map, List.mem_filter] at ha
      obtain ⟨a', ⟨ha', _⟩, rfl⟩ := ha
      have := h.ids.2 a' ha'
      simp only [List.map_cons, List.map_nil, List.mem_cons, List.not_mem_nil, or_false, hid.1,
        hid.2] at hb
      omega
  · intro l hl
    show l.id < m.nElems + 2
    rcases (mem_bisect h.ids hc ax l).mp hl with ⟨h1, _⟩ | hch
    · have := h.ids.2 l h1; omega
    · have := (hch.props (h.tiles.proper c hc)).2.2.2.2.2; omega

theorem Irr.level {m : Mesh} (h : Irr m) {c n : Cell} (hc : c ∈ m.leaves) (hn : n ∈ m.leaves)
    {s : Side} (ha : Adj m c s n) (ax : Ax) :
    c.level ax ≤ n.level ax + 1 ∧ n.level ax ≤ c.level ax + 1 := by
  have := h c hc n hn s (adjacent_iff.mpr ha)
  cases ax <;> simp only [Cell.level] <;> omega

theorem bisect_adj {m : Mesh} {c : Cell} {ax : Ax} {a : Cell} {s : Side} {b : Cell} :
    Adj (bisect m c ax) a s b ↔ Adj m a s b :=
  Adj.congr rfl rfl rfl

theorem bisect_irr {m : Mesh} (h : Inv m) {c : Cell} (hc : c ∈ m.leaves) (ax : Ax)
    (hn : ∀ s, ∀ n ∈ m.leaves, Adj m c s n → c.level ax ≤ n.level ax) :
    Irr (bisect m c ax) := by
  have hp := h.tiles.proper c hc
  intro a ha b hb s hadj
  rw [adjacent_iff, bisect_adj] at hadj
  rcases (mem_bisect h.ids hc ax a).mp ha with ⟨ha1, ha2⟩ | hach <;>
    rcases (mem_bisect h.ids hc ax b).mp hb with ⟨hb1, hb2⟩ | hbch
  · exact h.irr a ha1 b hb1 s (adjacent_iff.mpr hadj)
  · -- a old, b child
    obtain ⟨bs, bp, -, bt, bx, -⟩ := hbch.props hp
    have h1 : Adj m a s c := Adj.of_sub h.tiles ha1 hc ha2 bs bp hadj
    have h2 := hn _ a ha1 h1.symm
    have h3 := h.irr a ha1 c hc s (adjacent_iff.mpr h1)
    cases ax
    · have := bt rfl; simp only [Cell.level] at h2; omega
    · have := bx rfl; simp only [Cell.level] at h2; omega
  · -- a child, b old
    obtain ⟨as, ap, -, at', ax', -⟩ := hach.props hp
    have h1 : Adj m c s b := Adj.of_sub_left h.tiles hc hb1 (Ne.symm hb2) as ap hadj
    have h2 := hn _ b hb1 h1
    have h3 := h.irr c hc b hb1 s (adjacent_iff.mpr h1)
    cases ax
    · have := at' rfl; simp only [Cell.level] at h2; omega
    · have := ax' rfl; simp only [Cell.level] at h2; omega
  · obtain ⟨-, -, -, at', ax', -⟩ := hach.props hp
    obtain ⟨-, -, -, bt, bx, -⟩ := hbch.props hp
    cases ax
    · have := at' rfl; have := bt rfl; omega
    · have := ax' rfl; have := bx rfl; omega

theorem bisect_refines {m : Mesh} (h : Inv m) {c : Cell} (hc : c ∈ m.leaves) (ax : Ax) :
    Refines m (bisect m c ax) := by
  have hp := h.tiles.proper c hc
  refine ⟨rfl, ⟨rfl, rfl, rfl, rfl⟩, ?_, Nat.le_add_right _ _⟩
  intro d' hd'
  rcases (mem_bisect h.ids hc ax d').mp hd' with ⟨h1, _⟩ | hch
  · exact ⟨d', h1, Cell.Sub.refl _, le_refl _, le_refl _⟩
  · obtain ⟨bs, -, -, bt, bx, -⟩ := hch.props hp
    refine ⟨c, hc, bs, ?_⟩
    cases ax
    · have := bt rfl; omega
    · have := bx rfl; omega

theorem bisect_inv' {m : Mesh} (h : Inv m) {c : Cell} (hc : c ∈ m.leaves) (ax : Ax)
    (hn : ∀ s, ∀ n ∈ m.leaves, Adj m c s n → c.level ax ≤ n.level ax) :
    Inv (bisect m c ax) :=
  ⟨h.dom, bisect_tiles h hc ax, bisect_irr h hc ax hn, bisect_ids h hc ax⟩

/-! ### refinement below a level -/

/-- `m'` refines `m`, keeps all leaves of level `≥ L` in the axis, and every new leaf lies in an old
leaf of smaller level, which is `< L` -/
structure Below (ax : Ax) (L : Nat) (m m' : Mesh) : Prop where
  ref : Refines m m'
  keep : ∀ d ∈ m.leaves, L ≤ d.level ax → d ∈ m'.leaves
  new : ∀ d' ∈ m'.leaves, d' ∈ m.leaves ∨
    ∃ d ∈ m.leaves, d'.Sub d ∧ d.level ax < d'.level ax ∧ d.level ax < L

theorem Below.refl (ax : Ax) (L : Nat) (m : Mesh) : Below ax L m m :=
  ⟨Refines.refl m, fun _ hd _ => hd, fun _ hd => Or.inl hd⟩

theorem Below.trans {ax : Ax} {L : Nat} {a b c : Mesh} (h1 : Below ax L a b) (h2 : Below ax L b c) :
    Below ax L a c := by
  refine ⟨h1.ref.trans h2.ref, fun d hd hl => h2.keep d (h1.keep d hd hl) hl, ?_⟩
  intro d'' hd''
  rcases h2.new d'' hd'' with h | ⟨d', hd', s', l1', l2'⟩
  · exact h1.new d'' h
  · rcases h1.new d' hd' with h | ⟨d, hd, s, l1, l2⟩
    · exact Or.inr ⟨d', h, s', l1', l2'⟩
    · exact Or.inr ⟨d, hd, s'.trans s, by omega, l2⟩

theorem Below.mono {ax : Ax} {L L' : Nat} {a b : Mesh} (h : Below ax L a b) (hl : L ≤ L') :
    Below ax L' a b := by
  refine ⟨h.ref, fun d hd hl' => h.keep d hd (by omega), ?_⟩
  intro d' hd'
  rcases h.new d' hd' with h | ⟨d, hd, s, l1, l2⟩
  · exact Or.inl h
  · exact Or.inr ⟨d, hd, s, l1, by omega⟩

/-- after a refinement below `L`, a neighbour of a leaf `c` of level `≥ L` is an old neighbour or
at least as deep as `c` -/
theorem Below.nbr {ax : Ax} {L : Nat} {m m' : Mesh} (hb : Below ax L m m') (hm : Inv m)
    (hm' : Inv m') {c : Cell} (hc : c ∈ m.leaves) (hL : L ≤ c.level ax) {s : Side} {n : Cell}
    (hn : n ∈ m'.leaves) (ha : Adj m' c s n) :
    (n ∈ m.leaves ∧ Adj m c s n) ∨ c.level ax ≤ n.level ax := by
  have ha' : Adj m c s n := hb.ref.adj.mp ha
  rcases hb.new n hn with h | ⟨d, hd, sub, l1, l2⟩
  · exact Or.inl ⟨h, ha'⟩
  · right
    have hne : c ≠ d := by rintro rfl; omega
    have h1 : Adj m c s d := Adj.of_sub hm.tiles hc hd hne sub (hm'.tiles.proper n hn) ha'
    have := (hm.irr.level hc hd h1 ax).1
    omega

/-- specification of the result of `refineAxis` on the leaf `c` -/
structure Res (ax : Ax) (m : Mesh) (c : Cell) (m' : Mesh) : Prop where
  inv : Inv m'
  ref : Refines m m'
  gone : c ∉ m'.leaves
  keep : ∀ d ∈ m.leaves, d ≠ c → c.level ax ≤ d.level ax → d ∈ m'.leaves
  new : ∀ d' ∈ m'.leaves, d' ∈ m.leaves ∨
    ∃ d ∈ m.leaves, d'.Sub d ∧ d.level ax < d'.level ax ∧ d.level ax ≤ c.level ax
  two : 2 ≤ m'.nElems
  kids : (children (m'.nElems - 2) c ax).1 ∈ m'.leaves ∧ (children (m'.nElems - 2) c ax).2 ∈ m'.leaves

theorem Res.below {ax : Ax} {m : Mesh} {c : Cell} {m' : Mesh} (h : Res ax m c m') :
    Below ax (c.level ax + 1) m m' := by
  refine ⟨h.ref, fun d hd hl => h.keep d hd (by rintro rfl; omega) (by omega), ?_⟩
  intro d' hd'
  rcases h.new d' hd' with h | ⟨d, hd, s, l1, l2⟩
  · exact Or.inl h
  · exact Or.inr ⟨d, hd, s, l1, by omega⟩

/-! ### the loops of `refineAxis` -/

def innerStep (fuel : Nat) (ax : Ax) (c : Cell) (m : Mesh) (n : Cell) : Except String Mesh :=
  if n.level ax < c.level ax then refineAxis fuel m n.id ax else pure m

def outerStep (fuel : Nat) (ax : Ax) (c : Cell) (m : Mesh) (s : Side) : Except String Mesh :=
  (nbrs m c s).foldlM (innerStep fuel ax c) m

theorem refineAxis_succ (fuel : Nat) (m : Mesh) (id : Nat) (ax : Ax) :
    refineAxis (fuel + 1) m id ax =
      (match findLeaf m id with
      | none => .error "assert:not-leaf"
      | some c => do
        let m ← Side.all.foldlM (outerStep fuel ax c) m
        match findLeaf m id with
        | none => .error "assert:not-leaf"
        | some c => pure (bisect m c ax)) := by
  rw [refineAxis]
  rfl

/-- induction hypothesis on the fuel -/
def IHyp (fuel : Nat) (ax : Ax) : Prop :=
  ∀ (m : Mesh) (n : Cell), Inv m → n ∈ m.leaves → n.level ax < fuel →
    ∃ m', refineAxis fuel m n.id ax = .ok m' ∧ Res ax m n m'

theorem inner_loop {fuel : Nat} {ax : Ax} (IH : IHyp fuel ax) {c : Cell} {s : Side}
    (hfuel : c.level ax < fuel + 1) (rest : List Cell) :
    ∀ (M : Mesh), rest.Nodup → Inv M → c ∈ M.leaves →
      (∀ n ∈ rest, Adj M c s n) →
      (∀ n ∈ rest, n.level ax < c.level ax → n ∈ M.leaves) →
      (∀ n ∈ M.leaves, Adj M c s n → n ∈ rest ∨ c.level ax ≤ n.level ax) →
      ∃ M', rest.foldlM (innerStep fuel ax c) M = .ok M' ∧ Inv M' ∧ Below ax (c.level ax) M M' ∧
        c ∈ M'.leaves ∧ ∀ n ∈ M'.leaves, Adj M' c s n → c.level ax ≤ n.level ax := by
  induction rest with
  | nil =>
    intro M _ hinv hcM _ _ hnb
    refine ⟨M, rfl, hinv, Below.refl _ _ _, hcM, ?_⟩
    intro n hn ha
    rcases hnb n hn ha with h | h
    · simp at h
    · exact h
  | cons n rest ih =>
    intro M hnd hinv hcM hadj hrest hnb
    rw [List.foldlM_cons]
    have hnd' := (List.nodup_cons.mp hnd)
    by_cases hlt : n.level ax < c.level ax
    · have hnM : n ∈ M.leaves := hrest n (by simp) hlt
      obtain ⟨M1, hM1, res⟩ := IH M n hinv hnM (by omega)
      have hstep : innerStep fuel ax c M n = .ok M1 := by
        simp only [innerStep, hlt, if_true]; exact hM1
      have hbel : Below ax (c.level ax) M M1 := res.below.mono (by omega)
      have hcM1 : c ∈ M1.leaves := res.keep c hcM (by rintro rfl; omega) (by omega)
      have hadjn : Adj M c s n := hadj n (by simp)
      have hnlev := (hinv.irr.level hcM hnM hadjn ax).1
      obtain ⟨M', hM', hinv', hbel', hcM', hfin⟩ := ih M1 hnd'.2 res.inv hcM1
        (fun n2 hn2 => res.ref.adj.mpr (hadj n2 (by simp [hn2])))
        (fun n2 hn2 hl2 => by
          have hn2M : n2 ∈ M.leaves := hrest n2 (by simp [hn2]) hl2
          have hne : n2 ≠ n := by rintro rfl; exact hnd'.1 hn2
          have := (hinv.irr.level hcM hn2M (hadj n2 (by simp [hn2])) ax).1
          exact res.keep n2 hn2M hne (by omega))
        (fun n2 hn2 ha2 => by
          rcases hbel.nbr hinv res.inv hcM (le_refl _) hn2 ha2 with ⟨h1, h2⟩ | h
          · rcases hnb n2 h1 h2 with h | h
            · rcases List.mem_cons.mp h with rfl | h
              · exact absurd hn2 res.gone
              · exact Or.inl h
            · exact Or.inr h
          · exact Or.inr h)
      refine ⟨M', ?_, hinv', hbel.trans hbel', hcM', hfin⟩
      rw [hstep]; exact hM'
    · have hstep : innerStep fuel ax c M n = .ok M := by
        simp only [innerStep, hlt, if_false]; rfl
      obtain ⟨M', hM', hinv', hbel', hcM', hfin⟩ := ih M hnd'.2 hinv hcM
        (fun n2 hn2 => hadj n2 (by simp [hn2]))
        (fun n2 hn2 hl2 => hrest n2 (by simp [hn2]) hl2)
        (fun n2 hn2 ha2 => by
          rcases hnb n2 hn2 ha2 with h | h
          · rcases List.mem_cons.mp h with rfl | h
            · exact Or.inr (by omega)
            · exact Or.inl h
          · exact Or.inr h)
      refine ⟨M', ?_, hinv', hbel', hcM', hfin⟩
      rw [hstep]; exact hM'

theorem outer_loop {fuel : Nat} {ax : Ax} (IH : IHyp fuel ax) {c : Cell}
    (hfuel : c.level ax < fuel + 1) (sides : List Side) :
    ∀ (done : List Side) (M : Mesh), Inv M → c ∈ M.leaves →
      (∀ s ∈ done, ∀ n ∈ M.leaves, Adj M c s n → c.level ax ≤ n.level ax) →
      ∃ M', sides.foldlM (outerStep fuel ax c) M = .ok M' ∧ Inv M' ∧ Below ax (c.level ax) M M' ∧
        c ∈ M'.leaves ∧ ∀ s ∈ done ++ sides, ∀ n ∈ M'.leaves, Adj M' c s n → c.level ax ≤ n.level ax := by
  induction sides with
  | nil =>
    intro done M hinv hcM hdone
    exact ⟨M, rfl, hinv, Below.refl _ _ _, hcM, by simpa using hdone⟩
  | cons s sides ih =>
    intro done M hinv hcM hdone
    rw [List.foldlM_cons]
    obtain ⟨M1, hM1, hinv1, hbel1, hcM1, hfin1⟩ := inner_loop IH (s := s) hfuel (nbrs M c s) M
      (nbrs_nodup hinv.ids c s) hinv hcM
      (fun n hn => (mem_nbrs.mp hn).2)
      (fun n hn _ => (mem_nbrs.mp hn).1)
      (fun n hn ha => Or.inl (mem_nbrs.mpr ⟨hn, ha⟩))
    obtain ⟨M', hM', hinv', hbel', hcM', hfin⟩ := ih (done ++ [s]) M1 hinv1 hcM1 (by
      intro s' hs' n hn ha
      rcases List.mem_append.mp hs' with h | h
      · rcases hbel1.nbr hinv hinv1 hcM (le_refl _) hn ha with ⟨h1, h2⟩ | h'
        · exact hdone s' h n h1 h2
        · exact h'
      · simp only [List.mem_cons, List.not_mem_nil, or_false] at h
        subst h
        exact hfin1 n hn ha)
    refine ⟨M', ?_, hinv', hbel1.trans hbel', hcM', by simpa using hfin⟩
    have hstep : outerStep fuel ax c M s = .ok M1 := hM1
    rw [hstep]; exact hM'

theorem bisect_res {m0 M : Mesh} {c : Cell} {ax : Ax} (hM : Inv M)
    (hc0 : c ∈ m0.leaves) (hc : c ∈ M.leaves) (hbel : Below ax (c.level ax) m0 M)
    (hn : ∀ s, ∀ n ∈ M.leaves, Adj M c s n → c.level ax ≤ n.level ax) :
    Res ax m0 c (bisect M c ax) := by
  have hp := hM.tiles.proper c hc
  have hkid : (bisect M c ax).nElems - 2 = M.nElems := by
    show M.nElems + 2 - 2 = M.nElems; omega
  refine ⟨bisect_inv' hM hc ax hn, hbel.ref.trans (bisect_refines hM hc ax), ?_, ?_, ?_, ?_, ?_⟩
  · intro hmem
    rcases (mem_bisect hM.ids hc ax c).mp hmem with ⟨_, h2⟩ | hch
    · exact h2 rfl
    · have := (hch.props hp).2.2.1; omega
  · intro d hd hne hl
    exact (mem_bisect hM.ids hc ax d).mpr (Or.inl ⟨hbel.keep d hd hl, hne⟩)
  · intro d' hd'
    rcases (mem_bisect hM.ids hc ax d').mp hd' with ⟨h1, _⟩ | hch
    · rcases hbel.new d' h1 with h | ⟨d, hd, s, l1, l2⟩
      · exact Or.inl h
      · exact Or.inr ⟨d, hd, s, l1, by omega⟩
    · obtain ⟨bs, -, bl, -⟩ := hch.props hp
      exact Or.inr ⟨c, hc0, bs, by omega, le_refl _⟩
  · show 2 ≤ M.nElems + 2; omega
  · rw [hkid]
    exact ⟨(mem_bisect hM.ids hc ax _).mpr (Or.inr (Or.inl rfl)),
      (mem_bisect hM.ids hc ax _).mpr (Or.inr (Or.inr rfl))⟩

theorem refineAxis_res (ax : Ax) (fuel : Nat) : IHyp fuel ax := by
  induction fuel with
  | zero => intro m n _ _ h; omega
  | succ fuel IH =>
    intro m c hinv hc hf
    rw [refineAxis_succ, findLeaf_of_mem hinv.ids hc]
    obtain ⟨M, hM, hinvM, hbel, hcM, hfin⟩ := outer_loop IH hf Side.all [] m hinv hc (by simp)
    have hfin' : ∀ s, ∀ n ∈ M.leaves, Adj M c s n → c.level ax ≤ n.level ax := by
      intro s; apply hfin s; cases s <;> simp [Side.all]
    refine ⟨bisect M c ax, ?_, bisect_res hinvM hc hcM hbel hfin'⟩
    simp only [hM, bind, Except.bind, findLeaf_of_mem hinvM.ids hcM]
    rfl

end Stbem.Mesh
