import Stbem.Lemmas.FormulasA
import Mathlib.Algebra.Order.AbsoluteValue.Basic

/-!
# Closed-form kernels: algebraic identities between the closed forms (part B)

`Psi S z h` is the body of `fint_1` (the integral of `f_z(x-y)` over `[0,h]²`) as a function of
`z = a - b`.  The other space integrals `fint_2`, `fint_3`, `fint_4` are second differences of `Psi`
(inclusion-exclusion for collinear intervals); these are identities in the opaque symbols, using
only the laws listed in the hypotheses.
-/
namespace Stbem.Formulas.R

/-- the body of `fint_1`, as a function of `z = a - b` -/
noncomputable def Psi (S : Fns) (z h : ℝ) : ℝ :=
  1 / (96 * S.pi) * (4 * z * (S.exp (-(h^2 / (4 * z))) * (h^2 - 12 * z) + 12 * z)
    + -64 * h * S.piSqrt * S.pow32 z * S.erf (h / (2 * S.sqrt z))
    + (h^4 + 24 * h^2 * z) * S.ei (-(h^2 / (4 * z))))

set_option linter.unusedTactic false in
set_option linter.unreachableTactic false in
-- (`ring` is only reached if the generated text is not syntactically the text of `Psi`)
theorem fint_1_eq (S : Fns) (a b h : ℝ) :
    fint_1 S a b h = if a ≤ b then 0 else Psi S (a-b) h := by
  by_cases hab : a ≤ b
  · rw [fint_1_zero' S a b h hab, if_pos hab]
  · unfold fint_1 Psi
    simp only [if_neg hab]
    first | done | ring

theorem fint_1_pos (S : Fns) (a b h : ℝ) (hab : ¬ a ≤ b) : fint_1 S a b h = Psi S (a-b) h := by
  rw [fint_1_eq, if_neg hab]

theorem erf_zero_of_odd (S : Fns) (hodd : ∀ x, S.erf (-x) = -S.erf x) : S.erf 0 = 0 := by
  have h := hodd 0
  rw [neg_zero] at h
  linarith

theorem Psi_neg (S : Fns) (hodd : ∀ x, S.erf (-x) = -S.erf x) (z h : ℝ) :
    Psi S z (-h) = Psi S z h := by
  unfold Psi
  have e2 : (-h)^2 = h^2 := by ring
  have e4 : (-h)^4 = h^4 := by ring
  rw [e2, e4, neg_div, hodd]
  ring

theorem Psi_abs (S : Fns) (hodd : ∀ x, S.erf (-x) = -S.erf x) (z h : ℝ) :
    Psi S z |h| = Psi S z h := by
  rcases abs_cases h with ⟨e, _⟩ | ⟨e, _⟩
  · rw [e]
  · rw [e, Psi_neg S hodd]

/-- `Psi S z (k - h) = Psi S z (h - k)` -/
theorem Psi_sub_comm (S : Fns) (hodd : ∀ x, S.erf (-x) = -S.erf x) (z h k : ℝ) :
    Psi S z (k - h) = Psi S z (h - k) := by
  rw [← Psi_neg S hodd z (h - k), neg_sub]

/-! ### `fint_2` -/

theorem fint2_eq' (S : Fns) (hhpi : S.hpiInv = 1 / (192 * S.pi)) (a b h k : ℝ) :
    fint_2 S a b h k = (fint_1 S a b (h+k) - fint_1 S a b h - fint_1 S a b k) / 2 := by
  by_cases hab : a ≤ b
  · rw [fint_2_zero' S a b h k hab, fint_1_zero' S a b _ hab, fint_1_zero' S a b _ hab,
      fint_1_zero' S a b _ hab]; ring
  · rw [fint_1_pos S a b _ hab, fint_1_pos S a b _ hab, fint_1_pos S a b _ hab]
    unfold fint_2 Psi
    rw [if_neg hab]
    dsimp only
    simp only [neg_div]
    rw [hhpi]
    ring

/-! ### `fint_4` -/

theorem fint4_eq' (S : Fns) (hodd : ∀ x, S.erf (-x) = -S.erf x)
    (hhpi : S.hpiInv = 1 / (192 * S.pi)) (a b h k l : ℝ) :
    fint_4 S a b h k l
      = (fint_1 S a b l - fint_1 S a b (l-h) - fint_1 S a b k + fint_1 S a b (k-h)) / 2 := by
  by_cases hab : a ≤ b
  · rw [fint_4_zero' S a b h k l hab, fint_1_zero' S a b _ hab, fint_1_zero' S a b _ hab,
      fint_1_zero' S a b _ hab, fint_1_zero' S a b _ hab]; ring
  · rw [fint_1_pos S a b _ hab, fint_1_pos S a b _ hab, fint_1_pos S a b _ hab,
      fint_1_pos S a b _ hab, Psi_sub_comm S hodd _ h l, Psi_sub_comm S hodd _ h k]
    unfold fint_4 Psi
    rw [if_neg hab]
    dsimp only
    simp only [neg_div]
    rw [hhpi]
    ring

/-! ### `gint_2`, `steval_k` -/

theorem gint2_eq' (S : Fns) (hps : S.piSqrt = S.sqrt S.pi) (hfpi : S.fpiInv = 1 / (4 * S.pi))
    (z h k : ℝ) : gint_2 S z h k = gint_1 S z k - gint_1 S z h := by
  unfold gint_2 gint_1
  dsimp only
  simp only [neg_div]
  rw [hps, hfpi]
  ring

end Stbem.Formulas.R
