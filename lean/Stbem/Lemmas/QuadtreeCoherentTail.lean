import Stbem.Lemmas.QuadtreeCoherentBisect

/-!
# The generated `refine` after the balance closure, evaluated

`refine_succ_gen`: the generated `refine` = the loop over the edges (balance closure), then `refineTail`.
`refineTail_eq`: on a shaped leaf none of whose edges is registered in `__bisect_edge`, with coherent mid-point vertices,
`refineTail` returns the explicit state `tailState` (four `stepB`, the centre vertex, the four children, sixteen insertions
into `nbrs`, the leaf set).  `refineTail_stale`: if the first edge is registered, `assert:bisected`.
-/
namespace Stbem.QuadtreeTie
open Stbem.Quadtree Stbem.Gen
open QuadtreeGen (dictHas dictGet dictSet Element_edges)

/-- the part of the generated `refine` after the loop over the edges (same text) -/
def refineTail (self : GMesh) (element : GElem) : Except String (GMesh × List GElem) := do
    let v0 := element.v0
    let v1 := element.v1
    let v2 := element.v2
    let v3 := element.v3
    let r2 ← QuadtreeGen.InitialMesh_bisect_edge self v0 v1
    let self := r2.1
    let v01 := r2.2
    let r3 ← QuadtreeGen.InitialMesh_bisect_edge self v1 v2
    let self := r3.1
    let v12 := r3.2
    let r4 ← QuadtreeGen.InitialMesh_bisect_edge self v2 v3
    let self := r4.1
    let v23 := r4.2
    let r5 ← QuadtreeGen.InitialMesh_bisect_edge self v3 v0
    let self := r5.1
    let v30 := r5.2
    let vi : Vtx := { x := (v0.x + v2.x) / 2, y := (v0.y + v2.y) / 2, idx := self.vertices.length }
    let self := { self with vertices := self.vertices ++ [vi] }
    let t4 ← QuadtreeGen.Element_init v0 v01 vi v30 (some element) (self.elements.length + 0)
    let t5 ← QuadtreeGen.Element_init v01 v1 v12 vi (some element) (self.elements.length + 1)
    let t6 ← QuadtreeGen.Element_init vi v12 v2 v23 (some element) (self.elements.length + 2)
    let t7 ← QuadtreeGen.Element_init v30 vi v23 v3 (some element) (self.elements.length + 3)
    let children : List GElem := [t4, t5, t6, t7]
    let self ← children.foldlM QuadtreeGen.InitialMesh_refine_loop2 self
    let self := { self with elements := self.elements ++ children }
    let t8 ← QuadtreeGen.setRemove self.leaf_elements element
    let self := { self with leaf_elements := t8 }
    let self := { self with leaf_elements := QuadtreeGen.setUpdate self.leaf_elements children }
    pure (self, children)

theorem refine_succ_gen (fuel : Nat) (g : GMesh) (e : GElem) :
    QuadtreeGen.InitialMesh_refine (fuel + 1) g e =
      (Element_edges e).foldlM (QuadtreeGen.InitialMesh_refine_loop1 (QuadtreeGen.InitialMesh_refine fuel) e) g >>=
        fun g => refineTail g e := by
  rw [QuadtreeGen.InitialMesh_refine]
  rfl

theorem refineTail_stale (g : GMesh) (e : GElem) (h : dictHas g.bisect_edge (e.v0, e.v1) = true) :
    refineTail g e = .error "assert:bisected" := by
  unfold refineTail
  simp only [bisect_edge_stale g e.v0 e.v1 h, bind, Except.bind]

/-! ### shape facts -/

theorem Shaped.lt_y {e : GElem} (h : Shaped e) : e.v0.y < e.v2.y := by
  have h1 := h.y01; have h2 := h.x12; have h3 := h.y23; have h4 := h.x30; have h5 := h.sq; have h6 := h.pos
  linarith

theorem Vtx.ne_of_x {a b : Vtx} (h : a.x ≠ b.x) : a ≠ b := fun hh => h (by rw [hh])
theorem Vtx.ne_of_y {a b : Vtx} (h : a.y ≠ b.y) : a ≠ b := fun hh => h (by rw [hh])

theorem Shaped.ne {e : GElem} (h : Shaped e) :
    e.v0 ≠ e.v1 ∧ e.v1 ≠ e.v2 ∧ e.v2 ≠ e.v3 ∧ e.v3 ≠ e.v0 ∧ e.v0 ≠ e.v2 ∧ e.v1 ≠ e.v3 := by
  have h1 := h.y01; have h2 := h.x12; have h3 := h.y23; have h4 := h.x30; have h5 := h.sq; have h6 := h.pos
  have h7 := h.lt_y
  refine ⟨Vtx.ne_of_x ?_, Vtx.ne_of_y ?_, Vtx.ne_of_x ?_, Vtx.ne_of_y ?_, Vtx.ne_of_x ?_, Vtx.ne_of_x ?_⟩ <;>
    intro hh <;> linarith

theorem Shaped.midOK {e : GElem} (h : Shaped e) :
    MidOK e.v0 e.v1 ∧ MidOK e.v1 e.v2 ∧ MidOK e.v2 e.v3 ∧ MidOK e.v3 e.v0 := by
  have h1 := h.y01; have h2 := h.x12; have h3 := h.y23; have h4 := h.x30; have h5 := h.sq; have h6 := h.pos
  have h7 := h.lt_y
  refine ⟨Or.inr ⟨h1, ?_⟩, Or.inl ⟨h2, ?_⟩, Or.inr ⟨h3, ?_⟩, Or.inl ⟨h4, ?_⟩⟩ <;> intro hh <;> linarith

/-- `Element.__init__` on an axis-parallel square returns -/
theorem element_init_ok (v0 v1 v2 v3 : Vtx) (p : GElem) (id : Nat) (h1 : v0.y = v1.y) (h2 : v1.x = v2.x)
    (h3 : v2.y = v3.y) (h4 : v3.x = v0.x) (h5 : v0.x < v2.x) (h6 : v0.y < v2.y) (h7 : v1.x - v0.x = v3.y - v0.y) :
    QuadtreeGen.Element_init v0 v1 v2 v3 (some p) id =
      .ok { v0 := v0, v1 := v1, v2 := v2, v3 := v3, parent := some p.id, level := p.level + 1, id := id } := by
  unfold QuadtreeGen.Element_init
  simp only [QuadtreeGen.assertThat, QuadtreeGen.isclose, decide_eq_true_eq]
  rw [if_pos h1, if_pos h2, if_pos h3, if_pos h4, if_pos h5, if_pos h6, if_pos h7]
  rfl

/-! ### the explicit result -/

/-- the insertions into `nbrs` for the list of children, newest first -/
def nbrsOf (ch : List GElem) : List (QuadtreeGen.Edge × GElem) :=
  (ch.flatMap fun c => (Element_edges c).map fun q => (q, c)).reverse

theorem refine_loop2_eq (g : GMesh) (ch : List GElem) :
    ch.foldlM QuadtreeGen.InitialMesh_refine_loop2 g = .ok { g with nbrs := nbrsOf ch ++ g.nbrs } := by
  induction ch generalizing g with
  | nil => rfl
  | cons c ch ih =>
    rw [List.foldlM_cons]
    have : QuadtreeGen.InitialMesh_refine_loop2 g c =
        .ok { g with nbrs := ((Element_edges c).map fun q => (q, c)).reverse ++ g.nbrs } := by
      simp [QuadtreeGen.InitialMesh_refine_loop2, Element_edges, QuadtreeGen.InitialMesh_refine_loop3, dictSet,
        bind, Except.bind, pure, Except.pure]
    rw [this]
    simp only [bind, Except.bind]
    rw [ih]
    simp [nbrsOf, List.flatMap_cons]

/-- state after the four `bisect_edge` calls -/
def tailB (g : GMesh) (e : GElem) : GMesh :=
  (stepB (stepB (stepB (stepB g e.v0 e.v1).1 e.v1 e.v2).1 e.v2 e.v3).1 e.v3 e.v0).1

def tv01 (g : GMesh) (e : GElem) : Vtx := (stepB g e.v0 e.v1).2
def tv12 (g : GMesh) (e : GElem) : Vtx := (stepB (stepB g e.v0 e.v1).1 e.v1 e.v2).2
def tv23 (g : GMesh) (e : GElem) : Vtx := (stepB (stepB (stepB g e.v0 e.v1).1 e.v1 e.v2).1 e.v2 e.v3).2
def tv30 (g : GMesh) (e : GElem) : Vtx :=
  (stepB (stepB (stepB (stepB g e.v0 e.v1).1 e.v1 e.v2).1 e.v2 e.v3).1 e.v3 e.v0).2

/-- the centre vertex -/
def tvi (g : GMesh) (e : GElem) : Vtx :=
  { x := (e.v0.x + e.v2.x) / 2, y := (e.v0.y + e.v2.y) / 2, idx := (tailB g e).vertices.length }

/-- the four children -/
def tailKids (g : GMesh) (e : GElem) : List GElem :=
  let n := g.elements.length
  [{ v0 := e.v0, v1 := tv01 g e, v2 := tvi g e, v3 := tv30 g e, parent := some e.id, level := e.level + 1, id := n + 0 },
   { v0 := tv01 g e, v1 := e.v1, v2 := tv12 g e, v3 := tvi g e, parent := some e.id, level := e.level + 1, id := n + 1 },
   { v0 := tvi g e, v1 := tv12 g e, v2 := e.v2, v3 := tv23 g e, parent := some e.id, level := e.level + 1, id := n + 2 },
   { v0 := tv30 g e, v1 := tvi g e, v2 := tv23 g e, v3 := e.v3, parent := some e.id, level := e.level + 1, id := n + 3 }]

/-- the state that `refine` leaves -/
def tailState (g : GMesh) (e : GElem) : GMesh :=
  { tailB g e with
    vertices := (tailB g e).vertices ++ [tvi g e],
    nbrs := nbrsOf (tailKids g e) ++ g.nbrs,
    elements := g.elements ++ tailKids g e,
    leaf_elements := (g.leaf_elements.filter fun l => decide (l ≠ e)) ++ tailKids g e }

theorem tailB_elements (g : GMesh) (e : GElem) : (tailB g e).elements = g.elements := by
  simp only [tailB, stepB_elements]
theorem tailB_leaves (g : GMesh) (e : GElem) : (tailB g e).leaf_elements = g.leaf_elements := by
  simp only [tailB, stepB_leaves]
theorem tailB_nbrs (g : GMesh) (e : GElem) : (tailB g e).nbrs = g.nbrs := by
  simp only [tailB, stepB_nbrs]

theorem setUpdate_fresh {α : Type} [DecidableEq α] (s l : List α) (h1 : ∀ a ∈ l, a ∉ s) (h2 : l.Nodup) :
    QuadtreeGen.setUpdate s l = s ++ l := by
  unfold QuadtreeGen.setUpdate
  induction l generalizing s with
  | nil => simp
  | cons a l ih =>
    rw [List.foldl_cons]
    have ha : a ∉ s := h1 a (by simp)
    have : QuadtreeGen.setAdd s a = s ++ [a] := by simp [QuadtreeGen.setAdd, ha]
    rw [this, ih]
    · simp
    · intro b hb
      have hne : b ≠ a := by
        rintro rfl
        exact (List.nodup_cons.mp h2).1 hb
      simp [h1 b (by simp [hb]), hne]
    · exact (List.nodup_cons.mp h2).2


/-- registered mid-point vertices are vertices with the mid-point coordinates -/
def BisOK (g : GMesh) : Prop := ∀ p ∈ g.bisect_edge, p.2 ∈ g.vertices ∧ IsMid p.1 p.2

theorem stepB_vertices_sub (g : GMesh) (a b : Vtx) {v : Vtx} (h : v ∈ g.vertices) : v ∈ (stepB g a b).1.vertices := by
  rw [stepB_vertices]; exact List.mem_append_left _ h

theorem stepB_bisOK {g : GMesh} (h : BisOK g) (a b : Vtx) : BisOK (stepB g a b).1 := by
  intro p hp
  rw [stepB_bisect] at hp
  rcases List.mem_cons.mp hp with rfl | hp
  · exact stepB_vtx g a b h
  · exact ⟨stepB_vertices_sub g a b (h p hp).1, (h p hp).2⟩

theorem tail_mids {g : GMesh} (h : BisOK g) (e : GElem) :
    IsMid (e.v0, e.v1) (tv01 g e) ∧ IsMid (e.v1, e.v2) (tv12 g e) ∧ IsMid (e.v2, e.v3) (tv23 g e) ∧
      IsMid (e.v3, e.v0) (tv30 g e) :=
  ⟨(stepB_vtx _ _ _ h).2, (stepB_vtx _ _ _ (stepB_bisOK h _ _)).2,
    (stepB_vtx _ _ _ (stepB_bisOK (stepB_bisOK h _ _) _ _)).2,
    (stepB_vtx _ _ _ (stepB_bisOK (stepB_bisOK (stepB_bisOK h _ _) _ _) _ _)).2⟩

theorem tail_mids_mem {g : GMesh} (h : BisOK g) (e : GElem) :
    tv01 g e ∈ (tailB g e).vertices ∧ tv12 g e ∈ (tailB g e).vertices ∧ tv23 g e ∈ (tailB g e).vertices ∧
      tv30 g e ∈ (tailB g e).vertices :=
  ⟨stepB_vertices_sub _ _ _ (stepB_vertices_sub _ _ _ (stepB_vertices_sub _ _ _ (stepB_vtx _ _ _ h).1)),
   stepB_vertices_sub _ _ _ (stepB_vertices_sub _ _ _ (stepB_vtx _ _ _ (stepB_bisOK h _ _)).1),
   stepB_vertices_sub _ _ _ (stepB_vtx _ _ _ (stepB_bisOK (stepB_bisOK h _ _) _ _)).1,
   (stepB_vtx _ _ _ (stepB_bisOK (stepB_bisOK (stepB_bisOK h _ _) _ _) _ _)).1⟩

/-- the generated `refine` after the balance closure, evaluated on a shaped leaf whose edges are not registered -/
theorem refineTail_eq (g : GMesh) (e : GElem) (hs : Shaped e) (hl : e ∈ g.leaf_elements)
    (hn : ∀ q ∈ Element_edges e, ¬ dictHas g.bisect_edge q = true) (hb : BisOK g)
    (hid : ∀ l ∈ g.leaf_elements, l.id < g.elements.length) :
    refineTail g e = .ok (tailState g e, tailKids g e) := by
  obtain ⟨n01, n12, n23, n30, n02, n13⟩ := hs.ne
  obtain ⟨m01, m12, m23, m30⟩ := hs.midOK
  have hn0 := hn (e.v0, e.v1) (by simp [Element_edges])
  have hn1 := hn (e.v1, e.v2) (by simp [Element_edges])
  have hn2 := hn (e.v2, e.v3) (by simp [Element_edges])
  have hn3 := hn (e.v3, e.v0) (by simp [Element_edges])
  have e2 := bisect_edge_eq g e.v0 e.v1 hn0 m01
  have e3 := bisect_edge_eq (stepB g e.v0 e.v1).1 e.v1 e.v2
    (by rw [dictHas_stepB]; simp [hn1, n01]) m12
  have e4 := bisect_edge_eq (stepB (stepB g e.v0 e.v1).1 e.v1 e.v2).1 e.v2 e.v3
    (by rw [dictHas_stepB, dictHas_stepB]; simp [hn2, n12, n02]) m23
  have e5 := bisect_edge_eq (stepB (stepB (stepB g e.v0 e.v1).1 e.v1 e.v2).1 e.v2 e.v3).1 e.v3 e.v0
    (by rw [dictHas_stepB, dictHas_stepB, dictHas_stepB]; simp [hn3, n23, n13, n30.symm]) m30
  obtain ⟨⟨a1, a2⟩, ⟨b1, b2⟩, ⟨c1, c2⟩, ⟨d1, d2⟩⟩ := tail_mids hb e
  simp only at a1 a2 b1 b2 c1 c2 d1 d2
  have h1 := hs.y01; have h2 := hs.x12; have h3 := hs.y23; have h4 := hs.x30; have h5 := hs.sq; have h6 := hs.pos
  have h7 := hs.lt_y
  have i4 := element_init_ok e.v0 (tv01 g e) (tvi g e) (tv30 g e) e (g.elements.length + 0)
    (by rw [a2]; linarith) (by rw [a1]; simp only [tvi]; linarith) (by rw [d2]; simp only [tvi]; linarith)
    (by rw [d1]; linarith) (by simp only [tvi]; linarith) (by simp only [tvi]; linarith)
    (by rw [a1, d2]; linarith)
  have i5 := element_init_ok (tv01 g e) e.v1 (tv12 g e) (tvi g e) e (g.elements.length + 1)
    (by rw [a2]; linarith) (by rw [b1]; linarith) (by rw [b2]; simp only [tvi]; linarith)
    (by rw [a1]; simp only [tvi]; linarith) (by rw [a1, b1]; linarith) (by rw [a2, b2]; linarith)
    (by rw [a1, a2]; simp only [tvi]; linarith)
  have i6 := element_init_ok (tvi g e) (tv12 g e) e.v2 (tv23 g e) e (g.elements.length + 2)
    (by rw [b2]; simp only [tvi]; linarith) (by rw [b1]; linarith) (by rw [c2]; linarith)
    (by rw [c1]; simp only [tvi]; linarith) (by simp only [tvi]; linarith) (by simp only [tvi]; linarith)
    (by rw [b1, c2]; simp only [tvi]; linarith)
  have i7 := element_init_ok (tv30 g e) (tvi g e) (tv23 g e) e.v3 e (g.elements.length + 3)
    (by rw [d2]; simp only [tvi]; linarith) (by rw [c1]; simp only [tvi]; linarith) (by rw [c2]; linarith)
    (by rw [d1]; linarith) (by rw [d1, c1]; linarith) (by rw [d2, c2]; linarith)
    (by rw [d1, d2]; simp only [tvi]; linarith)
  have hrem : QuadtreeGen.setRemove g.leaf_elements e = .ok (g.leaf_elements.filter fun l => decide (l ≠ e)) := by
    simp [QuadtreeGen.setRemove, hl, pure, Except.pure]
  have hupd : QuadtreeGen.setUpdate (g.leaf_elements.filter fun l => decide (l ≠ e)) (tailKids g e) =
      (g.leaf_elements.filter fun l => decide (l ≠ e)) ++ tailKids g e := by
    apply setUpdate_fresh
    · intro c hc hm
      have hlt := hid c (List.mem_filter.mp hm).1
      simp only [tailKids, List.mem_cons, List.not_mem_nil, or_false] at hc
      rcases hc with rfl | rfl | rfl | rfl <;> simp at hlt
    · simp [tailKids]
  unfold refineTail
  simp only [e2, e3, e4, e5, bind, Except.bind]
  simp only [tailB, tv01, tv12, tv23, tv30, tvi] at i4 i5 i6 i7
  simp only [stepB_elements, i4, i5, i6, i7, refine_loop2_eq, stepB_leaves, hrem]
  simp only [tailKids, tailB, tv01, tv12, tv23, tv30, tvi] at hupd
  simp only [hupd, pure, Except.pure, tailState, tailKids, tailB, tv01, tv12, tv23, tv30, tvi, stepB_nbrs]

end Stbem.QuadtreeTie
