import Stbem.Lemmas.MeshLevels

/-!
# Lemmas for C10: existence of neighbours across interior sides, at most two neighbours per side
-/
namespace Stbem.Mesh

/-! ### list lemmas -/

/-- a maximiser of `f` among the elements of a list satisfying `P` -/
theorem exists_max_of_mem {α : Type} (f : α → Rat) (P : α → Prop) :
    ∀ (l : List α), (∃ a ∈ l, P a) → ∃ a ∈ l, P a ∧ ∀ b ∈ l, P b → f b ≤ f a := by
  intro l
  induction l with
  | nil => rintro ⟨a, ha, _⟩; simp at ha
  | cons x l ih =>
    intro hex
    by_cases hl : ∃ a ∈ l, P a
    · obtain ⟨a, ha, hPa, hmax⟩ := ih hl
      by_cases hx : P x ∧ f a < f x
      · refine ⟨x, by simp, hx.1, ?_⟩
        intro b hb hPb
        rcases List.mem_cons.mp hb with rfl | hb
        · exact le_refl _
        · exact le_trans (hmax b hb hPb) (le_of_lt hx.2)
      · refine ⟨a, List.mem_cons_of_mem _ ha, hPa, ?_⟩
        intro b hb hPb
        rcases List.mem_cons.mp hb with rfl | hb
        · by_contra hlt
          exact hx ⟨hPb, lt_of_not_ge hlt⟩
        · exact hmax b hb hPb
    · obtain ⟨a, ha, hPa⟩ := hex
      rcases List.mem_cons.mp ha with rfl | ha
      · refine ⟨a, by simp, hPa, ?_⟩
        intro b hb hPb
        rcases List.mem_cons.mp hb with rfl | hb
        · exact le_refl _
        · exact absurd ⟨b, hb, hPb⟩ hl
      · exact absurd ⟨a, ha, hPa⟩ hl

/-- a duplicate-free list whose elements fall into two classes, each containing at most one element,
has at most two elements -/
theorem length_le_two_of_classes {α : Type} (P : α → Prop) (l : List α) (hnd : l.Nodup)
    (h1 : ∀ a ∈ l, ∀ b ∈ l, P a → P b → a = b)
    (h2 : ∀ a ∈ l, ∀ b ∈ l, ¬ P a → ¬ P b → a = b) : l.length ≤ 2 := by
  match l, hnd, h1, h2 with
  | [], _, _, _ => simp
  | [_], _, _, _ => simp
  | [_, _], _, _, _ => simp
  | a :: b :: c :: l, hnd, h1, h2 =>
    exfalso
    have hab : a ≠ b := by
      intro e; subst e; simp at hnd
    have hac : a ≠ c := by
      intro e; subst e; simp at hnd
    have hbc : b ≠ c := by
      intro e; subst e; simp at hnd
    by_cases pa : P a <;> by_cases pb : P b <;> by_cases pc : P c
    · exact hab (h1 a (by simp) b (by simp) pa pb)
    · exact hab (h1 a (by simp) b (by simp) pa pb)
    · exact hac (h1 a (by simp) c (by simp) pa pc)
    · exact hbc (h2 b (by simp) c (by simp) pb pc)
    · exact hbc (h1 b (by simp) c (by simp) pb pc)
    · exact hac (h2 a (by simp) c (by simp) pa pc)
    · exact hab (h2 a (by simp) b (by simp) pa pb)
    · exact hab (h2 a (by simp) b (by simp) pa pb)

/-! ### the leaf just below / to the left of a point on a lower / left edge -/

/-- if no leaf has the point `(t, x)` in the interior of its time extent, a leaf ends at `t` below it -/
theorem Tiles.exists_below {m : Mesh} (ht : Tiles m) {t x : Rat} (h1 : m.tmin < t) (h2 : t ≤ m.tmax)
    (h3 : m.xmin ≤ x) (h4 : x < m.xmax)
    (hno : ∀ n ∈ m.leaves, n.x0 ≤ x → x < n.x1 → n.t0 < t → t < n.t1 → False) :
    ∃ n ∈ m.leaves, n.t1 = t ∧ n.x0 ≤ x ∧ x < n.x1 := by
  obtain ⟨n0, hn0, c1, c2, c3, c4⟩ := ht.cover m.tmin x ⟨le_refl _, by linarith, h3, h4⟩
  have hne : ∃ n ∈ m.leaves, (n.x0 ≤ x ∧ x < n.x1) ∧ n.t1 ≤ t := by
    refine ⟨n0, hn0, ⟨c3, c4⟩, ?_⟩
    by_contra hlt
    exact hno n0 hn0 c3 c4 (by linarith) (lt_of_not_ge hlt)
  obtain ⟨n, hn, ⟨⟨p1, p2⟩, p3⟩, hmax⟩ :=
    exists_max_of_mem (fun n : Cell => n.t1) (fun n => (n.x0 ≤ x ∧ x < n.x1) ∧ n.t1 ≤ t) m.leaves hne
  refine ⟨n, hn, ?_, p1, p2⟩
  by_contra hne'
  have hlt : n.t1 < t := lt_of_le_of_ne p3 hne'
  have hpr := ht.proper n hn
  have hin := ht.inside n hn
  obtain ⟨n', hn', d1, d2, d3, d4⟩ := ht.cover n.t1 x ⟨by linarith, by linarith, h3, h4⟩
  have : n'.t1 ≤ t := by
    by_contra hlt'
    exact hno n' hn' d3 d4 (by linarith) (lt_of_not_ge hlt')
  have := hmax n' hn' ⟨⟨d3, d4⟩, this⟩
  linarith

/-- the same in space -/
theorem Tiles.exists_left {m : Mesh} (ht : Tiles m) {t x : Rat} (h1 : m.xmin < x) (h2 : x ≤ m.xmax)
    (h3 : m.tmin ≤ t) (h4 : t < m.tmax)
    (hno : ∀ n ∈ m.leaves, n.t0 ≤ t → t < n.t1 → n.x0 < x → x < n.x1 → False) :
    ∃ n ∈ m.leaves, n.x1 = x ∧ n.t0 ≤ t ∧ t < n.t1 := by
  obtain ⟨n0, hn0, c1, c2, c3, c4⟩ := ht.cover t m.xmin ⟨h3, h4, le_refl _, by linarith⟩
  have hne : ∃ n ∈ m.leaves, (n.t0 ≤ t ∧ t < n.t1) ∧ n.x1 ≤ x := by
    refine ⟨n0, hn0, ⟨c1, c2⟩, ?_⟩
    by_contra hlt
    exact hno n0 hn0 c1 c2 (by linarith) (lt_of_not_ge hlt)
  obtain ⟨n, hn, ⟨⟨p1, p2⟩, p3⟩, hmax⟩ :=
    exists_max_of_mem (fun n : Cell => n.x1) (fun n => (n.t0 ≤ t ∧ t < n.t1) ∧ n.x1 ≤ x) m.leaves hne
  refine ⟨n, hn, ?_, p1, p2⟩
  by_contra hne'
  have hlt : n.x1 < x := lt_of_le_of_ne p3 hne'
  have hpr := ht.proper n hn
  have hin := ht.inside n hn
  obtain ⟨n', hn', d1, d2, d3, d4⟩ := ht.cover t n.x1 ⟨h3, h4, by linarith, by linarith⟩
  have : n'.x1 ≤ x := by
    by_contra hlt'
    exact hno n' hn' d1 d2 (by linarith) (lt_of_not_ge hlt')
  have := hmax n' hn' ⟨⟨d1, d2⟩, this⟩
  linarith

/-! ### existence of a neighbour across each side -/

theorem exists_adj_top {m : Mesh} (h : Inv m) {c : Cell} (hc : c ∈ m.leaves) (hb : c.t1 ≠ m.tmax) :
    ∃ n ∈ m.leaves, Adj m c .top n := by
  obtain ⟨p1, p2⟩ := h.tiles.proper c hc
  obtain ⟨i1, i2, i3, i4⟩ := h.tiles.inside c hc
  have hlt : c.t1 < m.tmax := lt_of_le_of_ne i2 hb
  obtain ⟨n, hn, d1, d2, d3, d4⟩ := h.tiles.cover c.t1 c.x0 ⟨by linarith, hlt, i3, by linarith⟩
  refine ⟨n, hn, ?_, p2, d4, by linarith, by linarith⟩
  by_contra hne
  have hlt' : n.t0 < c.t1 := lt_of_le_of_ne d1 hne
  have : c = n := by
    rcases le_total c.t0 n.t0 with hh | hh
    · exact h.tiles.disjoint c hc n hn n.t0 c.x0 ⟨hh, hlt', le_refl _, p2⟩ ⟨le_refl _, by linarith, d3, d4⟩
    · exact h.tiles.disjoint c hc n hn c.t0 c.x0 ⟨le_refl _, p1, le_refl _, p2⟩ ⟨hh, by linarith, d3, d4⟩
  subst this
  linarith

theorem exists_adj_bottom {m : Mesh} (h : Inv m) {c : Cell} (hc : c ∈ m.leaves) (hb : c.t0 ≠ m.tmin) :
    ∃ n ∈ m.leaves, Adj m c .bottom n := by
  obtain ⟨p1, p2⟩ := h.tiles.proper c hc
  obtain ⟨i1, i2, i3, i4⟩ := h.tiles.inside c hc
  have hlt : m.tmin < c.t0 := lt_of_le_of_ne i1 (Ne.symm hb)
  obtain ⟨n, hn, e, d3, d4⟩ := h.tiles.exists_below (t := c.t0) (x := c.x0) hlt (by linarith) i3
    (by linarith) (by
      intro n hn a1 a2 a3 a4
      have : c = n := h.tiles.disjoint c hc n hn c.t0 c.x0 ⟨le_refl _, p1, le_refl _, p2⟩
        ⟨le_of_lt a3, a4, a1, a2⟩
      subst this
      linarith)
  have hpn := h.tiles.proper n hn
  exact ⟨n, hn, e, p2, d4, by linarith, hpn.2⟩

theorem exists_adj_right {m : Mesh} (h : Inv m) {c : Cell} (hc : c ∈ m.leaves)
    (hb : c.x1 ≠ m.xmax ∨ m.glue = true) : ∃ n ∈ m.leaves, Adj m c .right n := by
  obtain ⟨p1, p2⟩ := h.tiles.proper c hc
  obtain ⟨i1, i2, i3, i4⟩ := h.tiles.inside c hc
  by_cases hx : c.x1 = m.xmax
  · have hg : m.glue = true := by
      rcases hb with hb | hb
      · exact absurd hx hb
      · exact hb
    obtain ⟨n, hn, d1, d2, d3, d4⟩ :=
      h.tiles.cover c.t0 m.xmin ⟨i1, by linarith, le_refl _, h.dom.2⟩
    have hin := h.tiles.inside n hn
    exact ⟨n, hn, Or.inr ⟨hg, hx, le_antisymm d3 hin.2.2.1⟩, p1, d2, by linarith, by linarith⟩
  · have hlt : c.x1 < m.xmax := lt_of_le_of_ne i4 hx
    obtain ⟨n, hn, d1, d2, d3, d4⟩ := h.tiles.cover c.t0 c.x1 ⟨i1, by linarith, by linarith, hlt⟩
    refine ⟨n, hn, Or.inl ?_, p1, d2, by linarith, by linarith⟩
    by_contra hne
    have hlt' : n.x0 < c.x1 := lt_of_le_of_ne d3 hne
    have : c = n := by
      rcases le_total c.x0 n.x0 with hh | hh
      · exact h.tiles.disjoint c hc n hn c.t0 n.x0 ⟨le_refl _, p1, hh, hlt'⟩ ⟨d1, d2, le_refl _, by linarith⟩
      · exact h.tiles.disjoint c hc n hn c.t0 c.x0 ⟨le_refl _, p1, le_refl _, p2⟩ ⟨d1, d2, hh, by linarith⟩
    subst this
    linarith

theorem exists_adj_left {m : Mesh} (h : Inv m) {c : Cell} (hc : c ∈ m.leaves)
    (hb : c.x0 ≠ m.xmin ∨ m.glue = true) : ∃ n ∈ m.leaves, Adj m c .left n := by
  obtain ⟨p1, p2⟩ := h.tiles.proper c hc
  obtain ⟨i1, i2, i3, i4⟩ := h.tiles.inside c hc
  by_cases hx : c.x0 = m.xmin
  · have hg : m.glue = true := by
      rcases hb with hb | hb
      · exact absurd hx hb
      · exact hb
    -- the leaf in the time column of `c.t0` that reaches `xmax`
    obtain ⟨n, hn, e, d1, d2⟩ := h.tiles.exists_left (t := c.t0) (x := m.xmax) h.dom.2 (le_refl _) i1
      (by linarith) (by
        intro n hn _ _ _ a4
        have := (h.tiles.inside n hn).2.2.2
        linarith)
    have hpn := h.tiles.proper n hn
    exact ⟨n, hn, Or.inr ⟨hg, hx, e⟩, p1, d2, by linarith, hpn.1⟩
  · have hlt : m.xmin < c.x0 := lt_of_le_of_ne i3 (Ne.symm hx)
    obtain ⟨n, hn, e, d1, d2⟩ := h.tiles.exists_left (t := c.t0) (x := c.x0) hlt (by linarith) i1
      (by linarith) (by
        intro n hn a1 a2 a3 a4
        have : c = n := h.tiles.disjoint c hc n hn c.t0 c.x0 ⟨le_refl _, p1, le_refl _, p2⟩
          ⟨a1, a2, le_of_lt a3, a4⟩
        subst this
        linarith)
    have hpn := h.tiles.proper n hn
    exact ⟨n, hn, Or.inl e, p1, d2, by linarith, hpn.1⟩

/-! ### two neighbours across the same side with a common tangential point coincide -/

theorem adj_unique {m : Mesh} (h : Inv m) {c : Cell} {s : Side} {a b : Cell}
    (ha : a ∈ m.leaves) (hb : b ∈ m.leaves) (ha' : Adj m c s a) (hb' : Adj m c s b) :
    (match s with
     | .bottom | .top => ∃ x, a.x0 ≤ x ∧ x < a.x1 ∧ b.x0 ≤ x ∧ x < b.x1
     | .left | .right => ∃ t, a.t0 ≤ t ∧ t < a.t1 ∧ b.t0 ≤ t ∧ t < b.t1) → a = b := by
  obtain ⟨pa1, pa2⟩ := h.tiles.proper a ha
  obtain ⟨pb1, pb2⟩ := h.tiles.proper b hb
  obtain ⟨ia1, ia2, ia3, ia4⟩ := h.tiles.inside a ha
  obtain ⟨ib1, ib2, ib3, ib4⟩ := h.tiles.inside b hb
  have dis := h.tiles.disjoint a ha b hb
  cases s <;> simp only [Adj] at ha' hb' ⊢
  · -- bottom: a.t1 = b.t1 = c.t0
    rintro ⟨x, x1, x2, x3, x4⟩
    obtain ⟨ea, -⟩ := ha'
    obtain ⟨eb, -⟩ := hb'
    rcases le_total a.t0 b.t0 with hh | hh
    · exact dis b.t0 x ⟨hh, by linarith, x1, x2⟩ ⟨le_refl _, pb1, x3, x4⟩
    · exact dis a.t0 x ⟨le_refl _, pa1, x1, x2⟩ ⟨hh, by linarith, x3, x4⟩
  · -- right
    rintro ⟨t, t1, t2, t3, t4⟩
    obtain ⟨ea, -⟩ := ha'
    obtain ⟨eb, -⟩ := hb'
    have e : a.x0 = b.x0 := by
      rcases ea with ea | ⟨_, ea1, ea2⟩ <;> rcases eb with eb | ⟨_, eb1, eb2⟩ <;> linarith
    exact dis t a.x0 ⟨t1, t2, le_refl _, pa2⟩ ⟨t3, t4, by linarith, by linarith⟩
  · -- top
    rintro ⟨x, x1, x2, x3, x4⟩
    obtain ⟨ea, -⟩ := ha'
    obtain ⟨eb, -⟩ := hb'
    exact dis a.t0 x ⟨le_refl _, pa1, x1, x2⟩ ⟨by linarith, by linarith, x3, x4⟩
  · -- left
    rintro ⟨t, t1, t2, t3, t4⟩
    obtain ⟨ea, -⟩ := ha'
    obtain ⟨eb, -⟩ := hb'
    have e : a.x1 = b.x1 := by
      rcases ea with ea | ⟨_, ea1, ea2⟩ <;> rcases eb with eb | ⟨_, eb1, eb2⟩ <;> linarith
    rcases le_total a.x0 b.x0 with hh | hh
    · exact dis t b.x0 ⟨t1, t2, hh, by linarith⟩ ⟨t3, t4, le_refl _, pb2⟩
    · exact dis t a.x0 ⟨t1, t2, le_refl _, pa2⟩ ⟨t3, t4, hh, by linarith⟩

/-! ### dyadic intervals -/

theorem dy_bounds {xa xb : Rat} (hlt : xa < xb) {l k : Nat} (hk : k < 2 ^ l) :
    xa ≤ xa + k * ((xb - xa) / 2 ^ l) ∧ xa + ((k : Rat) + 1) * ((xb - xa) / 2 ^ l) ≤ xb := by
  have hu : 0 < (xb - xa) / 2 ^ l := div_pos (by linarith) (by positivity)
  constructor
  · have : (0 : Rat) ≤ k * ((xb - xa) / 2 ^ l) := mul_nonneg (Nat.cast_nonneg k) hu.le
    linarith
  · have hk' : ((k : Rat) + 1) ≤ 2 ^ l := by exact_mod_cast hk
    have h1 : ((k : Rat) + 1) * ((xb - xa) / 2 ^ l) ≤ 2 ^ l * ((xb - xa) / 2 ^ l) :=
      mul_le_mul_of_nonneg_right hk' hu.le
    have h2 : (2 : Rat) ^ l * ((xb - xa) / 2 ^ l) = xb - xa := by field_simp
    linarith

/-- a dyadic interval at most one level finer than `[a, b]` that starts inside `(a, b)` starts at the
mid point -/
theorem Dy1.mid {X : List Rat} (hX : X.Pairwise (· < ·)) {l l' : Nat} {a b a' b' : Rat}
    (h : Dy1 X l a b) (h' : Dy1 X l' a' b') (hl : l' ≤ l + 1) (h1 : a < a') (h2 : a' < b)
    (h3 : a' < b') : a' = (a + b) / 2 := by
  obtain ⟨xa, xb, k, hp, hk, ha, hb⟩ := h
  obtain ⟨xa', xb', k', hp', hk', ha', hb'⟩ := h'
  have hlt := (pairs_mem hX _ hp).1
  have hlt' := (pairs_mem hX _ hp').1
  simp only at hlt hlt'
  obtain ⟨y1, y2⟩ := dy_bounds hlt hk
  obtain ⟨y1', y2'⟩ := dy_bounds hlt' hk'
  rw [← ha] at y1; rw [← hb] at y2; rw [← ha'] at y1'; rw [← hb'] at y2'
  -- the same root interval
  have hsep : (pairs X).Pairwise (fun p q => p.2 ≤ q.1 ∨ q.2 ≤ p.1) :=
    (pairs_sep hX).imp (fun h => Or.inl h)
  have he : (xa, xb) = (xa', xb') := by
    rcases pairwise_mem (fun _ _ h => Or.symm h) hsep hp hp' with e | e | e
    · exact e
    · simp only at e; linarith
    · simp only at e; linarith
  obtain ⟨rfl, rfl⟩ := Prod.mk.inj he
  -- common unit `u = (xb - xa) / 2^(l+1)`
  obtain ⟨d, hd⟩ := Nat.exists_eq_add_of_le hl
  have hu : 0 < (xb - xa) / 2 ^ (l + 1) := div_pos (by linarith) (by positivity)
  have el : (xb - xa) / 2 ^ l = 2 * ((xb - xa) / 2 ^ (l + 1)) := by
    rw [pow_succ]; field_simp
  have el' : (xb - xa) / 2 ^ l' = 2 ^ d * ((xb - xa) / 2 ^ (l + 1)) := by
    rw [hd, pow_add]; field_simp
  rw [el] at ha hb
  rw [el'] at ha'
  generalize (xb - xa) / 2 ^ (l + 1) = u at hu ha hb ha'
  have i1 : ((2 * k : Nat) : Rat) * u < ((k' * 2 ^ d : Nat) : Rat) * u := by
    push_cast; rw [ha, ha'] at h1; linarith
  have i2 : ((k' * 2 ^ d : Nat) : Rat) * u < ((2 * k + 2 : Nat) : Rat) * u := by
    push_cast; rw [hb, ha'] at h2; linarith
  have j1 : 2 * k < k' * 2 ^ d := by exact_mod_cast lt_of_mul_lt_mul_right i1 hu.le
  have j2 : k' * 2 ^ d < 2 * k + 2 := by exact_mod_cast lt_of_mul_lt_mul_right i2 hu.le
  have j3 : k' * 2 ^ d = 2 * k + 1 := by omega
  have j4 : ((k' : Rat) * 2 ^ d) = 2 * k + 1 := by exact_mod_cast j3
  have j5 : (k' : Rat) * (2 ^ d * u) = (2 * k + 1) * u := by rw [← mul_assoc, j4]
  rw [ha, hb, ha', j5]
  ring

/-- a dyadic interval at most one level finer than `[a, b]` that overlaps it contains `a` or the mid
point of `[a, b]` -/
theorem Dy1.hit {X : List Rat} (hX : X.Pairwise (· < ·)) {l l' : Nat} {a b a' b' : Rat}
    (h : Dy1 X l a b) (h' : Dy1 X l' a' b') (hl : l' ≤ l + 1) (h1 : a < b') (h2 : a' < b)
    (h3 : a' < b') : (a' ≤ a ∧ a < b') ∨ (¬ a' ≤ a ∧ a' ≤ (a + b) / 2 ∧ (a + b) / 2 < b') := by
  by_cases hle : a' ≤ a
  · exact Or.inl ⟨hle, h1⟩
  · have := h.mid hX h' hl (lt_of_not_ge hle) h2 h3
    exact Or.inr ⟨hle, le_of_eq this, by linarith⟩

end Stbem.Mesh
