import Stbem.Lemmas.MeshGeom
import Mathlib.Tactic.FieldSimp
import Mathlib.Tactic.NormNum
import Mathlib.Tactic.Positivity

/-!
# Dyadic descendants in one axis

`Dy a b a' b' j`: `[a', b')` is one of the `2^j` equal pieces of `[a, b)`.
`AxDesc ax d' d`: the cell `d'` is obtained from the cell `d` by bisections in the axis `ax` only.
-/
namespace Stbem.Mesh

/-- `[a', b')` is the `k`-th of the `2^j` equal pieces of `[a, b)`, for some `k < 2^j` -/
def Dy (a b a' b' : Rat) (j : Nat) : Prop :=
  ∃ k : Nat, k < 2 ^ j ∧ a' = a + k * ((b - a) / 2 ^ j) ∧ b' = a + (k + 1) * ((b - a) / 2 ^ j)

theorem Dy.refl (a b : Rat) : Dy a b a b 0 := ⟨0, by simp, by simp, by simp⟩

theorem Dy.zero {a b a' b' : Rat} (h : Dy a b a' b' 0) : a' = a ∧ b' = b := by
  obtain ⟨k, hk, h1, h2⟩ := h
  have : k = 0 := by simpa using hk
  subst this
  simp at h1 h2
  exact ⟨h1, h2⟩

theorem Dy.bounds {a b a' b' : Rat} {j : Nat} (hab : a < b) (h : Dy a b a' b' j) :
    a ≤ a' ∧ b' ≤ b ∧ a' < b' := by
  obtain ⟨k, hk, h1, h2⟩ := h
  have hp : (0 : Rat) < 2 ^ j := by positivity
  have hw : 0 < (b - a) / 2 ^ j := div_pos (by linarith) hp
  have hk0 : (0 : Rat) ≤ k := Nat.cast_nonneg k
  have hk1 : (k : Rat) + 1 ≤ 2 ^ j := by exact_mod_cast hk
  have hfull : (2 : Rat) ^ j * ((b - a) / 2 ^ j) = b - a := mul_div_cancel₀ _ (ne_of_gt hp)
  have e1 : 0 ≤ (k : Rat) * ((b - a) / 2 ^ j) := mul_nonneg hk0 (le_of_lt hw)
  have e2 : ((k : Rat) + 1) * ((b - a) / 2 ^ j) ≤ 2 ^ j * ((b - a) / 2 ^ j) :=
    mul_le_mul_of_nonneg_right hk1 (le_of_lt hw)
  refine ⟨by linarith, by linarith, ?_⟩
  rw [h1, h2]
  linarith

theorem Dy.first (a b : Rat) : Dy a b a ((a + b) / 2) 1 :=
  ⟨0, by norm_num, by simp, by push_cast; ring⟩

theorem Dy.second (a b : Rat) : Dy a b ((a + b) / 2) b 1 :=
  ⟨1, by norm_num, by push_cast; ring, by push_cast; ring⟩

/-- a piece of depth `j + 1` lies in the lower or in the upper half, with depth `j` there -/
theorem Dy.half {a b a' b' : Rat} {j : Nat} (h : Dy a b a' b' (j + 1)) :
    Dy a ((a + b) / 2) a' b' j ∨ Dy ((a + b) / 2) b a' b' j := by
  obtain ⟨k, hk, h1, h2⟩ := h
  have hp : (2 : Rat) ^ j ≠ 0 := by positivity
  by_cases hlt : k < 2 ^ j
  · left
    refine ⟨k, hlt, ?_, ?_⟩
    · rw [h1, pow_succ]; field_simp; ring
    · rw [h2, pow_succ]; field_simp; ring
  · right
    obtain ⟨k', rfl⟩ : ∃ k', k = 2 ^ j + k' := Nat.exists_eq_add_of_le (by omega)
    refine ⟨k', by rw [pow_succ] at hk; omega, ?_, ?_⟩
    · rw [h1, pow_succ]; push_cast; field_simp; ring
    · rw [h2, pow_succ]; push_cast; field_simp; ring

/-- `d'` is a dyadic descendant of `d` obtained by bisections in axis `ax` only: same extent and
level in the other axis, and in `ax` it is one of the `2^j` equal pieces (`j` = level difference) -/
def AxDesc (ax : Ax) (d' d : Cell) : Prop :=
  match ax with
  | .time => d'.x0 = d.x0 ∧ d'.x1 = d.x1 ∧ d'.lx = d.lx ∧ d.lt ≤ d'.lt ∧
      Dy d.t0 d.t1 d'.t0 d'.t1 (d'.lt - d.lt)
  | .space => d'.t0 = d.t0 ∧ d'.t1 = d.t1 ∧ d'.lt = d.lt ∧ d.lx ≤ d'.lx ∧
      Dy d.x0 d.x1 d'.x0 d'.x1 (d'.lx - d.lx)

theorem AxDesc.refl (ax : Ax) (d : Cell) : AxDesc ax d d := by
  cases ax <;>
    exact ⟨rfl, rfl, rfl, le_refl _, by rw [Nat.sub_self]; exact Dy.refl _ _⟩

theorem AxDesc.level_le {ax : Ax} {d' d : Cell} (h : AxDesc ax d' d) :
    d.level ax ≤ d'.level ax := by
  cases ax
  · exact h.2.2.2.1
  · exact h.2.2.2.1

theorem AxDesc.sub {ax : Ax} {d' d : Cell} (h : AxDesc ax d' d) (hp : d.t0 < d.t1 ∧ d.x0 < d.x1) :
    d'.Sub d ∧ (d'.t0 < d'.t1 ∧ d'.x0 < d'.x1) := by
  cases ax
  · obtain ⟨e1, e2, -, -, hd⟩ := h
    obtain ⟨b1, b2, b3⟩ := hd.bounds hp.1
    exact ⟨⟨b1, b2, by rw [e1], by rw [e2]⟩, b3, by rw [e1, e2]; exact hp.2⟩
  · obtain ⟨e1, e2, -, -, hd⟩ := h
    obtain ⟨b1, b2, b3⟩ := hd.bounds hp.2
    exact ⟨⟨by rw [e1], by rw [e2], b1, b2⟩, by rw [e1, e2]; exact hp.1, b3⟩

/-- a descendant of the same level has the same extent -/
theorem AxDesc.eq_of_level_le {ax : Ax} {d' d : Cell} (h : AxDesc ax d' d)
    (hl : d'.level ax ≤ d.level ax) :
    d'.t0 = d.t0 ∧ d'.t1 = d.t1 ∧ d'.x0 = d.x0 ∧ d'.x1 = d.x1 := by
  cases ax
  · obtain ⟨e1, e2, -, l, hd⟩ := h
    simp only [Cell.level] at hl
    rw [show d'.lt - d.lt = 0 by omega] at hd
    exact ⟨hd.zero.1, hd.zero.2, e1, e2⟩
  · obtain ⟨e1, e2, -, l, hd⟩ := h
    simp only [Cell.level] at hl
    rw [show d'.lx - d.lx = 0 by omega] at hd
    exact ⟨e1, e2, hd.zero.1, hd.zero.2⟩

/-- the two children are descendants -/
theorem AxDesc.of_children (k : Nat) (e : Cell) (ax : Ax) :
    AxDesc ax (children k e ax).1 e ∧ AxDesc ax (children k e ax).2 e := by
  cases ax
  · refine ⟨⟨rfl, rfl, rfl, Nat.le_succ _, ?_⟩, ⟨rfl, rfl, rfl, Nat.le_succ _, ?_⟩⟩
    · show Dy e.t0 e.t1 e.t0 ((e.t0 + e.t1) / 2) (e.lt + 1 - e.lt)
      rw [Nat.add_sub_cancel_left]; exact Dy.first _ _
    · show Dy e.t0 e.t1 ((e.t0 + e.t1) / 2) e.t1 (e.lt + 1 - e.lt)
      rw [Nat.add_sub_cancel_left]; exact Dy.second _ _
  · refine ⟨⟨rfl, rfl, rfl, Nat.le_succ _, ?_⟩, ⟨rfl, rfl, rfl, Nat.le_succ _, ?_⟩⟩
    · show Dy e.x0 e.x1 e.x0 ((e.x0 + e.x1) / 2) (e.lx + 1 - e.lx)
      rw [Nat.add_sub_cancel_left]; exact Dy.first _ _
    · show Dy e.x0 e.x1 ((e.x0 + e.x1) / 2) e.x1 (e.lx + 1 - e.lx)
      rw [Nat.add_sub_cancel_left]; exact Dy.second _ _

/-- a strictly deeper descendant of `d` is a descendant of one of the two children of `d` -/
theorem AxDesc.child {ax : Ax} {d' d : Cell} (h : AxDesc ax d' d)
    (hl : d.level ax + 1 ≤ d'.level ax) (k : Nat) :
    AxDesc ax d' (children k d ax).1 ∨ AxDesc ax d' (children k d ax).2 := by
  cases ax
  · obtain ⟨e1, e2, e3, l, hd⟩ := h
    simp only [Cell.level] at hl
    obtain ⟨j, hj⟩ : ∃ j, d'.lt = d.lt + 1 + j := Nat.exists_eq_add_of_le hl
    rw [show d'.lt - d.lt = j + 1 by omega] at hd
    have hj' : d'.lt - (d.lt + 1) = j := by omega
    simp only [AxDesc, children, hj']
    rcases hd.half with h | h
    · exact Or.inl ⟨e1, e2, e3, by omega, h⟩
    · exact Or.inr ⟨e1, e2, e3, by omega, h⟩
  · obtain ⟨e1, e2, e3, l, hd⟩ := h
    simp only [Cell.level] at hl
    obtain ⟨j, hj⟩ : ∃ j, d'.lx = d.lx + 1 + j := Nat.exists_eq_add_of_le hl
    rw [show d'.lx - d.lx = j + 1 by omega] at hd
    have hj' : d'.lx - (d.lx + 1) = j := by omega
    simp only [AxDesc, children, hj']
    rcases hd.half with h | h
    · exact Or.inl ⟨e1, e2, e3, by omega, h⟩
    · exact Or.inr ⟨e1, e2, e3, by omega, h⟩

end Stbem.Mesh
