import Stbem.Gen.InitPotGen
import Stbem.Lemmas.InitPotModel

/-!
# Lemmas for `Props/InitPotTie.lean`: the generated `linform` (translate/initpotgen.py) against the hand model

* `vertex_from_coords_eq`: the vertex found by the generated look-up has the coordinates that were looked up;
* `dot_map`, list normalisation: `np.dot(f(points), weights)` is the model's `apply3`;
* `foldlM_cells`: the left fold of the generated loop body is the model's `mapM` over the leaves plus the count of
  identical cells.
-/
namespace Stbem.InitPotTie
open Stbem.Quadtree Stbem.Quad Stbem.InitPot Stbem.Formulas.Q
open Stbem.Gen

/-! ### `vertex_from_coords` -/

theorem vfc_go_found (x y : Rat) : ∀ (l : List (Rat × Rat)) (i : Nat) (res : Option Nat) (k : Nat),
    vertexFromCoords.go x y i res l = .ok (some k) → res = some k ∨ (i ≤ k ∧ l[k - i]? = some (x, y)) := by
  intro l
  induction l with
  | nil =>
    intro i res k h
    left
    simpa [vertexFromCoords.go, pure, Except.pure] using h
  | cons v l ih =>
    intro i res k h
    rw [vertexFromCoords.go] at h
    by_cases hv : v.1 = x ∧ v.2 = y
    · rw [if_pos hv] at h
      cases res with
      | some r => simp at h
      | none =>
        simp only [Option.isSome_none, Bool.false_eq_true, if_false] at h
        rcases ih (i + 1) (some i) k h with h1 | ⟨h1, h2⟩
        · right
          have : i = k := by simpa using h1
          subst this
          have e : v = (x, y) := by rw [← hv.1, ← hv.2]
          simp [e]
        · right
          refine ⟨by omega, ?_⟩
          have : k - i = (k - (i + 1)) + 1 := by omega
          rw [this]
          simpa using h2
    · rw [if_neg hv] at h
      rcases ih (i + 1) res k h with h1 | ⟨h1, h2⟩
      · exact Or.inl h1
      · right
        refine ⟨by omega, ?_⟩
        have : k - i = (k - (i + 1)) + 1 := by omega
        rw [this]
        simpa using h2

/-- the `Vertex` returned by `vertex_from_coords` is stored under the coordinates that were looked up -/
theorem vertex_from_coords_eq (m : QT) (p : Pt) :
    InitPotGen.vertex_from_coords m p = (vertexFromCoords m p.1 p.2).map fun o => o.map fun _ => p := by
  unfold InitPotGen.vertex_from_coords
  cases h : vertexFromCoords m p.1 p.2 with
  | error e => rfl
  | ok o =>
    cases o with
    | none => rfl
    | some k =>
      unfold vertexFromCoords at h
      rcases vfc_go_found p.1 p.2 m.verts 0 none k h with h1 | ⟨_, h2⟩
      · simp at h1
      · simp only [bind, Except.bind, pure, Except.pure, Except.map, Option.bind, Option.map]
        rw [Nat.sub_zero] at h2
        rw [h2]

/-! ### `np.dot(fx, weights)` -/

theorem dot_map (R : Rule3) (F : N3 → Rat) :
    sumR (List.zipWith (fun u v => u * v) (R.map F) (R.map fun n => n.w)) = sumR (R.map fun n => F n * n.w) := by
  rw [List.zipWith_map_left, List.zipWith_map_right, List.zipWith_self]

/-! ### the loop as a fold -/

/-- what the rest of `linform` reads of the loop state `(id_bdr, touch_bdr, ips)` -/
def proj3 (st : Nat × Nat × List (Elem × Rat)) : Nat × List (Elem × Rat) := (st.1, st.2.2)

/-- the loop body in terms of the model: the count of identical cells and the list of contributions grow by the model's
`cellVal` (the dead counter `touch_bdr` is not observed) -/
def StepSpec (C : Ctx) (s : Seg) (f : Nat × Nat × List (Elem × Rat) → Elem → Except String (Nat × Nat × List (Elem × Rat))) : Prop :=
  ∀ st e, (f st e).map proj3 =
    (cellVal C s e).map fun r => (st.1 + (if r.1 then 1 else 0), st.2.2 ++ [(e, r.2)])

theorem foldlM_cells (C : Ctx) (s : Seg) (f) (hf : StepSpec C s f) : ∀ (l : List Elem) (st : Nat × Nat × List (Elem × Rat)),
    (l.foldlM f st).map proj3 =
      (l.mapM fun e => (cellVal C s e).map fun r => (e, r)).map fun rs =>
        (st.1 + (rs.filter fun c => c.2.1).length, st.2.2 ++ rs.map fun c => (c.1, c.2.2)) := by
  intro l
  induction l with
  | nil => intro st; simp [List.foldlM, List.mapM_nil, pure, Except.pure, Except.map, proj3]
  | cons e l ih =>
    intro st
    have h := hf st e
    rw [List.foldlM_cons, List.mapM_cons]
    cases hfe : f st e with
    | error err =>
      rw [hfe] at h
      cases hc : cellVal C s e with
      | error err' =>
        rw [hc] at h
        simp only [Except.map] at h
        cases h
        rfl
      | ok r => rw [hc] at h; simp [Except.map] at h
    | ok st' =>
      rw [hfe] at h
      cases hc : cellVal C s e with
      | error err' => rw [hc] at h; simp [Except.map] at h
      | ok r =>
        rw [hc] at h
        simp only [Except.map, Except.ok.injEq, proj3, Prod.mk.injEq] at h
        have ih' := ih st'
        generalize List.mapM (fun e => (cellVal C s e).map fun r => (e, r)) l = X at ih' ⊢
        simp only [bind, Except.bind, Except.map] at ih' ⊢
        rw [ih']
        cases X with
        | error err => rfl
        | ok rs =>
          simp only [pure, Except.pure, h.1, h.2, List.filter_cons, List.map_cons, List.append_assoc, List.singleton_append,
            Except.ok.injEq, Prod.mk.injEq, and_true]
          cases r.1 <;> simp
          omega

/-- the model's `cells` (contributions under the element index) from the list under the element itself -/
theorem cells_of_elems (C : Ctx) (s : Seg) (l : List Elem) :
    cells C s l = (l.mapM fun e => (cellVal C s e).map fun r => (e, r)).map fun rs => rs.map fun c => (c.1.id, c.2) := by
  unfold cells
  induction l with
  | nil => rfl
  | cons e l ih =>
    rw [List.mapM_cons, List.mapM_cons, ih]
    generalize List.mapM (fun e => (cellVal C s e).map fun r => (e, r)) l = X
    cases cellVal C s e with
    | error err => rfl
    | ok r =>
      cases X with
      | error err => rfl
      | ok rs => rfl

/-! ### `Element.connected_to_vertex` (src/initial_mesh.py): the loop with the conditional `append` is a `filter` -/

theorem connected_step (v : Pt) (st : List Pt) (w : Pt) :
    InitPotGen.Element_connected_to_vertex_loop1 v st w =
      .ok (if ((w.1 == v.1) != (w.2 == v.2)) = true then st ++ [w] else st) := by
  unfold InitPotGen.Element_connected_to_vertex_loop1
  by_cases hc : (xor (decide (w.1 = v.1)) (decide (w.2 = v.2)) = true)
  · have hc' : ((w.1 == v.1) != (w.2 == v.2)) = true := by simpa [bne, Bool.xor] using hc
    simp only [hc, hc', if_true]; rfl
  · have hc' : ((w.1 == v.1) != (w.2 == v.2)) = false := by simpa [bne, Bool.xor] using hc
    simp only [hc, hc', if_false, Bool.false_eq_true]; rfl

theorem connected_fold (v : Pt) : ∀ (l st : List Pt),
    l.foldlM (InitPotGen.Element_connected_to_vertex_loop1 v) st =
      .ok (st ++ l.filter fun w => (w.1 == v.1) != (w.2 == v.2)) := by
  intro l
  induction l with
  | nil => intro st; simp [List.foldlM, pure, Except.pure]
  | cons w l ih =>
    intro st
    rw [List.foldlM_cons, connected_step]
    simp only [bind, Except.bind]
    rw [ih, List.filter_cons]
    by_cases hc : ((w.1 == v.1) != (w.2 == v.2)) = true <;> simp [hc]

/-! ### the generated loop body -/

/-- the body of the loop of the generated `linform` (all four cell classes, their assertions, parametrisations, kernels
and Jacobians) is the model's `cellVal` -/
theorem gen_loop_spec (C : Ctx) (s : Seg) :
    StepSpec C s (InitPotGen.linform_loop1 C.fns C.rule C.u0 s.a s.b (fun x => ip_tik C.fns s.a s.b x) s.c s.d s.p0 s.p1 s.p0 s.p1) := by
  intro st e
  unfold InitPotGen.linform_loop1 cellVal cellGeom cellClass
  simp only [InitPotGen.vertices, InitPotGen.connected_to_vertex]
  by_cases h1 : s.p0 ∈ corners e ∧ s.p1 ∈ corners e
  · simp only [h1, and_self, if_true]
    cases connected e s.p0 with
    | error err => rfl
    | ok conn =>
      simp only [bind, Except.bind]
      have hf : (fun v => decide (¬ v = s.p1)) = (fun v => decide (v ≠ s.p1)) := rfl
      rw [hf]
      generalize conn.filter (fun v => decide (v ≠ s.p1)) = tmp
      rcases tmp with _ | ⟨n2, _ | ⟨n3, t⟩⟩
      · rfl
      · simp only [List.length_singleton, not_true_eq_false, if_false, InitPotGen.pyIndex, List.getElem?_cons_zero, pure, Except.pure,
          Except.map, proj3, Geom.val, identicalVal, InitPotGen.duff_3d_id, duffId, dot_map, apply3]
        rfl
      · simp [Except.map]
  · simp only [h1, if_false]
    by_cases h2 : s.p0 ∈ corners e
    · simp only [h2, if_true, touchParams]
      cases connected e s.p0 with
      | error err => rfl
      | ok conn =>
        simp only [bind, Except.bind]
        rcases conn with _ | ⟨n2, _ | ⟨n3, _ | ⟨n4, t⟩⟩⟩ <;> try rfl
        by_cases h0 : aff2 s.p0 n2 n3 0 0 = aff1 s.p0 s.p1 0
        · have h0' : InitPotGen.vadd (InitPotGen.vadd s.p0 (InitPotGen.vscale (InitPotGen.vsub n2 s.p0) 0))
              (InitPotGen.vscale (InitPotGen.vsub n3 s.p0) 0) = InitPotGen.vadd s.p0 (InitPotGen.vscale (InitPotGen.vsub s.p1 s.p0) 0) := h0
          simp only [h0, h0', ne_eq, not_true_eq_false, if_false, pure, Except.pure, Except.map, proj3, Geom.val, touchVal,
            InitPotGen.duff_3d_touch, duffTouch, apply3, inlineKernel, InitPotGen.diam]
          by_cases ha : s.a = 0
          · simp only [ha, if_true, List.zipWith_map_left, List.zipWith_map_right, List.zipWith_self, List.map_map, Function.comp_def]
            rfl
          · simp only [ha, if_false, List.zipWith_map_left, List.zipWith_map_right, List.zipWith_self, List.map_map, Function.comp_def]
            rfl
        · have h0' : ¬ InitPotGen.vadd (InitPotGen.vadd s.p0 (InitPotGen.vscale (InitPotGen.vsub n2 s.p0) 0))
              (InitPotGen.vscale (InitPotGen.vsub n3 s.p0) 0) = InitPotGen.vadd s.p0 (InitPotGen.vscale (InitPotGen.vsub s.p1 s.p0) 0) := h0
          simp only [h0, h0', ne_eq, not_false_eq_true, if_true, Except.map]
    · simp only [h2, if_false]
      by_cases h3 : s.p1 ∈ corners e
      · simp only [h3, if_true, touchParams]
        cases connected e s.p1 with
        | error err => rfl
        | ok conn =>
          simp only [bind, Except.bind]
          rcases conn with _ | ⟨n2, _ | ⟨n3, _ | ⟨n4, t⟩⟩⟩ <;> try rfl
          by_cases h0 : aff2 s.p1 n2 n3 0 0 = aff1 s.p1 s.p0 0
          · have h0' : InitPotGen.vadd (InitPotGen.vadd s.p1 (InitPotGen.vscale (InitPotGen.vsub n2 s.p1) 0))
                (InitPotGen.vscale (InitPotGen.vsub n3 s.p1) 0) = InitPotGen.vadd s.p1 (InitPotGen.vscale (InitPotGen.vsub s.p0 s.p1) 0) := h0
            simp only [h0, h0', ne_eq, not_true_eq_false, if_false, pure, Except.pure, Except.map, proj3, Geom.val, touchVal,
              InitPotGen.duff_3d_touch, duffTouch, apply3, inlineKernel, InitPotGen.diam]
            by_cases ha : s.a = 0
            · simp only [ha, if_true, List.zipWith_map_left, List.zipWith_map_right, List.zipWith_self, List.map_map, Function.comp_def]
              rfl
            · simp only [ha, if_false, List.zipWith_map_left, List.zipWith_map_right, List.zipWith_self, List.map_map, Function.comp_def]
              rfl
          · have h0' : ¬ InitPotGen.vadd (InitPotGen.vadd s.p1 (InitPotGen.vscale (InitPotGen.vsub n2 s.p1) 0))
                (InitPotGen.vscale (InitPotGen.vsub n3 s.p1) 0) = InitPotGen.vadd s.p1 (InitPotGen.vscale (InitPotGen.vsub s.p0 s.p1) 0) := h0
            simp only [h0, h0', ne_eq, not_false_eq_true, if_true, Except.map]
      · simp only [h3, if_false, pure, Except.pure, Except.map, proj3, Geom.val, touchVal, InitPotGen.duff_3d_touch, duffTouch,
          apply3, inlineKernel, InitPotGen.diam]
        by_cases ha : s.a = 0
        · simp only [ha, if_true, List.zipWith_map_left, List.zipWith_map_right, List.zipWith_self, List.map_map, Function.comp_def]
          rfl
        · simp only [ha, if_false, List.zipWith_map_left, List.zipWith_map_right, List.zipWith_self, List.map_map, Function.comp_def]
          rfl
/-! ### helpers of `Props/InitPotTie.lean` -/

/-- the per-cell list of the generated `linform` holds the elements themselves; the model (and the driver) identify an
element by its index in `InitialMesh.elements` -/
def toIds (r : Rat × List (Elem × Rat)) : Rat × List (Nat × Rat) := (r.1, r.2.map fun p => (p.1.id, p.2))

theorem mapM_range_getElem {α β : Type} (f : α → Except String β) (g : Nat → Except String β) :
    ∀ (l : List α) (k : Nat), (∀ i (h : i < l.length), g (k + i) = f l[i]) →
      (List.range' k l.length).mapM g = l.mapM f := by
  intro l
  induction l with
  | nil => intro k _; rfl
  | cons a l ih =>
    intro k h
    have h0 := h 0 (by simp)
    simp only [Nat.add_zero, List.getElem_cons_zero] at h0
    rw [List.length_cons, List.range'_succ, List.mapM_cons, List.mapM_cons, h0,
      ih (k + 1) (fun i hi => by
        have := h (i + 1) (by simp; omega)
        simpa [Nat.add_assoc, Nat.add_comm 1 i] using this)]

def qtData (m : QT) : List Elem × List Elem × List (Rat × Rat) := (m.elems, m.leaves, m.verts)
theorem qt_ext {m m' : QT} (h : qtData m = qtData m') : m = m' := by
  cases m; cases m'; simp only [qtData, Prod.mk.injEq] at h; obtain ⟨h1, h2, h3⟩ := h; subst h1 h2 h3; rfl

/-- the integrand both routines build: `1./(4 π t) · exp(−|x − y|²/(4t)) · u0(y)` (heat kernel times initial datum; `1.` is
the float literal of the source, `exp`, `π` are parameters) -/
def heatIntegrand (S : Fns) (u0 : Rat → Rat → Rat) (t : Rat) (x y : Pt) : Rat :=
  InitPotGen.c_1p / (4 * S.pi * t) * S.exp (-((x.1 - y.1) ^ 2 + (x.2 - y.2) ^ 2) / (4 * t)) * u0 y.1 y.2

theorem evaluate_mesh_loop_ok (gauss : Rule1) (f : Pt → Rat) (st : List (Elem × Rat)) (e : Elem) :
    InitPotGen.evaluate_mesh_loop1 gauss f st e =
      .ok (st ++ [(e, integrate2 (product2 gauss gauss) (fun a b => f (a, b)) e.x0 (e.x0 + e.size) e.y0 (e.y0 + e.size))]) := rfl

theorem evaluate_mesh_fold (gauss : Rule1) (f : Pt → Rat) : ∀ (l : List Elem) (st : List (Elem × Rat)),
    l.foldlM (InitPotGen.evaluate_mesh_loop1 gauss f) st =
      .ok (st ++ l.map fun e =>
        (e, integrate2 (product2 gauss gauss) (fun a b => f (a, b)) e.x0 (e.x0 + e.size) e.y0 (e.y0 + e.size))) := by
  intro l
  induction l with
  | nil => intro st; simp [List.foldlM, pure, Except.pure]
  | cons e l ih =>
    intro st
    rw [List.foldlM_cons, evaluate_mesh_loop_ok]
    simp only [bind, Except.bind]
    rw [ih]
    simp

end Stbem.InitPotTie
