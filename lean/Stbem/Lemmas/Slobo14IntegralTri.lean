import Stbem.Lemmas.Slobo14Integral

/-!
# The H^{1/4} routine on polynomials: from the reference square to the triangle `a ≤ s ≤ t ≤ a + h`

Two one-dimensional affine substitutions (`smul_integral_comp_sub_mul` for `s = t - (t - a) y` at fixed `t`,
`smul_integral_comp_add_mul` for `t = a + h x`) and pointwise identities for real powers on `[0, 1]²`
(`z² / z^{3/2} = z^{1/2}`, `y · y^{-1/2} = y^{1/2}` for `z, y ≥ 0`, both sides vanishing at `0`) turn
`∫₀¹∫₀¹ P14(x, y) x^{-1/2} y^{-1/2} dy dx` into `h^{-1/2} · 2 ∫_a^{a+h} ∫_a^t (f t - f s)² / (t - s)^{3/2} ds dt` (`0 < h`).
-/
namespace Stbem.Quad
open intervalIntegral

/-- `y · y^{-1/2} = y^{1/2}` for `y ≥ 0` -/
theorem mul_sqrtinv {y : ℝ} (hy : 0 ≤ y) : y * y ^ (-(1 / 2) : ℝ) = y ^ ((1 : ℝ) / 2) := by
  have := pow_mul_sqrtinv 1 hy
  rw [pow_one] at this
  rw [this]; norm_num

/-- `z² / z^{3/2} = z^{1/2}` for `z ≥ 0` (at `z = 0` both sides are `0`) -/
theorem sq_div_rpow {z : ℝ} (hz : 0 ≤ z) : z ^ 2 / z ^ ((3 : ℝ) / 2) = z ^ ((1 : ℝ) / 2) := by
  rcases hz.eq_or_lt with h0 | hpos
  · rw [← h0]; norm_num
  · rw [div_eq_iff (Real.rpow_pos_of_pos hpos _).ne', ← Real.rpow_add hpos]
    norm_num

/-- the Slobodeckij kernel on a polynomial, in divided-difference form, for `s ≤ t` -/
theorem kernel14_eq (cs : List Rat) {t s : ℝ} (hst : 0 ≤ t - s) :
    (evalPolyR cs t - evalPolyR cs s) ^ 2 / (t - s) ^ ((3 : ℝ) / 2) = (t - s) ^ ((1 : ℝ) / 2) * ddR cs t s ^ 2 := by
  rw [ddR_spec, mul_pow, mul_div_right_comm, sq_div_rpow hst]

/-- the inner integral over `s ∈ [a, t]`, `t = a + h x`, pulled back to `y ∈ [0, 1]` -/
theorem inner14_subst (cs : List Rat) (a h : ℝ) (hh : 0 ≤ h) {x : ℝ} (hx : 0 ≤ x) :
    (∫ s in a..a + h * x, (evalPolyR cs (a + h * x) - evalPolyR cs s) ^ 2 / (a + h * x - s) ^ ((3 : ℝ) / 2)) =
      (h * x) * (h ^ ((1 : ℝ) / 2) * x ^ ((1 : ℝ) / 2) *
        ∫ y in (0 : ℝ)..1, y ^ ((1 : ℝ) / 2) * ddR cs (a + h * x) (a + h * (x * (1 - y))) ^ 2) := by
  have sub := smul_integral_comp_sub_mul (a := (0 : ℝ)) (b := 1)
    (fun s => (evalPolyR cs (a + h * x) - evalPolyR cs s) ^ 2 / (a + h * x - s) ^ ((3 : ℝ) / 2)) (h * x) (a + h * x)
  simp only [smul_eq_mul, mul_zero, sub_zero, mul_one] at sub
  have e : a + h * x - h * x = a := by ring
  rw [e] at sub
  rw [← sub, ← integral_const_mul (h ^ ((1 : ℝ) / 2) * x ^ ((1 : ℝ) / 2))]
  congr 1
  apply integral_congr
  intro y hy
  rw [Set.uIcc_of_le zero_le_one] at hy
  have hz : 0 ≤ a + h * x - (a + h * x - h * x * y) := by
    have : a + h * x - (a + h * x - h * x * y) = h * x * y := by ring
    rw [this]; exact mul_nonneg (mul_nonneg hh hx) hy.1
  show (evalPolyR cs (a + h * x) - evalPolyR cs (a + h * x - h * x * y)) ^ 2 /
      (a + h * x - (a + h * x - h * x * y)) ^ ((3 : ℝ) / 2) = _
  rw [kernel14_eq cs hz]
  have e1 : a + h * x - (a + h * x - h * x * y) = h * x * y := by ring
  have e2 : a + h * x - h * x * y = a + h * (x * (1 - y)) := by ring
  rw [e1, e2, Real.mul_rpow (mul_nonneg hh hx) hy.1, Real.mul_rpow hh hx]
  ring

/-- **reference square → triangle** (`0 < h`) -/
theorem wI14_eq_triangle (cs : List Rat) (a h : ℝ) (hh : 0 < h) :
    wI14 (P14 cs a h) = h ^ (-(1 / 2) : ℝ) * (2 * ∫ t in a..a + h, ∫ s in a..t,
      (evalPolyR cs t - evalPolyR cs s) ^ 2 / (t - s) ^ ((3 : ℝ) / 2)) := by
  have outer := smul_integral_comp_add_mul (a := (0 : ℝ)) (b := 1)
    (fun t => ∫ s in a..t, (evalPolyR cs t - evalPolyR cs s) ^ 2 / (t - s) ^ ((3 : ℝ) / 2)) h a
  simp only [smul_eq_mul, mul_zero, add_zero, mul_one] at outer
  rw [← outer, ← integral_const_mul, ← integral_const_mul, ← integral_const_mul]
  unfold wI14
  apply integral_congr
  intro x hx
  rw [Set.uIcc_of_le zero_le_one] at hx
  show (∫ y in (0 : ℝ)..1, P14 cs a h x y * x ^ (-(1 / 2) : ℝ) * y ^ (-(1 / 2) : ℝ)) =
    h ^ (-(1 / 2) : ℝ) * (2 * (h * ∫ s in a..a + h * x,
      (evalPolyR cs (a + h * x) - evalPolyR cs s) ^ 2 / (a + h * x - s) ^ ((3 : ℝ) / 2)))
  rw [inner14_subst cs a h hh.le hx.1]
  have hhh : h ^ (-(1 / 2) : ℝ) * h ^ ((1 : ℝ) / 2) = 1 := by
    rw [← Real.rpow_add hh]; norm_num
  have lhs : ∀ y ∈ Set.uIcc (0 : ℝ) 1, P14 cs a h x y * x ^ (-(1 / 2) : ℝ) * y ^ (-(1 / 2) : ℝ) =
      (2 * h ^ 2 * x * x ^ ((1 : ℝ) / 2)) *
        (y ^ ((1 : ℝ) / 2) * ddR cs (a + h * x) (a + h * (x * (1 - y))) ^ 2) := by
    intro y hy
    rw [Set.uIcc_of_le zero_le_one] at hy
    unfold P14
    rw [← mul_sqrtinv hy.1, ← mul_sqrtinv hx.1]
    ring
  rw [integral_congr lhs, integral_const_mul]
  linear_combination (-(2 * h ^ 2 * x * x ^ ((1 : ℝ) / 2)) *
    ∫ y in (0 : ℝ)..1, y ^ ((1 : ℝ) / 2) * ddR cs (a + h * x) (a + h * (x * (1 - y))) ^ 2) * hhh

end Stbem.Quad
