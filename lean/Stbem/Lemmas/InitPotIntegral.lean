import Stbem.Lemmas.InitPotPoly
import Mathlib.Analysis.SpecialFunctions.Integrals.Basic
import Mathlib.Tactic.Continuity

/-!
# `boxInt` is the (Lebesgue / interval) integral of the polynomial over the box

`boxInt` is defined term by term from `I1 lo hi i = (hi^{i+1} − lo^{i+1})/(i+1)`.  Here it is identified with
Mathlib's iterated interval integral of the real polynomial function `evalPR` (which restricts to `evalP` on
rational arguments).
-/
namespace Stbem.InitPot
open Stbem.Quad intervalIntegral

/-- the polynomial as a function of real arguments -/
noncomputable def evalPR (ts : List Term) (x y s : ℝ) : ℝ :=
  (ts.map fun t => (t.c : ℝ) * x ^ t.i * y ^ t.j * s ^ t.k).sum

theorem sumR_cast (l : List Rat) : ((sumR l : Rat) : ℝ) = (l.map (fun q : Rat => (q : ℝ))).sum := by
  induction l with
  | nil => simp
  | cons a l ih => simp [ih]

theorem evalPR_cast (ts : List Term) (x y s : Rat) : ((evalP ts x y s : Rat) : ℝ) = evalPR ts x y s := by
  unfold evalP evalPR
  rw [sumR_cast, List.map_map]
  congr 1
  apply List.map_congr_left
  intro t _
  simp [Term.eval]

theorem continuous_list_pow {τ : Type} (l : List τ) (A : τ → ℝ) (e : τ → ℕ) :
    Continuous fun u : ℝ => (l.map fun p => A p * u ^ e p).sum := by
  induction l with
  | nil => simpa using continuous_const
  | cons q l ih =>
    simp only [List.map_cons, List.sum_cons]
    exact (by continuity : Continuous fun u : ℝ => A q * u ^ e q).add ih

/-- `∫_a^b Σ_p A_p u^{e_p} du = Σ_p A_p (b^{e_p+1} − a^{e_p+1})/(e_p+1)` -/
theorem integral_list_pow {τ : Type} (l : List τ) (A : τ → ℝ) (e : τ → ℕ) (a b : ℝ) :
    ∫ u in a..b, (l.map fun p => A p * u ^ e p).sum =
      (l.map fun p => A p * ((b ^ (e p + 1) - a ^ (e p + 1)) / ((e p : ℝ) + 1))).sum := by
  induction l with
  | nil => simp
  | cons p l ih =>
    simp only [List.map_cons, List.sum_cons]
    rw [integral_add, ih, integral_const_mul, integral_pow]
    · exact (Continuous.intervalIntegrable (by continuity) _ _)
    · exact (continuous_list_pow l A e).intervalIntegrable _ _

/-- `I1` over the reals -/
noncomputable def I1R (lo hi : ℝ) (i : ℕ) : ℝ := (hi ^ (i + 1) - lo ^ (i + 1)) / ((i : ℝ) + 1)

theorem I1_cast (lo hi : Rat) (i : ℕ) : ((I1 lo hi i : Rat) : ℝ) = I1R lo hi i := by
  unfold I1 I1R; push_cast; ring

/-- **`boxInt` is the iterated integral of the polynomial over the box** -/
theorem boxInt_eq_integral (ts : List Term) (x0 x1 y0 y1 t0 t1 : Rat) :
    ((boxInt ts x0 x1 y0 y1 t0 t1 : Rat) : ℝ) =
      ∫ x in (x0 : ℝ)..(x1 : ℝ), ∫ y in (y0 : ℝ)..(y1 : ℝ), ∫ s in (t0 : ℝ)..(t1 : ℝ), evalPR ts x y s := by
  have inner : ∀ x y : ℝ, ∫ s in (t0 : ℝ)..(t1 : ℝ), evalPR ts x y s =
      (ts.map fun t => ((t.c : ℝ) * x ^ t.i * I1R t0 t1 t.k) * y ^ t.j).sum := by
    intro x y
    unfold evalPR
    rw [integral_list_pow ts (fun t => (t.c : ℝ) * x ^ t.i * y ^ t.j) (fun t => t.k)]
    congr 1
    apply List.map_congr_left
    intro t _
    unfold I1R; ring
  have middle : ∀ x : ℝ, ∫ y in (y0 : ℝ)..(y1 : ℝ), ∫ s in (t0 : ℝ)..(t1 : ℝ), evalPR ts x y s =
      (ts.map fun t => ((t.c : ℝ) * I1R y0 y1 t.j * I1R t0 t1 t.k) * x ^ t.i).sum := by
    intro x
    simp only [inner]
    rw [integral_list_pow ts (fun t => (t.c : ℝ) * x ^ t.i * I1R t0 t1 t.k) (fun t => t.j)]
    congr 1
    apply List.map_congr_left
    intro t _
    unfold I1R; ring
  simp only [middle]
  rw [integral_list_pow ts (fun t => (t.c : ℝ) * I1R y0 y1 t.j * I1R t0 t1 t.k) (fun t => t.i)]
  unfold boxInt
  rw [sumR_cast, List.map_map]
  congr 1
  apply List.map_congr_left
  intro t _
  simp only [Function.comp, Term.boxInt]
  push_cast
  rw [I1_cast, I1_cast, I1_cast]
  unfold I1R; ring

end Stbem.InitPot
