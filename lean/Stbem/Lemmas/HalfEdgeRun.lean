import Stbem.Lemmas.HalfEdgeBisect

/-!
# H-layer: `HMesh.bisectElem` (the bisection part of `refine_axis`) in closed form

`bisectRes h el ax La Lb` is the mesh produced by `h.bisectElem el ax` when the element `el` satisfies the
preconditions `BisectPre` (which follow from `HInv`); `La`, `Lb` are the children of the refined neighbour
edges of the two bisected edges (`none` when the neighbour edge is absent or unrefined).
-/
namespace Stbem.HalfEdge
open Stbem.Mesh (Ax Side Cell Mesh)

/-- the side of the first edge of `edges_axis(ax)`: `edges[1 - ax]` -/
def bisSide : Ax → Side
  | .time => .right
  | .space => .bottom

/-- what is known about the neighbour edge of the edge `e` of element `el` -/
def LinkDesc (h : HMesh) (el e : Nat) : Option (Nat × Nat) → Prop
  | none => (h.edge e).nbr = none ∨
      ∃ f, (h.edge e).nbr = some f ∧ f < h.edges.size ∧ f ≠ e ∧ (h.edge f).kids = none
  | some (f0, f1) => ∃ f, (h.edge e).nbr = some f ∧ f < h.edges.size ∧ (∀ s, f ≠ (h.elem el).side s) ∧
      (h.edge f).kids = some (f0, f1) ∧ f0 < h.edges.size ∧ f1 < h.edges.size ∧
      (∀ s, f0 ≠ (h.elem el).side s) ∧ (∀ s, f1 ≠ (h.elem el).side s) ∧ f0 ≠ f1 ∧
      ((h.edge e).glued = false → (h.edge e).v0 = (h.edge f).v1 ∧ (h.edge e).v1 = (h.edge f).v0) ∧
      (h.edge f0).nbr = none ∧ (h.edge f1).nbr = none

structure BisectPre (h : HMesh) (el : Nat) (ax : Ax) (La Lb : Option (Nat × Nat)) : Prop where
  elr : el < h.elems.size
  nokids : (h.elem el).kids = none
  leaf : el ∈ h.leaves
  er : ∀ s, (h.elem el).side s < h.edges.size
  ed : ∀ s s', (h.elem el).side s = (h.elem el).side s' → s = s'
  own : ∀ s, (h.edge ((h.elem el).side s)).elem = some el
  unref : ∀ s, (h.edge ((h.elem el).side s)).kids = none
  vr : ∀ s, (h.edge ((h.elem el).side s)).v0 < h.verts.size
  chain : ∀ s, (h.edge ((h.elem el).side s)).v1 = (h.edge ((h.elem el).side (sideNext s))).v0
  start : ∀ s, h.pt (h.edge ((h.elem el).side s)).v0 = corner (h.cellOf el) s
  proper : (h.cellOf el).t0 < (h.cellOf el).t1 ∧ (h.cellOf el).x0 < (h.cellOf el).x1
  la : LinkDesc h el ((h.elem el).side (bisSide ax)) La
  lb : LinkDesc h el ((h.elem el).side (bisSide ax).opp) Lb
  selfOK : (h.edge ((h.elem el).side (bisSide ax).opp)).nbr = some ((h.elem el).side (bisSide ax)) →
    La = none ∧ (h.edge ((h.elem el).side (bisSide ax).opp)).glued = true
  disj : ∀ a0 a1 b0 b1, La = some (a0, a1) → Lb = some (b0, b1) → a0 ≠ b0 ∧ a0 ≠ b1 ∧ a1 ≠ b0 ∧ a1 ≠ b1
  ra : ∀ a0 a1, La = some (a0, a1) → (h.edge ((h.elem el).side (bisSide ax))).glued = false →
    (h.edge a0).v1 < h.verts.size ∧
    h.pt (h.edge a0).v1 = mid (h.pt (h.edge ((h.elem el).side (bisSide ax))).v0)
      (h.pt (h.edge ((h.elem el).side (bisSide ax))).v1)
  rb : ∀ b0 b1, Lb = some (b0, b1) → (h.edge ((h.elem el).side (bisSide ax).opp)).glued = false →
    (h.edge b0).v1 < h.verts.size ∧
    h.pt (h.edge b0).v1 = mid (h.pt (h.edge ((h.elem el).side (bisSide ax).opp)).v0)
      (h.pt (h.edge ((h.elem el).side (bisSide ax).opp)).v1)

/-- the children of the refined neighbour of the second bisected edge *at the time of its bisection*: when the
neighbour edge is the first bisected edge (single glued column), these are the two new children -/
def lbEff (h : HMesh) (el : Nat) (ax : Ax) (Lb : Option (Nat × Nat)) : Option (Nat × Nat) :=
  if (h.edge ((h.elem el).side (bisSide ax).opp)).nbr = some ((h.elem el).side (bisSide ax)) then
    some (h.edges.size, h.edges.size + 1)
  else Lb

/-- edges of the two children: `(child1, child2)` -/
def childEdges (E : HElem) (N : Nat) : Ax → (Nat × Nat × Nat × Nat) × (Nat × Nat × Nat × Nat)
  | .time => ((E.e0, N, N + 4, N + 3), (N + 5, N + 1, E.e2, N + 2))
  | .space => ((N, N + 4, N + 3, E.e3), (N + 1, E.e1, N + 2, N + 5))

def childLevels (E : HElem) : Ax → Nat × Nat
  | .time => (E.lt + 1, E.lx)
  | .space => (E.lt, E.lx + 1)

/-- the mesh after the two `__bisect_edge` calls and `__create_edges` -/
def bisectMid (h : HMesh) (el : Nat) (ax : Ax) (La Lb : Option (Nat × Nat)) : HMesh :=
  let E := h.elem el
  let ea := E.side (bisSide ax)
  let eb := E.side (bisSide ax).opp
  let h1 := clearOwners h E.e0 E.e1 E.e2 E.e3
  let h2 := bisectEdgeRes h1 ea La
  let h3 := bisectEdgeRes h2 eb (lbEff h el ax Lb)
  createEdgesRes h3 (midVertex h1 ea La) (midVertex h2 eb (lbEff h el ax Lb))

/-- the mesh after `refine_axis` has bisected `el` -/
def bisectRes (h : HMesh) (el : Nat) (ax : Ax) (La Lb : Option (Nat × Nat)) : HMesh :=
  let E := h.elem el
  let N := h.edges.size
  let M := h.elems.size
  let h4 := bisectMid h el ax La Lb
  let ce := childEdges E N ax
  let lv := childLevels E ax
  let h5 := regElem h4 ce.1.1 ce.1.2.1 ce.1.2.2.1 ce.1.2.2.2 lv.1 lv.2 (some el) h.nElems
  let h6 := regElem h5 ce.2.1 ce.2.2.1 ce.2.2.2.1 ce.2.2.2.2 lv.1 lv.2 (some el) (h.nElems + 1)
  ({ h6 with nElems := h.nElems + 2, leaves := h.leaves.filter (fun l => l != el) ++ [M, M + 1] }).setElem el
    fun E => { E with kids := some (M, M + 1) }

theorem elEdge_iff (E : HElem) (j : Nat) :
    (j = E.e0 ∨ j = E.e1 ∨ j = E.e2 ∨ j = E.e3) ↔ ∃ s, j = E.side s := by
  constructor
  · rintro (h | h | h | h)
    · exact ⟨.bottom, h⟩
    · exact ⟨.right, h⟩
    · exact ⟨.top, h⟩
    · exact ⟨.left, h⟩
  · rintro ⟨s, h⟩
    cases s
    · exact Or.inl h
    · exact Or.inr (Or.inl h)
    · exact Or.inr (Or.inr (Or.inl h))
    · exact Or.inr (Or.inr (Or.inr h))

theorem linkUpd_fields (L : Option (Nat × Nat)) (N j : Nat) (e : HEdge) :
    (linkUpd L N j e).kids = e.kids ∧ (linkUpd L N j e).v0 = e.v0 ∧ (linkUpd L N j e).v1 = e.v1 ∧
    (linkUpd L N j e).glued = e.glued ∧ (linkUpd L N j e).parent = e.parent ∧
    (linkUpd L N j e).onBoundary = e.onBoundary ∧ (linkUpd L N j e).elem = e.elem := by
  unfold linkUpd
  cases L with
  | none => exact ⟨rfl, rfl, rfl, rfl, rfl, rfl, rfl⟩
  | some p =>
    obtain ⟨f0, f1⟩ := p
    simp only
    split_ifs <;> exact ⟨rfl, rfl, rfl, rfl, rfl, rfl, rfl⟩

theorem linkUpd_not_mem {L : Option (Nat × Nat)} {N j : Nat} (e : HEdge)
    (hj : ∀ f0 f1, L = some (f0, f1) → j ≠ f0 ∧ j ≠ f1) : linkUpd L N j e = e := by
  unfold linkUpd
  cases L with
  | none => rfl
  | some p =>
    obtain ⟨f0, f1⟩ := p
    obtain ⟨a, b⟩ := hj f0 f1 rfl
    simp only [if_neg a, if_neg b]

theorem vert_of_verts_eq {h h' : HMesh} (e : h'.verts = h.verts) (v : Nat) : h'.vert v = h.vert v := by
  unfold HMesh.vert; rw [e]

theorem bisectEdgeRes_vert_lt (h : HMesh) (ei : Nat) (L : Option (Nat × Nat)) {v : Nat} (hv : v < h.verts.size) :
    (bisectEdgeRes h ei L).vert v = h.vert v := by
  have := bisectEdgeRes_verts h ei L
  split at this
  · rw [vert_of_verts_eq this, pushMid_vert_lt h ei hv]
  · rw [vert_of_verts_eq this]

theorem bisectEdgeRes_verts_size (h : HMesh) (ei : Nat) (L : Option (Nat × Nat)) :
    h.verts.size ≤ (bisectEdgeRes h ei L).verts.size ∧
    (newVertex h ei L = true → (bisectEdgeRes h ei L).verts.size = h.verts.size + 1) := by
  rw [bisectEdgeRes_verts]
  split
  · simp
  · rename_i hn; simp [hn]

theorem bisectEdgeRes_pt_new (h : HMesh) (ei : Nat) (L : Option (Nat × Nat)) (hn : newVertex h ei L = true) :
    midVertex h ei L = h.verts.size ∧
    (bisectEdgeRes h ei L).pt h.verts.size = mid (h.pt (h.edge ei).v0) (h.pt (h.edge ei).v1) := by
  refine ⟨by unfold midVertex; rw [if_pos hn], ?_⟩
  have := bisectEdgeRes_verts h ei L
  rw [if_pos hn] at this
  unfold HMesh.pt
  rw [vert_of_verts_eq this, pushMid_vert_self]
  rfl

def isElEdge (E : HElem) (j : Nat) : Prop := j = E.e0 ∨ j = E.e1 ∨ j = E.e2 ∨ j = E.e3

instance (E : HElem) (j : Nat) : Decidable (isElEdge E j) := by unfold isElEdge; infer_instance

theorem isElEdge_iff (E : HElem) (j : Nat) : isElEdge E j ↔ ∃ s, j = E.side s := elEdge_iff E j

section
variable {h : HMesh} {el : Nat} {ax : Ax} {La Lb : Option (Nat × Nat)}

/-- the mesh after the owners of the four edges have been cleared -/
def mesh1 (h : HMesh) (el : Nat) : HMesh :=
  clearOwners h (h.elem el).e0 (h.elem el).e1 (h.elem el).e2 (h.elem el).e3

theorem BisectPre.h1_edge (P : BisectPre h el ax La Lb) (j : Nat) :
    (mesh1 h el).edge j = if isElEdge (h.elem el) j then setOwner none (h.edge j) else h.edge j := by
  unfold mesh1
  rw [clearOwners_edge h (h.elem el).e0 (h.elem el).e1 (h.elem el).e2 (h.elem el).e3
    ⟨P.er .bottom, P.er .right, P.er .top, P.er .left⟩]
  rfl

theorem BisectPre.h1_edge_side (P : BisectPre h el ax La Lb) (s : Side) :
    (mesh1 h el).edge ((h.elem el).side s) = setOwner none (h.edge ((h.elem el).side s)) := by
  rw [P.h1_edge, if_pos ((isElEdge_iff _ _).mpr ⟨s, rfl⟩)]

theorem BisectPre.h1_edge_other (P : BisectPre h el ax La Lb) {j : Nat} (hj : ∀ s, j ≠ (h.elem el).side s) :
    (mesh1 h el).edge j = h.edge j := by
  rw [P.h1_edge, if_neg (by rw [isElEdge_iff]; rintro ⟨s, e⟩; exact hj s e)]

/-- `nbr`, `kids`, `v0`, `v1`, `glued`, `parent`, `onBoundary` are not touched by clearing the owners -/
theorem BisectPre.h1_fields (P : BisectPre h el ax La Lb) (j : Nat) :
    ((mesh1 h el).edge j).nbr = (h.edge j).nbr ∧ ((mesh1 h el).edge j).kids = (h.edge j).kids ∧
    ((mesh1 h el).edge j).v0 = (h.edge j).v0 ∧ ((mesh1 h el).edge j).v1 = (h.edge j).v1 ∧
    ((mesh1 h el).edge j).glued = (h.edge j).glued ∧ ((mesh1 h el).edge j).parent = (h.edge j).parent ∧
    ((mesh1 h el).edge j).onBoundary = (h.edge j).onBoundary := by
  rw [P.h1_edge]
  split <;> exact ⟨rfl, rfl, rfl, rfl, rfl, rfl, rfl⟩

theorem linkInfo_of_desc (P : BisectPre h el ax La Lb) (s : Side) (L : Option (Nat × Nat))
    (hl : LinkDesc h el ((h.elem el).side s) L) : LinkInfo (mesh1 h el) ((h.elem el).side s) L := by
  have hsz : (mesh1 h el).edges.size = h.edges.size := by unfold mesh1; simp
  cases L with
  | none =>
    rcases hl with hl | ⟨f, hn, hf, hne, hk⟩
    · exact Or.inl (by rw [(P.h1_fields _).1]; exact hl)
    · exact Or.inr ⟨f, by rw [(P.h1_fields _).1]; exact hn, hne, by rw [(P.h1_fields _).2.1]; exact hk⟩
  | some p =>
    obtain ⟨f0, f1⟩ := p
    obtain ⟨f, hn, hf, hne, hk, r0, r1, n0, n1, hd, hv, z0, z1⟩ := hl
    refine ⟨f, by rw [(P.h1_fields _).1]; exact hn, by rw [hsz]; exact hf, hne s,
      by rw [(P.h1_fields _).2.1]; exact hk, by rw [hsz]; exact r0, by rw [hsz]; exact r1, n0 s, n1 s, ?_,
      by rw [(P.h1_fields _).1]; exact z0, by rw [(P.h1_fields _).1]; exact z1⟩
    simp only [(P.h1_fields _).2.2.2.2.1, (P.h1_fields _).2.2.1, (P.h1_fields _).2.2.2.1]
    exact hv

/-- after the first `__bisect_edge` -/
def mesh2 (h : HMesh) (el : Nat) (ax : Ax) (La : Option (Nat × Nat)) : HMesh :=
  bisectEdgeRes (mesh1 h el) ((h.elem el).side (bisSide ax)) La

theorem mesh1_size (h : HMesh) (el : Nat) : (mesh1 h el).edges.size = h.edges.size := by
  unfold mesh1; simp

theorem mesh2_size (h : HMesh) (el : Nat) (ax : Ax) (La : Option (Nat × Nat)) :
    (mesh2 h el ax La).edges.size = h.edges.size + 2 := by
  unfold mesh2; rw [bisectEdgeRes_size, mesh1_size]

theorem BisectPre.side_ne (P : BisectPre h el ax La Lb) {s s' : Side} (hne : s ≠ s') :
    (h.elem el).side s ≠ (h.elem el).side s' := fun e => hne (P.ed s s' e)

theorem BisectPre.la_distinct (P : BisectPre h el ax La Lb) : ∀ f0 f1, La = some (f0, f1) → f0 ≠ f1 := by
  intro f0 f1 e
  have := P.la
  rw [e] at this
  obtain ⟨f, -, -, -, -, -, -, -, -, hd, -⟩ := this
  exact hd

theorem BisectPre.h2_edge (P : BisectPre h el ax La Lb) (j : Nat) :
    (mesh2 h el ax La).edge j =
      if j = h.edges.size then
        { kidEdge (mesh1 h el) ((h.elem el).side (bisSide ax)) ((mesh1 h el).edge ((h.elem el).side (bisSide ax))).v0
            (midVertex (mesh1 h el) ((h.elem el).side (bisSide ax)) La) with nbr := La.map (·.2) }
      else if j = h.edges.size + 1 then
        { kidEdge (mesh1 h el) ((h.elem el).side (bisSide ax))
            (midVertex (mesh1 h el) ((h.elem el).side (bisSide ax)) La)
            ((mesh1 h el).edge ((h.elem el).side (bisSide ax))).v1 with nbr := La.map (·.1) }
      else if j = (h.elem el).side (bisSide ax) then
        setKids (h.edges.size, h.edges.size + 1) ((mesh1 h el).edge ((h.elem el).side (bisSide ax)))
      else linkUpd La h.edges.size j ((mesh1 h el).edge j) := by
  unfold mesh2
  rw [bisectEdgeRes_edge (mesh1 h el) (by rw [mesh1_size]; exact P.er _) La
    (linkInfo_of_desc P _ La P.la) P.la_distinct, mesh1_size]

theorem BisectPre.la_not_side (P : BisectPre h el ax La Lb) (s : Side) :
    ∀ f0 f1, La = some (f0, f1) → (h.elem el).side s ≠ f0 ∧ (h.elem el).side s ≠ f1 := by
  intro f0 f1 e
  have := P.la
  rw [e] at this
  obtain ⟨f, -, -, -, -, -, -, n0, n1, -⟩ := this
  exact ⟨(n0 s).symm, (n1 s).symm⟩

theorem BisectPre.lb_not_side (P : BisectPre h el ax La Lb) (s : Side) :
    ∀ f0 f1, Lb = some (f0, f1) → (h.elem el).side s ≠ f0 ∧ (h.elem el).side s ≠ f1 := by
  intro f0 f1 e
  have := P.lb
  rw [e] at this
  obtain ⟨f, -, -, -, -, -, -, n0, n1, -⟩ := this
  exact ⟨(n0 s).symm, (n1 s).symm⟩

/-- old edges other than the bisected one after the first `__bisect_edge` -/
theorem BisectPre.h2_edge_old (P : BisectPre h el ax La Lb) {j : Nat} (hj : j < h.edges.size)
    (hne : j ≠ (h.elem el).side (bisSide ax)) :
    (mesh2 h el ax La).edge j = linkUpd La h.edges.size j ((mesh1 h el).edge j) := by
  rw [P.h2_edge, if_neg (by omega), if_neg (by omega), if_neg hne]

theorem BisectPre.h2_edge_side (P : BisectPre h el ax La Lb) {s : Side} (hne : s ≠ bisSide ax) :
    (mesh2 h el ax La).edge ((h.elem el).side s) = setOwner none (h.edge ((h.elem el).side s)) := by
  rw [P.h2_edge_old (P.er s) (P.side_ne hne), linkUpd_not_mem _ (P.la_not_side s), P.h1_edge_side]

/-- `lbEff` in the two cases -/
theorem lbEff_self {h : HMesh} {el : Nat} {ax : Ax} (Lb : Option (Nat × Nat))
    (hs : (h.edge ((h.elem el).side (bisSide ax).opp)).nbr = some ((h.elem el).side (bisSide ax))) :
    lbEff h el ax Lb = some (h.edges.size, h.edges.size + 1) := by
  unfold lbEff; rw [if_pos hs]

theorem lbEff_other {h : HMesh} {el : Nat} {ax : Ax} (Lb : Option (Nat × Nat))
    (hs : ¬ (h.edge ((h.elem el).side (bisSide ax).opp)).nbr = some ((h.elem el).side (bisSide ax))) :
    lbEff h el ax Lb = Lb := by
  unfold lbEff; rw [if_neg hs]

theorem bisSide_opp_ne (ax : Ax) : (bisSide ax).opp ≠ bisSide ax := by cases ax <;> simp [bisSide, Side.opp]

theorem BisectPre.linkInfo2 (P : BisectPre h el ax La Lb) :
    LinkInfo (mesh2 h el ax La) ((h.elem el).side (bisSide ax).opp) (lbEff h el ax Lb) := by
  have hsz := mesh2_size h el ax La
  have heb := P.h2_edge_side (bisSide_opp_ne ax)
  by_cases hs : (h.edge ((h.elem el).side (bisSide ax).opp)).nbr = some ((h.elem el).side (bisSide ax))
  · rw [lbEff_self Lb hs]
    obtain ⟨hla, hgl⟩ := P.selfOK hs
    refine ⟨(h.elem el).side (bisSide ax), by rw [heb]; exact hs, by rw [hsz]; have := P.er (bisSide ax); omega,
      (P.side_ne (bisSide_opp_ne ax)).symm, ?_, by rw [hsz]; omega, by rw [hsz]; omega, ?_, ?_, ?_, ?_, ?_⟩
    · rw [P.h2_edge, if_neg (by have := P.er (bisSide ax); omega), if_neg (by have := P.er (bisSide ax); omega),
        if_pos rfl]
      rfl
    · have := P.er (bisSide ax).opp; omega
    · have := P.er (bisSide ax).opp; omega
    · intro hg; rw [heb] at hg; simp only [setOwner_glued] at hg; rw [hgl] at hg; cases hg
    · rw [P.h2_edge, if_pos rfl, hla]; rfl
    · rw [P.h2_edge, if_neg (by omega), if_pos rfl, hla]; rfl
  · rw [lbEff_other Lb hs]
    have hlb := P.lb
    cases Lb with
    | none =>
      rcases hlb with hn | ⟨f, hn, hf, hne, hk⟩
      · exact Or.inl (by rw [heb]; exact hn)
      · refine Or.inr ⟨f, by rw [heb]; exact hn, hne, ?_⟩
        have hfa : f ≠ (h.elem el).side (bisSide ax) := by
          rintro rfl; exact hs hn
        rw [P.h2_edge_old hf hfa, (linkUpd_fields _ _ _ _).1, (P.h1_fields f).2.1]
        exact hk
    | some p =>
      obtain ⟨b0, b1⟩ := p
      obtain ⟨f, hn, hf, hne, hk, r0, r1, n0, n1, hd, hv, z0, z1⟩ := hlb
      have e_f : (mesh2 h el ax La).edge f = linkUpd La h.edges.size f ((mesh1 h el).edge f) :=
        P.h2_edge_old hf (hne _)
      refine ⟨f, by rw [heb]; exact hn, by rw [hsz]; omega, hne _, ?_, by rw [hsz]; omega, by rw [hsz]; omega,
        n0 _, n1 _, ?_, ?_, ?_⟩
      · rw [e_f, (linkUpd_fields _ _ _ _).1, (P.h1_fields f).2.1]; exact hk
      · rw [heb, e_f]
        simp only [setOwner_glued, setOwner_v0, setOwner_v1, (linkUpd_fields _ _ _ _).2.1,
          (linkUpd_fields _ _ _ _).2.2.1, (P.h1_fields f).2.2.1, (P.h1_fields f).2.2.2.1]
        exact hv
      · rw [P.h2_edge_old r0 (n0 _), linkUpd_not_mem, P.h1_edge_other n0]
        · exact z0
        · intro a0 a1 e
          obtain ⟨d1, d2, d3, d4⟩ := P.disj a0 a1 b0 b1 e rfl
          exact ⟨d1.symm, d3.symm⟩
      · rw [P.h2_edge_old r1 (n1 _), linkUpd_not_mem, P.h1_edge_other n1]
        · exact z1
        · intro a0 a1 e
          obtain ⟨d1, d2, d3, d4⟩ := P.disj a0 a1 b0 b1 e rfl
          exact ⟨d2.symm, d4.symm⟩

def mesh3 (h : HMesh) (el : Nat) (ax : Ax) (La Lb : Option (Nat × Nat)) : HMesh :=
  bisectEdgeRes (mesh2 h el ax La) ((h.elem el).side (bisSide ax).opp) (lbEff h el ax Lb)

/-- the two new vertices -/
def vtxA (h : HMesh) (el : Nat) (ax : Ax) (La : Option (Nat × Nat)) : Nat :=
  midVertex (mesh1 h el) ((h.elem el).side (bisSide ax)) La
def vtxB (h : HMesh) (el : Nat) (ax : Ax) (La Lb : Option (Nat × Nat)) : Nat :=
  midVertex (mesh2 h el ax La) ((h.elem el).side (bisSide ax).opp) (lbEff h el ax Lb)

theorem mesh3_size (h : HMesh) (el : Nat) (ax : Ax) (La Lb : Option (Nat × Nat)) :
    (mesh3 h el ax La Lb).edges.size = h.edges.size + 4 := by
  unfold mesh3; rw [bisectEdgeRes_size, mesh2_size]

theorem mesh1_verts (h : HMesh) (el : Nat) : (mesh1 h el).verts = h.verts := rfl

theorem mesh2_vert_lt (h : HMesh) (el : Nat) (ax : Ax) (La : Option (Nat × Nat)) {v : Nat}
    (hv : v < h.verts.size) : (mesh2 h el ax La).vert v = h.vert v := by
  unfold mesh2
  rw [bisectEdgeRes_vert_lt _ _ _ (by rw [mesh1_verts]; exact hv)]
  rfl

theorem mesh2_verts_le (h : HMesh) (el : Nat) (ax : Ax) (La : Option (Nat × Nat)) :
    h.verts.size ≤ (mesh2 h el ax La).verts.size := by
  unfold mesh2
  have := (bisectEdgeRes_verts_size (mesh1 h el) ((h.elem el).side (bisSide ax)) La).1
  rwa [mesh1_verts] at this

theorem mesh3_vert_lt2 (h : HMesh) (el : Nat) (ax : Ax) (La Lb : Option (Nat × Nat)) {v : Nat}
    (hv : v < (mesh2 h el ax La).verts.size) : (mesh3 h el ax La Lb).vert v = (mesh2 h el ax La).vert v := by
  unfold mesh3
  rw [bisectEdgeRes_vert_lt _ _ _ hv]

theorem mesh3_vert_lt (h : HMesh) (el : Nat) (ax : Ax) (La Lb : Option (Nat × Nat)) {v : Nat}
    (hv : v < h.verts.size) : (mesh3 h el ax La Lb).vert v = h.vert v := by
  rw [mesh3_vert_lt2 _ _ _ _ _ (lt_of_lt_of_le hv (mesh2_verts_le h el ax La)), mesh2_vert_lt _ _ _ _ hv]

theorem mesh3_verts_le (h : HMesh) (el : Nat) (ax : Ax) (La Lb : Option (Nat × Nat)) :
    (mesh2 h el ax La).verts.size ≤ (mesh3 h el ax La Lb).verts.size := by
  unfold mesh3
  exact (bisectEdgeRes_verts_size _ _ _).1

theorem pt_of_vert {h h' : HMesh} {v w : Nat} (e : h'.vert v = h.vert w) : h'.pt v = h.pt w := by
  unfold HMesh.pt; rw [e]

/-- the first new vertex is the mid point of the first bisected edge -/
theorem BisectPre.ptA (P : BisectPre h el ax La Lb) :
    vtxA h el ax La < (mesh2 h el ax La).verts.size ∧
    (mesh3 h el ax La Lb).pt (vtxA h el ax La) =
      mid (h.pt (h.edge ((h.elem el).side (bisSide ax))).v0) (h.pt (h.edge ((h.elem el).side (bisSide ax))).v1) := by
  have hv0 := P.vr (bisSide ax)
  have hv1 : (h.edge ((h.elem el).side (bisSide ax))).v1 < h.verts.size := by rw [P.chain]; exact P.vr _
  unfold vtxA
  cases hn : newVertex (mesh1 h el) ((h.elem el).side (bisSide ax)) La
  · -- reuse
    cases hLa : La with
    | none => rw [hLa] at hn; simp [newVertex] at hn
    | some p =>
      obtain ⟨a0, a1⟩ := p
      have hg : (h.edge ((h.elem el).side (bisSide ax))).glued = false := by
        rw [hLa] at hn
        simp only [newVertex, Option.isNone_some, Bool.false_or] at hn
        rw [← (P.h1_fields _).2.2.2.2.1]; exact hn
      obtain ⟨r, hp⟩ := P.ra a0 a1 hLa hg
      have hmv : midVertex (mesh1 h el) ((h.elem el).side (bisSide ax)) (some (a0, a1)) = (h.edge a0).v1 := by
        unfold midVertex
        rw [← hLa, if_neg (by rw [hn]; simp), hLa]
        simp only
        rw [(P.h1_fields a0).2.2.2.1]
      rw [hmv]
      refine ⟨lt_of_lt_of_le r (mesh2_verts_le h el ax _), ?_⟩
      rw [pt_of_vert (mesh3_vert_lt h el ax _ Lb r), hp]
  · obtain ⟨e1, e2⟩ := bisectEdgeRes_pt_new (mesh1 h el) ((h.elem el).side (bisSide ax)) La hn
    rw [e1, mesh1_verts]
    have hsz : (mesh2 h el ax La).verts.size = h.verts.size + 1 := by
      unfold mesh2
      rw [(bisectEdgeRes_verts_size _ _ _).2 hn, mesh1_verts]
    refine ⟨by rw [hsz]; omega, ?_⟩
    rw [pt_of_vert (mesh3_vert_lt2 h el ax La Lb (by rw [hsz]; omega))]
    rw [mesh1_verts] at e2
    unfold mesh2
    rw [e2, (P.h1_fields _).2.2.1, (P.h1_fields _).2.2.2.1]
    rfl

theorem BisectPre.h2_fields_side (P : BisectPre h el ax La Lb) (s : Side) :
    ((mesh2 h el ax La).edge ((h.elem el).side s)).v0 = (h.edge ((h.elem el).side s)).v0 ∧
    ((mesh2 h el ax La).edge ((h.elem el).side s)).v1 = (h.edge ((h.elem el).side s)).v1 ∧
    ((mesh2 h el ax La).edge ((h.elem el).side s)).glued = (h.edge ((h.elem el).side s)).glued ∧
    ((mesh2 h el ax La).edge ((h.elem el).side s)).onBoundary = (h.edge ((h.elem el).side s)).onBoundary ∧
    ((mesh2 h el ax La).edge ((h.elem el).side s)).parent = (h.edge ((h.elem el).side s)).parent ∧
    ((mesh2 h el ax La).edge ((h.elem el).side s)).nbr = (h.edge ((h.elem el).side s)).nbr := by
  by_cases hs : s = bisSide ax
  · subst hs
    rw [P.h2_edge, if_neg (by have := P.er (bisSide ax); omega), if_neg (by have := P.er (bisSide ax); omega),
      if_pos rfl, P.h1_edge_side]
    exact ⟨rfl, rfl, rfl, rfl, rfl, rfl⟩
  · rw [P.h2_edge_side hs]
    exact ⟨rfl, rfl, rfl, rfl, rfl, rfl⟩

theorem BisectPre.not_self_of_lb (P : BisectPre h el ax La Lb) {b0 b1 : Nat} (hLb : Lb = some (b0, b1)) :
    ¬ (h.edge ((h.elem el).side (bisSide ax).opp)).nbr = some ((h.elem el).side (bisSide ax)) := by
  intro hs
  have := P.lb
  rw [hLb] at this
  obtain ⟨f, hn, -, hne, -⟩ := this
  rw [hs] at hn
  cases hn
  exact hne _ rfl

/-- the second new vertex is the mid point of the second bisected edge -/
theorem BisectPre.ptB (P : BisectPre h el ax La Lb) :
    vtxB h el ax La Lb < (mesh3 h el ax La Lb).verts.size ∧
    (mesh3 h el ax La Lb).pt (vtxB h el ax La Lb) =
      mid (h.pt (h.edge ((h.elem el).side (bisSide ax).opp)).v0)
        (h.pt (h.edge ((h.elem el).side (bisSide ax).opp)).v1) := by
  have hv0 := P.vr (bisSide ax).opp
  have hv1 : (h.edge ((h.elem el).side (bisSide ax).opp)).v1 < h.verts.size := by rw [P.chain]; exact P.vr _
  obtain ⟨f0, f1, f2, -⟩ := P.h2_fields_side (bisSide ax).opp
  unfold vtxB
  cases hn : newVertex (mesh2 h el ax La) ((h.elem el).side (bisSide ax).opp) (lbEff h el ax Lb)
  · -- reuse: not the self-neighbour case
    have hg : (h.edge ((h.elem el).side (bisSide ax).opp)).glued = false := by
      simp only [newVertex, Bool.or_eq_false_iff] at hn
      rw [← f2]; exact hn.2
    have hns : ¬ (h.edge ((h.elem el).side (bisSide ax).opp)).nbr = some ((h.elem el).side (bisSide ax)) := by
      intro hs
      rw [(P.selfOK hs).2] at hg; cases hg
    rw [lbEff_other Lb hns] at hn ⊢
    cases hLb : Lb with
    | none => rw [hLb] at hn; simp [newVertex] at hn
    | some p =>
      obtain ⟨b0, b1⟩ := p
      obtain ⟨r, hp⟩ := P.rb b0 b1 hLb hg
      have hlb := P.lb
      rw [hLb] at hlb
      obtain ⟨f, -, -, -, -, r0, -, n0, -⟩ := hlb
      have hmv : midVertex (mesh2 h el ax La) ((h.elem el).side (bisSide ax).opp) (some (b0, b1)) =
          (h.edge b0).v1 := by
        unfold midVertex
        rw [← hLb, if_neg (by rw [hn]; simp), hLb]
        simp only
        rw [P.h2_edge_old r0 (n0 _), (linkUpd_fields _ _ _ _).2.2.1, (P.h1_fields b0).2.2.2.1]
      rw [hmv]
      refine ⟨lt_of_lt_of_le r (le_trans (mesh2_verts_le h el ax _) (mesh3_verts_le h el ax La _)), ?_⟩
      rw [pt_of_vert (mesh3_vert_lt h el ax _ _ r), hp]
  · obtain ⟨e1, e2⟩ := bisectEdgeRes_pt_new (mesh2 h el ax La) ((h.elem el).side (bisSide ax).opp)
      (lbEff h el ax Lb) hn
    rw [e1]
    have hsz : (mesh3 h el ax La Lb).verts.size = (mesh2 h el ax La).verts.size + 1 := by
      unfold mesh3
      rw [(bisectEdgeRes_verts_size _ _ _).2 hn]
    refine ⟨by rw [hsz]; omega, ?_⟩
    unfold mesh3
    rw [e2, f0, f1]
    unfold HMesh.pt mid
    rw [mesh2_vert_lt _ _ _ _ hv0, mesh2_vert_lt _ _ _ _ hv1]

theorem BisectPre.lbEff_distinct (P : BisectPre h el ax La Lb) :
    ∀ f0 f1, lbEff h el ax Lb = some (f0, f1) → f0 ≠ f1 := by
  intro f0 f1 e
  unfold lbEff at e
  split at e
  · cases e; omega
  · have := P.lb
    rw [e] at this
    obtain ⟨f, -, -, -, -, -, -, -, -, hd, -⟩ := this
    exact hd

theorem BisectPre.h3_edge (P : BisectPre h el ax La Lb) (j : Nat) :
    (mesh3 h el ax La Lb).edge j =
      if j = h.edges.size + 2 then
        { kidEdge (mesh2 h el ax La) ((h.elem el).side (bisSide ax).opp)
            ((mesh2 h el ax La).edge ((h.elem el).side (bisSide ax).opp)).v0 (vtxB h el ax La Lb) with
          nbr := (lbEff h el ax Lb).map (·.2) }
      else if j = h.edges.size + 2 + 1 then
        { kidEdge (mesh2 h el ax La) ((h.elem el).side (bisSide ax).opp) (vtxB h el ax La Lb)
            ((mesh2 h el ax La).edge ((h.elem el).side (bisSide ax).opp)).v1 with
          nbr := (lbEff h el ax Lb).map (·.1) }
      else if j = (h.elem el).side (bisSide ax).opp then
        setKids (h.edges.size + 2, h.edges.size + 2 + 1) ((mesh2 h el ax La).edge ((h.elem el).side (bisSide ax).opp))
      else linkUpd (lbEff h el ax Lb) (h.edges.size + 2) j ((mesh2 h el ax La).edge j) := by
  unfold mesh3 vtxB
  rw [bisectEdgeRes_edge (mesh2 h el ax La) (by rw [mesh2_size]; have := P.er (bisSide ax).opp; omega) _
    P.linkInfo2 P.lbEff_distinct, mesh2_size]

/-- the mesh after `__create_edges` -/
def mesh4 (h : HMesh) (el : Nat) (ax : Ax) (La Lb : Option (Nat × Nat)) : HMesh :=
  createEdgesRes (mesh3 h el ax La Lb) (vtxA h el ax La) (vtxB h el ax La Lb)

theorem mesh4_eq (h : HMesh) (el : Nat) (ax : Ax) (La Lb : Option (Nat × Nat)) :
    bisectMid h el ax La Lb = mesh4 h el ax La Lb := rfl

theorem mesh4_size (h : HMesh) (el : Nat) (ax : Ax) (La Lb : Option (Nat × Nat)) :
    (mesh4 h el ax La Lb).edges.size = h.edges.size + 6 := by
  unfold mesh4; rw [createEdgesRes_size, mesh3_size]

theorem BisectPre.h4_edge (_P : BisectPre h el ax La Lb) (j : Nat) :
    (mesh4 h el ax La Lb).edge j =
      if j = h.edges.size + 4 then { v0 := vtxA h el ax La, v1 := vtxB h el ax La Lb, nbr := some (h.edges.size + 4 + 1) }
      else if j = h.edges.size + 4 + 1 then
        { v0 := vtxB h el ax La Lb, v1 := vtxA h el ax La, nbr := some (h.edges.size + 4) }
      else (mesh3 h el ax La Lb).edge j := by
  unfold mesh4
  rw [createEdgesRes_edge, mesh3_size]

theorem BisectPre.seg (P : BisectPre h el ax La Lb) (s : Side) :
    h.pt (h.edge ((h.elem el).side s)).v0 = corner (h.cellOf el) s ∧
    h.pt (h.edge ((h.elem el).side s)).v1 = corner (h.cellOf el) (sideNext s) :=
  ⟨P.start s, by rw [P.chain s, P.start]⟩

theorem BisectPre.v1r (P : BisectPre h el ax La Lb) (s : Side) :
    (h.edge ((h.elem el).side s)).v1 < h.verts.size := by rw [P.chain]; exact P.vr _

/-- an edge of the element is parallel to exactly one axis -/
theorem BisectPre.xor (P : BisectPre h el ax La Lb) (s : Side) :
    ((h.vert (h.edge ((h.elem el).side s)).v0).t = (h.vert (h.edge ((h.elem el).side s)).v1).t ∧
      (h.vert (h.edge ((h.elem el).side s)).v0).x ≠ (h.vert (h.edge ((h.elem el).side s)).v1).x) ∨
    ((h.vert (h.edge ((h.elem el).side s)).v0).t ≠ (h.vert (h.edge ((h.elem el).side s)).v1).t ∧
      (h.vert (h.edge ((h.elem el).side s)).v0).x = (h.vert (h.edge ((h.elem el).side s)).v1).x) := by
  obtain ⟨a, b⟩ := P.seg s
  obtain ⟨p1, p2⟩ := P.proper
  unfold HMesh.pt at a b
  have a1 := congrArg Prod.fst a; have a2 := congrArg Prod.snd a
  have b1 := congrArg Prod.fst b; have b2 := congrArg Prod.snd b
  simp only at a1 a2 b1 b2
  rw [a1, a2, b1, b2]
  have q1 := ne_of_lt p1; have q2 := ne_of_lt p2
  have q3 := ne_of_gt p1; have q4 := ne_of_gt p2
  cases s <;> simp [corner, sideNext, q1, q2, q3, q4]

theorem createEdges_eq' (h : HMesh) (va vb : Nat) :
    h.createEdges va vb = (createEdgesRes h va vb, h.edges.size, h.edges.size + 1) := by
  unfold createEdgesRes; rw [createEdges_eq]

theorem BisectPre.run1 (P : BisectPre h el ax La Lb) :
    (mesh1 h el).bisectEdge ((h.elem el).side (bisSide ax)) = .ok (mesh2 h el ax La, vtxA h el ax La) := by
  have hx := P.xor (bisSide ax)
  rw [bisectEdge_ok (mesh1 h el) (by rw [mesh1_size]; exact P.er _)
    (by rw [(P.h1_fields _).2.1]; exact P.unref _) La (linkInfo_of_desc P _ La P.la)
    (by
      intro _
      rw [(P.h1_fields _).2.2.1, (P.h1_fields _).2.2.2.1]
      exact hx)]
  rfl

theorem BisectPre.run2 (P : BisectPre h el ax La Lb) :
    (mesh2 h el ax La).bisectEdge ((h.elem el).side (bisSide ax).opp) =
      .ok (mesh3 h el ax La Lb, vtxB h el ax La Lb) := by
  have hx := P.xor (bisSide ax).opp
  obtain ⟨f0, f1, -⟩ := P.h2_fields_side (bisSide ax).opp
  rw [bisectEdge_ok (mesh2 h el ax La) (by rw [mesh2_size]; have := P.er (bisSide ax).opp; omega)
    (by rw [P.h2_edge_side (bisSide_opp_ne ax)]; exact P.unref _) _ P.linkInfo2
    (by
      intro _
      rw [f0, f1, mesh2_vert_lt _ _ _ _ (P.vr _), mesh2_vert_lt _ _ _ _ (P.v1r _)]
      exact hx)]
  rfl

theorem BisectPre.lbEff_not_side (P : BisectPre h el ax La Lb) (s : Side) :
    ∀ f0 f1, lbEff h el ax Lb = some (f0, f1) → (h.elem el).side s ≠ f0 ∧ (h.elem el).side s ≠ f1 := by
  intro f0 f1 e
  unfold lbEff at e
  split at e
  · cases e
    have := P.er s
    constructor <;> omega
  · exact P.lb_not_side s f0 f1 e

/-- the edges of `el` after `__create_edges` -/
theorem BisectPre.h4_side (P : BisectPre h el ax La Lb) (s : Side) :
    (mesh4 h el ax La Lb).edge ((h.elem el).side s) =
      if s = (bisSide ax).opp then
        setKids (h.edges.size + 2, h.edges.size + 2 + 1) (setOwner none (h.edge ((h.elem el).side s)))
      else if s = bisSide ax then
        setKids (h.edges.size, h.edges.size + 1) (setOwner none (h.edge ((h.elem el).side s)))
      else setOwner none (h.edge ((h.elem el).side s)) := by
  have hr := P.er s
  rw [P.h4_edge, if_neg (by omega), if_neg (by omega), P.h3_edge, if_neg (by omega), if_neg (by omega)]
  by_cases h1 : s = (bisSide ax).opp
  · subst h1
    rw [if_pos rfl, if_pos rfl, P.h2_edge_side (bisSide_opp_ne ax)]
  · rw [if_neg (P.side_ne h1), if_neg h1, linkUpd_not_mem _ (P.lbEff_not_side s)]
    by_cases h2 : s = bisSide ax
    · subst h2
      rw [if_pos rfl, P.h2_edge, if_neg (by omega), if_neg (by omega), if_pos rfl, P.h1_edge_side]
    · rw [if_neg h2, P.h2_edge_side h2]

/-- geometry / ownership fields of the six new edges after `__create_edges` -/
theorem BisectPre.h4_new (P : BisectPre h el ax La Lb) :
    (∀ k, k < 6 → ((mesh4 h el ax La Lb).edge (h.edges.size + k)).elem = none ∧
      ((mesh4 h el ax La Lb).edge (h.edges.size + k)).kids = none) ∧
    ((mesh4 h el ax La Lb).edge h.edges.size).v0 = (h.edge ((h.elem el).side (bisSide ax))).v0 ∧
    ((mesh4 h el ax La Lb).edge h.edges.size).v1 = vtxA h el ax La ∧
    ((mesh4 h el ax La Lb).edge (h.edges.size + 1)).v0 = vtxA h el ax La ∧
    ((mesh4 h el ax La Lb).edge (h.edges.size + 1)).v1 = (h.edge ((h.elem el).side (bisSide ax))).v1 ∧
    ((mesh4 h el ax La Lb).edge (h.edges.size + 2)).v0 = (h.edge ((h.elem el).side (bisSide ax).opp)).v0 ∧
    ((mesh4 h el ax La Lb).edge (h.edges.size + 2)).v1 = vtxB h el ax La Lb ∧
    ((mesh4 h el ax La Lb).edge (h.edges.size + 3)).v0 = vtxB h el ax La Lb ∧
    ((mesh4 h el ax La Lb).edge (h.edges.size + 3)).v1 = (h.edge ((h.elem el).side (bisSide ax).opp)).v1 ∧
    ((mesh4 h el ax La Lb).edge (h.edges.size + 4)).v0 = vtxA h el ax La ∧
    ((mesh4 h el ax La Lb).edge (h.edges.size + 4)).v1 = vtxB h el ax La Lb ∧
    ((mesh4 h el ax La Lb).edge (h.edges.size + 5)).v0 = vtxB h el ax La Lb ∧
    ((mesh4 h el ax La Lb).edge (h.edges.size + 5)).v1 = vtxA h el ax La := by
  have ra := P.er (bisSide ax)
  have rb := P.er (bisSide ax).opp
  obtain ⟨f0, f1, -⟩ := P.h2_fields_side (bisSide ax).opp
  have e0 : (mesh4 h el ax La Lb).edge h.edges.size = linkUpd (lbEff h el ax Lb) (h.edges.size + 2) h.edges.size
      { kidEdge (mesh1 h el) ((h.elem el).side (bisSide ax)) ((mesh1 h el).edge ((h.elem el).side (bisSide ax))).v0
          (vtxA h el ax La) with nbr := La.map (·.2) } := by
    rw [P.h4_edge, if_neg (by omega), if_neg (by omega), P.h3_edge, if_neg (by omega), if_neg (by omega),
      if_neg (by omega), P.h2_edge, if_pos rfl]
    rfl
  have e1 : (mesh4 h el ax La Lb).edge (h.edges.size + 1) =
      linkUpd (lbEff h el ax Lb) (h.edges.size + 2) (h.edges.size + 1)
      { kidEdge (mesh1 h el) ((h.elem el).side (bisSide ax)) (vtxA h el ax La)
          ((mesh1 h el).edge ((h.elem el).side (bisSide ax))).v1 with nbr := La.map (·.1) } := by
    rw [P.h4_edge, if_neg (by omega), if_neg (by omega), P.h3_edge, if_neg (by omega), if_neg (by omega),
      if_neg (by omega), P.h2_edge, if_neg (by omega), if_pos rfl]
    rfl
  have e2 : (mesh4 h el ax La Lb).edge (h.edges.size + 2) =
      { kidEdge (mesh2 h el ax La) ((h.elem el).side (bisSide ax).opp)
          ((mesh2 h el ax La).edge ((h.elem el).side (bisSide ax).opp)).v0 (vtxB h el ax La Lb) with
        nbr := (lbEff h el ax Lb).map (·.2) } := by
    rw [P.h4_edge, if_neg (by omega), if_neg (by omega), P.h3_edge, if_pos rfl]
  have e3 : (mesh4 h el ax La Lb).edge (h.edges.size + 3) =
      { kidEdge (mesh2 h el ax La) ((h.elem el).side (bisSide ax).opp) (vtxB h el ax La Lb)
          ((mesh2 h el ax La).edge ((h.elem el).side (bisSide ax).opp)).v1 with
        nbr := (lbEff h el ax Lb).map (·.1) } := by
    rw [P.h4_edge, if_neg (by omega), if_neg (by omega), P.h3_edge, if_neg (by omega), if_pos rfl]
  have e4 : (mesh4 h el ax La Lb).edge (h.edges.size + 4) =
      { v0 := vtxA h el ax La, v1 := vtxB h el ax La Lb, nbr := some (h.edges.size + 4 + 1) } := by
    rw [P.h4_edge, if_pos rfl]
  have e5 : (mesh4 h el ax La Lb).edge (h.edges.size + 5) =
      { v0 := vtxB h el ax La Lb, v1 := vtxA h el ax La, nbr := some (h.edges.size + 4) } := by
    rw [P.h4_edge, if_neg (by omega), if_pos rfl]
  refine ⟨?_, ?_, ?_, ?_, ?_, ?_, ?_, ?_, ?_, ?_, ?_, ?_, ?_⟩
  · intro k hk
    have : k = 0 ∨ k = 1 ∨ k = 2 ∨ k = 3 ∨ k = 4 ∨ k = 5 := by omega
    rcases this with rfl | rfl | rfl | rfl | rfl | rfl
    · rw [Nat.add_zero, e0, (linkUpd_fields _ _ _ _).1, (linkUpd_fields _ _ _ _).2.2.2.2.2.2]
      simp only [kidEdge, and_self]
    · rw [e1, (linkUpd_fields _ _ _ _).1, (linkUpd_fields _ _ _ _).2.2.2.2.2.2]
      simp only [kidEdge, and_self]
    · rw [e2]; simp only [kidEdge, and_self]
    · rw [e3]; simp only [kidEdge, and_self]
    · rw [e4]; simp only [and_self]
    · rw [e5]; simp only [and_self]
  · rw [e0, (linkUpd_fields _ _ _ _).2.1]; simp only [kidEdge]; exact (P.h1_fields _).2.2.1
  · rw [e0, (linkUpd_fields _ _ _ _).2.2.1]; simp only [kidEdge]
  · rw [e1, (linkUpd_fields _ _ _ _).2.1]; simp only [kidEdge]
  · rw [e1, (linkUpd_fields _ _ _ _).2.2.1]; simp only [kidEdge]; exact (P.h1_fields _).2.2.2.1
  · rw [e2]; simp only [kidEdge]; exact f0
  · rw [e2]; simp only [kidEdge]
  · rw [e3]; simp only [kidEdge]
  · rw [e3]; simp only [kidEdge]; exact f1
  · rw [e4]
  · rw [e4]
  · rw [e5]
  · rw [e5]

theorem mesh4_vert (h : HMesh) (el : Nat) (ax : Ax) (La Lb : Option (Nat × Nat)) (v : Nat) :
    (mesh4 h el ax La Lb).vert v = (mesh3 h el ax La Lb).vert v := rfl

theorem BisectPre.pt4_old (P : BisectPre h el ax La Lb) (s : Side) :
    (mesh4 h el ax La Lb).pt (h.edge ((h.elem el).side s)).v0 = corner (h.cellOf el) s := by
  rw [pt_of_vert (mesh4_vert h el ax La Lb _), pt_of_vert (mesh3_vert_lt h el ax La Lb (P.vr s)), P.start]

theorem BisectPre.pt4_A (P : BisectPre h el ax La Lb) :
    (mesh4 h el ax La Lb).pt (vtxA h el ax La) =
      mid (corner (h.cellOf el) (bisSide ax)) (corner (h.cellOf el) (sideNext (bisSide ax))) := by
  rw [pt_of_vert (mesh4_vert h el ax La Lb _), (P.ptA).2, (P.seg _).1, (P.seg _).2]

theorem BisectPre.pt4_B (P : BisectPre h el ax La Lb) :
    (mesh4 h el ax La Lb).pt (vtxB h el ax La Lb) =
      mid (corner (h.cellOf el) (bisSide ax).opp) (corner (h.cellOf el) (sideNext (bisSide ax).opp)) := by
  rw [pt_of_vert (mesh4_vert h el ax La Lb _), (P.ptB).2, (P.seg _).1, (P.seg _).2]

theorem mesh4_same (h : HMesh) (el : Nat) (ax : Ax) (La Lb : Option (Nat × Nat)) :
    SameButEV h (mesh4 h el ax La Lb) :=
  (((SameButEV.clearOwners h _ _ _ _).trans (SameButEV.bisectEdgeRes _ _ _)).trans
    (SameButEV.bisectEdgeRes _ _ _)).trans (SameButEV.createEdgesRes _ _ _)

theorem BisectPre.kidsA (P : BisectPre h el ax La Lb) :
    ((mesh4 h el ax La Lb).edge ((h.elem el).side (bisSide ax))).kids = some (h.edges.size, h.edges.size + 1) := by
  rw [P.h4_side, if_neg (bisSide_opp_ne ax).symm, if_pos rfl]; rfl

theorem BisectPre.kidsB (P : BisectPre h el ax La Lb) :
    ((mesh4 h el ax La Lb).edge ((h.elem el).side (bisSide ax).opp)).kids =
      some (h.edges.size + 2, h.edges.size + 2 + 1) := by
  rw [P.h4_side, if_pos rfl]; rfl

theorem regElem_edge_fields (h : HMesh) (e0 e1 e2 e3 lt lx : Nat) (parent : Option Nat) (id : Nat)
    (hr : e0 < h.edges.size ∧ e1 < h.edges.size ∧ e2 < h.edges.size ∧ e3 < h.edges.size) (j : Nat) :
    ((regElem h e0 e1 e2 e3 lt lx parent id).edge j).kids = (h.edge j).kids ∧
    ((regElem h e0 e1 e2 e3 lt lx parent id).edge j).v0 = (h.edge j).v0 ∧
    ((regElem h e0 e1 e2 e3 lt lx parent id).edge j).v1 = (h.edge j).v1 ∧
    ((regElem h e0 e1 e2 e3 lt lx parent id).edge j).nbr = (h.edge j).nbr ∧
    ((regElem h e0 e1 e2 e3 lt lx parent id).edge j).parent = (h.edge j).parent ∧
    ((regElem h e0 e1 e2 e3 lt lx parent id).edge j).glued = (h.edge j).glued ∧
    ((regElem h e0 e1 e2 e3 lt lx parent id).edge j).onBoundary = (h.edge j).onBoundary := by
  rw [regElem_edge _ _ _ _ _ _ _ _ _ hr]
  split <;> exact ⟨rfl, rfl, rfl, rfl, rfl, rfl, rfl⟩

theorem BisectPre.h4_side_fields (P : BisectPre h el ax La Lb) (s : Side) :
    ((mesh4 h el ax La Lb).edge ((h.elem el).side s)).v0 = (h.edge ((h.elem el).side s)).v0 ∧
    ((mesh4 h el ax La Lb).edge ((h.elem el).side s)).v1 = (h.edge ((h.elem el).side s)).v1 ∧
    ((mesh4 h el ax La Lb).edge ((h.elem el).side s)).elem = none := by
  rw [P.h4_side]
  split_ifs <;> exact ⟨rfl, rfl, rfl⟩

/-- coordinates (in the mesh after `__create_edges`) of the start vertex of side `s` -/
theorem BisectPre.vert4_side (P : BisectPre h el ax La Lb) (s : Side) :
    ((mesh4 h el ax La Lb).vert ((mesh4 h el ax La Lb).edge ((h.elem el).side s)).v0).t = (corner (h.cellOf el) s).1 ∧
    ((mesh4 h el ax La Lb).vert ((mesh4 h el ax La Lb).edge ((h.elem el).side s)).v0).x = (corner (h.cellOf el) s).2 := by
  rw [(P.h4_side_fields s).1]
  have := P.pt4_old s
  exact ⟨congrArg Prod.fst this, congrArg Prod.snd this⟩

theorem kid_ok {h : HMesh} {ei k0 k1 : Nat} (hk : (h.edge ei).kids = some (k0, k1)) (k : Fin 2) :
    h.kid ei k = .ok (if k = 0 then k0 else k1) := by
  unfold HMesh.kid; rw [hk]; rfl

theorem BisectPre.run (P : BisectPre h el ax La Lb) :
    h.bisectElem el ax = .ok (bisectRes h el ax La Lb) := by
  unfold HMesh.bisectElem
  dsimp only
  rw [assert_ok (by rw [P.nokids]; rfl)]
  simp only [ok_bind]
  rw [show (h.elem el).edgeList = [(h.elem el).e0, (h.elem el).e1, (h.elem el).e2, (h.elem el).e3] from rfl,
    clearLoop_ok h el (h.elem el).e0 (h.elem el).e1 (h.elem el).e2 (h.elem el).e3 ⟨P.er .bottom, P.er .right, P.er .top, P.er .left⟩
      ⟨P.side_ne (s := .bottom) (s' := .right) (by simp), P.side_ne (s := .bottom) (s' := .top) (by simp),
        P.side_ne (s := .bottom) (s' := .left) (by simp), P.side_ne (s := .right) (s' := .top) (by simp),
        P.side_ne (s := .right) (s' := .left) (by simp), P.side_ne (s := .top) (s' := .left) (by simp)⟩
      ⟨P.own .bottom, P.own .right, P.own .top, P.own .left⟩]
  simp only [ok_bind]
  have r1 := P.run1
  have r2 := P.run2
  have hA := P.pt4_A
  have hB := P.pt4_B
  cases ax with
  | time =>
    simp only [bisSide, HElem.side, Side.opp] at r1 r2
    change (mesh1 h el).bisectEdge (h.elem el).e1 >>= _ = _
    rw [r1]
    simp only [ok_bind]
    rw [r2]
    simp only [ok_bind]
    have hpA := congrArg Prod.fst hA
    have hxA := congrArg Prod.snd hA
    have hpB := congrArg Prod.fst hB
    have hxB := congrArg Prod.snd hB
    simp only [HMesh.pt, bisSide, sideNext, Side.opp, corner, mid, mesh4_vert] at hpA hxA hpB hxB
    obtain ⟨p1, p2⟩ := P.proper
    rw [assert_ok (by simp only [HVertex.tx, hpA, hpB, beq_iff_eq]; ring),
      assert_ok (by
        simp only [HVertex.tx, Ax.other, hxA, hxB, bne_iff_ne, ne_eq]
        intro e; linarith)]
    simp only [ok_bind]
    rw [createEdges_eq', show createEdgesRes (mesh3 h el Ax.time La Lb) (vtxA h el Ax.time La)
      (vtxB h el Ax.time La Lb) = mesh4 h el Ax.time La Lb from rfl]
    have kA := P.kidsA
    have kB := P.kidsB
    simp only [bisSide, HElem.side, Side.opp] at kA kB
    simp only [kid_ok kA, kid_ok kB, ok_bind, mesh3_size, (mesh4_same h el Ax.time La Lb).2.2.2.1]
    simp only [show ((1 : Fin 2) = 0) = False from by simp, if_true, if_false]
    obtain ⟨hn, n0v0, n0v1, n1v0, n1v1, n2v0, n2v1, n3v0, n3v1, n4v0, n4v1, n5v0, n5v1⟩ := P.h4_new
    have sB := P.h4_side_fields .bottom
    have sR := P.h4_side_fields .right
    have sT := P.h4_side_fields .top
    have sL := P.h4_side_fields .left
    have vB := P.vert4_side .bottom
    have vR := P.vert4_side .right
    have vT := P.vert4_side .top
    have vL := P.vert4_side .left
    have cB := P.chain .bottom
    have cR := P.chain .right
    have cT := P.chain .top
    have cL := P.chain .left
    have rB := P.er .bottom
    have rR := P.er .right
    have rT := P.er .top
    have rL := P.er .left
    simp only [bisSide, HElem.side, Side.opp, sideNext, corner] at n0v0 n0v1 n1v0 n1v1 n2v0 n2v1 n3v0 n3v1 n4v0 n4v1 n5v0 n5v1 sB sR sT sL vB vR vT vL cB cR cT cL rB rR rT rL
    have hsz4 := mesh4_size h el Ax.time La Lb
    have vA4 : ((mesh4 h el Ax.time La Lb).vert (vtxA h el Ax.time La)) =
        ((mesh3 h el Ax.time La Lb).vert (vtxA h el Ax.time La)) := rfl
    have vB4 : ((mesh4 h el Ax.time La Lb).vert (vtxB h el Ax.time La Lb)) =
        ((mesh3 h el Ax.time La Lb).vert (vtxB h el Ax.time La Lb)) := rfl
    rw [newElem_ok (mesh4 h el Ax.time La Lb) (h.elem el).e0 h.edges.size (h.edges.size + 4) (h.edges.size + 2 + 1)
      _ _ (some el) h.nElems (by rw [hsz4]; omega) (by omega)
      ⟨sB.2.2, by simpa using (hn 0 (by omega)).1, (hn 4 (by omega)).1, (hn 3 (by omega)).1⟩
      (by intro e; cases e)
      ⟨by rw [n3v1, sB.1, cL], by rw [sB.2.1, n0v0, cB], by rw [n0v1, n4v0], by rw [n4v1, n3v0]⟩
      (by
        rw [n0v0, ← sR.1, n4v0, n3v0, vA4, vB4, vB.1, vB.2, vR.1, vR.2, hpA, hxA, hpB, hxB]
        refine ⟨rfl, by ring, by ring, by ring, by linarith, p2⟩)]
    simp only [ok_bind]
    set H5 := regElem (mesh4 h el Ax.time La Lb) (h.elem el).e0 h.edges.size (h.edges.size + 4) (h.edges.size + 2 + 1)
      ((h.elem el).lt + 1) (h.elem el).lx (some el) h.nElems with hH5
    have hr5 : (h.elem el).e0 < (mesh4 h el Ax.time La Lb).edges.size ∧
        h.edges.size < (mesh4 h el Ax.time La Lb).edges.size ∧
        h.edges.size + 4 < (mesh4 h el Ax.time La Lb).edges.size ∧
        h.edges.size + 2 + 1 < (mesh4 h el Ax.time La Lb).edges.size := by rw [hsz4]; omega
    have f5 : ∀ j, (H5.edge j).kids = ((mesh4 h el Ax.time La Lb).edge j).kids ∧
        (H5.edge j).v0 = ((mesh4 h el Ax.time La Lb).edge j).v0 ∧
        (H5.edge j).v1 = ((mesh4 h el Ax.time La Lb).edge j).v1 := fun j =>
      ⟨(regElem_edge_fields _ _ _ _ _ _ _ _ _ hr5 j).1, (regElem_edge_fields _ _ _ _ _ _ _ _ _ hr5 j).2.1,
        (regElem_edge_fields _ _ _ _ _ _ _ _ _ hr5 j).2.2.1⟩
    have e5 : ∀ j, j ≠ (h.elem el).e0 → j ≠ h.edges.size → j ≠ h.edges.size + 4 → j ≠ h.edges.size + 2 + 1 →
        (H5.edge j).elem = ((mesh4 h el Ax.time La Lb).edge j).elem := by
      intro j a b c d
      rw [hH5, regElem_edge _ _ _ _ _ _ _ _ _ hr5, if_neg (by omega)]
    have v5 : ∀ v, H5.vert v = (mesh4 h el Ax.time La Lb).vert v := fun v => by rw [hH5, regElem_vert]
    have hsz5 : H5.edges.size = h.edges.size + 6 := by rw [hH5, regElem_edges_size, hsz4]
    have hTB : (h.elem el).e2 ≠ (h.elem el).e0 := P.side_ne (s := .top) (s' := .bottom) (by simp)
    rw [kid_ok (by rw [(f5 _).1]; exact kA) 1, kid_ok (by rw [(f5 _).1]; exact kB) 0]
    simp only [ok_bind, show ((1 : Fin 2) = 0) = False from by simp, if_true, if_false]
    rw [newElem_ok H5 (h.edges.size + 4 + 1) (h.edges.size + 1) (h.elem el).e2 (h.edges.size + 2)
      _ _ (some el) (H5.nElems + 1) (by rw [hsz5]; omega) (by omega)
      ⟨by rw [e5 _ (by omega) (by omega) (by omega) (by omega)]; exact (hn 5 (by omega)).1,
        by rw [e5 _ (by omega) (by omega) (by omega) (by omega)]; exact (hn 1 (by omega)).1,
        by rw [e5 _ hTB (by omega) (by omega) (by omega)]; exact sT.2.2,
        by rw [e5 _ (by omega) (by omega) (by omega) (by omega)]; exact (hn 2 (by omega)).1⟩
      (by intro e; cases e)
      ⟨by rw [(f5 _).2.2, (f5 _).2.1, n2v1, n5v0], by rw [(f5 _).2.2, (f5 _).2.1, n5v1, n1v0],
        by rw [(f5 _).2.2, (f5 _).2.1, n1v1, sT.1, cR], by rw [(f5 _).2.2, (f5 _).2.1, sT.2.1, n2v0, cT]⟩
      (by
        simp only [(f5 _).2.1, v5]
        rw [n5v0, n1v0, n2v0, ← sL.1, vA4, vB4, vT.1, vT.2, vL.1, vL.2, hpA, hxA, hpB, hxB]
        refine ⟨by ring, by ring, rfl, by ring, by linarith, by linarith⟩)]
    simp only [ok_bind, pure_eq_ok]
    obtain ⟨-, m2, m3, m4, -⟩ := mesh4_same h el Ax.time La Lb
    have l5 : H5.leaves = h.leaves := by rw [hH5, regElem_leaves, m3]
    have n5 : H5.nElems = h.nElems := by rw [hH5, regElem_nElems, m4]
    have s5 : H5.elems.size = h.elems.size + 1 := by rw [hH5, regElem_elems_size, m2]
    rw [if_neg (by rw [regElem_leaves, l5]; simp [P.leaf])]
    rw [show h.edges.size + 2 + 1 = h.edges.size + 3 from rfl,
      show h.edges.size + 4 + 1 = h.edges.size + 5 from rfl] at *
    simp only [hH5, regElem_nElems, regElem_leaves, regElem_elems_size, m2, m3, m4]
    unfold bisectRes
    simp only [childEdges, childLevels, mesh4_eq]
  | space =>
    simp only [bisSide, HElem.side, Side.opp] at r1 r2
    change (mesh1 h el).bisectEdge (h.elem el).e0 >>= _ = _
    rw [r1]
    simp only [ok_bind]
    rw [r2]
    simp only [ok_bind]
    have hpA := congrArg Prod.fst hA
    have hxA := congrArg Prod.snd hA
    have hpB := congrArg Prod.fst hB
    have hxB := congrArg Prod.snd hB
    simp only [HMesh.pt, bisSide, sideNext, Side.opp, corner, mid, mesh4_vert] at hpA hxA hpB hxB
    obtain ⟨p1, p2⟩ := P.proper
    rw [assert_ok (by simp only [HVertex.tx, hxA, hxB, beq_iff_eq]; ring),
      assert_ok (by
        simp only [HVertex.tx, Ax.other, hpA, hpB, bne_iff_ne, ne_eq]
        intro e; linarith)]
    simp only [ok_bind]
    rw [createEdges_eq', show createEdgesRes (mesh3 h el Ax.space La Lb) (vtxA h el Ax.space La)
      (vtxB h el Ax.space La Lb) = mesh4 h el Ax.space La Lb from rfl]
    have kA := P.kidsA
    have kB := P.kidsB
    simp only [bisSide, HElem.side, Side.opp] at kA kB
    simp only [kid_ok kA, kid_ok kB, ok_bind, mesh3_size, (mesh4_same h el Ax.space La Lb).2.2.2.1]
    simp only [show ((1 : Fin 2) = 0) = False from by simp, if_true, if_false]
    obtain ⟨hn, n0v0, n0v1, n1v0, n1v1, n2v0, n2v1, n3v0, n3v1, n4v0, n4v1, n5v0, n5v1⟩ := P.h4_new
    have sB := P.h4_side_fields .bottom
    have sR := P.h4_side_fields .right
    have sT := P.h4_side_fields .top
    have sL := P.h4_side_fields .left
    have vB := P.vert4_side .bottom
    have vR := P.vert4_side .right
    have vT := P.vert4_side .top
    have vL := P.vert4_side .left
    have cB := P.chain .bottom
    have cR := P.chain .right
    have cT := P.chain .top
    have cL := P.chain .left
    have rB := P.er .bottom
    have rR := P.er .right
    have rT := P.er .top
    have rL := P.er .left
    simp only [bisSide, HElem.side, Side.opp, sideNext, corner] at n0v0 n0v1 n1v0 n1v1 n2v0 n2v1 n3v0 n3v1 n4v0 n4v1 n5v0 n5v1 sB sR sT sL vB vR vT vL cB cR cT cL rB rR rT rL
    have hsz4 := mesh4_size h el Ax.space La Lb
    have vA4 : ((mesh4 h el Ax.space La Lb).vert (vtxA h el Ax.space La)) =
        ((mesh3 h el Ax.space La Lb).vert (vtxA h el Ax.space La)) := rfl
    have vB4 : ((mesh4 h el Ax.space La Lb).vert (vtxB h el Ax.space La Lb)) =
        ((mesh3 h el Ax.space La Lb).vert (vtxB h el Ax.space La Lb)) := rfl
    rw [newElem_ok (mesh4 h el Ax.space La Lb) h.edges.size (h.edges.size + 4) (h.edges.size + 2 + 1) (h.elem el).e3
      _ _ (some el) h.nElems (by rw [hsz4]; omega) (by omega)
      ⟨by simpa using (hn 0 (by omega)).1, (hn 4 (by omega)).1, (hn 3 (by omega)).1, sL.2.2⟩
      (by intro e; cases e)
      ⟨by rw [sL.2.1, n0v0, cL], by rw [n0v1, n4v0], by rw [n4v1, n3v0], by rw [n3v1, sL.1, cT]⟩
      (by
        rw [n0v0, ← sB.1, n4v0, n3v0, vA4, vB4, vB.1, vB.2, vL.1, vL.2, hpA, hxA, hpB, hxB]
        refine ⟨by ring, by ring, by ring, rfl, by linarith, by linarith⟩)]
    simp only [ok_bind]
    set H5 := regElem (mesh4 h el Ax.space La Lb) h.edges.size (h.edges.size + 4) (h.edges.size + 2 + 1) (h.elem el).e3
      (h.elem el).lt ((h.elem el).lx + 1) (some el) h.nElems with hH5
    have hr5 : h.edges.size < (mesh4 h el Ax.space La Lb).edges.size ∧
        h.edges.size + 4 < (mesh4 h el Ax.space La Lb).edges.size ∧
        h.edges.size + 2 + 1 < (mesh4 h el Ax.space La Lb).edges.size ∧
        (h.elem el).e3 < (mesh4 h el Ax.space La Lb).edges.size := by rw [hsz4]; omega
    have f5 : ∀ j, (H5.edge j).kids = ((mesh4 h el Ax.space La Lb).edge j).kids ∧
        (H5.edge j).v0 = ((mesh4 h el Ax.space La Lb).edge j).v0 ∧
        (H5.edge j).v1 = ((mesh4 h el Ax.space La Lb).edge j).v1 := fun j =>
      ⟨(regElem_edge_fields _ _ _ _ _ _ _ _ _ hr5 j).1, (regElem_edge_fields _ _ _ _ _ _ _ _ _ hr5 j).2.1,
        (regElem_edge_fields _ _ _ _ _ _ _ _ _ hr5 j).2.2.1⟩
    have e5 : ∀ j, j ≠ h.edges.size → j ≠ h.edges.size + 4 → j ≠ h.edges.size + 2 + 1 → j ≠ (h.elem el).e3 →
        (H5.edge j).elem = ((mesh4 h el Ax.space La Lb).edge j).elem := by
      intro j a b c d
      rw [hH5, regElem_edge _ _ _ _ _ _ _ _ _ hr5, if_neg (by omega)]
    have v5 : ∀ v, H5.vert v = (mesh4 h el Ax.space La Lb).vert v := fun v => by rw [hH5, regElem_vert]
    have hsz5 : H5.edges.size = h.edges.size + 6 := by rw [hH5, regElem_edges_size, hsz4]
    have hRL : (h.elem el).e1 ≠ (h.elem el).e3 := P.side_ne (s := .right) (s' := .left) (by simp)
    rw [kid_ok (by rw [(f5 _).1]; exact kA) 1, kid_ok (by rw [(f5 _).1]; exact kB) 0]
    simp only [ok_bind, show ((1 : Fin 2) = 0) = False from by simp, if_true, if_false]
    rw [newElem_ok H5 (h.edges.size + 1) (h.elem el).e1 (h.edges.size + 2) (h.edges.size + 4 + 1)
      _ _ (some el) (H5.nElems + 1) (by rw [hsz5]; omega) (by omega)
      ⟨by rw [e5 _ (by omega) (by omega) (by omega) (by omega)]; exact (hn 1 (by omega)).1,
        by rw [e5 _ (by omega) (by omega) (by omega) hRL]; exact sR.2.2,
        by rw [e5 _ (by omega) (by omega) (by omega) (by omega)]; exact (hn 2 (by omega)).1,
        by rw [e5 _ (by omega) (by omega) (by omega) (by omega)]; exact (hn 5 (by omega)).1⟩
      (by intro e; cases e)
      ⟨by rw [(f5 _).2.2, (f5 _).2.1, n5v1, n1v0], by rw [(f5 _).2.2, (f5 _).2.1, n1v1, sR.1, cB],
        by rw [(f5 _).2.2, (f5 _).2.1, sR.2.1, n2v0, cR], by rw [(f5 _).2.2, (f5 _).2.1, n2v1, n5v0]⟩
      (by
        simp only [(f5 _).2.1, v5]
        rw [n1v0, n2v0, n5v0, ← sT.1, vA4, vB4, vR.1, vR.2, vT.1, vT.2, hpA, hxA, hpB, hxB]
        refine ⟨by ring, rfl, by ring, by ring, by linarith, by linarith⟩)]
    simp only [ok_bind, pure_eq_ok]
    obtain ⟨-, m2, m3, m4, -⟩ := mesh4_same h el Ax.space La Lb
    have l5 : H5.leaves = h.leaves := by rw [hH5, regElem_leaves, m3]
    rw [if_neg (by rw [regElem_leaves, l5]; simp [P.leaf])]
    rw [show h.edges.size + 2 + 1 = h.edges.size + 3 from rfl,
      show h.edges.size + 4 + 1 = h.edges.size + 5 from rfl] at *
    simp only [hH5, regElem_nElems, regElem_leaves, regElem_elems_size, m2, m3, m4]
    unfold bisectRes
    simp only [childEdges, childLevels, mesh4_eq]

end

end Stbem.HalfEdge
