import Stbem.Gen.ProblemsR
import Stbem.Lemmas.ProblemsHeat
import Stbem.Lemmas.ProblemsLimit
import Stbem.Lemmas.ProblemsPotential

/-!
# The generated closed forms `singular_square_M0u0`, `singular_lshape_M0u0` (proofs for `Props/C03Problems.lean`)
-/
namespace Stbem.Problems.R
open Filter Topology MeasureTheory

/-- the 1-D factor `E((hi − a)/(2√t)) + E((a − lo)/(2√t))` (twice the heat extension of the indicator of `(lo, hi)`) -/
noncomputable def fac (E : ℝ → ℝ) (lo hi t a : ℝ) : ℝ :=
  E ((hi - a) / (2 * Real.sqrt t)) + E ((a - lo) / (2 * Real.sqrt t))

theorem heat1_fac (E : ℝ → ℝ) (c : ℝ) (hE : ∀ x, HasDerivAt E (c * Real.exp (-x ^ 2)) x) (lo hi t a : ℝ)
    (ht : 0 < t) : Heat1 (fun τ α => fac E lo hi τ α) t a := by
  have h1 := heat1_erfBlock E c hE (-1) hi (by norm_num) t a ht
  have h2 := heat1_erfBlock E c hE 1 (-lo) (by norm_num) t a ht
  have h := h1.add h2
  have e : (fun τ α => fac E lo hi τ α)
      = fun τ α => E ((-1 * α + hi) / (2 * Real.sqrt τ)) + E ((1 * α + -lo) / (2 * Real.sqrt τ)) := by
    funext τ α
    unfold fac
    congr 2 <;> ring
  rw [e]; exact h

/-- the same factor in difference form `E((a − lo)/(2√t)) − E((a − hi)/(2√t))` (equal to `fac` for odd `E`) -/
noncomputable def facD (E : ℝ → ℝ) (lo hi t a : ℝ) : ℝ :=
  E ((a - lo) / (2 * Real.sqrt t)) - E ((a - hi) / (2 * Real.sqrt t))

theorem heat1_facD (E : ℝ → ℝ) (c : ℝ) (hE : ∀ x, HasDerivAt E (c * Real.exp (-x ^ 2)) x) (lo hi t a : ℝ)
    (ht : 0 < t) : Heat1 (fun τ α => facD E lo hi τ α) t a := by
  have h1 := heat1_erfBlock E c hE 1 (-lo) (by norm_num) t a ht
  have h2 := heat1_erfBlock E c hE 1 (-hi) (by norm_num) t a ht
  have h := h1.add h2.neg
  have e : (fun τ α => facD E lo hi τ α)
      = fun τ α => E ((1 * α + -lo) / (2 * Real.sqrt τ)) + - E ((1 * α + -hi) / (2 * Real.sqrt τ)) := by
    funext τ α
    unfold facD
    rw [sub_eq_add_neg]
    congr 3 <;> ring
  rw [e]; exact h

theorem facD_eq_fac (E : ℝ → ℝ) (hodd : ∀ x, E (-x) = - E x) (lo hi t a : ℝ) : facD E lo hi t a = fac E lo hi t a := by
  unfold facD fac
  have : E ((hi - a) / (2 * Real.sqrt t)) = - E ((a - hi) / (2 * Real.sqrt t)) := by
    rw [← hodd]; congr 1; ring
  rw [this]; ring

theorem tendsto_fac (E : ℝ → ℝ) (hodd : ∀ x, E (-x) = - E x) (hlim : Tendsto E atTop (𝓝 1)) (lo hi a : ℝ) :
    Tendsto (fun t : ℝ => fac E lo hi t a) (𝓝[>] 0) (𝓝 (2 * ind lo hi a)) := by
  have h := (tendsto_factor E hodd hlim lo hi a).const_mul 2
  refine h.congr fun t => ?_
  unfold fac; ring

theorem fac_eq_integral (E : ℝ → ℝ) (hE : ∀ x, HasDerivAt E (2 / Real.sqrt Real.pi * Real.exp (-x ^ 2)) x)
    (hodd : ∀ x, E (-x) = - E x) {t : ℝ} (ht : 0 < t) (lo hi a : ℝ) :
    fac E lo hi t a = 2 * ∫ s in lo..hi, heatKernel1 t (a - s) := by
  rw [integral_heatKernel1 E hE ht]
  unfold fac
  have : E ((hi - a) / (2 * Real.sqrt t)) = - E ((a - hi) / (2 * Real.sqrt t)) := by
    rw [← hodd]; congr 1; ring
  rw [this]; ring

/-- product of two factors as a rectangle integral of the 2-D kernel -/
theorem fac_mul_eq_integral (E : ℝ → ℝ) (hE : ∀ x, HasDerivAt E (2 / Real.sqrt Real.pi * Real.exp (-x ^ 2)) x)
    (hodd : ∀ x, E (-x) = - E x) {t : ℝ} (ht : 0 < t) (p q r s a b : ℝ) :
    1 / 4 * (fac E p q t a * fac E r s t b) = ∫ x in p..q, ∫ y in r..s, heatKernel t (a - x) (b - y) := by
  rw [integral_heatKernel_rect E hE ht]
  unfold fac
  have h1 : E ((q - a) / (2 * Real.sqrt t)) = - E ((a - q) / (2 * Real.sqrt t)) := by
    rw [← hodd]; congr 1; ring
  have h2 : E ((s - b) / (2 * Real.sqrt t)) = - E ((b - s) / (2 * Real.sqrt t)) := by
    rw [← hodd]; congr 1; ring
  rw [h1, h2]; ring

/-! ## unit square -/

theorem singular_square_eq (S : Fns) (hsqrt : S.sqrt = Real.sqrt) :
    (fun t a b => singular_square_M0u0 S t a b)
      = fun t a b => 1 / 4 * (fac S.erf 0 1 t a * fac S.erf 0 1 t b) := by
  funext t a b
  simp only [singular_square_M0u0, fac, hsqrt, sub_zero]
  ring

theorem singular_square_heat' (S : Fns) (hsqrt : S.sqrt = Real.sqrt) (c : ℝ)
    (herf : ∀ x, HasDerivAt S.erf (c * Real.exp (-x ^ 2)) x) (t a b : ℝ) (ht : 0 < t) :
    Heat2 (fun τ α β => singular_square_M0u0 S τ α β) t a b := by
  rw [singular_square_eq S hsqrt]
  exact (Heat2.of_mul (heat1_fac S.erf c herf 0 1 t a ht) (heat1_fac S.erf c herf 0 1 t b ht)).const_mul _

theorem singular_square_initial' (S : Fns) (hsqrt : S.sqrt = Real.sqrt) (hodd : ∀ x, S.erf (-x) = - S.erf x)
    (hlim : Tendsto S.erf atTop (𝓝 1)) (a b : ℝ) :
    Tendsto (fun t => singular_square_M0u0 S t a b) (𝓝[>] 0) (𝓝 (ind 0 1 a * ind 0 1 b)) := by
  have h := ((tendsto_fac S.erf hodd hlim 0 1 a).mul (tendsto_fac S.erf hodd hlim 0 1 b)).const_mul (1 / 4)
  have e : 1 / 4 * (2 * ind 0 1 a * (2 * ind 0 1 b)) = ind 0 1 a * ind 0 1 b := by ring
  rw [e] at h
  refine h.congr fun t => ?_
  exact (congrFun (congrFun (congrFun (singular_square_eq S hsqrt) t) a) b).symm

theorem singular_square_potential' (S : Fns) (hsqrt : S.sqrt = Real.sqrt)
    (herf : ∀ x, HasDerivAt S.erf (2 / Real.sqrt Real.pi * Real.exp (-x ^ 2)) x)
    (hodd : ∀ x, S.erf (-x) = - S.erf x) (t a b : ℝ) (ht : 0 < t) :
    singular_square_M0u0 S t a b
      = ∫ x in (0 : ℝ)..1, ∫ y in (0 : ℝ)..1, heatKernel t (a - x) (b - y) * singular_square_u0 S x y := by
  have e : singular_square_M0u0 S t a b = 1 / 4 * (fac S.erf 0 1 t a * fac S.erf 0 1 t b) :=
    congrFun (congrFun (congrFun (singular_square_eq S hsqrt) t) a) b
  rw [e, fac_mul_eq_integral S.erf herf hodd ht]
  simp only [singular_square_u0, mul_one]

/-! ## L-shape -/

theorem singular_lshape_eqD (S : Fns) (hsqrt : S.sqrt = Real.sqrt) :
    (fun t a b => singular_lshape_M0u0 S t a b)
      = fun t a b => 1 / 4 * (fac S.erf (-1) 1 t a * fac S.erf 0 1 t b)
          + 1 / 4 * (fac S.erf 0 1 t a * facD S.erf (-1) 0 t b) := by
  funext t a b
  simp only [singular_lshape_M0u0, fac, facD, hsqrt, sub_zero, sub_neg_eq_add]
  have h1 : (1 + a) / (2 * Real.sqrt t) = (a + 1) / (2 * Real.sqrt t) := by rw [add_comm]
  have h2 : (1 + b) / (2 * Real.sqrt t) = (b + 1) / (2 * Real.sqrt t) := by rw [add_comm]
  rw [h1, h2]
  ring

theorem singular_lshape_eq (S : Fns) (hsqrt : S.sqrt = Real.sqrt) (hodd : ∀ x, S.erf (-x) = - S.erf x) :
    (fun t a b => singular_lshape_M0u0 S t a b)
      = fun t a b => 1 / 4 * (fac S.erf (-1) 1 t a * fac S.erf 0 1 t b)
          + 1 / 4 * (fac S.erf 0 1 t a * fac S.erf (-1) 0 t b) := by
  rw [singular_lshape_eqD S hsqrt]
  funext t a b
  rw [facD_eq_fac S.erf hodd]

theorem singular_lshape_heat' (S : Fns) (hsqrt : S.sqrt = Real.sqrt) (c : ℝ)
    (herf : ∀ x, HasDerivAt S.erf (c * Real.exp (-x ^ 2)) x) (t a b : ℝ) (ht : 0 < t) :
    Heat2 (fun τ α β => singular_lshape_M0u0 S τ α β) t a b := by
  rw [singular_lshape_eqD S hsqrt]
  exact ((Heat2.of_mul (heat1_fac S.erf c herf (-1) 1 t a ht) (heat1_fac S.erf c herf 0 1 t b ht)).const_mul _).add
    ((Heat2.of_mul (heat1_fac S.erf c herf 0 1 t a ht) (heat1_facD S.erf c herf (-1) 0 t b ht)).const_mul _)

/-- the pointwise limit: the (normalised) indicator of the L-shape `(−1,1)×(0,1) ∪ (0,1)×(−1,0)` -/
noncomputable def lshapeInd (a b : ℝ) : ℝ := ind (-1) 1 a * ind 0 1 b + ind 0 1 a * ind (-1) 0 b

theorem singular_lshape_initial' (S : Fns) (hsqrt : S.sqrt = Real.sqrt) (hodd : ∀ x, S.erf (-x) = - S.erf x)
    (hlim : Tendsto S.erf atTop (𝓝 1)) (a b : ℝ) :
    Tendsto (fun t => singular_lshape_M0u0 S t a b) (𝓝[>] 0) (𝓝 (lshapeInd a b)) := by
  have h1 := ((tendsto_fac S.erf hodd hlim (-1) 1 a).mul (tendsto_fac S.erf hodd hlim 0 1 b)).const_mul (1 / 4)
  have h2 := ((tendsto_fac S.erf hodd hlim 0 1 a).mul (tendsto_fac S.erf hodd hlim (-1) 0 b)).const_mul (1 / 4)
  have h := h1.add h2
  have e : 1 / 4 * (2 * ind (-1) 1 a * (2 * ind 0 1 b)) + 1 / 4 * (2 * ind 0 1 a * (2 * ind (-1) 0 b))
      = lshapeInd a b := by unfold lshapeInd; ring
  rw [e] at h
  refine h.congr fun t => ?_
  exact (congrFun (congrFun (congrFun (singular_lshape_eq S hsqrt hodd) t) a) b).symm

/-- interior of the L-shape: the two open rectangles and the open interface between them -/
def InLShape (a b : ℝ) : Prop := (-1 < a ∧ a < 1 ∧ 0 < b ∧ b < 1) ∨ (0 < a ∧ a < 1 ∧ -1 < b ∧ b ≤ 0)

/-- complement of the closed L-shape -/
def OutLShape (a b : ℝ) : Prop :=
  a < -1 ∨ 1 < a ∨ b < -1 ∨ 1 < b ∨ (a < 0 ∧ b < 0)

theorem lshapeInd_inside {a b : ℝ} (h : InLShape a b) : lshapeInd a b = 1 := by
  unfold lshapeInd
  rcases h with ⟨h1, h2, h3, h4⟩ | ⟨h1, h2, h3, h4⟩
  · rw [ind_inside h1 h2, ind_inside h3 h4, ind_right (lo := -1) (hi := 0) h3 (by norm_num)]; ring
  · rcases lt_or_eq_of_le h4 with h4 | h4
    · rw [ind_inside h1 h2, ind_inside h3 h4, ind_left (lo := 0) (hi := 1) h4 (by norm_num)]; ring
    · subst h4
      rw [ind_inside h1 h2, ind_lo (lo := 0) (hi := 1) (by norm_num), ind_hi (lo := -1) (hi := 0) (by norm_num),
        ind_inside (by linarith) h2]
      norm_num

theorem lshapeInd_outside {a b : ℝ} (h : OutLShape a b) : lshapeInd a b = 0 := by
  unfold lshapeInd
  rcases h with h | h | h | h | ⟨h1, h2⟩
  · have e1 : ind (-1) 1 a = 0 := ind_left h (by norm_num)
    have e2 : ind 0 1 a = 0 := ind_left (by linarith) (by norm_num)
    rw [e1, e2]; ring
  · have e1 : ind (-1) 1 a = 0 := ind_right h (by norm_num)
    have e2 : ind 0 1 a = 0 := ind_right h (by norm_num)
    rw [e1, e2]; ring
  · have e1 : ind 0 1 b = 0 := ind_left (by linarith) (by norm_num)
    have e2 : ind (-1) 0 b = 0 := ind_left h (by norm_num)
    rw [e1, e2]; ring
  · have e1 : ind 0 1 b = 0 := ind_right h (by norm_num)
    have e2 : ind (-1) 0 b = 0 := ind_right (by linarith) (by norm_num)
    rw [e1, e2]; ring
  · have e1 : ind 0 1 b = 0 := ind_left h2 (by norm_num)
    have e2 : ind 0 1 a = 0 := ind_left h1 (by norm_num)
    rw [e1, e2]; ring

theorem singular_lshape_potential' (S : Fns) (hsqrt : S.sqrt = Real.sqrt)
    (herf : ∀ x, HasDerivAt S.erf (2 / Real.sqrt Real.pi * Real.exp (-x ^ 2)) x)
    (hodd : ∀ x, S.erf (-x) = - S.erf x) (t a b : ℝ) (ht : 0 < t) :
    singular_lshape_M0u0 S t a b
      = (∫ x in (-1 : ℝ)..0, ∫ y in (0 : ℝ)..1, heatKernel t (a - x) (b - y) * singular_lshape_u0 S x y)
        + (∫ x in (0 : ℝ)..1, ∫ y in (0 : ℝ)..1, heatKernel t (a - x) (b - y) * singular_lshape_u0 S x y)
        + (∫ x in (0 : ℝ)..1, ∫ y in (-1 : ℝ)..0, heatKernel t (a - x) (b - y) * singular_lshape_u0 S x y) := by
  have e : singular_lshape_M0u0 S t a b = 1 / 4 * (fac S.erf (-1) 1 t a * fac S.erf 0 1 t b)
      + 1 / 4 * (fac S.erf 0 1 t a * fac S.erf (-1) 0 t b) :=
    congrFun (congrFun (congrFun (singular_lshape_eq S hsqrt hodd) t) a) b
  simp only [singular_lshape_u0, mul_one]
  rw [e, ← fac_mul_eq_integral S.erf herf hodd ht, ← fac_mul_eq_integral S.erf herf hodd ht,
    ← fac_mul_eq_integral S.erf herf hodd ht]
  -- the strip (−1,1) in `a` splits at 0
  have hsplit : fac S.erf (-1) 1 t a = fac S.erf (-1) 0 t a + fac S.erf 0 1 t a := by
    unfold fac
    have h0 : S.erf ((0 - a) / (2 * Real.sqrt t)) = - S.erf ((a - 0) / (2 * Real.sqrt t)) := by
      rw [← hodd]; congr 1; ring
    rw [h0]; ring
  rw [hsplit]; ring

end Stbem.Problems.R
