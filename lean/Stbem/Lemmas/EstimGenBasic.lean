import Stbem.Model.EstimConv
import Stbem.Lemmas.EstimHier

/-!
# Lemmas for `Props/EstimTie.lean`: loops and prelude of the estimators regenerated from source

`Stbem.Gen.EstimGen` is produced on every run by `translate/estimgen.py`.  This file relates its `for` loops (`forIn` over
lists) and its NumPy prelude to the folds / list functions of the hand-written model `Stbem.Model.Estim`, and gives the closed
form of `DummyElement.uniform_refinement`.
-/
namespace Stbem.EstimTie
open Stbem.Estim Stbem.Gen.EstimGen Stbem.EstimConv

/-! ### generic -/

theorem ok_bind {ε α β : Type} (a : α) (f : α → Except ε β) : (Except.ok a >>= f) = f a := rfl

theorem error_bind {ε α β : Type} (e : ε) (f : α → Except ε β) : ((Except.error e : Except ε α) >>= f) = .error e := rfl

theorem map_eq_bind {ε α β : Type} (g : α → β) (x : Except ε α) : g <$> x = x >>= fun a => pure (g a) := by
  cases x <;> rfl

/-- a `for` loop whose body succeeds on every element with a property and maps the state through `g` -/
theorem forIn_pure_fold {α σ : Type} (f : α → σ → Except String (ForInStep σ)) (g : σ → α → σ) (P : α → Prop)
    (h : ∀ a s, P a → f a s = .ok (ForInStep.yield (g s a))) :
    ∀ (l : List α) (s : σ), (∀ a ∈ l, P a) → forIn l s f = .ok (l.foldl g s)
  | [], s, _ => rfl
  | a :: l, s, hl => by
    rw [List.forIn_cons, h a s (hl a (by simp))]
    exact forIn_pure_fold f g P h l (g s a) (fun b hb => hl b (by simp [hb]))

/-- … and fails with `e` on the first element without the property -/
theorem forIn_fold_error {α σ : Type} (f : α → σ → Except String (ForInStep σ)) (g : σ → α → σ) (P : α → Prop) (e : String)
    (h : ∀ a s, P a → f a s = .ok (ForInStep.yield (g s a))) (he : ∀ a s, ¬ P a → f a s = .error e) :
    ∀ (l : List α) (s : σ), (∃ a ∈ l, ¬ P a) → forIn l s f = .error e
  | [], s, hl => by simp at hl
  | a :: l, s, hl => by
    rw [List.forIn_cons]
    by_cases ha : P a
    · rw [h a s ha]
      apply forIn_fold_error f g P e h he l (g s a)
      obtain ⟨x, hx, hxp⟩ := hl
      rcases List.mem_cons.mp hx with rfl | hx
      · exact absurd ha hxp
      · exact ⟨x, hx, hxp⟩
    · rw [he a s ha]; rfl

/-- a `for` loop that appends the result of its body to a list is `mapM` -/
theorem forIn_append_mapM {α β : Type} (f : α → List β → Except String (ForInStep (List β))) (F : α → Except String β)
    (h : ∀ a s, f a s = (F a >>= fun b => pure (ForInStep.yield (s ++ [b])))) :
    ∀ (l : List α) (s : List β), forIn l s f = (l.mapM F >>= fun bs => pure (s ++ bs))
  | [], s => by simp [pure, Except.pure, ok_bind]
  | a :: l, s => by
    rw [List.forIn_cons, h, List.mapM_cons]
    cases F a with
    | error e => rfl
    | ok b =>
      simp only [ok_bind, pure_bind, bind_assoc]
      rw [forIn_append_mapM f F h l (s ++ [b])]
      cases l.mapM F with
      | error e => rfl
      | ok bs => simp [ok_bind, pure, Except.pure]

/-- two `mapM`s over lists of equal length whose bodies agree index by index (up to a map of the results) -/
theorem mapM_congr_idx {α α' β β' : Type} (φ : β → β') (F : α → Except String β) (H : α' → Except String β') :
    ∀ (l : List α) (l' : List α'), l.length = l'.length →
      (∀ (i : Nat) a b, l[i]? = some a → l'[i]? = some b → φ <$> F a = H b) →
      (List.map φ) <$> l.mapM F = l'.mapM H
  | [], [], _, _ => rfl
  | [], _ :: _, h, _ => by simp at h
  | _ :: _, [], h, _ => by simp at h
  | a :: l, b :: l', h, hf => by
    have h0 := hf 0 a b rfl rfl
    have ih := mapM_congr_idx φ F H l l' (by simpa using h) (fun i x y hx hy => hf (i + 1) x y (by simpa using hx) (by simpa using hy))
    rw [List.mapM_cons, List.mapM_cons, ← h0, ← ih]
    cases F a with
    | error e => rfl
    | ok x =>
      cases l.mapM F with
      | error e => rfl
      | ok xs => rfl

theorem assertThat_true {c : Prop} [Decidable c] (tag : String) (h : c) : assertThat c tag = .ok () := by
  simp [assertThat, h]; rfl

theorem assertThat_false {c : Prop} [Decidable c] (tag : String) (h : ¬ c) : assertThat c tag = .error tag := by
  simp [assertThat, h]

theorem getIdx_of_lt {α : Type} (l : List α) (i : Nat) (h : i < l.length) : getIdx l i = .ok l[i] := by
  simp [getIdx, List.getElem?_eq_getElem h]; rfl

theorem getIdx_of_some {α : Type} {l : List α} {i : Nat} {a : α} (h : l[i]? = some a) : getIdx l i = .ok a := by
  simp [getIdx, h]; rfl

theorem getIdx_of_ge {α : Type} (l : List α) (i : Nat) (h : l.length ≤ i) : getIdx l i = .error "index" := by
  simp [getIdx, List.getElem?_eq_none h]

/-! ### `DummyElement.uniform_refinement`: closed form -/

/-- the midpoint vertex `Vertex(t=(a.t + b.t) / 2, x=(a.x + b.x) / 2, idx=-1)` -/
def mid (a b : Vertex) : Vertex := ⟨(a.t + b.t) / 2, (a.x + b.x) / 2, -1⟩

/-- what `DummyElement(vertices=[a, b, c, d], gamma_space=γ)` builds as the object number `oid` -/
def mkElem {Γ : Type} (oid : Nat) (a b c d : Vertex) (γ : Γ) : DummyElement Γ :=
  { oid := oid, vertices := [a, b, c, d], gamma_space := γ, time_interval := (a.t, c.t), space_interval := (a.x, c.x),
    h_t := pyFloat (pyAbs (c.t - a.t)), h_x := pyFloat (pyAbs (c.x - a.x)) }

theorem init_four {Γ : Type} (oid : Nat) (a b c d : Vertex) (γ : Γ) :
    DummyElement.init oid [a, b, c, d] γ = .ok (mkElem oid a b c d γ) := rfl

/-- the four children of an element with vertices `v0 … v3` in the order of the source, identities `b … b + 3` -/
def kids4 {Γ : Type} (b : Nat) (e : DummyElement Γ) : List (DummyElement Γ) :=
  match e.vertices with
  | [v0, v1, v2, v3] =>
    [mkElem b v0 (mid v0 v1) (mid v0 v2) (mid v3 v0) e.gamma_space,
     mkElem (b + 1) (mid v0 v1) v1 (mid v1 v2) (mid v0 v2) e.gamma_space,
     mkElem (b + 2) (mid v3 v0) (mid v0 v2) (mid v2 v3) v3 e.gamma_space,
     mkElem (b + 3) (mid v0 v2) (mid v1 v2) v2 (mid v2 v3) e.gamma_space]
  | _ => []

/-- the lists of children of the elements of a list, identities counted from `b` -/
def kidsFrom {Γ : Type} : Nat → List (DummyElement Γ) → List (List (DummyElement Γ))
  | _, [] => []
  | b, e :: l => kids4 b e :: kidsFrom (b + 4) l

theorem four_of_length {α : Type} (l : List α) (h : l.length = 4) : ∃ a b c d, l = [a, b, c, d] := by
  match l, h with
  | [a, b, c, d], _ => exact ⟨a, b, c, d, rfl⟩

theorem unpack4_err {α : Type} (l : List α) (h : l.length ≠ 4) : unpack4 l = .error "unpack" := by
  unfold unpack4
  split
  · simp at h
  · rfl

theorem kids_fold {Γ : Type} : ∀ (elems : List (DummyElement Γ)) (s : Nat × List (List (DummyElement Γ))),
    elems.foldl (fun s e => (s.1 + 1 + 1 + 1 + 1, s.2 ++ [kids4 s.1 e])) s =
      (s.1 + 4 * elems.length, s.2 ++ kidsFrom s.1 elems)
  | [], s => by simp [kidsFrom]
  | e :: l, s => by
    rw [List.foldl_cons, kids_fold l]
    simp only [kidsFrom, List.length_cons, List.append_assoc, List.singleton_append]
    congr 1
    omega

/-- **closed form**: on elements with four vertices each the routine returns the lists `kids4` of children, numbered in
the order of creation, and has allocated `4 * len(elems)` objects -/
theorem uniform_refinement_eq {Γ : Type} (heap : Nat) (elems : List (DummyElement Γ))
    (h : ∀ e ∈ elems, e.vertices.length = 4) :
    DummyElement.uniform_refinement heap elems = .ok (kidsFrom heap elems, heap + 4 * elems.length) := by
  unfold DummyElement.uniform_refinement
  simp only []
  rw [forIn_pure_fold _ (fun s e => (s.1 + 1 + 1 + 1 + 1, s.2 ++ [kids4 s.1 e])) (fun e => e.vertices.length = 4) ?_ elems _ h]
  · rw [ok_bind, kids_fold]
    simp
    rfl
  · intro e s he
    obtain ⟨a, b, c, d, hv⟩ := four_of_length _ he
    simp only [hv, unpack4, pure, Except.pure, ok_bind, init_four, kids4, Vertex.init, mid]

/-- an element whose vertex list does not have four entries makes the unpacking `v0, v1, v2, v3 = …` fail -/
theorem uniform_refinement_unpack {Γ : Type} (elems : List (DummyElement Γ)) (heap : Nat)
    (h : ∃ e ∈ elems, e.vertices.length ≠ 4) : DummyElement.uniform_refinement heap elems = .error "unpack" := by
  unfold DummyElement.uniform_refinement
  simp only []
  rw [forIn_fold_error _ (fun s e => (s.1 + 1 + 1 + 1 + 1, s.2 ++ [kids4 s.1 e])) (fun e => e.vertices.length = 4) "unpack"
    ?_ ?_ elems _ h]
  · rfl
  · intro e s he
    obtain ⟨a, b, c, d, hv⟩ := four_of_length _ he
    simp only [hv, unpack4, pure, Except.pure, ok_bind, init_four, kids4, Vertex.init, mid]
  · intro e s he
    rw [unpack4_err _ he]; rfl

end Stbem.EstimTie
