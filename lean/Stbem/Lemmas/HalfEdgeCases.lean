import Stbem.Lemmas.HalfEdgeNbrs

/-!
# H-layer: from the pointer cases (a)–(d) to the geometric neighbour lists, and
`Edge.neighbour_elements()` = `nbrs (abs h)`
-/
namespace Stbem.HalfEdge
open Stbem.Mesh (Ax Side Cell Mesh Inv Adj NM tlo thi descSide nbrs)

/-! ### tangential / normal coordinate of a point with respect to a side -/

def tau : Side → Rat × Rat → Rat
  | .bottom, P | .top, P => P.2
  | .left, P | .right, P => P.1

def nu : Side → Rat × Rat → Rat
  | .bottom, P | .top, P => P.1
  | .left, P | .right, P => P.2

/-- equality of points, up to the seam identification when `g` -/
def PtRel (h : HMesh) (g : Bool) (A Q : Rat × Rat) : Prop := if g then SeamEq h A Q else A = Q

theorem tau_corner (c : Cell) (s : Side) :
    (if descSide s then tau s (corner c s) = tlo c s ∧ tau s (corner c (sideNext s)) = thi c s
     else tau s (corner c s) = thi c s ∧ tau s (corner c (sideNext s)) = tlo c s) := by
  cases s <;> simp [descSide, tau, corner, sideNext, tlo, thi]

theorem nu_corner_next (c : Cell) (s : Side) : nu s (corner c (sideNext s)) = nu s (corner c s) := by
  cases s <;> simp [nu, corner, sideNext]

theorem tau_mid (s : Side) (P Q : Rat × Rat) : tau s (mid P Q) = (tau s P + tau s Q) / 2 := by
  cases s <;> simp [tau, mid]

theorem nu_mid (s : Side) (P Q : Rat × Rat) : nu s (mid P Q) = (nu s P + nu s Q) / 2 := by
  cases s <;> simp [nu, mid]

theorem mid_comm (P Q : Rat × Rat) : mid P Q = mid Q P := by
  simp [mid, add_comm]

/-- the seam conditions a glued flag must entail -/
def SeamSide (h : HMesh) (c : Cell) (s : Side) (g : Bool) : Prop :=
  g = true → h.glue = true ∧ (s = .left ∨ s = .right) ∧ Stbem.Mesh.onBoundary h.abs c s = true

/-- Lemma G: the cell `d` whose side `s.opp` runs from (a point identified with) `Q` to `P`, both on the
line of side `s` of `c`, lies across that line and spans `[P, Q]` tangentially -/
theorem nm_of_corners {h : HMesh} (hdom : h.xmin < h.xmax) {c d : Cell} {s : Side} {g : Bool}
    (hg : SeamSide h c s g) {P Q : Rat × Rat}
    (hP : nu s P = nu s (corner c s)) (hQ : nu s Q = nu s (corner c s))
    (hA : PtRel h g (corner d s.opp) Q) (hB : PtRel h g (corner d (sideNext s.opp)) P) :
    NM h.abs c s d ∧
      (if descSide s then tlo d s = tau s P ∧ thi d s = tau s Q else tlo d s = tau s Q ∧ thi d s = tau s P) := by
  cases g
  · simp only [PtRel, Bool.false_eq_true, if_false] at hA hB
    cases s <;> simp only [corner, Side.opp, sideNext, nu] at hA hB hP hQ <;>
      simp only [NM, descSide, tlo, thi, tau, if_true, Bool.false_eq_true, if_false, ← hA, ← hB] at hP hQ ⊢
    · exact ⟨hP, trivial, trivial⟩
    · exact ⟨Or.inl hP, trivial, trivial⟩
    · exact ⟨hP, trivial, trivial⟩
    · exact ⟨Or.inl hP, trivial, trivial⟩
  · obtain ⟨hgl, hs, hb⟩ := hg rfl
    simp only [PtRel, if_true, SeamEq] at hA hB
    have hxmin : h.abs.xmin = h.xmin := rfl
    have hxmax : h.abs.xmax = h.xmax := rfl
    have hglue : h.abs.glue = h.glue := rfl
    rcases hs with rfl | rfl
    · -- left
      simp only [corner, Side.opp, sideNext, nu] at hA hB hP hQ
      simp only [Stbem.Mesh.onBoundary, decide_eq_true_eq, hxmin] at hb
      simp only [NM, descSide, tlo, thi, tau, Bool.false_eq_true, if_false, hglue, hxmin, hxmax]
      obtain ⟨a1, a2⟩ := hA
      obtain ⟨b1, b2⟩ := hB
      refine ⟨Or.inr ⟨hgl, hb, ?_⟩, a1, b1⟩
      rcases b2 with ⟨b2, b3⟩ | ⟨b2, b3⟩
      · rw [hP, hb] at b3; linarith
      · exact b2
    · -- right
      simp only [corner, Side.opp, sideNext, nu] at hA hB hP hQ
      simp only [Stbem.Mesh.onBoundary, decide_eq_true_eq, hxmax] at hb
      simp only [NM, descSide, tlo, thi, tau, if_true, hglue, hxmin, hxmax]
      obtain ⟨a1, a2⟩ := hA
      obtain ⟨b1, b2⟩ := hB
      refine ⟨Or.inr ⟨hgl, hb, ?_⟩, b1, a1⟩
      rcases a2 with ⟨a2, a3⟩ | ⟨a2, a3⟩
      · exact a2
      · rw [hQ, hb] at a3; linarith

theorem ptRel_mid {h : HMesh} {c : Cell} {s : Side} {g : Bool} (hg : SeamSide h c s g)
    {A B P Q : Rat × Rat} (hPQ : nu s P = nu s Q) (hA : PtRel h g A Q) (hB : PtRel h g B P)
    (hdom : h.xmin < h.xmax) : PtRel h g (mid A B) (mid Q P) := by
  cases g
  · simp only [PtRel, Bool.false_eq_true, if_false] at hA hB ⊢
    rw [hA, hB]
  · obtain ⟨-, hs, -⟩ := hg rfl
    simp only [PtRel, if_true, SeamEq] at hA hB ⊢
    have hPQ' : P.2 = Q.2 := by rcases hs with rfl | rfl <;> exact hPQ
    obtain ⟨a1, a2⟩ := hA
    obtain ⟨b1, b2⟩ := hB
    refine ⟨by simp [mid, a1, b1], ?_⟩
    rcases a2 with ⟨a2, a3⟩ | ⟨a2, a3⟩ <;> rcases b2 with ⟨b2, b3⟩ | ⟨b2, b3⟩
    · left; simp only [mid, a2, a3, b2, b3]; constructor <;> ring
    · exfalso; rw [hPQ', a3] at b3; linarith
    · exfalso; rw [hPQ', a3] at b3; linarith
    · right; simp only [mid, a2, a3, b2, b3]; constructor <;> ring

/-! ### segments of the edges of a leaf -/

theorem ElemGeom.v0pt {h : HMesh} {el : Nat} (g : ElemGeom h el) (s : Side) :
    h.pt (h.edge ((h.elem el).side s)).v0 = corner (h.cellOf el) s := g.start s

theorem ElemGeom.v1pt {h : HMesh} {el : Nat} (g : ElemGeom h el) (s : Side) :
    h.pt (h.edge ((h.elem el).side s)).v1 = corner (h.cellOf el) (sideNext s) := by
  rw [g.chain s, g.start]

theorem sideNext_opp (s : Side) : sideNext s.opp = (sideNext s).opp := by cases s <;> rfl

theorem Opp.ptRel {h : HMesh} {e f : Nat} (ho : Opp h e f) :
    PtRel h (h.edge e).glued (h.pt (h.edge f).v0) (h.pt (h.edge e).v1) ∧
    PtRel h (h.edge e).glued (h.pt (h.edge f).v1) (h.pt (h.edge e).v0) := by
  obtain ⟨-, h2⟩ := ho
  unfold PtRel
  split
  · rename_i hg; rw [if_pos hg] at h2; exact h2
  · rename_i hg; rw [if_neg hg] at h2; exact ⟨by rw [h2.1], by rw [h2.2]⟩

theorem mem_abs_leaves {h : HMesh} {el : Nat} (hel : el ∈ h.leaves) : h.cellOf el ∈ h.abs.leaves :=
  List.mem_map.mpr ⟨el, hel, rfl⟩

theorem FlagsOK.seamSide {h : HMesh} {el : Nat} (hf : FlagsOK h el) (s : Side) :
    SeamSide h (h.cellOf el) s (h.edge ((h.elem el).side s)).glued := by
  intro hg
  rw [(hf s).2] at hg
  simp only [isSeam, Bool.and_eq_true, Bool.or_eq_true, beq_iff_eq] at hg
  exact ⟨hg.1.1, hg.1.2, hg.2⟩

/-- a side on the true boundary has no neighbours (as `boundary_none` of C10) -/
theorem boundary_none' {m : Mesh} (h : Inv m) {c : Cell} (_hc : c ∈ m.leaves) (s : Side)
    (hb : Stbem.Mesh.onBoundary m c s = true) (hseam : ¬ (m.glue = true ∧ (s = .left ∨ s = .right))) :
    nbrs m c s = [] := by
  rw [List.eq_nil_iff_forall_not_mem]
  intro n hn
  obtain ⟨hnl, ha⟩ := Stbem.Mesh.mem_nbrs.mp hn
  obtain ⟨p1, p2⟩ := h.tiles.proper n hnl
  obtain ⟨i1, i2, i3, i4⟩ := h.tiles.inside n hnl
  cases s <;> simp only [Stbem.Mesh.onBoundary, decide_eq_true_eq] at hb <;> simp only [Adj] at ha
  · linarith [ha.1]
  · rcases ha.1 with e | ⟨g, _, _⟩
    · linarith
    · exact hseam ⟨g, Or.inr rfl⟩
  · linarith [ha.1]
  · rcases ha.1 with e | ⟨g, _, _⟩
    · linarith
    · exact hseam ⟨g, Or.inl rfl⟩

/-! ### the four cases -/

section
variable {h : HMesh} (hi : HInv h) (ha : Inv h.abs)
include hi ha

theorem caseA_nbrs {el : Nat} (hel : el ∈ h.leaves) {s : Side} {f n : Nat} (hn : n ∈ h.leaves)
    (hf : (h.elem n).side s.opp = f) (ho : Opp h ((h.elem el).side s) f) :
    nbrs h.abs (h.cellOf el) s = [h.cellOf n] := by
  have gc := hi.geom el hel
  have gn := hi.geom n hn
  obtain ⟨r1, r2⟩ := ho.ptRel
  rw [← hf, gn.v0pt, gc.v1pt] at r1
  rw [← hf, gn.v1pt, gc.v0pt] at r2
  obtain ⟨nm, ht⟩ := nm_of_corners ha.dom.2 ((hi.flags el hel).seamSide s) rfl (nu_corner_next _ s) r1 r2
  have tc := tau_corner (h.cellOf el) s
  have pc := gc.proper
  have pn := gn.proper
  have hlo : tlo (h.cellOf n) s = tlo (h.cellOf el) s := by
    cases hd : descSide s <;> rw [hd] at ht tc <;> simp only [if_true, Bool.false_eq_true, if_false] at ht tc
    · rw [ht.1, tc.2]
    · rw [ht.1, tc.1]
  have hhi : thi (h.cellOf n) s = thi (h.cellOf el) s := by
    cases hd : descSide s <;> rw [hd] at ht tc <;> simp only [if_true, Bool.false_eq_true, if_false] at ht tc
    · rw [ht.2, tc.1]
    · rw [ht.2, tc.2]
  have hlt : tlo (h.cellOf el) s < thi (h.cellOf el) s := by cases s <;> simp only [tlo, thi] <;> tauto
  apply Stbem.Mesh.nbrs_single ha (mem_abs_leaves hn) _ (le_of_eq hlo) (le_of_eq hhi.symm)
  rw [Stbem.Mesh.adj_iff_nm]
  exact ⟨nm, hlt, by rw [hhi]; exact hlt, by rw [hlo]; exact hlt, by rw [hlo, hhi]; exact hlt⟩

theorem caseC_nbrs {el : Nat} (hel : el ∈ h.leaves) {s : Side} {p k0 k1 f n : Nat}
    (hk : KidsCover h p k0 k1) (he : (h.elem el).side s = k0 ∨ (h.elem el).side s = k1)
    (hn : n ∈ h.leaves) (hf : (h.elem n).side s.opp = f) (ho : Opp h p f) :
    nbrs h.abs (h.cellOf el) s = [h.cellOf n] := by
  have gc := hi.geom el hel
  have gn := hi.geom n hn
  obtain ⟨r1, r2⟩ := ho.ptRel
  rw [← hf, gn.v0pt] at r1
  rw [← hf, gn.v1pt] at r2
  have pc := gc.proper
  have hlt : tlo (h.cellOf el) s < thi (h.cellOf el) s := by cases s <;> simp only [tlo, thi] <;> tauto
  have tc := tau_corner (h.cellOf el) s
  have nc := nu_corner_next (h.cellOf el) s
  have hgl : (h.edge p).glued = (h.edge ((h.elem el).side s)).glued := by
    rcases he with e | e <;> rw [e]
    · exact hk.glued0.symm
    · exact hk.glued1.symm
  have hseam := (hi.flags el hel).seamSide s
  rw [← hgl] at hseam
  -- the end points of `p` in terms of the corners of `c`
  have hends : (h.pt (h.edge p).v0 = corner (h.cellOf el) s ∧
        corner (h.cellOf el) (sideNext s) = mid (h.pt (h.edge p).v0) (h.pt (h.edge p).v1)) ∨
      (corner (h.cellOf el) s = mid (h.pt (h.edge p).v0) (h.pt (h.edge p).v1) ∧
        h.pt (h.edge p).v1 = corner (h.cellOf el) (sideNext s)) := by
    rcases he with e | e
    · left
      have a := gc.v0pt s; have b := gc.v1pt s
      rw [e] at a b
      rw [hk.v00] at a
      exact ⟨a, by rw [← b, hk.midpt]⟩
    · right
      have a := gc.v0pt s; have b := gc.v1pt s
      rw [e] at a b
      rw [← hk.vm, hk.midpt] at a
      rw [hk.v11] at b
      exact ⟨a.symm, b⟩
  have hnu : nu s (h.pt (h.edge p).v0) = nu s (corner (h.cellOf el) s) ∧
      nu s (h.pt (h.edge p).v1) = nu s (corner (h.cellOf el) s) := by
    rcases hends with ⟨a, b⟩ | ⟨a, b⟩
    · have := congrArg (nu s) b
      rw [nu_mid, nc, ← a] at this
      exact ⟨by rw [a], by rw [← a]; linarith⟩
    · have := congrArg (nu s) a
      rw [nu_mid, ← nc, ← b] at this
      exact ⟨by rw [← nc, ← b]; linarith, by rw [b, nc]⟩
  obtain ⟨nm, ht⟩ := nm_of_corners ha.dom.2 hseam hnu.1 hnu.2 r1 r2
  have htau : (if descSide s then tau s (h.pt (h.edge p).v0) ≤ tlo (h.cellOf el) s ∧
        thi (h.cellOf el) s ≤ tau s (h.pt (h.edge p).v1)
      else tau s (h.pt (h.edge p).v1) ≤ tlo (h.cellOf el) s ∧
        thi (h.cellOf el) s ≤ tau s (h.pt (h.edge p).v0)) := by
    rcases hends with ⟨a, b⟩ | ⟨a, b⟩
    · have := congrArg (tau s) b
      rw [tau_mid, a] at this
      cases hd : descSide s <;> rw [hd] at tc <;> simp only [if_true, Bool.false_eq_true, if_false] at tc ⊢
      · rw [a, tc.1]; rw [tc.1, tc.2] at this; constructor <;> linarith
      · rw [a, tc.1]; rw [tc.1, tc.2] at this; constructor <;> linarith
    · have := congrArg (tau s) a
      rw [tau_mid, b] at this
      cases hd : descSide s <;> rw [hd] at tc <;> simp only [if_true, Bool.false_eq_true, if_false] at tc ⊢
      · rw [b, tc.2]; rw [tc.1, tc.2] at this; constructor <;> linarith
      · rw [b, tc.2]; rw [tc.1, tc.2] at this; constructor <;> linarith
  have hlohi : tlo (h.cellOf n) s ≤ tlo (h.cellOf el) s ∧ thi (h.cellOf el) s ≤ thi (h.cellOf n) s := by
    cases hd : descSide s <;> rw [hd] at ht htau <;> simp only [if_true, Bool.false_eq_true, if_false] at ht htau
    · rw [ht.1, ht.2]; exact htau
    · rw [ht.1, ht.2]; exact htau
  have pn := gn.proper
  have hltn : tlo (h.cellOf n) s < thi (h.cellOf n) s := by cases s <;> simp only [tlo, thi] <;> tauto
  apply Stbem.Mesh.nbrs_single ha (mem_abs_leaves hn) _ hlohi.1 hlohi.2
  rw [Stbem.Mesh.adj_iff_nm]
  exact ⟨nm, hlt, by linarith [hlohi.2], by linarith [hlohi.1], hltn⟩

theorem caseB_nbrs {el : Nat} (hel : el ∈ h.leaves) {s : Side} {f f0 f1 n0 n1 : Nat}
    (hk : KidsCover h f f0 f1) (ho : Opp h ((h.elem el).side s) f)
    (hn0 : n0 ∈ h.leaves) (hf0 : (h.elem n0).side s.opp = f0)
    (hn1 : n1 ∈ h.leaves) (hf1 : (h.elem n1).side s.opp = f1) :
    nbrs h.abs (h.cellOf el) s = [h.cellOf n0, h.cellOf n1] := by
  have gc := hi.geom el hel
  have g0 := hi.geom n0 hn0
  have g1 := hi.geom n1 hn1
  obtain ⟨r1, r2⟩ := ho.ptRel
  rw [gc.v1pt] at r1
  rw [gc.v0pt] at r2
  have pc := gc.proper
  have hlt : tlo (h.cellOf el) s < thi (h.cellOf el) s := by cases s <;> simp only [tlo, thi] <;> tauto
  have tc := tau_corner (h.cellOf el) s
  have nc := nu_corner_next (h.cellOf el) s
  have hseam := (hi.flags el hel).seamSide s
  have rm := ptRel_mid hseam nc.symm r1 r2 ha.dom.2
  -- corners of the two neighbours
  have a0 : h.pt (h.edge f).v0 = corner (h.cellOf n0) s.opp := by rw [← hk.v00, ← hf0, g0.v0pt]
  have b0 : mid (h.pt (h.edge f).v0) (h.pt (h.edge f).v1) = corner (h.cellOf n0) (sideNext s.opp) := by
    rw [← hk.midpt, ← hf0, g0.v1pt]
  have a1 : mid (h.pt (h.edge f).v0) (h.pt (h.edge f).v1) = corner (h.cellOf n1) s.opp := by
    rw [← hk.midpt, hk.vm, ← hf1, g1.v0pt]
  have b1 : h.pt (h.edge f).v1 = corner (h.cellOf n1) (sideNext s.opp) := by
    rw [← hk.v11, ← hf1, g1.v1pt]
  rw [a0] at r1; rw [b1] at r2
  have rm0 := rm; rw [b0] at rm0
  have rm1 := rm; rw [a1] at rm1
  have hnm : nu s (mid (corner (h.cellOf el) (sideNext s)) (corner (h.cellOf el) s)) =
      nu s (corner (h.cellOf el) s) := by rw [nu_mid, nc]; ring
  obtain ⟨nm0, ht0⟩ := nm_of_corners ha.dom.2 hseam hnm nc r1 rm0
  obtain ⟨nm1, ht1⟩ := nm_of_corners ha.dom.2 hseam rfl hnm rm1 r2
  rw [tau_mid] at ht0 ht1
  have p0 := g0.proper
  have p1 := g1.proper
  have hlt0 : tlo (h.cellOf n0) s < thi (h.cellOf n0) s := by cases s <;> simp only [tlo, thi] <;> tauto
  have hlt1 : tlo (h.cellOf n1) s < thi (h.cellOf n1) s := by cases s <;> simp only [tlo, thi] <;> tauto
  have hM : tlo (h.cellOf el) s < (tlo (h.cellOf el) s + thi (h.cellOf el) s) / 2 ∧
      (tlo (h.cellOf el) s + thi (h.cellOf el) s) / 2 < thi (h.cellOf el) s := by constructor <;> linarith
  cases hd : descSide s <;> rw [hd] at ht0 ht1 tc <;>
    simp only [if_true, Bool.false_eq_true, if_false] at ht0 ht1 tc
  · rw [tc.1, tc.2] at ht0 ht1
    refine Stbem.Mesh.nbrs_pair ha (mem_abs_leaves hn0) (mem_abs_leaves hn1) ?_ ?_ hM ?_
    · rw [Stbem.Mesh.adj_iff_nm]
      exact ⟨nm0, hlt, by rw [ht0.2]; linarith, by rw [ht0.1]; exact hlt, hlt0⟩
    · rw [Stbem.Mesh.adj_iff_nm]
      exact ⟨nm1, hlt, by rw [ht1.2]; exact hlt, by rw [ht1.1]; linarith, hlt1⟩
    · rw [hd]; simp only [Bool.false_eq_true, if_false]
      exact ⟨by rw [ht1.1], by rw [ht1.2], by rw [ht0.1], by rw [ht0.2]⟩
  · rw [tc.1, tc.2] at ht0 ht1
    refine Stbem.Mesh.nbrs_pair ha (mem_abs_leaves hn0) (mem_abs_leaves hn1) ?_ ?_ hM ?_
    · rw [Stbem.Mesh.adj_iff_nm]
      exact ⟨nm0, hlt, by rw [ht0.2]; exact hlt, by rw [ht0.1]; linarith, hlt0⟩
    · rw [Stbem.Mesh.adj_iff_nm]
      exact ⟨nm1, hlt, by rw [ht1.2]; linarith, by rw [ht1.1]; exact hlt, hlt1⟩
    · rw [hd]; simp only [if_true]
      exact ⟨by rw [ht0.1]; ring, by rw [ht0.2], by rw [ht1.1], by rw [ht1.2]; ring⟩

theorem caseD_nbrs {el : Nat} (hel : el ∈ h.leaves) {s : Side}
    (hb : (h.edge ((h.elem el).side s)).onBoundary = true)
    (hg : (h.edge ((h.elem el).side s)).glued = false) :
    nbrs h.abs (h.cellOf el) s = [] := by
  have hf := hi.flags el hel s
  rw [hb] at hf
  apply boundary_none' ha (mem_abs_leaves hel) s hf.1.symm
  rintro ⟨g, hs⟩
  have : isSeam h (h.cellOf el) s = true := by
    simp only [isSeam, Bool.and_eq_true, Bool.or_eq_true, beq_iff_eq]
    exact ⟨⟨g, hs⟩, hf.1.symm⟩
  rw [← hf.2, hg] at this
  cases this

end

/-! ### `Edge.neighbour_elements()` on a leaf edge -/

theorem assert_true (tag : String) : assert true tag = .ok () := rfl

/-- `Edge.neighbour_elements()` of side `s` of a leaf returns the handles of the geometric neighbours of the
A-layer, in the same order, and never trips its assertion -/
theorem neighbourElements_cells {h : HMesh} (hi : HInv h) (ha : Inv h.abs) {el : Nat}
    (hel : el ∈ h.leaves) (s : Side) :
    ∃ l : List Nat, h.neighbourElements ((h.elem el).side s) = .ok (l.map some) ∧
      (∀ n ∈ l, n ∈ h.leaves) ∧ l.map h.cellOf = nbrs h.abs (h.cellOf el) s := by
  unfold HMesh.neighbourElements
  rcases hi.cases el hel s with hA | hB | hC | hD
  · obtain ⟨f, n, h1, h2, -, hn, hf, ho, -⟩ := hA
    refine ⟨[n], ?_, by simpa using hn, ?_⟩
    · rw [neighbourElementsF_succ, h1]
      simp only [h2]
      rw [← hf, hi.own.elem n hn]
      rfl
    · rw [caseA_nbrs hi ha hel hn hf ho]; rfl
  · obtain ⟨f, f0, f1, n0, n1, h1, -, -, hk, ho, -, -, hn0, hf0, hn1, hf1, -⟩ := hB
    refine ⟨[n0, n1], ?_, ?_, ?_⟩
    · rw [neighbourElementsF_succ, h1]
      simp only [hk.kids]
      rw [← hf0, ← hf1, hi.own.elem n0 hn0, hi.own.elem n1 hn1]
      rfl
    · intro n hn
      simp only [List.mem_cons, List.not_mem_nil, or_false] at hn
      rcases hn with rfl | rfl <;> assumption
    · rw [caseB_nbrs hi ha hel hk ho hn0 hf0 hn1 hf1]; rfl
  · obtain ⟨p, k0, k1, f, n, h1, h2, hk, he, -, h6, h7, -, hn, hf, ho, -⟩ := hC
    refine ⟨[n], ?_, by simpa using hn, ?_⟩
    · rw [neighbourElementsF_succ, h1]
      have hfil : ((h.edge ((h.elem el).side s)).parent.filter fun p => (h.edge p).nbr.isSome) = some p := by
        rw [h2]; simp [Option.filter, h6]
      simp only [hfil]
      rw [neighbourElementsF_succ, h6]
      simp only [h7]
      rw [← hf, hi.own.elem n hn]
      rfl
    · rw [caseC_nbrs hi ha hel hk he hn hf ho]; rfl
  · obtain ⟨h1, h2, h3, h4⟩ := hD
    refine ⟨[], ?_, by simp, ?_⟩
    · rw [neighbourElementsF_succ, h1]
      have hfil : ((h.edge ((h.elem el).side s)).parent.filter fun p => (h.edge p).nbr.isSome) = none := by
        cases hp : (h.edge ((h.elem el).side s)).parent with
        | none => rfl
        | some p => simp [Option.filter, (h2 p hp).1]
      simp only [hfil, h3, h4]
      rfl
    · rw [caseD_nbrs hi ha hel h3 h4]; rfl

end Stbem.HalfEdge
