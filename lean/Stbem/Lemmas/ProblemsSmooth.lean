import Stbem.Lemmas.ProblemsHeat
import Mathlib.Analysis.SpecialFunctions.Trigonometric.Deriv
import Mathlib.Algebra.Order.Archimedean.Real.Basic
import Mathlib.Algebra.Order.Floor.Ring
import Mathlib.Analysis.SpecialFunctions.Trigonometric.Basic
import Mathlib.Tactic.IntervalCases

/-!
# The smooth model solution on a square (helper layer for `Props/C03Problems.lean`)

`sinSol κ t x y = exp(−2κ²t) · sin(κx) · sin(κy)` on the square `[0, L]²` with `κ L = π`:
heat equation, zero boundary values, outward normal derivative along the counter-clockwise arc-length
parametrisation `sqGamma L` (`PiecewisePolygon([v0, v1, v2, v3, v0])` of `src/parametrization.py`,
`v0 = (0,0), v1 = (L,0), v2 = (L,L), v3 = (0,L)`), and Python's `x̂ % L` on each side.
-/
namespace Stbem.Problems.R

/-- the separable solution -/
noncomputable def sinSol (κ t x y : ℝ) : ℝ := Real.exp (-2 * κ ^ 2 * t) * (Real.sin (κ * x) * Real.sin (κ * y))

theorem heat1_expSin (κ t a : ℝ) : Heat1 (fun τ α => Real.exp (-κ ^ 2 * τ) * Real.sin (κ * α)) t a := by
  have hlin : ∀ α : ℝ, HasDerivAt (fun α : ℝ => κ * α) κ α := fun α => by
    simpa using (hasDerivAt_id α).const_mul κ
  have ht : HasDerivAt (fun τ : ℝ => Real.exp (-κ ^ 2 * τ) * Real.sin (κ * a))
      (Real.exp (-κ ^ 2 * t) * (-κ ^ 2) * Real.sin (κ * a)) t := by
    have h1 : HasDerivAt (fun τ : ℝ => -κ ^ 2 * τ) (-κ ^ 2) t := by
      simpa using (hasDerivAt_id t).const_mul (-κ ^ 2)
    exact (h1.exp).mul_const _
  have ha : ∀ α, HasDerivAt (fun α : ℝ => Real.exp (-κ ^ 2 * t) * Real.sin (κ * α))
      (Real.exp (-κ ^ 2 * t) * (Real.cos (κ * α) * κ)) α := fun α =>
    ((Real.hasDerivAt_sin _).comp α (hlin α)).const_mul _
  have haa : HasDerivAt (fun α : ℝ => Real.exp (-κ ^ 2 * t) * (Real.cos (κ * α) * κ))
      (Real.exp (-κ ^ 2 * t) * (-Real.sin (κ * a) * κ * κ)) a :=
    (((Real.hasDerivAt_cos _).comp a (hlin a)).mul_const κ).const_mul _
  exact ⟨_, _, _, ht, ha, haa, by ring⟩

theorem sinSol_eq (κ : ℝ) : (fun τ α β => sinSol κ τ α β)
    = fun τ α β => (Real.exp (-κ ^ 2 * τ) * Real.sin (κ * α)) * (Real.exp (-κ ^ 2 * τ) * Real.sin (κ * β)) := by
  funext τ α β
  unfold sinSol
  have : Real.exp (-2 * κ ^ 2 * τ) = Real.exp (-κ ^ 2 * τ) * Real.exp (-κ ^ 2 * τ) := by
    rw [← Real.exp_add]; congr 1; ring
  rw [this]; ring

/-- `sinSol κ` solves the heat equation everywhere -/
theorem heat2_sinSol (κ t a b : ℝ) : Heat2 (fun τ α β => sinSol κ τ α β) t a b := by
  rw [sinSol_eq]
  exact Heat2.of_mul (heat1_expSin κ t a) (heat1_expSin κ t b)

theorem sinSol_zero (κ x y : ℝ) : sinSol κ 0 x y = Real.sin (κ * x) * Real.sin (κ * y) := by
  unfold sinSol; simp

/-- space derivatives -/
theorem hasDerivAt_sinSol_x (κ t x y : ℝ) :
    HasDerivAt (fun x => sinSol κ t x y) (Real.exp (-2 * κ ^ 2 * t) * (Real.cos (κ * x) * κ * Real.sin (κ * y))) x := by
  have hlin : HasDerivAt (fun α : ℝ => κ * α) κ x := by simpa using (hasDerivAt_id x).const_mul κ
  exact (((Real.hasDerivAt_sin _).comp x hlin).mul_const _).const_mul _

theorem hasDerivAt_sinSol_y (κ t x y : ℝ) :
    HasDerivAt (fun y => sinSol κ t x y) (Real.exp (-2 * κ ^ 2 * t) * (Real.sin (κ * x) * (Real.cos (κ * y) * κ))) y := by
  have hlin : HasDerivAt (fun α : ℝ => κ * α) κ y := by simpa using (hasDerivAt_id y).const_mul κ
  exact (((Real.hasDerivAt_sin _).comp y hlin).const_mul _).const_mul _

/-! ## the square and its parametrisation -/

/-- `PiecewisePolygon([(0,0), (L,0), (L,L), (0,L), (0,0)]).eval`: the first piece whose closed parameter range
contains `x̂` (`np.select`) -/
noncomputable def sqGamma (L xh : ℝ) : ℝ × ℝ :=
  if xh ≤ L then (xh, 0)
  else if xh ≤ 2 * L then (L, xh - L)
  else if xh ≤ 3 * L then (L - (xh - 2 * L), L)
  else (0, L - (xh - 3 * L))

/-- outward unit normal of the side `k = 0, 1, 2, 3` (bottom, right, top, left) -/
def sqNormal : ℕ → ℝ × ℝ
  | 0 => (0, -1)
  | 1 => (1, 0)
  | 2 => (0, 1)
  | _ => (-1, 0)

theorem sqGamma_side0 {L xh : ℝ} (h1 : xh ≤ L) : sqGamma L xh = (xh, 0) := by
  unfold sqGamma; rw [if_pos h1]

theorem sqGamma_side1 {L xh : ℝ} (h0 : L ≤ xh) (h1 : xh ≤ 2 * L) : sqGamma L xh = (L, xh - L) := by
  unfold sqGamma
  by_cases h : xh ≤ L
  · have : xh = L := le_antisymm h h0
    subst this; simp
  · rw [if_neg h, if_pos h1]

theorem sqGamma_side2 {L xh : ℝ} (hL : 0 < L) (h0 : 2 * L ≤ xh) (h1 : xh ≤ 3 * L) :
    sqGamma L xh = (L - (xh - 2 * L), L) := by
  unfold sqGamma
  rw [if_neg (by linarith)]
  by_cases h : xh ≤ 2 * L
  · have : xh = 2 * L := le_antisymm h h0
    subst this; rw [if_pos le_rfl]; congr 1 <;> ring
  · rw [if_neg h, if_pos h1]

theorem sqGamma_side3 {L xh : ℝ} (hL : 0 < L) (h0 : 3 * L ≤ xh) : sqGamma L xh = (0, L - (xh - 3 * L)) := by
  unfold sqGamma
  rw [if_neg (by linarith), if_neg (by linarith)]
  by_cases h : xh ≤ 3 * L
  · have : xh = 3 * L := le_antisymm h h0
    subst this; rw [if_pos le_rfl]; congr 1 <;> ring
  · rw [if_neg h]

/-! ## Python's `%` -/

/-- `x % y = x − y ⌊x/y⌋` (the definition generated into `Gen/ProblemsR.lean`, restated here) -/
noncomputable def pmod' (x y : ℝ) : ℝ := x - y * ((⌊x / y⌋ : ℤ) : ℝ)

theorem pmod'_of_mem {L : ℝ} (hL : 0 < L) (k : ℤ) {x : ℝ} (h0 : k * L ≤ x) (h1 : x < (k + 1) * L) :
    pmod' x L = x - k * L := by
  have hf : ⌊x / L⌋ = k := by
    rw [Int.floor_eq_iff]
    constructor
    · rw [le_div_iff₀ hL]; exact h0
    · rw [div_lt_iff₀ hL]; exact h1
  unfold pmod'; rw [hf]; ring

theorem pmod'_nonneg_lt {L : ℝ} (hL : 0 < L) (x : ℝ) : 0 ≤ pmod' x L ∧ pmod' x L < L := by
  unfold pmod'
  have h1 : ((⌊x / L⌋ : ℤ) : ℝ) ≤ x / L := Int.floor_le _
  have h2 : x / L < ((⌊x / L⌋ : ℤ) : ℝ) + 1 := Int.lt_floor_add_one _
  rw [le_div_iff₀ hL] at h1
  rw [div_lt_iff₀ hL] at h2
  constructor <;> nlinarith

/-- along the closed side `k` the trace factor `sin(κ (x̂ % L))` is `sin(κ (x̂ − kL))` (also at the far corner, where
`x̂ % L` jumps to `0` and both sides vanish) -/
theorem sin_pmod' {κ L : ℝ} (hL : 0 < L) (hκ : κ * L = Real.pi) (k : ℕ) {x : ℝ} (h0 : k * L ≤ x)
    (h1 : x ≤ (k + 1) * L) : Real.sin (κ * pmod' x L) = Real.sin (κ * (x - k * L)) := by
  rcases lt_or_eq_of_le h1 with h | h
  · rw [pmod'_of_mem hL (k : ℤ) (by exact_mod_cast h0) (by exact_mod_cast h)]
    norm_cast
  · have hm : pmod' x L = x - ((k : ℤ) + 1 : ℤ) * L := by
      apply pmod'_of_mem hL
      · push_cast; linarith
      · push_cast; linarith
    rw [hm, h]
    push_cast
    have e1 : κ * (((k : ℝ) + 1) * L - ((k : ℝ) + 1) * L) = 0 := by ring
    have e2 : κ * (((k : ℝ) + 1) * L - (k : ℝ) * L) = Real.pi := by rw [← hκ]; ring
    rw [e1, e2, Real.sin_zero, Real.sin_pi]

/-! ## the normal derivative on the four sides -/

/-- for `κ L = π`, on side `k` (parameter `x̂ ∈ [kL, (k+1)L]`): `n_k · ∇ sinSol(t, γ(x̂)) = −κ e^{−2κ²t} sin(κ (x̂ − kL))` -/
theorem normalDeriv_sinSol {κ L : ℝ} (hL : 0 < L) (hκ : κ * L = Real.pi) (t : ℝ) (k : ℕ) (hk : k < 4) {xh : ℝ}
    (h0 : k * L ≤ xh) (h1 : xh ≤ (k + 1) * L) :
    ∃ ux uy : ℝ, HasDerivAt (fun x => sinSol κ t x (sqGamma L xh).2) ux (sqGamma L xh).1 ∧
      HasDerivAt (fun y => sinSol κ t (sqGamma L xh).1 y) uy (sqGamma L xh).2 ∧
      (sqNormal k).1 * ux + (sqNormal k).2 * uy
        = -κ * Real.exp (-2 * κ ^ 2 * t) * Real.sin (κ * (xh - k * L)) := by
  refine ⟨_, _, hasDerivAt_sinSol_x κ t _ _, hasDerivAt_sinSol_y κ t _ _, ?_⟩
  have hsub : ∀ s : ℝ, Real.sin (κ * (L - s)) = Real.sin (κ * s) := by
    intro s
    have : κ * (L - s) = Real.pi - κ * s := by rw [← hκ]; ring
    rw [this, Real.sin_pi_sub]
  have hcosL : Real.cos (κ * L) = -1 := by rw [hκ, Real.cos_pi]
  have hsinL : Real.sin (κ * L) = 0 := by rw [hκ, Real.sin_pi]
  interval_cases k
  · -- bottom side: γ = (x̂, 0), n = (0, −1)
    have hg := sqGamma_side0 (L := L) (xh := xh) (by simpa using h1)
    rw [hg]
    simp only [sqNormal, mul_zero, Real.cos_zero, Real.sin_zero, Nat.cast_zero, zero_mul, sub_zero]
    ring
  · -- right side: γ = (L, x̂ − L), n = (1, 0)
    have hg := sqGamma_side1 (L := L) (xh := xh) (by simpa using h0) (by norm_num at h1; linarith)
    rw [hg]
    simp only [sqNormal, hcosL, hsinL, Nat.cast_one, one_mul]
    ring
  · -- top side: γ = (L − (x̂ − 2L), L), n = (0, 1)
    have hg := sqGamma_side2 (L := L) (xh := xh) hL (by simpa using h0) (by norm_num at h1; linarith)
    rw [hg]
    simp only [sqNormal, hcosL, hsinL, hsub, Nat.cast_ofNat]
    ring
  · -- left side: γ = (0, L − (x̂ − 3L)), n = (−1, 0)
    have hg := sqGamma_side3 (L := L) (xh := xh) hL (by simpa using h0)
    rw [hg]
    simp only [sqNormal, hsub, mul_zero, Real.cos_zero, Real.sin_zero, Nat.cast_ofNat]
    ring

/-- zero boundary values on the four sides -/
theorem sinSol_boundary {κ L : ℝ} (hκ : κ * L = Real.pi) (t s : ℝ) :
    sinSol κ t s 0 = 0 ∧ sinSol κ t L s = 0 ∧ sinSol κ t s L = 0 ∧ sinSol κ t 0 s = 0 := by
  unfold sinSol
  simp [hκ]

end Stbem.Problems.R
