import Stbem.Lemmas.QuadtreeCoherentAbs

/-!
# One call of the generated `refine` simulates one call of the hand model's `refine`

Induction on the fuel.  `gen_closure_step`: one pass of the loop over the edges (`nbrs`, `parent_edge`, `nbrs` again, the
assertion on the levels, the recursive call) is `closureStep` of the hand model.  `sim_succ`: the whole call.  The
preservation of `Coherent` by the registration part (`TailPres`) is a hypothesis here; it is discharged in
`QuadtreeCoherentPres.lean`.
-/
namespace Stbem.QuadtreeTie
open Stbem.Quadtree Stbem.Gen
open QuadtreeGen (dictHas dictGet dictSet Element_edges)

/-- the registration part of `refine` restores `Coherent` -/
def TailPres : Prop := ∀ (g : GMesh) (e : GElem), Coherent g → QInv (absMesh g) → e ∈ g.leaf_elements →
  QInv (absMesh (tailState g e)) → Coherent (tailState g e)

/-- what a returning call of the generated `refine` guarantees -/
def Post (g : GMesh) (r : GMesh × List GElem) : Prop :=
  CohInv r.1 ∧ nRoots r.1 = nRoots g ∧ (∀ c ∈ g.elements, c ∈ r.1.elements) ∧ (∀ c ∈ r.2, c ∈ r.1.elements) ∧
    r.2.map (absElem (nRoots r.1)) = lastChildren (absMesh r.1)

def SimAt (fuel : Nat) : Prop := ∀ (g : GMesh) (e : GElem), CohInv g → e ∈ g.elements → e.level < fuel →
  (fun r : GMesh × List GElem => absMesh r.1) <$> QuadtreeGen.InitialMesh_refine fuel g e =
      refine fuel (absMesh g) (absElem (nRoots g) e) ∧
    ∀ r, QuadtreeGen.InitialMesh_refine fuel g e = .ok r → Post g r

/-- what a returning pass of the loop over the edges guarantees -/
def Mid (g g' : GMesh) : Prop := CohInv g' ∧ nRoots g' = nRoots g ∧ (∀ c ∈ g.elements, c ∈ g'.elements)

theorem Mid.refl {g : GMesh} (h : CohInv g) : Mid g g := ⟨h, rfl, fun _ h => h⟩

theorem Mid.trans {a b c : GMesh} (h1 : Mid a b) (h2 : Mid b c) : Mid a c :=
  ⟨h2.1, h2.2.1.trans h1.2.1, fun x hx => h2.2.2 x (h1.2.2 x hx)⟩

theorem gen_closure_step {fuel : Nat} (IH : SimAt fuel) {g : GMesh} {e : GElem} (hg : CohInv g) (he : e ∈ g.elements)
    (hlev : e.level < fuel + 1) (s : Side) :
    absMesh <$> QuadtreeGen.InitialMesh_refine_loop1 (QuadtreeGen.InitialMesh_refine fuel) e g (edgeOf e s) =
        closureStep fuel (absElem (nRoots g) e) (absMesh g) s ∧
      ∀ g', QuadtreeGen.InitialMesh_refine_loop1 (QuadtreeGen.InitialMesh_refine fuel) e g (edgeOf e s) = .ok g' →
        Mid g g' := by
  obtain ⟨hc, hq⟩ := hg
  have hn := nbrs_rev hc hq he s
  have hp := par_has hc hq he s
  have hsh := hc.shaped e he
  unfold QuadtreeGen.InitialMesh_refine_loop1 closureStep
  cases hf : findSq (absMesh g) (nbrX (absElem (nRoots g) e) s) (nbrY (absElem (nRoots g) e) s)
      (absElem (nRoots g) e).size with
  | some f =>
    rw [hf] at hn
    simp only [Option.isSome_some] at hn
    simp only [hn, not_true_eq_false, if_false, Option.isSome_some, if_true]
    exact ⟨rfl, fun g' h => by cases h; exact Mid.refl ⟨hc, hq⟩⟩
  | none =>
    rw [hf] at hn
    simp only [Option.isSome_none] at hn
    simp only [hn, Bool.false_eq_true, not_false_eq_true, if_true, Option.isSome_none, if_false, Prod.mk.eta, hp]
    cases hon : onParentEdge (absElem (nRoots g) e).pos s with
    | false =>
      simp only [Bool.false_eq_true, not_false_eq_true, if_true, Bool.not_false]
      exact ⟨rfl, fun g' h => by cases h; exact Mid.refl ⟨hc, hq⟩⟩
    | true =>
      rw [hon] at hp
      obtain ⟨t1, ht1, -⟩ := dictGet_of_has hp
      obtain ⟨-, hpa, hpb, hpts⟩ := par_get hc hq he s (pa := t1.1) (pb := t1.2) ht1
      have hT : 0 < (sq (pnbrX (absElem (nRoots g) e) s) (pnbrY (absElem (nRoots g) e) s)
          (2 * (absElem (nRoots g) e).size)).size := by
        have := absElem_size_pos (nRoots g) hsh
        simp only [sq]; linarith
      have hn2 := nbrs_has hc hq hpb hpa hT hpts
      simp only [sq] at hn2
      simp only [not_true_eq_false, if_false, Bool.not_true, Bool.false_eq_true, ht1, bind, Except.bind, hn2]
      cases hf2 : findSq (absMesh g) (pnbrX (absElem (nRoots g) e) s) (pnbrY (absElem (nRoots g) e) s)
          (2 * (absElem (nRoots g) e).size) with
      | none =>
        simp only [Option.isSome_none, Bool.false_eq_true, if_false]
        exact ⟨rfl, fun g' h => by cases h; exact Mid.refl ⟨hc, hq⟩⟩
      | some f =>
        rw [hf2] at hn2
        simp only [Option.isSome_some] at hn2
        obtain ⟨t2, ht2, -⟩ := dictGet_of_has hn2
        obtain ⟨ht2m, hfs⟩ := nbrs_get hc hq hT hpts ht2
        simp only [sq] at hfs
        rw [hf2] at hfs
        injection hfs with hfs
        subst hfs
        simp only [Option.isSome_some, if_true, ht2, QuadtreeGen.assertThat]
        by_cases hl : t2.level + 1 = e.level
        · have hl' : ¬ ((absElem (nRoots g) t2).level + 1 ≠ (absElem (nRoots g) e).level) := by
            simpa [absElem] using hl
          rw [if_pos hl, if_neg hl']
          obtain ⟨i1, i2⟩ := IH g t2 ⟨hc, hq⟩ ht2m (by omega)
          simp only [pure, Except.pure]
          cases hr : QuadtreeGen.InitialMesh_refine fuel g t2 with
          | error err =>
            rw [hr] at i1
            refine ⟨?_, fun g' h => by cases h⟩
            rw [← i1]; rfl
          | ok r =>
            rw [hr] at i1
            obtain ⟨q1, q2, q3, -, -⟩ := i2 r hr
            refine ⟨?_, fun g' h => ?_⟩
            · rw [← i1]; rfl
            · cases h
              exact ⟨q1, q2, q3⟩
        · have hl' : (absElem (nRoots g) t2).level + 1 ≠ (absElem (nRoots g) e).level := by
            simpa [absElem] using hl
          rw [if_neg hl, if_pos hl']
          exact ⟨rfl, fun g' h => by cases h⟩

theorem gen_closure_loop {fuel : Nat} (IH : SimAt fuel) {e : GElem} (hlev : e.level < fuel + 1) :
    ∀ (sides : List Side) (g : GMesh), CohInv g → e ∈ g.elements →
      absMesh <$> (sides.map (edgeOf e)).foldlM
          (QuadtreeGen.InitialMesh_refine_loop1 (QuadtreeGen.InitialMesh_refine fuel) e) g =
        sides.foldlM (closureStep fuel (absElem (nRoots g) e)) (absMesh g) ∧
      ∀ g', (sides.map (edgeOf e)).foldlM
          (QuadtreeGen.InitialMesh_refine_loop1 (QuadtreeGen.InitialMesh_refine fuel) e) g = .ok g' → Mid g g' := by
  intro sides
  induction sides with
  | nil =>
    intro g hg _
    exact ⟨rfl, fun g' h => by cases h; exact Mid.refl hg⟩
  | cons s sides ih =>
    intro g hg he
    rw [List.map_cons, List.foldlM_cons, List.foldlM_cons]
    obtain ⟨e1, e2⟩ := gen_closure_step IH hg he hlev s
    cases hr : QuadtreeGen.InitialMesh_refine_loop1 (QuadtreeGen.InitialMesh_refine fuel) e g (edgeOf e s) with
    | error err =>
      rw [hr] at e1
      rw [← e1]
      exact ⟨rfl, fun g' h => by cases h⟩
    | ok g1 =>
      rw [hr] at e1
      have hm := e2 g1 hr
      obtain ⟨j1, j2⟩ := ih g1 hm.1 (hm.2.2 e he)
      rw [hm.2.1] at j1
      rw [← e1]
      exact ⟨j1, fun g' h => hm.trans (j2 g' h)⟩

theorem sim_succ (TP : TailPres) {fuel : Nat} (IH : SimAt fuel) : SimAt (fuel + 1) := by
  intro g e hg he hlev
  rw [refine_succ_gen, refine_succ, edges_eq]
  obtain ⟨l1, l2⟩ := gen_closure_loop IH hlev Side.all g hg he
  cases hr : (Side.all.map (edgeOf e)).foldlM
      (QuadtreeGen.InitialMesh_refine_loop1 (QuadtreeGen.InitialMesh_refine fuel) e) g with
  | error err =>
    rw [hr] at l1
    rw [← l1]
    exact ⟨rfl, fun r h => by cases h⟩
  | ok g1 =>
    rw [hr] at l1
    obtain ⟨⟨hc1, hq1⟩, nR, hsub⟩ := l2 g1 hr
    have he1 := hsub e he
    have hsh := hc1.shaped e he1
    rw [← l1]
    by_cases hl : e ∈ g1.leaf_elements
    · have hn : ∀ q ∈ Element_edges e, ¬ dictHas g1.bisect_edge q = true := by
        intro q hqm
        obtain ⟨s, rfl⟩ := (mem_edges_iff e q).mp hqm
        intro hh
        exact (bis_has_own hc1 hq1 he1 s).mp hh hl
      have hid : ∀ l ∈ g1.leaf_elements, l.id < g1.elements.length :=
        fun l hl => id_lt_of_inv hq1 (hc1.leaves_sub l hl)
      have htail := refineTail_eq g1 e hsh hl hn hc1.bisOK hid
      have habs := tail_abs hc1 hq1 hl
      rw [nR] at habs
      have hleaf : absElem (nRoots g) e ∈ (absMesh g1).leaves := by
        rw [← nR]; exact (abs_leaf_iff hc1 hq1 he1).mpr hl
      have hand : (do
          let m ← (Except.ok (absMesh g1) : Except String QT)
          if !decide (absElem (nRoots g) e ∈ m.leaves) then .error "assert:bisected"
          else pure (bisect m (absElem (nRoots g) e))) = .ok (bisect (absMesh g1) (absElem (nRoots g) e)) := by
        simp [hleaf, bind, Except.bind, pure, Except.pure]
      have heq : (fun r : GMesh × List GElem => absMesh r.1) <$>
          ((Except.ok g1 : Except String GMesh) >>= fun g => refineTail g e) =
          .ok (bisect (absMesh g1) (absElem (nRoots g) e)) := by
        simp only [bind, Except.bind, htail]
        rw [← habs]; rfl
      refine ⟨by rw [heq]; exact hand.symm, ?_⟩
      intro r hrr
      simp only [bind, Except.bind, htail] at hrr
      injection hrr with hrr
      subst hrr
      -- the quadtree invariant of the result: from the hand model
      have l1' : Side.all.foldlM (closureStep fuel (absElem (nRoots g) e)) (absMesh g) = .ok (absMesh g1) := l1.symm
      have hqr : QInv (absMesh (tailState g1 e)) := by
        rw [habs]
        by_cases hl0 : absElem (nRoots g) e ∈ (absMesh g).leaves
        · obtain ⟨m', hm', hres⟩ := refine_res (fuel + 1) (absMesh g) (absElem (nRoots g) e) hg.2 hl0
            (by simpa [absElem] using hlev)
          rw [refine_succ, l1'] at hm'
          rw [hand] at hm'
          injection hm' with hm'
          rw [hm']
          exact hres.inv
        · have hst := refine_stale (fuel + 1) hg.2 (abs_mem_elems he) hl0 (by simpa [absElem] using hlev)
          rw [refine_succ, l1', hand] at hst
          cases hst
      have hcr := TP g1 e hc1 hq1 hl hqr
      refine ⟨⟨hcr, hqr⟩, (tail_nRoots g1 e).trans nR, ?_, ?_, ?_⟩
      · intro c hcm
        simp only [tailState]
        exact List.mem_append_left _ (hsub c hcm)
      · intro c hcm
        simp only [tailState]
        exact List.mem_append_right _ hcm
      · simp only []
        rw [tail_nRoots, tail_kids_abs hc1 he1, habs, nR, lastChildren_bisect]
        simp [absMesh]
    · have hh : dictHas g1.bisect_edge (e.v0, e.v1) = true := (bis_has_own hc1 hq1 he1 .bottom).mpr hl
      have hleaf : absElem (nRoots g) e ∉ (absMesh g1).leaves := by
        rw [← nR]; exact fun h => hl ((abs_leaf_iff hc1 hq1 he1).mp h)
      refine ⟨?_, fun r hrr => ?_⟩
      · simp [bind, Except.bind, refineTail_stale g1 e hh, hleaf, Functor.map, Except.map]
      · simp only [bind, Except.bind, refineTail_stale g1 e hh] at hrr
        cases hrr

theorem sim_all (TP : TailPres) : ∀ fuel, SimAt fuel := by
  intro fuel
  induction fuel with
  | zero => intro g e _ _ h; omega
  | succ fuel ih => exact sim_succ TP ih

/-- `RefineSim` for the invariant `CohInv`, relative to `TailPres` -/
theorem refineSim_of_tailPres (TP : TailPres) : RefineSim CohInv where
  shaped := fun _ hg => hg.1.shaped
  ids := fun _ hg => hg.2.ids
  leaves := fun _ hg => hg.1.leaves_sub
  vidx := fun _ hg => hg.1.vIdx
  step := fun g hg e he => (sim_all TP (e.level + 1) g e hg he (Nat.lt_succ_self _)).1
  pres := fun g hg e he r hr => (sim_all TP (e.level + 1) g e hg he (Nat.lt_succ_self _)).2 r hr

end Stbem.QuadtreeTie
