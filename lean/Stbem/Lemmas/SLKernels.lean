import Stbem.Lemmas.SLBasic
import Mathlib.Tactic.NormNum

/-!
Facts on the *generated* time kernels (`Stbem.Gen.FormulasQ`): causality (they vanish when the
test interval ends before the trial interval starts) and invariance under a common time shift.
The proofs only unfold the generated definitions by name and use `simp only` / `ring`, so they
survive regeneration of the formulas as long as the guards keep their shape.
-/
namespace Stbem.SL
open Stbem.Formulas.Q

variable (S : Fns)

/-! ### causality -/

theorem sl_g_zero {a b : Rat} (r : Rat) (h : a ≤ b) : sl_g S a b r = 0 := by
  simp only [sl_g, if_pos h]

theorem sl_f_zero {a b : Rat} (r : Rat) (h : a ≤ b) : sl_f S a b r = 0 := by
  simp only [sl_f, if_pos h]

theorem fint_1_zero {a b : Rat} (h' : Rat) (h : a ≤ b) : fint_1 S a b h' = 0 := by
  simp only [fint_1, if_pos h]

theorem fint_2_zero {a b : Rat} (h' k : Rat) (h : a ≤ b) : fint_2 S a b h' k = 0 := by
  simp only [fint_2, if_pos h]

theorem fint_3_zero {a b : Rat} (h' k : Rat) (h : a ≤ b) : fint_3 S a b h' k = 0 := by
  simp only [fint_3, if_pos h]

theorem fint_4_zero {a b : Rat} (h' k l : Rat) (h : a ≤ b) : fint_4 S a b h' k l = 0 := by
  simp only [fint_4, if_pos h]

/-- `double_time_integrated_kernel` vanishes for `(a,b)` before `(c,d)` -/
theorem sl_dtk_acausal {a b c d : Rat} (r : Rat) (hab : a < b) (hcd : c < d) (hbc : b ≤ c) :
    sl_dtk S a b c d r = 0 := by
  have h1 : ¬ b > d := by intro h; linarith
  have h2 : ¬ b > c := by intro h; linarith
  have h3 : ¬ a > c := by intro h; linarith
  have h4 : ¬ a > d := by intro h; linarith
  simp only [sl_dtk, if_neg h1, if_neg h2, if_neg h3, if_neg h4]

theorem stik_1_acausal {a b c d : Rat} (h : Rat) (hab : a < b) (hcd : c < d) (hbc : b ≤ c) :
    stik_1 S a b c d h = 0 := by
  simp only [stik_1, fint_1_zero S h (show b ≤ d by linarith), fint_1_zero S h hbc,
    fint_1_zero S h (show a ≤ c by linarith), fint_1_zero S h (show a ≤ d by linarith)]
  norm_num

theorem stik_2_acausal {a b c d : Rat} (h k : Rat) (hab : a < b) (hcd : c < d) (hbc : b ≤ c) :
    stik_2 S a b c d h k = 0 := by
  simp only [stik_2, fint_2_zero S h k (show b ≤ d by linarith), fint_2_zero S h k hbc,
    fint_2_zero S h k (show a ≤ c by linarith), fint_2_zero S h k (show a ≤ d by linarith)]
  norm_num

theorem stik_3_acausal {a b c d : Rat} (h k : Rat) (hab : a < b) (hcd : c < d) (hbc : b ≤ c) :
    stik_3 S a b c d h k = 0 := by
  simp only [stik_3, fint_3_zero S h k (show b ≤ d by linarith), fint_3_zero S h k hbc,
    fint_3_zero S h k (show a ≤ c by linarith), fint_3_zero S h k (show a ≤ d by linarith)]
  norm_num

theorem stik_4_acausal {a b c d : Rat} (h k l : Rat) (hab : a < b) (hcd : c < d) (hbc : b ≤ c) :
    stik_4 S a b c d h k l = 0 := by
  simp only [stik_4, fint_4_zero S h k l (show b ≤ d by linarith), fint_4_zero S h k l hbc,
    fint_4_zero S h k l (show a ≤ c by linarith), fint_4_zero S h k l (show a ≤ d by linarith)]
  norm_num

/-! ### common time shift -/

theorem sl_g_shift (a b r δ : Rat) : sl_g S (a + δ) (b + δ) r = sl_g S a b r := by
  simp only [sl_g, add_le_add_iff_right, add_sub_add_right_eq_sub]

theorem sl_f_shift (a b r δ : Rat) : sl_f S (a + δ) (b + δ) r = sl_f S a b r := by
  simp only [sl_f, add_le_add_iff_right, add_sub_add_right_eq_sub]

theorem sl_tik_shift (t a b r δ : Rat) : sl_tik S (t + δ) (a + δ) (b + δ) r = sl_tik S t a b r := by
  simp only [sl_tik, sl_g_shift]

theorem sl_dtk_shift (a b c d r δ : Rat) :
    sl_dtk S (a + δ) (b + δ) (c + δ) (d + δ) r = sl_dtk S a b c d r := by
  simp only [sl_dtk, gt_iff_lt, add_lt_add_iff_right, add_sub_add_right_eq_sub]

theorem fint_1_shift (a b h δ : Rat) : fint_1 S (a + δ) (b + δ) h = fint_1 S a b h := by
  simp only [fint_1, add_le_add_iff_right, add_sub_add_right_eq_sub]

theorem fint_2_shift (a b h k δ : Rat) : fint_2 S (a + δ) (b + δ) h k = fint_2 S a b h k := by
  simp only [fint_2, add_le_add_iff_right, add_sub_add_right_eq_sub]

theorem fint_3_shift (a b h k δ : Rat) : fint_3 S (a + δ) (b + δ) h k = fint_3 S a b h k := by
  simp only [fint_3, add_le_add_iff_right, add_sub_add_right_eq_sub]

theorem fint_4_shift (a b h k l δ : Rat) : fint_4 S (a + δ) (b + δ) h k l = fint_4 S a b h k l := by
  simp only [fint_4, add_le_add_iff_right, add_sub_add_right_eq_sub]

theorem stik_1_shift (a b c d h δ : Rat) :
    stik_1 S (a + δ) (b + δ) (c + δ) (d + δ) h = stik_1 S a b c d h := by
  simp only [stik_1, fint_1_shift]

theorem stik_2_shift (a b c d h k δ : Rat) :
    stik_2 S (a + δ) (b + δ) (c + δ) (d + δ) h k = stik_2 S a b c d h k := by
  simp only [stik_2, fint_2_shift]

theorem stik_3_shift (a b c d h k δ : Rat) :
    stik_3 S (a + δ) (b + δ) (c + δ) (d + δ) h k = stik_3 S a b c d h k := by
  simp only [stik_3, fint_3_shift]

theorem stik_4_shift (a b c d h k l δ : Rat) :
    stik_4 S (a + δ) (b + δ) (c + δ) (d + δ) h k l = stik_4 S a b c d h k l := by
  simp only [stik_4, fint_4_shift]

theorem steval_1_shift (t a b h δ : Rat) :
    steval_1 S (t + δ) (a + δ) (b + δ) h = steval_1 S t a b h := by
  simp only [steval_1, gt_iff_lt, add_le_add_iff_right, add_lt_add_iff_right,
    add_sub_add_right_eq_sub]

end Stbem.SL
