import Stbem.Lemmas.Slobo14IntegralTri
import Mathlib.MeasureTheory.Integral.Prod

/-!
# Symmetric continuous kernels: the integral over the square is twice the integral over the triangle

`sq_eq_two_tri_of_continuous_symm`: for a continuous symmetric `K : ℝ → ℝ → ℝ` and `a ≤ b`,
`∫_a^b ∫_a^b K(t, s) ds dt = 2 ∫_a^b ∫_a^t K(t, s) ds dt` (Fubini, `intervalIntegral_intervalIntegral_swap`, applied to the
indicator of the upper triangle).  The Slobodeckij H^{1/4} kernel of a polynomial, `(f t - f s)² / |t - s|^{3/2}`, IS such a
kernel: it equals `|t - s|^{1/2} D(t, s)²` everywhere (`kernel14_abs_eq`; on the diagonal both sides are `0`).
-/
namespace Stbem.Quad
open intervalIntegral MeasureTheory Set

/-- Fubini on the triangle `a ≤ t < s ≤ b` -/
theorem upper_tri_swap (K : ℝ → ℝ → ℝ) (hK : Continuous (Function.uncurry K)) {a b : ℝ} (hab : a ≤ b) :
    (∫ t in a..b, ∫ s in t..b, K t s) = ∫ s in a..b, ∫ t in a..s, K t s := by
  let S : Set (ℝ × ℝ) := {p | p.1 < p.2}
  have hS : MeasurableSet S := measurableSet_lt measurable_fst measurable_snd
  let F : ℝ → ℝ → ℝ := fun t s => S.indicator (Function.uncurry K) (t, s)
  have hF : IntegrableOn (Function.uncurry F) (uIoc a b ×ˢ uIoc a b) := by
    have e : Function.uncurry F = S.indicator (Function.uncurry K) := by funext p; rfl
    rw [e]
    apply IntegrableOn.indicator _ hS
    apply (hK.continuousOn.integrableOn_compact (isCompact_Icc.prod isCompact_Icc)).mono_set
    rw [uIoc_of_le hab]
    exact prod_mono Ioc_subset_Icc_self Ioc_subset_Icc_self
  have swap := intervalIntegral_intervalIntegral_swap (F := F) hF
  have h1 : ∀ t ∈ uIcc a b, (∫ s in a..b, F t s) = ∫ s in t..b, K t s := by
    intro t ht
    rw [uIcc_of_le hab] at ht
    have e : (fun s => F t s) = (Ioi t).indicator (K t) := by
      funext s
      by_cases h : t < s
      · have : (t, s) ∈ S := h
        simp only [F, indicator_of_mem this, indicator_of_mem (mem_Ioi.mpr h)]; rfl
      · have : (t, s) ∉ S := h
        simp only [F, indicator_of_notMem this, indicator_of_notMem (fun h' => h (mem_Ioi.mp h'))]
    rw [e, integral_of_le hab, setIntegral_indicator measurableSet_Ioi, Ioc_inter_Ioi, sup_eq_right.mpr ht.1,
      ← integral_of_le ht.2]
  have h2 : ∀ s ∈ uIcc a b, (∫ t in a..b, F t s) = ∫ t in a..s, K t s := by
    intro s hs
    rw [uIcc_of_le hab] at hs
    have e : (fun t => F t s) = (Iio s).indicator (fun t => K t s) := by
      funext t
      by_cases h : t < s
      · have : (t, s) ∈ S := h
        simp only [F, indicator_of_mem this, indicator_of_mem (mem_Iio.mpr h)]; rfl
      · have : (t, s) ∉ S := h
        simp only [F, indicator_of_notMem this, indicator_of_notMem (fun h' => h (mem_Iio.mp h'))]
    have eset : Ioc a b ∩ Iio s = Ioo a s := by
      ext t
      simp only [mem_inter_iff, mem_Ioc, mem_Iio, mem_Ioo]
      constructor
      · rintro ⟨⟨h1, _⟩, h3⟩; exact ⟨h1, h3⟩
      · rintro ⟨h1, h3⟩; exact ⟨⟨h1, by linarith [hs.2]⟩, h3⟩
    rw [e, integral_of_le hab, setIntegral_indicator measurableSet_Iio, eset, ← integral_Ioc_eq_integral_Ioo,
      ← integral_of_le hs.1]
  rw [← integral_congr h1, swap, integral_congr h2]

/-- **square = 2 · triangle** for a continuous symmetric kernel -/
theorem sq_eq_two_tri_of_continuous_symm (K : ℝ → ℝ → ℝ) (hK : Continuous (Function.uncurry K))
    (hs : ∀ t s, K t s = K s t) {a b : ℝ} (hab : a ≤ b) :
    (∫ t in a..b, ∫ s in a..b, K t s) = 2 * ∫ t in a..b, ∫ s in a..t, K t s := by
  have hKt : ∀ t, Continuous (K t) := fun t => hK.comp (Continuous.prodMk_right t)
  have split : ∀ t, (∫ s in a..b, K t s) = (∫ s in a..t, K t s) + ∫ s in t..b, K t s := fun t =>
    (integral_add_adjacent_intervals ((hKt t).intervalIntegrable _ _) ((hKt t).intervalIntegrable _ _)).symm
  have cT : Continuous fun t => ∫ s in a..t, K t s :=
    continuous_parametric_intervalIntegral_of_continuous hK continuous_id
  have cU : Continuous fun t => ∫ s in t..b, K t s := by
    have : (fun t => ∫ s in t..b, K t s) = fun t => -(∫ s in b..t, K t s) := by
      funext t; rw [integral_symm]
    rw [this]
    exact (continuous_parametric_intervalIntegral_of_continuous hK continuous_id).neg
  simp_rw [split]
  rw [integral_add (cT.intervalIntegrable _ _) (cU.intervalIntegrable _ _), upper_tri_swap K hK hab]
  have : (∫ s in a..b, ∫ t in a..s, K t s) = ∫ t in a..b, ∫ s in a..t, K t s := by
    congr 1; funext s; congr 1; funext t; exact hs t s
  rw [this]; ring

/-- the H^{1/4} kernel of a polynomial, everywhere: `(f t - f s)² / |t - s|^{3/2} = |t - s|^{1/2} D(t, s)²` -/
theorem kernel14_abs_eq (cs : List Rat) (t s : ℝ) :
    (evalPolyR cs t - evalPolyR cs s) ^ 2 / |t - s| ^ ((3 : ℝ) / 2) = |t - s| ^ ((1 : ℝ) / 2) * ddR cs t s ^ 2 := by
  rw [ddR_spec, mul_pow, ← sq_abs (t - s), mul_div_right_comm, sq_div_rpow (abs_nonneg _)]

theorem kernel14_continuous (cs : List Rat) :
    Continuous (Function.uncurry fun t s : ℝ => |t - s| ^ ((1 : ℝ) / 2) * ddR cs t s ^ 2) := by
  have h1 : Continuous fun p : ℝ × ℝ => |p.1 - p.2| ^ ((1 : ℝ) / 2) :=
    (Real.continuous_rpow_const (by norm_num)).comp (by fun_prop : Continuous fun p : ℝ × ℝ => |p.1 - p.2|)
  exact h1.mul (poly2_ddR_sq cs).continuous

/-- **triangle → square** for the H^{1/4} kernel of a polynomial (`a ≤ b`) -/
theorem tri14_eq_square (cs : List Rat) {a b : ℝ} (hab : a ≤ b) :
    (2 * ∫ t in a..b, ∫ s in a..t, (evalPolyR cs t - evalPolyR cs s) ^ 2 / (t - s) ^ ((3 : ℝ) / 2)) =
      ∫ t in a..b, ∫ s in a..b, (evalPolyR cs t - evalPolyR cs s) ^ 2 / |t - s| ^ ((3 : ℝ) / 2) := by
  have hsq : (∫ t in a..b, ∫ s in a..b, (evalPolyR cs t - evalPolyR cs s) ^ 2 / |t - s| ^ ((3 : ℝ) / 2)) =
      ∫ t in a..b, ∫ s in a..b, |t - s| ^ ((1 : ℝ) / 2) * ddR cs t s ^ 2 := by
    congr 1; funext t; congr 1; funext s; exact kernel14_abs_eq cs t s
  have htri : (∫ t in a..b, ∫ s in a..t, (evalPolyR cs t - evalPolyR cs s) ^ 2 / (t - s) ^ ((3 : ℝ) / 2)) =
      ∫ t in a..b, ∫ s in a..t, |t - s| ^ ((1 : ℝ) / 2) * ddR cs t s ^ 2 := by
    apply integral_congr
    intro t ht
    rw [uIcc_of_le hab] at ht
    apply integral_congr
    intro s hs
    rw [uIcc_of_le ht.1] at hs
    have : 0 ≤ t - s := sub_nonneg.mpr hs.2
    show _ / (t - s) ^ ((3 : ℝ) / 2) = |t - s| ^ ((1 : ℝ) / 2) * ddR cs t s ^ 2
    rw [kernel14_eq cs this, abs_of_nonneg this]
  rw [hsq, htri]
  exact (sq_eq_two_tri_of_continuous_symm _ (kernel14_continuous cs)
    (fun t s => by rw [abs_sub_comm, ddR_symm]) hab).symm

end Stbem.Quad
