import Stbem.Lemmas.SloboSpan
import Stbem.Lemmas.SloboMoments
import Stbem.Lemmas.SloboTriangle
import Mathlib.Topology.Algebra.Order.Archimedean
import Mathlib.Topology.Instances.Real.Lemmas

/-!
# The flat H^{1/2} routine on polynomials is the double integral of the squared divided difference

For `f = Σ cₖ xᵏ` the quotient `(f(u) - f(v)) / (u - v)` is the polynomial `dd cs u v` (divided difference), so
`((f u - f v)/(u - v))²` is a polynomial in `(u, v)` and the seminorm integral is a proper integral.  Chain:

  `semi12 gx gl f a h = 2 h² · (gx ⊗ gl)[G]`,            `G(x, y) = dd(a + h x, a + h x y)²`   (`semi12_eq_apply2`)
  `(gx ⊗ gl)[G] = ∫₀¹ ∫₀¹ G(x, y) · x dy dx`              for rules with the moments `1/(k+2)`, `1/(k+1)` (`span2_real`)
  `2 h² ∫₀¹ ∫₀¹ G x = 2 ∫_a^{a+h} ∫_a^u dd(u, v)² dv du`  (two affine substitutions, `smul_integral_comp_add_mul`)
  `2 ∫_a^b ∫_a^u S = ∫_a^b ∫_a^b S`                       for the symmetric polynomial `S = dd²` (`Poly2.sq_eq_two_tri`).
-/
namespace Stbem.Quad
open intervalIntegral

/-! ## the divided difference of a polynomial, over ℚ and over ℝ -/

/-- `dd cs u v = (p(u) - p(v)) / (u - v)` as a polynomial: `dd (c :: cs) = p'(u) + v · dd cs`, `p' = evalPoly cs` -/
def dd : List Rat → Rat → Rat → Rat
  | [], _, _ => 0
  | _ :: cs, u, v => evalPoly cs u + v * dd cs u v

theorem evalPoly_cons (c : Rat) (cs : List Rat) (u : Rat) : evalPoly (c :: cs) u = c + u * evalPoly cs u := rfl

theorem dd_spec (cs : List Rat) (u v : Rat) : evalPoly cs u - evalPoly cs v = (u - v) * dd cs u v := by
  induction cs with
  | nil => simp [evalPoly, dd]
  | cons c cs ih =>
    rw [evalPoly_cons, evalPoly_cons]
    simp only [dd]
    linear_combination v * ih

/-- the same polynomial evaluated at a real argument -/
noncomputable def evalPolyR (cs : List Rat) (x : ℝ) : ℝ := cs.foldr (fun c acc => (c : ℝ) + x * acc) 0

noncomputable def ddR : List Rat → ℝ → ℝ → ℝ
  | [], _, _ => 0
  | _ :: cs, u, v => evalPolyR cs u + v * ddR cs u v

theorem evalPolyR_cons (c : Rat) (cs : List Rat) (u : ℝ) : evalPolyR (c :: cs) u = (c : ℝ) + u * evalPolyR cs u := rfl

theorem evalPoly_cast (cs : List Rat) (x : Rat) : ((evalPoly cs x : Rat) : ℝ) = evalPolyR cs (x : ℝ) := by
  induction cs with
  | nil => simp [evalPoly, evalPolyR]
  | cons c cs ih => rw [evalPoly_cons, evalPolyR_cons, ← ih]; push_cast; ring

theorem dd_cast (cs : List Rat) (u v : Rat) : ((dd cs u v : Rat) : ℝ) = ddR cs (u : ℝ) (v : ℝ) := by
  induction cs with
  | nil => simp [dd, ddR]
  | cons c cs ih => simp only [dd, ddR]; push_cast; rw [ih, evalPoly_cast]

theorem ddR_spec (cs : List Rat) (u v : ℝ) : evalPolyR cs u - evalPolyR cs v = (u - v) * ddR cs u v := by
  induction cs with
  | nil => simp [evalPolyR, ddR]
  | cons c cs ih =>
    rw [evalPolyR_cons, evalPolyR_cons]
    simp only [ddR]
    linear_combination v * ih

/-- off the diagonal the divided difference is the quotient -/
theorem ddR_eq_div (cs : List Rat) {u v : ℝ} (h : u ≠ v) :
    ddR cs u v = (evalPolyR cs u - evalPolyR cs v) / (u - v) := by
  rw [ddR_spec, mul_div_cancel_left₀ _ (sub_ne_zero.mpr h)]

theorem ddR_symm (cs : List Rat) (u v : ℝ) : ddR cs u v = ddR cs v u := by
  induction cs with
  | nil => simp [ddR]
  | cons c cs ih =>
    simp only [ddR]
    rw [← ih]
    linear_combination ddR_spec cs u v

theorem poly2_evalPolyR (cs : List Rat) : Poly2 (fun u _ => evalPolyR cs u) := by
  induction cs with
  | nil => exact (Poly2.const 0).congr (by intro u v; simp [evalPolyR])
  | cons c cs ih =>
    exact (Poly2.add (Poly2.const (c : ℝ)) (Poly2.varU.mul ih)).congr (by intro u v; rw [evalPolyR_cons])

theorem poly2_ddR (cs : List Rat) : Poly2 (ddR cs) := by
  induction cs with
  | nil => exact (Poly2.const 0).congr (by intro u v; simp [ddR])
  | cons c cs ih =>
    exact (Poly2.add (poly2_evalPolyR cs) (Poly2.varV.mul ih)).congr (by intro u v; simp only [ddR])

/-- the integrand of the seminorm, a symmetric polynomial -/
theorem poly2_ddR_sq (cs : List Rat) : Poly2 (fun u v => ddR cs u v ^ 2) := (poly2_ddR cs).sq

/-! ## the Duffy-transformed integrand is in the span of the monomials of bidegree `(d, d)` -/

theorem dd_span {U V : Rat → Rat → Rat} (hU : Span2 1 0 U) (hV : Span2 1 1 V) :
    ∀ (cs : List Rat) (d : Nat), cs.length ≤ d + 2 → Span2 d d (fun x y => dd cs (U x y) (V x y)) := by
  intro cs
  induction cs with
  | nil => intro d _; exact Span2.zero.congr (by intro x y; simp [dd])
  | cons c cs ih =>
    intro d hd
    cases d with
    | zero =>
      match cs, hd with
      | [], _ => exact Span2.zero.congr (by intro x y; simp [dd, evalPoly])
      | [k], _ => exact (Span2.const 0 0 k).congr (by intro x y; simp [dd, evalPoly])
    | succ d =>
      have hE : Span2 (d + 1) (d + 1) (fun x y => evalPoly cs (U x y)) :=
        (hU.evalPoly cs (d + 1) (by simpa using hd)).mono_le (by omega) (by omega)
      have h2 := (hV.mul (ih d (by simpa using hd))).mono_le (m' := d + 1) (n' := d + 1) (by omega) (by omega)
      exact (Span2.add hE h2).congr (by intro x y; simp only [dd])

/-! ## a tensor rule with the moments of the weights `x` and `1` on a span = weighted real integral -/

/-- `∫₀¹ ∫₀¹ F(x, y) · x dy dx` -/
noncomputable def wI (F : ℝ → ℝ → ℝ) : ℝ := ∫ x in (0 : ℝ)..1, ∫ y in (0 : ℝ)..1, F x y * x

theorem wI_add {F G : ℝ → ℝ → ℝ} (hF : Poly2 F) (hG : Poly2 G) :
    wI (fun x y => F x y + G x y) = wI F + wI G := by
  have hFx : Poly2 (fun x y => F x y * x) := hF.mul Poly2.varU
  have hGx : Poly2 (fun x y => G x y * x) := hG.mul Poly2.varU
  have := sqI_add hFx hGx 0 1
  unfold sqI at this
  unfold wI
  rw [← this]
  congr 1; funext x; congr 1; funext y; ring

theorem wI_smul (c : ℝ) (F : ℝ → ℝ → ℝ) : wI (fun x y => c * F x y) = c * wI F := by
  unfold wI
  simp_rw [mul_assoc, integral_const_mul]

theorem wI_mono (i j : ℕ) : wI (fun x y => x ^ i * y ^ j) = 1 / ((i : ℝ) + 2) * (1 / ((j : ℝ) + 1)) := by
  unfold wI
  have h1 : ∀ x : ℝ, (∫ y in (0 : ℝ)..1, x ^ i * y ^ j * x) = (1 / ((j : ℝ) + 1)) * (x ^ i * x) := by
    intro x
    have : (fun y : ℝ => x ^ i * y ^ j * x) = fun y => (x ^ i * x) * y ^ j := by funext y; ring
    rw [this, integral_const_mul, legendre_weight_moment]; ring
  simp_rw [h1]
  rw [integral_const_mul, x_weight_moment]; ring

theorem span2_real {m n : Nat} {F : Rat → Rat → Rat} (hF : Span2 m n F) :
    ∃ FR : ℝ → ℝ → ℝ, Poly2 FR ∧ (∀ x y : Rat, ((F x y : Rat) : ℝ) = FR (x : ℝ) (y : ℝ)) ∧
      ∀ gx gl : Rule1, (∀ k, k ≤ m → mom gx k = 1 / ((k : Rat) + 2)) → (∀ k, k ≤ n → mom gl k = 1 / ((k : Rat) + 1)) →
        ((apply2 (product2 gx gl) F : Rat) : ℝ) = wI FR := by
  induction hF with
  | mono i j hi hj =>
    refine ⟨fun x y => x ^ i * y ^ j, Poly2.mono i j, by intro x y; push_cast; ring, ?_⟩
    intro gx gl hx hl
    rw [product2_monomial, hx i hi, hl j hj, wI_mono]
    push_cast; ring
  | zero =>
    refine ⟨fun _ _ => 0, Poly2.const 0, by intro x y; simp, ?_⟩
    intro gx gl _ _
    rw [apply2_zero]
    unfold wI; simp
  | add _ _ ih1 ih2 =>
    obtain ⟨F1, p1, c1, v1⟩ := ih1
    obtain ⟨F2, p2, c2, v2⟩ := ih2
    refine ⟨fun x y => F1 x y + F2 x y, Poly2.add p1 p2, by intro x y; push_cast; rw [c1, c2], ?_⟩
    intro gx gl hx hl
    rw [apply2_add, wI_add p1 p2, ← v1 gx gl hx hl, ← v2 gx gl hx hl]; push_cast; ring
  | smul c _ ih =>
    obtain ⟨F1, p1, c1, v1⟩ := ih
    refine ⟨fun x y => (c : ℝ) * F1 x y, Poly2.smul _ p1, by intro x y; push_cast; rw [c1], ?_⟩
    intro gx gl hx hl
    rw [apply2_smul, wI_smul, ← v1 gx gl hx hl]; push_cast; ring

/-- two continuous functions on `ℝ × ℝ` that agree on `ℚ × ℚ` are equal -/
theorem eq_of_eq_on_rat {F G : ℝ → ℝ → ℝ} (hF : Continuous (Function.uncurry F)) (hG : Continuous (Function.uncurry G))
    (h : ∀ x y : Rat, F (x : ℝ) (y : ℝ) = G (x : ℝ) (y : ℝ)) : F = G := by
  have hd : DenseRange (Prod.map ((↑) : ℚ → ℝ) ((↑) : ℚ → ℝ)) := Rat.denseRange_cast.prodMap Rat.denseRange_cast
  have := hd.equalizer hF hG (by funext p; exact h p.1 p.2)
  funext x y
  exact congrFun this (x, y)

/-! ## the two substitutions -/

/-- `2 h² ∫₀¹ ∫₀¹ S(a + h x, a + h x y) x dy dx = 2 ∫_a^{a+h} ∫_a^u S(u, v) dv du` -/
theorem duffy_subst (S : ℝ → ℝ → ℝ) (a h : ℝ) :
    h ^ 2 * wI (fun x y => S (a + h * x) (a + h * (x * y))) = triI S a (a + h) := by
  unfold wI triI
  have inner : ∀ x : ℝ, h * ((h * x) * ∫ y in (0 : ℝ)..1, S (a + h * x) (a + (h * x) * y)) =
      h * ∫ v in a..a + h * x, S (a + h * x) v := by
    intro x
    have := smul_integral_comp_add_mul (a := (0 : ℝ)) (b := 1) (fun v => S (a + h * x) v) (h * x) a
    simp only [smul_eq_mul, mul_zero, add_zero, mul_one] at this
    rw [this]
  have outer := smul_integral_comp_add_mul (a := (0 : ℝ)) (b := 1) (fun u => ∫ v in a..u, S u v) h a
  simp only [smul_eq_mul, mul_zero, add_zero, mul_one] at outer
  rw [← outer, ← integral_const_mul, ← integral_const_mul]
  congr 1
  funext x
  rw [← inner x, integral_mul_const]
  have : (fun y : ℝ => S (a + h * x) (a + h * (x * y))) = fun y => S (a + h * x) (a + h * x * y) := by
    funext y; rw [mul_assoc]
  rw [this]; ring

end Stbem.Quad
