import Stbem.Model.Param
import Stbem.Lemmas.ProblemsSmooth
import Mathlib.Data.Rat.Cast.Order
import Mathlib.Tactic.NormNum
import Mathlib.Tactic.Push

/-!
# `sqGamma 1` is the model of `UnitSquare().eval` (tie of the curve used in the Neumann-trace theorems)

`Stbem.Param.unitSquare` is the executable model of `PiecewisePolygon.__init__` / `PiecewiseParametrization.eval` for the
unit square (tied to `src/parametrization.py` by the correspondence runs of the parametrisation check); at every rational
parameter `0 ≤ x̂ ≤ 4` it returns the point `sqGamma 1 x̂` used in `smooth_square_neumann`.
-/
namespace Stbem.Problems.R
open Stbem.Param Stbem.SL

/-- the value of the model constructor -/
def unitSquareCurve : Curve :=
  ⟨[0, 1, 2, 3, 4], [⟨0, 0, 0, 1, 0⟩, ⟨1, 1, 0, 0, 1⟩, ⟨2, 1, 1, -1, 0⟩, ⟨3, 0, 1, 0, -1⟩], true⟩

def pieceTuple (g : Piece) : Rat × Rat × Rat × Rat × Rat := (g.start, g.px, g.py, g.dx, g.dy)

theorem pieceTuple_injective : Function.Injective pieceTuple := by
  intro a b h
  cases a; cases b
  simp only [pieceTuple, Prod.mk.injEq] at h
  obtain ⟨h1, h2, h3, h4, h5⟩ := h
  subst h1 h2 h3 h4 h5
  rfl

/-- decidable summaries of a constructor result -/
def piecesOf (r : Except String Curve) : Option (List (Rat × Rat × Rat × Rat × Rat)) :=
  match r with
  | .ok c => some (c.pieces.map pieceTuple)
  | .error _ => none

def pwOf' (r : Except String Curve) : Option (List Rat) :=
  match r with
  | .ok c => some c.pw
  | .error _ => none

def closedOf (r : Except String Curve) : Option Bool :=
  match r with
  | .ok c => some c.closed
  | .error _ => none

theorem unitSquare_summary :
    pwOf' unitSquare = some unitSquareCurve.pw ∧ piecesOf unitSquare = some (unitSquareCurve.pieces.map pieceTuple) ∧
      closedOf unitSquare = some unitSquareCurve.closed := by
  decide +kernel

/-- the model constructor `PiecewisePolygon([(0,0),(1,0),(1,1),(0,1),(0,0)])` accepts and returns this curve -/
theorem unitSquare_eq : unitSquare = .ok unitSquareCurve := by
  obtain ⟨h1, h2, h3⟩ := unitSquare_summary
  cases hu : unitSquare with
  | error e => rw [hu] at h1; simp [pwOf'] at h1
  | ok c =>
    rw [hu] at h1 h2 h3
    simp only [pwOf', piecesOf, closedOf, Option.some.injEq] at h1 h2 h3
    have h2' := (List.map_injective_iff.mpr pieceTuple_injective) h2
    cases c
    simp only at h1 h2' h3
    subst h1 h2' h3
    rfl

theorem evalCurve_unitSquare (x : ℚ) (h0 : 0 ≤ x) (h4 : x ≤ 4) :
    ∃ p, evalCurve unitSquareCurve x = .ok p ∧ (((p.1 : ℚ) : ℝ), ((p.2 : ℚ) : ℝ)) = sqGamma 1 (x : ℝ) := by
  have hlen : unitSquareCurve.length = 4 := by decide +kernel
  have hr : (!(decide (0 ≤ x) && decide (x ≤ unitSquareCurve.length))) = false := by
    rw [hlen]; simp [h0, h4]
  unfold evalCurve
  rw [hr]
  simp only [Bool.false_eq_true, if_false, unitSquareCurve, select, Piece.at]
  unfold sqGamma
  simp only [mul_one]
  by_cases c1 : x ≤ 1
  · have c1' : (x : ℝ) ≤ 1 := by exact_mod_cast c1
    rw [if_pos ⟨h0, c1⟩, if_pos c1']
    refine ⟨_, rfl, ?_⟩
    simp
  · have c1' : ¬ (x : ℝ) ≤ 1 := by exact_mod_cast c1
    have g1 : (1 : ℚ) ≤ x := le_of_lt (not_le.mp c1)
    rw [if_neg (fun h => c1 h.2), if_neg c1']
    by_cases c2 : x ≤ 2
    · have c2' : (x : ℝ) ≤ 2 := by exact_mod_cast c2
      rw [if_pos ⟨g1, c2⟩, if_pos c2']
      refine ⟨_, rfl, ?_⟩
      simp
    · have c2' : ¬ (x : ℝ) ≤ 2 := by exact_mod_cast c2
      have g2 : (2 : ℚ) ≤ x := le_of_lt (not_le.mp c2)
      rw [if_neg (fun h => c2 h.2), if_neg c2']
      by_cases c3 : x ≤ 3
      · have c3' : (x : ℝ) ≤ 3 := by exact_mod_cast c3
        rw [if_pos ⟨g2, c3⟩, if_pos c3']
        refine ⟨_, rfl, ?_⟩
        simp; ring
      · have c3' : ¬ (x : ℝ) ≤ 3 := by exact_mod_cast c3
        have g3 : (3 : ℚ) ≤ x := le_of_lt (not_le.mp c3)
        rw [if_neg (fun h => c3 h.2), if_neg c3', if_pos ⟨g3, h4⟩]
        refine ⟨_, rfl, ?_⟩
        simp; ring

/-- the square of side `L` is the unit square scaled by `L` (the π-square "in units of π") -/
theorem sqGamma_scale {L : ℝ} (hL : 0 < L) (xh : ℝ) :
    sqGamma L xh = (L * (sqGamma 1 (xh / L)).1, L * (sqGamma 1 (xh / L)).2) := by
  have e1 : xh / L ≤ 1 ↔ xh ≤ L := by rw [div_le_iff₀ hL, one_mul]
  have e2 : xh / L ≤ 2 * 1 ↔ xh ≤ 2 * L := by rw [div_le_iff₀ hL, mul_one]
  have e3 : xh / L ≤ 3 * 1 ↔ xh ≤ 3 * L := by rw [div_le_iff₀ hL, mul_one]
  have hx : L * (xh / L) = xh := by field_simp
  unfold sqGamma
  simp only [e1, e2, e3]
  by_cases c1 : xh ≤ L
  · simp only [c1, if_true, mul_zero, hx]
  · by_cases c2 : xh ≤ 2 * L
    · simp only [c1, c2, if_false, if_true, mul_one, mul_sub, hx]
    · by_cases c3 : xh ≤ 3 * L
      · simp only [c1, c2, c3, if_false, if_true, mul_one, mul_sub, hx]
        congr 1; ring
      · simp only [c1, c2, c3, if_false, mul_zero, mul_one, mul_sub, hx]
        congr 1; ring

end Stbem.Problems.R
