import Stbem.Lemmas.FormulasModel
import Stbem.Lemmas.KernelSign
import Mathlib.Analysis.SpecialFunctions.ImproperIntegrals
import Mathlib.MeasureTheory.Integral.IntegralEqImproper

/-!
# The true exponential integral satisfies the hypotheses of the sign theorems (non-vacuity)

`eiTrue x = ∫_{-∞}^x e^t/t dt` (`x < 0`) has `Ei' x = e^x/x` (`EiLaw`) **and** `Ei x → 0` as
`x → -∞` (`EiLim`); `modelT` is `model` of `Lemmas/FormulasModel.lean` with this `ei`
(`exp = Real.exp`, `fpiInv = 1/(4π) > 0`).
-/
namespace Stbem.Formulas.R
open MeasureTheory Filter Topology

/-- `Ei x = ∫_{-∞}^x e^t / t dt` -/
noncomputable def eiTrue (x : ℝ) : ℝ := ∫ t in Set.Iic x, Real.exp t / t

theorem ei_integrableOn (x : ℝ) (hx : x < 0) :
    IntegrableOn (fun t : ℝ => Real.exp t / t) (Set.Iic x) := by
  have hg : IntegrableOn (fun t : ℝ => Real.exp t * (-x)⁻¹) (Set.Iic x) :=
    (integrableOn_exp_Iic x).mul_const _
  refine Integrable.mono' hg
    (Real.measurable_exp.div measurable_id).aestronglyMeasurable ?_
  refine (ae_restrict_iff' measurableSet_Iic).mpr (ae_of_all _ fun t ht => ?_)
  have ht' : t ≤ x := ht
  have htneg : t < 0 := lt_of_le_of_lt ht' hx
  rw [Real.norm_eq_abs, abs_div, abs_of_pos (Real.exp_pos t), abs_of_neg htneg, div_eq_mul_inv]
  refine mul_le_mul_of_nonneg_left ?_ (Real.exp_pos t).le
  exact inv_anti₀ (by linarith) (by linarith)

theorem eiTrue_eq (y : ℝ) (hy : y < 0) : eiTrue y = eiTrue (-1) + eiModel y := by
  have h := intervalIntegral.integral_Iic_sub_Iic (μ := volume)
    (ei_integrableOn (-1) (by norm_num)) (ei_integrableOn y hy)
  unfold eiTrue eiModel
  linarith

theorem eiTrue_deriv (x : ℝ) (hx : x < 0) : HasDerivAt eiTrue (Real.exp x / x) x := by
  have h := (eiModel_deriv x hx).const_add (eiTrue (-1))
  refine h.congr_of_eventuallyEq ?_
  filter_upwards [gt_mem_nhds hx] with y hy
  exact eiTrue_eq y hy

theorem eiTrue_lim : Tendsto eiTrue atBot (𝓝 0) := by
  have h := intervalIntegral_tendsto_integral_Iic (μ := volume) (-1)
    (ei_integrableOn (-1) (by norm_num)) (tendsto_id (α := ℝ) (x := atBot))
  have h2 : Tendsto (fun y : ℝ => eiTrue (-1) - ∫ t in y..(-1), Real.exp t / t) atBot
      (𝓝 (eiTrue (-1) - eiTrue (-1))) := tendsto_const_nhds.sub h
  rw [sub_self] at h2
  refine h2.congr' ?_
  filter_upwards [eventually_lt_atBot (0 : ℝ)] with y hy
  have h3 := intervalIntegral.integral_Iic_sub_Iic (μ := volume) (ei_integrableOn y hy)
    (ei_integrableOn (-1) (by norm_num))
  unfold eiTrue
  linarith

/-- `model` with the true exponential integral -/
noncomputable def modelT : Fns := { model with ei := eiTrue, e1 := fun x => - eiTrue (-x) }

theorem modelT_exp : modelT.exp = Real.exp := rfl
theorem modelT_eiLaw : EiLaw modelT := eiTrue_deriv
theorem modelT_eiLim : EiLim modelT := eiTrue_lim
theorem modelT_fpiInv_pos : 0 < modelT.fpiInv := by
  show 0 < 1 / (4 * Real.pi)
  have := Real.pi_pos
  positivity

end Stbem.Formulas.R
