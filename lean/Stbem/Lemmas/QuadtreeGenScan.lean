import Stbem.Lemmas.QuadtreeGenAbs

/-!
# The scan of `refine_msh_bdr` regenerated from the source is the scan of the hand model
-/
namespace Stbem.QuadtreeTie
open Stbem.Quadtree Stbem.Gen

/-- the axis index of the code (`0` = x, `1` = y) for the Boolean of the hand model -/
def ax (b : Bool) : Nat := if b then 1 else 0

theorem coord_ax (p : Rat × Rat) (b : Bool) : QuadtreeGen.coord p (ax b) = coord p b := by
  cases b <;> simp [QuadtreeGen.coord, coord, ax]

theorem notAxis_ax (b : Bool) : QuadtreeGen.notAxis (ax b) = ax (!b) := by
  cases b <;> simp [QuadtreeGen.notAxis, ax]

theorem lexLe_eq (p q : Rat × Rat) : QuadtreeGen.lexLe p q = lexLe p q := rfl

/-- the state of the scan -/
def absScan (n : Nat) (st : Option GElem × Option GElem) : Scan :=
  { ret := st.1.map (absElem n), parent := st.2.map (absElem n) }

/-- the sides in the order of `Element.edges` -/
def edgeOf (e : GElem) : Side → QuadtreeGen.Edge
  | .bottom => (e.v0, e.v1)
  | .right => (e.v1, e.v2)
  | .top => (e.v2, e.v3)
  | .left => (e.v3, e.v0)

theorem edges_eq (e : GElem) : QuadtreeGen.Element_edges e = Side.all.map (edgeOf e) := rfl

theorem edgePts_abs (n : Nat) (e : GElem) (h : Shaped e) (s : Side) :
    edgePts (absElem n e) s = ((edgeOf e s).1.xy, (edgeOf e s).2.xy) := by
  have h1 := h.y01; have h2 := h.x12; have h3 := h.y23; have h4 := h.x30; have h5 := h.sq
  cases s <;> simp only [edgePts, absElem, edgeOf, QuadtreeGen.Vtx.xy, Prod.mk.injEq, true_and, and_true] <;>
    (try constructor) <;> (try constructor) <;> linarith

/-- one edge of one candidate: the generated loop body is `scanEdge` (with `eps = 0`; the assertion
`v0[n_axis] <= v1[n_axis]` does not fire for sorted end points) -/
theorem scan_edge_eq (n : Nat) (v0 v1 : Rat × Rat) (b : Bool) (e : GElem) (h : Shaped e)
    (hs : coord v0 (!b) ≤ coord v1 (!b)) (st : Option GElem × Option GElem) (s : Side) :
    absScan n <$> QuadtreeGen.InitialMesh_refine_msh_bdr_loop3 v0 v1 0 (ax b) (ax (!b)) e st (edgeOf e s) =
      .ok (scanEdge v0 v1 b (absElem n e) (absScan n st) s) := by
  unfold QuadtreeGen.InitialMesh_refine_msh_bdr_loop3 scanEdge
  rw [edgePts_abs n e h s]
  simp only [coord_ax, lexLe_eq, zero_mul, sub_zero, add_zero, QuadtreeGen.isclose, QuadtreeGen.assertThat]
  rcases st with ⟨r, p⟩
  cases r with
  | some r => simp [absScan, Functor.map, Except.map, pure, Except.pure]
  | none =>
    simp only [absScan, Option.map_none, Option.isSome_none, Bool.false_eq_true, if_false]
    by_cases hl : lexLe (edgeOf e s).1.xy (edgeOf e s).2.xy = true
    · simp only [hl, if_true]
      split_ifs <;> simp_all [Functor.map, Except.map, pure, Except.pure, bind, Except.bind, absScan]
    · simp only [hl]
      split_ifs <;> simp_all [Functor.map, Except.map, pure, Except.pure, bind, Except.bind, absScan]

theorem ok_of_map_ok {α β : Type} {f : α → β} {x : Except String α} {y : β} (h : f <$> x = .ok y) :
    ∃ a, x = .ok a ∧ f a = y := by
  cases x with
  | error e => cases h
  | ok a => exact ⟨a, rfl, by injection h⟩

theorem scan_sides_eq (n : Nat) (v0 v1 : Rat × Rat) (b : Bool) (e : GElem) (h : Shaped e)
    (hs : coord v0 (!b) ≤ coord v1 (!b)) : ∀ (ss : List Side) (st : Option GElem × Option GElem),
    absScan n <$> (ss.map (edgeOf e)).foldlM (QuadtreeGen.InitialMesh_refine_msh_bdr_loop3 v0 v1 0 (ax b) (ax (!b)) e) st =
      .ok (ss.foldl (scanEdge v0 v1 b (absElem n e)) (absScan n st)) := by
  intro ss
  induction ss with
  | nil => intro st; rfl
  | cons s ss ih =>
    intro st
    obtain ⟨st', h1, h2⟩ := ok_of_map_ok (scan_edge_eq n v0 v1 b e h hs st s)
    rw [List.map_cons, List.foldlM_cons, h1, List.foldl_cons, ← h2]
    exact ih st'

theorem foldl_scanEdge_ret (v0 v1 : Rat × Rat) (b : Bool) (c : Elem) (st : Scan) (h : st.ret.isSome = true) :
    ∀ ss : List Side, ss.foldl (scanEdge v0 v1 b c) st = st := by
  intro ss
  induction ss with
  | nil => rfl
  | cons s ss ih => rw [List.foldl_cons, scanEdge, if_pos h, ih]

/-- all edges of one candidate -/
theorem scan_elem_eq (n : Nat) (v0 v1 : Rat × Rat) (b : Bool) (hs : coord v0 (!b) ≤ coord v1 (!b))
    (st : Option GElem × Option GElem) (e : GElem) (h : Shaped e) :
    absScan n <$> QuadtreeGen.InitialMesh_refine_msh_bdr_loop2 v0 v1 0 (ax b) (ax (!b)) st e =
      .ok (Side.all.foldl (scanEdge v0 v1 b (absElem n e)) (absScan n st)) := by
  unfold QuadtreeGen.InitialMesh_refine_msh_bdr_loop2
  by_cases hr : st.1.isSome = true
  · rw [if_pos hr, foldl_scanEdge_ret _ _ _ _ _ (by simpa [absScan] using hr)]
    rfl
  · rw [if_neg hr, edges_eq]
    have := scan_sides_eq n v0 v1 b e h hs Side.all st
    obtain ⟨st', h1, h2⟩ := ok_of_map_ok this
    rw [h1, ← h2]
    rfl

/-- the scan over a list of candidates -/
theorem scan_eq (n : Nat) (v0 v1 : Rat × Rat) (b : Bool) (hs : coord v0 (!b) ≤ coord v1 (!b)) :
    ∀ (cs : List GElem) (st : Option GElem × Option GElem), (∀ e ∈ cs, Shaped e) →
    absScan n <$> cs.foldlM (QuadtreeGen.InitialMesh_refine_msh_bdr_loop2 v0 v1 0 (ax b) (ax (!b))) st =
      .ok ((cs.map (absElem n)).foldl (fun st e => Side.all.foldl (scanEdge v0 v1 b e) st) (absScan n st)) := by
  intro cs
  induction cs with
  | nil => intro st _; rfl
  | cons e cs ih =>
    intro st hsh
    obtain ⟨st', h1, h2⟩ := ok_of_map_ok (scan_elem_eq n v0 v1 b hs st e (hsh e (by simp)))
    rw [List.foldlM_cons, h1, List.map_cons, List.foldl_cons, ← h2]
    exact ih st' (fun e he => hsh e (by simp [he]))

end Stbem.QuadtreeTie
