import Stbem.Lemmas.EstimGenBasic

/-!
# The NumPy prelude of the regenerated estimators on arrays of fitting shapes, the position map, the children lists
-/
namespace Stbem.EstimTie
open Stbem.Estim Stbem.Gen.EstimGen Stbem.EstimConv

/-! ### prelude on fitting shapes = the list functions of the hand model -/

theorem npDot_eq (a b : List Rat) : npDot a b = dot a b := rfl

theorem npMatVec_ok {A : List (List Rat)} {v : List Rat} (h : ∀ r ∈ A, r.length = v.length) :
    npMatVec A v = .ok (mulVec A v) := by
  unfold npMatVec
  have : A.all (fun r => r.length == v.length) = true := by
    rw [List.all_eq_true]; intro r hr; simpa using h r hr
  rw [if_pos this]; rfl

theorem npMatVec_shape {A : List (List Rat)} {v : List Rat} (h : ∃ r ∈ A, r.length ≠ v.length) :
    npMatVec A v = .error "shape" := by
  unfold npMatVec
  have : ¬ A.all (fun r => r.length == v.length) = true := by
    rw [List.all_eq_true]; intro hall
    obtain ⟨r, hr, hne⟩ := h
    exact hne (by simpa using hall r hr)
  rw [if_neg this]

theorem npVecVec_ok {a b : List Rat} (h : a.length = b.length) : npVecVec a b = .ok (dot a b) := by
  unfold npVecVec; rw [if_pos h]; rfl

theorem npIAdd_ok {a b : List Rat} (h : a.length = b.length) : npIAdd a b = .ok (vadd a b) := by
  unfold npIAdd; rw [if_pos h]; rfl

theorem npISub_ok {a b : List Rat} (h : a.length = b.length) : npISub a b = .ok (vsub a b) := by
  unfold npISub; rw [if_pos h]; rfl

theorem npSub_ok {a b : List Rat} (h : a.length = b.length) : npSub a b = .ok (vsub a b) := by
  unfold npSub; rw [if_pos h]; rfl

theorem npSub_shape {a b : List Rat} (h : a.length ≠ b.length) (ha : a.length ≠ 1) (hb : b.length ≠ 1) :
    npSub a b = .error "shape" := by
  unfold npSub
  rw [if_neg h]
  split
  · simp at ha
  · simp at hb
  · rfl

theorem npRepeat_four (phi : List Rat) : npRepeat phi 4 = prolong4 phi := rfl

theorem npZeros_eq (n : Nat) : npZeros n = List.replicate n 0 := rfl

/-! ### `v @ A` -/

theorem vecMatAux_length : ∀ (v : List Rat) (A : List (List Rat)) (n : Nat), (∀ r ∈ A, r.length = n) →
    (vecMatAux v A n).length = n
  | [], _, n, _ => by simp [vecMatAux]
  | _ :: _, [], n, _ => by simp [vecMatAux]
  | vi :: v, r :: A, n, h => by
    have ih := vecMatAux_length v A n (fun x hx => h x (by simp [hx]))
    simp [vecMatAux, ih, h r (by simp)]

theorem dot_vadd {a b w : List Rat} (h : a.length = b.length) :
    dot (List.zipWith (· + ·) a b) w = dot a w + dot b w := by
  induction a generalizing b w with
  | nil => cases b with
    | nil => simp
    | cons _ _ => simp at h
  | cons x a ih => cases b with
    | nil => simp at h
    | cons y b => cases w with
      | nil => simp
      | cons z w =>
        have := ih (b := b) (w := w) (by simpa using h)
        simp only [List.zipWith_cons_cons, dot_cons, this]; ring

theorem dot_smul (c : Rat) (r w : List Rat) : dot (r.map (c * ·)) w = c * dot r w := by
  induction r generalizing w with
  | nil => simp
  | cons x r ih => cases w with
    | nil => simp
    | cons z w => simp only [List.map_cons, dot_cons, ih]; ring

/-- `(v @ A) @ w = v · (A w)` for a matrix with rows of the length of `w` -/
theorem dot_vecMatAux : ∀ (v : List Rat) (A : List (List Rat)) (w : List Rat), v.length = A.length →
    (∀ r ∈ A, r.length = w.length) → dot (vecMatAux v A w.length) w = dot v (mulVec A w)
  | [], [], w, _, _ => by simp [vecMatAux, dot_replicate_zero_left, mulVec]
  | [], _ :: _, _, h, _ => by simp at h
  | _ :: _, [], _, h, _ => by simp at h
  | vi :: v, r :: A, w, h, hr => by
    have ih := dot_vecMatAux v A w (by simpa using h) (fun x hx => hr x (by simp [hx]))
    have hl : (r.map (vi * ·)).length = (vecMatAux v A w.length).length := by
      rw [vecMatAux_length v A _ (fun x hx => hr x (by simp [hx])), List.length_map, hr r (by simp)]
    simp only [vecMatAux, mulVec, List.map_cons, dot_cons]
    rw [dot_vadd hl, dot_smul, ih]
    rfl

theorem npVecMat_ok {v : List Rat} {A : List (List Rat)} {n : Nat} (hv : v.length = A.length)
    (hr : ∀ r ∈ A, r.length = n) (hne : A ≠ []) : npVecMat v A = .ok (vecMatAux v A n) := by
  unfold npVecMat
  have hh : (A.headD []).length = n := by
    cases A with
    | nil => exact absurd rfl hne
    | cons r A => exact hr r (by simp)
  have : A.all (fun r => r.length == (A.headD []).length) = true := by
    rw [List.all_eq_true]; intro r hr'; rw [hh]; simpa using hr r hr'
  rw [if_pos ⟨hv, this⟩, hh]; rfl

/-! ### the position map of a list of consecutive identities -/

theorem dict_fold (k : Nat) : ∀ (m b n : Nat) (acc : Option Nat),
    ((enumerateFrom n (List.range' b m)).map fun x => (x.2, x.1)).foldl
      (fun acc (x : Nat × Nat) => if x.1 == k then some x.2 else acc) acc =
    if b ≤ k ∧ k < b + m then some (n + (k - b)) else acc
  | 0, b, n, acc => by simp [enumerateFrom]
  | m + 1, b, n, acc => by
    rw [List.range'_succ, enumerateFrom, List.map_cons, List.foldl_cons, dict_fold k m (b + 1) (n + 1)]
    by_cases h1 : b = k
    · subst h1
      simp
    · have : (b == k) = false := by simpa using h1
      simp only [this, Bool.false_eq_true, if_false]
      by_cases h2 : b + 1 ≤ k ∧ k < b + 1 + m
      · rw [if_pos h2, if_pos (by omega)]
        congr 1; omega
      · rw [if_neg h2, if_neg (by omega)]

/-- fine element number `j` (identity `b + j`) is found at position `j` -/
theorem dictGet_range (b m j : Nat) (hj : j < m) :
    dictGet (dictOfEnumerate (List.range' b m)) (b + j) = .ok j := by
  unfold dictGet dictOfEnumerate enumerate
  rw [dict_fold (b + j) m b 0 none, if_pos (by omega)]
  simp
  rfl

/-! ### the lists of children -/

theorem kids4_length {Γ : Type} (b : Nat) (e : DummyElement Γ) (h : e.vertices.length = 4) : (kids4 b e).length = 4 := by
  obtain ⟨v0, v1, v2, v3, hv⟩ := four_of_length _ h
  simp [kids4, hv]

theorem kids4_oids {Γ : Type} (b : Nat) (e : DummyElement Γ) (h : e.vertices.length = 4) :
    (kids4 b e).map (·.oid) = [b, b + 1, b + 2, b + 3] := by
  obtain ⟨v0, v1, v2, v3, hv⟩ := four_of_length _ h
  simp [kids4, hv, mkElem]

theorem kidsFrom_length {Γ : Type} : ∀ (elems : List (DummyElement Γ)) (b : Nat), (kidsFrom b elems).length = elems.length
  | [], _ => rfl
  | _ :: l, b => by simp [kidsFrom, kidsFrom_length l]

theorem kidsFrom_get {Γ : Type} : ∀ (elems : List (DummyElement Γ)) (b i : Nat),
    (kidsFrom b elems)[i]? = (elems[i]?).map (kids4 (b + 4 * i))
  | [], _, _ => by simp [kidsFrom]
  | e :: l, b, 0 => by simp [kidsFrom]
  | e :: l, b, i + 1 => by
    simp only [kidsFrom, List.getElem?_cons_succ, kidsFrom_get l (b + 4) i]
    congr 2; omega

theorem kidsFrom_mem_length {Γ : Type} : ∀ (elems : List (DummyElement Γ)) (b : Nat),
    (∀ e ∈ elems, e.vertices.length = 4) → ∀ c ∈ kidsFrom b elems, c.length = 4
  | [], _, _, c, hc => by simp [kidsFrom] at hc
  | e :: l, b, h, c, hc => by
    simp only [kidsFrom, List.mem_cons] at hc
    rcases hc with rfl | hc
    · exact kids4_length b e (h e (by simp))
    · exact kidsFrom_mem_length l (b + 4) (fun x hx => h x (by simp [hx])) c hc

theorem kidsFrom_flatten_length {Γ : Type} : ∀ (elems : List (DummyElement Γ)) (b : Nat),
    (∀ e ∈ elems, e.vertices.length = 4) → (kidsFrom b elems).flatten.length = 4 * elems.length
  | [], _, _ => rfl
  | e :: l, b, h => by
    simp only [kidsFrom, List.flatten_cons, List.length_append, List.length_cons,
      kids4_length b e (h e (by simp)), kidsFrom_flatten_length l (b + 4) (fun x hx => h x (by simp [hx]))]
    omega

/-- the identities of the flattened list of children are consecutive -/
theorem kidsFrom_oids {Γ : Type} : ∀ (elems : List (DummyElement Γ)) (b : Nat),
    (∀ e ∈ elems, e.vertices.length = 4) →
    (kidsFrom b elems).flatten.map (·.oid) = List.range' b (4 * elems.length)
  | [], _, _ => rfl
  | e :: l, b, h => by
    have e4 : 4 * (e :: l).length = 4 + 4 * l.length := by simp; omega
    rw [kidsFrom, List.flatten_cons, List.map_append, kids4_oids b e (h e (by simp)),
      kidsFrom_oids l (b + 4) (fun x hx => h x (by simp [hx])), e4]
    have : 4 + 4 * l.length = (4 * l.length + 1 + 1 + 1) + 1 := by omega
    rw [this, List.range'_succ, List.range'_succ, List.range'_succ, List.range'_succ]
    simp [Nat.add_assoc]

/-! ### pieces of the two `estimate` bodies -/

theorem flatMap_id_map {α : Type} (l : List (List α)) :
    List.flatMap (fun children => List.map (fun child => child) children) l = l.flatten := by
  induction l with
  | nil => rfl
  | cons a l _ => simp [List.flatMap_cons]

theorem forIn_append_mapM_on {α β : Type} (f : α → List β → Except String (ForInStep (List β))) (F : α → Except String β)
    (P : α → Prop) (h : ∀ a s, P a → f a s = (F a >>= fun b => pure (ForInStep.yield (s ++ [b])))) :
    ∀ (l : List α) (s : List β), (∀ a ∈ l, P a) → forIn l s f = (l.mapM F >>= fun bs => pure (s ++ bs))
  | [], s, _ => by simp [pure, Except.pure, ok_bind]
  | a :: l, s, hl => by
    rw [List.forIn_cons, h a s (hl a (by simp)), List.mapM_cons]
    cases F a with
    | error e => rfl
    | ok b =>
      simp only [ok_bind, pure_bind, bind_assoc]
      rw [forIn_append_mapM_on f F P h l (s ++ [b]) (fun x hx => hl x (by simp [hx]))]
      cases l.mapM F with
      | error e => rfl
      | ok bs => simp [ok_bind, pure, Except.pure]

theorem rhs_steps {α β γ : Type} (n : Nat) (g : Option α) (m : Option β) (gv : α → List Rat) (mv : β → List Rat)
    (hg : ∀ f, g = some f → (gv f).length = n) (hm : ∀ o, m = some o → (mv o).length = n)
    (K : List Rat → Except String γ) :
    ((if g.isSome = true then (optGet g >>= fun t => npIAdd (npZeros n) (gv t)) else pure (npZeros n)) >>= fun rhs =>
      (if m.isSome = true then (optGet m >>= fun t => npISub rhs (mv t)) else pure rhs) >>= K) =
    K (mkRhs n (g.map gv) (m.map mv)) := by
  cases g with
  | none =>
    cases m with
    | none => rfl
    | some o =>
      have h2 : (npZeros n).length = (mv o).length := by rw [hm o rfl]; simp [npZeros]
      simp only [Option.isSome_none, Bool.false_eq_true, if_false, Option.isSome_some, if_true, optGet, pure_bind,
        npISub_ok h2, ok_bind]
      rfl
  | some f =>
    have h1 : (npZeros n).length = (gv f).length := by rw [hg f rfl]; simp [npZeros]
    cases m with
    | none =>
      simp only [Option.isSome_none, Bool.false_eq_true, if_false, Option.isSome_some, if_true, optGet, pure_bind,
        npIAdd_ok h1, ok_bind]
      rfl
    | some o =>
      have h2 : (vadd (npZeros n) (gv f)).length = (mv o).length := by rw [hm o rfl]; simp [vadd, npZeros, hg f rfl]
      simp only [Option.isSome_some, if_true, optGet, pure_bind, npIAdd_ok h1, ok_bind, npISub_ok h2]
      rfl

theorem mem_enumerateFrom {α : Type} : ∀ (l : List α) (k : Nat) (x : Nat × α), x ∈ enumerateFrom k l →
    k ≤ x.1 ∧ l[x.1 - k]? = some x.2
  | [], _, _, h => by simp [enumerateFrom] at h
  | a :: l, k, x, h => by
    simp only [enumerateFrom, List.mem_cons] at h
    rcases h with rfl | h
    · simp
    · obtain ⟨h1, h2⟩ := mem_enumerateFrom l (k + 1) x h
      refine ⟨by omega, ?_⟩
      have : x.1 - k = (x.1 - (k + 1)) + 1 := by omega
      rw [this, List.getElem?_cons_succ]; exact h2

theorem mem_enumerate {α : Type} (l : List α) (x : Nat × α) (h : x ∈ enumerate l) : l[x.1]? = some x.2 := by
  simpa using (mem_enumerateFrom l 0 x h).2

theorem slice_four (l : List Rat) (i : Nat) (h : 4 * i + 3 < l.length) :
    ∃ a0 a1 a2 a3, slice l i = [a0, a1, a2, a3] ∧ l[4 * i]? = some a0 ∧ l[4 * i + 1]? = some a1 ∧
      l[4 * i + 2]? = some a2 ∧ l[4 * i + 3]? = some a3 := by
  have hl : (slice l i).length = 4 := by simp [slice, nKids_eq]; omega
  obtain ⟨a0, a1, a2, a3, hs⟩ := four_of_length _ hl
  refine ⟨a0, a1, a2, a3, hs, ?_, ?_, ?_, ?_⟩
  · have := slice_get l i 0 (by omega); rw [hs] at this; simpa using this.symm
  · have := slice_get l i 1 (by omega); rw [hs] at this; simpa using this.symm
  · have := slice_get l i 2 (by omega); rw [hs] at this; simpa using this.symm
  · have := slice_get l i 3 (by omega); rw [hs] at this; simpa using this.symm

end Stbem.EstimTie
