import Mathlib.Analysis.SpecialFunctions.Integrals.Basic
import Mathlib.Analysis.SpecialFunctions.Log.NegMulLog
import Mathlib.Analysis.SpecialFunctions.Integrability.Basic

/-!
The targets of the rule checks are the exact integrals over `(0,1)`.
-/
namespace Stbem.Rules

open intervalIntegral Set

theorem target_poly (k : ℕ) : ∫ x in (0 : ℝ)..1, x ^ k = 1 / ((k : ℝ) + 1) := by
  rw [integral_pow]; simp

theorem target_sqrt (k : ℕ) : ∫ x in (0 : ℝ)..1, x ^ k * Real.sqrt x = 1 / ((k : ℝ) + 3 / 2) := by
  have hcongr : ∀ x ∈ uIcc (0 : ℝ) 1, x ^ k * Real.sqrt x = x ^ ((k : ℝ) + 1 / 2) := by
    intro x hx
    rw [uIcc_of_le zero_le_one] at hx
    rw [Real.rpow_add' hx.1 (by positivity), Real.rpow_natCast, Real.sqrt_eq_rpow]
  rw [integral_congr hcongr, integral_rpow (Or.inl (by linarith [(Nat.cast_nonneg k : (0 : ℝ) ≤ k)]))]
  rw [Real.one_rpow, Real.zero_rpow (by positivity)]
  congr 1 <;> ring

theorem target_log (k : ℕ) :
    ∫ x in (0 : ℝ)..1, x ^ k * Real.log x = -1 / ((k : ℝ) + 1) ^ 2 := by
  have hk : (0 : ℝ) < (k : ℝ) + 1 := by positivity
  set F : ℝ → ℝ := fun x => x ^ k * (x * Real.log x) / ((k : ℝ) + 1) - x ^ (k + 1) / ((k : ℝ) + 1) ^ 2
    with hF
  have hcont : ContinuousOn F (Icc 0 1) := by
    apply Continuous.continuousOn
    exact (((continuous_pow k).mul Real.continuous_mul_log).div_const _).sub
      ((continuous_pow (k + 1)).div_const _)
  have hderiv : ∀ x ∈ Ioo (0 : ℝ) 1, HasDerivAt F (x ^ k * Real.log x) x := by
    intro x hx
    have hx0 : x ≠ 0 := hx.1.ne'
    have h1 : HasDerivAt (fun x : ℝ => x ^ (k + 1) * Real.log x)
        (((k + 1 : ℕ) : ℝ) * x ^ k * Real.log x + x ^ (k + 1) * x⁻¹) x := by
      have := (hasDerivAt_pow (k + 1) x).fun_mul (Real.hasDerivAt_log hx0)
      simpa using this
    have h2 : HasDerivAt (fun x : ℝ => x ^ (k + 1)) (((k + 1 : ℕ) : ℝ) * x ^ k) x := by
      simpa using hasDerivAt_pow (k + 1) x
    have h3 := (h1.div_const ((k : ℝ) + 1)).fun_sub (h2.div_const (((k : ℝ) + 1) ^ 2))
    have hfun : F = fun x : ℝ => x ^ (k + 1) * Real.log x / ((k : ℝ) + 1) -
        x ^ (k + 1) / ((k : ℝ) + 1) ^ 2 := by
      funext y; rw [hF]; ring
    rw [hfun]
    refine h3.congr_deriv ?_
    push_cast
    field_simp
    ring
  have hint : IntervalIntegrable (fun x : ℝ => x ^ k * Real.log x) MeasureTheory.volume 0 1 :=
    intervalIntegral.intervalIntegrable_log'.continuousOn_mul (continuous_pow k).continuousOn
  rw [integral_eq_sub_of_hasDerivAt_of_le zero_le_one hcont hderiv hint]
  simp [hF]
  field_simp

end Stbem.Rules
