import Stbem.Lemmas.MeshGrading
import Mathlib.Analysis.SpecialFunctions.Pow.Real
import Mathlib.Data.Rat.Cast.Order

/-!
# The root-free window test agrees with the real-exponent window `h_t/K < h_x^σ < K h_t`
-/
namespace Stbem.Mesh

theorem lt_rpow_div_iff {x y : ℝ} (hx : 0 ≤ x) (hy : 0 < y) (p : ℕ) {q : ℕ} (hq : 0 < q) :
    x < y ^ ((p : ℝ) / (q : ℝ)) ↔ x ^ q < y ^ p := by
  have hq' : (q : ℝ) ≠ 0 := by exact_mod_cast hq.ne'
  have e : (y ^ ((p : ℝ) / (q : ℝ))) ^ q = y ^ p := by
    rw [← Real.rpow_natCast, ← Real.rpow_mul hy.le, div_mul_cancel₀ _ hq', Real.rpow_natCast]
  rw [← e]
  exact (pow_lt_pow_iff_left₀ hx (Real.rpow_nonneg hy.le _) hq.ne').symm

theorem rpow_div_lt_iff {x y : ℝ} (hx : 0 ≤ x) (hy : 0 < y) (p : ℕ) {q : ℕ} (hq : 0 < q) :
    y ^ ((p : ℝ) / (q : ℝ)) < x ↔ y ^ p < x ^ q := by
  have hq' : (q : ℝ) ≠ 0 := by exact_mod_cast hq.ne'
  have e : (y ^ ((p : ℝ) / (q : ℝ))) ^ q = y ^ p := by
    rw [← Real.rpow_natCast, ← Real.rpow_mul hy.le, div_mul_cancel₀ _ hq', Real.rpow_natCast]
  rw [← e]
  exact (pow_lt_pow_iff_left₀ (Real.rpow_nonneg hy.le _) hx hq.ne').symm

/-- for a proper cell, `0 < K`, `0 < q`: the decided test is `h_t/K < h_x^(p/q) < K h_t` over `ℝ` -/
theorem inWindow_iff_rpow (c : Cell) (hc : c.t0 < c.t1 ∧ c.x0 < c.x1) (p : ℕ) {q : ℕ} (hq : 0 < q)
    {K : ℚ} (hK : 0 < K) :
    InWindow c p q K ↔
      (((c.t1 - c.t0 : ℚ) : ℝ) / (K : ℝ) < ((c.x1 - c.x0 : ℚ) : ℝ) ^ ((p : ℝ) / (q : ℝ)) ∧
       ((c.x1 - c.x0 : ℚ) : ℝ) ^ ((p : ℝ) / (q : ℝ)) < (K : ℝ) * ((c.t1 - c.t0 : ℚ) : ℝ)) := by
  have ht : (0 : ℚ) < c.t1 - c.t0 := sub_pos.mpr hc.1
  have hx : (0 : ℚ) < c.x1 - c.x0 := sub_pos.mpr hc.2
  have htR : (0 : ℝ) < ((c.t1 - c.t0 : ℚ) : ℝ) := by exact_mod_cast ht
  have hxR : (0 : ℝ) < ((c.x1 - c.x0 : ℚ) : ℝ) := by exact_mod_cast hx
  have hKR : (0 : ℝ) < (K : ℝ) := by exact_mod_cast hK
  rw [inWindow_iff', lt_rpow_div_iff (by positivity) hxR p hq, rpow_div_lt_iff (by positivity) hxR p hq]
  constructor
  · rintro ⟨h1, h2⟩
    exact ⟨by exact_mod_cast h1, by exact_mod_cast h2⟩
  · rintro ⟨h1, h2⟩
    exact ⟨by exact_mod_cast h1, by exact_mod_cast h2⟩

end Stbem.Mesh
