import Stbem.Lemmas.QuadtreeCoherent

/-!
# The generated `bisect_edge`, evaluated

`bisect_edge_eq`: on a state where `(a, b)` has not been bisected and `a`, `b` are the end points of an axis-parallel
segment, `InitialMesh.bisect_edge(a, b)` returns; the result is given explicitly (`stepB`): the vertex is the one registered
for the reversed edge if there is one, else a new vertex with the mid-point coordinates whose index is the length of the
vertex list; the three insertions.  `refine_succ_gen` splits the generated `refine` into the balance closure and the rest
(`refineTail`).
-/
namespace Stbem.QuadtreeTie
open Stbem.Quadtree Stbem.Gen
open QuadtreeGen (dictHas dictGet dictSet Element_edges)

/-- end points of an axis-parallel segment of positive length -/
def MidOK (a b : Vtx) : Prop := (a.x = b.x ∧ a.y ≠ b.y) ∨ (a.y = b.y ∧ a.x ≠ b.x)

/-- the vertex that `bisect_edge` creates -/
def midVtx (g : GMesh) (a b : Vtx) : Vtx := { x := (a.x + b.x) / 2, y := (a.y + b.y) / 2, idx := g.vertices.length }

/-- the vertex registered for the reversed edge -/
def lookupRev (g : GMesh) (a b : Vtx) : Option Vtx :=
  (g.bisect_edge.find? fun p => decide (p.1 = (b, a))).map (·.2)

/-- the three insertions of `bisect_edge` -/
def regB (g : GMesh) (a b v : Vtx) : GMesh :=
  { g with bisect_edge := ((a, b), v) :: g.bisect_edge,
           parent_edge := ((v, b), (a, b)) :: ((a, v), (a, b)) :: g.parent_edge }

/-- the result of `bisect_edge(a, b)` -/
def stepB (g : GMesh) (a b : Vtx) : GMesh × Vtx :=
  match lookupRev g a b with
  | some v => (regB g a b v, v)
  | none => (regB { g with vertices := g.vertices ++ [midVtx g a b] } a b (midVtx g a b), midVtx g a b)

theorem lookupRev_none {g : GMesh} {a b : Vtx} (h : lookupRev g a b = none) :
    ¬ dictHas g.bisect_edge (b, a) = true := by
  intro hh
  obtain ⟨v, hv, -⟩ := dictGet_of_has hh
  unfold dictGet at hv
  unfold lookupRev at h
  cases hf : g.bisect_edge.find? (fun p => decide (p.1 = (b, a))) with
  | none => rw [hf] at hv; cases hv
  | some q => rw [hf] at h; cases h

theorem lookupRev_some {g : GMesh} {a b v : Vtx} (h : lookupRev g a b = some v) :
    dictHas g.bisect_edge (b, a) = true ∧ dictGet g.bisect_edge (b, a) = .ok v ∧ ((b, a), v) ∈ g.bisect_edge := by
  unfold lookupRev at h
  cases hf : g.bisect_edge.find? (fun p => decide (p.1 = (b, a))) with
  | none => rw [hf] at h; cases h
  | some q =>
    rw [hf] at h
    simp only [Option.map_some, Option.some.injEq] at h
    have h1 := List.find?_some hf
    have h2 := List.mem_of_find?_eq_some hf
    simp only [decide_eq_true_eq] at h1
    have hg : dictGet g.bisect_edge (b, a) = .ok v := by
      unfold dictGet; rw [hf]; simp [pure, Except.pure, h]
    exact ⟨(dictHas_iff _ _).mpr ⟨q, h2, h1⟩, hg, dictGet_ok hg⟩

theorem midOK_xor {a b : Vtx} (h : MidOK a b) :
    xor (decide ((a.x = b.x) ∧ (b.x = (a.x + b.x) / 2))) (decide ((a.y = b.y) ∧ (b.y = (a.y + b.y) / 2))) = true := by
  rcases h with ⟨h1, h2⟩ | ⟨h1, h2⟩
  · have e1 : b.x = (a.x + b.x) / 2 := by rw [h1]; ring
    have e2 : ¬ (a.y = b.y ∧ b.y = (a.y + b.y) / 2) := fun h => h2 h.1
    simp [h1, e2]
  · have e1 : b.y = (a.y + b.y) / 2 := by rw [h1]; ring
    have e2 : ¬ (a.x = b.x ∧ b.x = (a.x + b.x) / 2) := fun h => h2 h.1
    simp [h1, e2]

/-- `InitialMesh.bisect_edge(a, b)` regenerated from the source, evaluated -/
theorem bisect_edge_eq (g : GMesh) (a b : Vtx) (hn : ¬ dictHas g.bisect_edge (a, b) = true) (hm : MidOK a b) :
    QuadtreeGen.InitialMesh_bisect_edge g a b = .ok (stepB g a b) := by
  unfold QuadtreeGen.InitialMesh_bisect_edge stepB
  have hx := midOK_xor hm
  cases hl : lookupRev g a b with
  | some v =>
    obtain ⟨h1, h2, -⟩ := lookupRev_some hl
    simp [QuadtreeGen.assertThat, hn, h1, h2, bind, Except.bind, pure, Except.pure, regB, dictSet]
  | none =>
    have h1 := lookupRev_none hl
    simp at hx
    simp [QuadtreeGen.assertThat, hn, h1, hx, bind, Except.bind, pure, Except.pure, regB, dictSet, midVtx]

/-- a bisected edge trips the assertion -/
theorem bisect_edge_stale (g : GMesh) (a b : Vtx) (hn : dictHas g.bisect_edge (a, b) = true) :
    QuadtreeGen.InitialMesh_bisect_edge g a b = .error "assert:bisected" := by
  unfold QuadtreeGen.InitialMesh_bisect_edge
  simp [QuadtreeGen.assertThat, hn, bind, Except.bind]

/-! ### what `stepB` does to the fields -/

theorem stepB_elements (g : GMesh) (a b : Vtx) : (stepB g a b).1.elements = g.elements := by
  unfold stepB; split <;> rfl
theorem stepB_leaves (g : GMesh) (a b : Vtx) : (stepB g a b).1.leaf_elements = g.leaf_elements := by
  unfold stepB; split <;> rfl
theorem stepB_nbrs (g : GMesh) (a b : Vtx) : (stepB g a b).1.nbrs = g.nbrs := by
  unfold stepB; split <;> rfl
theorem stepB_bisect (g : GMesh) (a b : Vtx) :
    (stepB g a b).1.bisect_edge = ((a, b), (stepB g a b).2) :: g.bisect_edge := by
  unfold stepB; split <;> rfl
theorem stepB_parent (g : GMesh) (a b : Vtx) :
    (stepB g a b).1.parent_edge =
      (((stepB g a b).2, b), (a, b)) :: ((a, (stepB g a b).2), (a, b)) :: g.parent_edge := by
  unfold stepB; split <;> rfl
theorem stepB_vertices (g : GMesh) (a b : Vtx) :
    (stepB g a b).1.vertices = g.vertices ++ (if (lookupRev g a b).isSome then [] else [midVtx g a b]) := by
  unfold stepB; split <;> rename_i h <;> simp [h, regB]

/-- the returned vertex is a vertex of the new state with the mid-point coordinates, provided the registered ones are -/
theorem stepB_vtx (g : GMesh) (a b : Vtx)
    (hb : ∀ p ∈ g.bisect_edge, p.2 ∈ g.vertices ∧ IsMid p.1 p.2) :
    (stepB g a b).2 ∈ (stepB g a b).1.vertices ∧ IsMid (a, b) (stepB g a b).2 := by
  unfold stepB
  cases hl : lookupRev g a b with
  | some v =>
    obtain ⟨-, -, h3⟩ := lookupRev_some hl
    obtain ⟨q1, q2⟩ := hb _ h3
    refine ⟨q1, ?_⟩
    simp only [IsMid] at q2 ⊢
    constructor
    · rw [q2.1]; ring
    · rw [q2.2]; ring
  | none =>
    refine ⟨by simp [regB], ?_⟩
    simp [IsMid, midVtx]

/-- a look-up of a reversed edge after the registration of a different edge -/
theorem lookupRev_stepB (g : GMesh) (a b c d : Vtx) (h : (a, b) ≠ (d, c)) :
    lookupRev (stepB g a b).1 c d = lookupRev g c d := by
  unfold lookupRev
  rw [stepB_bisect, List.find?_cons_of_neg]
  simpa using h

theorem dictHas_stepB (g : GMesh) (a b : Vtx) (k : QuadtreeGen.Edge) :
    dictHas (stepB g a b).1.bisect_edge k = (decide ((a, b) = k) || dictHas g.bisect_edge k) := by
  rw [stepB_bisect]
  simp [dictHas]

end Stbem.QuadtreeTie
