import Mathlib.Analysis.SpecialFunctions.Sqrt
import Mathlib.Analysis.SpecialFunctions.ExpDeriv
import Mathlib.Analysis.Calculus.Deriv.Mul
import Mathlib.Analysis.Calculus.Deriv.Add
import Mathlib.Analysis.Calculus.Deriv.Inv
import Mathlib.Analysis.Calculus.Deriv.Pow
import Mathlib.Tactic.Ring
import Mathlib.Tactic.FieldSimp
import Mathlib.Tactic.Linarith

/-!
# Pointwise solutions of the heat equation (helper layer for `Props/C03Problems.lean`)

`Heat1 f t a` / `Heat2 u t a b`: all the partial derivatives occurring in `∂ₜ = ∂ₐₐ (+ ∂_bb)` exist at the point
(the first space derivatives on the whole line through the point) and the equation holds.
Closure under sums, scalar multiples, and products of 1-D solutions in separate variables.
The building block: `(t, a) ↦ E((σ a + p)/(2√t))` for any `E` with `E' x = c · exp(−x²)` and `σ² = 1`.
-/
namespace Stbem.Problems.R

/-- `f` solves `∂ₜ f = ∂ₐₐ f` at `(t, a)` -/
def Heat1 (f : ℝ → ℝ → ℝ) (t a : ℝ) : Prop :=
  ∃ (fa : ℝ → ℝ) (ft faa : ℝ), HasDerivAt (fun τ => f τ a) ft t ∧
    (∀ α, HasDerivAt (fun α => f t α) (fa α) α) ∧ HasDerivAt fa faa a ∧ ft = faa

/-- `u` solves `∂ₜ u = ∂ₐₐ u + ∂_bb u` at `(t, a, b)` -/
def Heat2 (u : ℝ → ℝ → ℝ → ℝ) (t a b : ℝ) : Prop :=
  ∃ (ua ub : ℝ → ℝ) (ut uaa ubb : ℝ), HasDerivAt (fun τ => u τ a b) ut t ∧
    (∀ α, HasDerivAt (fun α => u t α b) (ua α) α) ∧ HasDerivAt ua uaa a ∧
    (∀ β, HasDerivAt (fun β => u t a β) (ub β) β) ∧ HasDerivAt ub ubb b ∧ ut = uaa + ubb

/-- the equation in terms of `deriv` -/
theorem Heat2.deriv_eq {u : ℝ → ℝ → ℝ → ℝ} {t a b : ℝ} (h : Heat2 u t a b) :
    deriv (fun τ => u τ a b) t
      = deriv (deriv (fun α => u t α b)) a + deriv (deriv (fun β => u t a β)) b := by
  obtain ⟨ua, ub, ut, uaa, ubb, h1, h2, h3, h4, h5, h6⟩ := h
  have e1 : deriv (fun α => u t α b) = ua := funext fun α => (h2 α).deriv
  have e2 : deriv (fun β => u t a β) = ub := funext fun β => (h4 β).deriv
  rw [e1, e2, h1.deriv, h3.deriv, h5.deriv, h6]

theorem Heat2.differentiable {u : ℝ → ℝ → ℝ → ℝ} {t a b : ℝ} (h : Heat2 u t a b) :
    DifferentiableAt ℝ (fun τ => u τ a b) t ∧ Differentiable ℝ (fun α => u t α b) ∧
      DifferentiableAt ℝ (deriv (fun α => u t α b)) a ∧ Differentiable ℝ (fun β => u t a β) ∧
      DifferentiableAt ℝ (deriv (fun β => u t a β)) b := by
  obtain ⟨ua, ub, ut, uaa, ubb, h1, h2, h3, h4, h5, _⟩ := h
  have e1 : deriv (fun α => u t α b) = ua := funext fun α => (h2 α).deriv
  have e2 : deriv (fun β => u t a β) = ub := funext fun β => (h4 β).deriv
  refine ⟨h1.differentiableAt, fun α => (h2 α).differentiableAt, ?_, fun β => (h4 β).differentiableAt, ?_⟩
  · rw [e1]; exact h3.differentiableAt
  · rw [e2]; exact h5.differentiableAt

theorem Heat1.add {f g : ℝ → ℝ → ℝ} {t a : ℝ} (hf : Heat1 f t a) (hg : Heat1 g t a) :
    Heat1 (fun τ α => f τ α + g τ α) t a := by
  obtain ⟨fa, ft, faa, f1, f2, f3, f4⟩ := hf
  obtain ⟨ga, gt, gaa, g1, g2, g3, g4⟩ := hg
  exact ⟨fun α => fa α + ga α, ft + gt, faa + gaa, f1.add g1, fun α => (f2 α).add (g2 α), f3.add g3, by rw [f4, g4]⟩

theorem Heat1.const_mul {f : ℝ → ℝ → ℝ} {t a : ℝ} (c : ℝ) (hf : Heat1 f t a) :
    Heat1 (fun τ α => c * f τ α) t a := by
  obtain ⟨fa, ft, faa, f1, f2, f3, f4⟩ := hf
  exact ⟨fun α => c * fa α, c * ft, c * faa, f1.const_mul c, fun α => (f2 α).const_mul c, f3.const_mul c, by rw [f4]⟩

theorem Heat1.neg {f : ℝ → ℝ → ℝ} {t a : ℝ} (hf : Heat1 f t a) : Heat1 (fun τ α => - f τ α) t a := by
  obtain ⟨fa, ft, faa, f1, f2, f3, f4⟩ := hf
  exact ⟨fun α => - fa α, - ft, - faa, f1.neg, fun α => (f2 α).neg, f3.neg, by rw [f4]⟩

theorem Heat2.add {u v : ℝ → ℝ → ℝ → ℝ} {t a b : ℝ} (hu : Heat2 u t a b) (hv : Heat2 v t a b) :
    Heat2 (fun τ α β => u τ α β + v τ α β) t a b := by
  obtain ⟨ua, ub, ut, uaa, ubb, u1, u2, u3, u4, u5, u6⟩ := hu
  obtain ⟨va, vb, vt, vaa, vbb, v1, v2, v3, v4, v5, v6⟩ := hv
  exact ⟨fun α => ua α + va α, fun β => ub β + vb β, ut + vt, uaa + vaa, ubb + vbb, u1.add v1,
    fun α => (u2 α).add (v2 α), u3.add v3, fun β => (u4 β).add (v4 β), u5.add v5, by rw [u6, v6]; ring⟩

theorem Heat2.const_mul {u : ℝ → ℝ → ℝ → ℝ} {t a b : ℝ} (c : ℝ) (hu : Heat2 u t a b) :
    Heat2 (fun τ α β => c * u τ α β) t a b := by
  obtain ⟨ua, ub, ut, uaa, ubb, u1, u2, u3, u4, u5, u6⟩ := hu
  exact ⟨fun α => c * ua α, fun β => c * ub β, c * ut, c * uaa, c * ubb, u1.const_mul c,
    fun α => (u2 α).const_mul c, u3.const_mul c, fun β => (u4 β).const_mul c, u5.const_mul c, by rw [u6]; ring⟩

/-- separation of variables: a product of 1-D solutions solves the 2-D equation -/
theorem Heat2.of_mul {A B : ℝ → ℝ → ℝ} {t a b : ℝ} (hA : Heat1 A t a) (hB : Heat1 B t b) :
    Heat2 (fun τ α β => A τ α * B τ β) t a b := by
  obtain ⟨Aa, At, Aaa, a1, a2, a3, a4⟩ := hA
  obtain ⟨Ba, Bt, Bbb, b1, b2, b3, b4⟩ := hB
  refine ⟨fun α => Aa α * B t b, fun β => A t a * Ba β, At * B t b + A t a * Bt, Aaa * B t b, A t a * Bbb,
    a1.mul b1, fun α => (a2 α).mul_const (B t b), a3.mul_const (B t b), fun β => (b2 β).const_mul (A t a),
    b3.const_mul (A t a), by rw [a4, b4]⟩

/-- the building block of the closed forms: `E((σ a + p)/(2√t))` with `E' = c · exp(−x²)`, `σ² = 1` -/
theorem heat1_erfBlock (E : ℝ → ℝ) (c : ℝ) (hE : ∀ x, HasDerivAt E (c * Real.exp (-x ^ 2)) x)
    (σ p : ℝ) (hσ : σ ^ 2 = 1) (t a : ℝ) (ht : 0 < t) :
    Heat1 (fun τ α => E ((σ * α + p) / (2 * Real.sqrt τ))) t a := by
  have hs : 0 < Real.sqrt t := Real.sqrt_pos.mpr ht
  have hs2 : Real.sqrt t ^ 2 = t := Real.sq_sqrt ht.le
  -- inner function in space
  have hin : ∀ α, HasDerivAt (fun α : ℝ => (σ * α + p) / (2 * Real.sqrt t)) (σ / (2 * Real.sqrt t)) α := by
    intro α
    have h1 : HasDerivAt (fun α : ℝ => σ * α + p) σ α := by
      simpa using ((hasDerivAt_id α).const_mul σ).add_const p
    exact h1.div_const _
  -- first space derivative, everywhere
  have hfa : ∀ α, HasDerivAt (fun α : ℝ => E ((σ * α + p) / (2 * Real.sqrt t)))
      (c * Real.exp (-((σ * α + p) / (2 * Real.sqrt t)) ^ 2) * (σ / (2 * Real.sqrt t))) α := fun α =>
    (hE _).comp α (hin α)
  -- second space derivative at `a`
  have hfaa : HasDerivAt (fun α : ℝ => c * Real.exp (-((σ * α + p) / (2 * Real.sqrt t)) ^ 2) * (σ / (2 * Real.sqrt t)))
      (c * (Real.exp (-((σ * a + p) / (2 * Real.sqrt t)) ^ 2) *
        (-(2 * ((σ * a + p) / (2 * Real.sqrt t)) * (σ / (2 * Real.sqrt t))))) * (σ / (2 * Real.sqrt t))) a := by
    have h2 : HasDerivAt (fun α : ℝ => -((σ * α + p) / (2 * Real.sqrt t)) ^ 2)
        (-(2 * ((σ * a + p) / (2 * Real.sqrt t)) * (σ / (2 * Real.sqrt t)))) a := by
      have := ((hin a).fun_pow 2).fun_neg
      exact this.congr_deriv (by norm_num)
    exact ((h2.exp).const_mul c).mul_const _
  -- time derivative
  have hsq : HasDerivAt (fun τ : ℝ => Real.sqrt τ) (1 / (2 * Real.sqrt t)) t := Real.hasDerivAt_sqrt ht.ne'
  have hint : HasDerivAt (fun τ : ℝ => (σ * a + p) / (2 * Real.sqrt τ))
      (-((σ * a + p) * (2 * (1 / (2 * Real.sqrt t)))) / (2 * Real.sqrt t) ^ 2) t := by
    have h3 : HasDerivAt (fun τ : ℝ => 2 * Real.sqrt τ) (2 * (1 / (2 * Real.sqrt t))) t := hsq.const_mul 2
    have := HasDerivAt.fun_div (hasDerivAt_const t (σ * a + p)) h3 (by positivity)
    exact this.congr_deriv (by ring)
  have hft : HasDerivAt (fun τ : ℝ => E ((σ * a + p) / (2 * Real.sqrt τ)))
      (c * Real.exp (-((σ * a + p) / (2 * Real.sqrt t)) ^ 2) *
        (-((σ * a + p) * (2 * (1 / (2 * Real.sqrt t)))) / (2 * Real.sqrt t) ^ 2)) t := (hE _).comp t hint
  refine ⟨_, _, _, hft, hfa, hfaa, ?_⟩
  field_simp
  rw [hσ]; ring

end Stbem.Problems.R
