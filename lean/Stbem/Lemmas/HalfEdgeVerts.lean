import Stbem.Lemmas.HalfEdgeCases

/-!
# H-layer: vertices — every vertex is a corner of a leaf (`HVerts`), and when the mid point of an edge is already
a vertex
-/
namespace Stbem.HalfEdge
open Stbem.Mesh (Ax Side Cell Mesh Inv Adj nbrs Tiles tlo thi NM descSide)

/-- every vertex of the mesh is a corner of some leaf -/
def HVerts (h : HMesh) : Prop :=
  ∀ v < h.verts.size, ∃ l ∈ h.leaves, ∃ s, h.pt v = corner (h.cellOf l) s

theorem eq_of_overlap {m : Mesh} (ht : Tiles m) {c d : Cell} (hc : c ∈ m.leaves) (hd : d ∈ m.leaves)
    (h1 : max c.t0 d.t0 < min c.t1 d.t1) (h2 : max c.x0 d.x0 < min c.x1 d.x1) : c = d := by
  apply ht.disjoint c hc d hd (max c.t0 d.t0) (max c.x0 d.x0)
  · exact ⟨le_max_left _ _, lt_of_lt_of_le h1 (min_le_left _ _), le_max_left _ _, lt_of_lt_of_le h2 (min_le_left _ _)⟩
  · exact ⟨le_max_right _ _, lt_of_lt_of_le h1 (min_le_right _ _), le_max_right _ _,
      lt_of_lt_of_le h2 (min_le_right _ _)⟩

/-- no leaf has a corner in the relative interior of a side of the leaf `c` whose neighbours all span it (or
which lies on the boundary of the cylinder) -/
theorem no_corner_at_mid {m : Mesh} (hm : Inv m) {c d : Cell} (hc : c ∈ m.leaves) (hd : d ∈ m.leaves) (s s' : Side)
    {P : Rat × Rat} (hν : nu s P = nu s (corner c s)) (hτ : tlo c s < tau s P ∧ tau s P < thi c s)
    (hother : (∀ n ∈ m.leaves, Adj m c s n → tlo n s ≤ tlo c s ∧ thi c s ≤ thi n s) ∨
      Stbem.Mesh.onBoundary m c s = true)
    (hP : corner d s' = P) : False := by
  obtain ⟨pc1, pc2⟩ := hm.tiles.proper c hc
  obtain ⟨pd1, pd2⟩ := hm.tiles.proper d hd
  obtain ⟨i1, i2, i3, i4⟩ := hm.tiles.inside d hd
  obtain ⟨τ1, τ2⟩ := hτ
  subst hP
  -- same side: `d` overlaps `c`
  have same : max c.t0 d.t0 < min c.t1 d.t1 → max c.x0 d.x0 < min c.x1 d.x1 → c = d :=
    eq_of_overlap hm.tiles hc hd
  -- other side: `d` is a neighbour of `c` across `s`
  have other : Adj m c s d → (tlo d s ≤ tlo c s ∧ thi c s ≤ thi d s) ∨ Stbem.Mesh.onBoundary m c s = true := by
    intro ha
    rcases hother with h | h
    · exact Or.inl (h d hd ha)
    · exact Or.inr h
  cases s <;> cases s' <;>
    simp only [nu, tau, corner, tlo, thi, Adj, Stbem.Mesh.OvX, Stbem.Mesh.OvT, Stbem.Mesh.onBoundary,
      decide_eq_true_eq] at hν τ1 τ2 other
  · (have e := same (by rw [max_lt_iff, lt_min_iff, lt_min_iff]; refine ⟨⟨?_, ?_⟩, ⟨?_, ?_⟩⟩ <;> linarith)
          (by rw [max_lt_iff, lt_min_iff, lt_min_iff]; refine ⟨⟨?_, ?_⟩, ⟨?_, ?_⟩⟩ <;> linarith);
       subst e; linarith)
  · (have e := same (by rw [max_lt_iff, lt_min_iff, lt_min_iff]; refine ⟨⟨?_, ?_⟩, ⟨?_, ?_⟩⟩ <;> linarith)
          (by rw [max_lt_iff, lt_min_iff, lt_min_iff]; refine ⟨⟨?_, ?_⟩, ⟨?_, ?_⟩⟩ <;> linarith);
       subst e; linarith)
  · (rcases other ⟨by linarith, ⟨by linarith, by linarith, by linarith, by linarith⟩⟩ with ⟨o1, o2⟩ | o <;> linarith)
  · (rcases other ⟨by linarith, ⟨by linarith, by linarith, by linarith, by linarith⟩⟩ with ⟨o1, o2⟩ | o <;> linarith)
  · (rcases other ⟨Or.inl (by linarith), ⟨by linarith, by linarith, by linarith, by linarith⟩⟩ with ⟨o1, o2⟩ | o <;> linarith)
  · (have e := same (by rw [max_lt_iff, lt_min_iff, lt_min_iff]; refine ⟨⟨?_, ?_⟩, ⟨?_, ?_⟩⟩ <;> linarith)
          (by rw [max_lt_iff, lt_min_iff, lt_min_iff]; refine ⟨⟨?_, ?_⟩, ⟨?_, ?_⟩⟩ <;> linarith);
       subst e; linarith)
  · (have e := same (by rw [max_lt_iff, lt_min_iff, lt_min_iff]; refine ⟨⟨?_, ?_⟩, ⟨?_, ?_⟩⟩ <;> linarith)
          (by rw [max_lt_iff, lt_min_iff, lt_min_iff]; refine ⟨⟨?_, ?_⟩, ⟨?_, ?_⟩⟩ <;> linarith);
       subst e; linarith)
  · (rcases other ⟨Or.inl (by linarith), ⟨by linarith, by linarith, by linarith, by linarith⟩⟩ with ⟨o1, o2⟩ | o <;> linarith)
  · (rcases other ⟨by linarith, ⟨by linarith, by linarith, by linarith, by linarith⟩⟩ with ⟨o1, o2⟩ | o <;> linarith)
  · (rcases other ⟨by linarith, ⟨by linarith, by linarith, by linarith, by linarith⟩⟩ with ⟨o1, o2⟩ | o <;> linarith)
  · (have e := same (by rw [max_lt_iff, lt_min_iff, lt_min_iff]; refine ⟨⟨?_, ?_⟩, ⟨?_, ?_⟩⟩ <;> linarith)
          (by rw [max_lt_iff, lt_min_iff, lt_min_iff]; refine ⟨⟨?_, ?_⟩, ⟨?_, ?_⟩⟩ <;> linarith);
       subst e; linarith)
  · (have e := same (by rw [max_lt_iff, lt_min_iff, lt_min_iff]; refine ⟨⟨?_, ?_⟩, ⟨?_, ?_⟩⟩ <;> linarith)
          (by rw [max_lt_iff, lt_min_iff, lt_min_iff]; refine ⟨⟨?_, ?_⟩, ⟨?_, ?_⟩⟩ <;> linarith);
       subst e; linarith)
  · (have e := same (by rw [max_lt_iff, lt_min_iff, lt_min_iff]; refine ⟨⟨?_, ?_⟩, ⟨?_, ?_⟩⟩ <;> linarith)
          (by rw [max_lt_iff, lt_min_iff, lt_min_iff]; refine ⟨⟨?_, ?_⟩, ⟨?_, ?_⟩⟩ <;> linarith);
       subst e; linarith)
  · (rcases other ⟨Or.inl (by linarith), ⟨by linarith, by linarith, by linarith, by linarith⟩⟩ with ⟨o1, o2⟩ | o <;> linarith)
  · (rcases other ⟨Or.inl (by linarith), ⟨by linarith, by linarith, by linarith, by linarith⟩⟩ with ⟨o1, o2⟩ | o <;> linarith)
  · (have e := same (by rw [max_lt_iff, lt_min_iff, lt_min_iff]; refine ⟨⟨?_, ?_⟩, ⟨?_, ?_⟩⟩ <;> linarith)
          (by rw [max_lt_iff, lt_min_iff, lt_min_iff]; refine ⟨⟨?_, ?_⟩, ⟨?_, ?_⟩⟩ <;> linarith);
       subst e; linarith)

/-- in case (a) every neighbour across the side spans it -/
theorem caseA_span {h : HMesh} (hi : HInv h) (ha : Inv h.abs) {el : Nat} (hel : el ∈ h.leaves) {s : Side}
    {f n : Nat} (hn : n ∈ h.leaves) (hf : (h.elem n).side s.opp = f) (ho : Opp h ((h.elem el).side s) f) :
    ∀ n' ∈ h.abs.leaves, Adj h.abs (h.cellOf el) s n' →
      tlo n' s ≤ tlo (h.cellOf el) s ∧ thi (h.cellOf el) s ≤ thi n' s := by
  have gc := hi.geom el hel
  have gn := hi.geom n hn
  obtain ⟨r1, r2⟩ := ho.ptRel
  rw [← hf, gn.v0pt, gc.v1pt] at r1
  rw [← hf, gn.v1pt, gc.v0pt] at r2
  obtain ⟨nm, ht⟩ := nm_of_corners ha.dom.2 ((hi.flags el hel).seamSide s) rfl (nu_corner_next _ s) r1 r2
  have tc := tau_corner (h.cellOf el) s
  have hlo : tlo (h.cellOf n) s = tlo (h.cellOf el) s := by
    cases hd : descSide s <;> rw [hd] at ht tc <;> simp only [if_true, Bool.false_eq_true, if_false] at ht tc
    · rw [ht.1, tc.2]
    · rw [ht.1, tc.1]
  have hhi : thi (h.cellOf n) s = thi (h.cellOf el) s := by
    cases hd : descSide s <;> rw [hd] at ht tc <;> simp only [if_true, Bool.false_eq_true, if_false] at ht tc
    · rw [ht.2, tc.1]
    · rw [ht.2, tc.2]
  intro n' hn' hadj
  have hmem : n' ∈ nbrs h.abs (h.cellOf el) s := Stbem.Mesh.mem_nbrs.mpr ⟨hn', hadj⟩
  rw [caseA_nbrs hi ha hel hn hf ho] at hmem
  simp only [List.mem_cons, List.not_mem_nil, or_false] at hmem
  subst hmem
  exact ⟨le_of_eq hlo, le_of_eq hhi.symm⟩

end Stbem.HalfEdge
