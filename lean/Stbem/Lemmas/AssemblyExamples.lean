import Stbem.Lemmas.AssemblyCache
/-! Definitions used in the statements of C17 (`slPure`, `HistoryOk`), the key discipline of the single-layer
cache, and the concrete objects of the witnesses and non-vacuity examples. -/
namespace Stbem.Assembly

variable {E V C Hh : Type} [Zero V]

/-- the value `bilform_matrix` has to return on the inputs (configuration, tests, trials) -/
def slPure (F : Family C E V) (i : C × List E × List E) : Mat V := pureMat (F.leaf i.1) i.2.1 i.2.2

/-- every pool run of the history follows a valid schedule (`size` = number of tasks of the call) -/
def HistoryOk {K I : Type} (size : I → Nat) (evs : List (Event K I How)) : Prop :=
  ∀ e ∈ evs, match e with
    | .call inp how _ => how.Ok (size inp)
    | .crash inp how _ => how.Ok (size inp)
    | _ => True

/-- the key discipline of the repaired file name: operators with the same curve name AND the same
configuration text have the same leaf -/
theorem sl_key_discipline (F : Family C E V) (hash : List Char → Hh) (repr : E → List Char)
    (hhash : ∀ a b, hash a = hash b → a = b) (hrepr : GoodRepr repr)
    (hcurve : ∀ c, '[' ∉ F.curve c)
    (hdisc : ∀ c c', F.curve c = F.curve c' → F.cfg c = F.cfg c' → F.leaf c = F.leaf c') :
    KeyDiscipline (slSpec F hash repr) (slPure F) := by
  intro i i' _ _ hk
  simp only [slSpec, slKey, Prod.mk.injEq] at hk
  obtain ⟨hc, hts, htr, hg⟩ :=
    keyText_inj hrepr _ _ (hcurve i.1) (hcurve i'.1) _ _ _ _ _ _ (hhash _ _ hk.2.2.2)
  unfold slPure
  rw [hdisc _ _ hc hg, hts, htr]

/-- the (stronger) discipline the file name needed before the repair of finding F7: operators with the
same curve name have the same leaf, whatever their configuration -/
theorem sl_key_discipline_unfixed (F : Family C E V) (hash : List Char → Hh) (repr : E → List Char)
    (hhash : ∀ a b, hash a = hash b → a = b) (hrepr : GoodRepr repr)
    (hcurve : ∀ c, '[' ∉ F.curve c)
    (hdisc : ∀ c c', F.curve c = F.curve c' → F.leaf c = F.leaf c') :
    KeyDiscipline (slSpecUnfixed F hash repr) (slPure F) := by
  intro i i' _ _ hk
  simp only [slSpecUnfixed, slKeyUnfixed, Prod.mk.injEq] at hk
  obtain ⟨hc, hts, htr⟩ :=
    keyTextUnfixed_inj hrepr _ _ (hcurve i.1) (hcurve i'.1) _ _ _ _ (hhash _ _ hk.2.2.2)
  unfold slPure
  rw [hdisc _ _ hc, hts, htr]

/-- unary rendering `aⁿb` of a number: prefix-free -/
def unaryRepr (n : Nat) : List Char := List.replicate n 'a' ++ ['b']

theorem unaryRepr_prefix : ∀ (a b : Nat) (t : List Char), unaryRepr a ++ t = unaryRepr b → a = b := by
  intro a
  induction a with
  | zero =>
    intro b t h
    cases b with
    | zero => rfl
    | succ b => simp [unaryRepr, List.replicate_succ] at h
  | succ a ih =>
    intro b t h
    cases b with
    | zero => simp [unaryRepr, List.replicate_succ] at h
    | succ b =>
      simp only [unaryRepr, List.replicate_succ, List.cons_append, List.cons.injEq, true_and] at h
      rw [ih b t (by simpa [unaryRepr] using h)]

theorem unaryRepr_good : GoodRepr unaryRepr := by
  constructor
  · intro a b h
    obtain ⟨t, ht⟩ := h
    exact unaryRepr_prefix a b t ht
  · intro a
    cases a with
    | zero => exact ⟨'b', [], rfl, by decide⟩
    | succ n =>
      exact ⟨'a', List.replicate n 'a' ++ ['b'], by simp [unaryRepr, List.replicate_succ], by decide⟩

/-- ten elements: a 10 × 10 matrix is the smallest that is cached -/
def tenElems : List Nat := [0, 1, 2, 3, 4, 5, 6, 7, 8, 9]

/-- two configurations of one operator family (`quad_order = 12`, `pw_exact = false / true`) on the same
curve: the leaves and the configuration texts `(12, False)` / `(12, True)` differ, the curve name does not -/
def twoConfigs : Family Bool Nat Nat where
  curve := fun _ => ['U', 'n', 'i', 't', 'S', 'q', 'u', 'a', 'r', 'e']
  cfg := fun pwExact => cfgText 12 pwExact
  leaf := fun pwExact => ⟨fun _ _ => if pwExact then 2 else 1, fun _ _ => false⟩

/-- two time slabs, two elements each; leaf = an injective token of the pair, 0 on acausal pairs -/
def exElems : List Elem :=
  [⟨0, 1/2, 0, 1/2⟩, ⟨0, 1/2, 1/2, 1⟩, ⟨1/2, 1, 0, 1/2⟩, ⟨1/2, 1, 1/2, 1⟩]

def exLeaf : Leaf Elem Rat :=
  ⟨fun tr te => if Elem.acausal tr te then 0 else 1 + te.t0 + 2 * te.x0 + 4 * tr.t0 + 8 * tr.x0,
   Elem.acausal⟩

theorem exLeaf_causal : exLeaf.Causal := by
  intro tr te h
  simp only [exLeaf] at h ⊢
  simp [h]

/-- a schedule with 3 workers, chunks of 1, completion order reversed -/
def exSched : Schedule := ⟨3, 1, fun c => c + 1, [3, 2, 1, 0]⟩

/-- the configurations `(quad_order, pw_exact)` of operators on one curve, each with a leaf of its own:
the configuration text is Python's `str((quad_order, pw_exact))` -/
def pyConfigs (curve : List Char) (leaf : Nat × Bool → Leaf E V) : Family (Nat × Bool) E V where
  curve := fun _ => curve
  cfg := fun c => cfgText c.1 c.2
  leaf := leaf

theorem exSched_valid : exSched.Valid exElems.length := by
  refine ⟨by decide, by decide, ?_⟩
  intro c hc
  have : numChunks exSched.chunk exElems.length = 4 := by decide
  rw [this] at hc
  have : c = 0 ∨ c = 1 ∨ c = 2 ∨ c = 3 := by omega
  rcases this with rfl | rfl | rfl | rfl <;> decide


end Stbem.Assembly
