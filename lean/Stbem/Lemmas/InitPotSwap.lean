import Stbem.Lemmas.InitPotPoly
namespace Stbem.InitPot
open Stbem.Quad

theorem sumR_comm {α β : Type} (l1 : List α) (l2 : List β) (F : α → β → Rat) :
    sumR (l1.map fun a => sumR (l2.map fun b => F a b)) = sumR (l2.map fun b => sumR (l1.map fun a => F a b)) := by
  induction l1 with
  | nil =>
    simp only [List.map_nil, sumR_nil]
    induction l2 with
    | nil => rfl
    | cons b l2 ih => simp only [List.map_cons, sumR_cons, ← ih]; ring
  | cons a l1 ih =>
    simp only [List.map_cons, sumR_cons, ih]
    rw [← sumR_map_add]

theorem sumR_comm3 {α : Type} (l : List α) (F : α → α → α → Rat) :
    sumR (l.map fun a => sumR (l.map fun b => sumR (l.map fun c => F a b c))) =
      sumR (l.map fun c => sumR (l.map fun b => sumR (l.map fun a => F a b c))) := by
  have s1 : sumR (l.map fun a => sumR (l.map fun b => sumR (l.map fun c => F a b c))) =
      sumR (l.map fun a => sumR (l.map fun c => sumR (l.map fun b => F a b c))) :=
    sumR_map_congr _ _ _ (fun a _ => sumR_comm l l (F a))
  have s2 : sumR (l.map fun a => sumR (l.map fun c => sumR (l.map fun b => F a b c))) =
      sumR (l.map fun c => sumR (l.map fun a => sumR (l.map fun b => F a b c))) :=
    sumR_comm l l (fun a c => sumR (l.map fun b => F a b c))
  have s3 : sumR (l.map fun c => sumR (l.map fun a => sumR (l.map fun b => F a b c))) =
      sumR (l.map fun c => sumR (l.map fun b => sumR (l.map fun a => F a b c))) :=
    sumR_map_congr _ _ _ (fun c _ => sumR_comm l l (fun a b => F a b c))
  rw [s1, s2, s3]

/-- the tensor rule of one 1-D rule is symmetric under `x ↔ z` -/
theorem apply3_product3_swap (r : Rule1) (g : Rat → Rat → Rat → Rat) :
    apply3 (product3 r) g = apply3 (product3 r) (fun x y z => g z y x) := by
  unfold apply3 product3
  simp only [sumR_flatMap, List.map_map, Function.comp_def]
  rw [sumR_comm3]
  apply sumR_map_congr
  intro nc _
  apply sumR_map_congr
  intro nb _
  apply sumR_map_congr
  intro na _
  ring

/-- **`DuffySchemeTouch3D(ProductScheme3D(r))` is symmetric under `x ↔ z`**: exchanging the two directions of a cell
parametrisation handed to the touching rule does not change the value (so exchanging `n2` and `n3` in the touching
branches of `linform` is a behaviour-preserving rewrite in exact arithmetic) -/
theorem apply3_duffTouch_swap (r : Rule1) (f : Rat → Rat → Rat → Rat) :
    apply3 (duffyTouch3 (product3 r)) f = apply3 (duffyTouch3 (product3 r)) (fun x y z => f z y x) := by
  rw [apply3_duffyTouch3, apply3_duffyTouch3, apply3_product3_swap]
  apply apply3_congr
  intro x y z
  ring

end Stbem.InitPot
