import Stbem.Model.Quadtree
import Mathlib.Tactic.Linarith
import Mathlib.Tactic.Ring
import Mathlib.Algebra.Order.Field.Rat
import Mathlib.Data.List.Nodup

/-!
# Invariant of the domain quadtree (definitions)

`QInv m` collects the statements of C16 about the state of `InitialMesh`:
* `Tiles`     the leaves tile the domain (= union of the level-0 elements): half-open squares, every point
              of the domain in exactly one leaf;
* `Balanced`  leaves that share a piece of positive length of an edge differ by at most one level;
* `VertsOK`   vertex coordinates are pairwise different, and the vertices are exactly the corners of the
              elements;
* `IdsOK`     element indices are the positions in `elems`, the leaf list has no repetition;
* `Forest`    the bookkeeping that makes the geometric reading of the dictionaries `nbrs`,
              `parent_edge`, `__bisect_edge` meaningful: every element is a square of the dyadic grid of
              its level, no square occurs twice, a non-root element is the `pos`-th quarter of a refined
              element, a refined element has its four quarters among the elements.
-/
namespace Stbem.Quadtree

/-- half-open membership -/
def Elem.Contains (e : Elem) (x y : Rat) : Prop :=
  e.x0 ≤ x ∧ x < e.x0 + e.size ∧ e.y0 ≤ y ∧ y < e.y0 + e.size

/-- geometric containment -/
def Elem.Sub (c d : Elem) : Prop :=
  d.x0 ≤ c.x0 ∧ c.x0 + c.size ≤ d.x0 + d.size ∧ d.y0 ≤ c.y0 ∧ c.y0 + c.size ≤ d.y0 + d.size

/-- the domain: union of the root squares -/
def QT.InDomain (m : QT) (x y : Rat) : Prop := ∃ r ∈ m.elems, r.level = 0 ∧ r.Contains x y

structure Tiles (m : QT) : Prop where
  cover : ∀ x y, m.InDomain x y → ∃ c ∈ m.leaves, c.Contains x y
  inside : ∀ c ∈ m.leaves, ∀ x y, c.Contains x y → m.InDomain x y
  disjoint : ∀ c ∈ m.leaves, ∀ d ∈ m.leaves, ∀ x y, c.Contains x y → d.Contains x y → c = d

/-- the projections of two squares overlap in a piece of positive length -/
def OvX (c n : Elem) : Prop := c.x0 < n.x0 + n.size ∧ n.x0 < c.x0 + c.size
def OvY (c n : Elem) : Prop := c.y0 < n.y0 + n.size ∧ n.y0 < c.y0 + c.size

/-- `n` lies across side `s` of `c` and shares a piece of positive length of it -/
def Adj (c : Elem) : Side → Elem → Prop
  | .bottom, n => n.y0 + n.size = c.y0 ∧ OvX c n
  | .right, n => n.x0 = c.x0 + c.size ∧ OvY c n
  | .top, n => n.y0 = c.y0 + c.size ∧ OvX c n
  | .left, n => n.x0 + n.size = c.x0 ∧ OvY c n

/-- 2:1 balance (the symmetric inequality follows from the symmetry of `Adj`) -/
def Balanced (m : QT) : Prop :=
  ∀ c ∈ m.leaves, ∀ n ∈ m.leaves, ∀ s, Adj c s n → c.level ≤ n.level + 1

/-- the element is a square of the dyadic grid of its level (unit roots at integer positions) -/
def OnGrid (e : Elem) : Prop :=
  e.size = 1 / 2 ^ e.level ∧ ∃ i j : Int, e.x0 = i * e.size ∧ e.y0 = j * e.size

structure Forest (m : QT) : Prop where
  grid : ∀ f ∈ m.elems, OnGrid f
  uniq : ∀ f ∈ m.elems, ∀ g ∈ m.elems, f.level = g.level → f.x0 = g.x0 → f.y0 = g.y0 → f = g
  leaves_sub : ∀ c ∈ m.leaves, c ∈ m.elems
  root : ∀ f ∈ m.elems, 4 ≤ f.pos → f.level = 0
  parent : ∀ f ∈ m.elems, f.pos < 4 → ∃ p ∈ m.elems, p ∉ m.leaves ∧ f.level = p.level + 1 ∧
    f.x0 = p.x0 + posDx f.pos * f.size ∧ f.y0 = p.y0 + posDy f.pos * f.size
  kids : ∀ p ∈ m.elems, p ∉ m.leaves → ∀ k, k < 4 → ∃ c ∈ m.elems, c.level = p.level + 1 ∧
    c.x0 = p.x0 + posDx k * (p.size / 2) ∧ c.y0 = p.y0 + posDy k * (p.size / 2)

/-- `v` is one of the four corners of `f` -/
def Corner (f : Elem) (v : Rat × Rat) : Prop :=
  (v.1 = f.x0 ∨ v.1 = f.x0 + f.size) ∧ (v.2 = f.y0 ∨ v.2 = f.y0 + f.size)

structure VertsOK (m : QT) : Prop where
  nodup : m.verts.Nodup
  corner : ∀ v ∈ m.verts, ∃ f ∈ m.elems, Corner f v
  mem : ∀ f ∈ m.elems, ∀ v, Corner f v → v ∈ m.verts

structure IdsOK (m : QT) : Prop where
  ids : m.elems.map (·.id) = List.range m.elems.length
  nodup : m.leaves.Nodup

structure QInv (m : QT) : Prop where
  forest : Forest m
  tiles : Tiles m
  bal : Balanced m
  verts : VertsOK m
  ids : IdsOK m

/-- `m'` extends `m`: the old elements are kept in place, the domain is the same, every new leaf lies in
an old leaf and is at least as deep -/
structure Ext (m m' : QT) : Prop where
  elems : ∃ l, m'.elems = m.elems ++ l
  roots : ∀ f ∈ m'.elems, f.level = 0 → f ∈ m.elems
  sub : ∀ d' ∈ m'.leaves, ∃ d ∈ m.leaves, d'.Sub d ∧ d.level ≤ d'.level
  verts : ∃ l, m'.verts = m.verts ++ l

/-! ### elementary facts -/

theorem Elem.Sub.refl (c : Elem) : c.Sub c := ⟨le_refl _, le_refl _, le_refl _, le_refl _⟩

theorem Elem.Sub.trans {a b c : Elem} (h1 : a.Sub b) (h2 : b.Sub c) : a.Sub c := by
  obtain ⟨a1, a2, a3, a4⟩ := h1
  obtain ⟨b1, b2, b3, b4⟩ := h2
  exact ⟨by linarith, by linarith, by linarith, by linarith⟩

theorem Elem.Sub.contains {c d : Elem} (h : c.Sub d) {x y : Rat} (hc : c.Contains x y) :
    d.Contains x y := by
  obtain ⟨s1, s2, s3, s4⟩ := h
  obtain ⟨h1, h2, h3, h4⟩ := hc
  exact ⟨by linarith, by linarith, by linarith, by linarith⟩

def Side.opp : Side → Side
  | .bottom => .top
  | .top => .bottom
  | .left => .right
  | .right => .left

theorem Adj.symm {c : Elem} {s : Side} {n : Elem} (h : Adj c s n) : Adj n s.opp c := by
  cases s <;> simp only [Adj, Side.opp, OvX, OvY] at h ⊢ <;>
    exact ⟨h.1.symm, h.2.2, h.2.1⟩

theorem Ext.refl (m : QT) : Ext m m :=
  ⟨⟨[], by simp⟩, fun _ hf _ => hf, fun d hd => ⟨d, hd, Elem.Sub.refl d, le_refl _⟩, ⟨[], by simp⟩⟩

theorem Ext.mem {m m' : QT} (h : Ext m m') {f : Elem} (hf : f ∈ m.elems) : f ∈ m'.elems := by
  obtain ⟨l, hl⟩ := h.elems
  rw [hl]; exact List.mem_append_left _ hf

theorem Ext.trans {a b c : QT} (h1 : Ext a b) (h2 : Ext b c) : Ext a c := by
  refine ⟨?_, fun f hf h0 => h1.roots f (h2.roots f hf h0) h0, ?_, ?_⟩
  · obtain ⟨l1, e1⟩ := h1.elems
    obtain ⟨l2, e2⟩ := h2.elems
    exact ⟨l1 ++ l2, by rw [e2, e1, List.append_assoc]⟩
  · intro d'' hd''
    obtain ⟨d', hd', s', l'⟩ := h2.sub d'' hd''
    obtain ⟨d, hd, s, l⟩ := h1.sub d' hd'
    exact ⟨d, hd, s'.trans s, le_trans l l'⟩
  · obtain ⟨l1, e1⟩ := h1.verts
    obtain ⟨l2, e2⟩ := h2.verts
    exact ⟨l1 ++ l2, by rw [e2, e1, List.append_assoc]⟩

theorem Ext.inDomain {m m' : QT} (h : Ext m m') (x y : Rat) : m'.InDomain x y ↔ m.InDomain x y := by
  constructor
  · rintro ⟨r, hr, h0, hc⟩; exact ⟨r, h.roots r hr h0, h0, hc⟩
  · rintro ⟨r, hr, h0, hc⟩; exact ⟨r, h.mem hr, h0, hc⟩

end Stbem.Quadtree
