import Stbem.Model.SingleLayer
import Mathlib.Tactic.Linarith
import Mathlib.Tactic.Ring
import Mathlib.Algebra.Order.Field.Rat
import Mathlib.Algebra.Order.AbsoluteValue.Basic

/-! Elementary facts used by all `SL*` lemma files: the `Except` monad, `absR`/`minR`/`maxR`,
the lexicographic comparisons. -/
namespace Stbem.SL

/-! ### `Except` -/

theorem bind_ok {ε α β} (x : Except ε α) (f : α → Except ε β) (y : β) :
    (x >>= f) = .ok y ↔ ∃ r, x = .ok r ∧ f r = .ok y := by
  cases x <;> simp [bind, Except.bind]

theorem pure_ok {ε α} (a y : α) : (pure a : Except ε α) = .ok y ↔ a = y := by
  simp [pure, Except.pure]

theorem ok_bind {ε α β} (r : α) (f : α → Except ε β) : ((Except.ok r : Except ε α) >>= f) = f r := rfl

theorem error_ne_ok {ε α} (e : ε) (y : α) : (Except.error e : Except ε α) ≠ .ok y := by
  intro h; cases h

/-! ### absolute value, min, max -/

theorem absR_eq_abs (x : Rat) : absR x = |x| := by
  unfold absR
  split
  · next h => rw [abs_of_neg h]
  · next h => rw [abs_of_nonneg (not_lt.mp h)]

theorem absR_nonneg (x : Rat) : 0 ≤ absR x := by rw [absR_eq_abs]; exact abs_nonneg x

theorem maxR_eq_max (a b : Rat) : maxR a b = max a b := by
  unfold maxR
  split
  · next h => rw [max_eq_right h]
  · next h => rw [max_eq_left (le_of_lt (not_le.mp h))]

theorem minR_eq_min (a b : Rat) : minR a b = min a b := by
  unfold minR
  split
  · next h => rw [min_eq_left h]
  · next h => rw [min_eq_right (le_of_lt (not_le.mp h))]

/-! ### lexicographic order on pairs -/

theorem lexLe_iff (a b c d : Rat) : lexLe a b c d = true ↔ a < c ∨ (a = c ∧ b ≤ d) := by
  simp [lexLe]

theorem lexLt_iff (a b c d : Rat) : lexLt a b c d = true ↔ a < c ∨ (a = c ∧ b < d) := by
  simp [lexLt]

theorem lexLe_false_iff (a b c d : Rat) : lexLe a b c d = false ↔ lexLt c d a b = true := by
  rw [← Bool.not_eq_true, lexLe_iff, lexLt_iff]
  constructor
  · intro h
    rcases lt_trichotomy a c with h1 | h1 | h1
    · exact absurd (Or.inl h1) h
    · right; refine ⟨h1.symm, ?_⟩
      by_contra h2; exact h (Or.inr ⟨h1, not_lt.mp h2⟩)
    · exact Or.inl h1
  · rintro (h | ⟨h1, h2⟩) (h' | ⟨h3, h4⟩) <;> linarith

theorem lexLe_refl (a b : Rat) : lexLe a b a b = true := by simp [lexLe]

theorem lexLe_antisymm {a b c d : Rat} (h1 : lexLe a b c d = true) (h2 : lexLe c d a b = true) :
    a = c ∧ b = d := by
  rw [lexLe_iff] at h1 h2
  rcases h1 with h1 | ⟨h1, h1'⟩ <;> rcases h2 with h2 | ⟨h2, h2'⟩
  · linarith
  · subst h2; exact absurd h1 (lt_irrefl _)
  · subst h1; exact absurd h2 (lt_irrefl _)
  · exact ⟨h1, le_antisymm h1' h2'⟩

theorem lexLe_total (a b c d : Rat) : lexLe a b c d = true ∨ lexLe c d a b = true := by
  rw [lexLe_iff, lexLe_iff]
  rcases lt_trichotomy a c with h | h | h
  · exact Or.inl (Or.inl h)
  · rcases le_total b d with h' | h'
    · exact Or.inl (Or.inr ⟨h, h'⟩)
    · exact Or.inr (Or.inr ⟨h.symm, h'⟩)
  · exact Or.inr (Or.inl h)

end Stbem.SL

namespace Stbem.SL

/-- decidable equality of results (for closed examples by `decide +kernel`) -/
def exceptDecEq {ε α} [DecidableEq ε] [DecidableEq α] : DecidableEq (Except ε α)
  | .ok a, .ok b => if h : a = b then isTrue (by rw [h]) else isFalse (fun h' => h (Except.ok.inj h'))
  | .error a, .error b =>
    if h : a = b then isTrue (by rw [h]) else isFalse (fun h' => h (Except.error.inj h'))
  | .ok _, .error _ => isFalse (fun h => by cases h)
  | .error _, .ok _ => isFalse (fun h => by cases h)

scoped instance {ε α} [DecidableEq ε] [DecidableEq α] : DecidableEq (Except ε α) := exceptDecEq

end Stbem.SL
