import Stbem.Lemmas.MeshOps

/-!
# `refineAxis` with an additional user invariant

The induction of `refineAxis_res` is repeated with three parameters:
* `Q : Mesh → Prop`, an invariant of the intermediate meshes,
* `G : Cell → Prop`, a guard satisfied by every cell that is bisected,
* `T : Mesh → Mesh → Prop`, a reflexive transitive relation between successive meshes.

It suffices that the guard propagates to the shallower neighbours that the closure refines
(`guard`) and that a single bisection of a guarded leaf preserves `Q` and is a `T`-step (`bis`).
-/
namespace Stbem.Mesh

structure GenHyp (ax : Ax) (Q : Mesh → Prop) (G : Cell → Prop) (T : Mesh → Mesh → Prop) : Prop where
  refl : ∀ M, T M M
  trans : ∀ A B C, T A B → T B C → T A C
  guard : ∀ (M : Mesh) (c : Cell) (s : Side) (n : Cell), Inv M → Q M → c ∈ M.leaves → G c →
    n ∈ M.leaves → Adj M c s n → n.level ax < c.level ax → G n
  bis : ∀ (M : Mesh) (c : Cell), Inv M → Q M → c ∈ M.leaves → G c →
    Q (bisect M c ax) ∧ T M (bisect M c ax)

/-- induction hypothesis on the fuel -/
def GIHyp (ax : Ax) (Q : Mesh → Prop) (G : Cell → Prop) (T : Mesh → Mesh → Prop) (fuel : Nat) : Prop :=
  ∀ (M : Mesh) (n : Cell), Inv M → Q M → n ∈ M.leaves → G n → n.level ax < fuel →
    ∃ M', refineAxis fuel M n.id ax = .ok M' ∧ Res ax M n M' ∧ Q M' ∧ T M M'

theorem inner_loop_gen {ax : Ax} {Q : Mesh → Prop} {G : Cell → Prop} {T : Mesh → Mesh → Prop}
    (H : GenHyp ax Q G T) {fuel : Nat} (IH : GIHyp ax Q G T fuel) {c : Cell} {s : Side}
    (hfuel : c.level ax < fuel + 1) (hG : G c) (rest : List Cell) :
    ∀ (M : Mesh), rest.Nodup → Inv M → Q M → c ∈ M.leaves →
      (∀ n ∈ rest, Adj M c s n) →
      (∀ n ∈ rest, n.level ax < c.level ax → n ∈ M.leaves) →
      (∀ n ∈ M.leaves, Adj M c s n → n ∈ rest ∨ c.level ax ≤ n.level ax) →
      ∃ M', rest.foldlM (innerStep fuel ax c) M = .ok M' ∧ Inv M' ∧ Below ax (c.level ax) M M' ∧
        c ∈ M'.leaves ∧ (∀ n ∈ M'.leaves, Adj M' c s n → c.level ax ≤ n.level ax) ∧
        Q M' ∧ T M M' := by
  induction rest with
  | nil =>
    intro M _ hinv hQ hcM _ _ hnb
    refine ⟨M, rfl, hinv, Below.refl _ _ _, hcM, ?_, hQ, H.refl M⟩
    intro n hn ha
    rcases hnb n hn ha with h | h
    · simp at h
    · exact h
  | cons n rest ih =>
    intro M hnd hinv hQ hcM hadj hrest hnb
    rw [List.foldlM_cons]
    have hnd' := (List.nodup_cons.mp hnd)
    by_cases hlt : n.level ax < c.level ax
    · have hnM : n ∈ M.leaves := hrest n (by simp) hlt
      have hadjn : Adj M c s n := hadj n (by simp)
      have hGn : G n := H.guard M c s n hinv hQ hcM hG hnM hadjn hlt
      obtain ⟨M1, hM1, res, hQ1, hT1⟩ := IH M n hinv hQ hnM hGn (by omega)
      have hstep : innerStep fuel ax c M n = .ok M1 := by
        simp only [innerStep, hlt, if_true]; exact hM1
      have hbel : Below ax (c.level ax) M M1 := res.below.mono (by omega)
      have hcM1 : c ∈ M1.leaves := res.keep c hcM (by rintro rfl; omega) (by omega)
      have hnlev := (hinv.irr.level hcM hnM hadjn ax).1
      obtain ⟨M', hM', hinv', hbel', hcM', hfin, hQ', hT'⟩ := ih M1 hnd'.2 res.inv hQ1 hcM1
        (fun n2 hn2 => res.ref.adj.mpr (hadj n2 (by simp [hn2])))
        (fun n2 hn2 hl2 => by
          have hn2M : n2 ∈ M.leaves := hrest n2 (by simp [hn2]) hl2
          have hne : n2 ≠ n := by rintro rfl; exact hnd'.1 hn2
          have := (hinv.irr.level hcM hn2M (hadj n2 (by simp [hn2])) ax).1
          exact res.keep n2 hn2M hne (by omega))
        (fun n2 hn2 ha2 => by
          rcases hbel.nbr hinv res.inv hcM (le_refl _) hn2 ha2 with ⟨h1, h2⟩ | h
          · rcases hnb n2 h1 h2 with h | h
            · rcases List.mem_cons.mp h with rfl | h
              · exact absurd hn2 res.gone
              · exact Or.inl h
            · exact Or.inr h
          · exact Or.inr h)
      refine ⟨M', ?_, hinv', hbel.trans hbel', hcM', hfin, hQ', H.trans _ _ _ hT1 hT'⟩
      rw [hstep]; exact hM'
    · have hstep : innerStep fuel ax c M n = .ok M := by
        simp only [innerStep, hlt, if_false]; rfl
      obtain ⟨M', hM', hinv', hbel', hcM', hfin, hQ', hT'⟩ := ih M hnd'.2 hinv hQ hcM
        (fun n2 hn2 => hadj n2 (by simp [hn2]))
        (fun n2 hn2 hl2 => hrest n2 (by simp [hn2]) hl2)
        (fun n2 hn2 ha2 => by
          rcases hnb n2 hn2 ha2 with h | h
          · rcases List.mem_cons.mp h with rfl | h
            · exact Or.inr (by omega)
            · exact Or.inl h
          · exact Or.inr h)
      refine ⟨M', ?_, hinv', hbel', hcM', hfin, hQ', hT'⟩
      rw [hstep]; exact hM'

theorem outer_loop_gen {ax : Ax} {Q : Mesh → Prop} {G : Cell → Prop} {T : Mesh → Mesh → Prop}
    (H : GenHyp ax Q G T) {fuel : Nat} (IH : GIHyp ax Q G T fuel) {c : Cell}
    (hfuel : c.level ax < fuel + 1) (hG : G c) (sides : List Side) :
    ∀ (done : List Side) (M : Mesh), Inv M → Q M → c ∈ M.leaves →
      (∀ s ∈ done, ∀ n ∈ M.leaves, Adj M c s n → c.level ax ≤ n.level ax) →
      ∃ M', sides.foldlM (outerStep fuel ax c) M = .ok M' ∧ Inv M' ∧ Below ax (c.level ax) M M' ∧
        c ∈ M'.leaves ∧
        (∀ s ∈ done ++ sides, ∀ n ∈ M'.leaves, Adj M' c s n → c.level ax ≤ n.level ax) ∧
        Q M' ∧ T M M' := by
  induction sides with
  | nil =>
    intro done M hinv hQ hcM hdone
    exact ⟨M, rfl, hinv, Below.refl _ _ _, hcM, by simpa using hdone, hQ, H.refl M⟩
  | cons s sides ih =>
    intro done M hinv hQ hcM hdone
    rw [List.foldlM_cons]
    obtain ⟨M1, hM1, hinv1, hbel1, hcM1, hfin1, hQ1, hT1⟩ :=
      inner_loop_gen H IH (s := s) hfuel hG (nbrs M c s) M
        (nbrs_nodup hinv.ids c s) hinv hQ hcM
        (fun n hn => (mem_nbrs.mp hn).2)
        (fun n hn _ => (mem_nbrs.mp hn).1)
        (fun n hn ha => Or.inl (mem_nbrs.mpr ⟨hn, ha⟩))
    obtain ⟨M', hM', hinv', hbel', hcM', hfin, hQ', hT'⟩ := ih (done ++ [s]) M1 hinv1 hQ1 hcM1 (by
      intro s' hs' n hn ha
      rcases List.mem_append.mp hs' with h | h
      · rcases hbel1.nbr hinv hinv1 hcM (le_refl _) hn ha with ⟨h1, h2⟩ | h'
        · exact hdone s' h n h1 h2
        · exact h'
      · simp only [List.mem_cons, List.not_mem_nil, or_false] at h
        subst h
        exact hfin1 n hn ha)
    refine ⟨M', ?_, hinv', hbel1.trans hbel', hcM', by simpa using hfin, hQ', H.trans _ _ _ hT1 hT'⟩
    have hstep : outerStep fuel ax c M s = .ok M1 := hM1
    rw [hstep]; exact hM'

theorem refineAxis_gen {ax : Ax} {Q : Mesh → Prop} {G : Cell → Prop} {T : Mesh → Mesh → Prop}
    (H : GenHyp ax Q G T) (fuel : Nat) : GIHyp ax Q G T fuel := by
  induction fuel with
  | zero => intro m n _ _ _ _ h; omega
  | succ fuel IH =>
    intro m c hinv hQ hc hG hf
    rw [refineAxis_succ, findLeaf_of_mem hinv.ids hc]
    obtain ⟨M, hM, hinvM, hbel, hcM, hfin, hQM, hTM⟩ :=
      outer_loop_gen H IH hf hG Side.all [] m hinv hQ hc (by simp)
    have hfin' : ∀ s, ∀ n ∈ M.leaves, Adj M c s n → c.level ax ≤ n.level ax := by
      intro s; apply hfin s; cases s <;> simp [Side.all]
    obtain ⟨hQb, hTb⟩ := H.bis M c hinvM hQM hcM hG
    refine ⟨bisect M c ax, ?_, bisect_res hinvM hc hcM hbel hfin', hQb, H.trans _ _ _ hTM hTb⟩
    simp only [hM, bind, Except.bind, findLeaf_of_mem hinvM.ids hcM]
    rfl

theorem refineId_gen {ax : Ax} {Q : Mesh → Prop} {G : Cell → Prop} {T : Mesh → Mesh → Prop}
    (H : GenHyp ax Q G T) {m : Mesh} (h : Inv m) (hQ : Q m) {c : Cell} (hc : c ∈ m.leaves)
    (hG : G c) : ∃ m', refineId m c.id ax = .ok m' ∧ Res ax m c m' ∧ Q m' ∧ T m m' := by
  unfold refineId
  rw [findLeaf_of_mem h.ids hc]
  exact refineAxis_gen H (c.level ax + 1) m c h hQ hc hG (Nat.lt_succ_self _)

end Stbem.Mesh
