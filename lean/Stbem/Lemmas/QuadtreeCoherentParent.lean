import Stbem.Lemmas.QuadtreeCoherentGeom

/-!
# `parent_edge` of the generated state, read geometrically

`par_get`: if `self.parent_edge[(a, b)]` returns `(pa, pb)` for the edge `(a, b)` of `e` on side `s`, then `e` is a child
whose side `s` is half of side `s` of its parent (`onParentEdge`) and `(pb, pa)` are vertices at the end points of the side of
the square of the parent's size across it.  `par_has`: `(a, b) in self.parent_edge` = `onParentEdge pos s`.
-/
namespace Stbem.QuadtreeTie
open Stbem.Quadtree Stbem.Gen
open QuadtreeGen (dictHas dictGet dictSet Element_edges)

/-- mid point of a pair of points -/
def midPt (p : (Rat × Rat) × (Rat × Rat)) : Rat × Rat := ((p.1.1 + p.2.1) / 2, (p.1.2 + p.2.2) / 2)

/-- a side of `c` that is one half of a side of `P`: same side, `c` is a quarter of `P` touching that side -/
theorem half_pts {c P : Elem} (hc : 0 < c.size) (hP : 0 < P.size) {s s' : Side}
    (H : edgePts c s = ((edgePts P s').1, midPt (edgePts P s')) ∨ edgePts c s = (midPt (edgePts P s'), (edgePts P s').2)) :
    s' = s ∧ P.size = 2 * c.size ∧ ∃ k, k < 4 ∧ onParentEdge k s = true ∧ c.x0 = P.x0 + posDx k * c.size ∧
      c.y0 = P.y0 + posDy k * c.size := by
  cases s <;> cases s' <;> simp only [edgePts, midPt, Prod.mk.injEq] at H <;>
    rcases H with ⟨⟨h1, h2⟩, ⟨h3, h4⟩⟩ | ⟨⟨h1, h2⟩, ⟨h3, h4⟩⟩ <;>
    first
    | (exfalso; linarith)
    | exact ⟨rfl, by linarith, 0, by omega, rfl, by simp only [posDx]; linarith, by simp only [posDy]; linarith⟩
    | exact ⟨rfl, by linarith, 1, by omega, rfl, by simp only [posDx]; linarith, by simp only [posDy]; linarith⟩
    | exact ⟨rfl, by linarith, 2, by omega, rfl, by simp only [posDx]; linarith, by simp only [posDy]; linarith⟩
    | exact ⟨rfl, by linarith, 3, by omega, rfl, by simp only [posDx]; linarith, by simp only [posDy]; linarith⟩

theorem int_cancel {S : Rat} (hS : 0 < S) {a b : Int} (h : (a : Rat) * S = b * S) : a = b := by
  have := mul_right_cancel₀ (ne_of_gt hS) h
  exact_mod_cast this

theorem pos_eq {k k' : Nat} (hk : k < 4) (hk' : k' < 4) (hx : posDx k = posDx k') (hy : posDy k = posDy k') : k = k' := by
  rcases lt_four hk with rfl | rfl | rfl | rfl <;> rcases lt_four hk' with rfl | rfl | rfl | rfl <;>
    simp [posDx, posDy] at hx hy ⊢

theorem parity_aux {S : Rat} (hS : 0 < S) {i i' : Int} {d d' : Rat} (hd : d = 0 ∨ d = 1) (hd' : d' = 0 ∨ d' = 1)
    (h : (i : Rat) * (2 * S) + d * S = i' * (2 * S) + d' * S) : d = d' := by
  rcases hd with rfl | rfl <;> rcases hd' with rfl | rfl
  · rfl
  · exfalso
    have : ((2 * i : Int) : Rat) * S = ((2 * i' + 1 : Int) : Rat) * S := by push_cast; linarith
    have := int_cancel hS this
    omega
  · exfalso
    have : ((2 * i + 1 : Int) : Rat) * S = ((2 * i' : Int) : Rat) * S := by push_cast; linarith
    have := int_cancel hS this
    omega
  · rfl

/-- a quarter of an element of the forest is its child at that position -/
theorem pos_of_quarter {m : QT} (h : Forest m) {c P : Elem} (hc : c ∈ m.elems) (hP : P ∈ m.elems)
    (hs : P.size = 2 * c.size) {k : Nat} (hk : k < 4) (hx : c.x0 = P.x0 + posDx k * c.size)
    (hy : c.y0 = P.y0 + posDy k * c.size) : c.pos = k := by
  have hcg := h.grid c hc
  have hPg := h.grid P hP
  have hlev := hcg.level_succ hPg hs
  have hpos : c.pos < 4 := h.pos_lt hc (by omega)
  obtain ⟨p, hpm, -, hl, hps, -, px, py⟩ := h.parent_sub hc hpos
  have hpg := h.grid p hpm
  have hS := hcg.size_pos
  obtain ⟨-, i, j, ex, ey⟩ := hPg
  obtain ⟨-, i', j', ex', ey'⟩ := hpg
  rw [hs] at ex ey
  rw [hps] at ex' ey'
  have e1 : posDx c.pos = posDx k := by
    apply parity_aux hS (posDx_cases _) (posDx_cases _) (i := i') (i' := i)
    rw [← ex, ← ex']; linarith
  have e2 : posDy c.pos = posDy k := by
    apply parity_aux hS (posDy_cases _) (posDy_cases _) (i := j') (i' := j)
    rw [← ey, ← ey']; linarith
  exact pos_eq hpos hk e1 e2

theorem isMid_xy {p : QuadtreeGen.Edge} {v : Vtx} (h : IsMid p v) : v.xy = midPt (p.1.xy, p.2.xy) := by
  obtain ⟨h1, h2⟩ := h
  simp only [QuadtreeGen.Vtx.xy, midPt, h1, h2]

/-- `self.parent_edge[(a, b)]` for the edge `(a, b)` of `e` on side `s`, geometrically -/
theorem par_get {g : GMesh} (hc : Coherent g) (hq : QInv (absMesh g)) {e : GElem} (he : e ∈ g.elements) (s : Side)
    {pa pb : Vtx} (h : dictGet g.parent_edge (edgeOf e s) = .ok (pa, pb)) :
    onParentEdge (absElem (nRoots g) e).pos s = true ∧ pa ∈ g.vertices ∧ pb ∈ g.vertices ∧
      (pb.xy, pa.xy) = edgePts (sq (pnbrX (absElem (nRoots g) e) s) (pnbrY (absElem (nRoots g) e) s)
        (2 * (absElem (nRoots g) e).size)) s.opp := by
  obtain ⟨q, hqm, hq1, hq2⟩ := hc.par_sound _ (dictGet_ok h)
  simp only at hq1 hq2
  obtain ⟨⟨P, hP, -, hed⟩, -, hmid⟩ := hc.bis_sound q hqm
  rw [hq1] at hed hmid
  obtain ⟨s', hs'⟩ := (mem_edges_iff P _).mp hed
  have hshP := hc.shaped P hP
  have hshe := hc.shaped e he
  have hPpts := edgePts_abs (nRoots g) P hshP s'
  rw [← hs'] at hPpts
  simp only at hPpts
  have hcpts := edgePts_abs (nRoots g) e hshe s
  have hm := isMid_xy hmid
  simp only at hm
  rw [← hPpts] at hm
  have H : edgePts (absElem (nRoots g) e) s =
        ((edgePts (absElem (nRoots g) P) s').1, midPt (edgePts (absElem (nRoots g) P) s')) ∨
      edgePts (absElem (nRoots g) e) s =
        (midPt (edgePts (absElem (nRoots g) P) s'), (edgePts (absElem (nRoots g) P) s').2) := by
    rw [hq1] at hq2
    rcases hq2 with h2 | h2
    · left; rw [hcpts, h2, hm, hPpts]
    · right; rw [hcpts, h2, hm, hPpts]
  obtain ⟨rfl, hsz, k, hk, hon, kx, ky⟩ := half_pts (absElem_size_pos _ hshe) (absElem_size_pos _ hshP) H
  have hpos := pos_of_quarter hq.forest (abs_mem_elems he) (abs_mem_elems hP) hsz hk kx ky
  obtain ⟨v1, v2⟩ := edgeOf_verts hc hP s'
  rw [← hs'] at v1 v2
  refine ⟨by rw [hpos]; exact hon, v1, v2, ?_⟩
  have hsw := edgePts_swap (absElem (nRoots g) P) s'
  rw [hPpts] at hsw
  simp only [Prod.swap] at hsw
  rw [hsw]
  apply edgePts_congr
  · simp only [sq, nbrX, pnbrX, hpos]; rw [hsz, kx]; ring
  · simp only [sq, nbrY, pnbrY, hpos]; rw [hsz, ky]; ring
  · simp only [sq]; exact hsz

/-- coordinates of the two halves of side `s` of the parent, for the eight (position, side) pairs -/
theorem child_half {c p : Elem} {s : Side} (hon : onParentEdge c.pos s = true) (hs : p.size = 2 * c.size)
    (hx : c.x0 = p.x0 + posDx c.pos * c.size) (hy : c.y0 = p.y0 + posDy c.pos * c.size) :
    edgePts c s = ((edgePts p s).1, midPt (edgePts p s)) ∨ edgePts c s = (midPt (edgePts p s), (edgePts p s).2) := by
  rcases onParentEdge_cases hon with ⟨hk, rfl⟩ | ⟨hk, rfl⟩ | ⟨hk, rfl⟩ | ⟨hk, rfl⟩ | ⟨hk, rfl⟩ | ⟨hk, rfl⟩ |
    ⟨hk, rfl⟩ | ⟨hk, rfl⟩ <;> rw [hk] at hx hy <;> simp only [posDx, posDy] at hx hy <;>
    simp only [edgePts, midPt, Prod.mk.injEq] <;>
    first
    | (left; refine ⟨⟨?_, ?_⟩, ⟨?_, ?_⟩⟩ <;> linarith)
    | (right; refine ⟨⟨?_, ?_⟩, ⟨?_, ?_⟩⟩ <;> linarith)

/-- `(a, b) in self.parent_edge` for the edge `(a, b)` of `e` on side `s` -/
theorem par_has {g : GMesh} (hc : Coherent g) (hq : QInv (absMesh g)) {e : GElem} (he : e ∈ g.elements) (s : Side) :
    dictHas g.parent_edge (edgeOf e s) = onParentEdge (absElem (nRoots g) e).pos s := by
  cases hon : onParentEdge (absElem (nRoots g) e).pos s with
  | false =>
    cases hh : dictHas g.parent_edge (edgeOf e s) with
    | false => rfl
    | true =>
      obtain ⟨v, hv, -⟩ := dictGet_of_has hh
      have := (par_get hc hq he s (pa := v.1) (pb := v.2) hv).1
      rw [hon] at this
      cases this
  | true =>
    have hpos := onParentEdge_lt hon
    obtain ⟨p, hpm, hpl, -, hps, -, px, py⟩ := hq.forest.parent_sub (abs_mem_elems he) hpos
    obtain ⟨P, hP, rfl⟩ := mem_abs_elems hpm
    have hPl : P ∉ g.leaf_elements := fun hl => hpl ((abs_leaf_iff hc hq hP).mpr hl)
    have hb := hc.bis_complete P hP hPl _ (edgeOf_mem P s)
    obtain ⟨v, -, hvm⟩ := dictGet_of_has hb
    obtain ⟨-, hvv, hmid⟩ := hc.bis_sound _ hvm
    obtain ⟨c1, c2⟩ := hc.par_complete _ hvm
    simp only at hvv hmid c1 c2
    have hshP := hc.shaped P hP
    have hshe := hc.shaped e he
    have hPpts := edgePts_abs (nRoots g) P hshP s
    have hcpts := edgePts_abs (nRoots g) e hshe s
    have hm := isMid_xy hmid
    rw [← hPpts] at hm
    obtain ⟨w1, w2⟩ := edgeOf_verts hc hP s
    obtain ⟨u1, u2⟩ := edgeOf_verts hc he s
    rcases child_half hon hps px py with H | H
    · rw [hcpts, ← hm, hPpts] at H
      simp only [Prod.mk.injEq] at H
      have e1 := vinj_of_inv hq u1 w1 H.1
      have e2 := vinj_of_inv hq u2 hvv H.2
      rw [show edgeOf e s = ((edgeOf e s).1, (edgeOf e s).2) from rfl, e1, e2]
      exact c1
    · rw [hcpts, ← hm, hPpts] at H
      simp only [Prod.mk.injEq] at H
      have e1 := vinj_of_inv hq u1 hvv H.1
      have e2 := vinj_of_inv hq u2 w2 H.2
      rw [show edgeOf e s = ((edgeOf e s).1, (edgeOf e s).2) from rfl, e1, e2]
      exact c2

end Stbem.QuadtreeTie
