import Stbem.Lemmas.HalfEdgeOps

/-!
# H-layer: symbolic execution of `Mesh.refine_axis` after the conformity loop (`HMesh.bisectElem`)

Closed forms of the primitive steps (`clearOwners`, `splitEdge`, `crossLink`, `createEdges`) and when the
model functions reduce to them.
-/
namespace Stbem.HalfEdge
open Stbem.Mesh (Ax Side Cell Mesh)

/-! ### `for edge in elem.edges: assert edge.elem == elem; edge.elem = None` -/

def clearOwners (h : HMesh) (e0 e1 e2 e3 : Nat) : HMesh :=
  (((h.setEdge e0 (setOwner none)).setEdge e1 (setOwner none)).setEdge e2 (setOwner none)).setEdge e3
    (setOwner none)

theorem clearOwners_edge (h : HMesh) (e0 e1 e2 e3 : Nat)
    (hr : e0 < h.edges.size ∧ e1 < h.edges.size ∧ e2 < h.edges.size ∧ e3 < h.edges.size) (j : Nat) :
    (clearOwners h e0 e1 e2 e3).edge j =
      if j = e0 ∨ j = e1 ∨ j = e2 ∨ j = e3 then setOwner none (h.edge j) else h.edge j := by
  obtain ⟨r0, r1, r2, r3⟩ := hr
  unfold clearOwners
  rw [edge_setEdge' _ _ (by simpa using r3), edge_setEdge' _ _ (by simpa using r2),
    edge_setEdge' _ _ (by simpa using r1), edge_setEdge' _ _ r0]
  split_ifs <;> first | rfl | (exfalso; tauto)

@[simp] theorem clearOwners_size (h : HMesh) (e0 e1 e2 e3 : Nat) :
    (clearOwners h e0 e1 e2 e3).edges.size = h.edges.size := by simp [clearOwners]
@[simp] theorem clearOwners_verts (h : HMesh) (e0 e1 e2 e3 : Nat) :
    (clearOwners h e0 e1 e2 e3).verts = h.verts := rfl
@[simp] theorem clearOwners_elems (h : HMesh) (e0 e1 e2 e3 : Nat) :
    (clearOwners h e0 e1 e2 e3).elems = h.elems := rfl
@[simp] theorem clearOwners_vert (h : HMesh) (e0 e1 e2 e3 j : Nat) :
    (clearOwners h e0 e1 e2 e3).vert j = h.vert j := rfl
@[simp] theorem clearOwners_elem (h : HMesh) (e0 e1 e2 e3 j : Nat) :
    (clearOwners h e0 e1 e2 e3).elem j = h.elem j := rfl
@[simp] theorem clearOwners_leaves (h : HMesh) (e0 e1 e2 e3 : Nat) :
    (clearOwners h e0 e1 e2 e3).leaves = h.leaves := rfl
@[simp] theorem clearOwners_nElems (h : HMesh) (e0 e1 e2 e3 : Nat) :
    (clearOwners h e0 e1 e2 e3).nElems = h.nElems := rfl

theorem clearLoop_ok (h : HMesh) (el e0 e1 e2 e3 : Nat)
    (hr : e0 < h.edges.size ∧ e1 < h.edges.size ∧ e2 < h.edges.size ∧ e3 < h.edges.size)
    (hd : e0 ≠ e1 ∧ e0 ≠ e2 ∧ e0 ≠ e3 ∧ e1 ≠ e2 ∧ e1 ≠ e3 ∧ e2 ≠ e3)
    (ho : (h.edge e0).elem = some el ∧ (h.edge e1).elem = some el ∧ (h.edge e2).elem = some el ∧
      (h.edge e3).elem = some el) :
    [e0, e1, e2, e3].foldlM (fun (h : HMesh) ei => do
      assert ((h.edge ei).elem == some el) "edge-elem"
      pure (h.setEdge ei fun e => { e with elem := none })) h = .ok (clearOwners h e0 e1 e2 e3) := by
  obtain ⟨d01, d02, d03, d12, d13, d23⟩ := hd
  obtain ⟨n0, n1, n2, n3⟩ := ho
  simp only [List.foldlM_cons, List.foldlM_nil]
  rw [assert_ok (by rw [n0]; simp)]
  simp only [ok_bind, pure_eq_ok]
  rw [assert_ok (by rw [edge_setEdge_ne _ _ (Ne.symm d01), n1]; simp)]
  simp only [ok_bind]
  rw [assert_ok (by rw [edge_setEdge_ne _ _ (Ne.symm d12), edge_setEdge_ne _ _ (Ne.symm d02), n2]; simp)]
  simp only [ok_bind]
  rw [assert_ok (by
    rw [edge_setEdge_ne _ _ (Ne.symm d23), edge_setEdge_ne _ _ (Ne.symm d13),
      edge_setEdge_ne _ _ (Ne.symm d03), n3]; simp)]
  rfl

/-! ### `Edge.bisect` -/

def setKids (k : Nat × Nat) (e : HEdge) : HEdge := { e with kids := some k }

/-- the two children are created, `self.children` is set -/
def splitEdge (h : HMesh) (ei cv : Nat) : HMesh :=
  ((((h.newEdge (h.edge ei).v0 cv (some ei)).1).newEdge cv (h.edge ei).v1 (some ei)).1).setEdge ei
    (setKids (h.edges.size, h.edges.size + 1))

/-- the four assignments of `Edge.bisect` that link the children with the children of the neighbour edge -/
def crossLink (h : HMesh) (k0 k1 f0 f1 : Nat) : HMesh :=
  (((h.setEdge k0 (setNbr f1)).setEdge k1 (setNbr f0)).setEdge f0 (setNbr k1)).setEdge f1 (setNbr k0)

/-- the child edge of `Edge.bisect` -/
def kidEdge (h : HMesh) (ei v0 v1 : Nat) : HEdge :=
  { v0 := v0, v1 := v1, parent := some ei, onBoundary := (h.edge ei).onBoundary, glued := (h.edge ei).glued }

@[simp] theorem splitEdge_size (h : HMesh) (ei cv : Nat) :
    (splitEdge h ei cv).edges.size = h.edges.size + 2 := by simp [splitEdge]
@[simp] theorem splitEdge_verts (h : HMesh) (ei cv : Nat) : (splitEdge h ei cv).verts = h.verts := rfl
@[simp] theorem splitEdge_elems (h : HMesh) (ei cv : Nat) : (splitEdge h ei cv).elems = h.elems := rfl
@[simp] theorem splitEdge_vert (h : HMesh) (ei cv j : Nat) : (splitEdge h ei cv).vert j = h.vert j := rfl
@[simp] theorem splitEdge_elem (h : HMesh) (ei cv j : Nat) : (splitEdge h ei cv).elem j = h.elem j := rfl
@[simp] theorem splitEdge_leaves (h : HMesh) (ei cv : Nat) : (splitEdge h ei cv).leaves = h.leaves := rfl
@[simp] theorem splitEdge_nElems (h : HMesh) (ei cv : Nat) : (splitEdge h ei cv).nElems = h.nElems := rfl

theorem splitEdge_edge (h : HMesh) {ei : Nat} (cv : Nat) (hi : ei < h.edges.size) (j : Nat) :
    (splitEdge h ei cv).edge j =
      if j = h.edges.size then kidEdge h ei (h.edge ei).v0 cv
      else if j = h.edges.size + 1 then kidEdge h ei cv (h.edge ei).v1
      else if j = ei then setKids (h.edges.size, h.edges.size + 1) (h.edge ei)
      else h.edge j := by
  unfold splitEdge
  rw [edge_setEdge' _ _ (by simp; omega)]
  by_cases h0 : j = h.edges.size
  · subst h0
    rw [if_neg (by omega), if_pos rfl, edge_newEdge_lt _ _ _ _ (by simp), edge_newEdge_self]
    simp [HMesh.mkEdge, kidEdge]
  · rw [if_neg h0]
    by_cases h1 : j = h.edges.size + 1
    · subst h1
      rw [if_neg (by omega), if_pos rfl]
      have := edge_newEdge_self (h.newEdge (h.edge ei).v0 cv (some ei)).1 cv (h.edge ei).v1 (some ei)
      rw [size_newEdge] at this
      rw [this]
      simp only [HMesh.mkEdge, kidEdge]
      rw [edge_newEdge_lt _ _ _ _ hi]
    · rw [if_neg h1]
      by_cases h2 : j = ei
      · subst h2
        rw [if_pos rfl, if_pos rfl, edge_newEdge_lt _ _ _ _ (by simp; omega), edge_newEdge_lt _ _ _ _ hi]
      · rw [if_neg h2, if_neg h2]
        by_cases hj : j < h.edges.size
        · rw [edge_newEdge_lt _ _ _ _ (by simp; omega), edge_newEdge_lt _ _ _ _ hj]
        · rw [edge_ge_size _ (by simp; omega), edge_ge_size _ (by omega)]

@[simp] theorem crossLink_size (h : HMesh) (k0 k1 f0 f1 : Nat) :
    (crossLink h k0 k1 f0 f1).edges.size = h.edges.size := by simp [crossLink]
@[simp] theorem crossLink_verts (h : HMesh) (k0 k1 f0 f1 : Nat) : (crossLink h k0 k1 f0 f1).verts = h.verts := rfl
@[simp] theorem crossLink_elems (h : HMesh) (k0 k1 f0 f1 : Nat) : (crossLink h k0 k1 f0 f1).elems = h.elems := rfl
@[simp] theorem crossLink_vert (h : HMesh) (k0 k1 f0 f1 j : Nat) : (crossLink h k0 k1 f0 f1).vert j = h.vert j := rfl
@[simp] theorem crossLink_elem (h : HMesh) (k0 k1 f0 f1 j : Nat) : (crossLink h k0 k1 f0 f1).elem j = h.elem j := rfl
@[simp] theorem crossLink_leaves (h : HMesh) (k0 k1 f0 f1 : Nat) : (crossLink h k0 k1 f0 f1).leaves = h.leaves := rfl
@[simp] theorem crossLink_nElems (h : HMesh) (k0 k1 f0 f1 : Nat) : (crossLink h k0 k1 f0 f1).nElems = h.nElems := rfl

theorem crossLink_edge (h : HMesh) {k0 k1 f0 f1 : Nat}
    (hr : k0 < h.edges.size ∧ k1 < h.edges.size ∧ f0 < h.edges.size ∧ f1 < h.edges.size)
    (hd : k0 ≠ k1 ∧ k0 ≠ f0 ∧ k0 ≠ f1 ∧ k1 ≠ f0 ∧ k1 ≠ f1 ∧ f0 ≠ f1) (j : Nat) :
    (crossLink h k0 k1 f0 f1).edge j =
      if j = k0 then setNbr f1 (h.edge j) else if j = k1 then setNbr f0 (h.edge j)
      else if j = f0 then setNbr k1 (h.edge j) else if j = f1 then setNbr k0 (h.edge j) else h.edge j := by
  obtain ⟨r0, r1, r2, r3⟩ := hr
  obtain ⟨d01, d02, d03, d12, d13, d23⟩ := hd
  unfold crossLink
  rw [edge_setEdge' _ _ (by simpa using r3), edge_setEdge' _ _ (by simpa using r2),
    edge_setEdge' _ _ (by simpa using r1), edge_setEdge' _ _ r0]
  split_ifs <;> first | rfl | (exfalso; omega)

theorem edgeBisect_unfold (h : HMesh) (ei cv : Nat) (hk : (h.edge ei).kids = none) :
    h.edgeBisect ei cv =
      (match (h.edge ei).nbr with
       | none => pure (splitEdge h ei cv)
       | some f =>
         match ((splitEdge h ei cv).edge f).kids with
         | none => pure (splitEdge h ei cv)
         | some (f0, f1) => do
           if !(h.edge ei).glued then
             assert ((h.edge ei).v0 == ((splitEdge h ei cv).edge f).v1) "bisect-v0"
             assert ((h.edge ei).v1 == ((splitEdge h ei cv).edge f).v0) "bisect-v1"
           assert ((splitEdge h ei cv).edge f0).nbr.isNone "nbr-child0-has-nbr"
           assert ((splitEdge h ei cv).edge f1).nbr.isNone "nbr-child1-has-nbr"
           pure (crossLink (splitEdge h ei cv) h.edges.size (h.edges.size + 1) f0 f1)) := by
  unfold HMesh.edgeBisect
  simp only [hk, Option.isSome_none, Bool.false_eq_true, if_false, newEdge_snd, size_newEdge]
  unfold splitEdge crossLink setKids setNbr
  cases (h.edge ei).nbr with
  | none => rfl
  | some f =>
    simp only
    generalize ((((h.newEdge (h.edge ei).v0 cv (some ei)).1.newEdge cv (h.edge ei).v1 (some ei)).1.setEdge ei
      fun e => { e with kids := some (h.edges.size, h.edges.size + 1) }).edge f).kids = k
    cases k with
    | none => rfl
    | some p =>
      obtain ⟨f0, f1⟩ := p
      rfl

theorem edgeBisect_nolink (h : HMesh) {ei : Nat} (cv : Nat) (hi : ei < h.edges.size)
    (hk : (h.edge ei).kids = none)
    (hn : (h.edge ei).nbr = none ∨ ∃ f, (h.edge ei).nbr = some f ∧ f ≠ ei ∧ (h.edge f).kids = none) :
    h.edgeBisect ei cv = .ok (splitEdge h ei cv) := by
  rw [edgeBisect_unfold h ei cv hk]
  rcases hn with hn | ⟨f, hn, hne, hfk⟩
  · rw [hn]; rfl
  · rw [hn]
    simp only
    have : ((splitEdge h ei cv).edge f).kids = none := by
      rw [splitEdge_edge h cv hi]
      split_ifs <;> first | rfl | exact hfk
    rw [this]; rfl

theorem edgeBisect_link (h : HMesh) {ei : Nat} (cv : Nat) (hi : ei < h.edges.size)
    (hk : (h.edge ei).kids = none) {f f0 f1 : Nat} (hn : (h.edge ei).nbr = some f) (hf : f < h.edges.size)
    (hne : f ≠ ei) (hfk : (h.edge f).kids = some (f0, f1))
    (hr : f0 < h.edges.size ∧ f1 < h.edges.size) (hne' : f0 ≠ ei ∧ f1 ≠ ei)
    (hv : (h.edge ei).glued = false → (h.edge ei).v0 = (h.edge f).v1 ∧ (h.edge ei).v1 = (h.edge f).v0)
    (h0 : (h.edge f0).nbr = none) (h1 : (h.edge f1).nbr = none) :
    h.edgeBisect ei cv =
      .ok (crossLink (splitEdge h ei cv) h.edges.size (h.edges.size + 1) f0 f1) := by
  rw [edgeBisect_unfold h ei cv hk, hn]
  simp only
  have ef : (splitEdge h ei cv).edge f = h.edge f := by
    rw [splitEdge_edge h cv hi, if_neg (by omega), if_neg (by omega), if_neg hne]
  have ef0 : (splitEdge h ei cv).edge f0 = h.edge f0 := by
    rw [splitEdge_edge h cv hi, if_neg (by omega), if_neg (by omega), if_neg hne'.1]
  have ef1 : (splitEdge h ei cv).edge f1 = h.edge f1 := by
    rw [splitEdge_edge h cv hi, if_neg (by omega), if_neg (by omega), if_neg hne'.2]
  rw [ef, hfk]
  simp only [ef0, ef1, h0, h1]
  cases hg : (h.edge ei).glued
  · obtain ⟨a, b⟩ := hv hg
    simp only [Bool.not_false, if_true]
    rw [assert_ok (by simp [a]), assert_ok (by simp [b])]
    rfl
  · rfl

/-! ### `Mesh.__bisect_edge` -/

/-- the vertex `Mesh.__bisect_edge` reuses, if any -/
def reuseVertex (h : HMesh) (ei : Nat) : Option Nat :=
  if (h.edge ei).glued then none else
  match (h.edge ei).nbr with
  | none => none
  | some f => match (h.edge f).kids with
    | none => none
    | some (f0, _) => some (h.edge f0).v1

/-- the mesh with the mid point of edge `ei` appended to `vertices` -/
def pushMid (h : HMesh) (ei : Nat) : HMesh :=
  (h.pushVert (((h.vert (h.edge ei).v0).t + (h.vert (h.edge ei).v1).t) / 2)
    (((h.vert (h.edge ei).v0).x + (h.vert (h.edge ei).v1).x) / 2)).1

theorem bisectEdge_unfold (h : HMesh) (ei : Nat) (hk : (h.edge ei).kids = none) :
    h.bisectEdge ei =
      (match reuseVertex h ei with
       | some v => do let h' ← h.edgeBisect ei v; pure (h', v)
       | none => do
         assert (((h.vert (h.edge ei).v0).t == (h.vert (h.edge ei).v1).t &&
             (h.vert (h.edge ei).v1).t == ((pushMid h ei).vert h.verts.size).t) !=
           ((h.vert (h.edge ei).v0).x == (h.vert (h.edge ei).v1).x &&
             (h.vert (h.edge ei).v1).x == ((pushMid h ei).vert h.verts.size).x)) "bisect-edge-axis"
         let h' ← (pushMid h ei).edgeBisect ei h.verts.size
         pure (h', h.verts.size)) := by
  unfold HMesh.bisectEdge reuseVertex pushMid
  simp only [hk, Option.isNone_none, pushVert_snd]
  have : assert true "bisect-edge-has-children" = .ok () := rfl
  rw [this]
  simp only [ok_bind]
  generalize (if (h.edge ei).glued = true then none
    else match (h.edge ei).nbr with
      | none => none
      | some f => match (h.edge f).kids with
        | none => none
        | some (f0, _) => some (h.edge f0).v1) = r
  cases r with
  | some v => rfl
  | none => rfl


@[simp] theorem pushMid_edge (h : HMesh) (ei j : Nat) : (pushMid h ei).edge j = h.edge j := rfl
@[simp] theorem pushMid_edges (h : HMesh) (ei : Nat) : (pushMid h ei).edges = h.edges := rfl
@[simp] theorem pushMid_elems (h : HMesh) (ei : Nat) : (pushMid h ei).elems = h.elems := rfl
@[simp] theorem pushMid_elem (h : HMesh) (ei j : Nat) : (pushMid h ei).elem j = h.elem j := rfl
@[simp] theorem pushMid_leaves (h : HMesh) (ei : Nat) : (pushMid h ei).leaves = h.leaves := rfl
@[simp] theorem pushMid_nElems (h : HMesh) (ei : Nat) : (pushMid h ei).nElems = h.nElems := rfl
@[simp] theorem pushMid_size (h : HMesh) (ei : Nat) : (pushMid h ei).verts.size = h.verts.size + 1 := by
  simp [pushMid]

theorem pushMid_vert_lt (h : HMesh) (ei : Nat) {j : Nat} (hj : j < h.verts.size) :
    (pushMid h ei).vert j = h.vert j := vert_pushVert_lt h _ _ hj

theorem pushMid_vert_self (h : HMesh) (ei : Nat) :
    (pushMid h ei).vert h.verts.size =
      { t := ((h.vert (h.edge ei).v0).t + (h.vert (h.edge ei).v1).t) / 2,
        x := ((h.vert (h.edge ei).v0).x + (h.vert (h.edge ei).v1).x) / 2, idx := h.verts.size } :=
  vert_pushVert_self h _ _

/-- what `Edge.bisect` must know about the neighbour edge: `link = some (f0, f1)` iff the neighbour edge is
refined, with children `f0`, `f1` -/
def LinkInfo (h : HMesh) (ei : Nat) : Option (Nat × Nat) → Prop
  | none => (h.edge ei).nbr = none ∨ ∃ f, (h.edge ei).nbr = some f ∧ f ≠ ei ∧ (h.edge f).kids = none
  | some (f0, f1) => ∃ f, (h.edge ei).nbr = some f ∧ f < h.edges.size ∧ f ≠ ei ∧
      (h.edge f).kids = some (f0, f1) ∧ f0 < h.edges.size ∧ f1 < h.edges.size ∧ f0 ≠ ei ∧ f1 ≠ ei ∧
      ((h.edge ei).glued = false → (h.edge ei).v0 = (h.edge f).v1 ∧ (h.edge ei).v1 = (h.edge f).v0) ∧
      (h.edge f0).nbr = none ∧ (h.edge f1).nbr = none

/-- is a new vertex created -/
def newVertex (h : HMesh) (ei : Nat) (link : Option (Nat × Nat)) : Bool :=
  link.isNone || (h.edge ei).glued

/-- the vertex in the middle -/
def midVertex (h : HMesh) (ei : Nat) (link : Option (Nat × Nat)) : Nat :=
  if newVertex h ei link then h.verts.size else
    match link with
    | some (f0, _) => (h.edge f0).v1
    | none => 0

/-- the mesh after `__bisect_edge(ei)` -/
def bisectEdgeRes (h : HMesh) (ei : Nat) (link : Option (Nat × Nat)) : HMesh :=
  let hv := if newVertex h ei link then pushMid h ei else h
  let hs := splitEdge hv ei (midVertex h ei link)
  match link with
  | none => hs
  | some (f0, f1) => crossLink hs h.edges.size (h.edges.size + 1) f0 f1

theorem reuseVertex_eq (h : HMesh) (ei : Nat) (link : Option (Nat × Nat)) (hl : LinkInfo h ei link) :
    reuseVertex h ei = if newVertex h ei link then none else some (midVertex h ei link) := by
  unfold reuseVertex newVertex midVertex newVertex
  cases link with
  | none =>
    simp only [Option.isNone_none, Bool.true_or, if_true]
    rcases hl with hl | ⟨f, hl, -, hk⟩
    · rw [hl]; split <;> rfl
    · rw [hl]; simp only [hk]; split <;> rfl
  | some p =>
    obtain ⟨f0, f1⟩ := p
    obtain ⟨f, hn, -, -, hk, -⟩ := hl
    simp only [Option.isNone_some, Bool.false_or, hn, hk]
    cases (h.edge ei).glued <;> rfl

theorem bisectEdge_ok (h : HMesh) {ei : Nat} (hi : ei < h.edges.size) (hk : (h.edge ei).kids = none)
    (link : Option (Nat × Nat)) (hl : LinkInfo h ei link)
    (hxor : newVertex h ei link = true →
      ((h.vert (h.edge ei).v0).t = (h.vert (h.edge ei).v1).t ∧ (h.vert (h.edge ei).v0).x ≠ (h.vert (h.edge ei).v1).x) ∨
      ((h.vert (h.edge ei).v0).t ≠ (h.vert (h.edge ei).v1).t ∧ (h.vert (h.edge ei).v0).x = (h.vert (h.edge ei).v1).x)) :
    h.bisectEdge ei = .ok (bisectEdgeRes h ei link, midVertex h ei link) := by
  rw [bisectEdge_unfold h ei hk, reuseVertex_eq h ei link hl]
  unfold bisectEdgeRes
  cases hnv : newVertex h ei link
  · -- reuse
    simp only [Bool.false_eq_true, if_false]
    cases link with
    | none => simp [newVertex] at hnv
    | some p =>
      obtain ⟨f0, f1⟩ := p
      obtain ⟨f, hn, hf, hne, hfk, r0, r1, n0, n1, hv, z0, z1⟩ := hl
      rw [edgeBisect_link h _ hi hk hn hf hne hfk ⟨r0, r1⟩ ⟨n0, n1⟩ hv z0 z1]
      rfl
  · simp only [if_true]
    rw [pushMid_vert_self]
    rw [assert_ok (by
      rcases hxor hnv with ⟨a, b⟩ | ⟨a, b⟩
      · simp [a, b]
      · simp [a, b])]
    simp only [ok_bind]
    have hmid : midVertex h ei link = h.verts.size := by unfold midVertex; rw [hnv]; rfl
    rw [hmid]
    cases link with
    | none =>
      rw [edgeBisect_nolink (pushMid h ei) _ (by simpa using hi) (by simpa using hk) (by simpa [LinkInfo] using hl)]
      rfl
    | some p =>
      obtain ⟨f0, f1⟩ := p
      obtain ⟨f, hn, hf, hne, hfk, r0, r1, n0, n1, hv, z0, z1⟩ := hl
      rw [edgeBisect_link (pushMid h ei) _ (by simpa using hi) (by simpa using hk) (f := f) (by simpa using hn)
        (by simpa using hf) hne (by simpa using hfk) (by simpa using ⟨r0, r1⟩) ⟨n0, n1⟩ (by simpa using hv)
        (by simpa using z0) (by simpa using z1)]
      rfl

theorem kidEdge_pushMid (h : HMesh) (e ei v0 v1 : Nat) : kidEdge (pushMid h e) ei v0 v1 = kidEdge h ei v0 v1 := rfl

/-- the update of the children `f0`, `f1` of the refined neighbour edge: their `nbr_edge` is set to the new
children `N + 1`, `N` -/
def linkUpd (L : Option (Nat × Nat)) (N j : Nat) (e : HEdge) : HEdge :=
  match L with
  | some (f0, f1) => if j = f0 then setNbr (N + 1) e else if j = f1 then setNbr N e else e
  | none => e

theorem bisectEdgeRes_edge (h : HMesh) {ei : Nat} (hi : ei < h.edges.size) (link : Option (Nat × Nat))
    (hl : LinkInfo h ei link) (hd : ∀ f0 f1, link = some (f0, f1) → f0 ≠ f1) (j : Nat) :
    (bisectEdgeRes h ei link).edge j =
      if j = h.edges.size then
        { kidEdge h ei (h.edge ei).v0 (midVertex h ei link) with nbr := link.map (·.2) }
      else if j = h.edges.size + 1 then
        { kidEdge h ei (midVertex h ei link) (h.edge ei).v1 with nbr := link.map (·.1) }
      else if j = ei then setKids (h.edges.size, h.edges.size + 1) (h.edge ei)
      else linkUpd link h.edges.size j (h.edge j) := by
  unfold bisectEdgeRes linkUpd
  have key : ∀ hv : HMesh, hv.edges = h.edges →
      (splitEdge hv ei (midVertex h ei link)).edge j =
        if j = h.edges.size then kidEdge h ei (h.edge ei).v0 (midVertex h ei link)
        else if j = h.edges.size + 1 then kidEdge h ei (midVertex h ei link) (h.edge ei).v1
        else if j = ei then setKids (h.edges.size, h.edges.size + 1) (h.edge ei)
        else h.edge j := by
    intro hv he
    have hedge : ∀ k, hv.edge k = h.edge k := fun k => by unfold HMesh.edge; rw [he]
    rw [splitEdge_edge hv _ (by rw [he]; exact hi), he]
    simp only [hedge, kidEdge]
  cases link with
  | none =>
    simp only [Option.map_none]
    split
    · rw [key (pushMid h ei) rfl]
      split_ifs <;> rfl
    · rw [key h rfl]
      split_ifs <;> rfl
  | some p =>
    obtain ⟨f0, f1⟩ := p
    obtain ⟨f, hn, hf, hne, hfk, r0, r1, n0, n1, hv, z0, z1⟩ := hl
    have hd' := hd f0 f1 rfl
    simp only [Option.map_some]
    have hsz : ∀ hv : HMesh, hv.edges = h.edges →
        (splitEdge hv ei (midVertex h ei (some (f0, f1)))).edges.size = h.edges.size + 2 := by
      intro hv he; rw [splitEdge_size, he]
    split
    · rw [crossLink_edge _ (by rw [hsz (pushMid h ei) rfl]; omega) (by omega), key (pushMid h ei) rfl]
      split_ifs <;> first | rfl | (exfalso; omega)
    · rw [crossLink_edge _ (by rw [hsz h rfl]; omega) (by omega), key h rfl]
      split_ifs <;> first | rfl | (exfalso; omega)

/-- all fields but `edges`, `verts` agree -/
def SameButEV (h h' : HMesh) : Prop :=
  h'.glue = h.glue ∧ h'.elems = h.elems ∧ h'.leaves = h.leaves ∧ h'.nElems = h.nElems ∧
  h'.xmin = h.xmin ∧ h'.xmax = h.xmax ∧ h'.tmin = h.tmin ∧ h'.tmax = h.tmax

theorem SameButEV.refl (h : HMesh) : SameButEV h h := ⟨rfl, rfl, rfl, rfl, rfl, rfl, rfl, rfl⟩

theorem SameButEV.trans {a b c : HMesh} (h1 : SameButEV a b) (h2 : SameButEV b c) : SameButEV a c := by
  obtain ⟨a1, a2, a3, a4, a5, a6, a7, a8⟩ := h1
  obtain ⟨b1, b2, b3, b4, b5, b6, b7, b8⟩ := h2
  exact ⟨b1.trans a1, b2.trans a2, b3.trans a3, b4.trans a4, b5.trans a5, b6.trans a6, b7.trans a7, b8.trans a8⟩

theorem SameButEV.elem {h h' : HMesh} (s : SameButEV h h') (k : Nat) : h'.elem k = h.elem k := by
  unfold HMesh.elem; rw [s.2.1]

theorem SameButEV.setEdge (h : HMesh) (i : Nat) (f : HEdge → HEdge) : SameButEV h (h.setEdge i f) :=
  ⟨rfl, rfl, rfl, rfl, rfl, rfl, rfl, rfl⟩
theorem SameButEV.newEdge (h : HMesh) (a b : Nat) (p : Option Nat) : SameButEV h (h.newEdge a b p).1 :=
  ⟨rfl, rfl, rfl, rfl, rfl, rfl, rfl, rfl⟩
theorem SameButEV.pushVert (h : HMesh) (t x : Rat) : SameButEV h (h.pushVert t x).1 :=
  ⟨rfl, rfl, rfl, rfl, rfl, rfl, rfl, rfl⟩

theorem SameButEV.clearOwners (h : HMesh) (e0 e1 e2 e3 : Nat) : SameButEV h (clearOwners h e0 e1 e2 e3) :=
  (((SameButEV.setEdge _ _ _).trans (SameButEV.setEdge _ _ _)).trans (SameButEV.setEdge _ _ _)).trans
    (SameButEV.setEdge _ _ _)

theorem SameButEV.splitEdge (h : HMesh) (ei cv : Nat) : SameButEV h (splitEdge h ei cv) :=
  ((SameButEV.newEdge _ _ _ _).trans (SameButEV.newEdge _ _ _ _)).trans (SameButEV.setEdge _ _ _)

theorem SameButEV.crossLink (h : HMesh) (k0 k1 f0 f1 : Nat) : SameButEV h (crossLink h k0 k1 f0 f1) :=
  (((SameButEV.setEdge _ _ _).trans (SameButEV.setEdge _ _ _)).trans (SameButEV.setEdge _ _ _)).trans
    (SameButEV.setEdge _ _ _)

theorem SameButEV.pushMid (h : HMesh) (ei : Nat) : SameButEV h (pushMid h ei) := SameButEV.pushVert _ _ _

theorem SameButEV.bisectEdgeRes (h : HMesh) (ei : Nat) (link : Option (Nat × Nat)) :
    SameButEV h (bisectEdgeRes h ei link) := by
  unfold Stbem.HalfEdge.bisectEdgeRes
  have h1 : SameButEV h (if newVertex h ei link then Stbem.HalfEdge.pushMid h ei else h) := by
    split
    · exact SameButEV.pushMid h ei
    · exact SameButEV.refl h
  cases link with
  | none => exact h1.trans (SameButEV.splitEdge _ _ _)
  | some p => exact (h1.trans (SameButEV.splitEdge _ _ _)).trans (SameButEV.crossLink _ _ _ _ _)

theorem bisectEdgeRes_size (h : HMesh) (ei : Nat) (link : Option (Nat × Nat)) :
    (bisectEdgeRes h ei link).edges.size = h.edges.size + 2 := by
  unfold bisectEdgeRes
  cases link with
  | none => simp only; rw [splitEdge_size]; split <;> rfl
  | some p => simp only; rw [crossLink_size, splitEdge_size]; split <;> rfl

theorem bisectEdgeRes_verts (h : HMesh) (ei : Nat) (link : Option (Nat × Nat)) :
    (bisectEdgeRes h ei link).verts = if newVertex h ei link then (pushMid h ei).verts else h.verts := by
  unfold bisectEdgeRes
  cases link with
  | none => simp only; rw [splitEdge_verts]; split <;> rfl
  | some p => simp only; rw [crossLink_verts, splitEdge_verts]; split <;> rfl

/-! ### `Mesh.__create_edges` -/

theorem createEdges_eq (h : HMesh) (va vb : Nat) :
    h.createEdges va vb =
      ((((h.newEdge va vb none).1.newEdge vb va none).1.setEdge h.edges.size (setNbr (h.edges.size + 1))).setEdge
        (h.edges.size + 1) (setNbr h.edges.size), h.edges.size, h.edges.size + 1) := by
  unfold HMesh.createEdges
  simp only [newEdge_snd, size_newEdge]
  rfl

def createEdgesRes (h : HMesh) (va vb : Nat) : HMesh := (h.createEdges va vb).1

theorem createEdgesRes_edge (h : HMesh) (va vb : Nat) (j : Nat) :
    (createEdgesRes h va vb).edge j =
      if j = h.edges.size then { v0 := va, v1 := vb, nbr := some (h.edges.size + 1) }
      else if j = h.edges.size + 1 then { v0 := vb, v1 := va, nbr := some h.edges.size }
      else h.edge j := by
  unfold createEdgesRes
  rw [createEdges_eq]
  simp only
  rw [edge_setEdge' _ _ (by simp), edge_setEdge' _ _ (by simp; omega)]
  by_cases h0 : j = h.edges.size
  · subst h0
    rw [if_neg (by omega), if_pos rfl, if_pos rfl, edge_newEdge_lt _ _ _ _ (by simp), edge_newEdge_self]
    rfl
  · by_cases h1 : j = h.edges.size + 1
    · subst h1
      rw [if_pos rfl, if_neg (by omega), if_neg (by omega), if_pos rfl]
      have := edge_newEdge_self (h.newEdge va vb none).1 vb va none
      rw [size_newEdge] at this
      rw [this]; rfl
    · rw [if_neg h1, if_neg h0, if_neg h0, if_neg h1]
      by_cases hj : j < h.edges.size
      · rw [edge_newEdge_lt _ _ _ _ (by simp; omega), edge_newEdge_lt _ _ _ _ hj]
      · rw [edge_ge_size _ (by simp; omega), edge_ge_size _ (by omega)]

theorem createEdgesRes_size (h : HMesh) (va vb : Nat) :
    (createEdgesRes h va vb).edges.size = h.edges.size + 2 := by
  unfold createEdgesRes; rw [createEdges_eq]; simp

theorem createEdgesRes_verts (h : HMesh) (va vb : Nat) : (createEdgesRes h va vb).verts = h.verts := rfl

theorem SameButEV.createEdgesRes (h : HMesh) (va vb : Nat) : SameButEV h (createEdgesRes h va vb) :=
  (((SameButEV.newEdge _ _ _ _).trans (SameButEV.newEdge _ _ _ _)).trans (SameButEV.setEdge _ _ _)).trans
    (SameButEV.setEdge _ _ _)


end Stbem.HalfEdge
