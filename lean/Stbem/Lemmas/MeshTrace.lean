import Stbem.Lemmas.MeshOps

/-!
# `refineAxis` as a sequence of level-bounded bisections

`Res` (in `MeshRefine`) describes the result of `refineAxis` geometrically.  For counting arguments
(termination of the grading loop) one needs to know *which* bisections were carried out:
`refineAxis` on the leaf `c` bisects leaves of level `< c.level ax` (the closure) and finally `c`
itself.  `inner_loop'`/`outer_loop'` repeat the loop analysis of `MeshRefine` with this extra
conclusion.
-/
namespace Stbem.Mesh

/-- `M` arises from `m` by successive bisections in `ax` of leaves of level `< L` -/
inductive Bis (ax : Ax) (L : Nat) : Mesh → Mesh → Prop
  | refl (m : Mesh) : Bis ax L m m
  | step {m M : Mesh} {c : Cell} : Bis ax L m M → c ∈ M.leaves → c.level ax < L →
      Bis ax L m (bisect M c ax)

theorem Bis.trans {ax : Ax} {L : Nat} {a b c : Mesh} (h1 : Bis ax L a b) (h2 : Bis ax L b c) :
    Bis ax L a c := by
  induction h2 with
  | refl => exact h1
  | step _ hc hl ih => exact Bis.step ih hc hl

theorem Bis.mono {ax : Ax} {L L' : Nat} {a b : Mesh} (h : Bis ax L a b) (hl : L ≤ L') :
    Bis ax L' a b := by
  induction h with
  | refl => exact Bis.refl _
  | step _ hc hlt ih => exact Bis.step ih hc (by omega)

/-- a predicate that is preserved by every admissible bisection is preserved by `Bis` -/
theorem Bis.pres {ax : Ax} {L : Nat} (P : Mesh → Prop)
    (hP : ∀ M c, P M → c ∈ M.leaves → c.level ax < L → P (bisect M c ax)) {a b : Mesh}
    (h : Bis ax L a b) (ha : P a) : P b := by
  induction h with
  | refl => exact ha
  | step _ hc hlt ih => exact hP _ _ ih hc hlt

/-- what `refineAxis` does on the leaf `n`: admissible bisections below the level of `n` leading to
`M`, in which `n` is a leaf all of whose neighbours are at least as deep; then `n` is bisected -/
structure Pre (ax : Ax) (m : Mesh) (n : Cell) (M : Mesh) : Prop where
  bis : Bis ax (n.level ax) m M
  inv : Inv M
  mem : n ∈ M.leaves
  below : Below ax (n.level ax) m M
  nbr : ∀ s, ∀ x ∈ M.leaves, Adj M n s x → n.level ax ≤ x.level ax

theorem Pre.res {ax : Ax} {m : Mesh} {n : Cell} {M : Mesh} (h : Pre ax m n M) (hn : n ∈ m.leaves) :
    Res ax m n (bisect M n ax) :=
  bisect_res h.inv hn h.mem h.below h.nbr

theorem Pre.bis' {ax : Ax} {m : Mesh} {n : Cell} {M : Mesh} (h : Pre ax m n M) :
    Bis ax (n.level ax + 1) m (bisect M n ax) :=
  Bis.step (h.bis.mono (Nat.le_succ _)) h.mem (Nat.lt_succ_self _)

def IHyp' (fuel : Nat) (ax : Ax) : Prop :=
  ∀ (m : Mesh) (n : Cell), Inv m → n ∈ m.leaves → n.level ax < fuel →
    ∃ M, Pre ax m n M ∧ refineAxis fuel m n.id ax = .ok (bisect M n ax)

theorem inner_loop' {fuel : Nat} {ax : Ax} (IH : IHyp' fuel ax) {c : Cell} {s : Side}
    (hfuel : c.level ax < fuel + 1) (rest : List Cell) :
    ∀ (M : Mesh), rest.Nodup → Inv M → c ∈ M.leaves →
      (∀ n ∈ rest, Adj M c s n) →
      (∀ n ∈ rest, n.level ax < c.level ax → n ∈ M.leaves) →
      (∀ n ∈ M.leaves, Adj M c s n → n ∈ rest ∨ c.level ax ≤ n.level ax) →
      ∃ M', rest.foldlM (innerStep fuel ax c) M = .ok M' ∧ Inv M' ∧ Below ax (c.level ax) M M' ∧
        c ∈ M'.leaves ∧ (∀ n ∈ M'.leaves, Adj M' c s n → c.level ax ≤ n.level ax) ∧
        Bis ax (c.level ax) M M' := by
  induction rest with
  | nil =>
    intro M _ hinv hcM _ _ hnb
    refine ⟨M, rfl, hinv, Below.refl _ _ _, hcM, ?_, Bis.refl _⟩
    intro n hn ha
    rcases hnb n hn ha with h | h
    · simp at h
    · exact h
  | cons n rest ih =>
    intro M hnd hinv hcM hadj hrest hnb
    rw [List.foldlM_cons]
    have hnd' := (List.nodup_cons.mp hnd)
    by_cases hlt : n.level ax < c.level ax
    · have hnM : n ∈ M.leaves := hrest n (by simp) hlt
      obtain ⟨M0, pre, hM1⟩ := IH M n hinv hnM (by omega)
      have res : Res ax M n (bisect M0 n ax) := pre.res hnM
      have hbis1 : Bis ax (c.level ax) M (bisect M0 n ax) := pre.bis'.mono (by omega)
      generalize bisect M0 n ax = M1 at hM1 res hbis1
      have hstep : innerStep fuel ax c M n = .ok M1 := by
        simp only [innerStep, hlt, if_true]; exact hM1
      have hbel : Below ax (c.level ax) M M1 := res.below.mono (by omega)
      have hcM1 : c ∈ M1.leaves := res.keep c hcM (by rintro rfl; omega) (by omega)
      have hadjn : Adj M c s n := hadj n (by simp)
      have hnlev := (hinv.irr.level hcM hnM hadjn ax).1
      obtain ⟨M', hM', hinv', hbel', hcM', hfin, hbis'⟩ := ih M1 hnd'.2 res.inv hcM1
        (fun n2 hn2 => res.ref.adj.mpr (hadj n2 (by simp [hn2])))
        (fun n2 hn2 hl2 => by
          have hn2M : n2 ∈ M.leaves := hrest n2 (by simp [hn2]) hl2
          have hne : n2 ≠ n := by rintro rfl; exact hnd'.1 hn2
          have := (hinv.irr.level hcM hn2M (hadj n2 (by simp [hn2])) ax).1
          exact res.keep n2 hn2M hne (by omega))
        (fun n2 hn2 ha2 => by
          rcases hbel.nbr hinv res.inv hcM (le_refl _) hn2 ha2 with ⟨h1, h2⟩ | h
          · rcases hnb n2 h1 h2 with h | h
            · rcases List.mem_cons.mp h with rfl | h
              · exact absurd hn2 res.gone
              · exact Or.inl h
            · exact Or.inr h
          · exact Or.inr h)
      refine ⟨M', ?_, hinv', hbel.trans hbel', hcM', hfin, hbis1.trans hbis'⟩
      rw [hstep]; exact hM'
    · have hstep : innerStep fuel ax c M n = .ok M := by
        simp only [innerStep, hlt, if_false]; rfl
      obtain ⟨M', hM', hinv', hbel', hcM', hfin, hbis'⟩ := ih M hnd'.2 hinv hcM
        (fun n2 hn2 => hadj n2 (by simp [hn2]))
        (fun n2 hn2 hl2 => hrest n2 (by simp [hn2]) hl2)
        (fun n2 hn2 ha2 => by
          rcases hnb n2 hn2 ha2 with h | h
          · rcases List.mem_cons.mp h with rfl | h
            · exact Or.inr (by omega)
            · exact Or.inl h
          · exact Or.inr h)
      refine ⟨M', ?_, hinv', hbel', hcM', hfin, hbis'⟩
      rw [hstep]; exact hM'

theorem IHyp'.toIHyp {fuel : Nat} {ax : Ax} (IH : IHyp' fuel ax) : IHyp fuel ax := by
  intro m n hinv hn hl
  obtain ⟨M, pre, h⟩ := IH m n hinv hn hl
  exact ⟨_, h, pre.res hn⟩

theorem outer_loop' {fuel : Nat} {ax : Ax} (IH : IHyp' fuel ax) {c : Cell}
    (hfuel : c.level ax < fuel + 1) (sides : List Side) :
    ∀ (done : List Side) (M : Mesh), Inv M → c ∈ M.leaves →
      (∀ s ∈ done, ∀ n ∈ M.leaves, Adj M c s n → c.level ax ≤ n.level ax) →
      ∃ M', sides.foldlM (outerStep fuel ax c) M = .ok M' ∧ Inv M' ∧ Below ax (c.level ax) M M' ∧
        c ∈ M'.leaves ∧
        (∀ s ∈ done ++ sides, ∀ n ∈ M'.leaves, Adj M' c s n → c.level ax ≤ n.level ax) ∧
        Bis ax (c.level ax) M M' := by
  induction sides with
  | nil =>
    intro done M hinv hcM hdone
    exact ⟨M, rfl, hinv, Below.refl _ _ _, hcM, by simpa using hdone, Bis.refl _⟩
  | cons s sides ih =>
    intro done M hinv hcM hdone
    rw [List.foldlM_cons]
    obtain ⟨M1, hM1, hinv1, hbel1, hcM1, hfin1, hbis1⟩ :=
      inner_loop' IH (s := s) hfuel (nbrs M c s) M
        (nbrs_nodup hinv.ids c s) hinv hcM
        (fun n hn => (mem_nbrs.mp hn).2)
        (fun n hn _ => (mem_nbrs.mp hn).1)
        (fun n hn ha => Or.inl (mem_nbrs.mpr ⟨hn, ha⟩))
    obtain ⟨M', hM', hinv', hbel', hcM', hfin, hbis'⟩ := ih (done ++ [s]) M1 hinv1 hcM1 (by
      intro s' hs' n hn ha
      rcases List.mem_append.mp hs' with h | h
      · rcases hbel1.nbr hinv hinv1 hcM (le_refl _) hn ha with ⟨h1, h2⟩ | h'
        · exact hdone s' h n h1 h2
        · exact h'
      · simp only [List.mem_cons, List.not_mem_nil, or_false] at h
        subst h
        exact hfin1 n hn ha)
    refine ⟨M', ?_, hinv', hbel1.trans hbel', hcM', by simpa using hfin, hbis1.trans hbis'⟩
    have hstep : outerStep fuel ax c M s = .ok M1 := hM1
    rw [hstep]; exact hM'

theorem refineAxis_trace (ax : Ax) (fuel : Nat) : IHyp' fuel ax := by
  induction fuel with
  | zero => intro m n _ _ h; omega
  | succ fuel IH =>
    intro m c hinv hc hf
    rw [refineAxis_succ, findLeaf_of_mem hinv.ids hc]
    obtain ⟨M, hM, hinvM, hbel, hcM, hfin, hbis⟩ :=
      outer_loop' IH hf Side.all [] m hinv hc (by simp)
    have hfin' : ∀ s, ∀ n ∈ M.leaves, Adj M c s n → c.level ax ≤ n.level ax := by
      intro s; apply hfin s; cases s <;> simp [Side.all]
    refine ⟨M, ⟨hbis, hinvM, hcM, hbel, hfin'⟩, ?_⟩
    simp only [hM, bind, Except.bind, findLeaf_of_mem hinvM.ids hcM]
    rfl

/-- `refineId` on a leaf: admissible bisections strictly below the level of `c`, then `c` -/
theorem refineId_trace {m : Mesh} (h : Inv m) {c : Cell} (hc : c ∈ m.leaves) (ax : Ax) :
    ∃ M, Pre ax m c M ∧ refineId m c.id ax = .ok (bisect M c ax) := by
  unfold refineId
  rw [findLeaf_of_mem h.ids hc]
  exact refineAxis_trace ax (c.level ax + 1) m c h hc (Nat.lt_succ_self _)

end Stbem.Mesh
