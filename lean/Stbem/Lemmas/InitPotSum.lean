import Stbem.Lemmas.QuadtreeOps
import Stbem.Lemmas.QuadBasic

/-!
# Sums over the leaves of the domain quadtree are preserved by refinement

For a cell functional `I : Elem → ℚ` that is additive under the bisection of a square into its four quarters
(`QuadAdd I`: e.g. the exact integral of a fixed integrand over the cell), the sum of `I` over the leaves is
the same after `bisect`, `refine` (with its whole balance closure), every round of `refine_msh_bdr`, hence
after `refineMshBdr` — for every mesh satisfying the invariant `QInv` and every call that returns.
-/
namespace Stbem.InitPot
open Stbem.Quadtree Stbem.Quad

/-- sum of a cell functional over the leaves -/
def leafSum (I : Elem → Rat) (m : QT) : Rat := sumR (m.leaves.map I)

/-- the functional is additive under the bisection of a square (whatever indices the quarters get) -/
def QuadAdd (I : Elem → Rat) : Prop := ∀ (e : Elem) (n : Nat), I e = sumR ((children n e).map I)

theorem sumR_filter_ne {I : Elem → Rat} (c : Elem) : ∀ (l : List Elem), l.Nodup → c ∈ l →
    sumR ((l.filter fun x => decide (x ≠ c)).map I) + I c = sumR (l.map I) := by
  intro l
  induction l with
  | nil => intro _ h; simp at h
  | cons a l ih =>
    intro hnd hc
    obtain ⟨ha, hnd'⟩ := List.nodup_cons.mp hnd
    by_cases hac : a = c
    · subst hac
      have hfil : (l.filter fun x => decide (x ≠ a)) = l := by
        apply List.filter_eq_self.mpr
        intro x hx
        have : x ≠ a := fun h => ha (h ▸ hx)
        simpa using this
      simp only [List.filter_cons, ne_eq, not_true_eq_false, decide_false, Bool.false_eq_true, if_false,
        List.map_cons, sumR_cons]
      rw [hfil]; ring
    · have hc' : c ∈ l := by
        rcases List.mem_cons.mp hc with h | h
        · exact absurd h.symm hac
        · exact h
      have := ih hnd' hc'
      simp only [List.filter_cons, ne_eq, hac, not_false_eq_true, decide_true, if_true, List.map_cons,
        sumR_cons]
      linarith

theorem bisect_sum {I : Elem → Rat} (hI : QuadAdd I) {m : QT} (h : QInv m) {c : Elem} (hc : c ∈ m.leaves) :
    leafSum I (bisect m c) = leafSum I m := by
  unfold leafSum
  rw [bisect_leaves, List.map_append, sumR_append, ← hI c m.elems.length]
  exact sumR_filter_ne c m.leaves h.ids.nodup hc

/-- one step of the balance closure -/
theorem closureStep_sum {I : Elem → Rat} {fuel : Nat}
    (IHs : ∀ (m : QT) (n : Elem) (m' : QT), QInv m → n ∈ m.leaves → n.level < fuel →
      refine fuel m n = .ok m' → leafSum I m' = leafSum I m)
    {M : QT} {c : Elem} {s : Side} {M1 : QT} (hinv : QInv M) (hcm : c ∈ M.elems)
    (hf : c.level < fuel + 1) (h : closureStep fuel c M s = .ok M1) : leafSum I M1 = leafSum I M := by
  have hcg := hinv.forest.grid c hcm
  unfold closureStep at h
  cases hS : findSq M (nbrX c s) (nbrY c s) c.size with
  | some f =>
    rw [hS] at h
    simp only [Option.isSome_some, if_true] at h
    cases h; rfl
  | none =>
    rw [hS] at h
    simp only [Option.isSome_none, Bool.false_eq_true, if_false] at h
    cases hpe : onParentEdge c.pos s with
    | false =>
      rw [hpe] at h
      simp only [Bool.not_false, if_true] at h
      cases h; rfl
    | true =>
      rw [hpe] at h
      simp only [Bool.not_true, Bool.false_eq_true, if_false] at h
      cases hN : findSq M (pnbrX c s) (pnbrY c s) (2 * c.size) with
      | none =>
        rw [hN] at h
        cases h; rfl
      | some N =>
        rw [hN] at h
        obtain ⟨hNm, Nx, Ny, Ns⟩ := findSq_some hN
        have hlev : c.level = N.level + 1 := hcg.level_succ (hinv.forest.grid N hNm) Ns
        have hNl : N ∈ M.leaves := by
          by_contra hnl
          obtain ⟨q, hq, qx, qy, qs⟩ := kid_across hinv.forest hcg hNm hnl hpe Nx Ny Ns
          exact findSq_none hS hq ⟨qx, qy, qs⟩
        simp only [hlev, ne_eq, not_true_eq_false, if_false] at h
        exact IHs M N M1 hinv hNl (by omega) h

theorem closureFold_sum {I : Elem → Rat} {fuel : Nat}
    (IHs : ∀ (m : QT) (n : Elem) (m' : QT), QInv m → n ∈ m.leaves → n.level < fuel →
      refine fuel m n = .ok m' → leafSum I m' = leafSum I m)
    {c : Elem} (hf : c.level < fuel + 1) (sides : List Side) :
    ∀ (M M' : QT), QInv M → c ∈ M.elems → sides.foldlM (closureStep fuel c) M = .ok M' →
      leafSum I M' = leafSum I M := by
  induction sides with
  | nil =>
    intro M M' _ _ h
    cases h; rfl
  | cons s sides ih =>
    intro M M' hinv hcm h
    rw [List.foldlM_cons] at h
    obtain ⟨M1, hM1, hinv1, hbel1, -⟩ := closure_step (refine_res fuel) s hinv hcm hf
    rw [hM1] at h
    have h1 := closureStep_sum IHs hinv hcm hf hM1
    have h2 := ih M1 M' hinv1 (hbel1.ext.mem hcm) h
    rw [h2, h1]

/-- `refine` (with its balance closure) preserves the leaf sum of an additive functional -/
theorem refine_sum {I : Elem → Rat} (hI : QuadAdd I) (fuel : Nat) :
    ∀ (m : QT) (c : Elem) (m' : QT), QInv m → c ∈ m.leaves → c.level < fuel →
      refine fuel m c = .ok m' → leafSum I m' = leafSum I m := by
  induction fuel with
  | zero => intro m c m' _ _ h; omega
  | succ fuel IH =>
    intro m c m' hinv hc hf h
    rw [refine_succ] at h
    obtain ⟨M, hM, hinvM, hbel, hfin⟩ :=
      closure_loop (refine_res fuel) hf Side.all [] m hinv (hinv.forest.leaves_sub c hc) (by simp)
    obtain ⟨hcM, -⟩ := hfin hc
    have hsum := closureFold_sum IH hf Side.all m M hinv (hinv.forest.leaves_sub c hc) hM
    simp only [hM, hcM, bind, Except.bind, decide_true, Bool.not_true, Bool.false_eq_true, if_false, pure,
      Except.pure] at h
    cases h
    rw [bisect_sum hI hinvM hcM, hsum]

/-! ### the scan of `refine_msh_bdr` only proposes candidates -/

theorem scanEdge_parent (v0 v1 : Rat × Rat) (axis : Bool) (e : Elem) (st : Scan) (s : Side) :
    (scanEdge v0 v1 axis e st s).parent = st.parent ∨ (scanEdge v0 v1 axis e st s).parent = some e := by
  unfold scanEdge
  dsimp only
  split_ifs <;> simp

theorem foldSides_parent (v0 v1 : Rat × Rat) (axis : Bool) (e : Elem) (sides : List Side) :
    ∀ st : Scan, (sides.foldl (scanEdge v0 v1 axis e) st).parent = st.parent ∨
      (sides.foldl (scanEdge v0 v1 axis e) st).parent = some e := by
  induction sides with
  | nil => intro st; exact Or.inl rfl
  | cons s sides ih =>
    intro st
    rw [List.foldl_cons]
    rcases ih (scanEdge v0 v1 axis e st s) with h | h
    · rcases scanEdge_parent v0 v1 axis e st s with h' | h'
      · exact Or.inl (h.trans h')
      · exact Or.inr (h.trans h')
    · exact Or.inr h

theorem scanFold_parent (v0 v1 : Rat × Rat) (axis : Bool) (cands : List Elem) :
    ∀ (st : Scan) (p : Elem),
      (cands.foldl (fun st e => Side.all.foldl (scanEdge v0 v1 axis e) st) st).parent = some p →
      st.parent = some p ∨ p ∈ cands := by
  induction cands with
  | nil => intro st p h; exact Or.inl h
  | cons e cands ih =>
    intro st p h
    rw [List.foldl_cons] at h
    rcases ih _ p h with h1 | h1
    · rcases foldSides_parent v0 v1 axis e Side.all st with h2 | h2
      · exact Or.inl (h2 ▸ h1)
      · rw [h2] at h1
        cases h1
        exact Or.inr (by simp)
    · exact Or.inr (List.mem_cons_of_mem _ h1)

theorem scan_parent_mem {v0 v1 : Rat × Rat} {axis : Bool} {cands : List Elem} {p : Elem}
    (h : (scan v0 v1 axis cands).parent = some p) : p ∈ cands := by
  unfold scan at h
  rcases scanFold_parent v0 v1 axis cands {} p h with h1 | h1
  · cases h1
  · exact h1

/-- every round of `refine_msh_bdr` refines a leaf: the leaf sum and the invariant are preserved by every
call that returns (no hypothesis on the segment) -/
theorem bdrLoop_sum {I : Elem → Rat} (hI : QuadAdd I) (v0 v1 : Rat × Rat) (axis : Bool) (fuel : Nat) :
    ∀ (m : QT) (cands : List Elem) (m' : QT) (e : Elem), QInv m → (∀ x ∈ cands, x ∈ m.leaves) →
      bdrLoop v0 v1 axis fuel m cands = .ok (m', e) → leafSum I m' = leafSum I m ∧ QInv m' := by
  induction fuel with
  | zero => intro m cands m' e _ _ h; rw [bdrLoop] at h; cases h
  | succ fuel IH =>
    intro m cands m' e hinv hcands h
    rw [bdrLoop_succ] at h
    cases hr : (scan v0 v1 axis cands).ret with
    | some r =>
      rw [hr] at h
      cases h
      exact ⟨rfl, hinv⟩
    | none =>
      rw [hr] at h
      cases hp : (scan v0 v1 axis cands).parent with
      | none => rw [hp] at h; cases h
      | some p =>
        rw [hp] at h
        have hpl : p ∈ m.leaves := hcands p (scan_parent_mem hp)
        obtain ⟨m1, hm1, res⟩ := refine_res (p.level + 1) m p hinv hpl (Nat.lt_succ_self _)
        simp only [hm1, bind, Except.bind] at h
        obtain ⟨h1, h2⟩ := IH m1 (lastChildren m1) m' e res.inv res.kids h
        exact ⟨by rw [h1, refine_sum hI (p.level + 1) m p m1 hinv hpl (Nat.lt_succ_self _) hm1], h2⟩

theorem refineMshBdr_sum {I : Elem → Rat} (hI : QuadAdd I) {fuel : Nat} {m : QT} {a b : Rat × Rat}
    {m' : QT} {e : Elem} (hinv : QInv m) (h : refineMshBdr fuel m a b = .ok (m', e)) :
    leafSum I m' = leafSum I m ∧ QInv m' := by
  unfold refineMshBdr at h
  dsimp only at h
  split_ifs at h <;>
    exact bdrLoop_sum hI _ _ _ fuel m m.leaves m' e hinv (fun _ hx => hx) h

end Stbem.InitPot
