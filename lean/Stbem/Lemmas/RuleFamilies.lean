import Stbem.Lemmas.RuleSound

/-!
Real-valued meaning of the per-family certificates `classOK`, `litOK`, `dblOK`.
-/
namespace Stbem.Rules

/-- what a successful `classOK` means over `ℝ` (relative or absolute tolerance as requested) -/
def ClassExact (f : Family) (k1 k2 : ℤ) (xs ws : List ℚ) (rel : Bool) (tol : ℚ) : Prop :=
  (xs.length = ws.length ∧ xs ≠ [] ∧ (∀ x ∈ xs, 0 < x ∧ x < 1) ∧ ((∀ w ∈ ws, 0 < w) ∨ (∀ w ∈ ws, w < 0))) ∧
  match f with
  | .log =>
      (∀ k : ℕ, (k : ℤ) ≤ k1 → |rsum xs ws k (fun _ => 1) - 1 / ((k : ℝ) + 1)| ≤ rtol rel tol (1 / ((k : ℚ) + 1))) ∧
      (∀ k : ℕ, (k : ℤ) ≤ k2 → |rsum xs ws k Real.log + 1 / ((k : ℝ) + 1) ^ 2| ≤ rtol rel tol (1 / ((k : ℚ) + 1) ^ 2))
  | .loglog =>
      (∀ k : ℕ, (k : ℤ) ≤ k1 → |rsum xs ws k (fun _ => 1) - 1 / ((k : ℝ) + 1)| ≤ rtol rel tol (1 / ((k : ℚ) + 1))) ∧
      (∀ k : ℕ, (k : ℤ) ≤ k2 → |rsum xs ws k Real.log + 1 / ((k : ℝ) + 1) ^ 2| ≤ rtol rel tol (1 / ((k : ℚ) + 1) ^ 2)) ∧
      (∀ k : ℕ, (k : ℤ) ≤ k2 → |rsum xs ws k (fun x => Real.log (1 - x)) + rharm (k + 1) / ((k : ℝ) + 1)| ≤
        rtol rel tol (harmonic (k + 1) / ((k : ℚ) + 1)))
  | .sqrt =>
      (∀ k : ℕ, (k : ℤ) ≤ k1 → |rsum xs ws k (fun _ => 1) - 1 / ((k : ℝ) + 1)| ≤ rtol rel tol (1 / ((k : ℚ) + 1))) ∧
      (∀ k : ℕ, (k : ℤ) ≤ k2 → |rsum xs ws k Real.sqrt - 1 / ((k : ℝ) + 3 / 2)| ≤ rtol rel tol (1 / ((k : ℚ) + 3 / 2)))
  | .sqrtinv =>
      (∀ k : ℕ, (k : ℤ) ≤ k1 → |rsum xs ws k (fun _ => 1) - 1 / ((k : ℝ) + 1)| ≤ rtol rel tol (1 / ((k : ℚ) + 1))) ∧
      (∀ k : ℕ, (k : ℤ) ≤ k2 → |rsum xs ws k (fun x => 1 / Real.sqrt x) - 1 / ((k : ℝ) + 1 / 2)| ≤
        rtol rel tol (1 / ((k : ℚ) + 1 / 2)))
  | .gaussSqrtinv =>
      ∀ k : ℕ, (k : ℤ) ≤ gaussDeg xs → |rsum xs ws k (fun _ => 1) - (((2 / (2 * (k : ℚ) + 1) : ℚ)) : ℝ)| ≤
        rtol rel tol (2 / (2 * (k : ℚ) + 1))
  | .gaussX =>
      ∀ k : ℕ, (k : ℤ) ≤ gaussDeg xs → |rsum xs ws k (fun _ => 1) - (((1 / ((k : ℚ) + 2) : ℚ)) : ℝ)| ≤
        rtol rel tol (1 / ((k : ℚ) + 2))
  | .gaussLog =>
      ∀ k : ℕ, (k : ℤ) ≤ gaussDeg xs → |rsum xs ws k (fun _ => 1) - (((-1 / ((k : ℚ) + 1) ^ 2 : ℚ)) : ℝ)| ≤
        rtol rel tol (-1 / ((k : ℚ) + 1) ^ 2)

theorem classOK_sound (f : Family) (k1 k2 : ℤ) (xs ws : List ℚ) (rel : Bool) (tol : ℚ)
    (h : classOK f k1 k2 xs ws rel tol = true) : ClassExact f k1 k2 xs ws rel tol := by
  unfold classOK at h
  rw [Bool.and_eq_true] at h
  obtain ⟨hs, hc⟩ := h
  have shape := shapeOK_sound xs ws hs
  have hpos : ∀ x ∈ xs, 0 < x := fun x hx => (shape.2.2.1 x hx).1
  have hlt : ∀ x ∈ xs, 0 ≤ x ∧ x < 1 := fun x hx => ⟨(shape.2.2.1 x hx).1.le, (shape.2.2.1 x hx).2⟩
  refine ⟨shape, ?_⟩
  cases f <;> simp only [Bool.and_eq_true] at hc ⊢
  · exact ⟨fun k hk => polyOK_sound xs ws k1 rel tol hc.1 k hk,
      fun k hk => logOK_sound xs ws k2 rel tol logTerms hpos hc.2 k hk⟩
  · exact ⟨fun k hk => polyOK_sound xs ws k1 rel tol hc.1.1 k hk,
      fun k hk => logOK_sound xs ws k2 rel tol logTerms hpos hc.1.2 k hk,
      fun k hk => log1mOK_sound xs ws k2 rel tol logTerms hlt hc.2 k hk⟩
  · exact ⟨fun k hk => polyOK_sound xs ws k1 rel tol hc.1 k hk,
      fun k hk => sqrtOK_sound xs ws k2 rel tol sqrtDigits hpos hc.2 k hk⟩
  · exact ⟨fun k hk => polyOK_sound xs ws k1 rel tol hc.1 k hk,
      fun k hk => sqrtinvOK_sound xs ws k2 rel tol sqrtDigits hpos hc.2 k hk⟩
  · exact fun k hk => gaussOK_sound xs ws (gaussDeg xs) _ rel tol hc k hk
  · exact fun k hk => gaussOK_sound xs ws (gaussDeg xs) _ rel tol hc k hk
  · exact fun k hk => gaussOK_sound xs ws (gaussDeg xs) _ rel tol hc k hk

/-- each binary64 value is a correct rounding of its literal -/
def Rounded : List Dec → List Dbl → Prop
  | [], [] => True
  | l :: ls, d :: ds =>
      (|d.toRat - l.toRat| * 2 ≤ (⟨1, d.exp⟩ : Dbl).toRat ∧
        (d.man = 0 ∨ (2 ^ 52 ≤ d.man.natAbs ∧ d.man.natAbs < 2 ^ 53))) ∧ Rounded ls ds
  | _, _ => False

theorem allRound_sound : ∀ (ls : List Dec) (ds : List Dbl), allRound ls ds = true → Rounded ls ds
  | [], [], _ => trivial
  | l :: ls, d :: ds, h => by
      simp only [allRound, Bool.and_eq_true] at h
      exact ⟨roundsTo_sound l d h.1, allRound_sound ls ds h.2⟩
  | [], _ :: _, h => by simp [allRound] at h
  | _ :: _, [], h => by simp [allRound] at h

/-- meaning of the literal certificate -/
theorem litOK_sound (f : Family) (e : Entry) (h : litOK f e = true) :
    keyOK f e.k1 e.xs = true ∧ ClassExact f e.k1 e.k2 e.xs e.ws true (litTol f e.k1) := by
  unfold litOK at h
  rw [Bool.and_eq_true] at h
  exact ⟨h.1, classOK_sound _ _ _ _ _ _ _ h.2⟩

/-- meaning of the binary64 certificate -/
theorem dblOK_sound (f : Family) (e : Entry) (h : dblOK f e = true) :
    Rounded e.nodes e.nodesD ∧ Rounded e.weights e.weightsD ∧
      ClassExact f e.k1 e.k2 e.xsD e.wsD true dblTol := by
  unfold dblOK at h
  simp only [Bool.and_eq_true] at h
  exact ⟨allRound_sound _ _ h.1.1, allRound_sound _ _ h.1.2, classOK_sound _ _ _ _ _ _ _ h.2⟩

end Stbem.Rules
