import Stbem.Lemmas.QuadtreeCoherentSim

/-!
# The registration part of the generated `refine` restores `Coherent` (`tailPres`), hence `RefineSim CohInv`
-/
namespace Stbem.QuadtreeTie
open Stbem.Quadtree Stbem.Gen
open QuadtreeGen (dictHas dictGet dictSet Element_edges)

theorem tailB_bisect (g : GMesh) (e : GElem) :
    (tailB g e).bisect_edge = [((e.v3, e.v0), tv30 g e), ((e.v2, e.v3), tv23 g e), ((e.v1, e.v2), tv12 g e),
      ((e.v0, e.v1), tv01 g e)] ++ g.bisect_edge := by
  simp only [tailB, stepB_bisect, tv01, tv12, tv23, tv30, List.cons_append, List.nil_append]

theorem tailB_parent (g : GMesh) (e : GElem) :
    (tailB g e).parent_edge =
      [((tv30 g e, e.v0), (e.v3, e.v0)), ((e.v3, tv30 g e), (e.v3, e.v0)),
       ((tv23 g e, e.v3), (e.v2, e.v3)), ((e.v2, tv23 g e), (e.v2, e.v3)),
       ((tv12 g e, e.v2), (e.v1, e.v2)), ((e.v1, tv12 g e), (e.v1, e.v2)),
       ((tv01 g e, e.v1), (e.v0, e.v1)), ((e.v0, tv01 g e), (e.v0, e.v1))] ++ g.parent_edge := by
  simp only [tailB, stepB_parent, tv01, tv12, tv23, tv30, List.cons_append, List.nil_append]

theorem tailB_vertices_sub (g : GMesh) (e : GElem) {v : Vtx} (h : v ∈ g.vertices) : v ∈ (tailB g e).vertices :=
  stepB_vertices_sub _ _ _ (stepB_vertices_sub _ _ _ (stepB_vertices_sub _ _ _ (stepB_vertices_sub _ _ _ h)))

theorem stepB_vidx {g : GMesh} (h : g.vertices.map (·.idx) = List.range g.vertices.length) (a b : Vtx) :
    (stepB g a b).1.vertices.map (·.idx) = List.range (stepB g a b).1.vertices.length := by
  rw [stepB_vertices]
  split
  · simpa using h
  · simp only [List.map_append, List.map_cons, List.map_nil, List.length_append, List.length_cons, List.length_nil,
      List.range_succ, h, midVtx]

theorem tailKids_id (g : GMesh) (e : GElem) : ∀ k ∈ tailKids g e, g.elements.length ≤ k.id := by
  intro k hk
  simp only [tailKids, List.mem_cons, List.not_mem_nil, or_false] at hk
  rcases hk with rfl | rfl | rfl | rfl <;> simp

theorem tailKids_shaped {g : GMesh} (hb : BisOK g) {e : GElem} (hs : Shaped e) : ∀ k ∈ tailKids g e, Shaped k := by
  obtain ⟨⟨a1, a2⟩, ⟨b1, b2⟩, ⟨c1, c2⟩, ⟨d1, d2⟩⟩ := tail_mids hb e
  simp only at a1 a2 b1 b2 c1 c2 d1 d2
  have h1 := hs.y01; have h2 := hs.x12; have h3 := hs.y23; have h4 := hs.x30; have h5 := hs.sq; have h6 := hs.pos
  intro k hk
  simp only [tailKids, List.mem_cons, List.not_mem_nil, or_false] at hk
  rcases hk with rfl | rfl | rfl | rfl <;> constructor <;> simp only [tvi, a1, a2, b1, b2, c1, c2, d1, d2] <;> linarith

theorem mem_nbrsOf {ch : List GElem} {p : QuadtreeGen.Edge × GElem} :
    p ∈ nbrsOf ch ↔ p.2 ∈ ch ∧ p.1 ∈ Element_edges p.2 := by
  rcases p with ⟨q, c⟩
  simp only [nbrsOf, List.mem_reverse, List.mem_flatMap, List.mem_map, Prod.mk.injEq]
  constructor
  · rintro ⟨c', hc', q', hq', rfl, rfl⟩; exact ⟨hc', hq'⟩
  · rintro ⟨h1, h2⟩; exact ⟨c, h1, q, h2, rfl, rfl⟩

theorem dictHas_append_right {κ β : Type} [DecidableEq κ] (d1 d2 : List (κ × β)) (k : κ) (h : dictHas d2 k = true) :
    dictHas (d1 ++ d2) k = true := by
  obtain ⟨p, hp, hk⟩ := (dictHas_iff _ _).mp h
  exact (dictHas_iff _ _).mpr ⟨p, List.mem_append_right _ hp, hk⟩

theorem dictHas_of_mem {κ β : Type} [DecidableEq κ] (d : List (κ × β)) (k : κ) (v : β) (h : (k, v) ∈ d) :
    dictHas d k = true := (dictHas_iff _ _).mpr ⟨(k, v), h, rfl⟩

/-- the registration part of `refine` restores `Coherent` -/
theorem tailPres : TailPres := by
  intro g e hc hq hl _
  have he := hc.leaves_sub e hl
  have hs := hc.shaped e he
  have hb := hc.bisOK
  obtain ⟨ev0, ev1, ev2, ev3⟩ := hc.everts e he
  obtain ⟨m01, m12, m23, m30⟩ := tail_mids hb e
  obtain ⟨w01, w12, w23, w30⟩ := tail_mids_mem hb e
  have hkid := tailKids_id g e
  have hold : ∀ P ∈ g.elements, P ∉ tailKids g e := by
    intro P hP hk
    have := id_lt_of_inv hq hP
    have := hkid P hk
    omega
  have hvs : ∀ v ∈ g.vertices, v ∈ (tailState g e).vertices := by
    intro v hv
    simp only [tailState]
    exact List.mem_append_left _ (tailB_vertices_sub g e hv)
  have hvB : ∀ v ∈ (tailB g e).vertices, v ∈ (tailState g e).vertices := by
    intro v hv
    simp only [tailState]
    exact List.mem_append_left _ hv
  have hvi : tvi g e ∈ (tailState g e).vertices := by simp [tailState]
  have hleaf' : ∀ P ∈ g.elements, P ∈ (tailState g e).leaf_elements → P ∈ g.leaf_elements ∧ P ≠ e := by
    intro P hP hm
    simp only [tailState, List.mem_append, List.mem_filter, decide_eq_true_eq] at hm
    rcases hm with hm | hm
    · exact hm
    · exact absurd hm (hold P hP)
  have hbis : (tailState g e).bisect_edge = _ := tailB_bisect g e
  have hpar : (tailState g e).parent_edge = _ := tailB_parent g e
  refine ⟨?_, ?_, ?_, ?_, ?_, ?_, ?_, ?_, ?_, ?_, ?_⟩
  · -- shaped
    intro c hcm
    simp only [tailState, List.mem_append] at hcm
    rcases hcm with h | h
    · exact hc.shaped c h
    · exact tailKids_shaped hb hs c h
  · -- vidx
    have h4 : (tailB g e).vertices.map (·.idx) = List.range (tailB g e).vertices.length :=
      stepB_vidx (stepB_vidx (stepB_vidx (stepB_vidx hc.vidx _ _) _ _) _ _) _ _
    simp only [tailState, List.map_append, List.map_cons, List.map_nil, List.length_append, List.length_cons,
      List.length_nil, List.range_succ, h4, tvi]
  · -- everts
    intro c hcm
    simp only [tailState, List.mem_append] at hcm
    rcases hcm with h | h
    · obtain ⟨a, b, c', d⟩ := hc.everts c h
      exact ⟨hvs _ a, hvs _ b, hvs _ c', hvs _ d⟩
    · simp only [tailKids, List.mem_cons, List.not_mem_nil, or_false] at h
      rcases h with rfl | rfl | rfl | rfl
      · exact ⟨hvs _ ev0, hvB _ w01, hvi, hvB _ w30⟩
      · exact ⟨hvB _ w01, hvs _ ev1, hvB _ w12, hvi⟩
      · exact ⟨hvi, hvB _ w12, hvs _ ev2, hvB _ w23⟩
      · exact ⟨hvB _ w30, hvi, hvB _ w23, hvs _ ev3⟩
  · -- leaves_sub
    intro c hcm
    simp only [tailState, List.mem_append, List.mem_filter] at hcm ⊢
    rcases hcm with h | h
    · exact Or.inl (hc.leaves_sub c h.1)
    · exact Or.inr h
  · -- quads
    rw [tail_nRoots]
    have := hc.quads
    have := nRoots_le g
    simp only [tailState, List.length_append, tailKids, List.length_cons, List.length_nil]
    omega
  · -- nbrs_sound
    intro p hp
    simp only [tailState, List.mem_append] at hp ⊢
    rcases hp with h | h
    · obtain ⟨h1, h2⟩ := mem_nbrsOf.mp h
      exact ⟨Or.inr h1, h2⟩
    · obtain ⟨h1, h2⟩ := hc.nbrs_sound p h
      exact ⟨Or.inl h1, h2⟩
  · -- nbrs_complete
    intro c hcm q hq'
    simp only [tailState, List.mem_append] at hcm ⊢
    rcases hcm with h | h
    · exact dictHas_append_right _ _ _ (hc.nbrs_complete c h q hq')
    · exact dictHas_of_mem _ q c (List.mem_append_left _ (mem_nbrsOf.mpr ⟨h, hq'⟩))
  · -- bis_sound
    intro p hp
    rw [hbis] at hp
    have hEe : e ∈ (tailState g e).elements ∧ e ∉ (tailState g e).leaf_elements :=
      ⟨by simp only [tailState]; exact List.mem_append_left _ he, fun hm => (hleaf' e he hm).2 rfl⟩
    simp only [List.cons_append, List.nil_append, List.mem_cons] at hp
    rcases hp with rfl | rfl | rfl | rfl | hp
    · exact ⟨⟨e, hEe.1, hEe.2, by simp [Element_edges]⟩, hvB _ w30, m30⟩
    · exact ⟨⟨e, hEe.1, hEe.2, by simp [Element_edges]⟩, hvB _ w23, m23⟩
    · exact ⟨⟨e, hEe.1, hEe.2, by simp [Element_edges]⟩, hvB _ w12, m12⟩
    · exact ⟨⟨e, hEe.1, hEe.2, by simp [Element_edges]⟩, hvB _ w01, m01⟩
    · obtain ⟨⟨P, hP, hPl, hPe⟩, hv, hm⟩ := hc.bis_sound p hp
      refine ⟨⟨P, ?_, ?_, hPe⟩, hvs _ hv, hm⟩
      · simp only [tailState]; exact List.mem_append_left _ hP
      · intro hm'; exact hPl (hleaf' P hP hm').1
  · -- bis_complete
    intro c hcm hnl q hq'
    rw [hbis]
    simp only [tailState, List.mem_append] at hcm
    rcases hcm with h | h
    · by_cases hce : c = e
      · subst hce
        simp only [Element_edges, List.mem_cons, List.not_mem_nil, or_false] at hq'
        rcases hq' with rfl | rfl | rfl | rfl
        · exact dictHas_of_mem _ _ (tv01 g c) (by simp)
        · exact dictHas_of_mem _ _ (tv12 g c) (by simp)
        · exact dictHas_of_mem _ _ (tv23 g c) (by simp)
        · exact dictHas_of_mem _ _ (tv30 g c) (by simp)
      · have : c ∉ g.leaf_elements := by
          intro hcl
          apply hnl
          simp only [tailState, List.mem_append, List.mem_filter, decide_eq_true_eq]
          exact Or.inl ⟨hcl, hce⟩
        exact dictHas_append_right _ _ _ (hc.bis_complete c h this q hq')
    · exfalso
      apply hnl
      simp only [tailState, List.mem_append]
      exact Or.inr h
  · -- par_sound
    intro p hp
    rw [hpar] at hp
    rw [hbis]
    simp only [List.cons_append, List.nil_append, List.mem_cons] at hp
    rcases hp with rfl | rfl | rfl | rfl | rfl | rfl | rfl | rfl | hp
    · exact ⟨((e.v3, e.v0), tv30 g e), by simp, rfl, Or.inr rfl⟩
    · exact ⟨((e.v3, e.v0), tv30 g e), by simp, rfl, Or.inl rfl⟩
    · exact ⟨((e.v2, e.v3), tv23 g e), by simp, rfl, Or.inr rfl⟩
    · exact ⟨((e.v2, e.v3), tv23 g e), by simp, rfl, Or.inl rfl⟩
    · exact ⟨((e.v1, e.v2), tv12 g e), by simp, rfl, Or.inr rfl⟩
    · exact ⟨((e.v1, e.v2), tv12 g e), by simp, rfl, Or.inl rfl⟩
    · exact ⟨((e.v0, e.v1), tv01 g e), by simp, rfl, Or.inr rfl⟩
    · exact ⟨((e.v0, e.v1), tv01 g e), by simp, rfl, Or.inl rfl⟩
    · obtain ⟨q, hq1, hq2, hq3⟩ := hc.par_sound p hp
      exact ⟨q, List.mem_append_right _ hq1, hq2, hq3⟩
  · -- par_complete
    intro q hq'
    rw [hbis] at hq'
    rw [hpar]
    simp only [List.cons_append, List.nil_append, List.mem_cons] at hq'
    rcases hq' with rfl | rfl | rfl | rfl | hq'
    · exact ⟨dictHas_of_mem _ _ (e.v3, e.v0) (by simp), dictHas_of_mem _ _ (e.v3, e.v0) (by simp)⟩
    · exact ⟨dictHas_of_mem _ _ (e.v2, e.v3) (by simp), dictHas_of_mem _ _ (e.v2, e.v3) (by simp)⟩
    · exact ⟨dictHas_of_mem _ _ (e.v1, e.v2) (by simp), dictHas_of_mem _ _ (e.v1, e.v2) (by simp)⟩
    · exact ⟨dictHas_of_mem _ _ (e.v0, e.v1) (by simp), dictHas_of_mem _ _ (e.v0, e.v1) (by simp)⟩
    · obtain ⟨h1, h2⟩ := hc.par_complete q hq'
      exact ⟨dictHas_append_right _ _ _ h1, dictHas_append_right _ _ _ h2⟩

/-- one call of the generated `refine` simulates one call of the hand model's `refine` under `CohInv` -/
theorem refineSim_cohInv : RefineSim CohInv := refineSim_of_tailPres tailPres

end Stbem.QuadtreeTie
