import Stbem.Lemmas.MeshPhase
import Mathlib.Data.List.Range

/-!
# The Dörfler routines never fail (C06)

* `bulk_spec`: the marked entries are the shortest prefix of the ordering that reaches `θ²·total`;
* `dorflerIso_full`, `dorflerAniso_full`: on a mesh satisfying `Inv` (and, for the anisotropic
  routine, `KidsOK`: the `kids` table has no entry for a leaf) the calls succeed, preserve the
  invariants, and every marked cell is bisected in the marked directions.
-/
namespace Stbem.Mesh

/-! ### list tools -/

theorem filterMap_eq_map_of {α β} {f : α → Option β} {g : α → β} {l : List α}
    (h : ∀ i ∈ l, f i = some (g i)) : l.filterMap f = l.map g := by
  induction l with
  | nil => rfl
  | cons a l ih =>
    simp [h a (by simp), ih (fun i hi => h i (by simp [hi]))]

theorem filterMap_getElem?_range {γ} (Z : List γ) :
    (List.range Z.length).filterMap (fun i => Z[i]?) = Z := by
  cases Z with
  | nil => rfl
  | cons z Z' =>
    rw [filterMap_eq_map_of (g := fun i => ((z :: Z')[i]?).getD z)]
    · apply List.ext_getElem
      · simp
      · intro i h1 h2
        simp only [List.getElem_map, List.getElem_range]
        rw [List.getElem?_eq_getElem h2, Option.getD_some]
    · intro i hi
      have : i < (z :: Z').length := List.mem_range.mp hi
      rw [List.getElem?_eq_getElem this, Option.getD_some]

theorem zip_getElem? {α β} (l : List α) (l' : List β) (i : Nat) :
    (l.zip l')[i]? = (l[i]?).bind fun v => (l'[i]?).map fun c => (v, c) := by
  rw [List.zip, List.getElem?_zipWith]
  cases l[i]? <;> cases l'[i]? <;> rfl

/-! ### the marking rule -/

/-- the marked entries form the shortest non-empty prefix whose sum reaches `θ²·total` -/
theorem bulk_spec {α} (l : List (Rat × α)) (θ total : Rat) (htot : total = sumQ (l.map (·.1)))
    (hv : ∀ p ∈ l, 0 ≤ p.1) (h0 : 0 ≤ θ) (h1 : θ ≤ 1) (hl : l ≠ []) :
    takeBulk (total * θ ^ 2) 0 l <+: l ∧ takeBulk (total * θ ^ 2) 0 l ≠ [] ∧
    total * θ ^ 2 ≤ sumQ ((takeBulk (total * θ ^ 2) 0 l).map (·.1)) ∧
    ∀ p, p <+: takeBulk (total * θ ^ 2) 0 l → p.length < (takeBulk (total * θ ^ 2) 0 l).length →
      p ≠ [] → sumQ (p.map (·.1)) < total * θ ^ 2 := by
  refine ⟨takeBulk_prefix _ _ _, takeBulk_ne_nil _ _ _ hl, ?_, ?_⟩
  · have hb : total * θ ^ 2 ≤ total := by
      rw [htot]
      refine bulk_bound_reached _ ?_ θ h0 h1
      intro v hv'
      obtain ⟨p, hp, rfl⟩ := List.mem_map.mp hv'
      exact hv p hp
    have := takeBulk_reaches (total * θ ^ 2) 0 l (by rw [zero_add, ← htot]; exact hb) hl
    simpa using this
  · intro p hp hlen hne
    have := takeBulk_minimal (total * θ ^ 2) 0 l p hp hlen (Or.inl hne)
    simpa using this

/-! ### consequences of the phase invariants -/

theorem own_corner {d : Cell} (hp : d.t0 < d.t1 ∧ d.x0 < d.x1) : d.Contains d.t0 d.x0 :=
  ⟨le_refl _, hp.1, le_refl _, hp.2⟩

/-- a leaf `k` that has been bisected in a phase: the leaves of the result that meet `k` lie in `k`
and are exactly one level deeper in the axis of the phase -/
theorem Track.gone_deeper {ax : Ax} {M M' : Mesh} (hM : Inv M) (hT : Track ax M M')
    {k d : Cell} (hk : k ∈ M.leaves) (hk' : k ∉ M'.leaves) (hd : d ∈ M'.leaves) {t x : Rat}
    (hdt : d.Contains t x) (hkt : k.Contains t x) : d.level ax = k.level ax + 1 := by
  rcases hT d hd with h | ⟨o, ho, sub, lev⟩
  · have : d = k := hM.tiles.disjoint d h k hk t x hdt hkt
    subst this
    exact absurd hd hk'
  · have : o = k := hM.tiles.disjoint o ho k hk t x (sub.contains hdt) hkt
    subst this
    exact lev

theorem Refines.point_levels {M M' : Mesh} (hM : Inv M) (hR : Refines M M') {k d : Cell}
    (hk : k ∈ M.leaves) (hd : d ∈ M'.leaves) {t x : Rat} (hdt : d.Contains t x)
    (hkt : k.Contains t x) : k.lt ≤ d.lt ∧ k.lx ≤ d.lx := by
  obtain ⟨d', hd', sub, l1, l2⟩ := hR.sub d hd
  have : d' = k := hM.tiles.disjoint d' hd' k hk t x (sub.contains hdt) hkt
  subst this
  exact ⟨l1, l2⟩

/-- a point of `c` lies in one of the children -/
theorem kidsOf_cover (ax : Ax) (f : Cell → Nat) (c : Cell) {t x : Rat} (h : c.Contains t x) :
    ∃ k ∈ kidsOf ax f c, k.Contains t x := by
  rcases children_cover (f c) c ax t x h with h | h
  · exact ⟨_, mem_kidsOf.mpr (Or.inl rfl), h⟩
  · exact ⟨_, mem_kidsOf.mpr (Or.inr rfl), h⟩

/-! ### `dorflerIso` -/

def isoSorted (m : Mesh) (eta : List Rat) (perm : List Nat) : List (Rat × Cell) :=
  perm.filterMap fun i => (eta[i]?).bind fun v => (m.leaves[i]?).map fun c => (v, c)

/-- the cells marked by `dorflerIso` -/
def isoMarked (m : Mesh) (eta : List Rat) (perm : List Nat) (θ : Rat) : List Cell :=
  (takeBulk (sumQ eta * θ ^ 2) 0 (isoSorted m eta perm)).map (·.2)

theorem isoSorted_perm (m : Mesh) (eta : List Rat) (perm : List Nat)
    (hlen : eta.length = m.leaves.length) (hperm : perm.Perm (List.range eta.length)) :
    (isoSorted m eta perm).Perm (eta.zip m.leaves) := by
  have hf : (fun i : Nat => (eta[i]?).bind fun v => (m.leaves[i]?).map fun c => (v, c)) =
      fun i : Nat => (eta.zip m.leaves)[i]? := by
    funext i; rw [zip_getElem?]
  unfold isoSorted
  rw [hf]
  have h1 := List.Perm.filterMap (fun i => (eta.zip m.leaves)[i]?) hperm
  have hl : eta.length = (eta.zip m.leaves).length := by simp [hlen]
  rw [hl, filterMap_getElem?_range] at h1
  exact h1

theorem isoSorted_length (m : Mesh) (eta : List Rat) (perm : List Nat)
    (hlen : eta.length = m.leaves.length) (hperm : perm.Perm (List.range eta.length)) :
    (isoSorted m eta perm).length = eta.length := by
  rw [(isoSorted_perm m eta perm hlen hperm).length_eq]
  simp [hlen]

theorem isoSorted_snd (m : Mesh) (eta : List Rat) (perm : List Nat)
    (hlen : eta.length = m.leaves.length) (hperm : perm.Perm (List.range eta.length)) :
    ((isoSorted m eta perm).map (·.2)).Perm m.leaves := by
  have h := (isoSorted_perm m eta perm hlen hperm).map Prod.snd
  rw [List.map_snd_zip (le_of_eq hlen.symm)] at h
  exact h

theorem isoSorted_fst (m : Mesh) (eta : List Rat) (perm : List Nat)
    (hlen : eta.length = m.leaves.length) (hperm : perm.Perm (List.range eta.length)) :
    ((isoSorted m eta perm).map (·.1)).Perm eta := by
  have h := (isoSorted_perm m eta perm hlen hperm).map Prod.fst
  rw [List.map_fst_zip (le_of_eq hlen)] at h
  exact h

theorem isoMarked_sublist (m : Mesh) (eta : List Rat) (perm : List Nat) (θ : Rat) :
    (isoMarked m eta perm θ).Sublist ((isoSorted m eta perm).map (·.2)) :=
  ((takeBulk_prefix _ _ _).map _).sublist

theorem dorflerIso_eq (m : Mesh) (eta : List Rat) (perm : List Nat) (θ : Rat)
    (hlen : eta.length = m.leaves.length) (hs : (isoSorted m eta perm).length = eta.length) :
    dorflerIso m eta perm θ = (do
      let r1 ← refinePhase m (isoMarked m eta perm θ) .time
      let r2 ← refinePhase r1.1 r1.2 .space
      pure r2.1) := by
  unfold dorflerIso
  simp only [bind, Except.bind, pure, Except.pure]
  have hs' : ¬ ((isoSorted m eta perm).length ≠ eta.length) := not_not.mpr hs
  unfold isoSorted at hs'
  rw [if_neg (not_not.mpr hlen), if_neg hs']
  rfl

/-- `dorflerIso` never fails; the marked cells end up bisected in both directions -/
theorem dorflerIso_full (m : Mesh) (h : Inv m) (eta : List Rat) (perm : List Nat) (θ : Rat)
    (hlen : eta.length = m.leaves.length) (hperm : perm.Perm (List.range eta.length)) :
    ∃ m', dorflerIso m eta perm θ = .ok m' ∧ Inv m' ∧ Refines m m' ∧ (KidsOK m → KidsOK m') ∧
      (∀ c ∈ isoMarked m eta perm θ, c ∈ m.leaves) ∧ (isoMarked m eta perm θ).Nodup ∧
      ∀ c ∈ isoMarked m eta perm θ, ∀ d ∈ m'.leaves, d.Sub c →
        c.lt + 1 ≤ d.lt ∧ c.lx + 1 ≤ d.lx := by
  have hsnd := isoSorted_snd m eta perm hlen hperm
  have hsub := isoMarked_sublist m eta perm θ
  have hmk : ∀ c ∈ isoMarked m eta perm θ, c ∈ m.leaves :=
    fun c hc => hsnd.mem_iff.mp (hsub.subset hc)
  have hnd : (isoMarked m eta perm θ).Nodup :=
    hsub.nodup (hsnd.nodup_iff.mpr h.ids.leaves_nodup)
  obtain ⟨r1, f1, hr1, hinv1, hQ1, hT1, hgone1, hr12, hk1⟩ :=
    refinePhase_spec m h _ .time hmk hnd
  have hperm1 := sortBy_perm (fun a b : Cell => decide (a.level .time < b.level .time))
    (isoMarked m eta perm θ)
  have hmk2 : ∀ k ∈ r1.2, k ∈ r1.1.leaves := by
    intro k hk'
    rw [hr12] at hk'
    obtain ⟨c, hc, hkc⟩ := List.mem_flatMap.mp hk'
    exact hk1 c (hperm1.mem_iff.mp hc) k hkc
  have hnd2 : r1.2.Nodup := by
    rw [hr12]
    exact kidsFlat_nodup h.tiles .time f1 (hperm1.nodup_iff.mpr hnd)
      (fun c hc => hmk c (hperm1.mem_iff.mp hc))
  obtain ⟨r2, f2, hr2, hinv2, hQ2, hT2, hgone2, -, -⟩ :=
    refinePhase_spec r1.1 hinv1 r1.2 .space hmk2 hnd2
  refine ⟨r2.1, ?_, hinv2, hQ1.1.trans hQ2.1, ?_, hmk, hnd, ?_⟩
  · rw [dorflerIso_eq m eta perm θ hlen (isoSorted_length m eta perm hlen hperm)]
    simp only [bind, Except.bind, hr1, hr2]
    rfl
  · intro hK
    exact (hQ2.2.2 (hQ1.2.2 hK).1).1
  · intro c hc d hd hsubc
    have hpd := hinv2.tiles.proper d hd
    have hpc := h.tiles.proper c (hmk c hc)
    have hpt := own_corner hpd
    obtain ⟨k, hkc, hkt⟩ := kidsOf_cover .time f1 c (hsubc.contains hpt)
    have hkM1 : k ∈ r1.1.leaves := hk1 c hc k hkc
    have hk2 : k ∈ r1.2 := by
      rw [hr12]
      exact List.mem_flatMap.mpr ⟨c, hperm1.mem_iff.mpr hc, hkc⟩
    have hlev := hQ2.2.1.gone_deeper hinv1 hkM1 (hgone2 k hk2) hd hpt hkt
    have hle := hQ2.1.point_levels hinv1 hkM1 hd hpt hkt
    obtain ⟨-, -, -, hk⟩ := kidsOf_props hkc hpc
    simp only [Cell.level] at hlev hk
    omega

/-! ### `dorflerAniso` -/

def anisoErrs (m : Mesh) (eta : List (Rat × Rat)) : List (Rat × Cell × Ax) :=
  ((eta.zip m.leaves).map fun p => (p.1.1, (p.2, Ax.time))) ++
    ((eta.zip m.leaves).map fun p => (p.1.2, (p.2, Ax.space)))

/-- the (cell, direction) pairs marked by `dorflerAniso` -/
def anisoMarked (m : Mesh) (eta : List (Rat × Rat)) (θ : Rat) : List (Cell × Ax) :=
  (takeBulk (sumQ (eta.map fun p => p.1 + p.2) * θ ^ 2) 0 (sortDesc (anisoErrs m eta))).map (·.2)

def anisoTime (m : Mesh) (eta : List (Rat × Rat)) (θ : Rat) : List Cell :=
  ((anisoMarked m eta θ).filter fun p => p.2 == Ax.time).map (·.1)

def anisoSpace (m : Mesh) (eta : List (Rat × Rat)) (θ : Rat) : List Cell :=
  ((anisoMarked m eta θ).filter fun p => p.2 == Ax.space).map (·.1)

/-- a space-marked cell, or its two time-children if the time phase has bisected it -/
def spacePiece (m1 : Mesh) (c : Cell) : List Cell :=
  match m1.kids.find? (fun k => k.1 == c.id) with
  | none => [c]
  | some k => [(children k.2.1 c .time).1, (children k.2.1 c .time).2]

theorem dorflerAniso_eq (m : Mesh) (eta : List (Rat × Rat)) (θ : Rat)
    (hlen : eta.length = m.leaves.length) :
    dorflerAniso m eta θ = (do
      let r1 ← refinePhase m (anisoTime m eta θ) .time
      let r2 ← refinePhase r1.1 ((anisoSpace m eta θ).flatMap (spacePiece r1.1)) .space
      pure r2.1) := by
  unfold dorflerAniso
  simp only [bind, Except.bind, pure, Except.pure]
  rw [if_neg (not_not.mpr hlen)]
  rfl

theorem anisoErrs_snd (m : Mesh) (eta : List (Rat × Rat)) (hlen : eta.length = m.leaves.length) :
    (anisoErrs m eta).map (·.2) =
      m.leaves.map (fun c => (c, Ax.time)) ++ m.leaves.map (fun c => (c, Ax.space)) := by
  have hz : (eta.zip m.leaves).map Prod.snd = m.leaves := List.map_snd_zip (le_of_eq hlen.symm)
  have h1 : ∀ a : Ax, (eta.zip m.leaves).map (fun p => (p.2, a)) = m.leaves.map (fun c => (c, a)) := by
    intro a
    conv_rhs => rw [← hz]
    rw [List.map_map]
    rfl
  simp only [anisoErrs, List.map_append, List.map_map]
  rw [← h1, ← h1]
  rfl

theorem tagged_nodup {l : List Cell} (hl : l.Nodup) :
    (l.map (fun c => (c, Ax.time)) ++ l.map (fun c => (c, Ax.space))).Nodup := by
  rw [List.nodup_append]
  refine ⟨hl.map (fun a b e => (Prod.mk.inj e).1), hl.map (fun a b e => (Prod.mk.inj e).1), ?_⟩
  intro a ha b hb e
  obtain ⟨c, _, rfl⟩ := List.mem_map.mp ha
  obtain ⟨c', _, rfl⟩ := List.mem_map.mp hb
  have := (Prod.mk.inj e).2
  cases this

theorem anisoMarked_props (m : Mesh) (h : Inv m) (eta : List (Rat × Rat)) (θ : Rat)
    (hlen : eta.length = m.leaves.length) :
    (anisoMarked m eta θ).Nodup ∧ ∀ p ∈ anisoMarked m eta θ, p.1 ∈ m.leaves := by
  have hsub : (anisoMarked m eta θ).Sublist ((sortDesc (anisoErrs m eta)).map (·.2)) :=
    ((takeBulk_prefix _ _ _).map _).sublist
  have hperm : ((sortDesc (anisoErrs m eta)).map (·.2)).Perm
      (m.leaves.map (fun c => (c, Ax.time)) ++ m.leaves.map (fun c => (c, Ax.space))) := by
    rw [← anisoErrs_snd m eta hlen]
    exact (sortDesc_perm _).map _
  refine ⟨hsub.nodup (hperm.nodup_iff.mpr (tagged_nodup h.ids.leaves_nodup)), ?_⟩
  intro p hp
  have := hperm.mem_iff.mp (hsub.subset hp)
  rcases List.mem_append.mp this with h' | h' <;>
  · obtain ⟨c, hc, rfl⟩ := List.mem_map.mp h'
    exact hc

theorem aniso_axis_props (m : Mesh) (h : Inv m) (eta : List (Rat × Rat)) (θ : Rat)
    (hlen : eta.length = m.leaves.length) (a : Ax) :
    (((anisoMarked m eta θ).filter fun p => p.2 == a).map (·.1)).Nodup ∧
    ∀ c ∈ ((anisoMarked m eta θ).filter fun p => p.2 == a).map (·.1), c ∈ m.leaves := by
  obtain ⟨hnd, hmem⟩ := anisoMarked_props m h eta θ hlen
  constructor
  · refine List.Nodup.map_on ?_ (hnd.filter _)
    intro x hx y hy e
    have hx2 : x.2 = a := by simpa using (List.mem_filter.mp hx).2
    have hy2 : y.2 = a := by simpa using (List.mem_filter.mp hy).2
    exact Prod.ext e (hx2.trans hy2.symm)
  · intro c hc
    obtain ⟨p, hp, rfl⟩ := List.mem_map.mp hc
    exact hmem p (List.mem_filter.mp hp).1

theorem mem_anisoTime {m : Mesh} {eta : List (Rat × Rat)} {θ : Rat} {c : Cell} :
    c ∈ anisoTime m eta θ ↔ (c, Ax.time) ∈ anisoMarked m eta θ := by
  unfold anisoTime
  constructor
  · intro hc
    obtain ⟨p, hp, rfl⟩ := List.mem_map.mp hc
    obtain ⟨hp1, hp2⟩ := List.mem_filter.mp hp
    have h2 : p.2 = Ax.time := by simpa using hp2
    have : p = (p.1, Ax.time) := Prod.ext rfl h2
    rw [← this]; exact hp1
  · intro hp
    exact List.mem_map.mpr ⟨(c, Ax.time), List.mem_filter.mpr ⟨hp, by simp⟩, rfl⟩

theorem mem_anisoSpace {m : Mesh} {eta : List (Rat × Rat)} {θ : Rat} {c : Cell} :
    c ∈ anisoSpace m eta θ ↔ (c, Ax.space) ∈ anisoMarked m eta θ := by
  unfold anisoSpace
  constructor
  · intro hc
    obtain ⟨p, hp, rfl⟩ := List.mem_map.mp hc
    obtain ⟨hp1, hp2⟩ := List.mem_filter.mp hp
    have h2 : p.2 = Ax.space := by simpa using hp2
    have : p = (p.1, Ax.space) := Prod.ext rfl h2
    rw [← this]; exact hp1
  · intro hp
    exact List.mem_map.mpr ⟨(c, Ax.space), List.mem_filter.mpr ⟨hp, by simp⟩, rfl⟩

/-- what the `kids` lookup returns after the time phase -/
theorem spacePiece_spec {m M1 : Mesh} (hKM : KidsOK M1) (hKT : KidsTrack .time m M1) {c : Cell}
    (hc : c ∈ m.leaves) :
    (spacePiece M1 c = [c] ∧ c ∈ M1.leaves) ∨
    ∃ n, spacePiece M1 c = kidsOf .time (fun _ => n) c ∧
      ∀ k ∈ kidsOf .time (fun _ => n) c, k ∈ M1.leaves := by
  rcases hKT c hc with hl | ⟨n, hf, k1, k2⟩
  · left
    refine ⟨?_, hl⟩
    simp only [spacePiece, hKM.find_none hl]
  · right
    refine ⟨n, ?_, ?_⟩
    · simp only [spacePiece, hf]
      rfl
    · intro k hk
      rcases mem_kidsOf.mp hk with rfl | rfl
      · exact k1
      · exact k2

/-- `dorflerAniso` never fails; the marked cells end up bisected in the marked direction -/
theorem dorflerAniso_full (m : Mesh) (h : Inv m) (hK : KidsOK m) (eta : List (Rat × Rat)) (θ : Rat)
    (hlen : eta.length = m.leaves.length) :
    ∃ m', dorflerAniso m eta θ = .ok m' ∧ Inv m' ∧ Refines m m' ∧ KidsOK m' ∧
      (∀ p ∈ anisoMarked m eta θ, p.1 ∈ m.leaves) ∧ (anisoMarked m eta θ).Nodup ∧
      (∀ c, (c, Ax.time) ∈ anisoMarked m eta θ → ∀ d ∈ m'.leaves, d.Sub c → c.lt + 1 ≤ d.lt) ∧
      (∀ c, (c, Ax.space) ∈ anisoMarked m eta θ → ∀ d ∈ m'.leaves, d.Sub c → c.lx + 1 ≤ d.lx) := by
  obtain ⟨hndT, hmT⟩ := aniso_axis_props m h eta θ hlen .time
  obtain ⟨hndS, hmS⟩ := aniso_axis_props m h eta θ hlen .space
  obtain ⟨hndM, hmM⟩ := anisoMarked_props m h eta θ hlen
  obtain ⟨r1, f1, hr1, hinv1, hQ1, hT1, hgone1, -, hk1⟩ :=
    refinePhase_spec m h (anisoTime m eta θ) .time hmT hndT
  obtain ⟨hK1, hKT1⟩ := hQ1.2.2 hK
  -- the list of the space phase
  have hpiece : ∀ c ∈ m.leaves, ∀ k ∈ spacePiece r1.1 c, k ∈ r1.1.leaves ∧ k.Sub c := by
    intro c hc k hk
    rcases spacePiece_spec hK1 hKT1 hc with ⟨e, hl⟩ | ⟨n, e, hl⟩
    · rw [e] at hk
      have : k = c := by simpa using hk
      subst this
      exact ⟨hl, Cell.Sub.refl _⟩
    · rw [e] at hk
      exact ⟨hl k hk, (kidsOf_props hk (h.tiles.proper c hc)).1⟩
  have hpnd : ∀ c ∈ m.leaves, (spacePiece r1.1 c).Nodup := by
    intro c hc
    rcases spacePiece_spec hK1 hKT1 hc with ⟨e, _⟩ | ⟨n, e, _⟩
    · rw [e]; simp
    · rw [e]; exact kidsOf_nodup _ _ _
  have hm2 : ∀ k ∈ (anisoSpace m eta θ).flatMap (spacePiece r1.1), k ∈ r1.1.leaves := by
    intro k hk
    obtain ⟨c, hc, hkc⟩ := List.mem_flatMap.mp hk
    exact (hpiece c (hmS c hc) k hkc).1
  have hnd2 : ((anisoSpace m eta θ).flatMap (spacePiece r1.1)).Nodup := by
    refine flatMap_nodup_of hndS (fun c hc => hpnd c (hmS c hc)) ?_
    intro c hc c' hc' k hk hk'
    obtain ⟨hkl, s1⟩ := hpiece c (hmS c hc) k hk
    obtain ⟨-, s2⟩ := hpiece c' (hmS c' hc') k hk'
    exact leaf_sub_unique h.tiles (hmS c hc) (hmS c' hc') (hinv1.tiles.proper k hkl) s1 s2
  obtain ⟨r2, f2, hr2, hinv2, hQ2, hT2, hgone2, -, -⟩ :=
    refinePhase_spec r1.1 hinv1 _ .space hm2 hnd2
  refine ⟨r2.1, ?_, hinv2, hQ1.1.trans hQ2.1, (hQ2.2.2 hK1).1, hmM, hndM, ?_, ?_⟩
  · rw [dorflerAniso_eq m eta θ hlen]
    simp only [bind, Except.bind, hr1, hr2]
    rfl
  · -- time-marked cells
    intro c hc d hd hsubc
    have hcT : c ∈ anisoTime m eta θ := mem_anisoTime.mpr hc
    have hpd := hinv2.tiles.proper d hd
    have hpc := h.tiles.proper c (hmT c hcT)
    have hpt := own_corner hpd
    obtain ⟨k, hkc, hkt⟩ := kidsOf_cover .time f1 c (hsubc.contains hpt)
    have hkM1 : k ∈ r1.1.leaves := hk1 c hcT k hkc
    have hle := hQ2.1.point_levels hinv1 hkM1 hd hpt hkt
    obtain ⟨-, -, -, hk⟩ := kidsOf_props hkc hpc
    simp only at hk
    omega
  · -- space-marked cells
    intro c hc d hd hsubc
    have hcS : c ∈ anisoSpace m eta θ := mem_anisoSpace.mpr hc
    have hc0 := hmS c hcS
    have hpd := hinv2.tiles.proper d hd
    have hpc := h.tiles.proper c hc0
    have hpt := own_corner hpd
    have hgone : ∀ k ∈ spacePiece r1.1 c, k ∉ r2.1.leaves :=
      fun k hk => hgone2 k (List.mem_flatMap.mpr ⟨c, hcS, hk⟩)
    rcases spacePiece_spec hK1 hKT1 hc0 with ⟨e, hl⟩ | ⟨n, e, hl⟩
    · have hcg : c ∉ r2.1.leaves := hgone c (by rw [e]; simp)
      have hlev := hQ2.2.1.gone_deeper hinv1 hl hcg hd hpt (hsubc.contains hpt)
      simp only [Cell.level] at hlev
      omega
    · obtain ⟨k, hkc, hkt⟩ := kidsOf_cover .time (fun _ => n) c (hsubc.contains hpt)
      have hkg : k ∉ r2.1.leaves := hgone k (by rw [e]; exact hkc)
      have hlev := hQ2.2.1.gone_deeper hinv1 (hl k hkc) hkg hd hpt hkt
      obtain ⟨-, -, -, hk⟩ := kidsOf_props hkc hpc
      simp only [Cell.level] at hlev hk
      omega

/-! ### the total of the anisotropic indicators -/

theorem sumQ_map_add (eta : List (Rat × Rat)) :
    sumQ (eta.map fun p => p.1 + p.2) = sumQ (eta.map (·.1)) + sumQ (eta.map (·.2)) := by
  induction eta with
  | nil => simp
  | cons a l ih =>
    simp only [List.map_cons, sumQ_cons, ih]
    ring

theorem anisoErrs_fst (m : Mesh) (eta : List (Rat × Rat)) (hlen : eta.length = m.leaves.length) :
    (anisoErrs m eta).map (·.1) = eta.map (·.1) ++ eta.map (·.2) := by
  have hz : (eta.zip m.leaves).map Prod.fst = eta := List.map_fst_zip (le_of_eq hlen)
  have h1 : (eta.zip m.leaves).map (fun p => p.1.1) = eta.map (·.1) := by
    conv_rhs => rw [← hz]
    rw [List.map_map]
    rfl
  have h2 : (eta.zip m.leaves).map (fun p => p.1.2) = eta.map (·.2) := by
    conv_rhs => rw [← hz]
    rw [List.map_map]
    rfl
  simp only [anisoErrs, List.map_append, List.map_map]
  rw [← h1, ← h2]
  rfl

theorem aniso_total (m : Mesh) (eta : List (Rat × Rat)) (hlen : eta.length = m.leaves.length) :
    sumQ (eta.map fun p => p.1 + p.2) = sumQ ((sortDesc (anisoErrs m eta)).map (·.1)) := by
  rw [sumQ_perm ((sortDesc_perm (anisoErrs m eta)).map _), anisoErrs_fst m eta hlen, sumQ_append,
    sumQ_map_add]

theorem aniso_nonneg (m : Mesh) (eta : List (Rat × Rat)) (hlen : eta.length = m.leaves.length)
    (hv : ∀ p ∈ eta, 0 ≤ p.1 ∧ 0 ≤ p.2) : ∀ p ∈ sortDesc (anisoErrs m eta), 0 ≤ p.1 := by
  intro p hp
  have hp' : p ∈ anisoErrs m eta := (sortDesc_perm _).mem_iff.mp hp
  have : p.1 ∈ (anisoErrs m eta).map (·.1) := List.mem_map.mpr ⟨p, hp', rfl⟩
  rw [anisoErrs_fst m eta hlen] at this
  rcases List.mem_append.mp this with h | h
  · obtain ⟨q, hq, e⟩ := List.mem_map.mp h
    rw [← e]; exact (hv q hq).1
  · obtain ⟨q, hq, e⟩ := List.mem_map.mp h
    rw [← e]; exact (hv q hq).2

theorem anisoErrs_ne_nil (m : Mesh) (eta : List (Rat × Rat)) (hlen : eta.length = m.leaves.length)
    (hne : eta ≠ []) : sortDesc (anisoErrs m eta) ≠ [] := by
  intro e
  have h1 := (sortDesc_perm (anisoErrs m eta)).length_eq
  rw [e] at h1
  have h2 : ((anisoErrs m eta).map (·.1)).length = 0 := by rw [List.length_map]; exact h1.symm
  rw [anisoErrs_fst m eta hlen] at h2
  cases eta with
  | nil => exact hne rfl
  | cons a l => simp at h2

/-! ### `KidsOK` is an invariant of the model -/

theorem init_kidsOK (glue : Bool) (X T : List Rat) : KidsOK (init glue X T) := by
  intro k hk
  have : (init glue X T).kids = [] := rfl
  rw [this] at hk
  simp at hk

theorem kidsOK_genHyp (ax : Ax) :
    GenHyp ax KidsOK (fun _ => True) (fun _ _ => True) :=
  ⟨fun _ => trivial, fun _ _ _ _ _ => trivial, fun _ _ _ _ _ _ _ _ _ _ _ => trivial,
    fun _ _ hinv hQ hc _ => ⟨bisect_kidsOK hinv hQ hc ax, trivial⟩⟩

theorem refineId_kidsOK {m : Mesh} (h : Inv m) (hK : KidsOK m) {id : Nat} {ax : Ax} {m' : Mesh}
    (hr : refineId m id ax = .ok m') : KidsOK m' := by
  cases hf : findLeaf m id with
  | none => simp [refineId, hf] at hr
  | some c =>
    obtain ⟨hc, hid⟩ := findLeaf_some hf
    obtain ⟨m'', h1, -, h2, -⟩ := refineId_gen (kidsOK_genHyp ax) h hK hc trivial
    rw [hid, hr] at h1
    cases h1
    exact h2

theorem refineAll_kidsOK {m : Mesh} (h : Inv m) (hK : KidsOK m) {ids : List Nat} {ax : Ax}
    {m' : Mesh} (hr : refineAll m ids ax = .ok m') : KidsOK m' :=
  (foldlM_except_inv (fun m id => refineId m id ax) (fun m => Inv m ∧ KidsOK m) (fun _ _ => True)
    (fun _ => trivial) (fun _ _ _ _ _ => trivial)
    (fun _ _ _ hI hf => ⟨⟨(refineId_inv' hI.1 hf).1, refineId_kidsOK hI.1 hI.2 hf⟩, trivial⟩)
    ids m m' ⟨h, hK⟩ hr).1.2

end Stbem.Mesh
