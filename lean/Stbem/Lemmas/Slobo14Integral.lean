import Stbem.Lemmas.SloboIntegral

/-!
# The H^{1/4} routine on polynomials: weighted reference-square form

`wI14 F = ∫₀¹ ∫₀¹ F(x, y) x^{-1/2} y^{-1/2} dy dx` for a polynomial `F`: linear in `F` (the inner integral of a polynomial
against the integrable weight `y^{-1/2}` is a polynomial in `x`), value `2/(2i+1) · 2/(2j+1)` on the monomial `xⁱ yʲ`
(`integral_rpow`).  Hence a tensor rule `g ⊗ g` whose base rule has the moments `2/(2k+1)` returns `wI14` of the real
extension of every member of `Span2` (`span2_real14`), and `semi14` on a polynomial is `wI14` of the Duffy-transformed
integrand written through the divided difference `ddR` (`semi14_eq_wI14`).
-/
namespace Stbem.Quad
open intervalIntegral

/-- the inner weighted integral `∫₀¹ F(x, y) y^{-1/2} dy` -/
noncomputable def inner14 (F : ℝ → ℝ → ℝ) (x : ℝ) : ℝ := ∫ y in (0 : ℝ)..1, F x y * y ^ (-(1 / 2) : ℝ)

/-- `∫₀¹ ∫₀¹ F(x, y) x^{-1/2} y^{-1/2} dy dx` -/
noncomputable def wI14 (F : ℝ → ℝ → ℝ) : ℝ :=
  ∫ x in (0 : ℝ)..1, ∫ y in (0 : ℝ)..1, F x y * x ^ (-(1 / 2) : ℝ) * y ^ (-(1 / 2) : ℝ)

theorem sqrtinv_integrable : IntervalIntegrable (fun y : ℝ => y ^ (-(1 / 2) : ℝ)) MeasureTheory.volume 0 1 :=
  intervalIntegrable_rpow' (by norm_num)

theorem inner14_integrable {F : ℝ → ℝ → ℝ} (hF : Poly2 F) (x : ℝ) :
    IntervalIntegrable (fun y : ℝ => F x y * y ^ (-(1 / 2) : ℝ)) MeasureTheory.volume 0 1 :=
  sqrtinv_integrable.continuousOn_mul (hF.continuous_right x).continuousOn

/-- `yʲ · y^{-1/2} = y^{j - 1/2}` for `y ≥ 0` (both sides vanish at `y = 0`) -/
theorem pow_mul_sqrtinv (j : ℕ) {y : ℝ} (hy : 0 ≤ y) : y ^ j * y ^ (-(1 / 2) : ℝ) = y ^ ((j : ℝ) - 1 / 2) := by
  have h0 : (j : ℝ) + -(1 / 2) ≠ 0 := by
    intro h
    have h2 : (2 : ℝ) * (j : ℝ) = 1 := by linarith
    have h3 : (2 * j : ℕ) = 1 := by exact_mod_cast h2
    omega
  rw [sub_eq_add_neg, Real.rpow_add' hy h0, Real.rpow_natCast]

theorem sqrtinv_moment (j : ℕ) : ∫ y in (0 : ℝ)..1, y ^ j * y ^ (-(1 / 2) : ℝ) = 2 / (2 * (j : ℝ) + 1) := by
  rw [← sqrtinv_weight_moment j]
  apply integral_congr
  intro y hy
  rw [Set.uIcc_of_le zero_le_one] at hy
  exact pow_mul_sqrtinv j hy.1

theorem inner14_mono (i j : ℕ) (x : ℝ) : inner14 (fun x y => x ^ i * y ^ j) x = x ^ i * (2 / (2 * (j : ℝ) + 1)) := by
  unfold inner14
  simp_rw [mul_assoc]
  rw [integral_const_mul, sqrtinv_moment]

theorem inner14_add {F G : ℝ → ℝ → ℝ} (hF : Poly2 F) (hG : Poly2 G) (x : ℝ) :
    inner14 (fun x y => F x y + G x y) x = inner14 F x + inner14 G x := by
  unfold inner14
  rw [← integral_add (inner14_integrable hF x) (inner14_integrable hG x)]
  congr 1; funext y; ring

theorem inner14_smul (c : ℝ) (F : ℝ → ℝ → ℝ) (x : ℝ) : inner14 (fun x y => c * F x y) x = c * inner14 F x := by
  unfold inner14
  simp_rw [mul_assoc]
  rw [integral_const_mul]

theorem inner14_continuous {F : ℝ → ℝ → ℝ} (hF : Poly2 F) : Continuous (inner14 F) := by
  induction hF with
  | mono i j =>
    have : inner14 (fun x y => x ^ i * y ^ j) = fun x => x ^ i * (2 / (2 * (j : ℝ) + 1)) := funext (inner14_mono i j)
    rw [this]; fun_prop
  | @add F G hF hG ih1 ih2 =>
    have : inner14 (fun x y => F x y + G x y) = fun x => inner14 F x + inner14 G x := funext (inner14_add hF hG)
    rw [this]; exact ih1.add ih2
  | @smul c F _ ih =>
    have : inner14 (fun x y => c * F x y) = fun x => c * inner14 F x := funext (inner14_smul c F)
    rw [this]; exact continuous_const.mul ih

theorem wI14_eq (F : ℝ → ℝ → ℝ) : wI14 F = ∫ x in (0 : ℝ)..1, inner14 F x * x ^ (-(1 / 2) : ℝ) := by
  unfold wI14 inner14
  congr 1; funext x
  rw [← integral_mul_const]
  congr 1; funext y; ring

theorem outer14_integrable {F : ℝ → ℝ → ℝ} (hF : Poly2 F) :
    IntervalIntegrable (fun x : ℝ => inner14 F x * x ^ (-(1 / 2) : ℝ)) MeasureTheory.volume 0 1 :=
  sqrtinv_integrable.continuousOn_mul (inner14_continuous hF).continuousOn

theorem wI14_add {F G : ℝ → ℝ → ℝ} (hF : Poly2 F) (hG : Poly2 G) :
    wI14 (fun x y => F x y + G x y) = wI14 F + wI14 G := by
  rw [wI14_eq, wI14_eq, wI14_eq, ← integral_add (outer14_integrable hF) (outer14_integrable hG)]
  congr 1; funext x
  rw [inner14_add hF hG]; ring

theorem wI14_smul (c : ℝ) (F : ℝ → ℝ → ℝ) : wI14 (fun x y => c * F x y) = c * wI14 F := by
  rw [wI14_eq, wI14_eq, ← integral_const_mul]
  congr 1; funext x
  rw [inner14_smul]; ring

theorem wI14_mono (i j : ℕ) :
    wI14 (fun x y => x ^ i * y ^ j) = 2 / (2 * (i : ℝ) + 1) * (2 / (2 * (j : ℝ) + 1)) := by
  rw [wI14_eq]
  simp_rw [inner14_mono]
  have : ∀ x : ℝ, x ^ i * (2 / (2 * (j : ℝ) + 1)) * x ^ (-(1 / 2) : ℝ) =
      (2 / (2 * (j : ℝ) + 1)) * (x ^ i * x ^ (-(1 / 2) : ℝ)) := fun x => by ring
  simp_rw [this]
  rw [integral_const_mul, sqrtinv_moment]; ring

/-- a tensor rule `g ⊗ g'` with the moments of the weight `x^{-1/2}` on a span = the weighted real integral -/
theorem span2_real14 {m n : Nat} {F : Rat → Rat → Rat} (hF : Span2 m n F) :
    ∃ FR : ℝ → ℝ → ℝ, Poly2 FR ∧ (∀ x y : Rat, ((F x y : Rat) : ℝ) = FR (x : ℝ) (y : ℝ)) ∧
      ∀ gx gy : Rule1, (∀ k, k ≤ m → mom gx k = 2 / (2 * (k : Rat) + 1)) →
        (∀ k, k ≤ n → mom gy k = 2 / (2 * (k : Rat) + 1)) →
        ((apply2 (product2 gx gy) F : Rat) : ℝ) = wI14 FR := by
  induction hF with
  | mono i j hi hj =>
    refine ⟨fun x y => x ^ i * y ^ j, Poly2.mono i j, by intro x y; push_cast; ring, ?_⟩
    intro gx gl hx hl
    rw [product2_monomial, hx i hi, hl j hj, wI14_mono]
    push_cast; ring
  | zero =>
    refine ⟨fun _ _ => 0, Poly2.const 0, by intro x y; simp, ?_⟩
    intro gx gl _ _
    rw [apply2_zero]
    unfold wI14; simp
  | add _ _ ih1 ih2 =>
    obtain ⟨F1, p1, c1, v1⟩ := ih1
    obtain ⟨F2, p2, c2, v2⟩ := ih2
    refine ⟨fun x y => F1 x y + F2 x y, Poly2.add p1 p2, by intro x y; push_cast; rw [c1, c2], ?_⟩
    intro gx gl hx hl
    rw [apply2_add, wI14_add p1 p2, ← v1 gx gl hx hl, ← v2 gx gl hx hl]; push_cast; ring
  | smul c _ ih =>
    obtain ⟨F1, p1, c1, v1⟩ := ih
    refine ⟨fun x y => (c : ℝ) * F1 x y, Poly2.smul _ p1, by intro x y; push_cast; rw [c1], ?_⟩
    intro gx gl hx hl
    rw [apply2_smul, wI14_smul, ← v1 gx gl hx hl]; push_cast; ring

/-- the divided difference of a polynomial of degree `≤ 0` vanishes -/
theorem ddR_short (cs : List Rat) (h : cs.length ≤ 1) (u v : ℝ) : ddR cs u v = 0 := by
  match cs, h with
  | [], _ => rfl
  | [c], _ => simp [ddR, evalPolyR]

/-- the Duffy-transformed integrand of the H^{1/4} routine on the reference square (the weights `x^{-1/2} y^{-1/2}` split
off): `2 y (h x)² D(a + h x, a + h x (1 - y))²`, a polynomial in `(x, y)` -/
noncomputable def P14 (cs : List Rat) (a h : ℝ) (x y : ℝ) : ℝ :=
  2 * (y * (h * x) ^ 2 * ddR cs (a + h * x) (a + h * (x * (1 - y))) ^ 2)

theorem P14_continuous (cs : List Rat) (a h : ℝ) : Continuous (Function.uncurry (P14 cs a h)) := by
  have hD : Continuous fun p : ℝ × ℝ => ddR cs (a + h * p.1) (a + h * (p.1 * (1 - p.2))) :=
    (poly2_ddR cs).continuous.comp
      (by fun_prop : Continuous fun p : ℝ × ℝ => (a + h * p.1, a + h * (p.1 * (1 - p.2))))
  show Continuous fun p : ℝ × ℝ => 2 * (p.2 * (h * p.1) ^ 2 * ddR cs (a + h * p.1) (a + h * (p.1 * (1 - p.2))) ^ 2)
  fun_prop

/-- **H^{1/4}, reference-square form**: for every base rule with the moments `2/(2k+1)`, `k ≤ N`, and every polynomial with
`2 deg ≤ N` the routine returns `∫₀¹∫₀¹ P14(x, y) x^{-1/2} y^{-1/2} dy dx` -/
theorem semi14_eq_wI14 (cs : List Rat) (a h : Rat) (deg : Nat) (hlen : cs.length ≤ deg + 1)
    (g : Rule1) (N : Nat) (hN : 2 * deg ≤ N) (hm : ∀ k, k ≤ N → mom g k = 2 / (2 * (k : Rat) + 1)) :
    ((semi14 g (evalPoly cs) a h : Rat) : ℝ) = wI14 (P14 cs (a : ℝ) (h : ℝ)) := by
  cases deg with
  | zero =>
    obtain ⟨k, hk⟩ := evalPoly_short cs (by simpa using hlen)
    have : evalPoly cs = fun _ => k := funext hk
    rw [this, semi14_const]
    have hP : P14 cs (a : ℝ) (h : ℝ) = fun _ _ => 0 := by
      funext x y
      unfold P14
      rw [ddR_short cs (by simpa using hlen)]; ring
    rw [hP]; unfold wI14; simp
  | succ d =>
    have hD : Span2 d d (fun x y => dd cs (a + h * x) (a + h * (x * (1 - y)))) :=
      dd_span (span_u a h) (span_v14 a h) cs d (by omega)
    have hG : Span2 (2 * (d + 1)) (2 * (d + 1) - 1)
        (fun x y => 2 * (y * (h * x * dd cs (a + h * x) (a + h * (x * (1 - y)))) ^ 2)) := by
      have h1 := ((Span2.varY 0 (le_refl 1)).mul ((Span2.smul h (Span2.varX 0 (le_refl 1))).sq)).mul hD.sq
      exact ((Span2.smul 2 h1).mono_le (by omega) (by omega)).congr (by intro x y; ring)
    have step1 := semi14_eq_apply2 g (evalPoly cs) a h
      (fun x y => h * x * dd cs (a + h * x) (a + h * (x * (1 - y))))
      (fun x y => by rw [dd_spec]; ring)
    obtain ⟨FR, pFR, cFR, vFR⟩ := span2_real14 hG
    have hFR : FR = P14 cs (a : ℝ) (h : ℝ) := by
      apply eq_of_eq_on_rat pFR.continuous (P14_continuous cs a h)
      intro x y
      rw [← cFR]
      unfold P14
      push_cast
      rw [dd_cast]
      push_cast
      ring
    rw [step1, vFR g g (fun k hk => hm k (by omega)) (fun k hk => hm k (by omega)), hFR]

end Stbem.Quad
