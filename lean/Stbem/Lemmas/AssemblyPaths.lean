import Stbem.Model.Assembly
/-! Helper lemmas for C17: the array loops, the chunking and the pool of `Stbem.Model.Assembly`. -/
namespace Stbem.Assembly
variable {E V α : Type}

theorem enumLoop_eq (upd : E → α → α) : ∀ (es : List E) (k : Nat) (c : List α),
    c.length = k + es.length →
    enumLoop upd es k c = c.take k ++ List.zipWith upd es (c.drop k) := by
  intro es
  induction es with
  | nil => intro k c h; simp at h; subst h; simp [enumLoop]
  | cons e es ih =>
    intro k c h
    simp only [List.length_cons] at h
    have hk : k < c.length := by omega
    rw [enumLoop, ih (k + 1) _ (by simp; omega)]
    rw [List.drop_eq_getElem_cons hk]
    simp only [List.zipWith_cons_cons]
    apply List.ext_getElem
    · simp; omega
    · intro i h1 h2
      grind

/-- a loop that overwrites every slot: the result is the list of the written values -/
theorem enumLoop_const (f : E → α) (es : List E) (c : List α) (h : c.length = es.length) :
    enumLoop (fun e _ => f e) es 0 c = es.map f := by
  rw [enumLoop_eq _ es 0 c (by omega)]
  simp
  apply List.ext_getElem
  · simp [h]
  · intro i h1 h2; simp

section
variable [Zero V]

theorem loopFill_eq (L : Leaf E V) (tests trials : List E) :
    loopFill L tests trials = pureMat L tests trials := by
  unfold loopFill pureMat
  rw [enumLoop_eq _ tests 0 _ (by simp [zerosMat])]
  simp
  apply List.ext_getElem
  · simp [zerosMat]
  · intro i h1 h2
    simp [zerosMat]
    exact enumLoop_const _ _ _ (by simp [zerosVec])

/-- the column a worker returns -/
theorem workerLoop_eq (L : Leaf E V) (hc : L.Causal) (tests : List E) (tr : E) :
    enumLoop (fun te old => if L.acausal tr te then old else L.bil tr te) tests 0
      (zerosVec tests.length) = tests.map (fun te => L.bil tr te) := by
  rw [enumLoop_eq _ tests 0 _ (by simp [zerosVec])]
  simp
  apply List.ext_getElem
  · simp [zerosVec]
  · intro i h1 h2
    simp [zerosVec]
    intro h; exact (hc _ _ h).symm
end
theorem colLoop_eq (g : E → E → V) (tests : List E) : ∀ (trials : List E) (k : Nat) (mat : Mat V),
    mat.length = tests.length → (∀ row ∈ mat, row.length = k + trials.length) →
    colLoop (trials.map (fun tr => tests.map (fun te => g tr te))) k mat
      = List.zipWith (fun row te => row.take k ++ trials.map (fun tr => g tr te)
          ++ row.drop (k + trials.length)) mat tests := by
  intro trials
  induction trials with
  | nil =>
    intro k mat hl hr
    simp [colLoop]
    apply List.ext_getElem
    · simp [hl]
    · intro i h1 h2; simp
  | cons tr trials ih =>
    intro k mat hl hr
    simp only [List.map_cons, colLoop]
    rw [ih (k + 1) _ (by simp [setCol, hl])]
    · apply List.ext_getElem
      · simp [setCol, hl]
      · intro i h1 h2
        have hi : i < mat.length := by simp [setCol] at h1; omega
        have hrow := hr mat[i] (List.getElem_mem hi)
        simp only [List.length_cons] at hrow
        simp [setCol]
        apply List.ext_getElem
        · simp; omega
        · intro j h3 h4
          grind
    · intro row hrow
      simp only [setCol] at hrow
      obtain ⟨i, hi, rfl⟩ := List.getElem_of_mem hrow
      simp at hi
      have hi1 : i < mat.length := by omega
      simp
      have := hr mat[i] (List.getElem_mem hi1)
      simp at this; omega

theorem chunksAux_flatten (n : Nat) (hn : 0 < n) : ∀ (fuel : Nat) (l : List α), l.length ≤ fuel →
    (chunksAux n fuel l).flatten = l := by
  intro fuel
  induction fuel with
  | zero => intro l h; simp at h; subst h; simp [chunksAux]
  | succ fuel ih =>
    intro l h
    unfold chunksAux
    split
    · rename_i he; simp at he; simp [he]
    · rename_i he
      have : l ≠ [] := by simpa using he
      have hl : 0 < l.length := List.length_pos_iff.mpr this
      simp [ih (l.drop n) (by simp; omega)]

theorem chunksOf_flatten (n : Nat) (hn : 0 < n) (l : List α) : (chunksOf n l).flatten = l :=
  chunksAux_flatten n hn _ l (Nat.le_refl _)

theorem lookup_map_self (F : Nat → β) (order : List Nat) (c : Nat) (h : c ∈ order) :
    (order.map fun c => (c, F c)).lookup c = some (F c) := by
  induction order with
  | nil => simp at h
  | cons a order ih =>
    simp only [List.map_cons, List.lookup_cons]
    by_cases hca : c = a
    · subst hca; simp
    · have : (c == a) = false := by simpa using hca
      simp only [this]
      exact ih (by simpa [hca] using h)

theorem mapM_ok {γ : Type} (f : α → Except String γ) (g : α → γ) (l : List α) (h : ∀ x ∈ l, f x = .ok (g x)) :
    l.mapM f = .ok (l.map g) := by
  induction l with
  | nil => rfl
  | cons a l ih =>
    simp only [List.mapM_cons, h a (by simp), ih (fun x hx => h x (by simp [hx]))]
    rfl

theorem poolMap_eq (f : Nat → Nat → Except String β) (val : Nat → β) (n : Nat) (s : Schedule)
    (hw : s.workers ≠ 0) (hc : s.chunk ≠ 0) (hs : s.Complete n)
    (hf : ∀ w j, j < n → f w j = .ok (val j)) :
    poolMap f n s = .ok ((List.range n).map val) := by
  unfold poolMap
  simp only [hw, hc, if_false]
  have hflat := chunksOf_flatten s.chunk (Nat.pos_of_ne_zero hc) (List.range n)
  generalize hch : chunksOf s.chunk (List.range n) = chunks at *
  have hmem : ∀ c (hcl : c < chunks.length), ∀ j ∈ chunks[c], j < n := by
    intro c hcl j hj
    have : j ∈ chunks.flatten := List.mem_flatten.mpr ⟨_, List.getElem_mem hcl, hj⟩
    rw [hflat] at this; simpa using this
  rw [mapM_ok _ (fun c => (chunks.getD c []).map val)]
  · simp only [Except.map]
    congr 1
    rw [← hflat, List.map_flatten]
    congr 1
    apply List.ext_getElem
    · simp
    · intro i h1 h2; simp at h1; simp [h1]
  · intro c hc'
    have hcl : c < chunks.length := by simpa using hc'
    have hin : c ∈ s.order := hs c (by simpa [numChunks, hch] using hcl)
    rw [lookup_map_self _ _ _ hin]
    simp only
    apply mapM_ok
    intro j hj
    apply hf
    apply hmem c hcl
    simpa [List.getD_eq_getElem?_getD, hcl] using hj

section
variable [Zero V]

theorem workerCol_eq (L : Leaf E V) (hc : L.Causal) (tests trials : List E) (j : Nat)
    (hj : j < trials.length) :
    workerCol ⟨L, tests, trials⟩ j = .ok (tests.map (fun te => L.bil trials[j] te)) := by
  simp [workerCol, hj, workerLoop_eq L hc]

theorem poolPath_eq (L : Leaf E V) (hc : L.Causal) (tests trials : List E)
    (view : Nat → Globals E V) (hview : ∀ w, view w = ⟨L, tests, trials⟩) (s : Schedule)
    (hw : s.workers ≠ 0) (hch : s.chunk ≠ 0) (hs : s.Complete trials.length) :
    poolPath view tests.length trials.length s = .ok (pureMat L tests trials) := by
  unfold poolPath
  rw [poolMap_eq _ (fun j => match trials[j]? with
      | some tr => tests.map (fun te => L.bil tr te) | none => []) _ s hw hch hs]
  · simp only [Except.map]
    congr 1
    have : (List.range trials.length).map (fun j => match trials[j]? with
        | some tr => tests.map (fun te => L.bil tr te) | none => [])
        = trials.map (fun tr => tests.map (fun te => L.bil tr te)) := by
      apply List.ext_getElem
      · simp
      · intro i h1 h2; simp at h1; simp [h1]
    rw [this, colLoop_eq (fun tr te => L.bil tr te) tests trials 0 _ (by simp [zerosMat])
      (by intro row hrow; simp [zerosMat] at hrow; simp [hrow.2, zerosVec])]
    unfold pureMat
    apply List.ext_getElem
    · simp [zerosMat]
    · intro i h1 h2; simp [zerosMat, zerosVec]
  · intro w j hj
    rw [hview w, workerCol_eq L hc tests trials j hj]
    simp [hj]

theorem poolVec_eq (lin : E → V) (elems : List E) (view : Nat → (E → V) × List E)
    (hview : ∀ w, view w = (lin, elems)) (s : Schedule)
    (hw : s.workers ≠ 0) (hch : s.chunk ≠ 0) (hs : s.Complete elems.length) :
    poolVec view elems.length s = .ok (elems.map lin) := by
  unfold poolVec
  rw [poolMap_eq _ (fun j => match elems[j]? with | some e => lin e | none => 0) _ s hw hch hs]
  · congr 1
    apply List.ext_getElem
    · simp
    · intro i h1 h2; simp at h1; simp [h1]
  · intro w j hj
    simp [hview w, workerVal, hj]

theorem serialVec_eq (lin : E → V) (elems : List E) : serialVec lin elems = elems.map lin :=
  enumLoop_const _ _ _ (by simp [zerosVec])

end

theorem codeChunk_pos (factor cpu n : Nat) : codeChunk factor cpu n ≠ 0 := by
  simp [codeChunk]

/-- a schedule the pool can follow on `n` tasks: at least one worker, chunk size at least one, every chunk
completes -/
def Schedule.Valid (s : Schedule) (n : Nat) : Prop := s.workers ≠ 0 ∧ s.chunk ≠ 0 ∧ s.Complete n

/-- `use_mp=False`, or a schedule the pool can follow -/
def How.Ok (h : How) (n : Nat) : Prop := h.useMp = true → h.sched.Valid n

/-- a permutation of the chunk numbers is a complete schedule -/
theorem complete_of_perm (s : Schedule) (n : Nat)
    (h : s.order.Perm (List.range (numChunks s.chunk n))) : s.Complete n := by
  intro c hc
  exact h.mem_iff.mpr (by simpa using hc)

end Stbem.Assembly
