import Stbem.Lemmas.QuadtreeVerts

/-!
# The balance closure of `refine` terminates without assertion failure and preserves the invariant
-/
namespace Stbem.Quadtree

/-! ### refinement below a level -/

/-- `m'` extends `m`, keeps all leaves of level `≥ L`, and every new leaf lies in an old leaf of smaller
level, which is `< L` -/
structure Below (L : Nat) (m m' : QT) : Prop where
  ext : Ext m m'
  keep : ∀ d ∈ m.leaves, L ≤ d.level → d ∈ m'.leaves
  new : ∀ d' ∈ m'.leaves, d' ∈ m.leaves ∨
    ∃ d ∈ m.leaves, d'.Sub d ∧ d.level < d'.level ∧ d.level < L

theorem Below.refl (L : Nat) (m : QT) : Below L m m :=
  ⟨Ext.refl m, fun _ hd _ => hd, fun _ hd => Or.inl hd⟩

theorem Below.trans {L : Nat} {a b c : QT} (h1 : Below L a b) (h2 : Below L b c) : Below L a c := by
  refine ⟨h1.ext.trans h2.ext, fun d hd hl => h2.keep d (h1.keep d hd hl) hl, ?_⟩
  intro d'' hd''
  rcases h2.new d'' hd'' with h | ⟨d', hd', s', l1', l2'⟩
  · exact h1.new d'' h
  · rcases h1.new d' hd' with h | ⟨d, hd, s, l1, l2⟩
    · exact Or.inr ⟨d', h, s', l1', l2'⟩
    · exact Or.inr ⟨d, hd, s'.trans s, by omega, l2⟩

theorem Below.mono {L L' : Nat} {a b : QT} (h : Below L a b) (hl : L ≤ L') : Below L' a b := by
  refine ⟨h.ext, fun d hd hl' => h.keep d hd (by omega), ?_⟩
  intro d' hd'
  rcases h.new d' hd' with h | ⟨d, hd, s, l1, l2⟩
  · exact Or.inl h
  · exact Or.inr ⟨d, hd, s, l1, by omega⟩

/-- all leaves across side `s` of `c` are at least as deep as `c` -/
def SideOK (m : QT) (c : Elem) (s : Side) : Prop := ∀ n ∈ m.leaves, Adj c s n → c.level ≤ n.level

/-- a side that is in order stays in order under refinement below the level of `c` -/
theorem Below.sideOK {L : Nat} {m m' : QT} (hb : Below L m m') (hm : QInv m) (hm' : QInv m')
    {c : Elem} (hc : c ∈ m.leaves) (hL : L ≤ c.level) {s : Side} (h : SideOK m c s) :
    SideOK m' c s := by
  intro n hn ha
  rcases hb.new n hn with h1 | ⟨d, hd, sub, l1, l2⟩
  · exact h n h1 ha
  · have hne : c ≠ d := by rintro rfl; omega
    have h1 : Adj c s d := Adj.of_sub hm.tiles hc hd hne sub (hm.size_pos hc) (hm.size_pos hd)
      (hm'.size_pos hn) ha
    have := hm.bal c hc d hd s h1
    omega

/-- an old element that is not an old leaf does not become a leaf -/
theorem Below.not_leaf {L : Nat} {m m' : QT} (hb : Below L m m') (hm : QInv m) (hm' : QInv m')
    {c : Elem} (hc : c ∈ m.elems) (hnl : c ∉ m.leaves) : c ∉ m'.leaves := by
  intro hl
  rcases hb.new c hl with h1 | ⟨d, hd, sub, l1, l2⟩
  · exact hnl h1
  · have hp := hm'.size_pos hl
    have c1 : c.Contains c.x0 c.y0 := ⟨le_refl _, by linarith, le_refl _, by linarith⟩
    have := hm.forest.leaf_level hd hc (sub.contains c1) c1
    omega

/-- specification of the result of `refine` on the leaf `c` -/
structure Res (m : QT) (c : Elem) (m' : QT) : Prop where
  inv : QInv m'
  ext : Ext m m'
  gone : c ∉ m'.leaves
  keep : ∀ d ∈ m.leaves, d ≠ c → c.level ≤ d.level → d ∈ m'.leaves
  new : ∀ d' ∈ m'.leaves, d' ∈ m.leaves ∨
    ∃ d ∈ m.leaves, d'.Sub d ∧ d.level < d'.level ∧ d.level ≤ c.level
  last : lastChildren m' = children (m'.elems.length - 4) c
  kids : ∀ l ∈ lastChildren m', l ∈ m'.leaves

theorem Res.below {m : QT} {c : Elem} {m' : QT} (h : Res m c m') : Below (c.level + 1) m m' := by
  refine ⟨h.ext, fun d hd hl => h.keep d hd (by rintro rfl; omega) (by omega), ?_⟩
  intro d' hd'
  rcases h.new d' hd' with h | ⟨d, hd, s, l1, l2⟩
  · exact Or.inl h
  · exact Or.inr ⟨d, hd, s, l1, by omega⟩

/-! ### the cases of one step of the closure -/

theorem exists_common {a b a' b' : Rat} (h1 : a < b) (h2 : a' < b') (h3 : a < b') (h4 : a' < b) :
    ∃ x, a ≤ x ∧ x < b ∧ a' ≤ x ∧ x < b' := by
  rcases le_total a a' with h | h
  · exact ⟨a', h, h4, le_refl _, h2⟩
  · exact ⟨a, le_refl _, h1, h, h3⟩

/-- (A) an element that is the same-size square across side `s`: every leaf across `s` is at least
as deep -/
theorem sideOK_of_nbr {m : QT} (h : QInv m) {c f : Elem} (hc : c ∈ m.leaves) (hf : f ∈ m.elems)
    {s : Side} (fx : f.x0 = nbrX c s) (fy : f.y0 = nbrY c s) (fs : f.size = c.size) :
    SideOK m c s := by
  intro n hn ha
  have hcm := h.forest.leaves_sub c hc
  have hp := h.size_pos hc
  have hpn := h.size_pos hn
  have hl : f.level = c.level := (h.forest.grid f hf).level_eq (h.forest.grid c hcm) fs
  rw [← hl]
  have common : ∃ x y, n.Contains x y ∧ f.Contains x y := by
    cases s <;> simp only [Adj, OvX, OvY, nbrX, nbrY, Side.dx, Side.dy] at ha fx fy
    · obtain ⟨e, o1, o2⟩ := ha
      obtain ⟨x, x1, x2, x3, x4⟩ := exists_common (a := n.x0) (b := n.x0 + n.size) (a' := f.x0)
        (b' := f.x0 + f.size) (by linarith) (by linarith) (by linarith) (by linarith)
      obtain ⟨y, y1, y2, y3, y4⟩ := exists_common (a := n.y0) (b := n.y0 + n.size) (a' := f.y0)
        (b' := f.y0 + f.size) (by linarith) (by linarith) (by linarith) (by linarith)
      exact ⟨x, y, ⟨x1, x2, y1, y2⟩, ⟨x3, x4, y3, y4⟩⟩
    · obtain ⟨e, o1, o2⟩ := ha
      obtain ⟨x, x1, x2, x3, x4⟩ := exists_common (a := n.x0) (b := n.x0 + n.size) (a' := f.x0)
        (b' := f.x0 + f.size) (by linarith) (by linarith) (by linarith) (by linarith)
      obtain ⟨y, y1, y2, y3, y4⟩ := exists_common (a := n.y0) (b := n.y0 + n.size) (a' := f.y0)
        (b' := f.y0 + f.size) (by linarith) (by linarith) (by linarith) (by linarith)
      exact ⟨x, y, ⟨x1, x2, y1, y2⟩, ⟨x3, x4, y3, y4⟩⟩
    · obtain ⟨e, o1, o2⟩ := ha
      obtain ⟨x, x1, x2, x3, x4⟩ := exists_common (a := n.x0) (b := n.x0 + n.size) (a' := f.x0)
        (b' := f.x0 + f.size) (by linarith) (by linarith) (by linarith) (by linarith)
      obtain ⟨y, y1, y2, y3, y4⟩ := exists_common (a := n.y0) (b := n.y0 + n.size) (a' := f.y0)
        (b' := f.y0 + f.size) (by linarith) (by linarith) (by linarith) (by linarith)
      exact ⟨x, y, ⟨x1, x2, y1, y2⟩, ⟨x3, x4, y3, y4⟩⟩
    · obtain ⟨e, o1, o2⟩ := ha
      obtain ⟨x, x1, x2, x3, x4⟩ := exists_common (a := n.x0) (b := n.x0 + n.size) (a' := f.x0)
        (b' := f.x0 + f.size) (by linarith) (by linarith) (by linarith) (by linarith)
      obtain ⟨y, y1, y2, y3, y4⟩ := exists_common (a := n.y0) (b := n.y0 + n.size) (a' := f.y0)
        (b' := f.y0 + f.size) (by linarith) (by linarith) (by linarith) (by linarith)
      exact ⟨x, y, ⟨x1, x2, y1, y2⟩, ⟨x3, x4, y3, y4⟩⟩
  obtain ⟨x, y, c1, c2⟩ := common
  exact h.forest.leaf_level hn hf c1 c2

/-- the eight (position, side) pairs for which the side of the child is half of a side of the parent -/
theorem onParentEdge_cases {k : Nat} {s : Side} (h : onParentEdge k s = true) :
    (k = 0 ∧ s = .bottom) ∨ (k = 0 ∧ s = .left) ∨ (k = 1 ∧ s = .bottom) ∨ (k = 1 ∧ s = .right) ∨
    (k = 2 ∧ s = .right) ∨ (k = 2 ∧ s = .top) ∨ (k = 3 ∧ s = .top) ∨ (k = 3 ∧ s = .left) := by
  unfold onParentEdge at h
  split at h <;> simp_all

theorem onParentEdge_lt {k : Nat} {s : Side} (h : onParentEdge k s = true) : k < 4 := by
  rcases onParentEdge_cases h with ⟨rfl, _⟩ | ⟨rfl, _⟩ | ⟨rfl, _⟩ | ⟨rfl, _⟩ | ⟨rfl, _⟩ | ⟨rfl, _⟩ |
    ⟨rfl, _⟩ | ⟨rfl, _⟩ <;> omega

/-- position of the sibling across a side that is interior to the parent -/
theorem sibling_pos {k : Nat} {s : Side} (hk : k < 4) (hs : onParentEdge k s = false) :
    ∃ k', k' < 4 ∧ posDx k' = posDx k + s.dx ∧ posDy k' = posDy k + s.dy := by
  rcases lt_four hk with rfl | rfl | rfl | rfl <;> cases s <;> simp [onParentEdge] at hs
  · exact ⟨1, by omega, by norm_num [posDx, Side.dx], by norm_num [posDy, Side.dy]⟩
  · exact ⟨3, by omega, by norm_num [posDx, Side.dx], by norm_num [posDy, Side.dy]⟩
  · exact ⟨2, by omega, by norm_num [posDx, Side.dx], by norm_num [posDy, Side.dy]⟩
  · exact ⟨0, by omega, by norm_num [posDx, Side.dx], by norm_num [posDy, Side.dy]⟩
  · exact ⟨1, by omega, by norm_num [posDx, Side.dx], by norm_num [posDy, Side.dy]⟩
  · exact ⟨3, by omega, by norm_num [posDx, Side.dx], by norm_num [posDy, Side.dy]⟩
  · exact ⟨0, by omega, by norm_num [posDx, Side.dx], by norm_num [posDy, Side.dy]⟩
  · exact ⟨2, by omega, by norm_num [posDx, Side.dx], by norm_num [posDy, Side.dy]⟩

/-- (B) a side of a child that is not on the boundary of the parent has a sibling across it -/
theorem sibling_exists {m : QT} (h : Forest m) {c : Elem} (hc : c ∈ m.elems) (hp : c.pos < 4)
    {s : Side} (hs : onParentEdge c.pos s = false) :
    ∃ f ∈ m.elems, f.x0 = nbrX c s ∧ f.y0 = nbrY c s ∧ f.size = c.size := by
  obtain ⟨p, hpm, hnl, hl, hsz, -, hx, hy⟩ := h.parent_sub hc hp
  obtain ⟨k', hk', ex, ey⟩ := sibling_pos hp hs
  obtain ⟨q, hq, ql, qx, qy⟩ := h.kids p hpm hnl k' hk'
  have hqs : q.size = c.size := (h.grid q hq).size_eq (h.grid c hc) (by omega)
  refine ⟨q, hq, ?_, ?_, hqs⟩
  · rw [qx, ex, hsz]; simp only [nbrX]; rw [hx]; ring
  · rw [qy, ey, hsz]; simp only [nbrY]; rw [hy]; ring

/-- the offset of a child that touches side `s` of its parent -/
theorem onParentEdge_offset {k : Nat} {s : Side} (h : onParentEdge k s = true) :
    (s.dx = 1 → posDx k = 1) ∧ (s.dx = -1 → posDx k = 0) ∧ (s.dy = 1 → posDy k = 1) ∧
    (s.dy = -1 → posDy k = 0) := by
  rcases onParentEdge_cases h with ⟨rfl, rfl⟩ | ⟨rfl, rfl⟩ | ⟨rfl, rfl⟩ | ⟨rfl, rfl⟩ | ⟨rfl, rfl⟩ |
    ⟨rfl, rfl⟩ | ⟨rfl, rfl⟩ | ⟨rfl, rfl⟩ <;> simp [posDx, posDy, Side.dx, Side.dy] <;> norm_num

theorem grid_eq_of_overlap {S : Rat} (hS : 0 < S) {i j : Int} (h1 : (i : Rat) * S < j * S + S)
    (h2 : (j : Rat) * S < i * S + S) : i = j := by
  have a : (i : Rat) < j + 1 := lt_of_mul_lt hS (by linarith)
  have b : (j : Rat) < i + 1 := lt_of_mul_lt hS (by linarith)
  have a' : i < j + 1 := by exact_mod_cast a
  have b' : j < i + 1 := by exact_mod_cast b
  omega

/-- (C) no element is the square of the parent's size across the parent's side: no coarser leaf lies
across side `s` -/
theorem sideOK_of_boundary {m : QT} (h : QInv m) {c : Elem} (hc : c ∈ m.leaves) {s : Side}
    (hpe : onParentEdge c.pos s = true)
    (hnone : findSq m (pnbrX c s) (pnbrY c s) (2 * c.size) = none) : SideOK m c s := by
  intro n hn ha
  by_contra hlt
  have hcm := h.forest.leaves_sub c hc
  have hnm := h.forest.leaves_sub n hn
  have hbal := h.bal c hc n hn s ha
  have hlev : c.level = n.level + 1 := by omega
  have hns : n.size = 2 * c.size := (h.forest.grid c hcm).size_succ (h.forest.grid n hnm) hlev
  obtain ⟨p, hpm, -, hl, hsz, hsub, hx, hy⟩ := h.forest.parent_sub hcm (onParentEdge_lt hpe)
  have hp := h.size_pos hc
  obtain ⟨o1, o2, o3, o4⟩ := onParentEdge_offset hpe
  obtain ⟨s1, s2, s3, s4⟩ := hsub
  obtain ⟨-, i, j, nx, ny⟩ := h.forest.grid n hnm
  obtain ⟨-, i', j', px, py⟩ := h.forest.grid p hpm
  have hS : (0 : Rat) < 2 * c.size := by linarith
  rw [hns] at nx ny
  rw [hsz] at px py s2 s4
  apply findSq_none hnone hnm
  refine ⟨?_, ?_, hns⟩
  · cases s <;> simp only [Adj, OvX, OvY] at ha <;> simp only [pnbrX, Side.dx]
    · -- bottom: tangential
      obtain ⟨e, a1, a2⟩ := ha
      rw [hns] at a1
      have : i = i' := grid_eq_of_overlap hS (by rw [← nx, ← px]; linarith) (by rw [← nx, ← px]; linarith)
      rw [nx, this, ← px]; linarith
    · rw [o1 rfl]; linarith [ha.1]
    · obtain ⟨e, a1, a2⟩ := ha
      rw [hns] at a1
      have : i = i' := grid_eq_of_overlap hS (by rw [← nx, ← px]; linarith) (by rw [← nx, ← px]; linarith)
      rw [nx, this, ← px]; linarith
    · rw [o2 rfl]; linarith [ha.1]
  · cases s <;> simp only [Adj, OvX, OvY] at ha <;> simp only [pnbrY, Side.dy]
    · rw [o4 rfl]; linarith [ha.1]
    · obtain ⟨e, a1, a2⟩ := ha
      rw [hns] at a1
      have : j = j' := grid_eq_of_overlap hS (by rw [← ny, ← py]; linarith) (by rw [← ny, ← py]; linarith)
      rw [ny, this, ← py]; linarith
    · rw [o3 rfl]; linarith [ha.1]
    · obtain ⟨e, a1, a2⟩ := ha
      rw [hns] at a1
      have : j = j' := grid_eq_of_overlap hS (by rw [← ny, ← py]; linarith) (by rw [← ny, ← py]; linarith)
      rw [ny, this, ← py]; linarith

/-- position of the quarter of the square across the parent's side that touches the child -/
def mirrorPos : Nat → Side → Nat
  | 0, .bottom => 3
  | 1, .bottom => 2
  | 1, .right => 0
  | 2, .right => 3
  | 2, .top => 1
  | 3, .top => 0
  | 0, .left => 1
  | 3, .left => 2
  | _, _ => 0

theorem mirrorPos_spec {k : Nat} {s : Side} (h : onParentEdge k s = true) :
    mirrorPos k s < 4 ∧ posDx (mirrorPos k s) = posDx k - s.dx ∧
      posDy (mirrorPos k s) = posDy k - s.dy := by
  rcases onParentEdge_cases h with ⟨rfl, rfl⟩ | ⟨rfl, rfl⟩ | ⟨rfl, rfl⟩ | ⟨rfl, rfl⟩ | ⟨rfl, rfl⟩ |
    ⟨rfl, rfl⟩ | ⟨rfl, rfl⟩ | ⟨rfl, rfl⟩ <;> simp [mirrorPos, posDx, posDy, Side.dx, Side.dy]

/-- (D) the refined element across the parent's side has a quarter that is the same-size square across
side `s` of `c` -/
theorem kid_across {m : QT} (h : Forest m) {c N : Elem} (_hcg : OnGrid c) (hN : N ∈ m.elems)
    (hNl : N ∉ m.leaves) {s : Side} (hpe : onParentEdge c.pos s = true) (Nx : N.x0 = pnbrX c s)
    (Ny : N.y0 = pnbrY c s) (Ns : N.size = 2 * c.size) :
    ∃ q ∈ m.elems, q.x0 = nbrX c s ∧ q.y0 = nbrY c s ∧ q.size = c.size := by
  obtain ⟨hk, ex, ey⟩ := mirrorPos_spec hpe
  obtain ⟨q, hq, ql, qx, qy⟩ := h.kids N hN hNl _ hk
  have hs := (h.grid q hq).size_succ (h.grid N hN) ql
  refine ⟨q, hq, ?_, ?_, by linarith⟩
  · rw [qx, ex, Nx, Ns]; simp only [pnbrX, nbrX]; ring
  · rw [qy, ey, Ny, Ns]; simp only [pnbrY, nbrY]; ring

/-! ### the closure loop -/

/-- one iteration of the loop over the edges in `refine` -/
def closureStep (fuel : Nat) (e : Elem) (m : QT) (s : Side) : Except String QT :=
  if (findSq m (nbrX e s) (nbrY e s) e.size).isSome then pure m
  else if !onParentEdge e.pos s then pure m
  else match findSq m (pnbrX e s) (pnbrY e s) (2 * e.size) with
    | none => pure m
    | some n =>
      if n.level + 1 ≠ e.level then .error "assert:level"
      else refine fuel m n

theorem refine_succ (fuel : Nat) (m : QT) (e : Elem) :
    refine (fuel + 1) m e = (do
      let m ← Side.all.foldlM (closureStep fuel e) m
      if !decide (e ∈ m.leaves) then .error "assert:bisected" else pure (bisect m e)) := by
  rw [refine]
  rfl

/-- induction hypothesis on the fuel -/
def IHyp (fuel : Nat) : Prop :=
  ∀ (m : QT) (n : Elem), QInv m → n ∈ m.leaves → n.level < fuel →
    ∃ m', refine fuel m n = .ok m' ∧ Res m n m'

theorem closure_step {fuel : Nat} (IH : IHyp fuel) {M : QT} {c : Elem} (s : Side) (hinv : QInv M)
    (hcm : c ∈ M.elems) (hf : c.level < fuel + 1) :
    ∃ M1, closureStep fuel c M s = .ok M1 ∧ QInv M1 ∧ Below c.level M M1 ∧
      (c ∈ M.leaves → SideOK M1 c s) := by
  have hcg := hinv.forest.grid c hcm
  unfold closureStep
  cases hS : findSq M (nbrX c s) (nbrY c s) c.size with
  | some f =>
    obtain ⟨hfm, fx, fy, fs⟩ := findSq_some hS
    exact ⟨M, by simp; rfl, hinv, Below.refl _ _, fun hc => sideOK_of_nbr hinv hc hfm fx fy fs⟩
  | none =>
    simp only [Option.isSome_none, Bool.false_eq_true, if_false]
    cases hpe : onParentEdge c.pos s with
    | false =>
      refine ⟨M, by simp; rfl, hinv, Below.refl _ _, ?_⟩
      intro hc n hn ha
      by_cases hp : c.pos < 4
      · obtain ⟨f, hfm, fx, fy, fs⟩ := sibling_exists hinv.forest hcm hp hpe
        exact absurd ⟨fx, fy, fs⟩ (findSq_none hS hfm)
      · have := hinv.forest.root c hcm (by omega)
        omega
    | true =>
      simp only [Bool.not_true, Bool.false_eq_true, if_false]
      cases hN : findSq M (pnbrX c s) (pnbrY c s) (2 * c.size) with
      | none =>
        exact ⟨M, rfl, hinv, Below.refl _ _, fun hc => sideOK_of_boundary hinv hc hpe hN⟩
      | some N =>
        obtain ⟨hNm, Nx, Ny, Ns⟩ := findSq_some hN
        have hlev : c.level = N.level + 1 := hcg.level_succ (hinv.forest.grid N hNm) Ns
        have hNl : N ∈ M.leaves := by
          by_contra hnl
          obtain ⟨q, hq, qx, qy, qs⟩ := kid_across hinv.forest hcg hNm hnl hpe Nx Ny Ns
          exact findSq_none hS hq ⟨qx, qy, qs⟩
        obtain ⟨M1, hM1, res⟩ := IH M N hinv hNl (by omega)
        refine ⟨M1, ?_, res.inv, res.below.mono (by omega), ?_⟩
        · simp only [hlev, ne_eq, not_true_eq_false, if_false]
          exact hM1
        · intro hc
          have hc1 : c ∈ M1.leaves := res.keep c hc (by rintro rfl; omega) (by omega)
          obtain ⟨q, hq, qx, qy, qs⟩ := kid_across res.inv.forest hcg (res.ext.mem hNm) res.gone hpe
            Nx Ny Ns
          exact sideOK_of_nbr res.inv hc1 hq qx qy qs

theorem closure_loop {fuel : Nat} (IH : IHyp fuel) {c : Elem} (hf : c.level < fuel + 1)
    (sides : List Side) :
    ∀ (done : List Side) (M : QT), QInv M → c ∈ M.elems →
      (c ∈ M.leaves → ∀ s ∈ done, SideOK M c s) →
      ∃ M', sides.foldlM (closureStep fuel c) M = .ok M' ∧ QInv M' ∧ Below c.level M M' ∧
        (c ∈ M.leaves → c ∈ M'.leaves ∧ ∀ s ∈ done ++ sides, SideOK M' c s) := by
  induction sides with
  | nil =>
    intro done M hinv _ hdone
    exact ⟨M, rfl, hinv, Below.refl _ _, fun hc => ⟨hc, by simpa using hdone hc⟩⟩
  | cons s sides ih =>
    intro done M hinv hcm hdone
    rw [List.foldlM_cons]
    obtain ⟨M1, hM1, hinv1, hbel1, hok1⟩ := closure_step IH s hinv hcm hf
    obtain ⟨M', hM', hinv', hbel', hfin⟩ := ih (done ++ [s]) M1 hinv1 (hbel1.ext.mem hcm) (by
      intro hc1 s' hs'
      by_cases hc : c ∈ M.leaves
      · rcases List.mem_append.mp hs' with h | h
        · exact hbel1.sideOK hinv hinv1 hc (le_refl _) (hdone hc s' h)
        · simp only [List.mem_cons, List.not_mem_nil, or_false] at h
          subst h
          exact hok1 hc
      · exact absurd hc1 (hbel1.not_leaf hinv hinv1 hcm hc))
    refine ⟨M', ?_, hinv', hbel1.trans hbel', ?_⟩
    · rw [hM1]; exact hM'
    · intro hc
      have hc1 : c ∈ M1.leaves := hbel1.keep c hc (le_refl _)
      obtain ⟨h1, h2⟩ := hfin hc1
      exact ⟨h1, by simpa using h2⟩

/-! ### the result of `refine` -/

theorem bisect_gone {m : QT} (h : QInv m) {c : Elem} (hc : c ∈ m.leaves) :
    c ∉ (bisect m c).leaves := by
  intro hl
  rcases mem_bisect_leaves.mp hl with ⟨_, h2⟩ | ⟨k, _, e⟩
  · exact h2 rfl
  · exact child_not_old h.ids c k (e ▸ h.forest.leaves_sub c hc)

theorem lastChildren_bisect (m : QT) (c : Elem) :
    lastChildren (bisect m c) = children m.elems.length c := by
  unfold lastChildren
  rw [bisect_length, Nat.add_sub_cancel, bisect_elems]
  exact List.drop_left

theorem bisect_res {m0 M : QT} {c : Elem} (hM : QInv M) (hc0 : c ∈ m0.leaves) (hc : c ∈ M.leaves)
    (hbel : Below c.level m0 M) (hn : ∀ s, SideOK M c s) : Res m0 c (bisect M c) := by
  have hp := hM.size_pos hc
  refine ⟨bisect_inv' hM hc hn, hbel.ext.trans (bisect_ext hM hc), bisect_gone hM hc, ?_, ?_, ?_, ?_⟩
  · intro d hd hne hl
    exact mem_bisect_leaves.mpr (Or.inl ⟨hbel.keep d hd hl, hne⟩)
  · intro d' hd'
    rcases mem_bisect_leaves.mp hd' with ⟨h1, _⟩ | ⟨k, hk, rfl⟩
    · rcases hbel.new d' h1 with h | ⟨d, hd, s, l1, l2⟩
      · exact Or.inl h
      · exact Or.inr ⟨d, hd, s, l1, by omega⟩
    · exact Or.inr ⟨c, hc0, child_sub _ c k hp, Nat.lt_succ_self _, le_refl _⟩
  · rw [lastChildren_bisect, bisect_length, Nat.add_sub_cancel]
  · intro l hl
    rw [lastChildren_bisect] at hl
    obtain ⟨k, hk, rfl⟩ := mem_children.mp hl
    exact mem_bisect_leaves.mpr (Or.inr ⟨k, hk, rfl⟩)

theorem refine_res (fuel : Nat) : IHyp fuel := by
  induction fuel with
  | zero => intro m n _ _ h; omega
  | succ fuel IH =>
    intro m c hinv hc hf
    rw [refine_succ]
    obtain ⟨M, hM, hinvM, hbel, hfin⟩ :=
      closure_loop IH hf Side.all [] m hinv (hinv.forest.leaves_sub c hc) (by simp)
    obtain ⟨hcM, hok⟩ := hfin hc
    refine ⟨bisect M c, ?_, bisect_res hinvM hc hcM hbel (fun s => hok s (by simpa using mem_side_all s))⟩
    simp [hM, hcM, bind, Except.bind, pure, Except.pure]

/-- an element that is not a leaf: the closure runs (without failure), then the assertion of
`bisect_edge` fires -/
theorem refine_stale (fuel : Nat) {m : QT} {c : Elem} (hinv : QInv m) (hcm : c ∈ m.elems)
    (hnl : c ∉ m.leaves) (hf : c.level < fuel) : refine fuel m c = .error "assert:bisected" := by
  obtain ⟨fuel, rfl⟩ : ∃ k, fuel = k + 1 := ⟨fuel - 1, by omega⟩
  rw [refine_succ]
  obtain ⟨M, hM, hinvM, hbel, -⟩ := closure_loop (refine_res fuel) hf Side.all [] m hinv hcm (by simp)
  have := hbel.not_leaf hinv hinvM hcm hnl
  simp [hM, this, bind, Except.bind]

/-! ### look-up by index -/

theorem findElem_of_mem {m : QT} (h : IdsOK m) {c : Elem} (hc : c ∈ m.elems) :
    findElem m c.id = some c := by
  have hnd : (m.elems.map (·.id)).Nodup := by rw [h.ids]; exact List.nodup_range
  unfold findElem
  rw [List.find?_eq_some_iff_append]
  obtain ⟨l1, l2, hl⟩ := List.append_of_mem hc
  refine ⟨by simp, l1, l2, hl, ?_⟩
  intro a ha
  have ham : a ∈ m.elems := by rw [hl]; simp [ha]
  simp only [Bool.not_eq_true', beq_eq_false_iff_ne, ne_eq]
  intro hid
  have hac : a = c := List.inj_on_of_nodup_map hnd ham hc hid
  have hnd' := List.Nodup.of_map _ hnd
  rw [hl] at hnd'
  exact (List.nodup_append.mp hnd').2.2 a ha c (by simp) hac

theorem refineId_res {m : QT} (h : QInv m) {c : Elem} (hc : c ∈ m.leaves) :
    ∃ m', refineId m c.id = .ok m' ∧ Res m c m' := by
  unfold refineId
  rw [findElem_of_mem h.ids (h.forest.leaves_sub c hc)]
  exact refine_res (c.level + 1) m c h hc (Nat.lt_succ_self _)

end Stbem.Quadtree
