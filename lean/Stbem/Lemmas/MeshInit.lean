import Stbem.Lemmas.MeshGeom
import Mathlib.Data.List.Range

/-!
# The initial tensor-product mesh satisfies the invariant
-/
namespace Stbem.Mesh

/-- strictly increasing -/
def SInc (l : List Rat) : Prop := l.Pairwise (· < ·)

theorem pairwise_mem {α} {R : α → α → Prop} (hs : ∀ a b, R a b → R b a) {l : List α}
    (h : l.Pairwise R) {a b : α} (ha : a ∈ l) (hb : b ∈ l) : a = b ∨ R a b := by
  induction l with
  | nil => simp at ha
  | cons x l ih =>
    rw [List.pairwise_cons] at h
    rcases List.mem_cons.mp ha with rfl | ha' <;> rcases List.mem_cons.mp hb with rfl | hb'
    · exact Or.inl rfl
    · exact Or.inr (h.1 b hb')
    · exact Or.inr (hs _ _ (h.1 a ha'))
    · exact ih h.2 ha' hb'

/-! ### consecutive pairs of a strictly increasing list -/

theorem pairs_cons2 {α} (a b : α) (l : List α) : pairs (a :: b :: l) = (a, b) :: pairs (b :: l) := rfl

theorem pairs_mem {X : List Rat} (hX : SInc X) :
    ∀ p ∈ pairs X, p.1 < p.2 ∧ p.1 ∈ X ∧ p.2 ∈ X := by
  induction X with
  | nil => intro p hp; simp [pairs] at hp
  | cons a l ih =>
    cases l with
    | nil => intro p hp; simp [pairs] at hp
    | cons b l =>
      intro p hp
      rw [pairs_cons2] at hp
      have hX' := List.pairwise_cons.mp hX
      rcases List.mem_cons.mp hp with rfl | hp
      · exact ⟨hX'.1 b (by simp), by simp, by simp⟩
      · obtain ⟨h1, h2, h3⟩ := ih hX'.2 p hp
        exact ⟨h1, List.mem_cons_of_mem _ h2, List.mem_cons_of_mem _ h3⟩

theorem pairs_sep {X : List Rat} (hX : SInc X) :
    (pairs X).Pairwise (fun p q => p.2 ≤ q.1) := by
  induction X with
  | nil => simp [pairs]
  | cons a l ih =>
    cases l with
    | nil => simp [pairs]
    | cons b l =>
      rw [pairs_cons2, List.pairwise_cons]
      have hX' := List.pairwise_cons.mp hX
      refine ⟨?_, ih hX'.2⟩
      intro q hq
      have hq1 := (pairs_mem hX'.2 q hq).2.1
      have hb := List.pairwise_cons.mp hX'.2
      rcases List.mem_cons.mp hq1 with h | h
      · exact le_of_eq h.symm
      · exact le_of_lt (hb.1 _ h)

theorem strictInc_bounds {X : List Rat} (hX : SInc X) :
    ∀ a ∈ X, X.headD 0 ≤ a ∧ a ≤ X.getLastD 0 := by
  induction X with
  | nil => intro a ha; simp at ha
  | cons b l ih =>
    intro a ha
    have hX' := List.pairwise_cons.mp hX
    rw [List.headD_cons, List.getLastD_cons]
    cases l with
    | nil =>
      simp only [List.mem_cons, List.not_mem_nil, or_false] at ha
      subst ha; exact ⟨le_refl _, le_refl _⟩
    | cons c l =>
      have ih' := ih hX'.2
      rw [List.headD_cons] at ih'
      have hlast : (c :: l).getLastD b = (c :: l).getLastD 0 := by
        rw [List.getLastD_cons, List.getLastD_cons]
      rw [hlast]
      rcases List.mem_cons.mp ha with rfl | ha'
      · have := ih' c (by simp)
        exact ⟨le_refl _, le_trans (le_of_lt (hX'.1 c (by simp))) this.2⟩
      · have := ih' a ha'
        exact ⟨le_of_lt (hX'.1 a ha'), this.2⟩

theorem pairs_cover {X : List Rat} :
    ∀ x, X.headD 0 ≤ x → x < X.getLastD 0 → ∃ p ∈ pairs X, p.1 ≤ x ∧ x < p.2 := by
  induction X with
  | nil => intro x h1 h2; simp at h1 h2; linarith
  | cons a l ih =>
    cases l with
    | nil => intro x h1 h2; simp at h1 h2; linarith
    | cons b l =>
      intro x h1 h2
      rw [List.headD_cons] at h1
      rw [pairs_cons2]
      rcases lt_or_ge x b with h | h
      · exact ⟨(a, b), by simp, h1, h⟩
      · have hlast : (a :: b :: l).getLastD 0 = (b :: l).getLastD 0 := by
          rw [List.getLastD_cons, List.getLastD_cons, List.getLastD_cons]
        rw [hlast] at h2
        obtain ⟨p, hp, hp'⟩ := ih x (by rw [List.headD_cons]; exact h) h2
        exact ⟨p, List.mem_cons_of_mem _ hp, hp'⟩

theorem pairs_ne_nil {X : List Rat} (h : 2 ≤ X.length) : ∃ p, p ∈ pairs X := by
  match X, h with
  | a :: b :: l, _ => exact ⟨(a, b), by simp [pairs]⟩

/-! ### numbering -/

def mkCell (q : (Rat × Rat) × (Rat × Rat)) (j : Nat) : Cell :=
  ⟨q.1.1, q.1.2, q.2.1, q.2.2, 0, 0, j, none, 0⟩

theorem number_cons (i : Nat) (q : (Rat × Rat) × (Rat × Rat)) (l : List ((Rat × Rat) × (Rat × Rat))) :
    init.number i (q :: l) = mkCell q i :: init.number (i + 1) l := by
  obtain ⟨tp, xp⟩ := q
  rfl

theorem number_mem {cells : List ((Rat × Rat) × (Rat × Rat))} :
    ∀ {i : Nat} {c : Cell}, c ∈ init.number i cells →
      ∃ q ∈ cells, ∃ j, c = mkCell q j ∧ i ≤ j ∧ j < i + cells.length := by
  induction cells with
  | nil => intro i c h; simp [init.number] at h
  | cons q l ih =>
    intro i c h
    rw [number_cons] at h
    rcases List.mem_cons.mp h with rfl | h
    · exact ⟨q, by simp, i, rfl, le_refl _, by simp⟩
    · obtain ⟨q', hq', j, hj, h1, h2⟩ := ih h
      exact ⟨q', List.mem_cons_of_mem _ hq', j, hj, by omega, by simp only [List.length_cons]; omega⟩

theorem mem_number {cells : List ((Rat × Rat) × (Rat × Rat))} :
    ∀ {i : Nat} {q}, q ∈ cells → ∃ j, mkCell q j ∈ init.number i cells := by
  induction cells with
  | nil => intro i q h; simp at h
  | cons q' l ih =>
    intro i q h
    rw [number_cons]
    rcases List.mem_cons.mp h with rfl | h
    · exact ⟨i, by simp⟩
    · obtain ⟨j, hj⟩ := ih (i := i + 1) h
      exact ⟨j, List.mem_cons_of_mem _ hj⟩

theorem number_ids (cells : List ((Rat × Rat) × (Rat × Rat))) :
    ∀ i, (init.number i cells).map (·.id) = List.range' i cells.length := by
  induction cells with
  | nil => intro i; simp [init.number]
  | cons q l ih =>
    intro i
    rw [number_cons, List.map_cons, ih (i + 1)]
    simp [mkCell, List.range'_succ]

/-- separated rectangles -/
def SepQ (q q' : (Rat × Rat) × (Rat × Rat)) : Prop :=
  q.1.2 ≤ q'.1.1 ∨ q'.1.2 ≤ q.1.1 ∨ q.2.2 ≤ q'.2.1 ∨ q'.2.2 ≤ q.2.1

def SepC (c d : Cell) : Prop :=
  c.t1 ≤ d.t0 ∨ d.t1 ≤ c.t0 ∨ c.x1 ≤ d.x0 ∨ d.x1 ≤ c.x0

theorem SepC.symm {c d : Cell} (h : SepC c d) : SepC d c := by
  unfold SepC at *; tauto

theorem number_pairwise {cells : List ((Rat × Rat) × (Rat × Rat))} (h : cells.Pairwise SepQ) :
    ∀ i, (init.number i cells).Pairwise SepC := by
  induction cells with
  | nil => intro i; simp [init.number]
  | cons q l ih =>
    intro i
    rw [number_cons, List.pairwise_cons]
    have h' := List.pairwise_cons.mp h
    refine ⟨?_, ih h'.2 (i + 1)⟩
    intro c hc
    obtain ⟨q', hq', j, rfl, _, _⟩ := number_mem hc
    exact h'.1 q' hq'

theorem cells_pairwise {X T : List Rat} (hX : SInc X) (hT : SInc T) :
    ((pairs T).flatMap fun tp => (pairs X).map fun xp => (tp, xp)).Pairwise SepQ := by
  rw [List.pairwise_flatMap]
  constructor
  · intro tp _
    rw [List.pairwise_map]
    exact (pairs_sep hX).imp (fun {a b} h => Or.inr (Or.inr (Or.inl h)))
  · refine (pairs_sep hT).imp ?_
    intro a b h x hx y hy
    simp only [List.mem_map] at hx hy
    obtain ⟨_, _, rfl⟩ := hx
    obtain ⟨_, _, rfl⟩ := hy
    exact Or.inl h

theorem init_inv' (glue : Bool) (X T : List Rat) (hX : SInc X) (hT : SInc T)
    (hX2 : 2 ≤ X.length) (hT2 : 2 ≤ T.length) : Inv (init glue X T) := by
  set cells := (pairs T).flatMap fun tp => (pairs X).map fun xp => (tp, xp) with hcells
  have hleaves : (init glue X T).leaves = init.number 0 cells := rfl
  have hn : (init glue X T).nElems = cells.length := rfl
  have hxmin : (init glue X T).xmin = X.headD 0 := rfl
  have hxmax : (init glue X T).xmax = X.getLastD 0 := rfl
  have htmin : (init glue X T).tmin = T.headD 0 := rfl
  have htmax : (init glue X T).tmax = T.getLastD 0 := rfl
  have hcell : ∀ q ∈ cells, q.1 ∈ pairs T ∧ q.2 ∈ pairs X := by
    intro q hq
    simp only [hcells, List.mem_flatMap, List.mem_map] at hq
    obtain ⟨tp, htp, xp, hxp, rfl⟩ := hq
    exact ⟨htp, hxp⟩
  have hbX := strictInc_bounds hX
  have hbT := strictInc_bounds hT
  refine ⟨?_, ⟨?_, ?_, ?_, ?_⟩, ?_, ?_, ?_⟩
  · rw [hxmin, hxmax, htmin, htmax]
    obtain ⟨p, hp⟩ := pairs_ne_nil hX2
    obtain ⟨q, hq⟩ := pairs_ne_nil hT2
    obtain ⟨p1, p2, p3⟩ := pairs_mem hX p hp
    obtain ⟨q1, q2, q3⟩ := pairs_mem hT q hq
    exact ⟨by linarith [(hbT _ q2).1, (hbT _ q3).2], by linarith [(hbX _ p2).1, (hbX _ p3).2]⟩
  · intro c hc
    rw [hleaves] at hc
    obtain ⟨q, hq, j, rfl, _, _⟩ := number_mem hc
    obtain ⟨h1, h2⟩ := hcell q hq
    exact ⟨(pairs_mem hT _ h1).1, (pairs_mem hX _ h2).1⟩
  · intro c hc
    rw [hleaves] at hc
    obtain ⟨q, hq, j, rfl, _, _⟩ := number_mem hc
    obtain ⟨h1, h2⟩ := hcell q hq
    obtain ⟨_, a2, a3⟩ := pairs_mem hT _ h1
    obtain ⟨_, b2, b3⟩ := pairs_mem hX _ h2
    rw [hxmin, hxmax, htmin, htmax]
    exact ⟨(hbT _ a2).1, (hbT _ a3).2, (hbX _ b2).1, (hbX _ b3).2⟩
  · intro t x hd
    obtain ⟨d1, d2, d3, d4⟩ := hd
    rw [htmin] at d1; rw [htmax] at d2; rw [hxmin] at d3; rw [hxmax] at d4
    obtain ⟨tp, htp, ht1, ht2⟩ := pairs_cover t d1 d2
    obtain ⟨xp, hxp, hx1, hx2⟩ := pairs_cover x d3 d4
    have hq : (tp, xp) ∈ cells := by
      simp only [hcells, List.mem_flatMap, List.mem_map]
      exact ⟨tp, htp, xp, hxp, rfl⟩
    obtain ⟨j, hj⟩ := mem_number (i := 0) hq
    exact ⟨_, hleaves ▸ hj, ht1, ht2, hx1, hx2⟩
  · intro c hc d hd t x hct hdt
    rw [hleaves] at hc hd
    have hp := number_pairwise (cells_pairwise hX hT) 0
    rcases pairwise_mem (fun _ _ h => SepC.symm h) hp hc hd with h | h
    · exact h
    · exfalso
      obtain ⟨c1, c2, c3, c4⟩ := hct
      obtain ⟨d1, d2, d3, d4⟩ := hdt
      rcases h with h | h | h | h <;> linarith
  · intro c hc n hn _ _
    rw [hleaves] at hc hn
    obtain ⟨q, _, j, rfl, _, _⟩ := number_mem hc
    obtain ⟨q', _, j', rfl, _, _⟩ := number_mem hn
    simp [mkCell]
  · rw [hleaves, number_ids]
    exact List.nodup_range' 1
  · intro c hc
    rw [hleaves] at hc
    obtain ⟨q, _, j, rfl, h1, h2⟩ := number_mem hc
    rw [hn]
    simp only [mkCell]; omega

end Stbem.Mesh
