import Stbem.Lemmas.QuadtreeRefine

/-!
# The scan of `refine_msh_bdr`: which (candidate, edge) pairs contain the segment
-/
namespace Stbem.Quadtree

/-- `true`: the side is horizontal (the y coordinate is constant along it) -/
def Side.axis : Side → Bool
  | .bottom => true
  | .top => true
  | _ => false

/-- the constant coordinate of side `s` -/
def lineC (e : Elem) : Side → Rat
  | .bottom => e.y0
  | .top => e.y0 + e.size
  | .left => e.x0
  | .right => e.x0 + e.size

/-- the range of the running coordinate along side `s` -/
def lo (e : Elem) : Side → Rat
  | .bottom => e.x0
  | .top => e.x0
  | _ => e.y0

def hi (e : Elem) (s : Side) : Rat := lo e s + e.size

/-- the point with constant coordinate `X` and running coordinate `t` -/
def pt (axis : Bool) (X t : Rat) : Rat × Rat := if axis then (t, X) else (X, t)

theorem coord_pt_same (a : Bool) (X t : Rat) : coord (pt a X t) a = X := by
  cases a <;> simp [coord, pt]

theorem coord_pt_other (a : Bool) (X t : Rat) : coord (pt a X t) (!a) = t := by
  cases a <;> simp [coord, pt]

theorem coord_pt_other' (a : Bool) (X t : Rat) : coord (pt (!a) X t) a = t := by
  cases a <;> simp [coord, pt]

def edgeLo (e : Elem) (s : Side) : Rat × Rat := pt s.axis (lineC e s) (lo e s)
def edgeHi (e : Elem) (s : Side) : Rat × Rat := pt s.axis (lineC e s) (hi e s)

/-- the end points of an edge in lexicographic order -/
theorem sorted_edge {e : Elem} (hp : 0 < e.size) (s : Side) :
    (if lexLe (edgePts e s).1 (edgePts e s).2 then (edgePts e s).1 else (edgePts e s).2) = edgeLo e s ∧
    (if lexLe (edgePts e s).1 (edgePts e s).2 then (edgePts e s).2 else (edgePts e s).1) = edgeHi e s := by
  have h1 : e.x0 < e.x0 + e.size := by linarith
  have h2 : ¬ (e.x0 + e.size < e.x0) := by linarith
  have h3 : e.x0 + e.size ≠ e.x0 := by intro h; linarith
  have h4 : e.y0 ≤ e.y0 + e.size := by linarith
  have h5 : ¬ (e.y0 + e.size ≤ e.y0) := by linarith
  cases s <;>
    simp [edgePts, lexLe, edgeLo, edgeHi, pt, Side.axis, lineC, lo, hi, h1, h2, h3, h4, h5]

/-- the segment with constant coordinate `X` and running range `[t0, t1]` lies on side `s` of `e` -/
def Hit (axis : Bool) (X t0 t1 : Rat) (e : Elem) (s : Side) : Prop :=
  s.axis = axis ∧ lineC e s = X ∧ lo e s ≤ t0 ∧ t0 ≤ t1 ∧ t1 ≤ hi e s

theorem scanEdge_ret {v0 v1 : Rat × Rat} {axis : Bool} {e : Elem} {st : Scan} (s : Side)
    (h : st.ret.isSome = true) : scanEdge v0 v1 axis e st s = st := by
  unfold scanEdge; simp [h]

theorem scanEdge_none {v0 v1 : Rat × Rat} {axis : Bool} {e : Elem} {st : Scan} (hp : 0 < e.size)
    (s : Side) (hst : st.ret = none) :
    scanEdge v0 v1 axis e st s =
      if ¬ (coord v0 axis = coord (edgeLo e s) axis ∧
          coord (edgeLo e s) axis = coord (edgeHi e s) axis) then st
      else if coord (edgeLo e s) (!axis) ≤ coord v0 (!axis) ∧ coord v0 (!axis) ≤ coord v1 (!axis) ∧
          coord v1 (!axis) ≤ coord (edgeHi e s) (!axis) then
        (if coord (edgeLo e s) (!axis) = coord v0 (!axis) ∧
            coord v1 (!axis) = coord (edgeHi e s) (!axis) then { st with ret := some e }
          else { st with parent := some e })
      else st := by
  unfold scanEdge
  simp only [hst, Option.isSome_none, Bool.false_eq_true, if_false]
  rw [(sorted_edge hp s).1, (sorted_edge hp s).2]

theorem scanEdge_nohit {axis : Bool} {X t0 t1 : Rat} {e : Elem} {st : Scan} (hp : 0 < e.size)
    (s : Side) (h : ¬ Hit axis X t0 t1 e s) :
    scanEdge (pt axis X t0) (pt axis X t1) axis e st s = st := by
  cases hr : st.ret with
  | some r => exact scanEdge_ret s (by simp [hr])
  | none =>
    rw [scanEdge_none hp s hr]
    by_cases ha : s.axis = axis
    · subst ha
      simp only [edgeLo, edgeHi, coord_pt_same, coord_pt_other, and_true]
      by_cases hx : X = lineC e s
      · simp only [hx, not_true_eq_false, if_false]
        rw [if_neg]
        rintro ⟨c1, c2, c3⟩
        exact h ⟨rfl, hx.symm, c1, c2, c3⟩
      · simp [hx]
    · have : axis = !s.axis := by cases axis <;> cases hs : s.axis <;> simp_all
      subst this
      simp only [edgeLo, edgeHi, coord_pt_other, hi]
      rw [if_pos]
      rintro ⟨_, c2⟩
      linarith

theorem scanEdge_hit {axis : Bool} {X t0 t1 : Rat} {e : Elem} {st : Scan} (hp : 0 < e.size)
    (s : Side) (hr : st.ret = none) (h : Hit axis X t0 t1 e s) :
    scanEdge (pt axis X t0) (pt axis X t1) axis e st s =
      if lo e s = t0 ∧ t1 = hi e s then { st with ret := some e } else { st with parent := some e } := by
  obtain ⟨ha, hx, c1, c2, c3⟩ := h
  rw [scanEdge_none hp s hr]
  subst ha
  simp only [edgeLo, edgeHi, coord_pt_same, coord_pt_other, and_true, hx, not_true_eq_false, if_false]
  rw [if_pos ⟨c1, c2, c3⟩]

/-! ### the scan when exactly one (candidate, side) pair is hit -/

section Unique
variable {axis : Bool} {X t0 t1 : Rat} {c : Elem} {s : Side}

/-- the state after the hit pair has been seen -/
def target (t0 t1 : Rat) (c : Elem) (s : Side) : Scan :=
  if lo c s = t0 ∧ t1 = hi c s then { ret := some c } else { parent := some c }

theorem step_target (hp : 0 < c.size) (hit : Hit axis X t0 t1 c s)
    (hun : ∀ s', Hit axis X t0 t1 c s' → s' = s) (s' : Side) :
    scanEdge (pt axis X t0) (pt axis X t1) axis c (target t0 t1 c s) s' = target t0 t1 c s := by
  by_cases he : lo c s = t0 ∧ t1 = hi c s
  · exact scanEdge_ret s' (by simp [target, he])
  · by_cases hs : s' = s
    · subst hs
      rw [scanEdge_hit hp s' (by simp [target, he]) hit]
      simp [target, he]
    · exact scanEdge_nohit hp s' (fun h => hs (hun s' h))

theorem fold_sides_target (hp : 0 < c.size) (hit : Hit axis X t0 t1 c s)
    (hun : ∀ s', Hit axis X t0 t1 c s' → s' = s) (l : List Side) :
    l.foldl (scanEdge (pt axis X t0) (pt axis X t1) axis c) (target t0 t1 c s) = target t0 t1 c s := by
  induction l with
  | nil => rfl
  | cons s' l ih => rw [List.foldl_cons, step_target hp hit hun, ih]

theorem fold_sides_empty (hp : 0 < c.size) (hit : Hit axis X t0 t1 c s)
    (hun : ∀ s', Hit axis X t0 t1 c s' → s' = s) (l : List Side) (hs : s ∈ l) :
    l.foldl (scanEdge (pt axis X t0) (pt axis X t1) axis c) {} = target t0 t1 c s := by
  induction l with
  | nil => simp at hs
  | cons s' l ih =>
    rw [List.foldl_cons]
    by_cases h : s' = s
    · subst h
      rw [scanEdge_hit hp s' rfl hit]
      have : (if lo c s' = t0 ∧ t1 = hi c s' then ({ ({} : Scan) with ret := some c })
          else { ({} : Scan) with parent := some c }) = target t0 t1 c s' := rfl
      rw [this]
      exact fold_sides_target hp hit hun l
    · rw [scanEdge_nohit hp s' (fun hh => h (hun s' hh))]
      exact ih (by
        rcases List.mem_cons.mp hs with e | e
        · exact absurd e.symm h
        · exact e)

theorem fold_sides_other {e : Elem} (hp : 0 < e.size) (hno : ∀ s', ¬ Hit axis X t0 t1 e s')
    (st : Scan) (l : List Side) :
    l.foldl (scanEdge (pt axis X t0) (pt axis X t1) axis e) st = st := by
  induction l with
  | nil => rfl
  | cons s' l ih => rw [List.foldl_cons, scanEdge_nohit hp s' (hno s'), ih]

/-- the result of the scan when `(c, s)` is the only hit among the candidates -/
theorem scan_unique (cands : List Elem) (hpos : ∀ e ∈ cands, 0 < e.size) (hc : c ∈ cands)
    (hit : Hit axis X t0 t1 c s)
    (hun : ∀ e ∈ cands, ∀ s', Hit axis X t0 t1 e s' → e = c ∧ s' = s) :
    scan (pt axis X t0) (pt axis X t1) axis cands = target t0 t1 c s := by
  unfold scan
  have hpc := hpos c hc
  have hunc : ∀ s', Hit axis X t0 t1 c s' → s' = s := fun s' h => (hun c hc s' h).2
  -- from the target state the fold stays there; from the empty state it reaches the target at `c`
  have stay : ∀ l : List Elem, (∀ e ∈ l, e ∈ cands) →
      l.foldl (fun st e => Side.all.foldl (scanEdge (pt axis X t0) (pt axis X t1) axis e) st)
        (target t0 t1 c s) = target t0 t1 c s := by
    intro l
    induction l with
    | nil => intro _; rfl
    | cons e l ih =>
      intro hl
      rw [List.foldl_cons]
      have hem : e ∈ cands := hl e (by simp)
      by_cases hec : e = c
      · subst hec
        rw [fold_sides_target hpc hit hunc]
        exact ih (fun e' he' => hl e' (by simp [he']))
      · rw [fold_sides_other (hpos e hem) (fun s' h => hec (hun e hem s' h).1)]
        exact ih (fun e' he' => hl e' (by simp [he']))
  have go : ∀ l : List Elem, (∀ e ∈ l, e ∈ cands) → c ∈ l →
      l.foldl (fun st e => Side.all.foldl (scanEdge (pt axis X t0) (pt axis X t1) axis e) st) {} =
        target t0 t1 c s := by
    intro l
    induction l with
    | nil => intro _ h; simp at h
    | cons e l ih =>
      intro hl hcl
      rw [List.foldl_cons]
      have hem : e ∈ cands := hl e (by simp)
      by_cases hec : e = c
      · subst hec
        rw [fold_sides_empty hpc hit hunc Side.all (mem_side_all s)]
        exact stay l (fun e' he' => hl e' (by simp [he']))
      · rw [fold_sides_other (hpos e hem) (fun s' h => hec (hun e hem s' h).1)]
        exact ih (fun e' he' => hl e' (by simp [he'])) (by
          rcases List.mem_cons.mp hcl with h | h
          · exact absurd h.symm hec
          · exact h)
  exact go cands (fun _ h => h) hc

end Unique

end Stbem.Quadtree
