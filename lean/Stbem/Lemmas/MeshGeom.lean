import Stbem.Lemmas.MeshInv
import Mathlib.Order.MinMax
import Mathlib.Data.List.Nodup
import Mathlib.Data.List.Perm.Basic

/-!
# Geometry of cells, adjacency, children; list lemmas (`sortBy`, `findLeaf`)
-/
namespace Stbem.Mesh

/-! ### adjacency as a proposition -/

def OvT (c n : Cell) : Prop := c.t0 < c.t1 ∧ c.t0 < n.t1 ∧ n.t0 < c.t1 ∧ n.t0 < n.t1
def OvX (c n : Cell) : Prop := c.x0 < c.x1 ∧ c.x0 < n.x1 ∧ n.x0 < c.x1 ∧ n.x0 < n.x1

theorem overlapT_iff {c n : Cell} : overlapT c n = true ↔ OvT c n := by
  simp only [overlapT, decide_eq_true_eq, max_lt_iff, lt_min_iff, OvT]; tauto

theorem overlapX_iff {c n : Cell} : overlapX c n = true ↔ OvX c n := by
  simp only [overlapX, decide_eq_true_eq, max_lt_iff, lt_min_iff, OvX]; tauto

theorem OvT.symm {c n : Cell} (h : OvT c n) : OvT n c := by
  obtain ⟨h1, h2, h3, h4⟩ := h; exact ⟨h4, h3, h2, h1⟩

theorem OvX.symm {c n : Cell} (h : OvX c n) : OvX n c := by
  obtain ⟨h1, h2, h3, h4⟩ := h; exact ⟨h4, h3, h2, h1⟩

theorem OvT.point {c n : Cell} (h : OvT c n) :
    ∃ t, c.t0 ≤ t ∧ t < c.t1 ∧ n.t0 ≤ t ∧ t < n.t1 := by
  obtain ⟨h1, h2, h3, h4⟩ := h
  rcases le_total c.t0 n.t0 with h | h
  · exact ⟨n.t0, h, h3, le_refl _, h4⟩
  · exact ⟨c.t0, le_refl _, h1, h, h2⟩

theorem OvX.point {c n : Cell} (h : OvX c n) :
    ∃ x, c.x0 ≤ x ∧ x < c.x1 ∧ n.x0 ≤ x ∧ x < n.x1 := by
  obtain ⟨h1, h2, h3, h4⟩ := h
  rcases le_total c.x0 n.x0 with h | h
  · exact ⟨n.x0, h, h3, le_refl _, h4⟩
  · exact ⟨c.x0, le_refl _, h1, h, h2⟩

/-- propositional form of `adjacent` -/
def Adj (m : Mesh) (c : Cell) : Side → Cell → Prop
  | .bottom, n => n.t1 = c.t0 ∧ OvX c n
  | .top, n => n.t0 = c.t1 ∧ OvX c n
  | .right, n => (n.x0 = c.x1 ∨ (m.glue = true ∧ c.x1 = m.xmax ∧ n.x0 = m.xmin)) ∧ OvT c n
  | .left, n => (n.x1 = c.x0 ∨ (m.glue = true ∧ c.x0 = m.xmin ∧ n.x1 = m.xmax)) ∧ OvT c n

theorem adjacent_iff {m : Mesh} {c : Cell} {s : Side} {n : Cell} :
    adjacent m c s n = true ↔ Adj m c s n := by
  cases s <;>
    simp only [adjacent, Adj, Bool.and_eq_true, Bool.or_eq_true, decide_eq_true_eq,
      overlapT_iff, overlapX_iff, and_assoc]

def Side.opp : Side → Side
  | .bottom => .top
  | .top => .bottom
  | .left => .right
  | .right => .left

theorem Adj.symm {m : Mesh} {c : Cell} {s : Side} {n : Cell} (h : Adj m c s n) :
    Adj m n s.opp c := by
  cases s <;> simp only [Adj, Side.opp] at h ⊢
  · exact ⟨h.1.symm, h.2.symm⟩
  · refine ⟨?_, h.2.symm⟩
    rcases h.1 with h1 | ⟨g, h1, h2⟩
    · exact Or.inl h1.symm
    · exact Or.inr ⟨g, h2, h1⟩
  · exact ⟨h.1.symm, h.2.symm⟩
  · refine ⟨?_, h.2.symm⟩
    rcases h.1 with h1 | ⟨g, h1, h2⟩
    · exact Or.inl h1.symm
    · exact Or.inr ⟨g, h2, h1⟩

/-- adjacency only depends on the cylinder data of the mesh -/
theorem Adj.congr {m m' : Mesh} (hg : m'.glue = m.glue) (h0 : m'.xmin = m.xmin)
    (h1 : m'.xmax = m.xmax) {c : Cell} {s : Side} {n : Cell} : Adj m' c s n ↔ Adj m c s n := by
  cases s <;> simp only [Adj, hg, h0, h1]

theorem adjacent_congr {m m' : Mesh} (hg : m'.glue = m.glue) (h0 : m'.xmin = m.xmin)
    (h1 : m'.xmax = m.xmax) (c : Cell) (s : Side) (n : Cell) :
    adjacent m' c s n = adjacent m c s n := by
  rw [Bool.eq_iff_iff, adjacent_iff, adjacent_iff, Adj.congr hg h0 h1]

/-- Key geometric lemma: a neighbour `d'` of the leaf `c` that lies inside another leaf `d`
makes `d` a neighbour of `c` (across the same side). -/
theorem Adj.of_sub {m : Mesh} (ht : Tiles m) {c d d' : Cell} (hc : c ∈ m.leaves)
    (hd : d ∈ m.leaves) (hne : c ≠ d) (hsub : d'.Sub d) (hp' : d'.t0 < d'.t1 ∧ d'.x0 < d'.x1)
    {s : Side} (h : Adj m c s d') : Adj m c s d := by
  obtain ⟨s1, s2, s3, s4⟩ := hsub
  obtain ⟨pc1, pc2⟩ := ht.proper c hc
  obtain ⟨pd1, pd2⟩ := ht.proper d hd
  obtain ⟨pp1, pp2⟩ := hp'
  have ind := ht.inside d hd
  have dis := ht.disjoint c hc d hd
  cases s <;> simp only [Adj] at h ⊢
  · -- bottom
    obtain ⟨e, ov⟩ := h
    have ov' : OvX c d := by
      obtain ⟨o1, o2, o3, o4⟩ := ov; exact ⟨o1, by linarith, by linarith, by linarith⟩
    refine ⟨?_, ov'⟩
    by_contra hne'
    obtain ⟨x, x1, x2, x3, x4⟩ := ov'.point
    obtain ⟨o1, o2, o3, o4⟩ := ov
    have hlt : c.t0 < d.t1 := lt_of_le_of_ne (by linarith) (fun h => hne' h.symm)
    exact hne (dis c.t0 x ⟨le_refl _, pc1, x1, x2⟩ ⟨by linarith, hlt, x3, x4⟩)
  · -- right
    obtain ⟨e, ov⟩ := h
    have ov' : OvT c d := by
      obtain ⟨o1, o2, o3, o4⟩ := ov; exact ⟨o1, by linarith, by linarith, by linarith⟩
    refine ⟨?_, ov'⟩
    obtain ⟨o1, o2, o3, o4⟩ := ov
    rcases e with e | ⟨g, e1, e2⟩
    · left
      by_contra hne'
      obtain ⟨t, t1, t2, t3, t4⟩ := ov'.point
      have hlt : d.x0 < c.x1 := lt_of_le_of_ne (by linarith) hne'
      rcases le_total c.x0 d.x0 with hh | hh
      · exact hne (dis t d.x0 ⟨t1, t2, hh, hlt⟩ ⟨t3, t4, le_refl _, pd2⟩)
      · exact hne (dis t c.x0 ⟨t1, t2, le_refl _, pc2⟩ ⟨t3, t4, hh, by linarith⟩)
    · right
      exact ⟨g, e1, by linarith [ind.2.2.1]⟩
  · -- top
    obtain ⟨e, ov⟩ := h
    have ov' : OvX c d := by
      obtain ⟨o1, o2, o3, o4⟩ := ov; exact ⟨o1, by linarith, by linarith, by linarith⟩
    refine ⟨?_, ov'⟩
    by_contra hne'
    obtain ⟨x, x1, x2, x3, x4⟩ := ov'.point
    obtain ⟨o1, o2, o3, o4⟩ := ov
    have hlt : d.t0 < c.t1 := lt_of_le_of_ne (by linarith) hne'
    rcases le_total c.t0 d.t0 with hh | hh
    · exact hne (dis d.t0 x ⟨hh, hlt, x1, x2⟩ ⟨le_refl _, pd1, x3, x4⟩)
    · exact hne (dis c.t0 x ⟨le_refl _, pc1, x1, x2⟩ ⟨hh, by linarith, x3, x4⟩)
  · -- left
    obtain ⟨e, ov⟩ := h
    have ov' : OvT c d := by
      obtain ⟨o1, o2, o3, o4⟩ := ov; exact ⟨o1, by linarith, by linarith, by linarith⟩
    refine ⟨?_, ov'⟩
    obtain ⟨o1, o2, o3, o4⟩ := ov
    rcases e with e | ⟨g, e1, e2⟩
    · left
      by_contra hne'
      obtain ⟨t, t1, t2, t3, t4⟩ := ov'.point
      have hlt : c.x0 < d.x1 := lt_of_le_of_ne (by linarith) (fun h => hne' h.symm)
      exact hne (dis t c.x0 ⟨t1, t2, le_refl _, pc2⟩ ⟨t3, t4, by linarith, hlt⟩)
    · right
      exact ⟨g, e1, by linarith [ind.2.2.2]⟩

/-- the same with the roles exchanged: a part `c'` of the leaf `c` that has the leaf `d` as a
neighbour makes `d` a neighbour of `c` -/
theorem Adj.of_sub_left {m : Mesh} (ht : Tiles m) {c c' d : Cell} (hc : c ∈ m.leaves)
    (hd : d ∈ m.leaves) (hne : c ≠ d) (hsub : c'.Sub c) (hp' : c'.t0 < c'.t1 ∧ c'.x0 < c'.x1)
    {s : Side} (h : Adj m c' s d) : Adj m c s d := by
  have h1 := h.symm
  have h2 := Adj.of_sub ht hd hc (Ne.symm hne) hsub hp' h1
  have h3 := h2.symm
  cases s <;> exact h3

/-! ### children -/

theorem children_sub (k : Nat) (c : Cell) (ax : Ax) (hp : c.t0 < c.t1 ∧ c.x0 < c.x1) :
    (children k c ax).1.Sub c ∧ (children k c ax).2.Sub c := by
  cases ax <;> simp only [children, Cell.Sub] <;>
    refine ⟨⟨?_, ?_, ?_, ?_⟩, ⟨?_, ?_, ?_, ?_⟩⟩ <;> linarith

theorem children_proper (k : Nat) (c : Cell) (ax : Ax) (hp : c.t0 < c.t1 ∧ c.x0 < c.x1) :
    ((children k c ax).1.t0 < (children k c ax).1.t1 ∧
      (children k c ax).1.x0 < (children k c ax).1.x1) ∧
    ((children k c ax).2.t0 < (children k c ax).2.t1 ∧
      (children k c ax).2.x0 < (children k c ax).2.x1) := by
  cases ax <;> simp only [children] <;>
    refine ⟨⟨?_, ?_⟩, ⟨?_, ?_⟩⟩ <;> linarith

theorem children_cover (k : Nat) (c : Cell) (ax : Ax) (t x : Rat) (h : c.Contains t x) :
    (children k c ax).1.Contains t x ∨ (children k c ax).2.Contains t x := by
  obtain ⟨h1, h2, h3, h4⟩ := h
  cases ax <;> simp only [children, Cell.Contains]
  · rcases lt_or_ge t ((c.t0 + c.t1) / 2) with hh | hh
    · exact Or.inl ⟨h1, hh, h3, h4⟩
    · exact Or.inr ⟨hh, h2, h3, h4⟩
  · rcases lt_or_ge x ((c.x0 + c.x1) / 2) with hh | hh
    · exact Or.inl ⟨h1, h2, h3, hh⟩
    · exact Or.inr ⟨h1, h2, hh, h4⟩

theorem children_disjoint (k : Nat) (c : Cell) (ax : Ax) (t x : Rat)
    (h1 : (children k c ax).1.Contains t x) (h2 : (children k c ax).2.Contains t x) : False := by
  cases ax <;> simp only [children, Cell.Contains] at h1 h2 <;> linarith [h1.1, h1.2.1, h1.2.2.1,
    h1.2.2.2, h2.1, h2.2.1, h2.2.2.1, h2.2.2.2]

theorem Cell.Sub.contains {c d : Cell} (h : c.Sub d) {t x : Rat} (hc : c.Contains t x) :
    d.Contains t x := by
  obtain ⟨s1, s2, s3, s4⟩ := h
  obtain ⟨h1, h2, h3, h4⟩ := hc
  exact ⟨by linarith, by linarith, by linarith, by linarith⟩

theorem Cell.Sub.refl (c : Cell) : c.Sub c := ⟨le_refl _, le_refl _, le_refl _, le_refl _⟩

theorem Cell.Sub.trans {a b c : Cell} (h1 : a.Sub b) (h2 : b.Sub c) : a.Sub c := by
  obtain ⟨a1, a2, a3, a4⟩ := h1
  obtain ⟨b1, b2, b3, b4⟩ := h2
  exact ⟨by linarith, by linarith, by linarith, by linarith⟩

theorem children_level (k : Nat) (c : Cell) (ax : Ax) :
    (children k c ax).1.level ax = c.level ax + 1 ∧ (children k c ax).2.level ax = c.level ax + 1 := by
  cases ax <;> simp [children, Cell.level]

theorem children_lt_lx (k : Nat) (c : Cell) (ax : Ax) :
    c.lt ≤ (children k c ax).1.lt ∧ c.lx ≤ (children k c ax).1.lx ∧
    c.lt ≤ (children k c ax).2.lt ∧ c.lx ≤ (children k c ax).2.lx ∧
    (children k c ax).1.lt = (children k c ax).2.lt ∧
    (children k c ax).1.lx = (children k c ax).2.lx := by
  cases ax <;> simp [children]

theorem children_id (k : Nat) (c : Cell) (ax : Ax) :
    (children k c ax).1.id = k ∧ (children k c ax).2.id = k + 1 := by
  cases ax <;> simp [children]

/-- levels of the children in terms of `lt`, `lx` -/
theorem children_levels (k : Nat) (c : Cell) (ax : Ax) :
    ((children k c ax).1.lt = (children k c ax).2.lt ∧ (children k c ax).1.lx = (children k c ax).2.lx) ∧
    (match ax with
     | .time => (children k c ax).1.lt = c.lt + 1 ∧ (children k c ax).1.lx = c.lx
     | .space => (children k c ax).1.lt = c.lt ∧ (children k c ax).1.lx = c.lx + 1) := by
  cases ax <;> simp [children]

/-! ### `sortBy` is a permutation -/

theorem insertBy_perm {α} (lt : α → α → Bool) (a : α) (l : List α) :
    (insertBy lt a l).Perm (a :: l) := by
  induction l with
  | nil => simp [insertBy]
  | cons b l ih =>
    simp only [insertBy]
    split
    · exact (List.Perm.cons b ih).trans (List.Perm.swap a b l)
    · exact List.Perm.refl _

theorem sortBy_perm {α} (lt : α → α → Bool) (l : List α) : (sortBy lt l).Perm l := by
  induction l with
  | nil => simp [sortBy]
  | cons a l ih =>
    have : sortBy lt (a :: l) = insertBy lt a (sortBy lt l) := rfl
    rw [this]
    exact (insertBy_perm lt a _).trans (List.Perm.cons a ih)

theorem mem_sortBy {α} (lt : α → α → Bool) (l : List α) (a : α) : a ∈ sortBy lt l ↔ a ∈ l :=
  (sortBy_perm lt l).mem_iff

theorem nbrs_perm (m : Mesh) (c : Cell) (s : Side) :
    (nbrs m c s).Perm (m.leaves.filter (adjacent m c s)) := by
  cases s <;> simp only [nbrs] <;> exact sortBy_perm _ _

theorem mem_nbrs {m : Mesh} {c : Cell} {s : Side} {n : Cell} :
    n ∈ nbrs m c s ↔ n ∈ m.leaves ∧ Adj m c s n := by
  rw [(nbrs_perm m c s).mem_iff, List.mem_filter, adjacent_iff]

/-! ### ids -/

theorem IdsOK.leaves_nodup {m : Mesh} (h : IdsOK m) : m.leaves.Nodup :=
  List.Nodup.of_map _ h.1

theorem IdsOK.id_inj {m : Mesh} (h : IdsOK m) {a b : Cell} (ha : a ∈ m.leaves) (hb : b ∈ m.leaves)
    (hid : a.id = b.id) : a = b :=
  List.inj_on_of_nodup_map h.1 ha hb hid

theorem nbrs_nodup {m : Mesh} (h : IdsOK m) (c : Cell) (s : Side) : (nbrs m c s).Nodup :=
  (nbrs_perm m c s).nodup_iff.mpr (h.leaves_nodup.filter _)

theorem findLeaf_of_mem {m : Mesh} (h : IdsOK m) {c : Cell} (hc : c ∈ m.leaves) :
    findLeaf m c.id = some c := by
  unfold findLeaf
  rw [List.find?_eq_some_iff_append]
  obtain ⟨l1, l2, hl⟩ := List.append_of_mem hc
  refine ⟨by simp, l1, l2, hl, ?_⟩
  intro a ha
  have ham : a ∈ m.leaves := by rw [hl]; simp [ha]
  simp only [Bool.not_eq_true', beq_eq_false_iff_ne, ne_eq]
  intro hid
  have hac : a = c := h.id_inj ham hc hid
  have hnd := h.leaves_nodup
  rw [hl] at hnd
  have := (List.nodup_append.mp hnd).2.2 a ha c (by simp)
  exact this hac

theorem findLeaf_some {m : Mesh} {id : Nat} {c : Cell} (h : findLeaf m id = some c) :
    c ∈ m.leaves ∧ c.id = id := by
  unfold findLeaf at h
  have h1 := List.mem_of_find?_eq_some h
  have h2 := List.find?_some h
  exact ⟨h1, by simpa using h2⟩

end Stbem.Mesh
