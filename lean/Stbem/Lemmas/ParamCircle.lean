import Mathlib.Analysis.SpecialFunctions.Trigonometric.Deriv
import Mathlib.Analysis.SpecialFunctions.Trigonometric.Bounds

/-!
# The circle `x ↦ (cos x, sin x)` of `src/parametrization.py` over ℝ

`Circle` declares `pw_start = [0, 2π]` and the single piece `circle`.  Not executable in ℚ; the
statements of C18 about it are proved for Mathlib's real `cos`/`sin`.
-/
namespace Stbem.Param

/-- `circle(x_hat) = np.vstack([np.cos(x_hat), np.sin(x_hat)])` -/
noncomputable def circle (x : ℝ) : ℝ × ℝ := (Real.cos x, Real.sin x)

/-- the velocity of the circle -/
noncomputable def circleDeriv (x : ℝ) : ℝ × ℝ := (-Real.sin x, Real.cos x)

theorem circle_hasDerivAt (x : ℝ) :
    HasDerivAt (fun y => (circle y).1) (circleDeriv x).1 x ∧
    HasDerivAt (fun y => (circle y).2) (circleDeriv x).2 x :=
  ⟨Real.hasDerivAt_cos x, Real.hasDerivAt_sin x⟩

/-- Euclidean norm of the velocity -/
theorem circleDeriv_norm (x : ℝ) : Real.sqrt ((circleDeriv x).1 ^ 2 + (circleDeriv x).2 ^ 2) = 1 := by
  simp only [circleDeriv, neg_sq, Real.sin_sq_add_cos_sq, Real.sqrt_one]

theorem circle_period : circle (2 * Real.pi) = circle 0 := by
  simp [circle]

/-- squared chord length: `2 − 2 cos (x − y)` -/
theorem circle_chord (x y : ℝ) :
    ((circle x).1 - (circle y).1) ^ 2 + ((circle x).2 - (circle y).2) ^ 2 = 2 - 2 * Real.cos (x - y) := by
  simp only [circle, Real.cos_sub]
  nlinarith [Real.sin_sq_add_cos_sq x, Real.sin_sq_add_cos_sq y]

/-- chord ≤ arc (the parameter is arc length, so no chord is longer than the parameter distance) -/
theorem circle_chord_le_arc (x y : ℝ) :
    ((circle x).1 - (circle y).1) ^ 2 + ((circle x).2 - (circle y).2) ^ 2 ≤ (x - y) ^ 2 := by
  rw [circle_chord]
  have := Real.one_sub_sq_div_two_le_cos (x := x - y)
  linarith

end Stbem.Param
