import Stbem.Lemmas.PosDefMatrix
import Stbem.Lemmas.PosDefDomMatrix

/-!
# Soundness of the hint-based certificate `domCert` (list matrices ↔ Mathlib matrices)
-/
namespace Stbem.PosDef
set_option linter.unusedSectionVars false
open Matrix

variable {K : Type} [Field K] [LinearOrder K] [IsStrictOrderedRing K]

theorem heads_toLists {m n : Nat} (A : Matrix (Fin m) (Fin (n + 1)) K) :
    heads (toLists A) = List.ofFn fun i => A i 0 := by
  unfold heads toLists
  rw [List.map_ofFn]
  congr 1
  funext i
  simp [List.ofFn_succ]

theorem transposeN_toLists : ∀ {n m : Nat} (A : Matrix (Fin m) (Fin n) K),
    transposeN n (toLists A) = toLists Aᵀ := by
  intro n
  induction n with
  | zero => intro m A; simp [transposeN, toLists]
  | succ n ih =>
    intro m A
    simp only [transposeN]
    rw [heads_toLists, tails_toLists_succ, ih]
    unfold toLists
    rw [List.ofFn_succ (f := fun j : Fin (n + 1) => List.ofFn fun i => Aᵀ j i)]
    rfl

theorem matMul_toLists {l m n : Nat} (A : Matrix (Fin l) (Fin m) K) (B : Matrix (Fin m) (Fin n) K) :
    matMul n (toLists A) (toLists B) = toLists (A * B) := by
  unfold matMul
  simp only
  rw [transposeN_toLists]
  unfold toLists
  rw [List.map_ofFn]
  congr 1
  funext i
  simp only [Function.comp_def]
  rw [List.map_ofFn]
  congr 1
  funext j
  simp only [Function.comp_def, dot_ofFn, Matrix.mul_apply, Matrix.transpose_apply]

theorem absv_eq_abs (x : K) : absv x = |x| := by
  unfold absv
  split
  · next h => rw [abs_of_neg h, zero_sub]
  · next h => rw [abs_of_nonneg (not_lt.mp h)]

theorem sumAbs_ofFn : ∀ {n : Nat} (f : Fin n → K), sumAbs (List.ofFn f) = ∑ i, |f i| := by
  intro n
  induction n with
  | zero => intro f; simp [sumAbs]
  | succ n ih =>
    intro f
    rw [List.ofFn_succ, sumAbs, ih, absv_eq_abs, Fin.sum_univ_succ]

theorem map_sumAbs_toLists {m n : Nat} (N : Matrix (Fin m) (Fin n) K) :
    (toLists N).map sumAbs = List.ofFn fun i => ∑ j, |N i j| := by
  unfold toLists
  rw [List.map_ofFn]
  congr 1
  funext i
  simp only [Function.comp_def, sumAbs_ofFn]

theorem domOK_ofFn : ∀ {n : Nat} (r c d : Fin n → K),
    domOK (List.ofFn r) (List.ofFn c) (List.ofFn d) = true ↔ ∀ i, r i + c i < 4 * d i := by
  intro n
  induction n with
  | zero => intro r c d; simp [domOK]
  | succ n ih =>
    intro r c d
    rw [List.ofFn_succ, List.ofFn_succ (f := c), List.ofFn_succ (f := d)]
    simp only [domOK, Bool.and_eq_true, decide_eq_true_eq, ih, Fin.forall_fin_succ]
    have : d 0 + d 0 + (d 0 + d 0) = 4 * d 0 := by ring
    rw [this]

theorem shape_of_isSquare {n : Nat} {M : List (List K)} (h : isSquare n M = true) : Shape n n M := by
  unfold isSquare at h
  simp only [Bool.and_eq_true, beq_iff_eq, List.all_eq_true] at h
  exact ⟨h.1, h.2⟩

/-- the certificate in Mathlib's terms -/
theorem domCert_toLists {n : Nat} (M R : Matrix (Fin n) (Fin n) K)
    (h : domCert n (toLists M) (toLists R) = true) :
    ∀ i, ∑ j, |(Rᵀ * M * R) i j| + ∑ j, |(Rᵀ * M * R) j i| < 4 * (Rᵀ * M * R) i i := by
  unfold domCert congr at h
  simp only [Bool.and_eq_true] at h
  obtain ⟨-, h3⟩ := h
  rw [transposeN_toLists, matMul_toLists, matMul_toLists, transposeN_toLists, map_sumAbs_toLists,
    map_sumAbs_toLists, diagN_toLists, domOK_ofFn, ← Matrix.mul_assoc] at h3
  exact h3

/-- **soundness of the hint-based certificate**: whatever the hint `R` is, an accepted matrix is accepted by the exact
    elimination too, i.e. (by `certPD_iff`) its quadratic form is positive definite -/
theorem domCert_sound {n : Nat} {M R : List (List K)} (h : domCert n M R = true) : certPD M = true := by
  have hM : Shape n n M := by
    unfold domCert at h; simp only [Bool.and_eq_true] at h; exact shape_of_isSquare h.1.1
  have hR : Shape n n R := by
    unfold domCert at h; simp only [Bool.and_eq_true] at h; exact shape_of_isSquare h.1.2
  rw [← toLists_ofLists M hM, ← toLists_ofLists R hR] at h
  have hdom := domCert_toLists (ofLists n M) (ofLists n R) h
  have hpd : PosDefForm (ofLists n M) := (posDefForm_of_dominant _ hdom).of_congr
  apply certPD_complete' hM
  intro x hx hnz
  obtain ⟨f, rfl⟩ := exists_ofFn x hx
  rw [← toLists_ofLists M hM, quad_toLists]
  exact hpd f ((nonZero_ofFn f).mp hnz)

end Stbem.PosDef
