import Stbem.Model.EstimatorConv
import Mathlib.Tactic.Ring
import Mathlib.Tactic.Linarith

/-!
# Loop lemmas for `Props/EstimatorTie.lean`

The definitions of `Stbem.Gen.EstimatorGen` (regenerated from `src/error_estimator.py` on every run) are `do` blocks whose
`for` loops are `forIn` over lists.  This file relates such loops to the `map` / `filter` / `mapM` / `foldl` forms of the
hand-written model `Stbem.Model.Estimator`.  Every lemma takes the loop body as a variable `f` together with a pointwise
description `hf`, so that it applies to whatever term the `do` notation elaborates to.
-/
namespace Stbem.EstimatorTie
set_option linter.unusedSimpArgs false
open Stbem.Mesh Stbem.Estimator Stbem.EstimatorConv
open Stbem.Gen Stbem.Gen.EstimatorGen

theorem ok_bind {ε α β : Type} (a : α) (f : α → Except ε β) : (Except.ok a >>= f) = f a := rfl
theorem error_bind {ε α β : Type} (e : ε) (f : α → Except ε β) : ((Except.error e : Except ε α) >>= f) = .error e := rfl

theorem assertThat_true {c : Prop} [Decidable c] (tag : String) (h : c) : assertThat c tag = .ok () := by
  simp [assertThat, h]; rfl

theorem assertThat_false {c : Prop} [Decidable c] (tag : String) (h : ¬ c) : assertThat c tag = .error tag := by
  simp [assertThat, h]

/-! ### `val[i] = e` for `i, t in enumerate(points)` -/

theorem set_append_length (pre : List Rat) (a v : Rat) (suf : List Rat) :
    (pre ++ a :: suf).set pre.length v = pre ++ v :: suf := by
  induction pre with
  | nil => rfl
  | cons b pre ih => simp [ih]

/-- the loop `for i, t in enumerate(points): val[i] = s(t)` writes the values `s(t)` to the positions `k, k+1, …` -/
theorem forIn_enum_set (f : Nat × Rat → List Rat → Except String (ForInStep (List Rat))) (s : Rat → Rat)
    (hf : ∀ x r, f x r = (listSet r x.1 (s x.2) >>= fun r' => pure (ForInStep.yield r'))) :
    ∀ (pts pre suf : List Rat), pts.length ≤ suf.length →
      forIn (enumerateFrom pre.length pts) (pre ++ suf) f = .ok (pre ++ pts.map s ++ suf.drop pts.length)
  | [], pre, suf, _ => by simp [enumerateFrom]; rfl
  | t :: pts, pre, [], h => by simp at h
  | t :: pts, pre, a :: suf, h => by
    have hlt : pre.length < (pre ++ a :: suf).length := by simp
    have hstep : f (pre.length, t) (pre ++ a :: suf) = .ok (ForInStep.yield ((pre ++ [s t]) ++ suf)) := by
      rw [hf]
      simp only [listSet, hlt, if_true, set_append_length]
      simp [pure, Except.pure, bind, Except.bind]
    have ih := forIn_enum_set f s hf pts (pre ++ [s t]) suf (by simpa using h)
    simp only [List.length_append, List.length_cons, List.length_nil] at ih
    rw [enumerateFrom, List.forIn_cons, hstep]
    show forIn (enumerateFrom (pre.length + 1) pts) (pre ++ [s t] ++ suf) f = _
    rw [ih]
    simp

/-- the same from position `0` of an array that is at least as long as the list of points -/
theorem forIn_enum_set0 (f : Nat × Rat → List Rat → Except String (ForInStep (List Rat))) (s : Rat → Rat)
    (hf : ∀ x r, f x r = (listSet r x.1 (s x.2) >>= fun r' => pure (ForInStep.yield r'))) (pts val : List Rat)
    (h : pts.length ≤ val.length) : forIn (enumerate pts) val f = .ok (pts.map s ++ val.drop pts.length) := by
  have := forIn_enum_set f s hf pts [] val h
  simpa [enumerate] using this

/-- an iteration that raises at the first point makes the loop raise (the list of points is not empty) -/
theorem forIn_enum_error {σ : Type} (f : Nat × Rat → σ → Except String (ForInStep σ)) (e : String) (pts : List Rat)
    (hne : pts ≠ []) (init : σ) (hf : ∀ x r, f x r = .error e) : forIn (enumerate pts) init f = .error e := by
  cases pts with
  | nil => exact absurd rfl hne
  | cons t pts => simp [enumerate, enumerateFrom, List.forIn_cons, hf]; rfl

/-! ### the neighbour loop of `sobolev_space` / `sobolev_time` -/

/-- `for nbr in nbrs: if skip(nbr): continue; …; ips.append((nbr.glob_idx, ev(nbr)))` -/
theorem forIn_ips (f : Cell → List (Nat × Rat) → Except String (ForInStep (List (Nat × Rat)))) (skip : Cell → Bool)
    (ev : Cell → Except String Rat)
    (hf : ∀ n r, f n r = if skip n = true then pure (ForInStep.yield r)
      else (ev n >>= fun v => pure (ForInStep.yield (r ++ [(n.id, v)])))) :
    ∀ (ns : List Cell) (ips : List (Nat × Rat)),
      forIn ns ips f = ((ns.filter fun n => !skip n).mapM (fun n => do let v ← ev n; pure (n.id, v)) >>= fun r =>
        pure (ips ++ r))
  | [], ips => by simp [pure, Except.pure, bind, Except.bind]
  | n :: ns, ips => by
    rw [List.forIn_cons, hf]
    cases hs : skip n with
    | true =>
      simp only [hs, if_true, List.filter_cons, Bool.not_true, Bool.false_eq_true, if_false, pure_bind]
      exact forIn_ips f skip ev hf ns ips
    | false =>
      simp only [hs, Bool.false_eq_true, if_false, List.filter_cons, Bool.not_false, if_true, List.mapM_cons]
      cases hev : ev n with
      | error e => rfl
      | ok v =>
        simp only [ok_bind, pure_bind, bind_assoc]
        rw [forIn_ips f skip ev hf ns (ips ++ [(n.id, v)])]
        congr 1
        funext r
        simp [List.append_assoc]

/-! ### small facts used by `Props/EstimatorTie.lean` -/

theorem npDot_eq_dot (a b : List Rat) : QuadGen.npDot a b = dot a b := rfl

theorem affine_points (a h : Rat) (P : List Rat) :
    QuadGen.npSA (fun x1 x2 => x1 + x2) a (QuadGen.npSA (fun x1 x2 => x1 * x2) h P) = P.map fun q => a + h * q := by
  simp [QuadGen.npSA, List.map_map, Function.comp_def]

theorem skip_false {sym : Bool} {a b : Nat} (h : ¬ (sym = true ∧ a > b)) : (sym && decide (a > b)) = false := by
  cases sym <;> simp at h ⊢
  omega

theorem skip_true {sym : Bool} {a b : Nat} (h : sym = true ∧ a > b) : (sym && decide (a > b)) = true := by
  simp [h.1, h.2]

theorem loop_tail (x : Except String (List (Nat × Rat))) :
    (x >>= fun r => pure ([] ++ r) >>= fun s => (do
      assertThat (s.length ≥ 1) "assert:len(ips)"
      pure (fsum (List.map (fun z => z.2) s), s))) =
    (x >>= fun ips => if ips.length < 1 then (do
        (Except.error "assert:len(ips)" : Except String PUnit)
        pure (lsum (List.map (fun z => z.2) ips), ips))
      else pure (lsum (List.map (fun z => z.2) ips), ips)) := by
  cases x with
  | error e => rfl
  | ok r =>
    simp only [ok_bind, List.nil_append, pure_bind]
    by_cases h : r.length < 1
    · rw [if_pos h, assertThat_false _ (by omega)]; rfl
    · rw [if_neg h, assertThat_true _ (by omega)]; rfl

theorem mapM_length {α β : Type} (f : α → Except String β) : ∀ (l : List α) (r : List β), l.mapM f = .ok r → r.length = l.length
  | [], r, h => by cases h; rfl
  | a :: l, r, h => by
    rw [List.mapM_cons] at h
    cases ha : f a with
    | error e => rw [ha] at h; cases h
    | ok b =>
      cases hl : l.mapM f with
      | error e => rw [ha, hl] at h; cases h
      | ok bs =>
        rw [ha, hl] at h
        cases h
        simp [mapM_length f l bs hl]

theorem mapM_ok_map {α β : Type} (g : α → β) : ∀ l : List α, l.mapM (fun a => (Except.ok (g a) : Except String β)) = .ok (l.map g)
  | [] => rfl
  | a :: l => by rw [List.mapM_cons, mapM_ok_map g l]; rfl

theorem mapM_congr_mem {α β : Type} {f g : α → Except String β} : ∀ (l : List α), (∀ a ∈ l, f a = g a) → l.mapM f = l.mapM g
  | [], _ => rfl
  | a :: l, h => by
    rw [List.mapM_cons, List.mapM_cons, h a (by simp), mapM_congr_mem l fun b hb => h b (by simp [hb])]

theorem timePatch_val {c n : Cell} {p : TimePatch} (h : timePatch c n = .ok p) :
    p = ⟨min n.t0 c.t0, max n.t1 c.t1, max n.x0 c.x0, min n.x1 c.x1, c.piece⟩ := by
  unfold timePatch at h
  by_cases hp : c.piece ≠ n.piece
  · rw [if_pos hp] at h; cases h
  · rw [if_neg hp] at h
    dsimp only at h
    by_cases hx : ¬ max n.x0 c.x0 < min n.x1 c.x1
    · rw [if_pos hx] at h; cases h
    · rw [if_neg hx] at h; cases h; rfl

end Stbem.EstimatorTie
