import Stbem.Lemmas.HalfEdgeInv

/-!
# H-layer: the geometric neighbour lists of the A-layer from local segment facts

Part 1 (A-layer only): when is `nbrs m c s` a given one- or two-element list.
-/
namespace Stbem.Mesh

/-! ### list lemmas -/

theorem list_eq_singleton {α : Type} {l : List α} {a : α} (hnd : l.Nodup) (ha : a ∈ l)
    (hall : ∀ x ∈ l, x = a) : l = [a] := by
  match l, hnd, ha, hall with
  | [x], _, ha, _ => simp at ha; rw [ha]
  | x :: y :: l, hnd, _, hall =>
    have h1 := hall x (by simp)
    have h2 := hall y (by simp)
    subst h1; subst h2
    simp at hnd

theorem list_pair {α : Type} {l : List α} {a b : α} (hnd : l.Nodup) (ha : a ∈ l) (hb : b ∈ l)
    (hab : a ≠ b) (hall : ∀ x ∈ l, x = a ∨ x = b) : l = [a, b] ∨ l = [b, a] := by
  match l, hnd, ha, hb, hall with
  | [], _, ha, _, _ => simp at ha
  | [x], _, ha, hb, _ =>
    simp at ha hb; exact absurd (ha.trans hb.symm) hab
  | [x, y], hnd, ha, hb, hall =>
    simp only [List.mem_cons, List.not_mem_nil, or_false] at ha hb
    have hxy : x ≠ y := by intro e; subst e; simp at hnd
    rcases ha with rfl | rfl <;> rcases hb with rfl | rfl
    · exact absurd rfl hab
    · exact Or.inl rfl
    · exact Or.inr rfl
    · exact absurd rfl hab
  | x :: y :: z :: l, hnd, _, _, hall =>
    exfalso
    have hxy : x ≠ y := by intro e; subst e; simp at hnd
    have hxz : x ≠ z := by intro e; subst e; simp at hnd
    have hyz : y ≠ z := by intro e; subst e; simp at hnd
    rcases hall x (by simp) with h1 | h1 <;> rcases hall y (by simp) with h2 | h2 <;>
      rcases hall z (by simp) with h3 | h3 <;> subst h1 <;> subst h2 <;>
      first | exact hxy rfl | (subst h3; first | exact hxz rfl | exact hyz rfl)

theorem sortBy_singleton {α} (lt : α → α → Bool) (a : α) : sortBy lt [a] = [a] := rfl

theorem sortBy_pair {α} (lt : α → α → Bool) (a b : α) :
    sortBy lt [a, b] = if lt b a then [b, a] else [a, b] := rfl

/-! ### tangential interval and normal matching of a side -/

/-- lower end of the tangential extent of the sides `s`, `s.opp` -/
def tlo (c : Cell) : Side → Rat
  | .bottom | .top => c.x0
  | .left | .right => c.t0

def thi (c : Cell) : Side → Rat
  | .bottom | .top => c.x1
  | .left | .right => c.t1

/-- `d` lies on the other side of the line of side `s` of `c` -/
def NM (m : Mesh) (c : Cell) : Side → Cell → Prop
  | .bottom, d => d.t1 = c.t0
  | .top, d => d.t0 = c.t1
  | .right, d => d.x0 = c.x1 ∨ (m.glue = true ∧ c.x1 = m.xmax ∧ d.x0 = m.xmin)
  | .left, d => d.x1 = c.x0 ∨ (m.glue = true ∧ c.x0 = m.xmin ∧ d.x1 = m.xmax)

theorem adj_iff_nm {m : Mesh} {c d : Cell} {s : Side} :
    Adj m c s d ↔ NM m c s d ∧ (tlo c s < thi c s ∧ tlo c s < thi d s ∧ tlo d s < thi c s ∧ tlo d s < thi d s) := by
  cases s <;> simp only [Adj, NM, OvX, OvT, tlo, thi]

theorem adj_unique' {m : Mesh} (h : Inv m) {c : Cell} {s : Side} {a b : Cell}
    (ha : a ∈ m.leaves) (hb : b ∈ m.leaves) (ha' : Adj m c s a) (hb' : Adj m c s b)
    (hp : ∃ p, tlo a s ≤ p ∧ p < thi a s ∧ tlo b s ≤ p ∧ p < thi b s) : a = b := by
  apply adj_unique h ha hb ha' hb'
  cases s <;> exact hp

/-- key by which `nbrs` sorts: descending for `bottom`, `right`; ascending for `top`, `left` -/
def descSide : Side → Bool
  | .bottom | .right => true
  | .top | .left => false

theorem nbrs_sort (m : Mesh) (c : Cell) (s : Side) :
    nbrs m c s = sortBy (fun a b => if descSide s then decide (tlo a s > tlo b s) else decide (tlo a s < tlo b s))
      (m.leaves.filter (adjacent m c s)) := by
  cases s <;> simp only [nbrs, descSide, tlo, if_true, Bool.false_eq_true, if_false, gt_iff_lt] <;> rfl

/-- a neighbour that spans the whole side is the only one -/
theorem nbrs_single {m : Mesh} (h : Inv m) {c n : Cell} {s : Side} (hn : n ∈ m.leaves)
    (ha : Adj m c s n) (hlo : tlo n s ≤ tlo c s) (hhi : thi c s ≤ thi n s) : nbrs m c s = [n] := by
  have hfil : m.leaves.filter (adjacent m c s) = [n] := by
    apply list_eq_singleton (h.ids.leaves_nodup.filter _)
    · exact List.mem_filter.mpr ⟨hn, adjacent_iff.mpr ha⟩
    · intro x hx
      obtain ⟨hx1, hx2⟩ := List.mem_filter.mp hx
      rw [adjacent_iff] at hx2
      obtain ⟨-, o1, o2, o3, o4⟩ := adj_iff_nm.mp hx2
      apply adj_unique' h hx1 hn hx2 ha
      refine ⟨max (tlo c s) (tlo x s), le_max_right _ _, max_lt o2 o4, ?_, ?_⟩
      · exact le_trans hlo (le_max_left _ _)
      · exact lt_of_lt_of_le (max_lt o1 o3) hhi
  rw [nbrs_sort, hfil, sortBy_singleton]

/-- two neighbours that split the side at `M`; `n0` is the one reported first -/
theorem nbrs_pair {m : Mesh} (h : Inv m) {c n0 n1 : Cell} {s : Side} (hn0 : n0 ∈ m.leaves)
    (hn1 : n1 ∈ m.leaves) (ha0 : Adj m c s n0) (ha1 : Adj m c s n1) {M : Rat}
    (hM : tlo c s < M ∧ M < thi c s)
    (hsplit : if descSide s then (tlo n0 s = M ∧ thi c s ≤ thi n0 s ∧ tlo n1 s ≤ tlo c s ∧ thi n1 s = M)
      else (tlo n1 s = M ∧ thi c s ≤ thi n1 s ∧ tlo n0 s ≤ tlo c s ∧ thi n0 s = M)) :
    nbrs m c s = [n0, n1] := by
  -- `lo` the lower, `up` the upper neighbour
  have key : ∀ lo up : Cell, lo ∈ m.leaves → up ∈ m.leaves → Adj m c s lo → Adj m c s up →
      tlo up s = M → thi c s ≤ thi up s → tlo lo s ≤ tlo c s → thi lo s = M →
      lo ≠ up ∧ (m.leaves.filter (adjacent m c s) = [lo, up] ∨ m.leaves.filter (adjacent m c s) = [up, lo]) := by
    intro lo up hlo hup alo aup e1 e2 e3 e4
    have hne : lo ≠ up := by
      rintro rfl
      obtain ⟨-, o1, o2, o3, o4⟩ := adj_iff_nm.mp alo
      linarith
    refine ⟨hne, ?_⟩
    apply list_pair (h.ids.leaves_nodup.filter _)
      (List.mem_filter.mpr ⟨hlo, adjacent_iff.mpr alo⟩) (List.mem_filter.mpr ⟨hup, adjacent_iff.mpr aup⟩) hne
    intro x hx
    obtain ⟨hx1, hx2⟩ := List.mem_filter.mp hx
    rw [adjacent_iff] at hx2
    obtain ⟨-, o1, o2, o3, o4⟩ := adj_iff_nm.mp hx2
    by_cases hlt : max (tlo c s) (tlo x s) < M
    · left
      apply adj_unique' h hx1 hlo hx2 alo
      exact ⟨max (tlo c s) (tlo x s), le_max_right _ _, max_lt o2 o4, le_trans e3 (le_max_left _ _), by rw [e4]; exact hlt⟩
    · right
      apply adj_unique' h hx1 hup hx2 aup
      exact ⟨max (tlo c s) (tlo x s), le_max_right _ _, max_lt o2 o4, by rw [e1]; exact not_lt.mp hlt,
        lt_of_lt_of_le (max_lt o1 o3) e2⟩
  rw [nbrs_sort]
  cases hd : descSide s
  · rw [hd] at hsplit
    simp only [Bool.false_eq_true, if_false] at hsplit ⊢
    obtain ⟨e1, e2, e3, e4⟩ := hsplit
    obtain ⟨hne, hl | hl⟩ := key n0 n1 hn0 hn1 ha0 ha1 e1 e2 e3 e4
    · rw [hl, sortBy_pair]
      have : ¬ tlo n1 s < tlo n0 s := by rw [e1]; linarith [hM.1]
      simp [this]
    · rw [hl, sortBy_pair]
      have : tlo n0 s < tlo n1 s := by rw [e1]; linarith [hM.1]
      simp [this]
  · rw [hd] at hsplit
    simp only [if_true] at hsplit ⊢
    obtain ⟨e1, e2, e3, e4⟩ := hsplit
    obtain ⟨hne, hl | hl⟩ := key n1 n0 hn1 hn0 ha1 ha0 e1 e2 e3 e4
    · rw [hl, sortBy_pair]
      have : tlo n0 s > tlo n1 s := by rw [e1]; linarith [hM.1]
      simp [this]
    · rw [hl, sortBy_pair]
      have : ¬ tlo n1 s > tlo n0 s := by rw [e1]; linarith [hM.1]
      simp [this]

end Stbem.Mesh
