import Stbem.Lemmas.InitPotPoly
import Mathlib.Data.Nat.Factorial.Basic
import Mathlib.Data.Nat.Choose.Basic

/-!
# `DuffySchemeIdentical3D(ProductScheme3D(r), symmetric_xy=False)` is exact on polynomials

If the 1-D rule `r` integrates `x^k`, `k ≤ n`, exactly, the identical-panel Duffy scheme integrates every monomial
`X^a Y^b Z^c` with `a + b + c + 2 ≤ n` exactly over the unit cube (`duffyId3_exact`).

Proof.  The six pieces are `T₁..T₃` and their images under `X ↔ Y`.  In the basis `X^i W^j Z^k`, `W = X − Y`, the
pieces `T₁ = (x, x(1−y), xyz)` and `T₃ = (x, x(1−yz), xy)` pull back to monomials; `T₂ = (x(1−y+yz), xyz, x)` pulls
back to `x^{i+j+k+2} y (1−y)^j ((1−y) + yz)^i`, a sum of Beta-type terms `(1−y)^a y^b` whose rule values are
`a! b!/(a+b+1)!` (`beta_exact`); the sum is evaluated by `Σ_{m ≤ i} (m+j)!/m! = (i+j+1)!/((j+1) i!)`.  Together
`T₁+T₂+T₃` give `1/((j+1)(k+1)(i+j+2))` = `∫_{Y ≤ X} X^i W^j Z^k`, and the change of basis `Y = X − W` is
`alt_choose_sum` of C15.
-/
namespace Stbem.InitPot
open Stbem.Quad Finset

theorem apply1_sub (r : Rule1) (f g : Rat → Rat) :
    apply1 r (fun x => f x - g x) = apply1 r f - apply1 r g := by
  have e : (fun x => f x - g x) = fun x => f x + (-1) * g x := by funext x; ring
  rw [e, apply1_add, apply1_smul]; ring

theorem fact_ne (k : Nat) : ((k.factorial : Nat) : Rat) ≠ 0 := by
  exact_mod_cast Nat.factorial_ne_zero k

theorem fact_succ (k : Nat) : (((k + 1).factorial : Nat) : Rat) = ((k : Rat) + 1) * (k.factorial : Rat) := by
  rw [Nat.factorial_succ]; push_cast; ring

/-- the rule value of the Beta integrand `(1−y)^a y^b` -/
theorem beta_exact {r : Rule1} {n : Nat} (h : Exact1 r n) : ∀ a b : Nat, a + b ≤ n →
    apply1 r (fun y => (1 - y) ^ a * y ^ b) =
      ((a.factorial : Rat) * (b.factorial : Rat)) / ((a + b + 1).factorial : Rat) := by
  intro a
  induction a with
  | zero =>
    intro b hb
    have e : (fun y : Rat => (1 - y) ^ 0 * y ^ b) = fun y => y ^ b := by funext y; ring
    have hm := h b (by omega)
    unfold mom at hm
    rw [e, hm, show 0 + b + 1 = b + 1 by ring, fact_succ]
    have := fact_ne b
    have hb1 : ((b : Rat) + 1) ≠ 0 := by positivity
    simp only [Nat.factorial_zero, Nat.cast_one, one_mul]
    field_simp
  | succ a ih =>
    intro b hb
    have e : (fun y : Rat => (1 - y) ^ (a + 1) * y ^ b) =
        fun y => (1 - y) ^ a * y ^ b - (1 - y) ^ a * y ^ (b + 1) := by funext y; ring
    rw [e, apply1_sub, ih b (by omega), ih (b + 1) (by omega)]
    rw [show a + (b + 1) + 1 = (a + b + 1) + 1 by ring, show a + 1 + b + 1 = (a + b + 1) + 1 by ring,
      fact_succ (a + b + 1), fact_succ b, fact_succ a]
    have h1 := fact_ne (a + b + 1)
    have h2 : (((a + b + 1 : Nat) : Rat) + 1) ≠ 0 := by positivity
    push_cast
    field_simp
    ring

/-- `(j+1) Σ_{m ≤ i} (m+j)!/m! = (i+j+1)!/i!` -/
theorem fact_ratio_sum (j : Nat) : ∀ i : Nat,
    ((j : Rat) + 1) * ∑ m ∈ range (i + 1), ((m + j).factorial : Rat) / (m.factorial : Rat) =
      ((i + j + 1).factorial : Rat) / (i.factorial : Rat) := by
  intro i
  induction i with
  | zero =>
    simp only [zero_add, Finset.sum_range_one, Nat.factorial_zero, Nat.cast_one, div_one]
    rw [fact_succ]
  | succ i ih =>
    rw [Finset.sum_range_succ, mul_add, ih]
    rw [show i + 1 + j + 1 = (i + j + 1) + 1 by ring, show i + 1 + j = i + j + 1 by ring, fact_succ (i + j + 1),
      fact_succ i]
    have h1 := fact_ne i
    have h2 : ((i : Rat) + 1) ≠ 0 := by positivity
    push_cast
    field_simp
    ring

/-! ### the half functional `T₁ + T₂ + T₃` -/

/-- the three pieces on the side `Y ≤ X` -/
def Hf (R : Rule3) (f : Rat → Rat → Rat → Rat) : Rat :=
  apply3 R (fun x y z => x ^ 2 * y *
    (f x (x * (1 - y)) (x * y * z) + f (x * (1 - y + y * z)) (x * y * z) x + f x (x * (1 - y * z)) (x * y)))

theorem duffyId3_split (R : Rule3) (f : Rat → Rat → Rat → Rat) :
    apply3 (duffyId3 R false) f = Hf R f + Hf R (fun X Y Z => f Y X Z) := by
  rw [apply3_duffyId3_false]
  unfold Hf
  rw [← apply3_add]
  apply apply3_congr
  intro x y z; ring

theorem Hf_finset_sum {ι : Type} [DecidableEq ι] (R : Rule3) (s : Finset ι) (α : ι → Rat)
    (F : ι → Rat → Rat → Rat → Rat) :
    Hf R (fun X Y Z => ∑ q ∈ s, α q * F q X Y Z) = ∑ q ∈ s, α q * Hf R (F q) := by
  unfold Hf
  rw [← apply3_finset_sum]
  apply apply3_congr
  intro x y z
  rw [← Finset.sum_add_distrib, ← Finset.sum_add_distrib, Finset.mul_sum]
  apply Finset.sum_congr rfl
  intro q _; ring

/-- the basis adapted to the singular line: `X^i (X − Y)^j Z^k` -/
def gXWZ (i j k : Nat) : Rat → Rat → Rat → Rat := fun X Y Z => X ^ i * (X - Y) ^ j * Z ^ k

/-- `T₁ + T₃` on the adapted basis (both pull back to monomials) -/
theorem L13 {r : Rule1} {n : Nat} (h : Exact1 r n) (i j k : Nat) (hd : i + j + k + 2 ≤ n) :
    apply3 (product3 r) (fun x y z => x ^ 2 * y *
      (gXWZ i j k x (x * (1 - y)) (x * y * z) + gXWZ i j k x (x * (1 - y * z)) (x * y))) =
      1 / (((i : Rat) + j + k + 3) * ((j : Rat) + 1) * ((k : Rat) + 1)) := by
  have e : (fun x y z : Rat => x ^ 2 * y *
      (gXWZ i j k x (x * (1 - y)) (x * y * z) + gXWZ i j k x (x * (1 - y * z)) (x * y))) =
      fun x y z => x ^ (i + j + k + 2) * y ^ (j + k + 1) * z ^ k + x ^ (i + j + k + 2) * y ^ (j + k + 1) * z ^ j := by
    funext x y z
    unfold gXWZ
    have h1 : x - x * (1 - y) = x * y := by ring
    have h2 : x - x * (1 - y * z) = x * y * z := by ring
    rw [h1, h2]
    ring
  rw [e, apply3_add, product3_monomial, product3_monomial, h _ hd, h (j + k + 1) (by omega), h k (by omega),
    h j (by omega)]
  have a1 : ((i : Rat) + j + k + 3) ≠ 0 := by positivity
  have a2 : ((j : Rat) + 1) ≠ 0 := by positivity
  have a3 : ((k : Rat) + 1) ≠ 0 := by positivity
  have a4 : ((j : Rat) + k + 2) ≠ 0 := by positivity
  push_cast
  field_simp
  ring

/-- `T₂` on the adapted basis -/
theorem L2 {r : Rule1} {n : Nat} (h : Exact1 r n) (i j k : Nat) (hd : i + j + k + 2 ≤ n) :
    apply3 (product3 r) (fun x y z => x ^ 2 * y * gXWZ i j k (x * (1 - y + y * z)) (x * y * z) x) =
      1 / (((i : Rat) + j + k + 3) * ((j : Rat) + 1) * ((i : Rat) + j + 2)) := by
  have e : (fun x y z : Rat => x ^ 2 * y * gXWZ i j k (x * (1 - y + y * z)) (x * y * z) x) =
      fun x y z => ∑ m ∈ range (i + 1), (i.choose m : Rat) *
        (x ^ (i + j + k + 2) * ((1 - y) ^ (m + j) * y ^ (i - m + 1)) * z ^ (i - m)) := by
    funext x y z
    unfold gXWZ
    have h1 : x * (1 - y + y * z) - x * y * z = x * (1 - y) := by ring
    have h2 : x * (1 - y + y * z) = x * ((1 - y) + y * z) := by ring
    rw [h1, h2, mul_pow x ((1 - y) + y * z) i, add_pow (1 - y) (y * z) i, Finset.mul_sum, Finset.sum_mul,
      Finset.sum_mul, Finset.mul_sum]
    apply Finset.sum_congr rfl
    intro m _
    rw [mul_pow y z (i - m), mul_pow x (1 - y) j]
    ring
  rw [e, apply3_finset_sum]
  have hterm : ∀ m ∈ range (i + 1),
      (i.choose m : Rat) * apply3 (product3 r) (fun x y z =>
        x ^ (i + j + k + 2) * ((1 - y) ^ (m + j) * y ^ (i - m + 1)) * z ^ (i - m)) =
      ((i.factorial : Rat) / ((i + j + 2).factorial : Rat) / ((i : Rat) + j + k + 3)) *
        (((m + j).factorial : Rat) / (m.factorial : Rat)) := by
    intro m hm
    have hm' : m ≤ i := by have := Finset.mem_range.mp hm; omega
    rw [apply3_product3 r (fun x => x ^ (i + j + k + 2)) (fun y => (1 - y) ^ (m + j) * y ^ (i - m + 1))
      (fun z => z ^ (i - m))]
    have hx := h (i + j + k + 2) hd
    have hz := h (i - m) (by omega)
    unfold mom at hx hz
    rw [hx, hz, beta_exact h (m + j) (i - m + 1) (by omega), show m + j + (i - m + 1) + 1 = i + j + 2 by omega,
      fact_succ (i - m)]
    have hc : (i.choose m : Rat) * (m.factorial : Rat) * ((i - m).factorial : Rat) = (i.factorial : Rat) := by
      exact_mod_cast Nat.choose_mul_factorial_mul_factorial hm'
    have a1 := fact_ne m
    have a2 := fact_ne (i - m)
    have a3 := fact_ne (i + j + 2)
    have a4 : (((i - m : Nat) : Rat) + 1) ≠ 0 := by positivity
    have a5 : ((i : Rat) + j + k + 3) ≠ 0 := by positivity
    rw [← hc]
    push_cast
    field_simp
    ring
  rw [Finset.sum_congr rfl hterm, ← Finset.mul_sum]
  have hs := fact_ratio_sum j i
  have a0 : ((j : Rat) + 1) ≠ 0 := by positivity
  have hs' : ∑ m ∈ range (i + 1), ((m + j).factorial : Rat) / (m.factorial : Rat) =
      ((i + j + 1).factorial : Rat) / (i.factorial : Rat) / ((j : Rat) + 1) := by
    rw [← hs]; field_simp
  rw [hs', show i + j + 2 = (i + j + 1) + 1 by ring, fact_succ (i + j + 1)]
  have a1 := fact_ne i
  have a2 := fact_ne (i + j + 1)
  have a5 : ((i : Rat) + j + k + 3) ≠ 0 := by positivity
  have a6 : ((i : Rat) + j + 2) ≠ 0 := by positivity
  push_cast
  field_simp
  ring

/-- the half functional on the adapted basis: `∫_{Y ≤ X} X^i (X−Y)^j Z^k` -/
theorem Hf_gXWZ {r : Rule1} {n : Nat} (h : Exact1 r n) (i j k : Nat) (hd : i + j + k + 2 ≤ n) :
    Hf (product3 r) (gXWZ i j k) = 1 / (((j : Rat) + 1) * ((k : Rat) + 1) * ((i : Rat) + j + 2)) := by
  unfold Hf
  have e : (fun x y z : Rat => x ^ 2 * y *
      (gXWZ i j k x (x * (1 - y)) (x * y * z) + gXWZ i j k (x * (1 - y + y * z)) (x * y * z) x +
        gXWZ i j k x (x * (1 - y * z)) (x * y))) =
      fun x y z => x ^ 2 * y * (gXWZ i j k x (x * (1 - y)) (x * y * z) + gXWZ i j k x (x * (1 - y * z)) (x * y)) +
        x ^ 2 * y * gXWZ i j k (x * (1 - y + y * z)) (x * y * z) x := by
    funext x y z; ring
  rw [e, apply3_add, L13 h i j k hd, L2 h i j k hd]
  have a1 : ((i : Rat) + j + k + 3) ≠ 0 := by positivity
  have a2 : ((j : Rat) + 1) ≠ 0 := by positivity
  have a3 : ((k : Rat) + 1) ≠ 0 := by positivity
  have a4 : ((i : Rat) + j + 2) ≠ 0 := by positivity
  field_simp
  ring

/-- the half functional on monomials: `∫_{Y ≤ X} X^a Y^b Z^c = 1/((b+1)(c+1)(a+b+2))` -/
theorem Hf_monomial {r : Rule1} {n : Nat} (h : Exact1 r n) (a b c : Nat) (hd : a + b + c + 2 ≤ n) :
    Hf (product3 r) (fun X Y Z => X ^ a * Y ^ b * Z ^ c) =
      1 / (((b : Rat) + 1) * ((c : Rat) + 1) * ((a : Rat) + b + 2)) := by
  have e : (fun X Y Z : Rat => X ^ a * Y ^ b * Z ^ c) =
      fun X Y Z => ∑ q ∈ range (b + 1), ((b.choose q : Rat) * (-1) ^ q) * gXWZ (a + b - q) q c X Y Z := by
    funext X Y Z
    unfold gXWZ
    have hY : Y = -(X - Y) + X := by ring
    conv_lhs => rw [hY, add_pow (-(X - Y)) X b]
    rw [Finset.mul_sum, Finset.sum_mul]
    apply Finset.sum_congr rfl
    intro q hq
    have hq' : q ≤ b := by have := Finset.mem_range.mp hq; omega
    rw [show a + b - q = a + (b - q) by omega, pow_add, neg_pow]
    ring
  rw [e, Hf_finset_sum]
  have hterm : ∀ q ∈ range (b + 1), ((b.choose q : Rat) * (-1) ^ q) * Hf (product3 r) (gXWZ (a + b - q) q c) =
      (1 / (((c : Rat) + 1) * ((a : Rat) + b + 2))) * (((b.choose q : Rat) * (-1) ^ q) / ((q : Rat) + 1)) := by
    intro q hq
    have hq' : q ≤ b := by have := Finset.mem_range.mp hq; omega
    rw [Hf_gXWZ h (a + b - q) q c (by omega)]
    have e1 : (((a + b - q : Nat) : Rat)) + q = (a : Rat) + b := by
      have : a + b - q + q = a + b := by omega
      exact_mod_cast this
    have a1 : ((q : Rat) + 1) ≠ 0 := by positivity
    have a2 : ((c : Rat) + 1) ≠ 0 := by positivity
    have a3 : ((a : Rat) + b + 2) ≠ 0 := by positivity
    rw [e1]
    field_simp
  rw [Finset.sum_congr rfl hterm, ← Finset.mul_sum, alt_choose_sum b]
  have a1 : ((b : Rat) + 1) ≠ 0 := by positivity
  have a2 : ((c : Rat) + 1) ≠ 0 := by positivity
  have a3 : ((a : Rat) + b + 2) ≠ 0 := by positivity
  field_simp

/-- **the identical-panel Duffy scheme is exact for total degree `≤ n − 2`** -/
theorem duffyId3_exact {r : Rule1} {n : Nat} (h : Exact1 r n) (a b c : Nat) (hd : a + b + c + 2 ≤ n) :
    apply3 (duffyId3 (product3 r) false) (fun x y z => x ^ a * y ^ b * z ^ c) =
      1 / (((a : Rat) + 1) * ((b : Rat) + 1) * ((c : Rat) + 1)) := by
  rw [duffyId3_split, Hf_monomial h a b c hd]
  have e : (fun X Y Z : Rat => Y ^ a * X ^ b * Z ^ c) = fun X Y Z => X ^ b * Y ^ a * Z ^ c := by
    funext X Y Z; ring
  rw [e, Hf_monomial h b a c (by omega)]
  have a1 : ((a : Rat) + 1) ≠ 0 := by positivity
  have a2 : ((b : Rat) + 1) ≠ 0 := by positivity
  have a3 : ((c : Rat) + 1) ≠ 0 := by positivity
  have a4 : ((a : Rat) + b + 2) ≠ 0 := by positivity
  have a5 : ((b : Rat) + a + 2) ≠ 0 := by positivity
  field_simp
  ring

theorem duffyId3_exact3 {r : Rule1} {n N : Nat} (h : Exact1 r n) (hN : N + 2 ≤ n) :
    Exact3 (duffyId3 (product3 r) false) N :=
  fun a b c habc => duffyId3_exact h a b c (by omega)

end Stbem.InitPot
