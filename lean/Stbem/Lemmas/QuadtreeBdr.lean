import Stbem.Lemmas.QuadtreeScan
import Stbem.Lemmas.QuadtreeInit

/-!
# `refine_msh_bdr` reaches the leaf whose edge is the requested dyadic boundary segment
-/
namespace Stbem.Quadtree

/-! ### dyadic pieces (as in `Stbem.Lemmas.MeshDyadic`) -/

/-- `[a', b']` is the `k`-th of the `2^j` equal pieces of `[a, b]`, for some `k < 2^j` -/
def Dy (a b a' b' : Rat) (j : Nat) : Prop :=
  ∃ k : Nat, k < 2 ^ j ∧ a' = a + k * ((b - a) / 2 ^ j) ∧ b' = a + (k + 1) * ((b - a) / 2 ^ j)

theorem Dy.zero {a b a' b' : Rat} (h : Dy a b a' b' 0) : a' = a ∧ b' = b := by
  obtain ⟨k, hk, h1, h2⟩ := h
  have : k = 0 := by simpa using hk
  subst this
  simp at h1 h2
  exact ⟨h1, h2⟩

theorem Dy.bounds {a b a' b' : Rat} {j : Nat} (hab : a < b) (h : Dy a b a' b' j) :
    a ≤ a' ∧ b' ≤ b ∧ a' < b' := by
  obtain ⟨k, hk, h1, h2⟩ := h
  have hp : (0 : Rat) < 2 ^ j := by positivity
  have hw : 0 < (b - a) / 2 ^ j := div_pos (by linarith) hp
  have hk0 : (0 : Rat) ≤ k := Nat.cast_nonneg k
  have hk1 : (k : Rat) + 1 ≤ 2 ^ j := by exact_mod_cast hk
  have hfull : (2 : Rat) ^ j * ((b - a) / 2 ^ j) = b - a := mul_div_cancel₀ _ (ne_of_gt hp)
  have e1 : 0 ≤ (k : Rat) * ((b - a) / 2 ^ j) := mul_nonneg hk0 (le_of_lt hw)
  have e2 : ((k : Rat) + 1) * ((b - a) / 2 ^ j) ≤ 2 ^ j * ((b - a) / 2 ^ j) :=
    mul_le_mul_of_nonneg_right hk1 (le_of_lt hw)
  refine ⟨by linarith, by linarith, ?_⟩
  rw [h1, h2]
  linarith

/-- a piece of depth `≥ 1` is shorter than the whole -/
theorem Dy.short {a b a' b' : Rat} {j : Nat} (hab : a < b) (h : Dy a b a' b' (j + 1)) :
    b' - a' < b - a := by
  obtain ⟨k, hk, h1, h2⟩ := h
  have hp : (0 : Rat) < 2 ^ (j + 1) := by positivity
  have h2' : (2 : Rat) ≤ 2 ^ (j + 1) := by
    have : (1 : Rat) ≤ 2 ^ j := one_le_pow₀ (by norm_num)
    rw [pow_succ]; linarith
  have e : b' - a' = (b - a) / 2 ^ (j + 1) := by rw [h1, h2]; ring
  rw [e, div_lt_iff₀ hp]
  nlinarith

theorem Dy.half {a b a' b' : Rat} {j : Nat} (h : Dy a b a' b' (j + 1)) :
    Dy a ((a + b) / 2) a' b' j ∨ Dy ((a + b) / 2) b a' b' j := by
  obtain ⟨k, hk, h1, h2⟩ := h
  have hp : (2 : Rat) ^ j ≠ 0 := by positivity
  by_cases hlt : k < 2 ^ j
  · left
    refine ⟨k, hlt, ?_, ?_⟩
    · rw [h1, pow_succ]; field_simp; ring
    · rw [h2, pow_succ]; field_simp; ring
  · right
    obtain ⟨k', rfl⟩ : ∃ k', k = 2 ^ j + k' := Nat.exists_eq_add_of_le (by omega)
    refine ⟨k', by rw [pow_succ] at hk; omega, ?_, ?_⟩
    · rw [h1, pow_succ]; push_cast; field_simp; ring
    · rw [h2, pow_succ]; push_cast; field_simp; ring

/-! ### sides -/

theorem side_axis_cases {s s' : Side} (h : s'.axis = s.axis) : s' = s ∨ s' = s.opp := by
  cases s <;> cases s' <;> simp_all [Side.axis, Side.opp]

theorem lineC_opp_ne {e : Elem} (hp : 0 < e.size) (s : Side) : lineC e s.opp ≠ lineC e s := by
  cases s <;> simp only [lineC, Side.opp] <;> intro h <;> linarith

/-- the segment is the dyadic piece of depth `j` of side `s` of `c` -/
def SegDy (axis : Bool) (X t0 t1 : Rat) (c : Elem) (s : Side) (j : Nat) : Prop :=
  s.axis = axis ∧ lineC c s = X ∧ Dy (lo c s) (hi c s) t0 t1 j

theorem SegDy.hit {axis : Bool} {X t0 t1 : Rat} {c : Elem} {s : Side} {j : Nat} (hp : 0 < c.size)
    (h : SegDy axis X t0 t1 c s j) : Hit axis X t0 t1 c s ∧ t0 < t1 := by
  obtain ⟨ha, hx, hd⟩ := h
  obtain ⟨b1, b2, b3⟩ := hd.bounds (show lo c s < hi c s by unfold hi; linarith)
  exact ⟨⟨ha, hx, b1, le_of_lt b3, b2⟩, b3⟩

/-! ### first round: among the leaves only `(c, s)` is hit when nothing lies across `s` -/

theorem leaves_unique {m : QT} (h : QInv m) {c : Elem} (hc : c ∈ m.leaves) {s : Side}
    (hB : ∀ n ∈ m.leaves, ¬ Adj c s n) {axis : Bool} {X t0 t1 : Rat}
    (hit : Hit axis X t0 t1 c s) (hlt : t0 < t1) :
    ∀ e ∈ m.leaves, ∀ s', Hit axis X t0 t1 e s' → e = c ∧ s' = s := by
  intro e he s' hit'
  have hp := h.size_pos hc
  have hpe := h.size_pos he
  obtain ⟨a1, x1, l1, _, u1⟩ := hit
  obtain ⟨a2, x2, l2, _, u2⟩ := hit'
  rcases side_axis_cases (a2.trans a1.symm) with rfl | rfl
  · refine ⟨?_, rfl⟩
    -- both squares contain a point just inside the line
    unfold hi at u1 u2
    cases s' <;> simp only [lineC, lo] at x1 x2 l1 l2 u1 u2
    · obtain ⟨y, y1, y2, y3, y4⟩ := exists_common (a := e.y0) (b := e.y0 + e.size) (a' := c.y0)
        (b' := c.y0 + c.size) (by linarith) (by linarith) (by linarith) (by linarith)
      exact h.tiles.disjoint e he c hc t0 y ⟨l2, by linarith, y1, y2⟩ ⟨l1, by linarith, y3, y4⟩
    · have hx : ∃ x, e.x0 ≤ x ∧ x < e.x0 + e.size ∧ c.x0 ≤ x ∧ x < c.x0 + c.size := by
        rcases le_total e.x0 c.x0 with hh | hh
        · exact ⟨c.x0, hh, by linarith, le_refl _, by linarith⟩
        · exact ⟨e.x0, le_refl _, by linarith, hh, by linarith⟩
      obtain ⟨x, y1, y2, y3, y4⟩ := hx
      exact h.tiles.disjoint e he c hc x t0 ⟨y1, y2, l2, by linarith⟩ ⟨y3, y4, l1, by linarith⟩
    · have hy : ∃ y, e.y0 ≤ y ∧ y < e.y0 + e.size ∧ c.y0 ≤ y ∧ y < c.y0 + c.size := by
        rcases le_total e.y0 c.y0 with hh | hh
        · exact ⟨c.y0, hh, by linarith, le_refl _, by linarith⟩
        · exact ⟨e.y0, le_refl _, by linarith, hh, by linarith⟩
      obtain ⟨y, y1, y2, y3, y4⟩ := hy
      exact h.tiles.disjoint e he c hc t0 y ⟨l2, by linarith, y1, y2⟩ ⟨l1, by linarith, y3, y4⟩
    · obtain ⟨x, y1, y2, y3, y4⟩ := exists_common (a := e.x0) (b := e.x0 + e.size) (a' := c.x0)
        (b' := c.x0 + c.size) (by linarith) (by linarith) (by linarith) (by linarith)
      exact h.tiles.disjoint e he c hc x t0 ⟨y1, y2, l2, by linarith⟩ ⟨y3, y4, l1, by linarith⟩
  · exfalso
    apply hB e he
    unfold hi at u1 u2
    cases s <;> simp only [lineC, lo, Side.opp] at x1 x2 l1 l2 u1 u2 <;>
      simp only [Adj, OvX, OvY] <;> refine ⟨by linarith, by linarith, by linarith⟩

/-- widening: a neighbour across side `s` of a part of `c` whose side `s` lies on side `s` of `c` -/
theorem Adj.widen {c e n : Elem} {s : Side} (hsub : e.Sub c) (hline : lineC e s = lineC c s)
    (ha : Adj e s n) : Adj c s n := by
  obtain ⟨s1, s2, s3, s4⟩ := hsub
  cases s <;> simp only [Adj, OvX, OvY, lineC] at ha hline ⊢ <;>
    refine ⟨by linarith [ha.1], by linarith [ha.2.1], by linarith [ha.2.2]⟩

theorem Adj.not_sub {c n : Elem} {s : Side} (ha : Adj c s n) (hsub : n.Sub c) (hp : 0 < n.size) : False := by
  obtain ⟨s1, s2, s3, s4⟩ := hsub
  cases s <;> simp only [Adj] at ha <;> linarith [ha.1]

/-- a boundary side stays a boundary side under refinement -/
theorem boundary_persist {m m' : QT} (h : QInv m) (h' : QInv m') (hext : Ext m m') {c e : Elem}
    (hc : c ∈ m.leaves) {s : Side} (hB : ∀ n ∈ m.leaves, ¬ Adj c s n) (hsub : e.Sub c)
    (hline : lineC e s = lineC c s) : ∀ n ∈ m'.leaves, ¬ Adj e s n := by
  intro n hn ha
  obtain ⟨d, hd, nsub, -⟩ := hext.sub n hn
  have hpn := h'.size_pos hn
  have ha' : Adj c s n := ha.widen hsub hline
  by_cases hdc : d = c
  · subst hdc
    exact ha'.not_sub nsub hpn
  · exact hB d hd (Adj.of_sub h.tiles hc hd (Ne.symm hdc) nsub (h.size_pos hc) (h.size_pos hd) hpn ha')

/-! ### later rounds: among the four children only one is hit -/

/-- the child on side `s` of the parent in the lower (`false`) / upper (`true`) half of that side -/
def halfChild : Side → Bool → Nat
  | .bottom, false => 0
  | .bottom, true => 1
  | .right, false => 1
  | .right, true => 2
  | .top, false => 3
  | .top, true => 2
  | .left, false => 0
  | .left, true => 3

theorem halfChild_lt (s : Side) (u : Bool) : halfChild s u < 4 := by
  cases s <;> cases u <;> simp [halfChild]

theorem halfChild_geom (n : Nat) (c : Elem) (s : Side) (u : Bool) :
    lineC (child n c (halfChild s u)) s = lineC c s ∧
    lo (child n c (halfChild s u)) s = (if u then (lo c s + hi c s) / 2 else lo c s) ∧
    hi (child n c (halfChild s u)) s = (if u then hi c s else (lo c s + hi c s) / 2) := by
  cases s <;> cases u <;> simp only [halfChild, child, lineC, lo, hi, posDx, posDy] <;>
    refine ⟨?_, ?_, ?_⟩ <;> simp <;> ring

theorem children_unique {n : Nat} {c : Elem} (hp : 0 < c.size) {s : Side} {axis : Bool}
    {X t0 t1 : Rat} (ha : s.axis = axis) (hx : lineC c s = X) (hlt : t0 < t1) {k : Nat} (hk : k < 4)
    (hit : Hit axis X t0 t1 (child n c k) s) :
    ∀ e ∈ children n c, ∀ s', Hit axis X t0 t1 e s' → e = child n c k ∧ s' = s := by
  intro e he s' hit'
  obtain ⟨k', hk', rfl⟩ := mem_children.mp he
  obtain ⟨-, x1, l1, _, u1⟩ := hit
  obtain ⟨a2, x2, l2, _, u2⟩ := hit'
  rcases side_axis_cases (a2.trans ha.symm) with rfl | rfl
  · refine ⟨?_, rfl⟩
    congr 1
    apply pos_eq_of_offsets hk' hk
    · unfold hi at u1 u2
      rcases posDx_cases k with e1 | e1 <;> rcases posDx_cases k' with e2 | e2 <;> rw [e1, e2] <;>
        first | rfl | (exfalso; cases s' <;> simp only [lineC, lo, child, e1, e2] at x1 x2 l1 l2 u1 u2 hx <;> linarith)
    · unfold hi at u1 u2
      rcases posDy_cases k with e1 | e1 <;> rcases posDy_cases k' with e2 | e2 <;> rw [e1, e2] <;>
        first | rfl | (exfalso; cases s' <;> simp only [lineC, lo, child, e1, e2] at x1 x2 l1 l2 u1 u2 hx <;> linarith)
  · exfalso
    rcases posDx_cases k' with e1 | e1 <;> rcases posDy_cases k' with e2 | e2 <;>
      cases s <;> simp only [lineC, Side.opp, child, e1, e2] at x2 hx <;> linarith

/-! ### the descent -/

theorem bdrLoop_succ (v0 v1 : Rat × Rat) (axis : Bool) (fuel : Nat) (m : QT) (cands : List Elem) :
    bdrLoop v0 v1 axis (fuel + 1) m cands =
      (match (scan v0 v1 axis cands).ret with
      | some e => pure (m, e)
      | none =>
        match (scan v0 v1 axis cands).parent with
        | none => .error "assert:parent"
        | some p => do
          let m' ← refine (p.level + 1) m p
          bdrLoop v0 v1 axis fuel m' (lastChildren m')) := by
  rw [bdrLoop]
  rfl

/-- what the caller gets: a leaf of level `c.level + j` whose side `s` is exactly the segment -/
structure Found (axis : Bool) (X t0 t1 : Rat) (s : Side) (m : QT) (c : Elem) (L : Nat) (m' : QT)
    (e : Elem) : Prop where
  inv : QInv m'
  ext : Ext m m'
  leaf : e ∈ m'.leaves
  sub : e.Sub c
  level : e.level = L
  line : lineC e s = X
  lo : lo e s = t0
  hi : hi e s = t1

theorem bdrLoop_spec {axis : Bool} {X t0 t1 : Rat} {s : Side} (j : Nat) :
    ∀ (m : QT) (cands : List Elem) (c : Elem), QInv m → c ∈ m.leaves → c ∈ cands →
      (∀ e ∈ cands, 0 < e.size) → SegDy axis X t0 t1 c s j →
      (∀ e ∈ cands, ∀ s', Hit axis X t0 t1 e s' → e = c ∧ s' = s) →
      ∃ m' e, bdrLoop (pt axis X t0) (pt axis X t1) axis (j + 1) m cands = .ok (m', e) ∧
        Found axis X t0 t1 s m c (c.level + j) m' e := by
  induction j with
  | zero =>
    intro m cands c hinv hc hcc hpos hseg hun
    have hp := hinv.size_pos hc
    obtain ⟨hit, hlt⟩ := hseg.hit hp
    obtain ⟨e1, e2⟩ := hseg.2.2.zero
    rw [bdrLoop_succ, scan_unique cands hpos hcc hit hun]
    have : target t0 t1 c s = { ret := some c } := by
      unfold target; rw [if_pos ⟨e1.symm, e2⟩]
    rw [this]
    exact ⟨m, c, rfl, hinv, Ext.refl m, hc, Elem.Sub.refl c, rfl, hseg.2.1, e1.symm, e2.symm⟩
  | succ j ih =>
    intro m cands c hinv hc hcc hpos hseg hun
    have hp := hinv.size_pos hc
    obtain ⟨hit, hlt⟩ := hseg.hit hp
    obtain ⟨ha, hx, hd⟩ := hseg
    have hlh : lo c s < hi c s := by unfold hi; linarith
    have hshort := hd.short hlh
    have hne : ¬ (lo c s = t0 ∧ t1 = hi c s) := by rintro ⟨e1, e2⟩; rw [e1, ← e2] at hshort; linarith
    rw [bdrLoop_succ, scan_unique cands hpos hcc hit hun]
    have : target t0 t1 c s = { parent := some c } := by unfold target; rw [if_neg hne]
    rw [this]
    obtain ⟨m', hm', res⟩ := refine_res (c.level + 1) m c hinv hc (Nat.lt_succ_self _)
    simp only [hm', bind, Except.bind]
    -- the half of the side that contains the segment
    have pick : ∃ u : Bool, Dy (lo (child (m'.elems.length - 4) c (halfChild s u)) s)
        (hi (child (m'.elems.length - 4) c (halfChild s u)) s) t0 t1 j := by
      rcases hd.half with h | h
      · refine ⟨false, ?_⟩
        obtain ⟨-, g2, g3⟩ := halfChild_geom (m'.elems.length - 4) c s false
        rw [g2, g3]; simpa using h
      · refine ⟨true, ?_⟩
        obtain ⟨-, g2, g3⟩ := halfChild_geom (m'.elems.length - 4) c s true
        rw [g2, g3]; simpa using h
    obtain ⟨u, hdu⟩ := pick
    have hk := halfChild_lt s u
    have hgl := (halfChild_geom (m'.elems.length - 4) c s u).1
    have hseg' : SegDy axis X t0 t1 (child (m'.elems.length - 4) c (halfChild s u)) s j :=
      ⟨ha, by rw [hgl, hx], hdu⟩
    have hmem : child (m'.elems.length - 4) c (halfChild s u) ∈ lastChildren m' := by
      rw [res.last]; exact mem_children.mpr ⟨_, hk, rfl⟩
    have hpos' : ∀ e ∈ lastChildren m', 0 < e.size := fun e he => res.inv.size_pos (res.kids e he)
    obtain ⟨m'', e, hrun, found⟩ := ih m' (lastChildren m') _ res.inv (res.kids _ hmem) hmem hpos' hseg'
      (by
        rw [res.last]
        exact children_unique hp ha hx hlt hk (hseg'.hit (hpos' _ hmem)).1)
    refine ⟨m'', e, hrun, found.inv, res.ext.trans found.ext, found.leaf,
      found.sub.trans (child_sub _ c _ hp), ?_, found.line, found.lo, found.hi⟩
    rw [found.level]; show c.level + 1 + j = c.level + (j + 1); omega

/-! ### `vertex_from_coords` finds every vertex -/

theorem vfc_go_none (x y : Rat) : ∀ (l : List (Rat × Rat)) (i : Nat) (r : Nat),
    (x, y) ∉ l → vertexFromCoords.go x y i (some r) l = .ok (some r) := by
  intro l
  induction l with
  | nil => intro i r _; rfl
  | cons v l ih =>
    intro i r hn
    have hv : ¬ (v.1 = x ∧ v.2 = y) := by
      rintro ⟨e1, e2⟩
      exact hn (by rw [← e1, ← e2]; simp)
    rw [vertexFromCoords.go, if_neg hv]
    exact ih (i + 1) r (fun h => hn (List.mem_cons_of_mem _ h))

theorem vfc_go_some (x y : Rat) : ∀ (l : List (Rat × Rat)) (i : Nat), l.Nodup → (x, y) ∈ l →
    ∃ k, vertexFromCoords.go x y i none l = .ok (some (i + k)) ∧ l[k]? = some (x, y) := by
  intro l
  induction l with
  | nil => intro i _ h; simp at h
  | cons v l ih =>
    intro i hnd hm
    obtain ⟨hv, hnd'⟩ := List.nodup_cons.mp hnd
    by_cases hv' : v.1 = x ∧ v.2 = y
    · have e : v = (x, y) := by rw [← hv'.1, ← hv'.2]
      rw [vertexFromCoords.go, if_pos hv']
      simp only [Option.isSome_none, Bool.false_eq_true, if_false]
      refine ⟨0, ?_, by simp [e]⟩
      rw [vfc_go_none x y l (i + 1) i (e ▸ hv)]
      rfl
    · rw [vertexFromCoords.go, if_neg hv']
      have hm' : (x, y) ∈ l := by
        rcases List.mem_cons.mp hm with h | h
        · exact absurd ⟨by rw [← h], by rw [← h]⟩ hv'
        · exact h
      obtain ⟨k, hk1, hk2⟩ := ih (i + 1) hnd' hm'
      exact ⟨k + 1, by rw [hk1]; congr 2; omega, by simpa using hk2⟩

/-- a corner of an element is found, under its index in the vertex list -/
theorem vertexFromCoords_corner {m : QT} (h : QInv m) {f : Elem} (hf : f ∈ m.elems) {v : Rat × Rat}
    (hv : Corner f v) : ∃ k, vertexFromCoords m v.1 v.2 = .ok (some k) ∧ m.verts[k]? = some v := by
  have hm := h.verts.mem f hf v hv
  obtain ⟨k, hk1, hk2⟩ := vfc_go_some v.1 v.2 m.verts 0 h.verts.nodup hm
  exact ⟨k, by unfold vertexFromCoords; rw [hk1]; simp, hk2⟩

/-- the end points of a side are corners -/
theorem corner_lo (e : Elem) (s : Side) : Corner e (pt s.axis (lineC e s) (lo e s)) := by
  cases s <;> simp [Corner, pt, Side.axis, lineC, lo]

theorem corner_hi (e : Elem) (s : Side) : Corner e (pt s.axis (lineC e s) (hi e s)) := by
  cases s <;> simp [Corner, pt, Side.axis, lineC, lo, hi]

/-! ### the wrapper: orientation and axis -/

theorem lexLe_pt {axis : Bool} {X t0 t1 : Rat} (hlt : t0 < t1) :
    lexLe (pt axis X t0) (pt axis X t1) = true ∧ lexLe (pt axis X t1) (pt axis X t0) = false := by
  have h1 : ¬ t1 < t0 := by linarith
  have h2 : ¬ t1 = t0 := by intro h; linarith
  have h3 : ¬ t1 ≤ t0 := by linarith
  cases axis <;> simp [lexLe, pt, hlt, le_of_lt hlt, h1, h2, h3]

theorem refineMshBdr_eq {axis : Bool} {X t0 t1 : Rat} (hlt : t0 < t1) (fuel : Nat) (m : QT) :
    refineMshBdr fuel m (pt axis X t0) (pt axis X t1) =
      bdrLoop (pt axis X t0) (pt axis X t1) axis fuel m m.leaves ∧
    refineMshBdr fuel m (pt axis X t1) (pt axis X t0) =
      bdrLoop (pt axis X t0) (pt axis X t1) axis fuel m m.leaves := by
  obtain ⟨l1, l2⟩ := lexLe_pt (axis := axis) (X := X) hlt
  have hne : t0 ≠ t1 := ne_of_lt hlt
  constructor
  · unfold refineMshBdr
    simp only [l1, if_true]
    cases axis <;> simp [pt, hne]
  · unfold refineMshBdr
    simp only [l2, Bool.false_eq_true, if_false]
    cases axis <;> simp [pt, hne]

end Stbem.Quadtree
