import Stbem.Lemmas.FormulasB3
import Stbem.Lemmas.FormulasC
import Mathlib.MeasureTheory.Integral.IntervalIntegral.FundThmCalculus
import Mathlib.Analysis.SpecialFunctions.Trigonometric.Basic

/-!
# A concrete `Fns` satisfying all the laws used as hypotheses (non-vacuity)

`exp = Real.exp`, `pi = π`, the module constants as in the Python source, `ei` a primitive of
`e^t / t` on the negative axis (by the fundamental theorem of calculus), `erf` an odd stand-in
(`tanh`; Mathlib has no error function) with `erfc = 1 - erf`.
-/
namespace Stbem.Formulas.R
open MeasureTheory

/-- a primitive of `e^t / t` on `(-∞, 0)` -/
noncomputable def eiModel (x : ℝ) : ℝ := ∫ t in (-1:ℝ)..x, Real.exp t / t

theorem eiModel_deriv (x : ℝ) (hx : x < 0) : HasDerivAt eiModel (Real.exp x / x) x := by
  have hcont : ContinuousOn (fun t : ℝ => Real.exp t / t) {t | t ≠ 0} :=
    Real.continuous_exp.continuousOn.div continuousOn_id fun t ht => ht
  have hsub : Set.uIcc (-1 : ℝ) x ⊆ {t | t ≠ 0} := by
    intro t ht
    have h1 : t ≤ max (-1) x := ht.2
    have h2 : max (-1 : ℝ) x < 0 := max_lt (by norm_num) hx
    exact (lt_of_le_of_lt h1 h2).ne
  have hint : IntervalIntegrable (fun t : ℝ => Real.exp t / t) volume (-1) x :=
    (hcont.mono hsub).intervalIntegrable
  have hmeas : Measurable (fun t : ℝ => Real.exp t / t) := Real.measurable_exp.div measurable_id
  exact intervalIntegral.integral_hasDerivAt_right hint
    hmeas.stronglyMeasurable.stronglyMeasurableAtFilter
    (hcont.continuousAt (isOpen_ne.mem_nhds hx.ne))

/-- the model -/
noncomputable def model : Fns where
  exp := Real.exp
  sqrt := Real.sqrt
  erf := Real.tanh
  erfc := fun x => 1 - Real.tanh x
  ei := eiModel
  e1 := fun x => - eiModel (-x)
  pow32 := fun z => z * Real.sqrt z
  pi := Real.pi
  fpiInv := 1 / (4 * Real.pi)
  piSqrt := Real.sqrt Real.pi
  hpiInv := 1 / (192 * Real.pi)

theorem model_exp : model.exp = Real.exp := rfl
theorem model_expLaw : ExpLaw model := ⟨Real.exp_add, Real.exp_ne_zero⟩
theorem model_eiLaw : EiLaw model := eiModel_deriv
theorem model_erf_odd : ∀ x, model.erf (-x) = - model.erf x := Real.tanh_neg
theorem model_erfc : ∀ x, model.erfc x = 1 - model.erf x := fun _ => rfl
theorem model_hpiInv : model.hpiInv = 1 / (192 * model.pi) := rfl
theorem model_fpiInv : model.fpiInv = 1 / (4 * model.pi) := rfl
theorem model_piSqrt : model.piSqrt = model.sqrt model.pi := rfl

end Stbem.Formulas.R
