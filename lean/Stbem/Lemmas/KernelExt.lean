import Stbem.Lemmas.KernelSign
import Mathlib.Analysis.Calculus.FDeriv.Extend

/-!
# The causal extensions by zero are `C¹`

For `ρ > 0` the three functions of `z > 0`

* `Hp S ρ z = z·e^{-ρ/z} + (ρ+z)·Ei(-ρ/z)`   (the bracket of the four-term formula of `sl_dtk`),
* `Ei(-ρ/z)`                                  (the bracket of `sl_g`),
* `e^{-ρ/z}/z`                                (the heat kernel up to the factor `1/(4π)`)

all tend to `0` as `z → 0+`.  So their extensions by `0` to `z ≤ 0` (`ext0`; this is exactly what the
guards `if b > d`, `if a ≤ b then 0` of the source implement) are continuous on `ℝ`, and
`(ext0 Hp)' = ext0 Ei(-ρ/·)`, `(ext0 Ei(-ρ/·))' = - ext0 (e^{-ρ/·}/·)` hold at **every** real `z`,
`z = 0` included (`hasDerivAt_of_hasDerivAt_of_ne`: a function that is continuous at a point and
differentiable around it with a derivative that has a limit there, is differentiable there).

Only `S.exp = Real.exp`, `EiLaw S` and `EiLim S` are used.
-/
namespace Stbem.Formulas.R
open Filter Topology

/-- extension by zero to `z ≤ 0` -/
noncomputable def ext0 (f : ℝ → ℝ) (z : ℝ) : ℝ := if 0 < z then f z else 0

theorem ext0_pos (f : ℝ → ℝ) {z : ℝ} (hz : 0 < z) : ext0 f z = f z := if_pos hz
theorem ext0_nonpos (f : ℝ → ℝ) {z : ℝ} (hz : z ≤ 0) : ext0 f z = 0 := if_neg (not_lt.mpr hz)

theorem ext0_eventually_pos (f : ℝ → ℝ) {z : ℝ} (hz : 0 < z) : ext0 f =ᶠ[𝓝 z] f :=
  (lt_mem_nhds hz).mono fun _ hy => ext0_pos f hy

theorem ext0_eventually_neg (f : ℝ → ℝ) {z : ℝ} (hz : z < 0) : ext0 f =ᶠ[𝓝 z] fun _ => 0 :=
  (gt_mem_nhds hz).mono fun _ hy => ext0_nonpos f (le_of_lt hy)

theorem ext0_continuousAt_zero (f : ℝ → ℝ) (h0 : Tendsto f (𝓝[>] 0) (𝓝 0)) :
    ContinuousAt (ext0 f) 0 := by
  unfold ContinuousAt
  rw [ext0_nonpos f le_rfl]
  have h : Tendsto (ext0 f) (𝓝[≤] 0 ⊔ 𝓝[>] 0) (𝓝 0) := by
    rw [tendsto_sup]
    constructor
    · refine tendsto_const_nhds.congr' ?_
      filter_upwards [self_mem_nhdsWithin] with y hy
      exact (ext0_nonpos f hy).symm
    · refine h0.congr' ?_
      filter_upwards [self_mem_nhdsWithin] with y hy
      exact (ext0_pos f hy).symm
  rwa [nhdsLE_sup_nhdsGT] at h

theorem ext0_continuous (f : ℝ → ℝ) (hc : ∀ z, 0 < z → ContinuousAt f z)
    (h0 : Tendsto f (𝓝[>] 0) (𝓝 0)) : Continuous (ext0 f) := by
  rw [continuous_iff_continuousAt]
  intro z
  rcases lt_trichotomy z 0 with hz | rfl | hz
  · exact (continuousAt_const.congr (ext0_eventually_neg f hz).symm)
  · exact ext0_continuousAt_zero f h0
  · exact ((hc z hz).congr (ext0_eventually_pos f hz).symm)

/-- if `f` has derivative `f'` on `z > 0` and both tend to `0` at `0+`, then `ext0 f` is differentiable at every
real `z` with derivative `ext0 f'` -/
theorem ext0_hasDerivAt (f f' : ℝ → ℝ) (hd : ∀ z, 0 < z → HasDerivAt f (f' z) z)
    (h0 : Tendsto f (𝓝[>] 0) (𝓝 0)) (h0' : Tendsto f' (𝓝[>] 0) (𝓝 0)) (z : ℝ) :
    HasDerivAt (ext0 f) (ext0 f' z) z := by
  refine hasDerivAt_of_hasDerivAt_of_ne' (x := 0) ?_ (ext0_continuousAt_zero f h0)
    (ext0_continuousAt_zero f' h0') z
  intro y hy
  rcases lt_or_gt_of_ne hy with hy | hy
  · rw [ext0_nonpos f' hy.le]
    exact (hasDerivAt_const y (0 : ℝ)).congr_of_eventuallyEq (ext0_eventually_neg f hy)
  · rw [ext0_pos f' hy]
    exact (hd y hy).congr_of_eventuallyEq (ext0_eventually_pos f hy)

/-! ### limits at `0+` -/

theorem tendsto_arg (ρ : ℝ) (hρ : 0 < ρ) : Tendsto (fun z : ℝ => -ρ / z) (𝓝[>] 0) atBot := by
  have h := tendsto_inv_nhdsGT_zero (𝕜 := ℝ)
  have h2 := h.const_mul_atTop_of_neg (neg_lt_zero.mpr hρ)
  refine h2.congr fun z => ?_
  rw [div_eq_mul_inv]

theorem tendsto_ei_arg (S : Fns) (hlim : EiLim S) (ρ : ℝ) (hρ : 0 < ρ) :
    Tendsto (fun z : ℝ => S.ei (-ρ / z)) (𝓝[>] 0) (𝓝 0) :=
  hlim.comp (tendsto_arg ρ hρ)

theorem tendsto_exp_arg (ρ : ℝ) (hρ : 0 < ρ) :
    Tendsto (fun z : ℝ => Real.exp (-ρ / z)) (𝓝[>] 0) (𝓝 0) :=
  Real.tendsto_exp_atBot.comp (tendsto_arg ρ hρ)

theorem tendsto_id_gt : Tendsto (fun z : ℝ => z) (𝓝[>] 0) (𝓝 0) :=
  tendsto_id.mono_left nhdsWithin_le_nhds

/-- the heat kernel tends to `0` as `z → 0+` (for `ρ > 0`) -/
theorem tendsto_heat (ρ : ℝ) (hρ : 0 < ρ) :
    Tendsto (fun z : ℝ => Real.exp (-ρ / z) / z) (𝓝[>] 0) (𝓝 0) := by
  have hu : Tendsto (fun z : ℝ => ρ * z⁻¹) (𝓝[>] 0) atTop :=
    (tendsto_inv_nhdsGT_zero (𝕜 := ℝ)).const_mul_atTop hρ
  have h1 := (Real.tendsto_pow_mul_exp_neg_atTop_nhds_zero 1).comp hu
  have h2 := h1.const_mul ρ⁻¹
  rw [mul_zero] at h2
  refine h2.congr fun z => ?_
  simp only [Function.comp_apply, pow_one]
  have e : -(ρ * z⁻¹) = -ρ / z := by rw [div_eq_mul_inv, neg_mul]
  rw [e]
  field_simp

/-! ### the three functions -/

/-- the bracket of the four-term formula, `Fp S z r = S.fpiInv * Hp S (r/4) z` -/
noncomputable def Hp (S : Fns) (ρ z : ℝ) : ℝ := z * S.exp (-ρ / z) + (ρ + z) * S.ei (-ρ / z)

/-- `Ei(-ρ/z)` -/
noncomputable def Ep (S : Fns) (ρ z : ℝ) : ℝ := S.ei (-ρ / z)

/-- `e^{-ρ/z}/z` -/
noncomputable def Kp (ρ z : ℝ) : ℝ := Real.exp (-ρ / z) / z

theorem Fp_eq_Hp (S : Fns) (z r : ℝ) : Fp S z r = S.fpiInv * Hp S (r / 4) z := rfl

theorem Hp_tendsto (S : Fns) (hexp : S.exp = Real.exp) (hlim : EiLim S) (ρ : ℝ) (hρ : 0 < ρ) :
    Tendsto (Hp S ρ) (𝓝[>] 0) (𝓝 0) := by
  have h1 := tendsto_id_gt.mul (tendsto_exp_arg ρ hρ)
  have h2 := (tendsto_id_gt.const_add ρ).mul (tendsto_ei_arg S hlim ρ hρ)
  have h3 := h1.add h2
  simp only [mul_zero, add_zero] at h3
  unfold Hp
  rw [hexp]
  exact h3

theorem Kp_continuousAt (ρ z : ℝ) (hz : 0 < z) : ContinuousAt (Kp ρ) z :=
  ((exp_inner_deriv ρ z hz.ne').continuousAt).div continuousAt_id hz.ne'

/-- `(ext0 Hp)' = ext0 Ep` on all of `ℝ` -/
theorem Hext_hasDerivAt (S : Fns) (hexp : S.exp = Real.exp) (hei : EiLaw S) (hlim : EiLim S)
    (ρ : ℝ) (hρ : 0 < ρ) (z : ℝ) : HasDerivAt (ext0 (Hp S ρ)) (ext0 (Ep S ρ) z) z :=
  ext0_hasDerivAt (Hp S ρ) (Ep S ρ) (fun y hy => Fp_deriv' S hexp hei ρ y hρ hy)
    (Hp_tendsto S hexp hlim ρ hρ) (tendsto_ei_arg S hlim ρ hρ) z

/-- `(ext0 Ep)' = - ext0 Kp` on all of `ℝ` -/
theorem Eext_hasDerivAt (S : Fns) (hei : EiLaw S) (hlim : EiLim S) (ρ : ℝ) (hρ : 0 < ρ) (z : ℝ) :
    HasDerivAt (ext0 (Ep S ρ)) (-(ext0 (Kp ρ) z)) z := by
  have h := ext0_hasDerivAt (Ep S ρ) (fun y => -(Kp ρ y))
    (fun y hy => ei_inner_deriv S hei ρ y hρ hy) (tendsto_ei_arg S hlim ρ hρ)
    (by simpa [Kp] using (tendsto_heat ρ hρ).neg) z
  refine h.congr_deriv ?_
  unfold ext0
  split_ifs <;> simp

theorem Kext_continuous (ρ : ℝ) (hρ : 0 < ρ) : Continuous (ext0 (Kp ρ)) :=
  ext0_continuous (Kp ρ) (Kp_continuousAt ρ) (tendsto_heat ρ hρ)

theorem Eext_continuous (S : Fns) (hei : EiLaw S) (hlim : EiLim S) (ρ : ℝ) (hρ : 0 < ρ) :
    Continuous (ext0 (Ep S ρ)) :=
  continuous_iff_continuousAt.mpr fun z => (Eext_hasDerivAt S hei hlim ρ hρ z).continuousAt

theorem Hext_continuous (S : Fns) (hexp : S.exp = Real.exp) (hei : EiLaw S) (hlim : EiLim S)
    (ρ : ℝ) (hρ : 0 < ρ) : Continuous (ext0 (Hp S ρ)) :=
  continuous_iff_continuousAt.mpr fun z => (Hext_hasDerivAt S hexp hei hlim ρ hρ z).continuousAt

theorem Kext_nonneg (ρ z : ℝ) : 0 ≤ ext0 (Kp ρ) z := by
  unfold ext0 Kp
  split_ifs with h
  · exact div_nonneg (Real.exp_pos _).le h.le
  · exact le_rfl

theorem Kext_pos (ρ : ℝ) {z : ℝ} (hz : 0 < z) : 0 < ext0 (Kp ρ) z := by
  rw [ext0_pos _ hz]
  exact div_pos (Real.exp_pos _) hz

end Stbem.Formulas.R
