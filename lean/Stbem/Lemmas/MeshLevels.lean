import Stbem.Lemmas.MeshInit
import Stbem.Lemmas.MeshOps
import Mathlib.Tactic.FieldSimp
import Mathlib.Tactic.Positivity
import Mathlib.Tactic.NormNum
import Mathlib.Tactic.Push

/-!
# Dyadic level structure of the mesh; duplicate-free vertex list

* `refineAxis_pres` : every mesh predicate that is preserved by a bisection of a leaf is preserved by
  `refineAxis` (no invariant needed: `refineAxis` changes the mesh only through `bisect`), and hence
  by every composite operation of the model (`section Generic`);
* `LevelsOK X T m` : every leaf is the `(lt, kt, lx, kx)` dyadic descendant of a root cell of the
  tensor grid `X × T`;
* `VertsNodup m` : the vertex list has no duplicates.
-/
namespace Stbem.Mesh

/-! ### generic preservation -/

/-- invariant rule for `foldlM` in `Except` (no relation) -/
theorem foldlM_except_pres {σ α ε : Type} (f : σ → α → Except ε σ) (I : σ → Prop)
    (hstep : ∀ s a s', I s → f s a = .ok s' → I s') :
    ∀ (l : List α) (s s' : σ), I s → l.foldlM f s = .ok s' → I s' := by
  intro l s s' hI h
  exact (foldlM_except_inv f I (fun _ _ => True) (fun _ => trivial) (fun _ _ _ _ _ => trivial)
    (fun s a s' hI hf => ⟨hstep s a s' hI hf, trivial⟩) l s s' hI h).1

section Generic

variable (Q : Mesh → Prop) (hQ : ∀ (m : Mesh) (c : Cell) (ax : Ax), c ∈ m.leaves → Q m → Q (bisect m c ax))

include hQ

/-- `refineAxis` changes the mesh only through `bisect` of leaves -/
theorem refineAxis_pres (ax : Ax) : ∀ (fuel : Nat) (m : Mesh) (id : Nat) (m' : Mesh),
    Q m → refineAxis fuel m id ax = .ok m' → Q m' := by
  intro fuel
  induction fuel with
  | zero => intro m id m' _ h; simp [refineAxis] at h
  | succ fuel IH =>
    intro m id m' hq h
    rw [refineAxis_succ] at h
    cases hf : findLeaf m id with
    | none => rw [hf] at h; cases h
    | some c =>
      rw [hf] at h
      simp only [bind, Except.bind] at h
      split at h
      · cases h
      · rename_i M hM
        have hqM : Q M := by
          refine foldlM_except_pres (outerStep fuel ax c) Q ?_ Side.all m M hq hM
          intro M1 s M2 hq1 hs
          refine foldlM_except_pres (innerStep fuel ax c) Q ?_ (nbrs M1 c s) M1 M2 hq1 hs
          intro M3 n M4 hq3 hi
          unfold innerStep at hi
          split at hi
          · exact IH M3 n.id M4 hq3 hi
          · cases hi; exact hq3
        split at h
        · cases h
        · rename_i c' hc'
          cases h
          exact hQ M c' ax (findLeaf_some hc').1 hqM

theorem refineId_pres {m : Mesh} {id : Nat} {ax : Ax} {m' : Mesh} (hq : Q m)
    (hr : refineId m id ax = .ok m') : Q m' := by
  unfold refineId at hr
  split at hr
  · cases hr
  · exact refineAxis_pres Q hQ ax _ m id m' hq hr

theorem refineAll_pres {m : Mesh} {ids : List Nat} {ax : Ax} {m' : Mesh} (hq : Q m)
    (hr : refineAll m ids ax = .ok m') : Q m' :=
  foldlM_except_pres (fun m id => refineId m id ax) Q
    (fun _ _ _ hI hf => refineId_pres Q hQ hI hf) ids m m' hq hr

theorem refineBoth_pres {m : Mesh} {id : Nat} {r : Mesh × List Nat} (hq : Q m)
    (hr : refineBoth m id = .ok r) : Q r.1 := by
  unfold refineBoth at hr
  simp only [bind, Except.bind, pure, Except.pure] at hr
  split at hr
  · cases hr
  · rename_i m1 h1
    split at hr
    · cases hr
    · rename_i m2 h2
      split at hr
      · cases hr
      · rename_i m3 h3
        cases hr
        exact refineId_pres Q hQ (refineId_pres Q hQ (refineId_pres Q hQ hq h1) h2) h3

theorem uniformRefine_pres {m : Mesh} {m' : Mesh} (hq : Q m)
    (hr : uniformRefine m = .ok m') : Q m' := by
  unfold uniformRefine at hr
  simp only [bind, Except.bind] at hr
  split at hr
  · cases hr
  · rename_i m1 h1
    exact refineAll_pres Q hQ (refineAll_pres Q hQ hq h1) hr

theorem uniformRefineSpace_pres {m : Mesh} {m' : Mesh} (hq : Q m)
    (hr : uniformRefineSpace m = .ok m') : Q m' :=
  refineAll_pres Q hQ hq hr

theorem refinePhase_pres {m : Mesh} {marked : List Cell} {ax : Ax} {r : Mesh × List Cell} (hq : Q m)
    (hr : refinePhase m marked ax = .ok r) : Q r.1 := by
  unfold refinePhase at hr
  refine foldlM_except_pres _ (fun st : Mesh × List Cell => Q st.1) ?_ _ (m, []) r hq hr
  intro st c st' hI hf
  simp only [bind, Except.bind] at hf
  split at hf
  · cases hf
  · split at hf
    · cases hf
    · rename_i m1 h1
      cases hf
      exact refineId_pres Q hQ hI h1

theorem dorflerIso_pres {m : Mesh} {eta : List Rat} {perm : List Nat} {theta : Rat}
    {m' : Mesh} (hq : Q m) (hr : dorflerIso m eta perm theta = .ok m') : Q m' := by
  unfold dorflerIso at hr
  simp only [bind, Except.bind, pure, Except.pure] at hr
  split at hr
  · cases hr
  · split at hr
    · cases hr
    · split at hr
      · cases hr
      · rename_i r1 h1
        split at hr
        · cases hr
        · rename_i r2 h2
          cases hr
          exact refinePhase_pres Q hQ (refinePhase_pres Q hQ hq h1) h2

theorem dorflerAniso_pres {m : Mesh} {eta : List (Rat × Rat)} {theta : Rat}
    {m' : Mesh} (hq : Q m) (hr : dorflerAniso m eta theta = .ok m') : Q m' := by
  unfold dorflerAniso at hr
  simp only [bind, Except.bind, pure, Except.pure] at hr
  split at hr
  · cases hr
  · split at hr
    · cases hr
    · rename_i r1 h1
      split at hr
      · cases hr
      · rename_i r2 h2
        cases hr
        exact refinePhase_pres Q hQ (refinePhase_pres Q hQ hq h1) h2

theorem gradeSweep_pres {fixed : Bool} {m : Mesh} {p q : Nat} {K : Rat}
    {r : Mesh × Bool} (hq : Q m) (hr : gradeSweep fixed m p q K = .ok r) : Q r.1 := by
  unfold gradeSweep at hr
  simp only [bind, Except.bind, pure, Except.pure] at hr
  split at hr
  · cases hr
  · rename_i m1 h1
    split at hr
    · cases hr
    · rename_i m2 h2
      cases hr
      refine foldlM_except_pres _ Q ?_ _ m1 m2 (refineAll_pres Q hQ hq h1) h2
      intro s a s' hI hf
      split at hf
      · split at hf
        · cases hf; exact hI
        · cases hf
      · exact refineId_pres Q hQ hI hf

theorem grading_pres (fixed : Bool) (fuel : Nat) : ∀ {m : Mesh}, Q m → ∀ {p q : Nat} {K : Rat}
    {m' : Mesh}, grading fixed fuel m p q K = .ok m' → Q m' := by
  induction fuel with
  | zero => intro m _ p q K m' hr; simp [grading] at hr
  | succ fuel ih =>
    intro m h p q K m' hr
    rw [grading] at hr
    simp only [bind, Except.bind, pure, Except.pure] at hr
    split at hr
    · cases hr
    · rename_i r h1
      have i1 := gradeSweep_pres Q hQ h h1
      split at hr
      · exact ih i1 hr
      · cases hr
        exact i1

end Generic

/-- the special case of a predicate on leaves that is inherited by children -/
theorem bisect_forall (P : Cell → Prop)
    (hP : ∀ (k : Nat) (c : Cell) (ax : Ax), P c → P (children k c ax).1 ∧ P (children k c ax).2)
    (m : Mesh) (c : Cell) (ax : Ax) (hc : c ∈ m.leaves) (h : ∀ d ∈ m.leaves, P d) :
    ∀ d ∈ (bisect m c ax).leaves, P d := by
  intro d hd
  rw [bisect_leaves] at hd
  simp only [List.mem_append, List.mem_filter, List.mem_cons, List.not_mem_nil, or_false] at hd
  rcases hd with ⟨h1, _⟩ | rfl | rfl
  · exact h d h1
  · exact (hP _ c ax (h c hc)).1
  · exact (hP _ c ax (h c hc)).2

/-- if a predicate `P` on cells is inherited by `children` and holds for all leaves of `m`, it holds
for all leaves of `refineAxis fuel m id ax` whenever that returns -/
theorem refineAxis_forall (P : Cell → Prop)
    (hP : ∀ (k : Nat) (c : Cell) (ax : Ax), P c → P (children k c ax).1 ∧ P (children k c ax).2)
    (fuel : Nat) (m : Mesh) (id : Nat) (ax : Ax) (m' : Mesh) (h : ∀ d ∈ m.leaves, P d)
    (hr : refineAxis fuel m id ax = .ok m') : ∀ d ∈ m'.leaves, P d :=
  refineAxis_pres (fun m => ∀ d ∈ m.leaves, P d) (bisect_forall P hP) ax fuel m id m' h hr

/-! ### dyadic cells -/

/-- `[a, b]` is the `k`-th dyadic sub-interval of level `l` of an interval of the grid `X` -/
def Dy1 (X : List Rat) (l : Nat) (a b : Rat) : Prop :=
  ∃ (xa xb : Rat) (k : Nat), (xa, xb) ∈ pairs X ∧ k < 2 ^ l ∧
    a = xa + k * ((xb - xa) / 2 ^ l) ∧ b = xa + (k + 1) * ((xb - xa) / 2 ^ l)

/-- `c` is the `(lt,kt,lx,kx)` dyadic descendant of the root cell `[T_j,T_{j+1}] × [X_i,X_{i+1}]` -/
def Dyadic (X T : List Rat) (c : Cell) : Prop :=
  ∃ (xa xb ta tb : Rat) (kx kt : Nat), (xa, xb) ∈ pairs X ∧ (ta, tb) ∈ pairs T ∧ kx < 2 ^ c.lx ∧ kt < 2 ^ c.lt ∧
    c.x0 = xa + kx * ((xb - xa) / 2 ^ c.lx) ∧ c.x1 = xa + (kx + 1) * ((xb - xa) / 2 ^ c.lx) ∧
    c.t0 = ta + kt * ((tb - ta) / 2 ^ c.lt) ∧ c.t1 = ta + (kt + 1) * ((tb - ta) / 2 ^ c.lt)

def LevelsOK (X T : List Rat) (m : Mesh) : Prop := ∀ c ∈ m.leaves, Dyadic X T c

theorem dyadic_iff {X T : List Rat} {c : Cell} :
    Dyadic X T c ↔ Dy1 X c.lx c.x0 c.x1 ∧ Dy1 T c.lt c.t0 c.t1 := by
  constructor
  · rintro ⟨xa, xb, ta, tb, kx, kt, h1, h2, h3, h4, h5, h6, h7, h8⟩
    exact ⟨⟨xa, xb, kx, h1, h3, h5, h6⟩, ⟨ta, tb, kt, h2, h4, h7, h8⟩⟩
  · rintro ⟨⟨xa, xb, kx, h1, h3, h5, h6⟩, ⟨ta, tb, kt, h2, h4, h7, h8⟩⟩
    exact ⟨xa, xb, ta, tb, kx, kt, h1, h2, h3, h4, h5, h6, h7, h8⟩

/-- the two halves of a dyadic interval are dyadic of the next level (`k' = 2k`, `2k+1`) -/
theorem Dy1.halves {X : List Rat} {l : Nat} {a b : Rat} (h : Dy1 X l a b) :
    Dy1 X (l + 1) a ((a + b) / 2) ∧ Dy1 X (l + 1) ((a + b) / 2) b := by
  obtain ⟨xa, xb, k, hp, hk, ha, hb⟩ := h
  have h2 : (2 : Rat) ^ l ≠ 0 := by positivity
  refine ⟨⟨xa, xb, 2 * k, hp, by rw [pow_succ]; omega, ?_, ?_⟩,
    ⟨xa, xb, 2 * k + 1, hp, by rw [pow_succ]; omega, ?_, ?_⟩⟩
  · rw [ha, pow_succ]; push_cast; field_simp
  · rw [ha, hb, pow_succ]; push_cast; field_simp; ring
  · rw [ha, hb, pow_succ]; push_cast; field_simp; ring
  · rw [hb, pow_succ]; push_cast; field_simp; ring

/-- children of a dyadic cell are dyadic -/
theorem children_dyadic (X T : List Rat) (k : Nat) (c : Cell) (ax : Ax) (h : Dyadic X T c) :
    Dyadic X T (children k c ax).1 ∧ Dyadic X T (children k c ax).2 := by
  rw [dyadic_iff] at h
  obtain ⟨hx, ht⟩ := h
  cases ax
  · exact ⟨dyadic_iff.mpr ⟨hx, ht.halves.1⟩, dyadic_iff.mpr ⟨hx, ht.halves.2⟩⟩
  · exact ⟨dyadic_iff.mpr ⟨hx.halves.1, ht⟩, dyadic_iff.mpr ⟨hx.halves.2, ht⟩⟩

theorem bisect_levels {X T : List Rat} (m : Mesh) (c : Cell) (ax : Ax) (hc : c ∈ m.leaves)
    (h : LevelsOK X T m) : LevelsOK X T (bisect m c ax) :=
  bisect_forall (Dyadic X T) (children_dyadic X T) m c ax hc h

theorem init_levels (glue : Bool) (X T : List Rat) : LevelsOK X T (init glue X T) := by
  intro c hc
  have hleaves : (init glue X T).leaves =
      init.number 0 ((pairs T).flatMap fun tp => (pairs X).map fun xp => (tp, xp)) := rfl
  rw [hleaves] at hc
  obtain ⟨q, hq, j, rfl, _, _⟩ := number_mem hc
  simp only [List.mem_flatMap, List.mem_map] at hq
  obtain ⟨tp, htp, xp, hxp, rfl⟩ := hq
  refine ⟨xp.1, xp.2, tp.1, tp.2, 0, 0, hxp, htp, ?_⟩
  simp [mkCell]

/-! ### the vertex list -/

def VertsNodup (m : Mesh) : Prop := m.verts.Nodup

theorem addVert_nodup {vs : List (Rat × Rat)} (h : vs.Nodup) (v : Rat × Rat) : (addVert vs v).Nodup := by
  unfold addVert
  split
  · exact h
  · rename_i hc
    rw [List.nodup_append]
    refine ⟨h, List.nodup_singleton v, ?_⟩
    intro a ha b hb
    simp only [List.mem_singleton] at hb
    subst hb
    rintro rfl
    exact hc (by simpa using ha)

theorem bisect_vertsNodup (m : Mesh) (c : Cell) (ax : Ax) (_hc : c ∈ m.leaves) (h : VertsNodup m) :
    VertsNodup (bisect m c ax) :=
  addVert_nodup (addVert_nodup h _) _

theorem init_vertsNodup (glue : Bool) (X T : List Rat) (hX : X.Pairwise (· < ·))
    (hT : T.Pairwise (· < ·)) : VertsNodup (init glue X T) := by
  show (T.flatMap fun t => X.map fun x => (t, x)).Nodup
  have hXn : X.Nodup := hX.imp (fun h => ne_of_lt h)
  have hTn : T.Nodup := hT.imp (fun h => ne_of_lt h)
  unfold List.Nodup
  rw [List.pairwise_flatMap]
  constructor
  · intro t _
    rw [List.pairwise_map]
    exact hXn.imp (fun h e => h (congrArg Prod.snd e))
  · refine hTn.imp ?_
    intro a b hab p hp q hq
    simp only [List.mem_map] at hp hq
    obtain ⟨_, _, rfl⟩ := hp
    obtain ⟨_, _, rfl⟩ := hq
    exact fun e => hab (congrArg Prod.fst e)

/-! ### preservation by the operations (same shape as the `*_inv` theorems of `Props/C02`) -/

section Levels
variable (X T : List Rat)

theorem refineAxis_levels (fuel : Nat) (m : Mesh) (hl : LevelsOK X T m) (id : Nat) (ax : Ax) (m' : Mesh)
    (hr : refineAxis fuel m id ax = .ok m') : LevelsOK X T m' :=
  refineAxis_forall (Dyadic X T) (children_dyadic X T) fuel m id ax m' hl hr

theorem refineId_levels (m : Mesh) (hl : LevelsOK X T m) (id : Nat) (ax : Ax) (m' : Mesh)
    (hr : refineId m id ax = .ok m') : LevelsOK X T m' :=
  refineId_pres (LevelsOK X T) (fun m c ax => bisect_levels m c ax) hl hr

theorem refineAll_levels (m : Mesh) (hl : LevelsOK X T m) (ids : List Nat) (ax : Ax) (m' : Mesh)
    (hr : refineAll m ids ax = .ok m') : LevelsOK X T m' :=
  refineAll_pres (LevelsOK X T) (fun m c ax => bisect_levels m c ax) hl hr

theorem refineBoth_levels (m : Mesh) (hl : LevelsOK X T m) (id : Nat) (r : Mesh × List Nat)
    (hr : refineBoth m id = .ok r) : LevelsOK X T r.1 :=
  refineBoth_pres (LevelsOK X T) (fun m c ax => bisect_levels m c ax) hl hr

theorem uniformRefine_levels (m : Mesh) (hl : LevelsOK X T m) (m' : Mesh)
    (hr : uniformRefine m = .ok m') : LevelsOK X T m' :=
  uniformRefine_pres (LevelsOK X T) (fun m c ax => bisect_levels m c ax) hl hr

theorem uniformRefineSpace_levels (m : Mesh) (hl : LevelsOK X T m) (m' : Mesh)
    (hr : uniformRefineSpace m = .ok m') : LevelsOK X T m' :=
  uniformRefineSpace_pres (LevelsOK X T) (fun m c ax => bisect_levels m c ax) hl hr

theorem dorflerIso_levels (m : Mesh) (hl : LevelsOK X T m) (eta : List Rat) (perm : List Nat)
    (theta : Rat) (m' : Mesh) (hr : dorflerIso m eta perm theta = .ok m') : LevelsOK X T m' :=
  dorflerIso_pres (LevelsOK X T) (fun m c ax => bisect_levels m c ax) hl hr

theorem dorflerAniso_levels (m : Mesh) (hl : LevelsOK X T m) (eta : List (Rat × Rat)) (theta : Rat)
    (m' : Mesh) (hr : dorflerAniso m eta theta = .ok m') : LevelsOK X T m' :=
  dorflerAniso_pres (LevelsOK X T) (fun m c ax => bisect_levels m c ax) hl hr

theorem grading_levels (fixed : Bool) (fuel : Nat) (m : Mesh) (hl : LevelsOK X T m) (p q : Nat)
    (K : Rat) (m' : Mesh) (hr : grading fixed fuel m p q K = .ok m') : LevelsOK X T m' :=
  grading_pres (LevelsOK X T) (fun m c ax => bisect_levels m c ax) fixed fuel hl hr

end Levels

theorem refineAxis_vertsNodup (fuel : Nat) (m : Mesh) (hv : VertsNodup m) (id : Nat) (ax : Ax)
    (m' : Mesh) (hr : refineAxis fuel m id ax = .ok m') : VertsNodup m' :=
  refineAxis_pres VertsNodup bisect_vertsNodup ax fuel m id m' hv hr

theorem refineId_vertsNodup (m : Mesh) (hv : VertsNodup m) (id : Nat) (ax : Ax) (m' : Mesh)
    (hr : refineId m id ax = .ok m') : VertsNodup m' :=
  refineId_pres VertsNodup bisect_vertsNodup hv hr

theorem refineAll_vertsNodup (m : Mesh) (hv : VertsNodup m) (ids : List Nat) (ax : Ax) (m' : Mesh)
    (hr : refineAll m ids ax = .ok m') : VertsNodup m' :=
  refineAll_pres VertsNodup bisect_vertsNodup hv hr

theorem refineBoth_vertsNodup (m : Mesh) (hv : VertsNodup m) (id : Nat) (r : Mesh × List Nat)
    (hr : refineBoth m id = .ok r) : VertsNodup r.1 :=
  refineBoth_pres VertsNodup bisect_vertsNodup hv hr

theorem uniformRefine_vertsNodup (m : Mesh) (hv : VertsNodup m) (m' : Mesh)
    (hr : uniformRefine m = .ok m') : VertsNodup m' :=
  uniformRefine_pres VertsNodup bisect_vertsNodup hv hr

theorem uniformRefineSpace_vertsNodup (m : Mesh) (hv : VertsNodup m) (m' : Mesh)
    (hr : uniformRefineSpace m = .ok m') : VertsNodup m' :=
  uniformRefineSpace_pres VertsNodup bisect_vertsNodup hv hr

theorem dorflerIso_vertsNodup (m : Mesh) (hv : VertsNodup m) (eta : List Rat) (perm : List Nat)
    (theta : Rat) (m' : Mesh) (hr : dorflerIso m eta perm theta = .ok m') : VertsNodup m' :=
  dorflerIso_pres VertsNodup bisect_vertsNodup hv hr

theorem dorflerAniso_vertsNodup (m : Mesh) (hv : VertsNodup m) (eta : List (Rat × Rat)) (theta : Rat)
    (m' : Mesh) (hr : dorflerAniso m eta theta = .ok m') : VertsNodup m' :=
  dorflerAniso_pres VertsNodup bisect_vertsNodup hv hr

theorem grading_vertsNodup (fixed : Bool) (fuel : Nat) (m : Mesh) (hv : VertsNodup m) (p q : Nat)
    (K : Rat) (m' : Mesh) (hr : grading fixed fuel m p q K = .ok m') : VertsNodup m' :=
  grading_pres VertsNodup bisect_vertsNodup fixed fuel hv hr

end Stbem.Mesh
