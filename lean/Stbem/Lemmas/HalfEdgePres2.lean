import Stbem.Lemmas.HalfEdgePres

/-!
# H-layer: the cases (a)–(d) after one legal bisection — old leaves
-/
namespace Stbem.HalfEdge
open Stbem.Mesh (Ax Side Cell Mesh Inv Adj nbrs children)

theorem Opp.of_handles {h : HMesh} {e f : Nat} (hge : (h.edge e).glued = false) (hgf : (h.edge f).glued = false)
    (h0 : (h.edge f).v0 = (h.edge e).v1) (h1 : (h.edge f).v1 = (h.edge e).v0) : Opp h e f := by
  refine ⟨by rw [hge, hgf], ?_⟩
  rw [hge]
  exact ⟨h0, h1⟩

theorem SeamEq.symm {h : HMesh} {P Q : Rat × Rat} (e : SeamEq h P Q) : SeamEq h Q P := by
  obtain ⟨a, b⟩ := e
  refine ⟨a.symm, ?_⟩
  rcases b with ⟨b1, b2⟩ | ⟨b1, b2⟩
  · exact Or.inr ⟨b2, b1⟩
  · exact Or.inl ⟨b2, b1⟩

theorem Opp.symm {h : HMesh} {e f : Nat} (ho : Opp h e f) : Opp h f e := by
  obtain ⟨o1, o2⟩ := ho
  refine ⟨o1.symm, ?_⟩
  rw [o1]
  split
  · rename_i hg
    rw [if_pos hg] at o2
    exact ⟨o2.2.symm, o2.1.symm⟩
  · rename_i hg
    rw [if_neg hg] at o2
    exact ⟨o2.2.symm, o2.1.symm⟩

/-- mid points of seam-identified segments on vertical lines are seam-identified -/
theorem SeamEq.mid {h : HMesh} (hdom : h.xmin < h.xmax) {A B P Q : Rat × Rat} (hPQ : P.2 = Q.2)
    (hA : SeamEq h A Q) (hB : SeamEq h B P) : SeamEq h (mid A B) (mid Q P) := by
  obtain ⟨a1, a2⟩ := hA
  obtain ⟨b1, b2⟩ := hB
  refine ⟨by simp [Stbem.HalfEdge.mid, a1, b1], ?_⟩
  rcases a2 with ⟨a2, a3⟩ | ⟨a2, a3⟩ <;> rcases b2 with ⟨b2, b3⟩ | ⟨b2, b3⟩
  · left; simp only [Stbem.HalfEdge.mid, a2, a3, b2, b3]; constructor <;> ring
  · exfalso; rw [hPQ, a3] at b3; linarith
  · exfalso; rw [hPQ, a3] at b3; linarith
  · right; simp only [Stbem.HalfEdge.mid, a2, a3, b2, b3]; constructor <;> ring

/-- the halves of two opposite edges are opposite, crosswise -/
theorem opp_halves {R : HMesh} (hdom : R.xmin < R.xmax) {p k0 k1 e K0 K1 : Nat}
    (hk : KidsCover R p k0 k1) (hK : KidsCover R e K0 K1) (ho : Opp R e p)
    (hv : (R.edge e).glued = false → (R.edge K0).v1 = (R.edge k0).v1)
    (hx : (R.edge e).glued = true → (R.pt (R.edge e).v0).2 = (R.pt (R.edge e).v1).2) :
    Opp R K0 k1 ∧ Opp R K1 k0 := by
  obtain ⟨o1, o2⟩ := ho
  have g0 : (R.edge k1).glued = (R.edge K0).glued := by rw [hk.glued1, hK.glued0, o1]
  have g1 : (R.edge k0).glued = (R.edge K1).glued := by rw [hk.glued0, hK.glued1, o1]
  cases hg : (R.edge e).glued
  · rw [hg] at o2
    simp only [Bool.false_eq_true, if_false] at o2
    have hv' := hv hg
    refine ⟨⟨g0, ?_⟩, ⟨g1, ?_⟩⟩
    · rw [hK.glued0, hg]
      simp only [Bool.false_eq_true, if_false]
      exact ⟨by rw [← hk.vm, hv'], by rw [hk.v11, o2.2, hK.v00]⟩
    · rw [hK.glued1, hg]
      simp only [Bool.false_eq_true, if_false]
      exact ⟨by rw [hk.v00, o2.1, hK.v11], by rw [← hK.vm, hv']⟩
  · rw [hg] at o2
    simp only [if_true] at o2
    have hx' := hx hg
    have hm : SeamEq R (mid (R.pt (R.edge p).v0) (R.pt (R.edge p).v1)) (mid (R.pt (R.edge e).v1) (R.pt (R.edge e).v0)) :=
      SeamEq.mid hdom hx' o2.1 o2.2
    rw [mid_comm (R.pt (R.edge e).v1)] at hm
    refine ⟨⟨g0, ?_⟩, ⟨g1, ?_⟩⟩
    · rw [hK.glued0, hg]
      simp only [if_true]
      refine ⟨?_, ?_⟩
      · rw [← hk.vm, hk.midpt, hK.midpt]; exact hm
      · rw [hk.v11, hK.v00]; exact o2.2
    · rw [hK.glued1, hg]
      simp only [if_true]
      refine ⟨?_, ?_⟩
      · rw [hk.v00, hK.v11]; exact o2.1
      · rw [← hK.vm, hk.midpt, hK.midpt]; exact hm

section
variable {h : HMesh} {el : Nat} {ax : Ax} (C : Ctx h el ax)
include C

/-- the owner of an edge of an old leaf in the result -/
theorem Ctx.owner_old {l : Nat} (hl : l ∈ h.leaves) (hne : l ≠ el) (t : Side) :
    ((res h el ax).edge ((h.elem l).side t)).elem = some l := by
  rw [(C.edge_other_fields (C.side_lt hl t) (C.not_el_edge hl hne t)).2.2.2.2.2.2]
  exact C.hi.own.elem l hl t

/-- `selfNbr` means that the two bisected edges are each other's neighbour edge -/
theorem Ctx.self_symm (hs : selfNbr h el ax) :
    (h.edge ((h.elem el).side (bisSide ax))).nbr = some ((h.elem el).side (bisSide ax).opp) := by
  rcases C.hi.cases el C.hel (bisSide ax).opp with hA | hB | hC | hD
  · obtain ⟨f, n, h1, h2, h3, -⟩ := hA
    rw [hs] at h1; cases h1; exact h3
  · obtain ⟨f, f0, f1, n0, n1, h1, h2, h3, hk, -⟩ := hB
    rw [hs] at h1; cases h1
    have := C.hi.own.unref el C.hel (bisSide ax)
    rw [hk.kids] at this; cases this
  · obtain ⟨p, k0, k1, f, n, h1, -⟩ := hC
    rw [hs] at h1; cases h1
  · obtain ⟨h1, -⟩ := hD
    rw [hs] at h1; cases h1

/-- case (a) of an old leaf whose neighbour is not `el` is untouched -/
theorem Ctx.caseA_keep {l : Nat} (hl : l ∈ h.leaves) (hne : l ≠ el) {t : Side} {f n : Nat}
    (h1 : (h.edge ((h.elem l).side t)).nbr = some f) (h2 : (h.edge f).kids = none)
    (h3 : (h.edge f).nbr = some ((h.elem l).side t)) (hn : n ∈ h.leaves) (hnne : n ≠ el)
    (hf : (h.elem n).side t.opp = f) (ho : Opp h ((h.elem l).side t) f)
    (hlev : (h.elem n).level (sideAx t) = (h.elem l).level (sideAx t)) :
    CaseA (res h el ax) ((h.elem l).side t) t := by
  have hg := C.side_lt hl t
  have hfr : f < h.edges.size := by rw [← hf]; exact C.side_lt hn _
  have hfne : ∀ s, f ≠ (h.elem el).side s := by rw [← hf]; exact C.not_el_edge hn hnne _
  refine ⟨f, n, C.nbr_keep hg (C.not_el_edge hl hne t) h1, ?_, C.nbr_keep hfr hfne h3, C.mem_old hn hnne,
    by rw [C.side_old hn]; exact hf, C.opp_old hg hfr ho, ?_⟩
  · rw [(C.edge_other_fields hfr hfne).1]; exact h2
  · intro e he
    rw [C.owner_old hl hne t] at he
    cases he
    rw [C.level_old (C.leaf_lt hn), C.level_old (C.leaf_lt hl)]
    exact hlev

/-- an edge of an old leaf is not a self-neighbour edge, and a link of `el` pointing to an unrefined edge is empty -/
theorem Ctx.link_none_of_nbr {s : Side} {g : Nat} (hn : (h.edge ((h.elem el).side s)).nbr = some g)
    (hk : (h.edge g).kids = none) : linkOf h ((h.elem el).side s) = none := by
  unfold linkOf; rw [hn]; exact hk

/-- case (a) of an old leaf whose neighbour is `el` -/
theorem Ctx.caseA_el {l : Nat} (hl : l ∈ h.leaves) (hne : l ≠ el) {t : Side}
    (h1 : (h.edge ((h.elem l).side t)).nbr = some ((h.elem el).side t.opp))
    (h3 : (h.edge ((h.elem el).side t.opp)).nbr = some ((h.elem l).side t))
    (ho : Opp h ((h.elem l).side t) ((h.elem el).side t.opp))
    (hlev : (h.elem el).level (sideAx t) = (h.elem l).level (sideAx t)) :
    CaseA (res h el ax) ((h.elem l).side t) t ∨ CaseB (res h el ax) ((h.elem l).side t) t := by
  have P := C.pre
  obtain ⟨n0, n1, n2, n3, n4, n5⟩ := P.res_new
  have hg := C.side_lt hl t
  have hgne := C.not_el_edge hl hne t
  have hfr := C.side_lt C.hel t.opp
  have hgk := C.hi.own.unref l hl t
  obtain ⟨d1, d2, d3, d4, d5, d6⟩ := side_distinct ax
  have hown := C.owner_old hl hne t
  have hsax : sideAx t = sideAx t.opp := (sideAx_opp t).symm
  rcases side_cases ax t.opp with e | e | e | e
  · -- the neighbour edge is the first bisected edge: case (b) with the two new children
    right
    have hnself : ¬ selfNbr h el ax := by
      intro hs
      have := C.self_symm hs
      rw [← e, h3] at this
      exact hgne _ (Option.some.inj this)
    have hLa : LA h el ax = none := by
      unfold LA; rw [← e]; exact C.link_none_of_nbr h3 hgk
    have hea := C.el_edge_fields (bisSide ax)
    rw [← e] at hea
    refine ⟨(h.elem el).side t.opp, h.edges.size, h.edges.size + 1, h.elems.size, h.elems.size + 1,
      C.nbr_keep hg hgne h1, by rw [hea.1]; exact h3, by rw [hea.2, if_pos (Or.inr rfl)],
      by rw [e]; exact C.kidsCover_A, C.opp_old hg hfr ho, ?_, ?_, C.mem_c1, ?_, C.mem_c2, ?_, ?_⟩
    · rw [n0, if_neg hnself, hLa]; rfl
    · rw [n1, if_neg hnself, hLa]; rfl
    · rw [P.res_c1_side, e]; unfold c1Side; rw [if_pos rfl]
    · rw [P.res_c2_side, e]; unfold c2Side; rw [if_pos rfl]
    · intro e' he'
      rw [hown] at he'; cases he'
      have hax : sideAx t = ax := by rw [hsax, e]; exact (sideAx_bis ax).1
      rw [(C.level_child _).1, (C.level_child _).2, if_pos hax, C.level_old (C.leaf_lt hl), hlev]
      exact ⟨rfl, rfl⟩
  · -- the neighbour edge is the second bisected edge
    right
    have hnself : ¬ selfNbr h el ax := by
      intro hs
      unfold selfNbr at hs
      rw [← e, h3] at hs
      exact hgne _ (Option.some.inj hs)
    have hLb : lbEff h el ax (LB h el ax) = none := by
      rw [lbEff_other _ hnself]
      unfold LB; rw [← e]; exact C.link_none_of_nbr h3 hgk
    have heb := C.el_edge_fields (bisSide ax).opp
    rw [← e] at heb
    refine ⟨(h.elem el).side t.opp, h.edges.size + 2, h.edges.size + 3, h.elems.size + 1, h.elems.size,
      C.nbr_keep hg hgne h1, by rw [heb.1]; exact h3, by rw [heb.2, if_pos (Or.inl rfl)],
      by rw [e]; exact C.kidsCover_B, C.opp_old hg hfr ho, ?_, ?_, C.mem_c2, ?_, C.mem_c1, ?_, ?_⟩
    · rw [n2, hLb]; rfl
    · rw [n3, hLb]; rfl
    · rw [P.res_c2_side, e]; unfold c2Side; rw [if_neg d1.symm, if_pos rfl]
    · rw [P.res_c1_side, e]; unfold c1Side; rw [if_neg d1.symm, if_pos rfl]
    · intro e' he'
      rw [hown] at he'; cases he'
      have hax : sideAx t = ax := by rw [hsax, e]; exact (sideAx_bis ax).2
      rw [(C.level_child _).1, (C.level_child _).2, if_pos hax, C.level_old (C.leaf_lt hl), hlev]
      exact ⟨rfl, rfl⟩
  · -- the neighbour edge is kept and goes to `child2`
    left
    have hek := C.el_edge_fields (midSide ax)
    rw [← e] at hek
    obtain ⟨-, -, -, -, -⟩ := C.geo_old hfr
    refine ⟨(h.elem el).side t.opp, h.elems.size + 1, C.nbr_keep hg hgne h1, ?_, by rw [hek.1]; exact h3, C.mem_c2,
      ?_, C.opp_old hg hfr ho, ?_⟩
    · rw [C.kids_old hfr (by rw [e]; exact P.side_ne d2.symm) (by rw [e]; exact P.side_ne d4.symm)]
      exact C.hi.own.unref el C.hel _
    · rw [P.res_c2_side, e]; unfold c2Side; rw [if_neg d2.symm, if_neg d4.symm, if_pos rfl]
    · intro e' he'
      rw [hown] at he'; cases he'
      have hax : sideAx t ≠ ax := by rw [hsax, e]; exact (sideAx_mid ax).1
      rw [(C.level_child _).2, if_neg hax, C.level_old (C.leaf_lt hl), hlev]
  · -- the neighbour edge is kept and goes to `child1`
    left
    have hek := C.el_edge_fields (midSide ax).opp
    rw [← e] at hek
    refine ⟨(h.elem el).side t.opp, h.elems.size, C.nbr_keep hg hgne h1, ?_, by rw [hek.1]; exact h3, C.mem_c1,
      ?_, C.opp_old hg hfr ho, ?_⟩
    · rw [C.kids_old hfr (by rw [e]; exact P.side_ne d3.symm) (by rw [e]; exact P.side_ne d5.symm)]
      exact C.hi.own.unref el C.hel _
    · rw [P.res_c1_side, e]; unfold c1Side; rw [if_neg d3.symm, if_neg d5.symm, if_neg d6.symm]
    · intro e' he'
      rw [hown] at he'; cases he'
      have hax : sideAx t ≠ ax := by rw [hsax, e]; exact (sideAx_mid ax).2
      rw [(C.level_child _).1, if_neg hax, C.level_old (C.leaf_lt hl), hlev]

/-- a side of `el` without neighbour edge whose parent edge has one is not bisected (case (c) is illegal there) -/
theorem Ctx.kept_of_parent {s : Side} {p x : Nat} (hn : (h.edge ((h.elem el).side s)).nbr = none)
    (hp : (h.edge ((h.elem el).side s)).parent = some p) (hx : (h.edge p).nbr = some x) :
    s = midSide ax ∨ s = (midSide ax).opp := by
  have hC : CaseC h ((h.elem el).side s) s := by
    rcases C.hi.cases el C.hel s with hA | hB | hC | hD
    · obtain ⟨f, n, h1, -⟩ := hA; rw [hn] at h1; cases h1
    · obtain ⟨f, f0, f1, n0, n1, h1, -⟩ := hB; rw [hn] at h1; cases h1
    · exact hC
    · obtain ⟨-, h2, -⟩ := hD
      rw [(h2 p hp).1] at hx; cases hx
  rcases side_cases ax s with e | e | e | e
  · exact absurd hC (C.hi.no_caseC C.ha C.hel C.hl (by rw [e]; exact (sideAx_bis ax).1))
  · exact absurd hC (C.hi.no_caseC C.ha C.hel C.hl (by rw [e]; exact (sideAx_bis ax).2))
  · exact Or.inl e
  · exact Or.inr e

/-- the leaf that owns, after the bisection, the (kept) edge `side s` of the old leaf `n` -/
theorem Ctx.new_owner {n : Nat} (hn : n ∈ h.leaves) (s : Side)
    (hs : n = el → s = midSide ax ∨ s = (midSide ax).opp) :
    ∃ n', n' ∈ (res h el ax).leaves ∧ ((res h el ax).elem n').side s = (h.elem n).side s ∧
      ((res h el ax).elem n').level (sideAx s) = (h.elem n).level (sideAx s) := by
  have P := C.pre
  obtain ⟨d1, d2, d3, d4, d5, d6⟩ := side_distinct ax
  by_cases hne : n = el
  · subst hne
    rcases hs rfl with e | e
    · refine ⟨h.elems.size + 1, C.mem_c2, ?_, ?_⟩
      · rw [P.res_c2_side, e]; unfold c2Side; rw [if_neg d2.symm, if_neg d4.symm, if_pos rfl]
      · rw [(C.level_child _).2, if_neg (by rw [e]; exact (sideAx_mid ax).1)]
    · refine ⟨h.elems.size, C.mem_c1, ?_, ?_⟩
      · rw [P.res_c1_side, e]; unfold c1Side; rw [if_neg d3.symm, if_neg d5.symm, if_neg d6.symm]
      · rw [(C.level_child _).1, if_neg (by rw [e]; exact (sideAx_mid ax).2)]
  · exact ⟨n, C.mem_old hn hne, C.side_old hn s, C.level_old (C.leaf_lt hn) _⟩

/-- an old edge without neighbour edge keeps that, unless it is a child of the refined neighbour edge of a
bisected edge -/
theorem Ctx.nbr_none_keep {j : Nat} (hj : j < h.edges.size) (hn : (h.edge j).nbr = none)
    (hp : ∀ p, (h.edge j).parent = some p → (h.edge p).nbr ≠ some ((h.elem el).side (bisSide ax)) ∧
      (h.edge p).nbr ≠ some ((h.elem el).side (bisSide ax).opp)) :
    ((res h el ax).edge j).nbr = none := by
  by_cases h2 : ∃ s, j = (h.elem el).side s
  · obtain ⟨s, rfl⟩ := h2
    rw [(C.el_edge_fields s).1]; exact hn
  · have hne : ∀ s, j ≠ (h.elem el).side s := fun s e => h2 ⟨s, e⟩
    rw [C.edge_other_nbr hj hne, hn]
    · intro a0 a1 e
      obtain ⟨f, -, -, -, fn, -, hk, -⟩ := C.hi.caseB_of_link C.hel (s := bisSide ax) e
      constructor
      · rintro rfl; exact (hp f hk.par0).1 fn
      · rintro rfl; exact (hp f hk.par1).1 fn
    · intro b0 b1 e
      obtain ⟨f, -, -, -, fn, -, hk, -⟩ := C.hi.caseB_of_link C.hel (s := (bisSide ax).opp) e
      constructor
      · rintro rfl; exact (hp f hk.par0).2 fn
      · rintro rfl; exact (hp f hk.par1).2 fn

/-- an unowned old edge is not an edge of `el` -/
theorem Ctx.not_el_of_unowned {j : Nat} (hj : (h.edge j).elem = none) : ∀ s, j ≠ (h.elem el).side s := by
  intro s e
  have := C.hi.own.elem el C.hel s
  rw [← e, hj] at this; cases this

/-- case (b) of an old leaf -/
theorem Ctx.caseB_old {l : Nat} (hl : l ∈ h.leaves) (hne : l ≠ el) {t : Side}
    (hB : CaseB h ((h.elem l).side t) t) : CaseB (res h el ax) ((h.elem l).side t) t := by
  obtain ⟨f, f0, f1, n0, n1, h1, h2, h3, hk, ho, z0, z1, hn0, hf0, hn1, hf1, hlev⟩ := hB
  have hg := C.side_lt hl t
  have hgne := C.not_el_edge hl hne t
  have hfr := C.hi.wf.edgeN _ hg f h1
  have hfne := C.not_el_of_unowned h3
  obtain ⟨r0, r1⟩ := C.hi.wf.edgeK f hfr _ hk.kids
  obtain ⟨l0, l1⟩ := hlev l (C.hi.own.elem l hl t)
  have hpn : ∀ s, (h.edge f).nbr ≠ some ((h.elem el).side s) := by
    intro s e; rw [h2] at e; exact hgne s (Option.some.inj e)
  obtain ⟨m0, hm0, sm0, lv0⟩ := C.new_owner hn0 t.opp (by
    rintro rfl
    exact C.kept_of_parent (by rw [hf0]; exact z0) (by rw [hf0]; exact hk.par0) h2)
  obtain ⟨m1, hm1, sm1, lv1⟩ := C.new_owner hn1 t.opp (by
    rintro rfl
    exact C.kept_of_parent (by rw [hf1]; exact z1) (by rw [hf1]; exact hk.par1) h2)
  refine ⟨f, f0, f1, m0, m1, C.nbr_keep hg hgne h1, C.nbr_keep hfr hfne h2, ?_, C.kidsCover_old hfr hk,
    C.opp_old hg hfr ho, ?_, ?_, hm0, by rw [sm0]; exact hf0, hm1, by rw [sm1]; exact hf1, ?_⟩
  · rw [(C.edge_other_fields hfr hfne).2.2.2.2.2.2]; exact h3
  · exact C.nbr_none_keep r0 z0 (fun p hp => by rw [hk.par0] at hp; cases hp; exact ⟨hpn _, hpn _⟩)
  · exact C.nbr_none_keep r1 z1 (fun p hp => by rw [hk.par1] at hp; cases hp; exact ⟨hpn _, hpn _⟩)
  · intro e he
    rw [C.owner_old hl hne t] at he; cases he
    rw [C.level_old (C.leaf_lt hl), ← sideAx_opp t, lv0, lv1, sideAx_opp t]
    exact ⟨l0, l1⟩

theorem Ctx.vtxA_reuse {a0 a1 : Nat} (hL : LA h el ax = some (a0, a1))
    (hg : (h.edge ((h.elem el).side (bisSide ax))).glued = false) :
    vtxA h el ax (LA h el ax) = (h.edge a0).v1 := by
  have P := C.pre
  unfold vtxA midVertex newVertex
  rw [hL, (P.h1_fields _).2.2.2.2.1, hg]
  simp only [Option.isNone_some, Bool.or_self, Bool.false_eq_true, if_false]
  exact (P.h1_fields a0).2.2.2.1

theorem Ctx.vtxB_reuse (hs : ¬ selfNbr h el ax) {b0 b1 : Nat} (hL : LB h el ax = some (b0, b1))
    (hg : (h.edge ((h.elem el).side (bisSide ax).opp)).glued = false) :
    vtxB h el ax (LA h el ax) (LB h el ax) = (h.edge b0).v1 := by
  have P := C.pre
  obtain ⟨r0, -⟩ := C.lb_lt b0 b1 hL
  have hlb := P.lb
  rw [hL] at hlb
  obtain ⟨f, -, -, -, -, -, -, n0, -⟩ := hlb
  unfold vtxB midVertex newVertex
  rw [lbEff_other _ hs, hL, (P.h2_fields_side _).2.2.1, hg]
  simp only [Option.isNone_some, Bool.or_self, Bool.false_eq_true, if_false]
  rw [P.h2_edge_old r0 (n0 _), (linkUpd_fields _ _ _ _).2.2.1]
  exact (P.h1_fields b0).2.2.2.1

/-- a glued edge of `el` is vertical: both end points have the same `x` -/
theorem Ctx.glued_vertical {s : Side} (hg : (h.edge ((h.elem el).side s)).glued = true) :
    (h.pt (h.edge ((h.elem el).side s)).v0).2 = (h.pt (h.edge ((h.elem el).side s)).v1).2 := by
  have g := C.hi.geom el C.hel
  obtain ⟨-, hs, -⟩ := (C.hi.flags el C.hel).seamSide s hg
  rw [g.v0pt, g.v1pt]
  rcases hs with rfl | rfl <;> rfl

theorem Ctx.res_dom : (res h el ax).xmin < (res h el ax).xmax := by
  obtain ⟨-, b1, b2, -⟩ := res_box h el ax (LA h el ax) (LB h el ax)
  rw [b1, b2]; exact C.ha.dom.2

/-- the new children of the first bisected edge are opposite to the children of its refined neighbour edge -/
theorem Ctx.halves_A {a0 a1 : Nat} (hL : LA h el ax = some (a0, a1)) :
    Opp (res h el ax) h.edges.size a1 ∧ Opp (res h el ax) (h.edges.size + 1) a0 := by
  obtain ⟨f, n0, n1, h1, h2, h3, hk, ho, -⟩ := C.hi.caseB_of_link C.hel (s := bisSide ax) hL
  have her := C.side_lt C.hel (bisSide ax)
  have hfr := C.hi.wf.edgeN _ her f h1
  obtain ⟨r0, r1⟩ := C.la_lt a0 a1 hL
  obtain ⟨ev0, ev1⟩ := C.v0_lt C.hel (bisSide ax)
  obtain ⟨e0, e1, -, eg, -⟩ := C.geo_old her
  obtain ⟨n0', -⟩ := C.pre.res_new
  refine opp_halves C.res_dom (C.kidsCover_old hfr hk) C.kidsCover_A (C.opp_old her hfr ho) ?_ ?_
  · intro hg
    rw [eg] at hg
    rw [n0', (C.geo_old r0).2.1]
    exact C.vtxA_reuse hL hg
  · intro hg
    rw [eg] at hg
    rw [e0, e1, C.pt_old ev0, C.pt_old ev1]
    exact C.glued_vertical hg

theorem Ctx.halves_B (hs : ¬ selfNbr h el ax) {b0 b1 : Nat} (hL : LB h el ax = some (b0, b1)) :
    Opp (res h el ax) (h.edges.size + 2) b1 ∧ Opp (res h el ax) (h.edges.size + 3) b0 := by
  obtain ⟨f, n0, n1, h1, h2, h3, hk, ho, -⟩ := C.hi.caseB_of_link C.hel (s := (bisSide ax).opp) hL
  have her := C.side_lt C.hel (bisSide ax).opp
  have hfr := C.hi.wf.edgeN _ her f h1
  obtain ⟨r0, r1⟩ := C.lb_lt b0 b1 hL
  obtain ⟨ev0, ev1⟩ := C.v0_lt C.hel (bisSide ax).opp
  obtain ⟨e0, e1, -, eg, -⟩ := C.geo_old her
  obtain ⟨-, -, n2', -⟩ := C.pre.res_new
  refine opp_halves C.res_dom (C.kidsCover_old hfr hk) C.kidsCover_B (C.opp_old her hfr ho) ?_ ?_
  · intro hg
    rw [eg] at hg
    rw [n2', (C.geo_old r0).2.1]
    exact C.vtxB_reuse hs hL hg
  · intro hg
    rw [eg] at hg
    rw [e0, e1, C.pt_old ev0, C.pt_old ev1]
    exact C.glued_vertical hg

/-- `nbr_edge` of the children of the refined neighbour edge of the first bisected edge -/
theorem Ctx.nbr_la {a0 a1 : Nat} (hL : LA h el ax = some (a0, a1)) :
    ((res h el ax).edge a0).nbr = some (h.edges.size + 1) ∧ ((res h el ax).edge a1).nbr = some h.edges.size := by
  have P := C.pre
  obtain ⟨r0, r1⟩ := C.la_lt a0 a1 hL
  have hla := P.la
  rw [hL] at hla
  obtain ⟨f, -, -, -, -, -, -, n0, n1, hd, -⟩ := hla
  have hnb : ∀ j, (j = a0 ∨ j = a1) → ∀ b0 b1, lbEff h el ax (LB h el ax) = some (b0, b1) → j ≠ b0 ∧ j ≠ b1 := by
    intro j hj b0 b1 e
    unfold lbEff at e
    split at e
    · cases e; rcases hj with rfl | rfl <;> constructor <;> omega
    · obtain ⟨d1, d2, d3, d4⟩ := P.disj a0 a1 b0 b1 hL e
      rcases hj with rfl | rfl
      · exact ⟨d1, d2⟩
      · exact ⟨d3, d4⟩
  constructor
  · rw [C.edge_other r0 n0, linkUpd_not_mem _ (hnb a0 (Or.inl rfl)), hL]
    simp [linkUpd, setNbr]
  · rw [C.edge_other r1 n1, linkUpd_not_mem _ (hnb a1 (Or.inr rfl)), hL]
    simp [linkUpd, setNbr, hd.symm]

theorem Ctx.nbr_lb (hs : ¬ selfNbr h el ax) {b0 b1 : Nat} (hL : LB h el ax = some (b0, b1)) :
    ((res h el ax).edge b0).nbr = some (h.edges.size + 3) ∧ ((res h el ax).edge b1).nbr = some (h.edges.size + 2) := by
  have P := C.pre
  obtain ⟨r0, r1⟩ := C.lb_lt b0 b1 hL
  have hlb := P.lb
  rw [hL] at hlb
  obtain ⟨f, -, -, -, -, -, -, n0, n1, hd, -⟩ := hlb
  constructor
  · rw [C.edge_other r0 n0, lbEff_other _ hs, hL]
    simp [linkUpd, setNbr]
  · rw [C.edge_other r1 n1, lbEff_other _ hs, hL]
    simp [linkUpd, setNbr, hd.symm]

/-- with a refined neighbour edge the bisected edge is not its own neighbour's neighbour -/
theorem Ctx.not_self_of_la {a0 a1 : Nat} (hL : LA h el ax = some (a0, a1)) : ¬ selfNbr h el ax := by
  intro hs
  have := (C.pre.selfOK hs).1
  rw [hL] at this
  cases this

theorem Ctx.not_self_of_lb {b0 b1 : Nat} (hL : LB h el ax = some (b0, b1)) : ¬ selfNbr h el ax :=
  C.pre.not_self_of_lb hL

/-- case (c) of an old leaf -/
theorem Ctx.caseC_old {l : Nat} (hl : l ∈ h.leaves) (hne : l ≠ el) {t : Side}
    (hC : CaseC h ((h.elem l).side t) t) :
    CaseA (res h el ax) ((h.elem l).side t) t ∨ CaseC (res h el ax) ((h.elem l).side t) t := by
  obtain ⟨p, k0, k1, f, n, h1, h2, hk, he, h5, h6, h7, h8, hn, hf, ho, hlev⟩ := hC
  have P := C.pre
  obtain ⟨n0, n1, n2, n3, n4, n5⟩ := P.res_new
  have hg := C.side_lt hl t
  have hgne := C.not_el_edge hl hne t
  have hpr := C.hi.wf.edgeP _ hg p h2
  have hpne := C.not_el_of_unowned h5
  have hfr := C.hi.wf.edgeN _ hpr f h6
  have hown := C.owner_old hl hne t
  have hlev' := hlev l (C.hi.own.elem l hl t)
  obtain ⟨d1, d2, d3, d4, d5, d6⟩ := side_distinct ax
  have hsax : sideAx t = sideAx t.opp := (sideAx_opp t).symm
  have hkids : (h.edge p).kids = some (k0, k1) := hk.kids
  by_cases hnel : n = el
  · rw [hnel] at hf hlev'
    rcases side_cases ax t.opp with e | e | e | e
    · -- `f` is the first bisected edge: its new children are linked with `k0`, `k1`
      left
      have hL : LA h el ax = some (k0, k1) := by
        unfold LA linkOf; rw [← e, hf, h8]; exact hkids
      have hns := C.not_self_of_la hL
      obtain ⟨q0, q1⟩ := C.nbr_la hL
      obtain ⟨o0, o1⟩ := C.halves_A hL
      have hax : sideAx t = ax := by rw [hsax, e]; exact (sideAx_bis ax).1
      rcases he with he | he
      · refine ⟨h.edges.size + 1, h.elems.size + 1, by rw [he]; exact q0, by rw [n1], ?_, C.mem_c2, ?_,
          by rw [he]; exact o1.symm, ?_⟩
        · rw [n1, if_neg hns, hL, he]; rfl
        · rw [P.res_c2_side, e]; unfold c2Side; rw [if_pos rfl]
        · intro e' he'
          rw [hown] at he'; cases he'
          rw [(C.level_child _).2, if_pos hax, C.level_old (C.leaf_lt hl), ← hlev']
      · refine ⟨h.edges.size, h.elems.size, by rw [he]; exact q1, by rw [n0], ?_, C.mem_c1, ?_,
          by rw [he]; exact o0.symm, ?_⟩
        · rw [n0, if_neg hns, hL, he]; rfl
        · rw [P.res_c1_side, e]; unfold c1Side; rw [if_pos rfl]
        · intro e' he'
          rw [hown] at he'; cases he'
          rw [(C.level_child _).1, if_pos hax, C.level_old (C.leaf_lt hl), ← hlev']
    · -- `f` is the second bisected edge
      left
      have hL : LB h el ax = some (k0, k1) := by
        unfold LB linkOf; rw [← e, hf, h8]; exact hkids
      have hns := C.not_self_of_lb hL
      obtain ⟨q0, q1⟩ := C.nbr_lb hns hL
      obtain ⟨o0, o1⟩ := C.halves_B hns hL
      have hax : sideAx t = ax := by rw [hsax, e]; exact (sideAx_bis ax).2
      rcases he with he | he
      · refine ⟨h.edges.size + 3, h.elems.size, by rw [he]; exact q0, by rw [n3], ?_, C.mem_c1, ?_,
          by rw [he]; exact o1.symm, ?_⟩
        · rw [n3, lbEff_other _ hns, hL, he]; rfl
        · rw [P.res_c1_side, e]; unfold c1Side; rw [if_neg d1.symm, if_pos rfl]
        · intro e' he'
          rw [hown] at he'; cases he'
          rw [(C.level_child _).1, if_pos hax, C.level_old (C.leaf_lt hl), ← hlev']
      · refine ⟨h.edges.size + 2, h.elems.size + 1, by rw [he]; exact q1, by rw [n2], ?_, C.mem_c2, ?_,
          by rw [he]; exact o0.symm, ?_⟩
        · rw [n2, lbEff_other _ hns, hL, he]; rfl
        · rw [P.res_c2_side, e]; unfold c2Side; rw [if_neg d1.symm, if_pos rfl]
        · intro e' he'
          rw [hown] at he'; cases he'
          rw [(C.level_child _).2, if_pos hax, C.level_old (C.leaf_lt hl), ← hlev']
    · -- `f` is kept and goes to `child2`
      right
      have hek := C.el_edge_fields (midSide ax)
      rw [← e, hf] at hek
      have hfa : f ≠ (h.elem el).side (bisSide ax) := by rw [← hf, e]; exact P.side_ne d2.symm
      have hfb : f ≠ (h.elem el).side (bisSide ax).opp := by rw [← hf, e]; exact P.side_ne d4.symm
      refine ⟨p, k0, k1, f, h.elems.size + 1, ?_, by rw [(C.geo_old hg).2.2.1]; exact h2, C.kidsCover_old hpr hk, he,
        by rw [(C.edge_other_fields hpr hpne).2.2.2.2.2.2]; exact h5, C.nbr_keep hpr hpne h6,
        by rw [C.kids_old hfr hfa hfb]; exact h7, by rw [hek.1]; exact h8, C.mem_c2, ?_, C.opp_old hpr hfr ho, ?_⟩
      · exact C.nbr_none_keep hg h1 (fun p' hp' => by
          rw [h2] at hp'; cases hp'
          rw [h6]
          exact ⟨fun e' => hfa (Option.some.inj e'), fun e' => hfb (Option.some.inj e')⟩)
      · rw [P.res_c2_side, e, ← hf, e]; unfold c2Side; rw [if_neg d2.symm, if_neg d4.symm, if_pos rfl]
      · intro e' he'
        rw [hown] at he'; cases he'
        have hax : sideAx t ≠ ax := by rw [hsax, e]; exact (sideAx_mid ax).1
        rw [(C.level_child _).2, if_neg hax, C.level_old (C.leaf_lt hl), hlev']
    · -- `f` is kept and goes to `child1`
      right
      have hek := C.el_edge_fields (midSide ax).opp
      rw [← e, hf] at hek
      have hfa : f ≠ (h.elem el).side (bisSide ax) := by rw [← hf, e]; exact P.side_ne d3.symm
      have hfb : f ≠ (h.elem el).side (bisSide ax).opp := by rw [← hf, e]; exact P.side_ne d5.symm
      refine ⟨p, k0, k1, f, h.elems.size, ?_, by rw [(C.geo_old hg).2.2.1]; exact h2, C.kidsCover_old hpr hk, he,
        by rw [(C.edge_other_fields hpr hpne).2.2.2.2.2.2]; exact h5, C.nbr_keep hpr hpne h6,
        by rw [C.kids_old hfr hfa hfb]; exact h7, by rw [hek.1]; exact h8, C.mem_c1, ?_, C.opp_old hpr hfr ho, ?_⟩
      · exact C.nbr_none_keep hg h1 (fun p' hp' => by
          rw [h2] at hp'; cases hp'
          rw [h6]
          exact ⟨fun e' => hfa (Option.some.inj e'), fun e' => hfb (Option.some.inj e')⟩)
      · rw [P.res_c1_side, e, ← hf, e]; unfold c1Side; rw [if_neg d3.symm, if_neg d5.symm, if_neg d6.symm]
      · intro e' he'
        rw [hown] at he'; cases he'
        have hax : sideAx t ≠ ax := by rw [hsax, e]; exact (sideAx_mid ax).2
        rw [(C.level_child _).1, if_neg hax, C.level_old (C.leaf_lt hl), hlev']
  · -- the larger neighbour is not `el`: nothing changes
    right
    have hfne : ∀ s, f ≠ (h.elem el).side s := by rw [← hf]; exact C.not_el_edge hn hnel _
    refine ⟨p, k0, k1, f, n, ?_, by rw [(C.geo_old hg).2.2.1]; exact h2, C.kidsCover_old hpr hk, he,
      by rw [(C.edge_other_fields hpr hpne).2.2.2.2.2.2]; exact h5, C.nbr_keep hpr hpne h6,
      by rw [(C.edge_other_fields hfr hfne).1]; exact h7, C.nbr_keep hfr hfne h8, C.mem_old hn hnel,
      by rw [C.side_old hn]; exact hf, C.opp_old hpr hfr ho, ?_⟩
    · exact C.nbr_none_keep hg h1 (fun p' hp' => by
        rw [h2] at hp'; cases hp'
        rw [h6]
        exact ⟨fun e' => hfne _ (Option.some.inj e'), fun e' => hfne _ (Option.some.inj e')⟩)
    · intro e' he'
      rw [hown] at he'; cases he'
      rw [C.level_old (C.leaf_lt hn), C.level_old (C.leaf_lt hl)]
      exact hlev'

/-- the children of a refined neighbour edge are owned -/
theorem Ctx.link_owned :
    (∀ a0 a1, LA h el ax = some (a0, a1) → (h.edge a0).elem ≠ none ∧ (h.edge a1).elem ≠ none) ∧
    (∀ b0 b1, LB h el ax = some (b0, b1) → (h.edge b0).elem ≠ none ∧ (h.edge b1).elem ≠ none) := by
  constructor
  · intro a0 a1 e
    obtain ⟨f, n0, n1, -, -, -, -, -, -, -, hn0, hf0, hn1, hf1, -⟩ := C.hi.caseB_of_link C.hel (s := bisSide ax) e
    have o0 := C.hi.own.elem n0 hn0 (bisSide ax).opp
    have o1 := C.hi.own.elem n1 hn1 (bisSide ax).opp
    rw [hf0] at o0; rw [hf1] at o1
    exact ⟨by rw [o0]; simp, by rw [o1]; simp⟩
  · intro b0 b1 e
    obtain ⟨f, n0, n1, -, -, -, -, -, -, -, hn0, hf0, hn1, hf1, -⟩ :=
      C.hi.caseB_of_link C.hel (s := (bisSide ax).opp) e
    have o0 := C.hi.own.elem n0 hn0 (bisSide ax).opp.opp
    have o1 := C.hi.own.elem n1 hn1 (bisSide ax).opp.opp
    rw [hf0] at o0; rw [hf1] at o1
    exact ⟨by rw [o0]; simp, by rw [o1]; simp⟩

/-- an unowned old edge without neighbour edge keeps that -/
theorem Ctx.nbr_none_unowned {p : Nat} (hp : p < h.edges.size) (hn : (h.edge p).nbr = none)
    (he : (h.edge p).elem = none) : ((res h el ax).edge p).nbr = none := by
  obtain ⟨la, lb⟩ := C.link_owned
  rw [C.edge_other_nbr hp (C.not_el_of_unowned he), hn]
  · intro a0 a1 e
    obtain ⟨z0, z1⟩ := la a0 a1 e
    constructor <;> (rintro rfl; simp_all)
  · intro b0 b1 e
    obtain ⟨z0, z1⟩ := lb b0 b1 e
    constructor <;> (rintro rfl; simp_all)

/-- case (d) of an old edge (not necessarily of an old leaf) that is not bisected -/
theorem Ctx.caseD_keep {g : Nat} (hg : g < h.edges.size) (hD : CaseD h g) : CaseD (res h el ax) g := by
  obtain ⟨h1, h2, h3, h4⟩ := hD
  obtain ⟨-, -, gp, gg, gb⟩ := C.geo_old hg
  refine ⟨?_, ?_, by rw [gb]; exact h3, by rw [gg]; exact h4⟩
  · exact C.nbr_none_keep hg h1 (fun p hp => by
      rw [(h2 p hp).1]; exact ⟨by simp, by simp⟩)
  · intro p hp
    rw [gp] at hp
    obtain ⟨z1, z2⟩ := h2 p hp
    have hpr := C.hi.wf.edgeP g hg p hp
    exact ⟨C.nbr_none_unowned hpr z1 z2, by
      rw [(C.edge_other_fields hpr (C.not_el_of_unowned z2)).2.2.2.2.2.2]; exact z2⟩

/-- the cases of the old leaves after the bisection -/
theorem Ctx.cases_old {l : Nat} (hl : l ∈ h.leaves) (hne : l ≠ el) (t : Side) :
    CaseA (res h el ax) ((h.elem l).side t) t ∨ CaseB (res h el ax) ((h.elem l).side t) t ∨
    CaseC (res h el ax) ((h.elem l).side t) t ∨ CaseD (res h el ax) ((h.elem l).side t) := by
  rcases C.hi.cases l hl t with hA | hB | hC | hD
  · obtain ⟨f, n, h1, h2, h3, hn, hf, ho, hlev⟩ := hA
    have hlev' := hlev l (C.hi.own.elem l hl t)
    by_cases hnel : n = el
    · rw [hnel] at hf hlev'
      rw [← hf] at h1 h3 ho
      rcases C.caseA_el hl hne h1 h3 ho hlev' with c | c
      · exact Or.inl c
      · exact Or.inr (Or.inl c)
    · exact Or.inl (C.caseA_keep hl hne h1 h2 h3 hn hnel hf ho hlev')
  · exact Or.inr (Or.inl (C.caseB_old hl hne hB))
  · rcases C.caseC_old hl hne hC with c | c
    · exact Or.inl c
    · exact Or.inr (Or.inr (Or.inl c))
  · exact Or.inr (Or.inr (Or.inr (C.caseD_keep (C.side_lt hl t) hD)))

/-- the edge between the two children, seen from `child1` -/
theorem Ctx.case_mid1 : CaseA (res h el ax) (h.edges.size + 4) (midSide ax) := by
  have P := C.pre
  obtain ⟨n0, n1, n2, n3, n4, n5⟩ := P.res_new
  obtain ⟨d1, d2, d3, d4, d5, d6⟩ := side_distinct ax
  refine ⟨h.edges.size + 5, h.elems.size + 1, by rw [n4], by rw [n5], by rw [n5], C.mem_c2, ?_, ?_, ?_⟩
  · rw [P.res_c2_side]; unfold c2Side; rw [if_neg d3.symm, if_neg d5.symm, if_neg d6.symm]
  · apply Opp.of_handles
    · rw [n4]
    · rw [n5]
    · rw [n4, n5]
    · rw [n4, n5]
  · intro e he
    rw [n4] at he; cases he
    rw [(C.level_child _).1, (C.level_child _).2]

theorem Ctx.case_mid2 : CaseA (res h el ax) (h.edges.size + 5) (midSide ax).opp := by
  have P := C.pre
  obtain ⟨n0, n1, n2, n3, n4, n5⟩ := P.res_new
  obtain ⟨d1, d2, d3, d4, d5, d6⟩ := side_distinct ax
  refine ⟨h.edges.size + 4, h.elems.size, by rw [n5], by rw [n4], by rw [n4], C.mem_c1, ?_, ?_, ?_⟩
  · rw [P.res_c1_side, opp_opp]; unfold c1Side; rw [if_neg d2.symm, if_neg d4.symm, if_pos rfl]
  · apply Opp.of_handles
    · rw [n5]
    · rw [n4]
    · rw [n4, n5]
    · rw [n4, n5]
  · intro e he
    rw [n5] at he; cases he
    rw [(C.level_child _).1, (C.level_child _).2]

/-- a side of `el` that is not bisected keeps its case; the owner is the child that inherits the edge -/
theorem Ctx.case_kept {s : Side} (hkept : s = midSide ax ∨ s = (midSide ax).opp) {o : Nat}
    (ho : ((res h el ax).edge ((h.elem el).side s)).elem = some o)
    (hlv : ((res h el ax).elem o).level (sideAx s) = (h.elem el).level (sideAx s)) :
    CaseA (res h el ax) ((h.elem el).side s) s ∨ CaseB (res h el ax) ((h.elem el).side s) s ∨
    CaseC (res h el ax) ((h.elem el).side s) s ∨ CaseD (res h el ax) ((h.elem el).side s) := by
  have P := C.pre
  have hg := C.side_lt C.hel s
  have hef := C.el_edge_fields s
  obtain ⟨d1, d2, d3, d4, d5, d6⟩ := side_distinct ax
  have hsa : s ≠ bisSide ax := by rcases hkept with e | e <;> rw [e] <;> [exact d2.symm; exact d3.symm]
  have hsb : s ≠ (bisSide ax).opp := by rcases hkept with e | e <;> rw [e] <;> [exact d4.symm; exact d5.symm]
  have hga : (h.elem el).side s ≠ (h.elem el).side (bisSide ax) := P.side_ne hsa
  have hgb : (h.elem el).side s ≠ (h.elem el).side (bisSide ax).opp := P.side_ne hsb
  have hkept' : s.opp = midSide ax ∨ s.opp = (midSide ax).opp := by
    rcases hkept with e | e
    · exact Or.inr (by rw [e])
    · exact Or.inl (by rw [e, opp_opp])
  rcases C.hi.cases el C.hel s with hA | hB | hC | hD
  · left
    obtain ⟨f, n, h1, h2, h3, hn, hf, hop, hlev⟩ := hA
    have hfr := C.hi.wf.edgeN _ hg f h1
    have hlev' := hlev el (C.hi.own.elem el C.hel s)
    obtain ⟨n', hn', sn', ln'⟩ := C.new_owner hn s.opp (fun _ => hkept')
    have hfa : f ≠ (h.elem el).side (bisSide ax) := by
      intro e
      have := C.hi.owner_unique hn C.hel (by rw [hf, e])
      subst this
      rw [← hf] at e
      rcases hkept' with e' | e' <;> rw [e'] at e <;> [exact P.side_ne d2.symm e; exact P.side_ne d3.symm e]
    have hfb : f ≠ (h.elem el).side (bisSide ax).opp := by
      intro e
      have := C.hi.owner_unique hn C.hel (by rw [hf, e])
      subst this
      rw [← hf] at e
      rcases hkept' with e' | e' <;> rw [e'] at e <;> [exact P.side_ne d4.symm e; exact P.side_ne d5.symm e]
    have hfn : ((res h el ax).edge f).nbr = some ((h.elem el).side s) := by
      by_cases h2' : ∃ s', f = (h.elem el).side s'
      · obtain ⟨s', rfl⟩ := h2'
        rw [(C.el_edge_fields s').1]; exact h3
      · exact C.nbr_keep hfr (fun s' e => h2' ⟨s', e⟩) h3
    refine ⟨f, n', by rw [hef.1]; exact h1, by rw [C.kids_old hfr hfa hfb]; exact h2, hfn, hn',
      by rw [sn']; exact hf, C.opp_old hg hfr hop, ?_⟩
    intro e he
    rw [ho] at he; cases he
    rw [hlv, ← sideAx_opp s, ln', sideAx_opp s]
    exact hlev'
  · right; left
    obtain ⟨f, f0, f1, n0, n1, h1, h2, h3, hk, hop, z0, z1, hn0, hf0, hn1, hf1, hlev⟩ := hB
    have hfr := C.hi.wf.edgeN _ hg f h1
    have hfne := C.not_el_of_unowned h3
    obtain ⟨r0, r1⟩ := C.hi.wf.edgeK f hfr _ hk.kids
    obtain ⟨l0, l1⟩ := hlev el (C.hi.own.elem el C.hel s)
    have hn0e : n0 ≠ el := by rintro rfl; omega
    have hn1e : n1 ≠ el := by rintro rfl; omega
    have hpn : (h.edge f).nbr ≠ some ((h.elem el).side (bisSide ax)) ∧
        (h.edge f).nbr ≠ some ((h.elem el).side (bisSide ax).opp) := by
      rw [h2]
      exact ⟨fun e => hga (Option.some.inj e), fun e => hgb (Option.some.inj e)⟩
    refine ⟨f, f0, f1, n0, n1, by rw [hef.1]; exact h1, C.nbr_keep hfr hfne h2,
      by rw [(C.edge_other_fields hfr hfne).2.2.2.2.2.2]; exact h3, C.kidsCover_old hfr hk, C.opp_old hg hfr hop,
      C.nbr_none_keep r0 z0 (fun p hp => by rw [hk.par0] at hp; cases hp; exact hpn),
      C.nbr_none_keep r1 z1 (fun p hp => by rw [hk.par1] at hp; cases hp; exact hpn),
      C.mem_old hn0 hn0e, by rw [C.side_old hn0]; exact hf0, C.mem_old hn1 hn1e, by rw [C.side_old hn1]; exact hf1, ?_⟩
    intro e he
    rw [ho] at he; cases he
    rw [hlv, C.level_old (C.leaf_lt hn0), C.level_old (C.leaf_lt hn1)]
    exact ⟨l0, l1⟩
  · right; right; left
    obtain ⟨p, k0, k1, f, n, h1, h2, hk, he, h5, h6, h7, h8, hn, hf, hop, hlev⟩ := hC
    have hpr := C.hi.wf.edgeP _ hg p h2
    have hpne := C.not_el_of_unowned h5
    have hfr := C.hi.wf.edgeN _ hpr f h6
    have hlev' := hlev el (C.hi.own.elem el C.hel s)
    have hne : n ≠ el := by rintro rfl; omega
    have hfne : ∀ s', f ≠ (h.elem el).side s' := by rw [← hf]; exact C.not_el_edge hn hne _
    refine ⟨p, k0, k1, f, n, by rw [hef.1]; exact h1, by rw [(C.geo_old hg).2.2.1]; exact h2, C.kidsCover_old hpr hk,
      he, by rw [(C.edge_other_fields hpr hpne).2.2.2.2.2.2]; exact h5, C.nbr_keep hpr hpne h6,
      by rw [(C.edge_other_fields hfr hfne).1]; exact h7, C.nbr_keep hfr hfne h8, C.mem_old hn hne,
      by rw [C.side_old hn]; exact hf, C.opp_old hpr hfr hop, ?_⟩
    intro e he'
    rw [ho] at he'; cases he'
    rw [hlv, C.level_old (C.leaf_lt hn)]
    exact hlev'
  · exact Or.inr (Or.inr (Or.inr (C.caseD_keep hg hD)))

/-- in the single glued column the new children of the two bisected edges are opposite, crosswise -/
theorem Ctx.halves_self (hs : selfNbr h el ax) :
    Opp (res h el ax) h.edges.size (h.edges.size + 3) ∧ Opp (res h el ax) (h.edges.size + 1) (h.edges.size + 2) := by
  have hea := C.self_symm hs
  have hera := C.side_lt C.hel (bisSide ax)
  have herb := C.side_lt C.hel (bisSide ax).opp
  obtain ⟨ev0, ev1⟩ := C.v0_lt C.hel (bisSide ax)
  obtain ⟨e0, e1, -, eg, -⟩ := C.geo_old hera
  have hgl := (C.pre.selfOK hs).2
  -- `Opp h ea eb` from case (a) of the first bisected side
  have hop : Opp h ((h.elem el).side (bisSide ax)) ((h.elem el).side (bisSide ax).opp) := by
    rcases C.hi.cases el C.hel (bisSide ax) with hA | hB | hC | hD
    · obtain ⟨f, n, h1, -, -, -, -, hop, -⟩ := hA
      rw [hea] at h1; cases h1; exact hop
    · obtain ⟨f, f0, f1, n0, n1, h1, h2, h3, hk, -⟩ := hB
      rw [hea] at h1; cases h1
      have := C.hi.own.unref el C.hel (bisSide ax).opp
      rw [hk.kids] at this; cases this
    · obtain ⟨p, k0, k1, f, n, h1, -⟩ := hC
      rw [hea] at h1; cases h1
    · obtain ⟨h1, -⟩ := hD
      rw [hea] at h1; cases h1
  have hga : (h.edge ((h.elem el).side (bisSide ax))).glued = true := by rw [← hop.1]; exact hgl
  refine opp_halves C.res_dom C.kidsCover_B C.kidsCover_A (C.opp_old hera herb hop) ?_ ?_
  · intro hg; rw [eg, hga] at hg; cases hg
  · intro _
    rw [e0, e1, C.pt_old ev0, C.pt_old ev1]
    exact C.glued_vertical hga

/-- the two children of the first bisected edge -/
theorem Ctx.case_kidA :
    (CaseA (res h el ax) h.edges.size (bisSide ax) ∨ CaseC (res h el ax) h.edges.size (bisSide ax) ∨
      CaseD (res h el ax) h.edges.size) ∧
    (CaseA (res h el ax) (h.edges.size + 1) (bisSide ax) ∨ CaseC (res h el ax) (h.edges.size + 1) (bisSide ax) ∨
      CaseD (res h el ax) (h.edges.size + 1)) := by
  have P := C.pre
  obtain ⟨n0, n1, n2, n3, n4, n5⟩ := P.res_new
  have her := C.side_lt C.hel (bisSide ax)
  have hef := C.el_edge_fields (bisSide ax)
  rw [if_pos (Or.inr rfl)] at hef
  obtain ⟨d1, d2, d3, d4, d5, d6⟩ := side_distinct ax
  have hsax := (sideAx_bis ax).1
  have lvl := C.level_child ax
  rw [if_pos rfl] at lvl
  rcases C.hi.cases el C.hel (bisSide ax) with hA | hB | hC | hD
  · obtain ⟨f, n, h1, h2, h3, hn, hf, hop, hlev⟩ := hA
    have hfr := C.hi.wf.edgeN _ her f h1
    have hLa : LA h el ax = none := by unfold LA linkOf; rw [h1]; exact h2
    have hlev' := hlev el (C.hi.own.elem el C.hel _)
    rw [hsax] at hlev'
    by_cases hnel : n = el
    · -- the single glued column
      have hf' : (h.elem el).side (bisSide ax).opp = f := by rw [← hnel]; exact hf
      have hs : selfNbr h el ax := by unfold selfNbr; rw [hf']; exact h3
      obtain ⟨o1, o2⟩ := C.halves_self hs
      constructor
      · left
        refine ⟨h.edges.size + 3, h.elems.size, by rw [n0, if_pos hs], by rw [n3], ?_, C.mem_c1, ?_, o1, ?_⟩
        · rw [n3, lbEff_self _ hs]; rfl
        · rw [P.res_c1_side]; unfold c1Side; rw [if_neg d1.symm, if_pos rfl]
        · intro e he; rw [n0] at he; cases he; rfl
      · left
        refine ⟨h.edges.size + 2, h.elems.size + 1, by rw [n1, if_pos hs], by rw [n2], ?_, C.mem_c2, ?_, o2, ?_⟩
        · rw [n2, lbEff_self _ hs]; rfl
        · rw [P.res_c2_side]; unfold c2Side; rw [if_neg d1.symm, if_pos rfl]
        · intro e he; rw [n1] at he; cases he; rfl
    · have hfne : ∀ s, f ≠ (h.elem el).side s := by rw [← hf]; exact C.not_el_edge hn hnel _
      have hns : ¬ selfNbr h el ax := by
        intro hs
        have := C.self_symm hs
        rw [h1] at this
        exact hfne _ (Option.some.inj this)
      have common : ∀ g, (g = h.edges.size ∨ g = h.edges.size + 1) → ((res h el ax).edge g).nbr = none →
          ((res h el ax).edge g).parent = some ((h.elem el).side (bisSide ax)) →
          (∀ e, ((res h el ax).edge g).elem = some e →
            ((res h el ax).elem n).level (sideAx (bisSide ax)) + 1 =
              ((res h el ax).elem e).level (sideAx (bisSide ax))) →
          CaseC (res h el ax) g (bisSide ax) := by
        intro g hg hn0 hp0 hl0
        exact ⟨(h.elem el).side (bisSide ax), h.edges.size, h.edges.size + 1, f, n, hn0, hp0, C.kidsCover_A, hg,
          hef.2, by rw [hef.1]; exact h1, by rw [(C.edge_other_fields hfr hfne).1]; exact h2,
          C.nbr_keep hfr hfne h3, C.mem_old hn hnel, by rw [C.side_old hn]; exact hf, C.opp_old her hfr hop, hl0⟩
      constructor
      · right; left
        refine common _ (Or.inl rfl) (by rw [n0, if_neg hns, hLa]; rfl) (by rw [n0]) ?_
        intro e he; rw [n0] at he; cases he
        rw [hsax, lvl.1, C.level_old (C.leaf_lt hn), hlev']
      · right; left
        refine common _ (Or.inr rfl) (by rw [n1, if_neg hns, hLa]; rfl) (by rw [n1]) ?_
        intro e he; rw [n1] at he; cases he
        rw [hsax, lvl.2, C.level_old (C.leaf_lt hn), hlev']
  · obtain ⟨f, f0, f1, m0, m1, h1, h2, h3, hk, hop, z0, z1, hm0, hf0, hm1, hf1, hlev⟩ := hB
    have hLa : LA h el ax = some (f0, f1) := by unfold LA linkOf; rw [h1]; exact hk.kids
    have hns := C.not_self_of_la hLa
    obtain ⟨q0, q1⟩ := C.nbr_la hLa
    obtain ⟨o0, o1⟩ := C.halves_A hLa
    obtain ⟨r0, r1⟩ := C.la_lt f0 f1 hLa
    obtain ⟨l0, l1⟩ := hlev el (C.hi.own.elem el C.hel _)
    rw [hsax] at l0 l1
    have hm0e : m0 ≠ el := by rintro rfl; omega
    have hm1e : m1 ≠ el := by rintro rfl; omega
    have k0n : ((res h el ax).edge f0).kids = none := by
      rw [(C.edge_other_fields r0 (by rw [← hf0]; exact C.not_el_edge hm0 hm0e _)).1, ← hf0]
      exact C.hi.own.unref m0 hm0 _
    have k1n : ((res h el ax).edge f1).kids = none := by
      rw [(C.edge_other_fields r1 (by rw [← hf1]; exact C.not_el_edge hm1 hm1e _)).1, ← hf1]
      exact C.hi.own.unref m1 hm1 _
    constructor
    · left
      refine ⟨f1, m1, by rw [n0, if_neg hns, hLa]; rfl, k1n, q1, C.mem_old hm1 hm1e,
        by rw [C.side_old hm1]; exact hf1, o0, ?_⟩
      intro e he; rw [n0] at he; cases he
      rw [hsax, lvl.1, C.level_old (C.leaf_lt hm1), l1]
    · left
      refine ⟨f0, m0, by rw [n1, if_neg hns, hLa]; rfl, k0n, q0, C.mem_old hm0 hm0e,
        by rw [C.side_old hm0]; exact hf0, o1, ?_⟩
      intro e he; rw [n1] at he; cases he
      rw [hsax, lvl.2, C.level_old (C.leaf_lt hm0), l0]
  · exact absurd hC (C.hi.no_caseC C.ha C.hel C.hl hsax)
  · obtain ⟨h1, h2, h3, h4⟩ := hD
    have hLa : LA h el ax = none := by unfold LA linkOf; rw [h1]
    have hns : ¬ selfNbr h el ax := by
      intro hs
      have := C.self_symm hs
      rw [h1] at this; cases this
    have hpar : ∀ p, some ((h.elem el).side (bisSide ax)) = some p →
        ((res h el ax).edge p).nbr = none ∧ ((res h el ax).edge p).elem = none := by
      intro p hp
      cases hp
      exact ⟨by rw [hef.1]; exact h1, hef.2⟩
    constructor
    · right; right
      refine ⟨by rw [n0, if_neg hns, hLa]; rfl, by rw [n0]; exact hpar, by rw [n0]; exact h3, by rw [n0]; exact h4⟩
    · right; right
      refine ⟨by rw [n1, if_neg hns, hLa]; rfl, by rw [n1]; exact hpar, by rw [n1]; exact h3, by rw [n1]; exact h4⟩

/-- the two children of the second bisected edge -/
theorem Ctx.case_kidB :
    (CaseA (res h el ax) (h.edges.size + 2) (bisSide ax).opp ∨ CaseC (res h el ax) (h.edges.size + 2) (bisSide ax).opp ∨
      CaseD (res h el ax) (h.edges.size + 2)) ∧
    (CaseA (res h el ax) (h.edges.size + 3) (bisSide ax).opp ∨ CaseC (res h el ax) (h.edges.size + 3) (bisSide ax).opp ∨
      CaseD (res h el ax) (h.edges.size + 3)) := by
  have P := C.pre
  obtain ⟨n0, n1, n2, n3, n4, n5⟩ := P.res_new
  have her := C.side_lt C.hel (bisSide ax).opp
  have hef := C.el_edge_fields (bisSide ax).opp
  rw [if_pos (Or.inl rfl)] at hef
  obtain ⟨d1, d2, d3, d4, d5, d6⟩ := side_distinct ax
  have hsax := (sideAx_bis ax).2
  have lvl := C.level_child ax
  rw [if_pos rfl] at lvl
  rcases C.hi.cases el C.hel (bisSide ax).opp with hA | hB | hC | hD
  · obtain ⟨f, n, h1, h2, h3, hn, hf, hop, hlev⟩ := hA
    have hfr := C.hi.wf.edgeN _ her f h1
    have hlev' := hlev el (C.hi.own.elem el C.hel _)
    rw [hsax] at hlev'
    by_cases hnel : n = el
    · -- the single glued column
      have hf' : (h.elem el).side (bisSide ax) = f := by rw [← hnel, ← opp_opp (bisSide ax)]; exact hf
      have hs : selfNbr h el ax := by unfold selfNbr; rw [hf']; exact h1
      obtain ⟨o1, o2⟩ := C.halves_self hs
      constructor
      · left
        refine ⟨h.edges.size + 1, h.elems.size + 1, by rw [n2, lbEff_self _ hs]; rfl, by rw [n1], by rw [n1, if_pos hs],
          C.mem_c2, ?_, o2.symm, ?_⟩
        · rw [P.res_c2_side, opp_opp]; unfold c2Side; rw [if_pos rfl]
        · intro e he; rw [n2] at he; cases he; rfl
      · left
        refine ⟨h.edges.size, h.elems.size, by rw [n3, lbEff_self _ hs]; rfl, by rw [n0], by rw [n0, if_pos hs],
          C.mem_c1, ?_, o1.symm, ?_⟩
        · rw [P.res_c1_side, opp_opp]; unfold c1Side; rw [if_pos rfl]
        · intro e he; rw [n3] at he; cases he; rfl
    · have hfne : ∀ s, f ≠ (h.elem el).side s := by rw [← hf]; exact C.not_el_edge hn hnel _
      have hns : ¬ selfNbr h el ax := by
        intro hs
        unfold selfNbr at hs
        rw [h1] at hs
        exact hfne _ (Option.some.inj hs)
      have hLb : lbEff h el ax (LB h el ax) = none := by
        rw [lbEff_other _ hns]; unfold LB linkOf; rw [h1]; exact h2
      have common : ∀ g, (g = h.edges.size + 2 ∨ g = h.edges.size + 3) → ((res h el ax).edge g).nbr = none →
          ((res h el ax).edge g).parent = some ((h.elem el).side (bisSide ax).opp) →
          (∀ e, ((res h el ax).edge g).elem = some e →
            ((res h el ax).elem n).level (sideAx (bisSide ax).opp) + 1 =
              ((res h el ax).elem e).level (sideAx (bisSide ax).opp)) →
          CaseC (res h el ax) g (bisSide ax).opp := by
        intro g hg hn0 hp0 hl0
        exact ⟨(h.elem el).side (bisSide ax).opp, h.edges.size + 2, h.edges.size + 3, f, n, hn0, hp0, C.kidsCover_B, hg,
          hef.2, by rw [hef.1]; exact h1, by rw [(C.edge_other_fields hfr hfne).1]; exact h2,
          C.nbr_keep hfr hfne h3, C.mem_old hn hnel, by rw [C.side_old hn]; exact hf, C.opp_old her hfr hop, hl0⟩
      constructor
      · right; left
        refine common _ (Or.inl rfl) (by rw [n2, hLb]; rfl) (by rw [n2]) ?_
        intro e he; rw [n2] at he; cases he
        rw [hsax, lvl.2, C.level_old (C.leaf_lt hn), hlev']
      · right; left
        refine common _ (Or.inr rfl) (by rw [n3, hLb]; rfl) (by rw [n3]) ?_
        intro e he; rw [n3] at he; cases he
        rw [hsax, lvl.1, C.level_old (C.leaf_lt hn), hlev']
  · obtain ⟨f, f0, f1, m0, m1, h1, h2, h3, hk, hop, z0, z1, hm0, hf0, hm1, hf1, hlev⟩ := hB
    have hLb : LB h el ax = some (f0, f1) := by unfold LB linkOf; rw [h1]; exact hk.kids
    have hns := C.not_self_of_lb hLb
    obtain ⟨q0, q1⟩ := C.nbr_lb hns hLb
    obtain ⟨o0, o1⟩ := C.halves_B hns hLb
    obtain ⟨r0, r1⟩ := C.lb_lt f0 f1 hLb
    obtain ⟨l0, l1⟩ := hlev el (C.hi.own.elem el C.hel _)
    rw [hsax] at l0 l1
    have hm0e : m0 ≠ el := by rintro rfl; omega
    have hm1e : m1 ≠ el := by rintro rfl; omega
    have k0n : ((res h el ax).edge f0).kids = none := by
      rw [(C.edge_other_fields r0 (by rw [← hf0]; exact C.not_el_edge hm0 hm0e _)).1, ← hf0]
      exact C.hi.own.unref m0 hm0 _
    have k1n : ((res h el ax).edge f1).kids = none := by
      rw [(C.edge_other_fields r1 (by rw [← hf1]; exact C.not_el_edge hm1 hm1e _)).1, ← hf1]
      exact C.hi.own.unref m1 hm1 _
    constructor
    · left
      refine ⟨f1, m1, by rw [n2, lbEff_other _ hns, hLb]; rfl, k1n, q1, C.mem_old hm1 hm1e,
        by rw [C.side_old hm1]; exact hf1, o0, ?_⟩
      intro e he; rw [n2] at he; cases he
      rw [hsax, lvl.2, C.level_old (C.leaf_lt hm1), l1]
    · left
      refine ⟨f0, m0, by rw [n3, lbEff_other _ hns, hLb]; rfl, k0n, q0, C.mem_old hm0 hm0e,
        by rw [C.side_old hm0]; exact hf0, o1, ?_⟩
      intro e he; rw [n3] at he; cases he
      rw [hsax, lvl.1, C.level_old (C.leaf_lt hm0), l0]
  · exact absurd hC (C.hi.no_caseC C.ha C.hel C.hl hsax)
  · obtain ⟨h1, h2, h3, h4⟩ := hD
    have hns : ¬ selfNbr h el ax := by
      intro hs
      unfold selfNbr at hs
      rw [h1] at hs; cases hs
    have hLb : lbEff h el ax (LB h el ax) = none := by
      rw [lbEff_other _ hns]; unfold LB linkOf; rw [h1]
    have hpar : ∀ p, some ((h.elem el).side (bisSide ax).opp) = some p →
        ((res h el ax).edge p).nbr = none ∧ ((res h el ax).edge p).elem = none := by
      intro p hp
      cases hp
      exact ⟨by rw [hef.1]; exact h1, hef.2⟩
    constructor
    · right; right
      refine ⟨by rw [n2, hLb]; rfl, by rw [n2]; exact hpar, by rw [n2]; exact h3, by rw [n2]; exact h4⟩
    · right; right
      refine ⟨by rw [n3, hLb]; rfl, by rw [n3]; exact hpar, by rw [n3]; exact h3, by rw [n3]; exact h4⟩

/-- one legal bisection preserves the pointer invariant -/
theorem Ctx.hinv_res : HInv (res h el ax) := by
  have P := C.pre
  obtain ⟨d1, d2, d3, d4, d5, d6⟩ := side_distinct ax
  refine ⟨C.wf_res, C.own_res, ?_, ?_, ?_⟩
  · intro l hl
    rcases (mem_res_leaves h el ax l).mp hl with ⟨h1, h2⟩ | rfl | rfl
    · exact C.geom_old h1 h2
    · exact C.geom_c1
    · exact C.geom_c2
  · intro l hl
    rcases (mem_res_leaves h el ax l).mp hl with ⟨h1, h2⟩ | rfl | rfl
    · exact C.flags_old h1 h2
    · exact C.flags_c1
    · exact C.flags_c2
  · intro l hl s
    rcases (mem_res_leaves h el ax l).mp hl with ⟨h1, h2⟩ | rfl | rfl
    · rw [C.elem_old (C.leaf_lt h1) h2]
      exact C.cases_old h1 h2 s
    · rw [P.res_c1_side]
      unfold c1Side
      rcases side_cases ax s with rfl | rfl | rfl | rfl
      · rw [if_pos rfl]
        rcases C.case_kidA.1 with c | c | c
        · exact Or.inl c
        · exact Or.inr (Or.inr (Or.inl c))
        · exact Or.inr (Or.inr (Or.inr c))
      · rw [if_neg d1.symm, if_pos rfl]
        rcases C.case_kidB.2 with c | c | c
        · exact Or.inl c
        · exact Or.inr (Or.inr (Or.inl c))
        · exact Or.inr (Or.inr (Or.inr c))
      · rw [if_neg d2.symm, if_neg d4.symm, if_pos rfl]
        exact Or.inl C.case_mid1
      · rw [if_neg d3.symm, if_neg d5.symm, if_neg d6.symm]
        have hef := (C.el_edge_fields (midSide ax).opp).2
        rw [if_neg (by rintro (e | e) <;> [exact d5 e.symm; exact d3 e.symm]), if_neg d6.symm] at hef
        exact C.case_kept (Or.inr rfl) hef (by
          rw [(C.level_child _).1, if_neg (sideAx_mid ax).2])
    · rw [P.res_c2_side]
      unfold c2Side
      rcases side_cases ax s with rfl | rfl | rfl | rfl
      · rw [if_pos rfl]
        rcases C.case_kidA.2 with c | c | c
        · exact Or.inl c
        · exact Or.inr (Or.inr (Or.inl c))
        · exact Or.inr (Or.inr (Or.inr c))
      · rw [if_neg d1.symm, if_pos rfl]
        rcases C.case_kidB.1 with c | c | c
        · exact Or.inl c
        · exact Or.inr (Or.inr (Or.inl c))
        · exact Or.inr (Or.inr (Or.inr c))
      · rw [if_neg d2.symm, if_neg d4.symm, if_pos rfl]
        have hef := (C.el_edge_fields (midSide ax)).2
        rw [if_neg (by rintro (e | e) <;> [exact d4 e.symm; exact d2 e.symm]), if_pos rfl] at hef
        exact C.case_kept (Or.inl rfl) hef (by
          rw [(C.level_child _).2, if_neg (sideAx_mid ax).1])
      · rw [if_neg d3.symm, if_neg d5.symm, if_neg d6.symm]
        exact Or.inl C.case_mid2
end

/-- one legal bisection: `refine_axis` (after its conformity loop) does not raise and the result satisfies the
pointer invariant -/
theorem bisectElem_hinv {h : HMesh} (hi : HInv h) (ha : Inv h.abs) {el : Nat} (hel : el ∈ h.leaves) {ax : Ax}
    (hl : Legal h el ax) : ∃ h', h.bisectElem el ax = .ok h' ∧ HInv h' :=
  ⟨res h el ax, Ctx.run ⟨hi, ha, hel, hl⟩, Ctx.hinv_res ⟨hi, ha, hel, hl⟩⟩

end Stbem.HalfEdge
