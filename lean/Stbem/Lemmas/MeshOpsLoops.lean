import Stbem.Gen.MeshOps
import Stbem.Lemmas.MeshKids

/-!
# Loop lemmas for `Props/MeshOpsTie.lean`

The definitions of `Stbem.Gen.MeshOps` (regenerated from `src/mesh.py` on every run) are `do` blocks whose `for` loops
are `forIn` over lists.  This file relates such loops to the folds / recursions of the hand-written model
(`refineAll`, `phaseStep`, `takeBulk`, the filters of `gradeSweep`, the `flatMap` of `dorflerAniso`).
-/
namespace Stbem.MeshOpsTie
open Stbem.Mesh Stbem.Gen

/-! ### generic -/

/-- a `for` loop without `break` whose body maps the state through `g` is the monadic left fold of `g` -/
theorem forIn_yield_foldlM {α σ ε : Type} (f : α → σ → Except ε (ForInStep σ)) (g : σ → α → Except ε σ)
    (h : ∀ a s, f a s = ForInStep.yield <$> g s a) : ∀ (l : List α) (s : σ), forIn l s f = l.foldlM g s
  | [], s => rfl
  | a :: l, s => by
    rw [List.forIn_cons, List.foldlM_cons, h]
    cases g s a with
    | error e => rfl
    | ok s' => exact forIn_yield_foldlM f g h l s'

/-- … and a pure body is a plain left fold -/
theorem forIn_yield_foldl {α σ ε : Type} (f : α → σ → Except ε (ForInStep σ)) (g : σ → α → σ)
    (h : ∀ a s, f a s = pure (ForInStep.yield (g s a))) : ∀ (l : List α) (s : σ), forIn l s f = pure (l.foldl g s)
  | [], s => rfl
  | a :: l, s => by
    rw [List.forIn_cons, List.foldl_cons, h]
    exact forIn_yield_foldl f g h l (g s a)

theorem ok_bind {ε α β : Type} (a : α) (f : α → Except ε β) : (Except.ok a >>= f) = f a := rfl

theorem error_bind {ε α β : Type} (e : ε) (f : α → Except ε β) : ((Except.error e : Except ε α) >>= f) = .error e := rfl

theorem map_eq_bind {ε α β : Type} (g : α → β) (x : Except ε α) : g <$> x = x >>= fun a => pure (g a) := by
  cases x <;> rfl

theorem toOption_bind' {ε α β : Type} (x : Except ε α) (f : α → Except ε β) :
    (x >>= f).toOption = x.toOption.bind fun a => (f a).toOption := by
  cases x <;> rfl

theorem assertThat_true {c : Prop} [Decidable c] (tag : String) (h : c) : MeshOps.assertThat c tag = .ok () := by
  simp [MeshOps.assertThat, h]; rfl

theorem assertThat_false {c : Prop} [Decidable c] (tag : String) (h : ¬ c) :
    MeshOps.assertThat c tag = .error tag := by
  simp [MeshOps.assertThat, h]

theorem getIdx_of_lt {α} (l : List α) (i : Nat) (h : i < l.length) : MeshOps.getIdx l i = .ok l[i] := by
  simp [MeshOps.getIdx, List.getElem?_eq_getElem h]; rfl

/-! ### `refine_axis` and the loops that only thread the mesh -/

theorem findLeaf_id {m : Mesh} {id : Nat} {c : Cell} (h : findLeaf m id = some c) : c.id = id :=
  (findLeaf_some h).2

/-- the mesh component of the external `refine_axis` is the model's `refineId` -/
theorem refineAxisRef_fst (m : Mesh) (c : Cell) (ax : Ax) :
    (·.1) <$> MeshOps.refineAxisRef m c ax = refineId m c.id ax := by
  unfold MeshOps.refineAxisRef
  cases h : findLeaf m c.id with
  | none => simp [refineId, h]
  | some c' =>
    simp only [findLeaf_id h]
    cases refineId m c.id ax <;> rfl

theorem refine_time_eq (m : Mesh) (c : Cell) :
    MeshOps.refine_time m c = MeshOps.refineAxisRef m c .time := by
  simp only [MeshOps.refine_time, MeshOps.refineAxisCall]
  cases MeshOps.refineAxisRef m c .time <;> rfl

theorem refine_space_eq (m : Mesh) (c : Cell) :
    MeshOps.refine_space m c = MeshOps.refineAxisRef m c .space := by
  simp only [MeshOps.refine_space, MeshOps.refineAxisCall]
  cases MeshOps.refineAxisRef m c .space <;> rfl

/-- `for elem in l: self.refine_axis(elem, ax)` is `refineAll` on the ids -/
theorem forIn_refine (ax : Ax) (l : List Cell) (m : Mesh) :
    forIn l m (fun elem s => do
      let r ← MeshOps.refineAxisRef s elem ax
      pure (ForInStep.yield r.1)) = refineAll m (l.map (·.id)) ax := by
  rw [refineAll, List.foldlM_map]
  apply forIn_yield_foldlM
  intro c s
  rw [← refineAxisRef_fst]
  cases MeshOps.refineAxisRef s c ax <;> rfl

/-! ### the children returned by `refine_axis` -/

theorem refineAxis_nElems {fuel : Nat} {m : Mesh} {id : Nat} {ax : Ax} {m' : Mesh}
    (h : refineAxis fuel m id ax = .ok m') : 2 ≤ m'.nElems := by
  cases fuel with
  | zero => simp [refineAxis] at h
  | succ n =>
    rw [refineAxis] at h
    split at h
    · cases h
    · simp only [bind, Except.bind] at h
      split at h
      · cases h
      · split at h
        · cases h
        · simp only [pure, Except.pure, Except.ok.injEq] at h
          subst h
          show 2 ≤ _ + 2
          omega

theorem refineId_nElems {m : Mesh} {id : Nat} {ax : Ax} {m' : Mesh} (h : refineId m id ax = .ok m') :
    2 ≤ m'.nElems := by
  unfold refineId at h
  split at h
  · cases h
  · exact refineAxis_nElems h

/-- what `refine_axis` returns: the refined mesh of the model and two cells with the last two element indices -/
theorem refineAxisRef_ok {m : Mesh} {c : Cell} {ax : Ax} {r : Mesh × List Cell}
    (h : MeshOps.refineAxisRef m c ax = .ok r) :
    refineId m c.id ax = .ok r.1 ∧ ∃ k1 k2, r.2 = [k1, k2] ∧ k1.id = r.1.nElems - 2 ∧ k2.id = r.1.nElems - 1 := by
  unfold MeshOps.refineAxisRef at h
  cases hf : findLeaf m c.id with
  | none => rw [hf] at h; cases h
  | some c' =>
    rw [hf] at h
    simp only [findLeaf_id hf] at h
    cases h2 : refineId m c.id ax with
    | error e => rw [h2] at h; cases h
    | ok m' =>
      rw [h2] at h
      simp only [bind, Except.bind, pure, Except.pure, Except.ok.injEq] at h
      subst h
      have hn := refineId_nElems h2
      have hid := children_id (m'.nElems - 2) c' ax
      refine ⟨rfl, _, _, rfl, hid.1, ?_⟩
      show ((children (m'.nElems - 2) c' ax).2).id = m'.nElems - 1
      rw [hid.2]
      omega

theorem refineAxisRef_error {m : Mesh} {c : Cell} {ax : Ax} {e : String}
    (h : MeshOps.refineAxisRef m c ax = .error e) : refineId m c.id ax = .error e := by
  rw [← refineAxisRef_fst, h]; rfl

/-! ### the level-sorted phases (`assert not elem.children; self.refine_axis(elem, ax)`) -/

theorem phase_step (ax : Ax) (c : Cell) (st : Mesh × List Cell) :
    (do
      MeshOps.assertThat (¬ MeshOps.hasChildren st.1 c = true) "assert:marked-not-leaf"
      let r ← MeshOps.refineAxisRef st.1 c ax
      pure (ForInStep.yield (r.1, st.2 ++ r.2))) = ForInStep.yield <$> phaseStep ax st c := by
  unfold MeshOps.hasChildren MeshOps.refineAxisRef phaseStep
  cases h : findLeaf st.1 c.id with
  | none => simp [MeshOps.assertThat]; rfl
  | some c' =>
    simp only [Option.isNone_some, Bool.false_eq_true, not_false_eq_true, assertThat_true]
    cases refineId st.1 c'.id ax <;> rfl

/-- the phase loop that collects the created children is the fold of `phaseStep` -/
theorem forIn_phase (ax : Ax) (l : List Cell) (st : Mesh × List Cell) :
    forIn l st (fun elem s => do
      MeshOps.assertThat (¬ MeshOps.hasChildren s.1 elem = true) "assert:marked-not-leaf"
      let r ← MeshOps.refineAxisRef s.1 elem ax
      pure (ForInStep.yield (r.1, s.2 ++ r.2))) = l.foldlM (phaseStep ax) st :=
  forIn_yield_foldlM _ _ (fun c s => phase_step ax c s) l st

/-- one step of a phase, mesh only -/
def phaseStepM (ax : Ax) (m : Mesh) (c : Cell) : Except String Mesh :=
  match findLeaf m c.id with
  | none => .error "assert:marked-not-leaf"
  | some c => refineId m c.id ax

theorem phase_stepM (ax : Ax) (c : Cell) (m : Mesh) :
    (do
      MeshOps.assertThat (¬ MeshOps.hasChildren m c = true) "assert:marked-not-leaf"
      let r ← MeshOps.refineAxisRef m c ax
      pure (ForInStep.yield r.1)) = ForInStep.yield <$> phaseStepM ax m c := by
  unfold MeshOps.hasChildren MeshOps.refineAxisRef phaseStepM
  cases h : findLeaf m c.id with
  | none => simp [MeshOps.assertThat]; rfl
  | some c' =>
    simp only [Option.isNone_some, Bool.false_eq_true, not_false_eq_true, assertThat_true]
    cases refineId m c'.id ax <;> rfl

theorem foldlM_phase_fst (ax : Ax) : ∀ (l : List Cell) (m : Mesh) (acc : List Cell),
    (·.1) <$> l.foldlM (phaseStep ax) (m, acc) = l.foldlM (phaseStepM ax) m
  | [], m, acc => rfl
  | c :: l, m, acc => by
    rw [List.foldlM_cons, List.foldlM_cons, phaseStep, phaseStepM]
    cases h : findLeaf m c.id with
    | none => rfl
    | some c' =>
      show (fun x : Mesh × List Cell => x.1) <$> ((do
        let m1 ← refineId m c'.id ax
        pure (m1, acc ++ [(children (m1.nElems - 2) c' ax).1, (children (m1.nElems - 2) c' ax).2])) >>=
          fun s => l.foldlM (phaseStep ax) s) = refineId m c'.id ax >>= fun s => l.foldlM (phaseStepM ax) s
      cases h2 : refineId m c'.id ax with
      | error e => rfl
      | ok m' => exact foldlM_phase_fst ax l m' _

/-- the phase loop that does not collect them is the mesh component of the same fold -/
theorem forIn_phase_fst (ax : Ax) (l : List Cell) (m : Mesh) (acc : List Cell) :
    forIn l m (fun elem s => do
      MeshOps.assertThat (¬ MeshOps.hasChildren s elem = true) "assert:marked-not-leaf"
      let r ← MeshOps.refineAxisRef s elem ax
      pure (ForInStep.yield r.1)) = (·.1) <$> l.foldlM (phaseStep ax) (m, acc) := by
  rw [foldlM_phase_fst]
  exact forIn_yield_foldlM _ _ (fun c s => phase_stepM ax c s) l m

/-! ### the bulk loops -/

/-- `takeBulk` commutes with a relabelling of the payload -/
theorem takeBulk_map {α β} (g : α → β) (bound : Rat) : ∀ (acc : Rat) (l : List (Rat × α)),
    takeBulk bound acc (l.map fun x => (x.1, g x.2)) = (takeBulk bound acc l).map fun x => (x.1, g x.2)
  | _, [] => rfl
  | acc, (v, a) :: l => by
    simp only [List.map_cons, takeBulk]
    split
    · rfl
    · rw [List.map_cons, takeBulk_map g bound (acc + v) l]

theorem takeBulk_length_le {α} (bound : Rat) : ∀ (acc : Rat) (l : List (Rat × α)),
    (takeBulk bound acc l).length ≤ l.length
  | _, [] => Nat.le_refl _
  | acc, (v, a) :: l => by
    simp only [takeBulk]
    split
    · simp
    · simp only [List.length_cons]
      exact Nat.succ_le_succ (takeBulk_length_le bound (acc + v) l)

/-- the (indicator, leaf) pairs in the order of the index list, as the model forms them -/
def idxPairs {α} (elems : List α) (eta : List Rat) (perm : List Nat) : List (Rat × α) :=
  perm.filterMap fun i => (eta[i]?).bind fun v => (elems[i]?).map fun c => (v, c)

theorem idxPairs_cons {α} (elems : List α) (eta : List Rat) (i : Nat) (perm : List Nat)
    (h1 : i < elems.length) (h2 : i < eta.length) :
    idxPairs elems eta (i :: perm) = (eta[i], elems[i]) :: idxPairs elems eta perm := by
  simp [idxPairs, List.getElem?_eq_getElem h1, List.getElem?_eq_getElem h2]

theorem idxPairs_length {α} (elems : List α) (eta : List Rat) : ∀ (perm : List Nat),
    (∀ i ∈ perm, i < elems.length ∧ i < eta.length) → (idxPairs elems eta perm).length = perm.length
  | [], _ => rfl
  | i :: perm, h => by
    rw [idxPairs_cons elems eta i perm (h i (by simp)).1 (h i (by simp)).2, List.length_cons, List.length_cons,
      idxPairs_length elems eta perm (fun j hj => h j (by simp [hj]))]

/-- a loop over an index list that reads `elems[i]` and `eta[i]` is the loop over the pairs -/
theorem forIn_idx {α σ : Type} (elems : List α) (eta : List Rat)
    (F : Rat × α → σ → Except String (ForInStep σ)) : ∀ (perm : List Nat) (st : σ),
    (∀ i ∈ perm, i < elems.length ∧ i < eta.length) →
    forIn perm st (fun i s => do
      let t1 ← MeshOps.getIdx elems i
      let t2 ← MeshOps.getIdx eta i
      F (t2, t1) s) = forIn (idxPairs elems eta perm) st F
  | [], _, _ => rfl
  | i :: perm, st, h => by
    have h1 := (h i (by simp)).1
    have h2 := (h i (by simp)).2
    rw [idxPairs_cons elems eta i perm h1 h2, List.forIn_cons, List.forIn_cons, getIdx_of_lt _ _ h1,
      getIdx_of_lt _ _ h2]
    show (F (eta[i], elems[i]) st >>= _) = (F (eta[i], elems[i]) st >>= _)
    congr 1
    funext r
    cases r with
    | done b => rfl
    | yield b => exact forIn_idx elems eta F perm b (fun j hj => h j (by simp [hj]))

theorem foldl_append_snd {α} : ∀ (l : List (Rat × α)) (s : List α),
    l.foldl (fun s x => s ++ [x.2]) s = s ++ l.map (·.2)
  | [], s => by simp
  | x :: l, s => by simp [foldl_append_snd l]

/-- the marking loop over a list of (value, payload) entries with an accumulating state: the state is folded over the
entries `takeBulk` selects; the final running sum reaches the bound unless every entry was taken -/
theorem forIn_bulk {α σ : Type} (bound : Rat) (g : σ → Rat × α → σ) : ∀ (l : List (Rat × α)) (acc : Rat) (s : σ),
    ∃ cs : Rat,
      forIn l (acc, s) (fun (x : Rat × α) (st : Rat × σ) =>
        (if st.1 + x.1 ≥ bound then pure (ForInStep.done (st.1 + x.1, g st.2 x))
         else pure (ForInStep.yield (st.1 + x.1, g st.2 x)) : Except String _)) =
        .ok (cs, (takeBulk bound acc l).foldl g s) ∧
      (cs ≥ bound ∨ (takeBulk bound acc l).length = l.length)
  | [], acc, s => ⟨acc, rfl, Or.inr rfl⟩
  | (v, a) :: l, acc, s => by
    rw [List.forIn_cons]
    by_cases h : acc + v ≥ bound
    · refine ⟨acc + v, ?_, Or.inl h⟩
      simp only [takeBulk, h, if_true, List.foldl_cons, List.foldl_nil]
      rfl
    · obtain ⟨cs, h1, h2⟩ := forIn_bulk bound g l (acc + v) (g s (v, a))
      refine ⟨cs, ?_, ?_⟩
      · simp only [takeBulk, h, if_false, List.foldl_cons]
        exact h1
      · rcases h2 with h2 | h2
        · exact Or.inl h2
        · exact Or.inr (by simp [takeBulk, h, h2])

/-! ### the anisotropic marking: axis tags `0`/`1` of the source versus `Ax` of the model -/

theorem forIn_congr_mem {α σ ε : Type} {f f' : α → σ → Except ε (ForInStep σ)} : ∀ (l : List α) (s : σ),
    (∀ a ∈ l, ∀ s, f a s = f' a s) → forIn l s f = forIn l s f'
  | [], _, _ => rfl
  | a :: l, s, h => by
    rw [List.forIn_cons, List.forIn_cons, h a (by simp) s]
    congr 1
    funext r
    cases r with
    | done b => rfl
    | yield b => exact forIn_congr_mem l b (fun a' ha' => h a' (by simp [ha']))

theorem insertBy_map {α β} (f : α → β) (lt : α → α → Bool) (lt' : β → β → Bool)
    (h : ∀ a b, lt' (f a) (f b) = lt a b) (a : α) : ∀ l : List α,
    (insertBy lt a l).map f = insertBy lt' (f a) (l.map f)
  | [] => rfl
  | b :: l => by
    simp only [insertBy, List.map_cons, h]
    split
    · rw [List.map_cons, insertBy_map f lt lt' h a l]
    · rfl

/-- the stable sort commutes with a map that respects the comparison -/
theorem sortBy_map {α β} (f : α → β) (lt : α → α → Bool) (lt' : β → β → Bool)
    (h : ∀ a b, lt' (f a) (f b) = lt a b) : ∀ l : List α, (sortBy lt l).map f = sortBy lt' (l.map f)
  | [] => rfl
  | a :: l => by
    rw [List.map_cons, sortBy_cons, sortBy_cons, insertBy_map f lt lt' h, sortBy_map f lt lt' h l]

/-- axis number of the source (`refine_axis(elem, ax)`: 0 = time, 1 = space) as the model's `Ax` -/
def axOf : Nat → Ax
  | 0 => .time
  | _ => .space

/-- relabelling of the payload of the anisotropic error list -/
def tagAx (y : Cell × Nat) : Cell × Ax := (y.1, axOf y.2)

/-- the update `marked[refine_axis].append(elem)` for tags `0`/`1` -/
def pairPush (s : List Cell × List Cell) (x : Rat × Cell × Nat) : List Cell × List Cell :=
  if x.2.2 = 0 then (s.1 ++ [x.2.1], s.2) else (s.1, s.2 ++ [x.2.1])

theorem pairAppendAt_eq (s : List Cell × List Cell) (x : Rat × Cell × Nat) (h : x.2.2 ≤ 1) :
    MeshOps.pairAppendAt s x.2.2 x.2.1 = .ok (pairPush s x) := by
  obtain ⟨v, c, n⟩ := x
  match n, h with
  | 0, _ => rfl
  | 1, _ => rfl

/-- the cells marked for time / space refinement, in the form of the model -/
def mtOf (T : List (Rat × Cell × Nat)) : List Cell :=
  ((((T.map fun x => (x.1, tagAx x.2)).map (·.2)).filter fun p => p.2 == Ax.time).map (·.1))
def msOf (T : List (Rat × Cell × Nat)) : List Cell :=
  ((((T.map fun x => (x.1, tagAx x.2)).map (·.2)).filter fun p => p.2 == Ax.space).map (·.1))

theorem foldl_pairPush : ∀ (T : List (Rat × Cell × Nat)) (s : List Cell × List Cell),
    T.foldl pairPush s = (s.1 ++ mtOf T, s.2 ++ msOf T)
  | [], s => by simp [mtOf, msOf]
  | (v, c, n) :: T, s => by
    rw [List.foldl_cons, foldl_pairPush T]
    cases n with
    | zero => simp [pairPush, mtOf, msOf, tagAx, axOf]
    | succ k => simp [pairPush, mtOf, msOf, tagAx, axOf]

theorem mtOf_msOf_length : ∀ (T : List (Rat × Cell × Nat)), (mtOf T).length + (msOf T).length = T.length
  | [] => rfl
  | (v, c, n) :: T => by
    have ih := mtOf_msOf_length T
    cases n with
    | zero =>
      simp only [mtOf, msOf, tagAx, axOf, List.map_cons, List.filter_cons, List.length_cons] at ih ⊢
      simp at ih ⊢
      omega
    | succ k =>
      simp only [mtOf, msOf, tagAx, axOf, List.map_cons, List.filter_cons, List.length_cons] at ih ⊢
      simp at ih ⊢
      omega

/-- the marking loop of `dorfler_refine_anisotropic` on a list all of whose tags are `0` or `1` -/
theorem forIn_bulk_aniso (bound : Rat) (l : List (Rat × Cell × Nat)) (hl : ∀ x ∈ l, x.2.2 ≤ 1) :
    ∃ cs : Rat,
      forIn l ((0 : Rat), (([] : List Cell), ([] : List Cell))) (fun x (st : Rat × (List Cell × List Cell)) =>
        match x with
        | (val, elem, refine_axis) => do
          let marked ← MeshOps.pairAppendAt st.2 refine_axis elem
          (if st.1 + val ≥ bound then pure (ForInStep.done (st.1 + val, marked))
           else pure (ForInStep.yield (st.1 + val, marked)) : Except String _)) =
        .ok (cs, (mtOf (takeBulk bound 0 l), msOf (takeBulk bound 0 l))) ∧
      (cs ≥ bound ∨ (takeBulk bound 0 l).length = l.length) := by
  obtain ⟨cs, h1, h2⟩ := forIn_bulk bound pairPush l 0 ([], [])
  refine ⟨cs, ?_, h2⟩
  rw [foldl_pairPush] at h1
  simp only [List.nil_append] at h1
  rw [← h1]
  apply forIn_congr_mem
  intro x hx st
  obtain ⟨v, c, n⟩ := x
  have := pairAppendAt_eq st.2 (v, c, n) (hl _ hx)
  simp only [] at this
  simp only [this, ok_bind]

/-- the error list as `dorfler_refine_anisotropic` builds it (two comprehensions over `zip(eta_sqr[:, k], elems)`) -/
def errsG (eta : List (Rat × Rat)) (leaves : List Cell) : List (Rat × Cell × Nat) :=
  ((List.zip (eta.map fun (p : Rat × Rat) => p.1) leaves).map fun (x : Rat × Cell) => (x.1, x.2, 0)) ++
    ((List.zip (eta.map fun (p : Rat × Rat) => p.2) leaves).map fun (x : Rat × Cell) => (x.1, x.2, 1))

/-- the error list of the source, relabelled, is the error list of the model -/
theorem errs_map (eta : List (Rat × Rat)) (leaves : List Cell) :
    (errsG eta leaves).map (fun x => (x.1, tagAx x.2)) =
    ((eta.zip leaves).map fun p => (p.1.1, (p.2, Ax.time))) ++
      ((eta.zip leaves).map fun p => (p.1.2, (p.2, Ax.space))) := by
  simp [errsG, List.zip_map_left, List.map_map, Function.comp_def, tagAx, axOf]

theorem errs_tags (eta : List (Rat × Rat)) (leaves : List Cell) : ∀ x ∈ errsG eta leaves, x.2.2 ≤ 1 := by
  intro x hx
  rcases List.mem_append.mp hx with h | h
  · obtain ⟨y, _, rfl⟩ := List.mem_map.mp h
    simp
  · obtain ⟨y, _, rfl⟩ := List.mem_map.mp h
    simp

theorem errs_length (eta : List (Rat × Rat)) (leaves : List Cell) (h : eta.length = leaves.length) :
    (errsG eta leaves).length = 2 * leaves.length := by
  simp [errsG, h]
  omega

/-- the entries the model marks are the relabelled entries the loop of the source marks -/
theorem hand_marked (eta : List (Rat × Rat)) (leaves : List Cell) (B : Rat) :
    takeBulk B 0 (sortDesc (((eta.zip leaves).map fun p => (p.1.1, (p.2, Ax.time))) ++
      ((eta.zip leaves).map fun p => (p.1.2, (p.2, Ax.space))))) =
    (takeBulk B 0 (sortBy (fun a b => decide (a.1 > b.1)) (errsG eta leaves))).map (fun x => (x.1, tagAx x.2)) := by
  rw [← errs_map, sortDesc, ← sortBy_map (fun x : Rat × Cell × Nat => (x.1, tagAx x.2))
    (fun a b => decide (a.1 > b.1)) (fun a b => decide (a.1 > b.1)) (fun _ _ => rfl), takeBulk_map]

/-- the replacement loop: `marked_space.extend(elem.children)` / `marked_space.append(elem)` -/
theorem forIn_replace (m1 : Mesh) : ∀ (l : List Cell) (acc : List Cell),
    forIn l acc (fun elem (s : List Cell) =>
      (if ¬ MeshOps.childrenOf m1 elem Ax.time = [] then
        pure (ForInStep.yield (s ++ MeshOps.childrenOf m1 elem Ax.time))
      else pure (ForInStep.yield (s ++ [elem])) : Except String _)) =
    .ok (acc ++ l.flatMap fun c =>
      match m1.kids.find? (fun k => k.1 == c.id) with
      | none => [c]
      | some k => [(children k.2.1 c .time).1, (children k.2.1 c .time).2])
  | [], acc => by simp; rfl
  | c :: l, acc => by
    rw [List.forIn_cons, List.flatMap_cons]
    unfold MeshOps.childrenOf
    cases h : m1.kids.find? (fun k => k.1 == c.id) with
    | none =>
      simp only [not_true_eq_false, if_false, pure_bind]
      have := forIn_replace m1 l (acc ++ [c])
      unfold MeshOps.childrenOf at this
      rw [this, List.append_assoc]
    | some k =>
      simp only [List.cons_ne_nil, not_false_eq_true, if_true, pure_bind]
      have := forIn_replace m1 l (acc ++ [(children k.2.1 c .time).1, (children k.2.1 c .time).2])
      unfold MeshOps.childrenOf at this
      rw [this, List.append_assoc]

/-! ### the loops of `refine_grading` -/

/-- the classification loop: `marked_time` collects the leaves with `h_t/K ≥ h_x^σ`, `marked_space` those of the
remaining ones with `h_x^σ ≥ K h_t`; the `assert` of the third branch cannot fire (the order on ℚ is total) -/
theorem forIn_classify (p q : Nat) (K : Rat) : ∀ (l : List Cell) (ms mt : List Cell),
    forIn l (ms, mt) (fun elem (s : List Cell × List Cell) =>
      (if ((elem.t1 - elem.t0) / K) ^ q ≥ (elem.x1 - elem.x0) ^ p then
        pure (ForInStep.yield (s.1, s.2 ++ [elem]))
      else if (elem.x1 - elem.x0) ^ p ≥ (K * (elem.t1 - elem.t0)) ^ q then
        pure (ForInStep.yield (s.1 ++ [elem], s.2))
      else do
        MeshOps.assertThat (((elem.t1 - elem.t0) / K) ^ q < (elem.x1 - elem.x0) ^ p ∧
          (elem.x1 - elem.x0) ^ p < (K * (elem.t1 - elem.t0)) ^ q) "assert:window"
        pure (ForInStep.yield (s.1, s.2)) : Except String _)) =
    .ok (ms ++ l.filter (fun c => !markTime c p q K && markSpace c p q K), mt ++ l.filter (fun c => markTime c p q K))
  | [], ms, mt => by simp; rfl
  | c :: l, ms, mt => by
    rw [List.forIn_cons]
    by_cases h1 : ((c.t1 - c.t0) / K) ^ q ≥ (c.x1 - c.x0) ^ p
    · have e1 : markTime c p q K = true := by simp [markTime, h1]
      rw [if_pos h1, pure_bind]
      dsimp only
      rw [forIn_classify p q K l]
      simp [e1]
    · have e1 : markTime c p q K = false := by simp [markTime, h1]
      rw [if_neg h1]
      by_cases h2 : (c.x1 - c.x0) ^ p ≥ (K * (c.t1 - c.t0)) ^ q
      · have e2 : markSpace c p q K = true := by simp [markSpace, h2]
        rw [if_pos h2, pure_bind]
        dsimp only
        rw [forIn_classify p q K l]
        simp [e1, e2]
      · have e2 : markSpace c p q K = false := by simp [markSpace, h2]
        rw [if_neg h2, assertThat_true _ ⟨not_le.mp h1, not_le.mp h2⟩, ok_bind, pure_bind]
        dsimp only
        rw [forIn_classify p q K l]
        simp [e1, e2]

/-- the space loop of the sweep: `if elem.children: continue` -/
theorem forIn_space_skip (l : List Cell) (m : Mesh) :
    forIn l m (fun elem s =>
      (if MeshOps.hasChildren s elem = true then pure (ForInStep.yield s)
      else do
        let r ← MeshOps.refineAxisRef s elem .space
        pure (ForInStep.yield r.1) : Except String _)) =
    l.foldlM (fun (m : Mesh) c =>
      match findLeaf m c.id with
      | none => if true then pure m else .error "assert:grading-not-leaf"
      | some _ => refineId m c.id .space) m := by
  apply forIn_yield_foldlM
  intro c s
  unfold MeshOps.hasChildren
  cases h : findLeaf s c.id with
  | none => rfl
  | some c' =>
    simp only [Option.isNone_some, Bool.false_eq_true, if_false]
    rw [← refineAxisRef_fst]
    cases MeshOps.refineAxisRef s c .space <;> rfl

theorem sortBy_isEmpty {α} (lt : α → α → Bool) (l : List α) : (sortBy lt l).isEmpty = l.isEmpty := by
  have := (sortBy_perm lt l).length_eq
  cases l with
  | nil => rfl
  | cons a l =>
    cases h : sortBy lt (a :: l) with
    | nil => rw [h] at this; simp at this
    | cons b l' => rfl

end Stbem.MeshOpsTie
