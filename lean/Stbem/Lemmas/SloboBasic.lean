import Stbem.Model.Slobo
import Stbem.Lemmas.QuadBasic
import Mathlib.Tactic.Positivity

/-! Elementary facts on the Slobodeckij rules: the double-sum form, sign, constants, scaling,
translation, curve-aware = flat on straight unit-speed pieces. -/
namespace Stbem.Quad

theorem sumR_map_zero {α} (l : List α) : sumR (l.map fun _ => (0 : Rat)) = 0 := by
  induction l with
  | nil => simp
  | cons a l ih => simp only [List.map_cons, sumR_cons, ih, add_zero]

theorem sumR_map_nonneg {α} (f : α → Rat) (l : List α) (h : ∀ a ∈ l, 0 ≤ f a) :
    0 ≤ sumR (l.map f) := by
  apply sumR_nonneg
  intro b hb
  obtain ⟨a, ha, rfl⟩ := List.mem_map.mp hb
  exact h a ha

/-- a sum over the tensor rule is the iterated sum -/
theorem sumR_product2 (rx ry : Rule1) (F : N2 → Rat) :
    sumR ((product2 rx ry).map F) =
      sumR (rx.map fun nx => sumR (ry.map fun ny => F ⟨nx.x, ny.x, nx.w * ny.w⟩)) := by
  unfold product2
  rw [sumR_flatMap]
  simp only [List.map_map, Function.comp_def]

theorem mem_product2 {rx ry : Rule1} {n : N2} (h : n ∈ product2 rx ry) :
    ∃ nx ∈ rx, ∃ ny ∈ ry, n = ⟨nx.x, ny.x, nx.w * ny.w⟩ := by
  unfold product2 at h
  obtain ⟨nx, hx, hn⟩ := List.mem_flatMap.mp h
  obtain ⟨ny, hy, rfl⟩ := List.mem_map.mp hn
  exact ⟨nx, hx, ny, hy, rfl⟩

/-! ## H^{1/4} -/

theorem semi14_nonneg (g : Rule1) (f : Rat → Rat) (a h : Rat)
    (hg : ∀ n ∈ g, 0 ≤ n.w ∧ 0 ≤ n.x) : 0 ≤ semi14 g f a h := by
  unfold semi14
  apply sumR_map_nonneg
  intro n hn
  obtain ⟨nx, hx, ny, hy, rfl⟩ := mem_product2 hn
  have h1 := hg nx hx
  have h2 := hg ny hy
  have : 0 ≤ 2 * (nx.w * ny.w) / ny.x := div_nonneg (by nlinarith [h1.1, h2.1, mul_nonneg h1.1 h2.1]) h2.2
  exact mul_nonneg (sq_nonneg _) this

theorem semi14_const (g : Rule1) (c a h : Rat) : semi14 g (fun _ => c) a h = 0 := by
  unfold semi14
  rw [sumR_map_congr _ (fun _ => (0 : Rat)) _ (by intro n _; ring)]
  exact sumR_map_zero _

theorem semi14_scale (g : Rule1) (f : Rat → Rat) (c a h : Rat) :
    semi14 g (fun x => c * f x) a h = c ^ 2 * semi14 g f a h := by
  unfold semi14
  rw [← sumR_map_mul_left]
  apply sumR_map_congr
  intro n _
  ring

theorem semi14_translate (g : Rule1) (f : Rat → Rat) (a h τ : Rat) :
    semi14 g (fun x => f (x - τ)) (a + τ) h = semi14 g f a h := by
  unfold semi14
  apply sumR_map_congr
  intro n _
  have e1 : a + τ + h * n.x - τ = a + h * n.x := by ring
  have e2 : a + τ + h * (n.x * (1 - n.y)) - τ = a + h * (n.x * (1 - n.y)) := by ring
  simp only [e1, e2]

/-! ## H^{1/2}, flat -/

theorem semi12_nonneg (gx gl : Rule1) (f : Rat → Rat) (a h : Rat)
    (hx : ∀ n ∈ gx, 0 ≤ n.w) (hl : ∀ n ∈ gl, 0 ≤ n.w) : 0 ≤ semi12 gx gl f a h := by
  unfold semi12
  apply mul_nonneg (by positivity)
  apply sumR_map_nonneg
  intro n hn
  obtain ⟨nx, hx', ny, hy', rfl⟩ := mem_product2 hn
  exact mul_nonneg (div_nonneg (sq_nonneg _) (sq_nonneg _)) (mul_nonneg (hx nx hx') (hl ny hy'))

theorem semi12_const (gx gl : Rule1) (c a h : Rat) : semi12 gx gl (fun _ => c) a h = 0 := by
  unfold semi12
  rw [sumR_map_congr _ (fun _ => (0 : Rat)) _ (by intro n _; simp)]
  rw [sumR_map_zero]; ring

theorem semi12_scale (gx gl : Rule1) (f : Rat → Rat) (c a h : Rat) :
    semi12 gx gl (fun x => c * f x) a h = c ^ 2 * semi12 gx gl f a h := by
  unfold semi12
  rw [mul_left_comm, ← sumR_map_mul_left (c ^ 2)]
  congr 1
  apply sumR_map_congr
  intro n _
  ring

theorem semi12_translate (gx gl : Rule1) (f : Rat → Rat) (a h τ : Rat) :
    semi12 gx gl (fun x => f (x - τ)) (a + τ) h = semi12 gx gl f a h := by
  unfold semi12
  congr 1
  apply sumR_map_congr
  intro n _
  have e1 : a + τ + h * n.x - τ = a + h * n.x := by ring
  have e2 : a + τ + h * (n.x * n.y) - τ = a + h * (n.x * n.y) := by ring
  have e3 : a + τ + h * n.x - (a + τ + h * (n.x * n.y)) = a + h * n.x - (a + h * (n.x * n.y)) := by ring
  simp only [e1, e2, e3]

/-! ## H^{1/2}, curve-aware -/

theorem semi12g_nonneg (gx gl : Rule1) (γ : Rat → Rat × Rat) (f : Rat → Rat × Rat → Rat) (a h : Rat)
    (hx : ∀ n ∈ gx, 0 ≤ n.w) (hl : ∀ n ∈ gl, 0 ≤ n.w) : 0 ≤ semi12g gx gl γ f a h := by
  unfold semi12g
  apply mul_nonneg (by positivity)
  apply sumR_map_nonneg
  intro n hn
  obtain ⟨nx, hx', ny, hy', rfl⟩ := mem_product2 hn
  have hd : ∀ p q, 0 ≤ dist2 p q := fun p q => by unfold dist2; positivity
  exact mul_nonneg (div_nonneg (sq_nonneg _) (hd _ _)) (mul_nonneg (hx nx hx') (hl ny hy'))

theorem semi12g_const (gx gl : Rule1) (γ : Rat → Rat × Rat) (c a h : Rat) :
    semi12g gx gl γ (fun _ _ => c) a h = 0 := by
  unfold semi12g
  rw [sumR_map_congr _ (fun _ => (0 : Rat)) _ (by intro n _; simp)]
  rw [sumR_map_zero]; ring

theorem semi12g_scale (gx gl : Rule1) (γ : Rat → Rat × Rat) (f : Rat → Rat × Rat → Rat) (c a h : Rat) :
    semi12g gx gl γ (fun x p => c * f x p) a h = c ^ 2 * semi12g gx gl γ f a h := by
  unfold semi12g
  rw [mul_left_comm, ← sumR_map_mul_left (c ^ 2)]
  congr 1
  apply sumR_map_congr
  intro n _
  ring

/-- distance of two points of a straight piece: `|γ(x) - γ(y)|² = (x - y)² |d|²` -/
theorem Seg.dist2_at (g : Seg) (x y : Rat) :
    dist2 (g.at x) (g.at y) = (x - y) ^ 2 * (g.d1 ^ 2 + g.d2 ^ 2) := by
  unfold dist2 Seg.at; ring

/-- **on a straight unit-speed piece the curve-aware variant equals the flat one**, applied to the
pulled-back integrand `x̂ ↦ f(x̂, γ(x̂))`; every base rule, every integrand, every interval, every
placement (`p`, `s`) and every rational direction of length one -/
theorem semi12_curve_eq_flat (gx gl : Rule1) (g : Seg) (hd : g.d1 ^ 2 + g.d2 ^ 2 = 1)
    (f : Rat → Rat × Rat → Rat) (a h : Rat) :
    semi12g gx gl g.at f a h = semi12 gx gl (fun x => f x (g.at x)) a h := by
  unfold semi12g semi12
  congr 1
  apply sumR_map_congr
  intro n _
  rw [Seg.dist2_at, hd, mul_one]

/-- for a piece traversed with speed `|d| ≠ 1` the curve-aware value is the flat one divided by
`|d|²` (the routine integrates in the parameter, not in arc length) -/
theorem semi12_curve_speed (gx gl : Rule1) (g : Seg) (f : Rat → Rat × Rat → Rat) (a h : Rat) :
    semi12g gx gl g.at f a h =
      semi12 gx gl (fun x => f x (g.at x)) a h / (g.d1 ^ 2 + g.d2 ^ 2) := by
  unfold semi12g semi12
  rw [mul_div_assoc, div_eq_mul_inv _ (g.d1 ^ 2 + g.d2 ^ 2), ← sumR_map_mul_right]
  congr 1
  apply sumR_map_congr
  intro n _
  rw [Seg.dist2_at, div_eq_mul_inv, div_eq_mul_inv, mul_inv]
  ring

/-! ## the two-piece routine -/

theorem semi12pwVal_ok {gx gl : Rule1} {same : Bool} {γ1 γ2 : Rat → Rat × Rat}
    {f : Rat → Rat × Rat → Rat} {a1 b1 a2 b2 v : Rat}
    (h : semi12pwVal gx gl same γ1 γ2 f a1 b1 a2 b2 = .ok v) :
    same = false ∧ γ1 b1 = γ2 a2 ∧ tol7 < b1 - a1 ∧ tol7 < b2 - a2 ∧
      v = semi12g gx gl γ1 f a1 (b1 - a1) + semi12g gx gl γ2 f a2 (b2 - a2) +
        2 * integrate2 (semi12pw gx gl) (sloCross γ1 γ2 f) a1 b1 a2 b2 := by
  unfold semi12pwVal at h
  split at h
  · cases h
  · next hs =>
    split at h
    · cases h
    · next hc =>
      split at h
      · next hsz =>
        refine ⟨by simpa using hs, by simpa using hc, hsz.1, hsz.2, ?_⟩
        injection h with h
        exact h.symm
      · cases h

theorem semi12pw_nonneg (gx gl : Rule1) (γ1 γ2 : Rat → Rat × Rat) (f : Rat → Rat × Rat → Rat)
    (a1 b1 a2 b2 : Rat) (h1 : a1 ≤ b1) (h2 : a2 ≤ b2)
    (hx : ∀ n ∈ gx, 0 ≤ n.w) (hl : ∀ n ∈ gl, 0 ≤ n.w) :
    0 ≤ integrate2 (semi12pw gx gl) (sloCross γ1 γ2 f) a1 b1 a2 b2 := by
  unfold integrate2
  apply mul_nonneg (mul_nonneg (by linarith) (by linarith))
  apply sumR_map_nonneg
  intro n hn
  have hd : ∀ p q, 0 ≤ dist2 p q := fun p q => by unfold dist2; positivity
  have hw : 0 ≤ n.w := by
    unfold semi12pw at hn
    rcases List.mem_append.mp hn with hn | hn
    all_goals
      obtain ⟨m, hm, rfl⟩ := List.mem_map.mp hn
      obtain ⟨nx, hx', ny, hy', rfl⟩ := mem_product2 hm
      exact mul_nonneg (hx nx hx') (hl ny hy')
  exact mul_nonneg (div_nonneg (sq_nonneg _) (hd _ _)) hw

end Stbem.Quad
