import Stbem.Gen.ParamGen
import Mathlib.Data.Rat.Sqrt
import Mathlib.Data.Nat.Sqrt
import Mathlib.Tactic.Linarith
import Mathlib.Tactic.Ring
import Mathlib.Algebra.Order.Field.Rat

/-!
# The prelude of `Gen/ParamGen.lean`: what its exact `np.linalg.norm` computes

`natSqrt` (fuel recursion, kernel-friendly) is `Nat.sqrt`; `ratSqrt?` returns the non-negative rational root exactly when
there is one; `npLinalgNorm` of a 1-D array therefore is the Euclidean norm whenever that is rational.
-/
namespace Stbem.Gen.ParamGen

theorem natSqrtGo_eq_iter (n : Nat) : ∀ (f g : Nat), g ≤ f → natSqrtGo n f g = Nat.sqrt.iter n g := by
  intro f
  induction f with
  | zero =>
    intro g hg
    have : g = 0 := by omega
    subst this
    rw [natSqrtGo, Nat.sqrt.iter]
    rw [dif_neg (by omega)]
  | succ f ih =>
    intro g hg
    rw [natSqrtGo, Nat.sqrt.iter]
    split
    · rename_i h
      exact ih _ (by omega)
    · rfl

theorem natSqrt_eq (n : Nat) : natSqrt n = Nat.sqrt n := by
  unfold natSqrt Nat.sqrt
  split
  · rfl
  · exact natSqrtGo_eq_iter n _ _ (le_refl _)

theorem absQ_eq_abs (x : Rat) : absQ x = |x| := by
  unfold absQ
  split
  · rename_i h; rw [abs_of_neg h]
  · rename_i h; rw [abs_of_nonneg (not_lt.mp h)]

theorem ratSqrt?_sound {q r : Rat} (h : ratSqrt? q = some r) : r * r = q ∧ 0 ≤ r := by
  unfold ratSqrt? at h
  simp only at h
  split at h
  · rename_i hc
    have := Option.some.inj h
    subst this
    refine ⟨hc.2, ?_⟩
    exact Rat.mkRat_nonneg (by exact_mod_cast Nat.zero_le _) _
  · cases h

theorem ratSqrt?_mul_self (x : Rat) : ratSqrt? (x * x) = some |x| := by
  have hs : mkRat (natSqrt (x * x).num.toNat) (natSqrt (x * x).den) = |x| := by
    rw [natSqrt_eq, natSqrt_eq, ← Rat.sqrt_eq x, Rat.sqrt]
    congr 1
  unfold ratSqrt?
  simp only [hs]
  rw [if_pos ⟨mul_self_nonneg x, abs_mul_abs_self x⟩]

/-- completeness: a rational number with a rational root gets its non-negative root -/
theorem ratSqrt?_complete {q r : Rat} (h : r * r = q) : ratSqrt? q = some |r| := by
  rw [← h]; exact ratSqrt?_mul_self r

theorem npLinalgNorm_sound {v : List Rat} {n : Rat} (h : npLinalgNorm v = .ok n) :
    n * n = npSum (v.map fun u => u * u) ∧ 0 ≤ n := by
  unfold npLinalgNorm at h
  split at h
  · rename_i r hr
    have := Except.ok.inj h
    subst this
    exact ratSqrt?_sound hr
  · cases h

theorem npLinalgNorm_of_sq {v : List Rat} {n : Rat} (h : n * n = npSum (v.map fun u => u * u)) :
    npLinalgNorm v = .ok |n| := by
  unfold npLinalgNorm
  rw [ratSqrt?_complete h]
  rfl

theorem npLinalgNorm_pair (x y n : Rat) (h : n * n = x * x + y * y) : npLinalgNorm [x, y] = .ok |n| := by
  apply npLinalgNorm_of_sq
  simp [npSum, h]

end Stbem.Gen.ParamGen
