import Stbem.Lemmas.MeshGradingClassed
import Stbem.Lemmas.MeshGradingSlabs
import Mathlib.Tactic.IntervalCases

/-!
# Targets for the two time slabs `2^-j`, `1 - 2^-j` over unit space roots (`K = 4`)

For `σ = 1` and `j ≤ 5`, for `σ = 3/2` and `σ = 2` and `j ≤ 6` both root sizes `2^-j × 1` and
`(1 - 2^-j) × 1` have a level pair with cell size in the window inside one `2 × 2` box of level pairs
(`SlabTargets`; the table below lists base levels and the two targets — plain evaluations of the window
inequalities).  In terms of `σ = p/q` the bound is `q·j + 2 ≤ 6q + p`, the exact complement of the condition
of `slab_no_window` (`slab_targets_exist`).  With `MeshGradingClassed` this gives termination of the
repaired grading loop from every mesh whose leaves descend from these roots (`slab_init_classed`).
-/
namespace Stbem.Mesh

/-- both root sizes of the two-slab mesh have a target in the box at `(Lt0, Lx0)` -/
def SlabTargets (j p q Lt0 Lx0 : Nat) : Prop :=
  (∃ Lt Lx, (Lt0 ≤ Lt ∧ Lt ≤ Lt0 + 1) ∧ (Lx0 ≤ Lx ∧ Lx ≤ Lx0 + 1) ∧
    Target (1 / 2 ^ j) 1 p q 4 Lt Lx) ∧
  (∃ Lt Lx, (Lt0 ≤ Lt ∧ Lt ≤ Lt0 + 1) ∧ (Lx0 ≤ Lx ∧ Lx ≤ Lx0 + 1) ∧
    Target (1 - 1 / 2 ^ j) 1 p q 4 Lt Lx)

theorem slab_init_classed (glue : Bool) {j p q Lt0 Lx0 : Nat} (h : SlabTargets j p q Lt0 Lx0) :
    ∀ c ∈ (init glue [0, 1, 2, 3, 4] (slabGrid j)).leaves, Classed p q 4 Lt0 Lx0 c := by
  refine init_classed glue ?_
  intro tp htp xp hxp
  have hx : xp.2 - xp.1 = 1 := by
    simp only [pairs, List.mem_cons, List.not_mem_nil, or_false] at hxp
    rcases hxp with rfl | rfl | rfl | rfl <;> norm_num
  rw [hx]
  simp only [slabGrid, pairs, List.mem_cons, List.not_mem_nil, or_false] at htp
  rcases htp with rfl | rfl
  · simpa only [sub_zero] using h.1
  · exact h.2

/-! ### the table -/

theorem slab_targets_1_1_1 : SlabTargets 1 1 1 0 0 :=
  ⟨⟨0, 0, by omega, by omega, ⟨by norm_num, by norm_num, by norm_num, by norm_num, by norm_num⟩⟩,
   ⟨0, 0, by omega, by omega, ⟨by norm_num, by norm_num, by norm_num, by norm_num, by norm_num⟩⟩⟩

theorem slab_targets_1_1_2 : SlabTargets 2 1 1 0 0 :=
  ⟨⟨0, 1, by omega, by omega, ⟨by norm_num, by norm_num, by norm_num, by norm_num, by norm_num⟩⟩,
   ⟨0, 0, by omega, by omega, ⟨by norm_num, by norm_num, by norm_num, by norm_num, by norm_num⟩⟩⟩

theorem slab_targets_1_1_3 : SlabTargets 3 1 1 0 1 :=
  ⟨⟨0, 2, by omega, by omega, ⟨by norm_num, by norm_num, by norm_num, by norm_num, by norm_num⟩⟩,
   ⟨0, 1, by omega, by omega, ⟨by norm_num, by norm_num, by norm_num, by norm_num, by norm_num⟩⟩⟩

theorem slab_targets_1_1_4 : SlabTargets 4 1 1 0 2 :=
  ⟨⟨0, 3, by omega, by omega, ⟨by norm_num, by norm_num, by norm_num, by norm_num, by norm_num⟩⟩,
   ⟨0, 2, by omega, by omega, ⟨by norm_num, by norm_num, by norm_num, by norm_num, by norm_num⟩⟩⟩

theorem slab_targets_1_1_5 : SlabTargets 5 1 1 0 3 :=
  ⟨⟨0, 4, by omega, by omega, ⟨by norm_num, by norm_num, by norm_num, by norm_num, by norm_num⟩⟩,
   ⟨1, 3, by omega, by omega, ⟨by norm_num, by norm_num, by norm_num, by norm_num, by norm_num⟩⟩⟩

theorem slab_targets_3_2_1 : SlabTargets 1 3 2 0 0 :=
  ⟨⟨0, 0, by omega, by omega, ⟨by norm_num, by norm_num, by norm_num, by norm_num, by norm_num⟩⟩,
   ⟨0, 0, by omega, by omega, ⟨by norm_num, by norm_num, by norm_num, by norm_num, by norm_num⟩⟩⟩

theorem slab_targets_3_2_2 : SlabTargets 2 3 2 0 0 :=
  ⟨⟨0, 1, by omega, by omega, ⟨by norm_num, by norm_num, by norm_num, by norm_num, by norm_num⟩⟩,
   ⟨0, 0, by omega, by omega, ⟨by norm_num, by norm_num, by norm_num, by norm_num, by norm_num⟩⟩⟩

theorem slab_targets_3_2_3 : SlabTargets 3 3 2 0 0 :=
  ⟨⟨0, 1, by omega, by omega, ⟨by norm_num, by norm_num, by norm_num, by norm_num, by norm_num⟩⟩,
   ⟨0, 0, by omega, by omega, ⟨by norm_num, by norm_num, by norm_num, by norm_num, by norm_num⟩⟩⟩

theorem slab_targets_3_2_4 : SlabTargets 4 3 2 0 1 :=
  ⟨⟨0, 2, by omega, by omega, ⟨by norm_num, by norm_num, by norm_num, by norm_num, by norm_num⟩⟩,
   ⟨0, 1, by omega, by omega, ⟨by norm_num, by norm_num, by norm_num, by norm_num, by norm_num⟩⟩⟩

theorem slab_targets_3_2_5 : SlabTargets 5 3 2 0 2 :=
  ⟨⟨0, 3, by omega, by omega, ⟨by norm_num, by norm_num, by norm_num, by norm_num, by norm_num⟩⟩,
   ⟨1, 2, by omega, by omega, ⟨by norm_num, by norm_num, by norm_num, by norm_num, by norm_num⟩⟩⟩

theorem slab_targets_3_2_6 : SlabTargets 6 3 2 0 2 :=
  ⟨⟨0, 3, by omega, by omega, ⟨by norm_num, by norm_num, by norm_num, by norm_num, by norm_num⟩⟩,
   ⟨1, 2, by omega, by omega, ⟨by norm_num, by norm_num, by norm_num, by norm_num, by norm_num⟩⟩⟩

theorem slab_targets_2_1_1 : SlabTargets 1 2 1 0 0 :=
  ⟨⟨0, 0, by omega, by omega, ⟨by norm_num, by norm_num, by norm_num, by norm_num, by norm_num⟩⟩,
   ⟨0, 0, by omega, by omega, ⟨by norm_num, by norm_num, by norm_num, by norm_num, by norm_num⟩⟩⟩

theorem slab_targets_2_1_2 : SlabTargets 2 2 1 0 0 :=
  ⟨⟨0, 1, by omega, by omega, ⟨by norm_num, by norm_num, by norm_num, by norm_num, by norm_num⟩⟩,
   ⟨0, 0, by omega, by omega, ⟨by norm_num, by norm_num, by norm_num, by norm_num, by norm_num⟩⟩⟩

theorem slab_targets_2_1_3 : SlabTargets 3 2 1 0 0 :=
  ⟨⟨0, 1, by omega, by omega, ⟨by norm_num, by norm_num, by norm_num, by norm_num, by norm_num⟩⟩,
   ⟨0, 0, by omega, by omega, ⟨by norm_num, by norm_num, by norm_num, by norm_num, by norm_num⟩⟩⟩

theorem slab_targets_2_1_4 : SlabTargets 4 2 1 0 1 :=
  ⟨⟨0, 2, by omega, by omega, ⟨by norm_num, by norm_num, by norm_num, by norm_num, by norm_num⟩⟩,
   ⟨0, 1, by omega, by omega, ⟨by norm_num, by norm_num, by norm_num, by norm_num, by norm_num⟩⟩⟩

theorem slab_targets_2_1_5 : SlabTargets 5 2 1 0 1 :=
  ⟨⟨0, 2, by omega, by omega, ⟨by norm_num, by norm_num, by norm_num, by norm_num, by norm_num⟩⟩,
   ⟨0, 1, by omega, by omega, ⟨by norm_num, by norm_num, by norm_num, by norm_num, by norm_num⟩⟩⟩

theorem slab_targets_2_1_6 : SlabTargets 6 2 1 1 2 :=
  ⟨⟨1, 3, by omega, by omega, ⟨by norm_num, by norm_num, by norm_num, by norm_num, by norm_num⟩⟩,
   ⟨2, 2, by omega, by omega, ⟨by norm_num, by norm_num, by norm_num, by norm_num, by norm_num⟩⟩⟩

/-- targets exist exactly below the divergence bound of `slab_no_window` -/
theorem slab_targets_exist {j p q : Nat}
    (hσ : (p, q) = (1, 1) ∨ (p, q) = (3, 2) ∨ (p, q) = (2, 1)) (hj : 1 ≤ j)
    (hb : q * j + 2 ≤ 6 * q + p) : ∃ Lt0 Lx0, SlabTargets j p q Lt0 Lx0 := by
  rcases hσ with e | e | e <;> (injection e with e1 e2; subst e1; subst e2)
  · have hj5 : j ≤ 5 := by omega
    interval_cases j
    · exact ⟨0, 0, slab_targets_1_1_1⟩
    · exact ⟨0, 0, slab_targets_1_1_2⟩
    · exact ⟨0, 1, slab_targets_1_1_3⟩
    · exact ⟨0, 2, slab_targets_1_1_4⟩
    · exact ⟨0, 3, slab_targets_1_1_5⟩
  · have hj5 : j ≤ 6 := by omega
    interval_cases j
    · exact ⟨0, 0, slab_targets_3_2_1⟩
    · exact ⟨0, 0, slab_targets_3_2_2⟩
    · exact ⟨0, 0, slab_targets_3_2_3⟩
    · exact ⟨0, 1, slab_targets_3_2_4⟩
    · exact ⟨0, 2, slab_targets_3_2_5⟩
    · exact ⟨0, 2, slab_targets_3_2_6⟩
  · have hj5 : j ≤ 6 := by omega
    interval_cases j
    · exact ⟨0, 0, slab_targets_2_1_1⟩
    · exact ⟨0, 0, slab_targets_2_1_2⟩
    · exact ⟨0, 0, slab_targets_2_1_3⟩
    · exact ⟨0, 1, slab_targets_2_1_4⟩
    · exact ⟨0, 1, slab_targets_2_1_5⟩
    · exact ⟨1, 2, slab_targets_2_1_6⟩

end Stbem.Mesh
