import Stbem.Lemmas.QuadtreeBisect

/-!
# `bisect` keeps the vertex list duplicate-free and equal to the set of corners; `bisect_inv`
-/
namespace Stbem.Quadtree

theorem mid_injective (c : Elem) (hp : 0 < c.size) (s s' : Side) (h : mid c s = mid c s') : s = s' := by
  cases s <;> cases s' <;> first | rfl | (exfalso; simp only [mid, Prod.mk.injEq] at h; linarith [h.1, h.2])

theorem centre_ne_mid (c : Elem) (hp : 0 < c.size) (s : Side) :
    mid c s ≠ (c.x0 + c.size / 2, c.y0 + c.size / 2) := by
  intro h
  cases s <;> simp only [mid, Prod.mk.injEq] at h <;> linarith [h.1, h.2]

theorem side_all_nodup : Side.all.Nodup := by decide

theorem mem_side_all (s : Side) : s ∈ Side.all := by cases s <;> simp [Side.all]

theorem newv_nodup (m : QT) (c : Elem) (hp : 0 < c.size) :
    ((Side.all.filter fun s => !bisected m c s).map (mid c) ++
      [(c.x0 + c.size / 2, c.y0 + c.size / 2)]).Nodup := by
  rw [List.nodup_append]
  refine ⟨?_, by simp, ?_⟩
  · apply List.Nodup.map_on
    · intro s _ s' _ h; exact mid_injective c hp s s' h
    · exact side_all_nodup.filter _
  · intro a ha b hb
    simp only [List.mem_cons, List.not_mem_nil, or_false] at hb
    subst hb
    obtain ⟨s, _, rfl⟩ := List.mem_map.mp ha
    exact centre_ne_mid c hp s

/-- the corners of a child have coordinates `x0`, `x0 + size/2`, `x0 + size` of the parent -/
theorem child_corner {n : Nat} {c : Elem} {k : Nat} {v : Rat × Rat} (hv : Corner (child n c k) v) :
    (v.1 = c.x0 ∨ v.1 = c.x0 + c.size / 2 ∨ v.1 = c.x0 + c.size) ∧
    (v.2 = c.y0 ∨ v.2 = c.y0 + c.size / 2 ∨ v.2 = c.y0 + c.size) := by
  constructor
  · rcases posDx_cases k with e | e <;> rcases hv.1 with h | h <;> simp only [child, e] at h
    · exact Or.inl (by linarith)
    · exact Or.inr (Or.inl (by linarith))
    · exact Or.inr (Or.inl (by linarith))
    · exact Or.inr (Or.inr (by linarith))
  · rcases posDy_cases k with e | e <;> rcases hv.2 with h | h <;> simp only [child, e] at h
    · exact Or.inl (by linarith)
    · exact Or.inr (Or.inl (by linarith))
    · exact Or.inr (Or.inl (by linarith))
    · exact Or.inr (Or.inr (by linarith))

/-- the mid point of every side is a vertex after the refinement: it is created, or it is a corner
of a child of the refined element across the side -/
theorem mid_mem {m : QT} (h : QInv m) {c : Elem} (_hc : c ∈ m.leaves) (s : Side) :
    mid c s ∈ (bisect m c).verts := by
  rw [bisect_verts]
  cases hb : bisected m c s with
  | false =>
    apply List.mem_append_right
    apply List.mem_append_left
    exact List.mem_map.mpr ⟨s, List.mem_filter.mpr ⟨mem_side_all s, by simp [hb]⟩, rfl⟩
  | true =>
    apply List.mem_append_left
    unfold bisected at hb
    cases hf : findSq m (nbrX c s) (nbrY c s) c.size with
    | none => rw [hf] at hb; exact absurd hb (by simp)
    | some n =>
      rw [hf] at hb
      have hnl : n ∉ m.leaves := by simpa using hb
      obtain ⟨hn, nx, ny, ns⟩ := findSq_some hf
      have hng := h.forest.grid n hn
      -- the kid of `n` with a corner at the mid point
      have key : ∀ k, k < 4 → ∀ (ox oy : Bool),
          (∀ q : Elem, q.x0 = n.x0 + posDx k * (n.size / 2) → q.y0 = n.y0 + posDy k * (n.size / 2) →
            n.size = 2 * q.size →
            (mid c s).1 = (if ox then q.x0 + q.size else q.x0) ∧
            (mid c s).2 = (if oy then q.y0 + q.size else q.y0)) → mid c s ∈ m.verts := by
        intro k hk ox oy hq
        obtain ⟨q, hqm, ql, qx, qy⟩ := h.forest.kids n hn hnl k hk
        have hs := (h.forest.grid q hqm).size_succ hng ql
        obtain ⟨e1, e2⟩ := hq q qx qy hs
        apply h.verts.mem q hqm
        constructor
        · cases ox
          · left; simpa using e1
          · right; simpa using e1
        · cases oy
          · left; simpa using e2
          · right; simpa using e2
      cases s
      · apply key 3 (by omega) true true
        intro q qx qy hs
        simp only [nbrX, nbrY, Side.dx, Side.dy, posDx, posDy, mid] at *
        constructor <;> simp only [if_true] <;> linarith
      · apply key 0 (by omega) false true
        intro q qx qy hs
        simp only [nbrX, nbrY, Side.dx, Side.dy, posDx, posDy, mid] at *
        constructor
        · simp only [Bool.false_eq_true, if_false]; linarith
        · simp only [if_true]; linarith
      · apply key 0 (by omega) true false
        intro q qx qy hs
        simp only [nbrX, nbrY, Side.dx, Side.dy, posDx, posDy, mid] at *
        constructor
        · simp only [if_true]; linarith
        · simp only [Bool.false_eq_true, if_false]; linarith
      · apply key 1 (by omega) true true
        intro q qx qy hs
        simp only [nbrX, nbrY, Side.dx, Side.dy, posDx, posDy, mid] at *
        constructor <;> simp only [if_true] <;> linarith

theorem bisect_vertsOK {m : QT} (h : QInv m) {c : Elem} (hc : c ∈ m.leaves) :
    VertsOK (bisect m c) := by
  have hp := h.size_pos hc
  have hcm := h.forest.leaves_sub c hc
  constructor
  · rw [bisect_verts, List.nodup_append]
    refine ⟨h.verts.nodup, newv_nodup m c hp, ?_⟩
    intro a ha b hb hab
    subst hab
    rcases List.mem_append.mp hb with hb | hb
    · obtain ⟨s, hs, rfl⟩ := List.mem_map.mp hb
      have : bisected m c s = false := by simpa using (List.mem_filter.mp hs).2
      exact mid_not_old h hc s this ha
    · simp only [List.mem_cons, List.not_mem_nil, or_false] at hb
      subst hb
      exact centre_not_old h hc ha
  · intro v hv
    rw [bisect_verts] at hv
    rcases List.mem_append.mp hv with hv | hv
    · obtain ⟨f, hf, hcor⟩ := h.verts.corner v hv
      exact ⟨f, mem_bisect_elems.mpr (Or.inl hf), hcor⟩
    · have mk : ∀ k, k < 4 → Corner (child m.elems.length c k) v → ∃ f ∈ (bisect m c).elems, Corner f v :=
        fun k hk hcor => ⟨_, mem_bisect_elems.mpr (Or.inr ⟨k, hk, rfl⟩), hcor⟩
      rcases List.mem_append.mp hv with hv | hv
      · obtain ⟨s, _, rfl⟩ := List.mem_map.mp hv
        cases s
        · exact mk 0 (by omega) ⟨Or.inr (by simp [child, mid, posDx]), Or.inl (by simp [child, mid, posDy])⟩
        · exact mk 1 (by omega) ⟨Or.inr (by simp only [child, mid, posDx]; ring),
            Or.inr (by simp [child, mid, posDy])⟩
        · exact mk 3 (by omega) ⟨Or.inr (by simp [child, mid, posDx]),
            Or.inr (by simp only [child, mid, posDy]; ring)⟩
        · exact mk 0 (by omega) ⟨Or.inl (by simp [child, mid, posDx]), Or.inr (by simp [child, mid, posDy])⟩
      · simp only [List.mem_cons, List.not_mem_nil, or_false] at hv
        subst hv
        exact mk 0 (by omega) ⟨Or.inr (by simp [child, posDx]), Or.inr (by simp [child, posDy])⟩
  · intro f hf v hcor
    rcases mem_bisect_elems.mp hf with h1 | ⟨k, hk, rfl⟩
    · rw [bisect_verts]; exact List.mem_append_left _ (h.verts.mem f h1 v hcor)
    · obtain ⟨hx, hy⟩ := child_corner hcor
      have old : ∀ w : Rat × Rat, Corner c w → w ∈ (bisect m c).verts := fun w hw => by
        rw [bisect_verts]; exact List.mem_append_left _ (h.verts.mem c hcm w hw)
      have hv : v = (v.1, v.2) := rfl
      rcases hx with hx | hx | hx <;> rcases hy with hy | hy | hy
      · exact old v ⟨Or.inl hx, Or.inl hy⟩
      · have : v = mid c .left := by rw [hv, hx, hy]; rfl
        rw [this]; exact mid_mem h hc _
      · exact old v ⟨Or.inl hx, Or.inr hy⟩
      · have : v = mid c .bottom := by rw [hv, hx, hy]; rfl
        rw [this]; exact mid_mem h hc _
      · rw [bisect_verts, hv, hx, hy]
        apply List.mem_append_right
        apply List.mem_append_right
        simp
      · have : v = mid c .top := by rw [hv, hx, hy]; rfl
        rw [this]; exact mid_mem h hc _
      · exact old v ⟨Or.inr hx, Or.inl hy⟩
      · have : v = mid c .right := by rw [hv, hx, hy]; rfl
        rw [this]; exact mid_mem h hc _
      · exact old v ⟨Or.inr hx, Or.inr hy⟩

/-- one legal refinement: all edge-neighbours of `c` are at least as deep -/
theorem bisect_inv' {m : QT} (h : QInv m) {c : Elem} (hc : c ∈ m.leaves)
    (hn : ∀ s, ∀ n ∈ m.leaves, Adj c s n → c.level ≤ n.level) : QInv (bisect m c) :=
  ⟨bisect_forest h hc, bisect_tiles h hc, bisect_bal h hc hn, bisect_vertsOK h hc, bisect_ids h⟩

theorem bisect_ext {m : QT} (h : QInv m) {c : Elem} (hc : c ∈ m.leaves) : Ext m (bisect m c) := by
  have hp := h.size_pos hc
  refine ⟨⟨_, bisect_elems m c⟩, ?_, ?_, ⟨_, bisect_verts m c⟩⟩
  · intro f hf h0
    rcases mem_bisect_elems.mp hf with h1 | ⟨k, _, rfl⟩
    · exact h1
    · simp [child] at h0
  · intro d' hd'
    rcases mem_bisect_leaves.mp hd' with ⟨h1, _⟩ | ⟨k, _, rfl⟩
    · exact ⟨d', h1, Elem.Sub.refl _, le_refl _⟩
    · exact ⟨c, hc, child_sub _ c k hp, Nat.le_succ _⟩

end Stbem.Quadtree
