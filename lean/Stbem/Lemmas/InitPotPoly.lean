import Stbem.Props.C15
import Mathlib.Algebra.BigOperators.Ring.Finset

/-!
# Polynomial integrands: exact box integrals and 3-D rules that are exact on monomials

* `Term`, `evalP`: a polynomial in `(x₁, x₂, t)` as a list of terms `c · x₁ⁱ x₂ʲ tᵏ`;
* `I1 lo hi i = (hi^{i+1} − lo^{i+1})/(i+1)` (= `∫_lo^hi uⁱ du`), `boxInt` = the integral of the polynomial over a
  box (term by term);
* `Exact3 R N`: the 3-D rule `R` integrates every monomial of total degree `≤ N` over the unit cube exactly;
* `affine_moment`: `b · Σ_p C(i,p) a^{i−p} b^p/(p+1) = ((a+b)^{i+1} − a^{i+1})/(i+1)` — the 1-D substitution rule for
  polynomials;
* `exact3_affine`: an exact rule applied to `(a₁+b₁x)ⁱ (a₂+b₂y)ʲ (a₃+b₃z)ᵏ`;
* `cell_integral_A/B`: an exact rule applied to the pull-back of a polynomial under an axis-parallel affine
  parametrisation of (square cell) × (segment), times the Jacobian, is the box integral — in whichever corner
  the parametrisation starts and in whichever direction the segment runs.
-/
namespace Stbem.InitPot
open Stbem.Quad Finset

/-- one term `c · x₁ⁱ x₂ʲ tᵏ` -/
structure Term where
  c : Rat
  i : Nat
  j : Nat
  k : Nat
deriving Repr, DecidableEq

def Term.eval (t : Term) (x1 x2 s : Rat) : Rat := t.c * x1 ^ t.i * x2 ^ t.j * s ^ t.k
def Term.deg (t : Term) : Nat := t.i + t.j + t.k

/-- the polynomial `Σ c x₁ⁱ x₂ʲ tᵏ` -/
def evalP (ts : List Term) (x1 x2 s : Rat) : Rat := sumR (ts.map fun t => t.eval x1 x2 s)

/-- `∫_lo^hi uⁱ du` -/
def I1 (lo hi : Rat) (i : Nat) : Rat := (hi ^ (i + 1) - lo ^ (i + 1)) / ((i : Rat) + 1)

def Term.boxInt (t : Term) (x0 x1 y0 y1 t0 t1 : Rat) : Rat :=
  t.c * I1 x0 x1 t.i * I1 y0 y1 t.j * I1 t0 t1 t.k

/-- the integral of the polynomial over `[x0,x1] × [y0,y1] × [t0,t1]` -/
def boxInt (ts : List Term) (x0 x1 y0 y1 t0 t1 : Rat) : Rat :=
  sumR (ts.map fun t => t.boxInt x0 x1 y0 y1 t0 t1)

theorem I1_split (lo mid hi : Rat) (i : Nat) : I1 lo hi i = I1 lo mid i + I1 mid hi i := by
  unfold I1; ring

/-- a 3-D rule that integrates the monomials of total degree `≤ N` over the unit cube exactly -/
def Exact3 (R : Rule3) (N : Nat) : Prop :=
  ∀ i j k, i + j + k ≤ N →
    apply3 R (fun x y z => x ^ i * y ^ j * z ^ k) = 1 / (((i : Rat) + 1) * ((j : Rat) + 1) * ((k : Rat) + 1))

theorem Exact3.mono {R : Rule3} {N M : Nat} (h : Exact3 R N) (hM : M ≤ N) : Exact3 R M :=
  fun i j k hijk => h i j k (by omega)

/-! ### linearity of `apply3` -/

theorem apply3_add (R : Rule3) (f g : Rat → Rat → Rat → Rat) :
    apply3 R (fun x y z => f x y z + g x y z) = apply3 R f + apply3 R g := by
  unfold apply3
  rw [← sumR_map_add]
  congr 1; apply List.map_congr_left; intro n _; ring

theorem apply3_smul (R : Rule3) (c : Rat) (f : Rat → Rat → Rat → Rat) :
    apply3 R (fun x y z => c * f x y z) = c * apply3 R f := by
  unfold apply3
  rw [← sumR_map_mul_left]
  congr 1; apply List.map_congr_left; intro n _; ring

theorem apply3_zero (R : Rule3) : apply3 R (fun _ _ _ => 0) = 0 := by
  have := apply3_smul R 0 (fun _ _ _ => 0)
  simpa using this

theorem apply3_congr (R : Rule3) {f g : Rat → Rat → Rat → Rat} (h : ∀ x y z, f x y z = g x y z) :
    apply3 R f = apply3 R g := by
  have : f = g := by funext x y z; exact h x y z
  rw [this]

theorem apply3_finset_sum {ι : Type} [DecidableEq ι] (R : Rule3) (s : Finset ι) (α : ι → Rat)
    (F : ι → Rat → Rat → Rat → Rat) :
    apply3 R (fun x y z => ∑ p ∈ s, α p * F p x y z) = ∑ p ∈ s, α p * apply3 R (F p) := by
  induction s using Finset.induction_on with
  | empty => simp [apply3_zero]
  | insert a s ha ih =>
    have e : (fun x y z => ∑ p ∈ insert a s, α p * F p x y z) =
        fun x y z => α a * F a x y z + ∑ p ∈ s, α p * F p x y z := by
      funext x y z; rw [Finset.sum_insert ha]
    rw [e, apply3_add, apply3_smul, ih, Finset.sum_insert ha]

theorem apply3_sumR_map {τ : Type} (R : Rule3) (ts : List τ) (F : τ → Rat → Rat → Rat → Rat) :
    apply3 R (fun x y z => sumR (ts.map fun t => F t x y z)) = sumR (ts.map fun t => apply3 R (F t)) := by
  induction ts with
  | nil => simp [apply3_zero]
  | cons t ts ih =>
    simp only [List.map_cons, sumR_cons]
    rw [apply3_add, ih]

/-! ### the 1-D substitution rule for polynomials -/

/-- `∫₀¹ (a + b u)ⁱ du`, written as the sum the rule computes -/
def J (a b : Rat) (i : Nat) : Rat :=
  ∑ p ∈ range (i + 1), (b ^ p * a ^ (i - p) * (i.choose p : Rat)) / ((p : Rat) + 1)

theorem affine_pow (a b u : Rat) (i : Nat) :
    (a + b * u) ^ i = ∑ p ∈ range (i + 1), (b ^ p * a ^ (i - p) * (i.choose p : Rat)) * u ^ p := by
  rw [add_comm, add_pow]
  apply Finset.sum_congr rfl
  intro p _
  rw [mul_pow]; ring

theorem J_def (a b : Rat) (i : Nat) :
    J a b i = ∑ p ∈ range (i + 1), (b ^ p * a ^ (i - p) * (i.choose p : Rat)) / ((p : Rat) + 1) := rfl

/-- `b · ∫₀¹ (a + b u)ⁱ du = ∫_a^{a+b} vⁱ dv` -/
theorem affine_moment (a b : Rat) (i : Nat) : b * J a b i = I1 a (a + b) i := by
  have key : (a + b) ^ (i + 1) =
      ∑ p ∈ range (i + 1), b ^ (p + 1) * a ^ (i - p) * ((i + 1).choose (p + 1) : Rat) + a ^ (i + 1) := by
    rw [add_comm a b, add_pow, Finset.sum_range_succ']
    simp
  unfold I1
  have hi : ((i : Rat) + 1) ≠ 0 := by positivity
  rw [key, add_sub_cancel_right, eq_div_iff hi, J_def, Finset.mul_sum, Finset.sum_mul]
  apply Finset.sum_congr rfl
  intro p hp
  have hp1 : ((p : Rat) + 1) ≠ 0 := by positivity
  have hc : ((i : Rat) + 1) * (i.choose p : Rat) = ((i + 1).choose (p + 1) : Rat) * ((p : Rat) + 1) := by
    have := congrArg (fun n : Nat => (n : Rat)) (Nat.add_one_mul_choose_eq i p)
    simpa using this
  field_simp
  linear_combination (b ^ (p + 1) * a ^ (i - p)) * hc

/-- the corner `c` and the opposite end `o` of the range `[lo, hi]`, in either orientation -/
def Span (lo hi c o : Rat) : Prop := (c = lo ∧ o = hi) ∨ (c = hi ∧ o = lo)

theorem span_moment {lo hi c o : Rat} (h : Span lo hi c o) (i : Nat) :
    (hi - lo) * J c (o - c) i = I1 lo hi i := by
  rcases h with ⟨rfl, rfl⟩ | ⟨rfl, rfl⟩
  · have := affine_moment c (o - c) i
    rw [show c + (o - c) = o by ring] at this
    exact this
  · have := affine_moment c (o - c) i
    rw [show c + (o - c) = o by ring] at this
    have e : (c - o) * J c (o - c) i = -((o - c) * J c (o - c) i) := by ring
    rw [e, this]; unfold I1; ring

/-! ### an exact rule on products of powers of affine functions -/

theorem exact3_affine {R : Rule3} {N : Nat} (hR : Exact3 R N) (a1 b1 a2 b2 a3 b3 : Rat) (i j k : Nat)
    (hd : i + j + k ≤ N) :
    apply3 R (fun x y z => (a1 + b1 * x) ^ i * (a2 + b2 * y) ^ j * (a3 + b3 * z) ^ k) =
      J a1 b1 i * J a2 b2 j * J a3 b3 k := by
  -- expand the three powers one after the other
  have s1 : apply3 R (fun x y z => (a1 + b1 * x) ^ i * (a2 + b2 * y) ^ j * (a3 + b3 * z) ^ k) =
      ∑ p ∈ range (i + 1), (b1 ^ p * a1 ^ (i - p) * (i.choose p : Rat)) *
        apply3 R (fun x y z => x ^ p * (a2 + b2 * y) ^ j * (a3 + b3 * z) ^ k) := by
    rw [← apply3_finset_sum]
    apply apply3_congr
    intro x y z
    rw [affine_pow a1 b1 x i, Finset.sum_mul, Finset.sum_mul]
    apply Finset.sum_congr rfl
    intro p _; ring
  have s2 : ∀ p, apply3 R (fun x y z => x ^ p * (a2 + b2 * y) ^ j * (a3 + b3 * z) ^ k) =
      ∑ q ∈ range (j + 1), (b2 ^ q * a2 ^ (j - q) * (j.choose q : Rat)) *
        apply3 R (fun x y z => x ^ p * y ^ q * (a3 + b3 * z) ^ k) := by
    intro p
    rw [← apply3_finset_sum]
    apply apply3_congr
    intro x y z
    rw [affine_pow a2 b2 y j, Finset.mul_sum, Finset.sum_mul]
    apply Finset.sum_congr rfl
    intro q _; ring
  have s3 : ∀ p q, apply3 R (fun x y z => x ^ p * y ^ q * (a3 + b3 * z) ^ k) =
      ∑ r ∈ range (k + 1), (b3 ^ r * a3 ^ (k - r) * (k.choose r : Rat)) *
        apply3 R (fun x y z => x ^ p * y ^ q * z ^ r) := by
    intro p q
    rw [← apply3_finset_sum]
    apply apply3_congr
    intro x y z
    rw [affine_pow a3 b3 z k, Finset.mul_sum]
    apply Finset.sum_congr rfl
    intro r _; ring
  have t3 : ∀ p q, p ≤ i → q ≤ j → apply3 R (fun x y z => x ^ p * y ^ q * (a3 + b3 * z) ^ k) =
      J a3 b3 k / (((p : Rat) + 1) * ((q : Rat) + 1)) := by
    intro p q hp hq
    rw [s3 p q, J_def, div_eq_mul_inv, Finset.sum_mul]
    apply Finset.sum_congr rfl
    intro r hr
    have hr' := Finset.mem_range.mp hr
    rw [hR p q r (by omega)]
    have h1 : ((p : Rat) + 1) ≠ 0 := by positivity
    have h2 : ((q : Rat) + 1) ≠ 0 := by positivity
    have h3 : ((r : Rat) + 1) ≠ 0 := by positivity
    field_simp
  have t2 : ∀ p, p ≤ i → apply3 R (fun x y z => x ^ p * (a2 + b2 * y) ^ j * (a3 + b3 * z) ^ k) =
      J a2 b2 j * J a3 b3 k / ((p : Rat) + 1) := by
    intro p hp
    rw [s2 p, J_def a2 b2 j, Finset.sum_mul, div_eq_mul_inv, Finset.sum_mul]
    apply Finset.sum_congr rfl
    intro q hq
    have hq' := Finset.mem_range.mp hq
    rw [t3 p q hp (by omega)]
    have h1 : ((p : Rat) + 1) ≠ 0 := by positivity
    have h2 : ((q : Rat) + 1) ≠ 0 := by positivity
    field_simp
  rw [s1, J_def a1 b1 i, Finset.sum_mul, Finset.sum_mul]
  apply Finset.sum_congr rfl
  intro p hp
  have hp' := Finset.mem_range.mp hp
  rw [t2 p (by omega)]
  have h1 : ((p : Rat) + 1) ≠ 0 := by positivity
  field_simp

/-! ### one cell: rule × Jacobian = box integral -/

/-- one term; the cell variables sit in the slots `x` (first coordinate) and `z` (second coordinate) of the rule,
the segment variable in the slot `y` -/
theorem term_cell_A {R : Rule3} {N : Nat} (hR : Exact3 R N) (t : Term) (hd : t.deg ≤ N)
    {x0 x1 y0 y1 t0 t1 cx ox cy oy tq0 tq1 : Rat} (hx : Span x0 x1 cx ox) (hy : Span y0 y1 cy oy)
    (ht : Span t0 t1 tq0 tq1) :
    ((x1 - x0) * (y1 - y0) * (t1 - t0)) *
      apply3 R (fun x y z => t.eval (cx + (ox - cx) * x) (cy + (oy - cy) * z) (tq0 + (tq1 - tq0) * y)) =
    t.boxInt x0 x1 y0 y1 t0 t1 := by
  have e : (fun x y z : Rat => t.eval (cx + (ox - cx) * x) (cy + (oy - cy) * z) (tq0 + (tq1 - tq0) * y)) =
      fun x y z => t.c * ((cx + (ox - cx) * x) ^ t.i * (tq0 + (tq1 - tq0) * y) ^ t.k *
        (cy + (oy - cy) * z) ^ t.j) := by
    funext x y z; unfold Term.eval; ring
  rw [e, apply3_smul, exact3_affine hR _ _ _ _ _ _ t.i t.k t.j (by unfold Term.deg at hd; omega)]
  unfold Term.boxInt
  rw [← span_moment hx, ← span_moment hy, ← span_moment ht]
  ring

/-- the same with the two cell variables in exchanged slots -/
theorem term_cell_B {R : Rule3} {N : Nat} (hR : Exact3 R N) (t : Term) (hd : t.deg ≤ N)
    {x0 x1 y0 y1 t0 t1 cx ox cy oy tq0 tq1 : Rat} (hx : Span x0 x1 cx ox) (hy : Span y0 y1 cy oy)
    (ht : Span t0 t1 tq0 tq1) :
    ((x1 - x0) * (y1 - y0) * (t1 - t0)) *
      apply3 R (fun x y z => t.eval (cx + (ox - cx) * z) (cy + (oy - cy) * x) (tq0 + (tq1 - tq0) * y)) =
    t.boxInt x0 x1 y0 y1 t0 t1 := by
  have e : (fun x y z : Rat => t.eval (cx + (ox - cx) * z) (cy + (oy - cy) * x) (tq0 + (tq1 - tq0) * y)) =
      fun x y z => t.c * ((cy + (oy - cy) * x) ^ t.j * (tq0 + (tq1 - tq0) * y) ^ t.k *
        (cx + (ox - cx) * z) ^ t.i) := by
    funext x y z; unfold Term.eval; ring
  rw [e, apply3_smul, exact3_affine hR _ _ _ _ _ _ t.j t.k t.i (by unfold Term.deg at hd; omega)]
  unfold Term.boxInt
  rw [← span_moment hx, ← span_moment hy, ← span_moment ht]
  ring

theorem cell_integral_A {R : Rule3} {N : Nat} (hR : Exact3 R N) (ts : List Term) (hd : ∀ t ∈ ts, t.deg ≤ N)
    {x0 x1 y0 y1 t0 t1 cx ox cy oy tq0 tq1 : Rat} (hx : Span x0 x1 cx ox) (hy : Span y0 y1 cy oy)
    (ht : Span t0 t1 tq0 tq1) :
    ((x1 - x0) * (y1 - y0) * (t1 - t0)) *
      apply3 R (fun x y z => evalP ts (cx + (ox - cx) * x) (cy + (oy - cy) * z) (tq0 + (tq1 - tq0) * y)) =
    boxInt ts x0 x1 y0 y1 t0 t1 := by
  unfold evalP boxInt
  rw [apply3_sumR_map, ← sumR_map_mul_left]
  apply sumR_map_congr
  intro t ht'
  exact term_cell_A hR t (hd t ht') hx hy ht

theorem cell_integral_B {R : Rule3} {N : Nat} (hR : Exact3 R N) (ts : List Term) (hd : ∀ t ∈ ts, t.deg ≤ N)
    {x0 x1 y0 y1 t0 t1 cx ox cy oy tq0 tq1 : Rat} (hx : Span x0 x1 cx ox) (hy : Span y0 y1 cy oy)
    (ht : Span t0 t1 tq0 tq1) :
    ((x1 - x0) * (y1 - y0) * (t1 - t0)) *
      apply3 R (fun x y z => evalP ts (cx + (ox - cx) * z) (cy + (oy - cy) * x) (tq0 + (tq1 - tq0) * y)) =
    boxInt ts x0 x1 y0 y1 t0 t1 := by
  unfold evalP boxInt
  rw [apply3_sumR_map, ← sumR_map_mul_left]
  apply sumR_map_congr
  intro t ht'
  exact term_cell_B hR t (hd t ht') hx hy ht

/-- the touching rule inherits exactness from the 1-D rule (C15 `duffyTouch3_exact`) -/
theorem duffyTouch3_exact3 {r : Rule1} {n N : Nat} (h : Exact1 r n) (hN : N + 2 ≤ n) :
    Exact3 (duffyTouch3 (product3 r)) N :=
  fun i j k hijk => duffyTouch3_exact h i j k (by omega)

end Stbem.InitPot
