import Stbem.Lemmas.MeshKids
import Stbem.Lemmas.MeshInit

/-!
# `Prolongate`: the value at a fine element is the value of its nearest ancestor-or-self in the coarse list

The parent relation of the model is the `kids` table (`parentOf`).  `KidsWF` — every entry `(p, c, c+1)` has
`p < c`, `c + 1 < nElems`, and the table returns for every leaf the parent recorded in the leaf itself — holds
initially and is preserved by every operation of the model; it makes the parent chain strictly decreasing, so that
the fuel `nElems + 1` of `prolongate` is never exhausted.
-/
namespace Stbem.Mesh

/-! ### the parent table -/

structure KidsWF (m : Mesh) : Prop where
  entries : ∀ k ∈ m.kids, k.1 < k.2.1 ∧ k.2.2 = k.2.1 + 1 ∧ k.2.2 < m.nElems
  par : ∀ c ∈ m.leaves, parentOf m c.id = c.par

theorem parentOf_some {m : Mesh} {id p : Nat} (h : parentOf m id = some p) :
    ∃ k ∈ m.kids, k.1 = p ∧ (k.2.1 = id ∨ k.2.2 = id) := by
  unfold parentOf at h
  cases hf : m.kids.find? (fun k => k.2.1 == id || k.2.2 == id) with
  | none => rw [hf] at h; cases h
  | some k =>
    rw [hf] at h
    have h1 := List.mem_of_find?_eq_some hf
    have h2 := List.find?_some hf
    simp only [Bool.or_eq_true, beq_iff_eq] at h2
    exact ⟨k, h1, by simpa using h, h2⟩

theorem parentOf_lt {m : Mesh} (hW : KidsWF m) {id p : Nat} (h : parentOf m id = some p) :
    p < id ∧ id < m.nElems := by
  obtain ⟨k, hk, rfl, h2⟩ := parentOf_some h
  obtain ⟨a, b, c⟩ := hW.entries k hk
  rcases h2 with rfl | rfl <;> omega

theorem init_kidsWF (glue : Bool) (X T : List Rat) : KidsWF (init glue X T) := by
  have hk : (init glue X T).kids = [] := rfl
  refine ⟨by intro k hk'; rw [hk] at hk'; simp at hk', ?_⟩
  intro c hc
  have : parentOf (init glue X T) c.id = none := by simp [parentOf, hk]
  rw [this]
  have hleaves : (init glue X T).leaves =
      init.number 0 ((pairs T).flatMap fun tp => (pairs X).map fun xp => (tp, xp)) := rfl
  rw [hleaves] at hc
  obtain ⟨q, -, j, rfl, -, -⟩ := number_mem hc
  rfl

theorem bisect_kidsWF {M : Mesh} (hinv : Inv M) (hW : KidsWF M) {c : Cell} (hc : c ∈ M.leaves) (ax : Ax) :
    KidsWF (bisect M c ax) := by
  have hcid := hinv.ids.2 c hc
  have hkids : (bisect M c ax).kids = M.kids ++ [(c.id, M.nElems, M.nElems + 1)] := rfl
  have hn : (bisect M c ax).nElems = M.nElems + 2 := rfl
  constructor
  · intro k hk
    rw [hkids] at hk
    rw [hn]
    rcases List.mem_append.mp hk with hk | hk
    · obtain ⟨a, b, d⟩ := hW.entries k hk
      exact ⟨a, b, by omega⟩
    · simp only [List.mem_cons, List.not_mem_nil, or_false] at hk
      subst hk
      show c.id < M.nElems ∧ M.nElems + 1 = M.nElems + 1 ∧ M.nElems + 1 < M.nElems + 2
      exact ⟨hcid, rfl, by omega⟩
  · intro l hl
    have hold : ∀ id, id < M.nElems →
        parentOf (bisect M c ax) id = parentOf M id := by
      intro id hid
      unfold parentOf
      rw [hkids, List.find?_append]
      cases hf : M.kids.find? (fun k => k.2.1 == id || k.2.2 == id) with
      | some k => rfl
      | none =>
        have : ([(c.id, M.nElems, M.nElems + 1)] : List (Nat × Nat × Nat)).find?
            (fun k => k.2.1 == id || k.2.2 == id) = none := by
          rw [List.find?_eq_none]
          intro k hk
          simp only [List.mem_cons, List.not_mem_nil, or_false] at hk
          subst hk
          simp only [Bool.or_eq_true, beq_iff_eq, not_or]
          omega
        simp [this]
    have hnew : ∀ id, id = M.nElems ∨ id = M.nElems + 1 →
        parentOf (bisect M c ax) id = some c.id := by
      intro id hid
      unfold parentOf
      rw [hkids, List.find?_append]
      have h1 : M.kids.find? (fun k => k.2.1 == id || k.2.2 == id) = none := by
        rw [List.find?_eq_none]
        intro k hk
        obtain ⟨a, b, d⟩ := hW.entries k hk
        simp only [Bool.or_eq_true, beq_iff_eq, not_or]
        omega
      rw [h1]
      rcases hid with rfl | rfl <;> simp
    rcases (mem_bisect hinv.ids hc ax l).mp hl with ⟨hl1, _⟩ | hch
    · rw [hold l.id (hinv.ids.2 l hl1)]
      exact hW.par l hl1
    · have hid := (hch.props (hinv.tiles.proper c hc)).2.2.2.2.2
      rw [hnew l.id hid]
      rcases hch with rfl | rfl <;> cases ax <;> rfl

theorem kidsWF_genHyp (ax : Ax) : GenHyp ax KidsWF (fun _ => True) (fun _ _ => True) :=
  ⟨fun _ => trivial, fun _ _ _ _ _ => trivial, fun _ _ _ _ _ _ _ _ _ _ _ => trivial,
    fun _ _ hinv hQ hc _ => ⟨bisect_kidsWF hinv hQ hc ax, trivial⟩⟩

theorem refineId_kidsWF {m : Mesh} (h : Inv m) (hW : KidsWF m) {id : Nat} {ax : Ax} {m' : Mesh}
    (hr : refineId m id ax = .ok m') : KidsWF m' := by
  cases hf : findLeaf m id with
  | none => simp [refineId, hf] at hr
  | some c =>
    obtain ⟨hc, hid⟩ := findLeaf_some hf
    obtain ⟨m'', h1, -, h2, -⟩ := refineId_gen (kidsWF_genHyp ax) h hW hc trivial
    rw [hid, hr] at h1
    cases h1
    exact h2

/-! ### every operation of the model preserves an invariant that single refinements preserve -/

section generic
variable {Q : Mesh → Prop}
  (hQ : ∀ {m : Mesh} {id : Nat} {ax : Ax} {m' : Mesh}, Inv m → Q m → refineId m id ax = .ok m' → Q m')
include hQ

theorem gen_refineId {m : Mesh} (h : Inv m ∧ Q m) {id : Nat} {ax : Ax} {m' : Mesh}
    (hr : refineId m id ax = .ok m') : Inv m' ∧ Q m' :=
  ⟨(refineId_inv' h.1 hr).1, hQ h.1 h.2 hr⟩

theorem gen_refineAll {m : Mesh} (h : Inv m ∧ Q m) {ids : List Nat} {ax : Ax} {m' : Mesh}
    (hr : refineAll m ids ax = .ok m') : Inv m' ∧ Q m' :=
  (foldlM_except_inv (fun m id => refineId m id ax) (fun m => Inv m ∧ Q m) (fun _ _ => True)
    (fun _ => trivial) (fun _ _ _ _ _ => trivial)
    (fun _ _ _ hI hf => ⟨gen_refineId hQ hI hf, trivial⟩) ids m m' h hr).1

theorem gen_refineBoth {m : Mesh} (h : Inv m ∧ Q m) {id : Nat} {r : Mesh × List Nat}
    (hr : refineBoth m id = .ok r) : Inv r.1 ∧ Q r.1 := by
  unfold refineBoth at hr
  simp only [bind, Except.bind, pure, Except.pure, lastChildren] at hr
  split at hr
  · cases hr
  · rename_i m1 h1
    split at hr
    · cases hr
    · rename_i m2 h2
      split at hr
      · cases hr
      · rename_i m3 h3
        cases hr
        exact gen_refineId hQ (gen_refineId hQ (gen_refineId hQ h h1) h2) h3

theorem gen_uniformRefine {m : Mesh} (h : Inv m ∧ Q m) {m' : Mesh}
    (hr : uniformRefine m = .ok m') : Inv m' ∧ Q m' := by
  unfold uniformRefine at hr
  simp only [bind, Except.bind] at hr
  split at hr
  · cases hr
  · rename_i m1 h1
    exact gen_refineAll hQ (gen_refineAll hQ h h1) hr

theorem gen_uniformRefineSpace {m : Mesh} (h : Inv m ∧ Q m) {m' : Mesh}
    (hr : uniformRefineSpace m = .ok m') : Inv m' ∧ Q m' :=
  gen_refineAll hQ h hr

theorem gen_refinePhase {m : Mesh} (h : Inv m ∧ Q m) {marked : List Cell} {ax : Ax}
    {r : Mesh × List Cell} (hr : refinePhase m marked ax = .ok r) : Inv r.1 ∧ Q r.1 := by
  unfold refinePhase at hr
  refine (foldlM_except_inv _ (fun st : Mesh × List Cell => Inv st.1 ∧ Q st.1)
    (fun _ _ => True) (fun _ => trivial) (fun _ _ _ _ _ => trivial) ?_ _ (m, []) r h hr).1
  intro st c st' hI hf
  simp only [bind, Except.bind] at hf
  split at hf
  · cases hf
  · split at hf
    · cases hf
    · rename_i m1 h1
      cases hf
      exact ⟨gen_refineId hQ hI h1, trivial⟩

theorem gen_dorflerIso {m : Mesh} (h : Inv m ∧ Q m) {eta : List Rat} {perm : List Nat} {theta : Rat}
    {m' : Mesh} (hr : dorflerIso m eta perm theta = .ok m') : Inv m' ∧ Q m' := by
  unfold dorflerIso at hr
  simp only [bind, Except.bind, pure, Except.pure] at hr
  split at hr
  · cases hr
  · split at hr
    · cases hr
    · split at hr
      · cases hr
      · rename_i r1 h1
        split at hr
        · cases hr
        · rename_i r2 h2
          cases hr
          exact gen_refinePhase hQ (gen_refinePhase hQ h h1) h2

theorem gen_dorflerAniso {m : Mesh} (h : Inv m ∧ Q m) {eta : List (Rat × Rat)} {theta : Rat}
    {m' : Mesh} (hr : dorflerAniso m eta theta = .ok m') : Inv m' ∧ Q m' := by
  unfold dorflerAniso at hr
  simp only [bind, Except.bind, pure, Except.pure] at hr
  split at hr
  · cases hr
  · split at hr
    · cases hr
    · rename_i r1 h1
      split at hr
      · cases hr
      · rename_i r2 h2
        cases hr
        exact gen_refinePhase hQ (gen_refinePhase hQ h h1) h2

theorem gen_gradeSweep {fixed : Bool} {m : Mesh} (h : Inv m ∧ Q m) {p q : Nat} {K : Rat}
    {r : Mesh × Bool} (hr : gradeSweep fixed m p q K = .ok r) : Inv r.1 ∧ Q r.1 := by
  unfold gradeSweep at hr
  simp only [bind, Except.bind, pure, Except.pure] at hr
  split at hr
  · cases hr
  · rename_i m1 h1
    split at hr
    · cases hr
    · rename_i m2 h2
      cases hr
      refine (foldlM_except_inv _ (fun m => Inv m ∧ Q m) (fun _ _ => True) (fun _ => trivial)
        (fun _ _ _ _ _ => trivial) (by
          intro s a s' hI hf
          split at hf
          · split at hf
            · cases hf; exact ⟨hI, trivial⟩
            · cases hf
          · exact ⟨gen_refineId hQ hI hf, trivial⟩) _ m1 m2 (gen_refineAll hQ h h1) h2).1

theorem gen_grading (fixed : Bool) (fuel : Nat) : ∀ {m : Mesh}, Inv m ∧ Q m → ∀ {p q : Nat} {K : Rat}
    {m' : Mesh}, grading fixed fuel m p q K = .ok m' → Inv m' ∧ Q m' := by
  induction fuel with
  | zero => intro m _ p q K m' hr; simp [grading] at hr
  | succ fuel ih =>
    intro m h p q K m' hr
    rw [grading] at hr
    simp only [bind, Except.bind, pure, Except.pure] at hr
    split at hr
    · cases hr
    · rename_i r h1
      have i1 := gen_gradeSweep hQ h h1
      split at hr
      · exact ih i1 hr
      · cases hr
        exact i1

end generic

/-! ### nearest coarse ancestor -/

/-- `Anc m id a`: `a` is `id` or an ancestor of `id` (parent chain of the table) -/
inductive Anc (m : Mesh) : Nat → Nat → Prop
  | refl (id : Nat) : Anc m id id
  | up {id p a : Nat} : parentOf m id = some p → Anc m p a → Anc m id a

/-- `Nearest m coarse id a`: walking up from `id`, `a` is the first element that belongs to `coarse` -/
inductive Nearest (m : Mesh) (coarse : List Nat) : Nat → Nat → Prop
  | self {id : Nat} : id ∈ coarse → Nearest m coarse id id
  | up {id p a : Nat} : id ∉ coarse → parentOf m id = some p → Nearest m coarse p a → Nearest m coarse id a

theorem Anc.trans {m : Mesh} {a b c : Nat} (h1 : Anc m a b) (h2 : Anc m b c) : Anc m a c := by
  induction h1 with
  | refl => exact h2
  | up hp _ ih => exact Anc.up hp (ih h2)

theorem Anc.le {m : Mesh} (hW : KidsWF m) {id a : Nat} (h : Anc m id a) : a ≤ id := by
  induction h with
  | refl => exact le_refl _
  | up hp _ ih => have := (parentOf_lt hW hp).1; omega

theorem Nearest.anc {m : Mesh} {coarse : List Nat} {id a : Nat} (h : Nearest m coarse id a) :
    Anc m id a ∧ a ∈ coarse := by
  induction h with
  | self hm => exact ⟨Anc.refl _, hm⟩
  | up _ hp _ ih => exact ⟨Anc.up hp ih.1, ih.2⟩

/-- every coarse ancestor-or-self of `id` is an ancestor-or-self of the nearest one -/
theorem Nearest.first {m : Mesh} {coarse : List Nat} {id a : Nat} (h : Nearest m coarse id a) :
    ∀ b, Anc m id b → b ∈ coarse → Anc m a b := by
  induction h with
  | self _ => intro b hb _; exact hb
  | up hn hp _ ih =>
    intro b hb hbc
    cases hb with
    | refl => exact absurd hbc hn
    | up hp' hb' =>
      rw [hp] at hp'
      cases hp'
      exact ih b hb' hbc

theorem Nearest.functional {m : Mesh} {coarse : List Nat} {id a b : Nat} (h : Nearest m coarse id a)
    (h' : Nearest m coarse id b) : a = b := by
  induction h with
  | self hm =>
    cases h' with
    | self _ => rfl
    | up hn _ _ => exact absurd hm hn
  | up hn hp _ ih =>
    cases h' with
    | self hm => exact absurd hm hn
    | up _ hp' h'' =>
      rw [hp] at hp'
      cases hp'
      exact ih h''

theorem Nearest.exists_of_anc {m : Mesh} {coarse : List Nat} {id b : Nat} (h : Anc m id b)
    (hb : b ∈ coarse) : ∃ a, Nearest m coarse id a := by
  induction h with
  | refl => exact ⟨_, Nearest.self hb⟩
  | @up id p a hp _ ih =>
    by_cases hm : id ∈ coarse
    · exact ⟨_, Nearest.self hm⟩
    · obtain ⟨a', ha'⟩ := ih hb
      exact ⟨a', Nearest.up hm hp ha'⟩

/-- no element of the list is a proper ancestor of another one -/
def Antichain (m : Mesh) (coarse : List Nat) : Prop :=
  ∀ a ∈ coarse, ∀ b ∈ coarse, Anc m a b → a = b

/-- in an antichain the coarse ancestor-or-self is unique -/
theorem Nearest.unique {m : Mesh} {coarse : List Nat} (hA : Antichain m coarse) {id a : Nat}
    (h : Nearest m coarse id a) : ∀ b, Anc m id b → b ∈ coarse → b = a :=
  fun b hb hbc => (hA a h.anc.2 b hbc (h.first b hb hbc)).symm

/-! ### `prolongOne` -/

theorem prolongOne_sound (m : Mesh) (coarse : List Nat) (vec : List Rat) :
    ∀ (fuel id : Nat) (v : Rat), prolongOne m coarse vec fuel id = some v →
      ∃ a i, Nearest m coarse id a ∧ coarse.idxOf? a = some i ∧ vec[i]? = some v := by
  intro fuel
  induction fuel with
  | zero => intro id v h; simp [prolongOne] at h
  | succ fuel ih =>
    intro id v h
    rw [prolongOne] at h
    cases hi : coarse.idxOf? id with
    | some i =>
      rw [hi] at h
      have hm : id ∈ coarse := by
        by_contra hn
        rw [List.idxOf?_eq_none_iff.mpr hn] at hi
        cases hi
      exact ⟨id, i, Nearest.self hm, hi, h⟩
    | none =>
      rw [hi] at h
      have hn : id ∉ coarse := List.idxOf?_eq_none_iff.mp hi
      cases hp : parentOf m id with
      | none => rw [hp] at h; cases h
      | some p =>
        rw [hp] at h
        obtain ⟨a, i, h1, h2, h3⟩ := ih p v h
        exact ⟨a, i, Nearest.up hn hp h1, h2, h3⟩

theorem prolongOne_complete {m : Mesh} (hW : KidsWF m) {coarse : List Nat} (vec : List Rat) {id a : Nat}
    (h : Nearest m coarse id a) :
    ∀ fuel, id < fuel → prolongOne m coarse vec fuel id = (coarse.idxOf? a).bind (vec[·]?) := by
  induction h with
  | self hm =>
    rename_i id
    intro fuel hf
    cases fuel with
    | zero => omega
    | succ fuel =>
      rw [prolongOne]
      cases hi : coarse.idxOf? id with
      | some i => rfl
      | none => exact absurd hm (List.idxOf?_eq_none_iff.mp hi)
  | up hn hp _ ih =>
    rename_i id p a
    intro fuel hf
    cases fuel with
    | zero => omega
    | succ fuel =>
      rw [prolongOne, List.idxOf?_eq_none_iff.mpr hn, hp]
      exact ih fuel (by have := (parentOf_lt hW hp).1; omega)

/-! ### `prolongate` -/

theorem mapM_option_ok {α β} (f : α → Option β) :
    ∀ (l : List α) (out : List β), l.mapM f = some out →
      out.length = l.length ∧ ∀ (i : Nat) a, l[i]? = some a → ∃ b, out[i]? = some b ∧ f a = some b := by
  intro l
  induction l with
  | nil =>
    intro out h
    simp only [List.mapM_nil, pure] at h
    cases h
    simp
  | cons a l ih =>
    intro out h
    rw [List.mapM_cons] at h
    cases hb : f a with
    | none => simp [hb] at h
    | some b =>
      cases hbs : l.mapM f with
      | none => simp [hb, hbs] at h
      | some bs =>
        simp only [hb, hbs, Option.pure_def, Option.bind_eq_bind, Option.bind_some, Option.some.injEq] at h
        subst h
        obtain ⟨h1, h2⟩ := ih bs hbs
        refine ⟨by simp [h1], ?_⟩
        intro i x hx
        cases i with
        | zero =>
          simp only [List.getElem?_cons_zero, Option.some.injEq] at hx
          subst hx
          exact ⟨b, by simp, hb⟩
        | succ i =>
          simp only [List.getElem?_cons_succ] at hx ⊢
          exact h2 i x hx

theorem mapM_option_of {α β} (f : α → Option β) (g : α → β) :
    ∀ (l : List α), (∀ a ∈ l, f a = some (g a)) → l.mapM f = some (l.map g) := by
  intro l
  induction l with
  | nil => intro _; rfl
  | cons a l ih =>
    intro h
    rw [List.mapM_cons, h a (by simp), ih (fun b hb => h b (by simp [hb]))]
    rfl

/-- what `Prolongate` returns: entry `j` is the entry of `vec` at the position of the nearest
ancestor-or-self of `fine[j]` in the coarse list -/
theorem prolongate_sound {m : Mesh} {coarse : List Nat} {vec : List Rat} {fine : List Nat} {out : List Rat}
    (h : prolongate m coarse vec fine = some out) :
    out.length = fine.length ∧ ∀ (j : Nat) id, fine[j]? = some id →
      ∃ a i v, Nearest m coarse id a ∧ coarse.idxOf? a = some i ∧ vec[i]? = some v ∧ out[j]? = some v := by
  obtain ⟨h1, h2⟩ := mapM_option_ok _ _ _ h
  refine ⟨h1, ?_⟩
  intro j id hj
  obtain ⟨v, hv, hp⟩ := h2 j id hj
  obtain ⟨a, i, g1, g2, g3⟩ := prolongOne_sound m coarse vec _ id v hp
  exact ⟨a, i, v, g1, g2, g3, hv⟩

/-- `Prolongate` succeeds (no assertion fails) when every fine element has an ancestor-or-self in the coarse
list and the vector has one entry per coarse element -/
theorem prolongate_total {m : Mesh} (hW : KidsWF m) {coarse : List Nat} {vec : List Rat} {fine : List Nat}
    (hlen : vec.length = coarse.length) (hfine : ∀ id ∈ fine, id < m.nElems + 1)
    (hanc : ∀ id ∈ fine, ∃ b ∈ coarse, Anc m id b) :
    ∃ out, prolongate m coarse vec fine = some out := by
  have : ∀ id ∈ fine, ∃ v, prolongOne m coarse vec (m.nElems + 1) id = some v := by
    intro id hid
    obtain ⟨b, hb, hab⟩ := hanc id hid
    obtain ⟨a, ha⟩ := Nearest.exists_of_anc hab hb
    rw [prolongOne_complete hW vec ha _ (hfine id hid)]
    have hac := ha.anc.2
    cases hi : coarse.idxOf? a with
    | none => exact absurd hac (List.idxOf?_eq_none_iff.mp hi)
    | some i =>
      obtain ⟨hl, -, -⟩ := List.idxOf?_eq_some_iff.mp hi
      exact ⟨vec[i]'(by omega), by simp [List.getElem?_eq_getElem (show i < vec.length by omega)]⟩
  classical
  refine ⟨fine.map fun id => (prolongOne m coarse vec (m.nElems + 1) id).getD 0, ?_⟩
  unfold prolongate
  apply mapM_option_of
  intro id hid
  obtain ⟨v, hv⟩ := this id hid
  rw [hv]; rfl

theorem idxOf?_getElem_nodup {l : List Nat} (hnd : l.Nodup) (i : Nat) (hi : i < l.length) :
    l.idxOf? l[i] = some i := by
  rw [List.idxOf?_eq_some_iff]
  refine ⟨hi, rfl, ?_⟩
  intro j hj e
  have := (List.Nodup.getElem_inj_iff hnd (hi := by omega) (hj := hi)).mp e
  omega

/-- prolongation to the same list is the identity -/
theorem prolongate_id (m : Mesh) {coarse : List Nat} {vec : List Rat} (hnd : coarse.Nodup)
    (hlen : vec.length = coarse.length) : prolongate m coarse vec coarse = some vec := by
  unfold prolongate
  have hval : ∀ id ∈ coarse, prolongOne m coarse vec (m.nElems + 1) id
      = some (vec.getD (coarse.idxOf id) 0) := by
    intro id hid
    obtain ⟨i, hi, rfl⟩ := List.getElem_of_mem hid
    rw [prolongOne, idxOf?_getElem_nodup hnd i hi]
    have e : coarse.idxOf coarse[i] = i := List.Nodup.idxOf_getElem hnd i hi
    rw [e]
    simp [List.getD_eq_getElem?_getD, List.getElem?_eq_getElem (show i < vec.length by omega)]
  rw [mapM_option_of _ (fun id => vec.getD (coarse.idxOf id) 0) coarse hval]
  congr 1
  apply List.ext_getElem
  · simp [hlen]
  · intro i h1 h2
    have hi : i < coarse.length := by simpa using h1
    simp only [List.getElem_map]
    rw [List.Nodup.idxOf_getElem hnd i hi]
    simp [List.getD_eq_getElem?_getD, List.getElem?_eq_getElem h2]

end Stbem.Mesh
