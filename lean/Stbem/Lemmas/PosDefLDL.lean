import Stbem.Lemmas.PosDefBasic

/-!
# Soundness and completeness of the pivot certificate (`ldlAux`, `ldlPivots`, `certPD`) over an ordered field
-/
namespace Stbem.PosDef
set_option linter.unusedSectionVars false

variable {K : Type} [Field K] [LinearOrder K] [IsStrictOrderedRing K]

/-! ## shapes -/

theorem shape_cons_inv {k n : Nat} {row : List K} {rest : List (List K)} (h : Shape (k + 1) n (row :: rest)) :
    row.length = n ∧ Shape k n rest := by
  obtain ⟨hl, hr⟩ := h
  exact ⟨hr row (by simp), by simpa using hl, fun r hr' => hr r (by simp [hr'])⟩

theorem shape_succ_cases {k n : Nat} {M : List (List K)} (h : Shape (k + 1) n M) :
    ∃ row rest, M = row :: rest := by
  obtain ⟨hl, _⟩ := h
  cases M with
  | nil => simp at hl
  | cons row rest => exact ⟨row, rest, rfl⟩

theorem heads_length (M : List (List K)) : (heads M).length = M.length := by simp [heads]

theorem shape_tails {k n : Nat} {M : List (List K)} (h : Shape k (n + 1) M) : Shape k n (tails M) := by
  obtain ⟨hl, hr⟩ := h
  refine ⟨by simpa [tails] using hl, ?_⟩
  intro r hr'
  simp only [tails, List.mem_map] at hr'
  obtain ⟨r0, hr0, rfl⟩ := hr'
  simp [hr r0 hr0]

theorem rowcol_length {k : Nat} {r : List K} {rest : List (List K)} (hr : r.length = k) (hrest : rest.length = k) :
    (rowcol r rest).length = k := by
  simp [rowcol, heads, hr, hrest]

theorem mem_zipWith_elim {α β γ : Type} (f : α → β → γ) (P : γ → Prop) (l1 : List α) (l2 : List β)
    (h : ∀ a, ∀ b ∈ l2, P (f a b)) : ∀ c ∈ List.zipWith f l1 l2, P c := by
  induction l1 generalizing l2 with
  | nil => simp
  | cons a l1 ih => cases l2 with
    | nil => simp
    | cons b l2 =>
      intro c hc
      simp only [List.zipWith_cons_cons, List.mem_cons] at hc
      rcases hc with rfl | hc
      · exact h a b (by simp)
      · exact ih l2 (fun a b hb => h a b (by simp [hb])) c hc

theorem shape_schur {k : Nat} (a : K) {s : List K} {B : List (List K)} (hs : s.length = k) (hB : Shape k k B) :
    Shape k k (schur a s B) := by
  obtain ⟨hl, hr⟩ := hB
  refine ⟨by simp [schur, hs, hl], ?_⟩
  apply mem_zipWith_elim
  intro si row hrow
  simp [hr row hrow, hs]

/-! ## one elimination step -/

theorem quad_step {k : Nat} (a : K) (ha : a ≠ 0) (r : List K) (rest : List (List K)) (x0 : K) (x' : List K)
    (hr : r.length = k) (hrest : Shape k (k + 1) rest) :
    quad ((a :: r) :: rest) (x0 :: x') =
      a * (x0 + dot (rowcol r rest) x' / a) ^ 2 + quad (schur a (rowcol r rest) (tails rest)) x' := by
  have hs : (rowcol r rest).length = k := rowcol_length hr hrest.1
  have hB : Shape (rowcol r rest).length (rowcol r rest).length (tails rest) := by
    rw [hs]; exact shape_tails hrest
  rw [quad_cons, quad_schur a _ _ _ hB]
  have havg : dot (rowcol r rest) x' = (dot r x' + dot (heads rest) x') / 2 :=
    dot_avg r (heads rest) x' (by rw [heads_length, hr, hrest.1])
  have h2 : dot r x' + dot (heads rest) x' = 2 * dot (rowcol r rest) x' := by rw [havg]; ring
  field_simp
  linear_combination (a * x0) * h2

/-! ## unfolding -/

theorem ldlAux_succ_cons (k : Nat) (a : K) (r : List K) (rest : List (List K)) :
    ldlAux (k + 1) ((a :: r) :: rest) =
      if 0 < a then
        match ldlAux k (schur a (rowcol r rest) (tails rest)) with
        | .ok ps => .ok (a :: ps)
        | .error j => .error j
      else .error (k + 1) := by
  rfl

/-- what a successful run looks like -/
theorem ldlAux_ok_inv {k : Nat} {M : List (List K)} {ps : List K} (h : ldlAux (k + 1) M = .ok ps) :
    ∃ a r rest ps', M = (a :: r) :: rest ∧ 0 < a ∧ ps = a :: ps' ∧
      ldlAux k (schur a (rowcol r rest) (tails rest)) = .ok ps' := by
  cases M with
  | nil => simp [ldlAux] at h
  | cons row rest => cases row with
    | nil => simp [ldlAux] at h
    | cons a r =>
      rw [ldlAux_succ_cons] at h
      split at h
      · next hpos =>
        split at h
        · next ps' hS =>
          refine ⟨a, r, rest, ps', rfl, hpos, ?_, hS⟩
          injection h with h; exact h.symm
        · simp at h
      · simp at h

/-! ## soundness -/

/-- **soundness of the elimination**: `k` positive pivots ⇒ the quadratic form is positive on every non-zero vector -/
theorem ldlAux_sound : ∀ (k : Nat) (M : List (List K)) (ps : List K), ldlAux k M = .ok ps → Shape k k M →
    ∀ x : List K, x.length = k → NonZero x → 0 < quad M x := by
  intro k
  induction k with
  | zero =>
    intro M ps _ _ x hx hnz
    obtain ⟨v, hv, _⟩ := hnz
    have : x = [] := List.eq_nil_of_length_eq_zero hx
    simp [this] at hv
  | succ k ih =>
    intro M ps h hM x hx hnz
    obtain ⟨a, r, rest, ps', rfl, hpos, -, hS⟩ := ldlAux_ok_inv h
    obtain ⟨hrow, hrest⟩ := shape_cons_inv hM
    have hr : r.length = k := by simpa using hrow
    cases x with
    | nil => simp at hx
    | cons x0 x' =>
      have hx' : x'.length = k := by simpa using hx
      rw [quad_step a hpos.ne' r rest x0 x' hr hrest]
      have hSq : Shape k k (schur a (rowcol r rest) (tails rest)) :=
        shape_schur a (rowcol_length hr hrest.1) (shape_tails hrest)
      have hsq : 0 ≤ a * (x0 + dot (rowcol r rest) x' / a) ^ 2 := by positivity
      by_cases hz : NonZero x'
      · have := ih _ ps' hS hSq x' hx' hz
        linarith
      · have hall := not_nonZero hz
        rw [quad_of_zero _ x' hall, dot_zero_right _ x' hall]
        have hx0 : x0 ≠ 0 := by
          obtain ⟨v, hv, hne⟩ := hnz
          rcases List.mem_cons.mp hv with rfl | hv'
          · exact hne
          · exact absurd (hall v hv') hne
        have : 0 < a * x0 ^ 2 := by positivity
        simpa using this

/-- the pivots of a successful run are positive, and there are `k` of them -/
theorem ldlAux_pivots_pos : ∀ (k : Nat) (M : List (List K)) (ps : List K), ldlAux k M = .ok ps →
    ps.length = k ∧ ∀ p ∈ ps, 0 < p := by
  intro k
  induction k with
  | zero => intro M ps h; simp [ldlAux] at h; subst h; simp
  | succ k ih =>
    intro M ps h
    obtain ⟨a, r, rest, ps', rfl, hpos, rfl, hS⟩ := ldlAux_ok_inv h
    obtain ⟨hl, hp⟩ := ih _ ps' hS
    refine ⟨by simp [hl], ?_⟩
    intro p hp'
    rcases List.mem_cons.mp hp' with rfl | hp'
    · exact hpos
    · exact hp p hp'

/-! ## completeness -/

theorem nonZero_cons_of_tail {x0 : K} {x' : List K} (h : NonZero x') : NonZero (x0 :: x') := by
  obtain ⟨v, hv, hne⟩ := h; exact ⟨v, by simp [hv], hne⟩

/-- **completeness**: on a positive definite (quadratic form of a) square matrix the elimination finds `k` positive pivots -/
theorem ldlAux_complete : ∀ (k : Nat) (M : List (List K)), Shape k k M →
    (∀ x : List K, x.length = k → NonZero x → 0 < quad M x) → ∃ ps, ldlAux k M = .ok ps := by
  intro k
  induction k with
  | zero => intro M _ _; exact ⟨[], by simp [ldlAux]⟩
  | succ k ih =>
    intro M hM hpd
    obtain ⟨row, rest, rfl⟩ := shape_succ_cases hM
    obtain ⟨hrow, hrest⟩ := shape_cons_inv hM
    cases row with
    | nil => simp at hrow
    | cons a r =>
      have hr : r.length = k := by simpa using hrow
      -- the pivot is the value of the form on the first unit vector
      have hpos : 0 < a := by
        have h1 := hpd (1 :: List.replicate k 0) (by simp) ⟨1, by simp, one_ne_zero⟩
        have hz : ∀ v ∈ List.replicate k (0 : K), v = 0 := fun v hv => (List.mem_replicate.mp hv).2
        rw [quad_cons, dot_zero_right _ _ hz, dot_zero_right _ _ hz, quad_of_zero _ _ hz] at h1
        simpa using h1
      have hSq : Shape k k (schur a (rowcol r rest) (tails rest)) :=
        shape_schur a (rowcol_length hr hrest.1) (shape_tails hrest)
      have hpd' : ∀ x' : List K, x'.length = k → NonZero x' →
          0 < quad (schur a (rowcol r rest) (tails rest)) x' := by
        intro x' hx' hnz
        have h1 := hpd ((-(dot (rowcol r rest) x' / a)) :: x') (by simp [hx']) (nonZero_cons_of_tail hnz)
        rw [quad_step a hpos.ne' r rest _ x' hr hrest] at h1
        simpa using h1
      obtain ⟨ps', hS⟩ := ih _ hSq hpd'
      exact ⟨a :: ps', by rw [ldlAux_succ_cons, if_pos hpos, hS]⟩

/-! ## `ldlPivots`, `certPD` -/

theorem ldlPivots_eq_some {M : List (List K)} {ps : List K} :
    ldlPivots M = some ps ↔ ldlAux M.length M = .ok ps := by
  unfold ldlPivots
  split <;> simp_all

theorem certPD_eq_true {M : List (List K)} : certPD M = true ↔ ∃ ps, ldlAux M.length M = .ok ps := by
  unfold certPD ldlPivots
  split <;> simp_all

/-- **soundness of the certificate** -/
theorem certPD_sound' {n : Nat} {M : List (List K)} (hM : Shape n n M) (h : certPD M = true) :
    ∀ x : List K, x.length = n → NonZero x → 0 < quad M x := by
  obtain ⟨ps, hps⟩ := certPD_eq_true.mp h
  rw [hM.1] at hps
  exact ldlAux_sound n M ps hps hM

/-- **completeness of the certificate** -/
theorem certPD_complete' {n : Nat} {M : List (List K)} (hM : Shape n n M)
    (hpd : ∀ x : List K, x.length = n → NonZero x → 0 < quad M x) : certPD M = true := by
  obtain ⟨ps, hps⟩ := ldlAux_complete n M hM hpd
  exact certPD_eq_true.mpr ⟨ps, by rw [hM.1]; exact hps⟩

end Stbem.PosDef
