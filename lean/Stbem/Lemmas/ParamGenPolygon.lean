import Stbem.Lemmas.ParamGenInit

/-!
# `PiecewisePolygon.__init__` regenerated from source = the hand model `polygon` (axis-parallel polygons)
-/
namespace Stbem.ParamTie
open Stbem.Gen.ParamGen
open Stbem.Param
open Stbem.SL (Piece absR distSq)
open Stbem.Mesh (pairs)

/-- the first loop of the constructor (`assert len(vertex) == 2`) never fails on arrays that are points -/
theorem loop1_ok : ∀ (vs : List Pt), (vs.map arr).foldlM PiecewisePolygon.init.loop1 () = .ok () := by
  intro vs
  induction vs with
  | nil => rfl
  | cons v vs ih =>
    rw [List.map_cons, List.foldlM_cons]
    have : PiecewisePolygon.init.loop1 () (arr v) = .ok () := by
      unfold PiecewisePolygon.init.loop1
      rw [assertThat_true _ (by simp [arr])]
      rfl
    rw [this, ok_bind, ih]

theorem endpoint_ok (p : Pt) : npAll (npEqAA (npFlatten (col p)) (npArray (arr p))) = true := by
  simp [npAll, npEqAA, npFlatten, col, arr, npArray]

/-- one iteration of the main loop on a side of positive length -/
theorem loop2_step (S : Fns) (preV : List Pt) (a b : Pt) (l : List Pt) (prePw : List Rat) (s : Rat) (P : List Proj)
    (G : List Gamma) (hpre : prePw.length = preV.length) {n : Rat} (h : axisNorm a b = some n) (hn : n ≠ 0) :
    ∃ p, PiecewisePolygon.init.loop2 S ((preV ++ a :: b :: l).map arr) (P, prePw ++ [s], G) preV.length =
      .ok (P ++ [p], prePw ++ [s] ++ [n + s], G ++ [ofPiece (mkPiece a b n s)]) := by
  obtain ⟨p, hp⟩ := gen_line_project_ok h hn s
  refine ⟨p, ?_⟩
  unfold PiecewisePolygon.init.loop2
  have hv0 : pyIdx ((preV ++ a :: b :: l).map arr) preV.length = .ok (arr a) := by
    rw [List.map_append, List.map_cons, ← List.length_map (f := arr)]
    exact pyIdx_append_len _ _ _
  have hv1 : pyIdx ((preV ++ a :: b :: l).map arr) (preV.length + 1) = .ok (arr b) := by
    rw [List.map_append, List.map_cons, List.map_cons, ← List.length_map (f := arr)]
    exact pyIdx_append_len_succ _ _ _ _
  have hs : pyIdx (prePw ++ [s]) preV.length = .ok s := by
    rw [← hpre]; exact pyIdx_append_len _ _ _
  simp only [hv0, hv1, hs, ok_bind, gen_line_eq h hn, call_ofPiece_scalar, mkPiece_at_start, mkPiece_at_end a b hn,
    assertThat_true _ (endpoint_ok _), hp]
  rfl

/-- … and on a side of length 0 (`nan`) -/
theorem loop2_zero (S : Fns) (preV : List Pt) (a b : Pt) (l : List Pt) (prePw : List Rat) (s : Rat) (P : List Proj)
    (G : List Gamma) (hpre : prePw.length = preV.length) (h : axisNorm a b = some 0) :
    PiecewisePolygon.init.loop2 S ((preV ++ a :: b :: l).map arr) (P, prePw ++ [s], G) preV.length =
      .error "nan:division-by-zero" := by
  unfold PiecewisePolygon.init.loop2
  have hv0 : pyIdx ((preV ++ a :: b :: l).map arr) preV.length = .ok (arr a) := by
    rw [List.map_append, List.map_cons, ← List.length_map (f := arr)]
    exact pyIdx_append_len _ _ _
  have hv1 : pyIdx ((preV ++ a :: b :: l).map arr) (preV.length + 1) = .ok (arr b) := by
    rw [List.map_append, List.map_cons, List.map_cons, ← List.length_map (f := arr)]
    exact pyIdx_append_len_succ _ _ _ _
  have hs : pyIdx (prePw ++ [s]) preV.length = .ok s := by
    rw [← hpre]; exact pyIdx_append_len _ _ _
  simp only [hv0, hv1, hs, ok_bind, gen_line_zero h]
  rfl

/-- **the main loop of `PiecewisePolygon.__init__`** = the recursion `polyGo` of the hand model (break points and pieces; the
projections `pw_proj` are dropped by the source) -/
theorem loop2_polyGo (S : Fns) : ∀ (vs preV : List Pt) (prePw : List Rat) (s : Rat) (P : List Proj) (G : List Gamma),
    prePw.length = preV.length → (∀ e ∈ pairs vs, axisNorm e.1 e.2 ≠ none) →
    (((List.range' preV.length (vs.length - 1)).foldlM (PiecewisePolygon.init.loop2 S ((preV ++ vs).map arr))
        (P, prePw ++ [s], G)).toOption.map fun st => (st.2.1, st.2.2)) =
      (polyGo s vs).toOption.map fun r => (prePw ++ s :: r.2, G ++ r.1.map ofPiece) := by
  intro vs
  induction vs with
  | nil => intro preV prePw s P G _ _; simp [polyGo, Except.toOption]; exact ⟨P, rfl⟩
  | cons a vs ih =>
    cases vs with
    | nil => intro preV prePw s P G _ _; simp [polyGo, Except.toOption]; exact ⟨P, rfl⟩
    | cons b l =>
      intro preV prePw s P G hpre hax
      have h1 : List.range' preV.length ((a :: b :: l).length - 1) =
          preV.length :: List.range' (preV.length + 1) ((b :: l).length - 1) := by
        simp [List.range'_succ]
      rw [h1, List.foldlM_cons, polyGo_cons2]
      cases hn : axisNorm a b with
      | none => exact absurd hn (hax (a, b) (by simp [pairs]))
      | some n =>
        simp only
        by_cases hn0 : n = 0
        · subst hn0
          rw [loop2_zero S preV a b l prePw s P G hpre hn, if_pos rfl]
          rfl
        · obtain ⟨p, hp⟩ := loop2_step S preV a b l prePw s P G hpre hn hn0
          rw [hp, ok_bind, if_neg hn0, if_neg (by rw [mkPiece_at_start]; simp),
            if_neg (by rw [mkPiece_at_end a b hn0]; simp)]
          have e1 : preV ++ a :: b :: l = (preV ++ [a]) ++ b :: l := by simp
          have := ih (preV ++ [a]) (prePw ++ [s]) (n + s) (P ++ [p]) (G ++ [ofPiece (mkPiece a b n s)])
            (by simp [hpre]) (fun e he => hax e (by rw [Stbem.Mesh.pairs_cons2]; exact List.mem_cons_of_mem _ he))
          rw [show (preV ++ [a]).length = preV.length + 1 by simp] at this
          rw [e1, this, add_comm n s]
          cases polyGo (s + n) (b :: l) with
          | error e => rfl
          | ok r =>
            obtain ⟨gs, pw⟩ := r
            simp [Except.toOption]

theorem tol_nonneg (v : Rat) : 0 ≤ c_atol + c_rtol * absQ v := by
  have h1 : (0 : Rat) ≤ c_atol := by decide +kernel
  have h2 : (0 : Rat) ≤ c_rtol := by decide +kernel
  have h3 : 0 ≤ absQ v := by rw [absQ_eq_abs]; exact abs_nonneg v
  have := mul_nonneg h2 h3
  linarith

theorem allclose_self (p : Pt) : npAllcloseMM (col p) (col p) = true := by
  have h0 : absQ (0 : Rat) = 0 := by decide +kernel
  simp [npAllcloseMM, col, sub_self, h0, tol_nonneg]

/-- what follows the vertex checks in `PiecewisePolygon.__init__` -/
def polyRest (S : Fns) (vs : List Pt) (closed : Bool) : Except String PiecewiseParametrization := do
  let t14 ← (pyRange ((vs.map arr).length - 1)).foldlM (PiecewisePolygon.init.loop2 S (vs.map arr)) ([], [(0 : Rat)], [])
  let t15 ← PiecewiseParametrization.init S t14.2.1 t14.2.2 closed
  return t15

theorem polyRest_toOption (S : Fns) (vs : List Pt) (closed : Bool) (hax : ∀ e ∈ pairs vs, axisNorm e.1 e.2 ≠ none)
    (hcl : closed = true → vs.head? = vs.getLast?) :
    (polyRest S vs closed).toOption =
      (match polyGo 0 vs with
        | .error _ => none
        | .ok (gs, pw) => (checkCurve ⟨0 :: pw, gs, closed⟩).toOption.bind fun c =>
            if fdOK c = true then some (ofCurve c) else none) := by
  unfold polyRest
  have hl := loop2_polyGo S vs [] [] 0 [] [] rfl hax
  simp only [List.nil_append, List.length_nil] at hl
  simp only [pyRange, List.range_eq_range', List.length_map]
  rw [toOption_bind]
  cases hgo : polyGo 0 vs with
  | error e =>
    rw [hgo] at hl
    cases hf : (List.foldlM (PiecewisePolygon.init.loop2 S (vs.map arr)) ([], [(0 : Rat)], []) (List.range' 0 (vs.length - 1))) with
    | error e' => rfl
    | ok st => rw [hf] at hl; simp [Except.toOption] at hl
  | ok r =>
    obtain ⟨gs, pw⟩ := r
    rw [hgo] at hl
    cases hf : (List.foldlM (PiecewisePolygon.init.loop2 S (vs.map arr)) ([], [(0 : Rat)], []) (List.range' 0 (vs.length - 1))) with
    | error e' => rw [hf] at hl; simp [Except.toOption] at hl
    | ok st =>
      rw [hf] at hl
      simp only [Except.toOption, Option.map_some, Option.some.injEq, Prod.mk.injEq] at hl
      obtain ⟨hl1, hl2⟩ := hl
      rw [show (Except.ok st : Except String _).toOption = some st from rfl, Option.bind_some, hl1, hl2]
      have hspec := polyGo_spec vs 0 gs pw hgo
      show _ = (checkCurve ⟨0 :: pw, gs, closed⟩).toOption.bind fun c => if fdOK c = true then some (ofCurve c) else none
      by_cases h2 : 2 ≤ vs.length
      · obtain ⟨l1, l2, l3, l4⟩ := hspec.lengths
        have hlen : (⟨0 :: pw, gs, closed⟩ : Curve).pw.length = (⟨0 :: pw, gs, closed⟩ : Curve).pieces.length + 1 := by
          simp [l1]
        have hne : (⟨0 :: pw, gs, closed⟩ : Curve).pieces ≠ [] := by
          intro h
          have : gs.length = 0 := by rw [show gs = [] from h]; rfl
          omega
        have hinit := gen_init_toOption S ⟨0 :: pw, gs, closed⟩ hlen hne
        simp only at hinit
        rw [hinit]
        obtain ⟨a, b, ha, hb, hL, e0, eL⟩ := hspec.ends h2 closed
        have hab : closed = true → a = b := by
          intro hc
          have := hcl hc
          rw [ha, hb] at this
          exact Option.some.inj this
        have hcheck : checkCurve ⟨0 :: pw, gs, closed⟩ = .ok ⟨0 :: pw, gs, closed⟩ := by
          unfold checkCurve
          rw [if_neg (by rw [not_or, not_not]; exact ⟨by simp, not_not.mpr hL⟩)]
          cases hc : closed with
          | false => simp
          | true =>
            subst hc
            simp only [if_true]
            rw [e0, eL, hab rfl]
            simp
        have hclose : closed = true → closeOK ⟨0 :: pw, gs, closed⟩ = true := by
          intro hc
          unfold closeOK
          rw [e0, eL, hab hc]
          exact allclose_self b
        rw [hcheck]
        show _ = if fdOK _ = true then _ else _
        by_cases h3 : fdOK ⟨0 :: pw, gs, closed⟩ = true
        · rw [if_pos ⟨⟨rfl, hL⟩, hclose, h3⟩, if_pos h3]
        · rw [if_neg (fun h => h3 h.2.2), if_neg h3]
      · have hgp : gs = [] ∧ pw = [] := by
          cases hspec with
          | nil => exact ⟨rfl, rfl⟩
          | single _ _ => exact ⟨rfl, rfl⟩
          | cons => simp at h2
        obtain ⟨rfl, rfl⟩ := hgp
        have h1 : (PiecewiseParametrization.init S [0] (List.map ofPiece []) closed).toOption = none := by
          unfold PiecewiseParametrization.init
          rw [show pyLast [(0 : Rat)] = .ok 0 from rfl, ok_bind]
          simp only
          rw [show pyIdx [(0 : Rat)] 0 = .ok 0 from rfl, ok_bind, toOption_assert_then, if_neg (by simp)]
        have h2' : checkCurve ⟨[0], [], closed⟩ = .error "assert:length" := by
          unfold checkCurve
          rw [if_pos (by right; simp [Curve.length])]
        rw [h1, h2']
        rfl

theorem arr_eq_iff (p q : Pt) : npAll (npEqAA (arr p) (arr q)) = true ↔ p = q := by
  obtain ⟨p1, p2⟩ := p
  obtain ⟨q1, q2⟩ := q
  simp [npAll, npEqAA, arr]

theorem polygon_unfold (vs : List Pt) (closed : Bool) (h : ¬ (closed = true ∧ vs.head? ≠ vs.getLast?)) :
    (polygon vs closed).toOption.bind (fun c => if fdOK c = true then some (ofCurve c) else none) =
      (match polyGo 0 vs with
        | .error _ => none
        | .ok (gs, pw) => (checkCurve ⟨0 :: pw, gs, closed⟩).toOption.bind fun c =>
            if fdOK c = true then some (ofCurve c) else none) := by
  unfold polygon
  rw [if_neg (by simpa using h)]
  cases polyGo 0 vs with
  | error e => rfl
  | ok r => rfl

/-- **`PiecewisePolygon.__init__` regenerated from source = the hand model `polygon`**, for ALL vertex lists whose sides are
axis-parallel (the scope of the hand model) and both values of `closed`: the generated constructor succeeds exactly when the
hand model accepts and the arc-length self check `fdOK` (which the hand model does not contain) passes, and then returns the
same `pw_start`, the same pieces, the same flag and length.  (Failures are compared as failures: the generated code stops at
`nan` where the hand model reports the end-point assertion that the `nan` would fail.) -/
theorem gen_polygon_toOption (S : Fns) (vs : List Pt) (closed : Bool) (hax : ∀ e ∈ pairs vs, axisNorm e.1 e.2 ≠ none) :
    (PiecewisePolygon.init S (vs.map arr) closed).toOption =
      (polygon vs closed).toOption.bind fun c => if fdOK c = true then some (ofCurve c) else none := by
  unfold PiecewisePolygon.init
  rw [loop1_ok, ok_bind]
  show (if closed = true then (do
      let t1 ← pyIdx (vs.map arr) 0
      let t2 ← pyLast (vs.map arr)
      assertThat (npAll (npEqAA t1 t2) = true) "assert:closed-vertices"
      polyRest S vs closed) else polyRest S vs closed).toOption = _
  cases closed with
  | false =>
    rw [if_neg (by simp), polyRest_toOption S vs false hax (by simp), polygon_unfold vs false (by simp)]
  | true =>
    rw [if_pos rfl]
    cases vs with
    | nil => rfl
    | cons v vs =>
      have hne : (v :: vs) ≠ [] := by simp
      have hlast : pyLast ((v :: vs).map arr) = .ok (arr ((v :: vs).getLast hne)) := by
        unfold pyLast
        rw [List.getLast?_map, List.getLast?_eq_getLast_of_ne_nil hne]
        rfl
      rw [show pyIdx ((v :: vs).map arr) 0 = .ok (arr v) from rfl, ok_bind, hlast, ok_bind, toOption_assert_then]
      by_cases hv : v = (v :: vs).getLast hne
      · have hcl : (v :: vs).head? = (v :: vs).getLast? := by
          rw [List.getLast?_eq_getLast_of_ne_nil hne, ← hv]; rfl
        rw [if_pos ((arr_eq_iff _ _).mpr hv), polyRest_toOption S (v :: vs) true hax (fun _ => hcl),
          polygon_unfold (v :: vs) true (by simp [hcl])]
      · rw [if_neg (fun h => hv ((arr_eq_iff _ _).mp h))]
        unfold polygon
        rw [if_pos (by
          rw [List.getLast?_eq_getLast_of_ne_nil hne]
          simp only [List.head?_cons, Bool.true_and, decide_eq_true_eq, ne_eq, Option.some.injEq]
          exact hv)]
        rfl

end Stbem.ParamTie
