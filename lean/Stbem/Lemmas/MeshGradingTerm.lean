import Stbem.Lemmas.MeshGrading
import Stbem.Lemmas.MeshTrace
import Stbem.Lemmas.MeshInit
import Mathlib.Algebra.Order.Archimedean.Basic
import Mathlib.Tactic.FieldSimp
import Mathlib.Tactic.Positivity

/-!
# Termination of the repaired grading loop on size-uniform meshes

`Uniform Ht Hx m`: every leaf of time level `lt` and space level `lx` has the size
`Ht / 2^lt × Hx / 2^lx` (true for `init glue X T` with equidistant `X`, `T`, preserved by bisection).

For such a mesh choose a *target* `(Lt, Lx)` above all current levels whose cell size lies in the
window.  A marked leaf is strictly below the target in the marked axis (monotonicity of the marks),
`refineId` on a leaf `c` only bisects leaves of level `≤ c.level` (`MeshTrace`), hence all leaves stay
below the target, and the potential `Σ_leaves (2^(Lt-lt+Lx-lx+1) - 1)` drops by one with every
bisection.  Every sweep that marks something bisects at least one leaf.
-/
namespace Stbem.Mesh

/-! ### the state predicate -/

def Uniform (Ht Hx : Rat) (m : Mesh) : Prop :=
  ∀ c ∈ m.leaves, c.t1 - c.t0 = Ht / 2 ^ c.lt ∧ c.x1 - c.x0 = Hx / 2 ^ c.lx

def Under (Lt Lx : Nat) (m : Mesh) : Prop := ∀ c ∈ m.leaves, c.lt ≤ Lt ∧ c.lx ≤ Lx

/-- a leaf of `M` is a leaf of `m0` or has been created after `m0` -/
def Fresh (m0 M : Mesh) : Prop := ∀ d ∈ M.leaves, d ∈ m0.leaves ∨ m0.nElems ≤ d.id

def tgt (Lt Lx : Nat) : Ax → Nat
  | .time => Lt
  | .space => Lx

def wt (Lt Lx : Nat) (c : Cell) : Nat := 2 ^ ((Lt - c.lt) + (Lx - c.lx) + 1) - 1

def pot (Lt Lx : Nat) (m : Mesh) : Nat := (m.leaves.map (wt Lt Lx)).sum

structure St (Ht Hx : Rat) (Lt Lx : Nat) (m0 : Mesh) (N : Nat) (M : Mesh) : Prop where
  ids : IdsOK M
  uni : Uniform Ht Hx M
  und : Under Lt Lx M
  fresh : Fresh m0 M
  cnt : m0.nElems ≤ M.nElems
  pot : 2 * pot Lt Lx M + M.nElems = N

/-! ### one bisection -/

theorem mem_bisect_imp {m : Mesh} {c : Cell} {ax : Ax} {l : Cell}
    (h : l ∈ (bisect m c ax).leaves) : l ∈ m.leaves ∨ IsChild m c ax l := by
  rw [bisect_leaves] at h
  simp only [List.mem_append, List.mem_filter, List.mem_cons, List.not_mem_nil, or_false] at h
  rcases h with ⟨h, _⟩ | h
  · exact Or.inl h
  · exact Or.inr h

theorem IsChild.size {m : Mesh} {c : Cell} {ax : Ax} {ch : Cell} (h : IsChild m c ax ch)
    {Ht Hx : Rat} (hc : c.t1 - c.t0 = Ht / 2 ^ c.lt ∧ c.x1 - c.x0 = Hx / 2 ^ c.lx) :
    ch.t1 - ch.t0 = Ht / 2 ^ ch.lt ∧ ch.x1 - ch.x0 = Hx / 2 ^ ch.lx := by
  obtain ⟨h1, h2⟩ := hc
  rcases h with rfl | rfl <;> cases ax <;> simp only [children] <;> refine ⟨?_, ?_⟩ <;>
    first
      | exact h1
      | exact h2
      | (rw [pow_succ, ← div_div, ← h1]; ring)
      | (rw [pow_succ, ← div_div, ← h2]; ring)

theorem IsChild.levels {m : Mesh} {c : Cell} {ax : Ax} {ch : Cell} (h : IsChild m c ax ch) :
    (ax = .time → ch.lt = c.lt + 1 ∧ ch.lx = c.lx) ∧
    (ax = .space → ch.lt = c.lt ∧ ch.lx = c.lx + 1) ∧
    (ch.id = m.nElems ∨ ch.id = m.nElems + 1) := by
  rcases h with rfl | rfl <;> cases ax <;> simp [children]

theorem bisect_idsOK {m : Mesh} (h : IdsOK m) {c : Cell} (ax : Ax) : IdsOK (bisect m c ax) := by
  have hid := children_id m.nElems c ax
  constructor
  · rw [bisect_leaves, List.map_append, List.nodup_append]
    refine ⟨(h.1.sublist (List.Sublist.map _ List.filter_sublist)), ?_, ?_⟩
    · simp [hid.1, hid.2]
    · intro a ha b hb
      simp only [List.mem_map, List.mem_filter] at ha
      obtain ⟨a', ⟨ha', _⟩, rfl⟩ := ha
      have := h.2 a' ha'
      simp only [List.map_cons, List.map_nil, List.mem_cons, List.not_mem_nil, or_false, hid.1,
        hid.2] at hb
      omega
  · intro l hl
    show l.id < m.nElems + 2
    rcases mem_bisect_imp hl with h1 | hch
    · have := h.2 l h1; omega
    · have := hch.levels.2.2; omega

theorem sum_filter_id (f : Cell → Nat) (c : Cell) : ∀ l : List Cell, (l.map (·.id)).Nodup → c ∈ l →
    ((l.filter (fun l => l.id != c.id)).map f).sum + f c = (l.map f).sum := by
  intro l
  induction l with
  | nil => intro _ h; simp at h
  | cons a l ih =>
    intro hnd hc
    rw [List.map_cons, List.nodup_cons] at hnd
    obtain ⟨hna, hnd'⟩ := hnd
    rcases List.mem_cons.mp hc with rfl | hc'
    · have hself : l.filter (fun l => l.id != c.id) = l := by
        rw [List.filter_eq_self]
        intro x hx
        simp only [bne_iff_ne, ne_eq]
        intro e
        exact hna (e ▸ List.mem_map_of_mem (f := fun c : Cell => c.id) hx)
      rw [List.filter_cons_of_neg (by simp), hself, List.map_cons, List.sum_cons]
      omega
    · have hne : a.id ≠ c.id := by
        intro e
        exact hna (e ▸ List.mem_map_of_mem (f := fun c : Cell => c.id) hc')
      rw [List.filter_cons_of_pos (by simpa using hne), List.map_cons, List.sum_cons, List.map_cons,
        List.sum_cons, ← ih hnd' hc']
      omega

theorem pot_bisect {Lt Lx : Nat} {M : Mesh} (hids : IdsOK M) {c : Cell} (hc : c ∈ M.leaves) {ax : Ax}
    (hund : c.lt ≤ Lt ∧ c.lx ≤ Lx) (hl : c.level ax < tgt Lt Lx ax) :
    pot Lt Lx (bisect M c ax) + 1 = pot Lt Lx M := by
  unfold pot
  rw [bisect_leaves, List.map_append, List.sum_append, ← sum_filter_id (wt Lt Lx) c M.leaves hids.1 hc]
  simp only [List.map_cons, List.map_nil, List.sum_cons, List.sum_nil, Nat.add_zero]
  have key : ∀ ch, IsChild M c ax ch →
      2 ^ ((Lt - ch.lt) + (Lx - ch.lx) + 1) * 2 = 2 ^ ((Lt - c.lt) + (Lx - c.lx) + 1) := by
    intro ch hch
    rw [← pow_succ]
    congr 1
    obtain ⟨ht, hs, _⟩ := hch.levels
    cases ax
    · obtain ⟨e1, e2⟩ := ht rfl
      simp only [Cell.level, tgt] at hl
      omega
    · obtain ⟨e1, e2⟩ := hs rfl
      simp only [Cell.level, tgt] at hl
      omega
  have k1 := key _ (Or.inl rfl)
  have k2 := key _ (Or.inr rfl)
  have p1 : 1 ≤ 2 ^ ((Lt - (children M.nElems c ax).1.lt) + (Lx - (children M.nElems c ax).1.lx) + 1) :=
    Nat.one_le_two_pow
  have p2 : 1 ≤ 2 ^ ((Lt - (children M.nElems c ax).2.lt) + (Lx - (children M.nElems c ax).2.lx) + 1) :=
    Nat.one_le_two_pow
  simp only [wt]
  omega

theorem bisect_St {Ht Hx : Rat} {Lt Lx : Nat} {m0 : Mesh} {N : Nat} {M : Mesh}
    (h : St Ht Hx Lt Lx m0 N M) {c : Cell} (hc : c ∈ M.leaves) {ax : Ax}
    (hl : c.level ax < tgt Lt Lx ax) : St Ht Hx Lt Lx m0 N (bisect M c ax) := by
  refine ⟨bisect_idsOK h.ids ax, ?_, ?_, ?_, ?_, ?_⟩
  · intro l hl'
    rcases mem_bisect_imp hl' with h1 | hch
    · exact h.uni l h1
    · exact hch.size (h.uni c hc)
  · intro l hl'
    rcases mem_bisect_imp hl' with h1 | hch
    · exact h.und l h1
    · obtain ⟨ht, hs, _⟩ := hch.levels
      have := h.und c hc
      cases ax
      · obtain ⟨e1, e2⟩ := ht rfl
        simp only [Cell.level, tgt] at hl
        omega
      · obtain ⟨e1, e2⟩ := hs rfl
        simp only [Cell.level, tgt] at hl
        omega
  · intro l hl'
    rcases mem_bisect_imp hl' with h1 | hch
    · exact h.fresh l h1
    · have := hch.levels.2.2
      have := h.cnt
      right; omega
  · show m0.nElems ≤ M.nElems + 2
    have := h.cnt; omega
  · have := pot_bisect h.ids hc (h.und c hc) hl
    have := h.pot
    show 2 * pot Lt Lx (bisect M c ax) + (M.nElems + 2) = N
    omega

/-- `refineId` on a leaf strictly below the target keeps the state and creates elements -/
theorem refineId_St {Ht Hx : Rat} {Lt Lx : Nat} {m0 : Mesh} {N : Nat} {M : Mesh} (hinv : Inv M)
    (h : St Ht Hx Lt Lx m0 N M) {c : Cell} (hc : c ∈ M.leaves) {ax : Ax}
    (hl : c.level ax < tgt Lt Lx ax) {M' : Mesh} (hr : refineId M c.id ax = .ok M') :
    St Ht Hx Lt Lx m0 N M' ∧ M.nElems < M'.nElems := by
  obtain ⟨M1, pre, h1⟩ := refineId_trace hinv hc ax
  rw [hr] at h1
  injection h1 with h1
  subst h1
  have h2 : St Ht Hx Lt Lx m0 N M1 ∧ M.nElems ≤ M1.nElems :=
    pre.bis.pres (fun X => St Ht Hx Lt Lx m0 N X ∧ M.nElems ≤ X.nElems)
      (fun X d hX hd hdl => ⟨bisect_St hX.1 hd (by omega), by
        have := hX.2
        show M.nElems ≤ X.nElems + 2
        omega⟩) ⟨h, le_refl _⟩
  refine ⟨bisect_St h2.1 pre.mem hl, ?_⟩
  have := h2.2
  show M.nElems < M1.nElems + 2
  omega

/-! ### the target -/

/-- the cell size of the target level lies in the window -/
structure Target (Ht Hx : Rat) (p q : Nat) (K : Rat) (Lt Lx : Nat) : Prop where
  hHt : 0 < Ht
  hHx : 0 < Hx
  hK : 0 < K
  wt : (Ht / 2 ^ Lt / K) ^ q < (Hx / 2 ^ Lx) ^ p
  ws : (Hx / 2 ^ Lx) ^ p < (K * (Ht / 2 ^ Lt)) ^ q

theorem div_two_pow_mono {H : Rat} (hH : 0 < H) {a b : Nat} (h : a ≤ b) :
    H / 2 ^ b ≤ H / 2 ^ a :=
  div_le_div_of_nonneg_left (le_of_lt hH) (by positivity)
    (pow_le_pow_right₀ (by norm_num) h)

/-- a time-marked cell below the target is strictly below it in time -/
theorem Target.time {Ht Hx : Rat} {p q : Nat} {K : Rat} {Lt Lx : Nat} (T : Target Ht Hx p q K Lt Lx)
    {c : Cell} (hs : c.t1 - c.t0 = Ht / 2 ^ c.lt ∧ c.x1 - c.x0 = Hx / 2 ^ c.lx)
    (hu : c.lt ≤ Lt ∧ c.lx ≤ Lx) (hm : markTime c p q K = true) : c.lt < Lt := by
  by_contra hlt
  have e : c.lt = Lt := by omega
  simp only [markTime, decide_eq_true_eq, ge_iff_le] at hm
  rw [hs.1, hs.2, e] at hm
  have hHx := T.hHx
  have h1 : (Hx / 2 ^ Lx) ^ p ≤ (Hx / 2 ^ c.lx) ^ p :=
    pow_le_pow_left₀ (by positivity) (div_two_pow_mono hHx hu.2) p
  exact absurd (lt_of_le_of_lt (le_trans h1 hm) T.wt) (lt_irrefl _)

/-- a space-marked cell below the target is strictly below it in space -/
theorem Target.space {Ht Hx : Rat} {p q : Nat} {K : Rat} {Lt Lx : Nat} (T : Target Ht Hx p q K Lt Lx)
    {c : Cell} (hs : c.t1 - c.t0 = Ht / 2 ^ c.lt ∧ c.x1 - c.x0 = Hx / 2 ^ c.lx)
    (hu : c.lt ≤ Lt ∧ c.lx ≤ Lx) (hm : markSpace c p q K = true) : c.lx < Lx := by
  by_contra hlt
  have e : c.lx = Lx := by omega
  simp only [markSpace, decide_eq_true_eq, ge_iff_le] at hm
  rw [hs.1, hs.2, e] at hm
  have hHt := T.hHt
  have hK := T.hK
  have h1 : (K * (Ht / 2 ^ Lt)) ^ q ≤ (K * (Ht / 2 ^ c.lt)) ^ q :=
    pow_le_pow_left₀ (by positivity)
      (mul_le_mul_of_nonneg_left (div_two_pow_mono hHt hu.1) (le_of_lt hK)) q
  exact absurd (lt_of_lt_of_le T.ws (le_trans h1 hm)) (lt_irrefl _)

/-! ### one sweep -/

theorem gradeSweep_St {Ht Hx : Rat} {p q : Nat} {K : Rat} {Lt Lx : Nat}
    (T : Target Ht Hx p q K Lt Lx) {m : Mesh} (h : Inv m) (hu : Uniform Ht Hx m)
    (hund : Under Lt Lx m) :
    ∃ r, gradeSweep true m p q K = .ok r ∧ Inv r.1 ∧
      ((r.2 = false) ∨ (r.2 = true ∧ Uniform Ht Hx r.1 ∧ Under Lt Lx r.1 ∧
        pot Lt Lx r.1 < pot Lt Lx m)) := by
  set N := 2 * pot Lt Lx m + m.nElems with hN
  have hst : St Ht Hx Lt Lx m N m :=
    ⟨h.ids, hu, hund, fun d hd => Or.inl hd, le_refl _, rfl⟩
  obtain ⟨r, h1, i1, _, fin⟩ := gradeSweep_ok_gen
    (fun M => St Ht Hx Lt Lx m N M) (fun M => St Ht Hx Lt Lx m N M ∧ m.nElems < M.nElems)
    (fun c => c.lt < Lt) (fun c => c.lx < Lx) m p q K
    (fun M c M' hM hj hc hg hr => by
      obtain ⟨s, lt⟩ := refineId_St hM hj hc (ax := .time) hg hr
      exact ⟨s, lt_of_le_of_lt hj.cnt lt⟩)
    (fun M c M' hM hj hc hg hr => by
      obtain ⟨s, lt⟩ := refineId_St hM hj hc (ax := .space) hg hr
      exact ⟨s, lt_of_le_of_lt hj.cnt lt⟩)
    (fun _ hj => hj.1)
    (fun c hc hm => T.time (hu c hc) (hund c hc) hm)
    (fun M c c' hM hj hc hm hf => by
      obtain ⟨hc', hid⟩ := findLeaf_some hf
      have hlt : c'.id < m.nElems := hid ▸ h.ids.2 c hc
      rcases hj.fresh c' hc' with hold | hnew
      · have : c' = c := h.ids.id_inj hold hc hid
        subst this
        exact T.space (hu c' hc) (hund c' hc) hm
      · omega)
    h hst
  refine ⟨r, h1, i1, ?_⟩
  rcases fin with ⟨e, _⟩ | ⟨e, hj, hlt⟩
  · exact Or.inl e
  · refine Or.inr ⟨e, hj.uni, hj.und, ?_⟩
    have := hj.pot
    omega

/-- the repaired grading loop terminates once the fuel exceeds the potential -/
theorem grading_terminates_of_target {Ht Hx : Rat} {p q : Nat} {K : Rat} {Lt Lx : Nat}
    (T : Target Ht Hx p q K Lt Lx) (fuel : Nat) :
    ∀ {m : Mesh}, Inv m → Uniform Ht Hx m → Under Lt Lx m → pot Lt Lx m < fuel →
      ∃ m', grading true fuel m p q K = .ok m' := by
  induction fuel with
  | zero => intro m _ _ _ h; omega
  | succ fuel ih =>
    intro m h hu hund hp
    obtain ⟨r, h1, i1, fin⟩ := gradeSweep_St T h hu hund
    rw [grading]
    simp only [bind, Except.bind, pure, Except.pure, h1]
    rcases fin with e | ⟨e, u1, d1, p1⟩
    · rw [e]
      exact ⟨r.1, by simp⟩
    · rw [e]
      simp only [if_true]
      exact ih i1 u1 d1 (by omega)

/-! ### existence of a target (`K² > 2`, `p, q ≥ 1`) -/

theorem exists_two_pow_gt (x : Rat) (B : Nat) {p : Nat} (hp : 1 ≤ p) :
    ∃ L, B ≤ L ∧ x < (2 : Rat) ^ (L * p) := by
  obtain ⟨n, hn⟩ := exists_nat_gt x
  refine ⟨max n B, le_max_right _ _, ?_⟩
  have h1 : (n : Rat) ≤ (max n B : Nat) := by exact_mod_cast le_max_left n B
  have h2 : ((max n B : Nat) : Rat) < (2 : Rat) ^ (max n B) := by
    exact_mod_cast Nat.lt_two_pow_self
  have h3 : (2 : Rat) ^ (max n B) ≤ (2 : Rat) ^ (max n B * p) :=
    pow_le_pow_right₀ (by norm_num) (Nat.le_mul_of_pos_right _ hp)
  linarith

/-- the cross-multiplied window conditions -/
theorem target_of_cross {Ht Hx : Rat} {p q : Nat} {K : Rat} {Lt Lx : Nat} (hHt : 0 < Ht)
    (hHx : 0 < Hx) (hK : 0 < K)
    (h1 : Ht ^ q * 2 ^ (Lx * p) < Hx ^ p * 2 ^ (Lt * q) * K ^ q)
    (h2 : Hx ^ p * 2 ^ (Lt * q) < K ^ q * Ht ^ q * 2 ^ (Lx * p)) :
    Target Ht Hx p q K Lt Lx := by
  refine ⟨hHt, hHx, hK, ?_, ?_⟩
  · rw [div_pow, div_pow, div_pow, ← pow_mul, ← pow_mul, div_div, div_lt_div_iff₀ (by positivity)
      (by positivity)]
    linarith
  · rw [div_pow, mul_pow, div_pow, ← pow_mul, ← pow_mul, mul_div_assoc', div_lt_div_iff₀ (by positivity)
      (by positivity)]
    linarith

theorem exists_target {Ht Hx : Rat} (hHt : 0 < Ht) (hHx : 0 < Hx) {p q : Nat} (hp : 1 ≤ p)
    (hq : 1 ≤ q) {K : Rat} (hK : 0 < K) (hK2 : 2 < K * K) (A B : Nat) :
    ∃ Lt Lx, A ≤ Lt ∧ B ≤ Lx ∧ Target Ht Hx p q K Lt Lx := by
  have ha : 0 < Hx ^ p := by positivity
  have hb : 0 < Ht ^ q := by positivity
  have hk : 0 < K ^ q := by positivity
  -- space level: not space-marked at time level `A`
  obtain ⟨Lx, hLx, hX⟩ := exists_two_pow_gt (Hx ^ p * 2 ^ (A * q) / (K ^ q * Ht ^ q)) B hp
  rw [div_lt_iff₀ (by positivity)] at hX
  -- time level: first one that is not time-marked
  have hex : ∃ j, Ht ^ q * 2 ^ (Lx * p) < Hx ^ p * 2 ^ ((A + j) * q) * K ^ q := by
    obtain ⟨j, _, hj⟩ := exists_two_pow_gt (Ht ^ q * 2 ^ (Lx * p) / (Hx ^ p * K ^ q)) 0 hq
    rw [div_lt_iff₀ (by positivity)] at hj
    refine ⟨j, ?_⟩
    have h3 : (2 : Rat) ^ (j * q) ≤ (2 : Rat) ^ ((A + j) * q) :=
      pow_le_pow_right₀ (by norm_num) (Nat.mul_le_mul_right _ (Nat.le_add_left _ _))
    have h4 : 2 ^ (j * q) * (Hx ^ p * K ^ q) ≤ 2 ^ ((A + j) * q) * (Hx ^ p * K ^ q) :=
      mul_le_mul_of_nonneg_right h3 (by positivity)
    linarith
  classical
  have hfind := Nat.find_spec hex
  have hmin := fun j => Nat.find_min hex (m := j)
  generalize Nat.find hex = j at hfind hmin
  refine ⟨A + j, Lx, Nat.le_add_right _ _, hLx, target_of_cross hHt hHx hK hfind ?_⟩
  cases j with
  | zero => simpa using (by linarith : Hx ^ p * 2 ^ (A * q) < K ^ q * Ht ^ q * 2 ^ (Lx * p))
  | succ j =>
    have hprev := hmin j (Nat.lt_succ_self _)
    rw [not_lt] at hprev
    have e : (2 : Rat) ^ ((A + (j + 1)) * q) = 2 ^ ((A + j) * q) * 2 ^ q := by
      rw [← pow_add]; congr 1; ring
    rw [e]
    have h2q : (2 : Rat) ^ q < K ^ q * K ^ q := by
      rw [← mul_pow]
      exact pow_lt_pow_left₀ hK2 (by norm_num) (by omega)
    have hbX : 0 < Ht ^ q * 2 ^ (Lx * p) := by positivity
    have s1 : Hx ^ p * 2 ^ ((A + j) * q) * K ^ q * 2 ^ q ≤ Ht ^ q * 2 ^ (Lx * p) * 2 ^ q :=
      mul_le_mul_of_nonneg_right hprev (by positivity)
    have s2 : Ht ^ q * 2 ^ (Lx * p) * 2 ^ q < Ht ^ q * 2 ^ (Lx * p) * (K ^ q * K ^ q) :=
      mul_lt_mul_of_pos_left h2q hbX
    have s3 : Hx ^ p * (2 ^ ((A + j) * q) * 2 ^ q) * K ^ q < K ^ q * Ht ^ q * 2 ^ (Lx * p) * K ^ q := by
      linarith
    exact lt_of_mul_lt_mul_right s3 (le_of_lt hk)

theorem exists_bound (f : Cell → Nat) (l : List Cell) : ∃ A, ∀ c ∈ l, f c ≤ A := by
  induction l with
  | nil => exact ⟨0, by simp⟩
  | cons a l ih =>
    obtain ⟨A, hA⟩ := ih
    refine ⟨max (f a) A, ?_⟩
    intro c hc
    rcases List.mem_cons.mp hc with rfl | hc
    · exact le_max_left _ _
    · exact le_trans (hA c hc) (le_max_right _ _)

/-- **Termination**: on a size-uniform mesh the repaired grading loop returns for a suitable fuel -/
theorem grading_terminates' {m : Mesh} (h : Inv m) {Ht Hx : Rat} (hHt : 0 < Ht) (hHx : 0 < Hx)
    (hu : Uniform Ht Hx m) {p q : Nat} (hp : 1 ≤ p) (hq : 1 ≤ q) {K : Rat} (hK : 0 < K)
    (hK2 : 2 < K * K) : ∃ fuel m', grading true fuel m p q K = .ok m' := by
  obtain ⟨A, hA⟩ := exists_bound (fun c => c.lt) m.leaves
  obtain ⟨B, hB⟩ := exists_bound (fun c => c.lx) m.leaves
  obtain ⟨Lt, Lx, hLt, hLx, T⟩ := exists_target hHt hHx hp hq hK hK2 A B
  have hund : Under Lt Lx m := fun c hc => ⟨le_trans (hA c hc) hLt, le_trans (hB c hc) hLx⟩
  exact ⟨pot Lt Lx m + 1, grading_terminates_of_target T _ h hu hund (Nat.lt_succ_self _)⟩

/-! ### uniform meshes: the initial mesh with equidistant grids; preservation -/

theorem refineId_uniform {m : Mesh} (h : Inv m) {Ht Hx : Rat} (hu : Uniform Ht Hx m) {id : Nat}
    {ax : Ax} {m' : Mesh} (hr : refineId m id ax = .ok m') : Uniform Ht Hx m' := by
  obtain ⟨c, hc, rfl, _⟩ := refineId_res_of_ok h hr
  obtain ⟨M1, pre, h1⟩ := refineId_trace h hc ax
  rw [hr] at h1
  injection h1 with h1
  subst h1
  have step : ∀ X d, Uniform Ht Hx X → d ∈ X.leaves → Uniform Ht Hx (bisect X d ax) := by
    intro X d hX hd l hl
    rcases mem_bisect_imp hl with h1 | hch
    · exact hX l h1
    · exact hch.size (hX d hd)
  exact step _ _ (pre.bis.pres (Uniform Ht Hx) (fun X d hX hd _ => step X d hX hd) hu) pre.mem

/-- all consecutive differences equal `H` -/
def Equidistant (H : Rat) (X : List Rat) : Prop := ∀ p ∈ pairs X, p.2 - p.1 = H

theorem init_uniform (glue : Bool) {X T : List Rat} {Ht Hx : Rat} (hX : Equidistant Hx X)
    (hT : Equidistant Ht T) : Uniform Ht Hx (init glue X T) := by
  intro c hc
  have hleaves : (init glue X T).leaves =
      init.number 0 ((pairs T).flatMap fun tp => (pairs X).map fun xp => (tp, xp)) := rfl
  rw [hleaves] at hc
  obtain ⟨q, hq, j, rfl, _, _⟩ := number_mem hc
  simp only [List.mem_flatMap, List.mem_map] at hq
  obtain ⟨tp, htp, xp, hxp, rfl⟩ := hq
  simp only [mkCell, pow_zero, div_one]
  exact ⟨hT tp htp, hX xp hxp⟩

end Stbem.Mesh
