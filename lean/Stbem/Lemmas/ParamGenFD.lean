import Stbem.Lemmas.ParamGenPolygon

/-!
# The constructor's finite-difference arc-length test holds for polygons whose sample points stay clear of the corners
-/
namespace Stbem.ParamTie
open Stbem.Gen.ParamGen
open Stbem.Param
open Stbem.SL (Piece absR distSq)
open Stbem.Mesh (pairs)

theorem h_pos : (0 : Rat) < c_1e_m5 := by decide +kernel

theorem evalCurve_ok_evalPt {c : Curve} {y : Rat} {p : Pt} (h : evalCurve c y = .ok p) :
    evalCurve c y = .ok (evalPt c y) ∧ p = evalPt c y := by
  by_cases hy : 0 ≤ y ∧ y ≤ c.length
  · have := evalCurve_in hy
    rw [this] at h
    exact ⟨this, (Except.ok.inj h).symm⟩
  · rw [evalCurve_out hy] at h; cases h

theorem zipWith_map_all {α β γ : Type} (f : α → β) (g : α → γ) (r : β → γ → Bool) :
    ∀ (xs : List α), (List.zipWith r (xs.map f) (xs.map g)).all id = xs.all fun x => r (f x) (g x) := by
  intro xs
  induction xs with
  | nil => rfl
  | cons x xs ih => simp only [List.map_cons, List.zipWith_cons_cons, List.all_cons, id, ih]

/-- a unit-speed straight piece passes the speed test exactly: the central difference IS the unit direction -/
theorem speedOK_piece {g : Piece} (hg : g.dx ^ 2 + g.dy ^ 2 = 1) (x : Rat) :
    speedOK (g.at (x + c_1e_m5)) (g.at (x - c_1e_m5)) = true := by
  have h2 : (2 : Rat) * c_1e_m5 ≠ 0 := two_h_ne
  have e1 : ((g.at (x + c_1e_m5)).1 - (g.at (x - c_1e_m5)).1) / ((2 : Rat) * c_1e_m5) = g.dx := by
    rw [div_eq_iff h2]; simp only [Piece.at]; ring
  have e2 : ((g.at (x + c_1e_m5)).2 - (g.at (x - c_1e_m5)).2) / ((2 : Rat) * c_1e_m5) = g.dy := by
    rw [div_eq_iff h2]; simp only [Piece.at]; ring
  unfold speedOK
  rw [e1, e2, show g.dx * g.dx + g.dy * g.dy = 1 by rw [← hg]; ring]
  decide +kernel

/-- **the arc-length self check of `PiecewiseParametrization.__init__` is discharged for polygons**: if every one of the 50
sample points `x` has `[x - h, x + h]` (`h = 1e-5`) inside the parameter range of one piece, the test passes -/
theorem fdOK_of_clear {vs : List Pt} {closed : Bool} {c : Curve} (h : polygon vs closed = .ok c)
    (hclear : ∀ x ∈ fdSamples c.length, ∃ q ∈ c.segs, q.1.1 ≤ x - c_1e_m5 ∧ x + c_1e_m5 ≤ q.1.2) : fdOK c = true := by
  obtain ⟨pw, hpw, _, hs⟩ := polygon_spec h
  have hp := h_pos
  have key : ∀ x ∈ fdSamples c.length, ∃ g : Piece, g.dx ^ 2 + g.dy ^ 2 = 1 ∧
      evalCurve c (x + c_1e_m5) = .ok (g.at (x + c_1e_m5)) ∧ evalCurve c (x - c_1e_m5) = .ok (g.at (x - c_1e_m5)) := by
    intro x hx
    obtain ⟨q, hq, h1, h2⟩ := hclear x hx
    have hq' : q ∈ segsOf (0 :: pw) c.pieces := by
      have := hq; unfold Curve.segs at this; rw [hpw] at this; exact this
    refine ⟨q.2, (hs.segs q hq').2.2, ?_, ?_⟩
    · exact evalCurve_eq hpw hs hq (by linarith) h2
    · exact evalCurve_eq hpw hs hq h1 (by linarith)
  unfold fdOK
  rw [List.mapM_map, List.mapM_map]
  rw [mapM_ok_of_forall _ (fun x => evalPt c (x + c_1e_m5)) _ (fun x hx => by
      obtain ⟨g, _, h1, _⟩ := key x hx
      exact (evalCurve_ok_evalPt h1).1),
    mapM_ok_of_forall _ (fun x => evalPt c (x - c_1e_m5)) _ (fun x hx => by
      obtain ⟨g, _, _, h2⟩ := key x hx
      exact (evalCurve_ok_evalPt h2).1)]
  simp only
  rw [zipWith_map_all, List.all_eq_true]
  intro x hx
  obtain ⟨g, hg, h1, h2⟩ := key x hx
  rw [← (evalCurve_ok_evalPt h1).2, ← (evalCurve_ok_evalPt h2).2]
  exact speedOK_piece hg x

end Stbem.ParamTie
