import Stbem.Gen.QuadtreeGen
import Stbem.Lemmas.QuadtreeOps

/-!
# Abstraction from the state of the code regenerated from `src/initial_mesh.py` to the hand-written quadtree model

`absMesh g` forgets the three dictionaries and the vertex indices: elements become their squares
(`x0, y0` = coordinates of `vertices[0]`, `size` = `vertices[1].x - vertices[0].x`), vertices their coordinates.
The child position `pos` of the hand model (not a field of the Python object) is recovered from the identity: the
children of a refinement are appended four at a time after the roots, so `pos = (id - #roots) mod 4`.
-/
namespace Stbem.QuadtreeTie
open Stbem.Quadtree Stbem.Gen

abbrev GMesh := QuadtreeGen.InitialMesh
abbrev GElem := QuadtreeGen.Element
abbrev Vtx := QuadtreeGen.Vtx

/-- the square of an element object -/
def absElem (n : Nat) (e : GElem) : Elem :=
  { x0 := e.v0.x, y0 := e.v0.y, size := e.v1.x - e.v0.x, level := e.level, id := e.id, par := e.parent,
    pos := if e.parent.isNone then 4 else (e.id - n) % 4 }

/-- number of root elements -/
def nRoots (g : GMesh) : Nat := (g.elements.filter fun e => e.parent.isNone).length

/-- the state of the hand model that a state of the generated code stands for -/
def absMesh (g : GMesh) : QT :=
  { elems := g.elements.map (absElem (nRoots g)),
    leaves := g.leaf_elements.map (absElem (nRoots g)),
    verts := g.vertices.map (·.xy) }

/-- the element object is the axis-parallel square that `Element.__init__` asserts -/
structure Shaped (e : GElem) : Prop where
  y01 : e.v0.y = e.v1.y
  x12 : e.v1.x = e.v2.x
  y23 : e.v2.y = e.v3.y
  x30 : e.v3.x = e.v0.x
  sq : e.v1.x - e.v0.x = e.v3.y - e.v0.y
  pos : e.v0.x < e.v2.x

/-- every `Vertex` carries its position in `InitialMesh.vertices` -/
def VIdx (g : GMesh) : Prop := ∀ (i : Nat) (v : Vtx), g.vertices[i]? = some v → v.idx = i

/-! ### `vertex_from_coords` -/

theorem vfc_step_hit_none (x y : Rat) (v : Vtx) (hx : v.x = x) (hy : v.y = y) :
    QuadtreeGen.InitialMesh_vertex_from_coords_loop1 (x, y) none v = .ok (some v) := by
  simp [QuadtreeGen.InitialMesh_vertex_from_coords_loop1, QuadtreeGen.isclose, QuadtreeGen.coord, hx, hy,
    QuadtreeGen.assertThat, bind, Except.bind, pure, Except.pure]

theorem vfc_step_hit_some (x y : Rat) (v r : Vtx) (hx : v.x = x) (hy : v.y = y) :
    QuadtreeGen.InitialMesh_vertex_from_coords_loop1 (x, y) (some r) v = .error "assert:vertex-twice" := by
  simp [QuadtreeGen.InitialMesh_vertex_from_coords_loop1, QuadtreeGen.isclose, QuadtreeGen.coord, hx, hy,
    QuadtreeGen.assertThat, bind, Except.bind]

theorem vfc_step_miss (x y : Rat) (v : Vtx) (res : Option Vtx) (h : ¬ (v.x = x ∧ v.y = y)) :
    QuadtreeGen.InitialMesh_vertex_from_coords_loop1 (x, y) res v = .ok res := by
  have : ¬ ((QuadtreeGen.isclose v.x (QuadtreeGen.coord (x, y) 0) = true) ∧
      (QuadtreeGen.isclose v.y (QuadtreeGen.coord (x, y) 1) = true)) := by
    simpa [QuadtreeGen.isclose, QuadtreeGen.coord] using h
  unfold QuadtreeGen.InitialMesh_vertex_from_coords_loop1
  rw [if_neg this]
  rfl

theorem vfc_loop (x y : Rat) : ∀ (l : List Vtx) (i : Nat) (res : Option Vtx),
    (∀ (j : Nat) (v : Vtx), l[j]? = some v → v.idx = i + j) →
    (fun r : Option Vtx => r.map (·.idx)) <$> l.foldlM (QuadtreeGen.InitialMesh_vertex_from_coords_loop1 (x, y)) res =
      vertexFromCoords.go x y i (res.map (·.idx)) (l.map (·.xy)) := by
  intro l
  induction l with
  | nil => intro i res _; rfl
  | cons v l ih =>
    intro i res h
    have hv : v.idx = i := by simpa using h 0 v rfl
    have hl : ∀ (j : Nat) (w : Vtx), l[j]? = some w → w.idx = (i + 1) + j := by
      intro j w hw
      have := h (j + 1) w (by simpa using hw)
      omega
    rw [List.foldlM_cons, List.map_cons, vertexFromCoords.go]
    by_cases hc : v.x = x ∧ v.y = y
    · have hc' : (v.xy).1 = x ∧ (v.xy).2 = y := hc
      rw [if_pos hc']
      cases res with
      | none =>
        rw [vfc_step_hit_none x y v hc.1 hc.2]
        have := ih (i + 1) (some v) hl
        simp only [Option.map_some, hv] at this
        simpa [bind, Except.bind] using this
      | some r =>
        rw [vfc_step_hit_some x y v r hc.1 hc.2]
        rfl
    · have hc' : ¬ ((v.xy).1 = x ∧ (v.xy).2 = y) := hc
      rw [if_neg hc', vfc_step_miss x y v res hc]
      simpa [bind, Except.bind] using ih (i + 1) res hl

/-- `InitialMesh.vertex_from_coords(xy)` regenerated from the source returns the vertex whose index the hand model
reports (same assertion) -/
theorem vertex_from_coords_eq_aux (g : GMesh) (hv : VIdx g) (x y : Rat) :
    (fun r : Option Vtx => r.map (·.idx)) <$> QuadtreeGen.InitialMesh_vertex_from_coords g (x, y) =
      vertexFromCoords (absMesh g) x y := by
  unfold QuadtreeGen.InitialMesh_vertex_from_coords vertexFromCoords
  have := vfc_loop x y g.vertices 0 none (by intro j v h; simpa using hv j v h)
  simpa [absMesh, bind, Except.bind, pure, Except.pure] using this

end Stbem.QuadtreeTie
