import Stbem.Lemmas.QuadtreeGenScan

/-!
# `refine_msh_bdr` and `uniform_refine` regenerated from the source, relative to `refine`

`RefineSim I` is the statement that is NOT proved in general (it is validated by the generated twins of the C16
correspondence, and evaluated by the kernel on closed examples in `Props/QuadtreeTie.lean`): there is an invariant `I`
of the generated state (coherence of the three dictionaries keyed by vertex pairs with the geometry) under which one
call of the generated `refine` is one call of the hand model's `refine` on the abstracted state.  Everything around it
-- the scan of `refine_msh_bdr`, its end-point sorting, axis selection, `while True` loop, and `uniform_refine` -- is
proved here for all inputs relative to it.
-/
namespace Stbem.QuadtreeTie
open Stbem.Quadtree Stbem.Gen

structure RefineSim (I : GMesh → Prop) : Prop where
  shaped : ∀ g, I g → ∀ e ∈ g.elements, Shaped e
  ids : ∀ g, I g → IdsOK (absMesh g)
  leaves : ∀ g, I g → ∀ e ∈ g.leaf_elements, e ∈ g.elements
  vidx : ∀ g, I g → VIdx g
  step : ∀ g, I g → ∀ e ∈ g.elements,
    (fun r : GMesh × List GElem => absMesh r.1) <$> QuadtreeGen.refineCall g e =
      refine (e.level + 1) (absMesh g) (absElem (nRoots g) e)
  pres : ∀ g, I g → ∀ e ∈ g.elements, ∀ r, QuadtreeGen.refineCall g e = .ok r →
    I r.1 ∧ nRoots r.1 = nRoots g ∧ (∀ c ∈ g.elements, c ∈ r.1.elements) ∧ (∀ c ∈ r.2, c ∈ r.1.elements) ∧
    r.2.map (absElem (nRoots r.1)) = lastChildren (absMesh r.1)

/-! ### where the scan state comes from -/

theorem loop3_from (v0 v1 : Rat × Rat) (eps : Rat) (a na : Nat) (e : GElem) (st st' : Option GElem × Option GElem)
    (p : QuadtreeGen.Edge) (h : QuadtreeGen.InitialMesh_refine_msh_bdr_loop3 v0 v1 eps a na e st p = .ok st') :
    (st'.1 = st.1 ∨ st'.1 = some e) ∧ (st'.2 = st.2 ∨ st'.2 = some e) := by
  unfold QuadtreeGen.InitialMesh_refine_msh_bdr_loop3 at h
  simp only [QuadtreeGen.assertThat, bind, Except.bind, pure, Except.pure] at h
  rcases st with ⟨r, q⟩
  cases r with
  | some r => simp at h; subst h; simp
  | none =>
    simp only [Option.isSome_none, Bool.false_eq_true, if_false] at h
    split_ifs at h <;> (injection h with h; subst h; simp)

theorem foldlM_from {α : Type} (f : Option GElem × Option GElem → α → Except String (Option GElem × Option GElem))
    (P : GElem → Prop) : ∀ (l : List α),
    (∀ st, ∀ a ∈ l, ∀ st', f st a = .ok st' →
      (∀ x, st'.1 = some x → st.1 = some x ∨ P x) ∧ (∀ x, st'.2 = some x → st.2 = some x ∨ P x)) →
    ∀ (st st' : Option GElem × Option GElem), l.foldlM f st = .ok st' →
      (∀ x, st'.1 = some x → st.1 = some x ∨ P x) ∧ (∀ x, st'.2 = some x → st.2 = some x ∨ P x) := by
  intro l
  induction l with
  | nil =>
    intro _ st st' h
    cases h
    exact ⟨fun x hx => Or.inl hx, fun x hx => Or.inl hx⟩
  | cons a l ih =>
    intro hf st st' h
    rw [List.foldlM_cons] at h
    cases h1 : f st a with
    | error e => rw [h1] at h; cases h
    | ok s1 =>
      rw [h1] at h
      obtain ⟨a1, a2⟩ := hf st a (by simp) s1 h1
      obtain ⟨b1, b2⟩ := ih (fun st b hb => hf st b (by simp [hb])) s1 st' h
      refine ⟨fun x hx => ?_, fun x hx => ?_⟩
      · rcases b1 x hx with h' | h'
        · exact a1 x h'
        · exact Or.inr h'
      · rcases b2 x hx with h' | h'
        · exact a2 x h'
        · exact Or.inr h'

theorem loop2_from (v0 v1 : Rat × Rat) (eps : Rat) (a na : Nat) (st : Option GElem × Option GElem) (e : GElem)
    (st' : Option GElem × Option GElem) (h : QuadtreeGen.InitialMesh_refine_msh_bdr_loop2 v0 v1 eps a na st e = .ok st') :
    (∀ x, st'.1 = some x → st.1 = some x ∨ x = e) ∧ (∀ x, st'.2 = some x → st.2 = some x ∨ x = e) := by
  unfold QuadtreeGen.InitialMesh_refine_msh_bdr_loop2 at h
  by_cases hr : st.1.isSome = true
  · rw [if_pos hr] at h
    cases h
    exact ⟨fun x hx => Or.inl hx, fun x hx => Or.inl hx⟩
  · rw [if_neg hr] at h
    cases h2 : (QuadtreeGen.Element_edges e).foldlM (QuadtreeGen.InitialMesh_refine_msh_bdr_loop3 v0 v1 eps a na e) st with
    | error err => rw [h2] at h; cases h
    | ok s2 =>
      rw [h2] at h
      cases h
      refine foldlM_from _ (fun x => x = e) _ ?_ st _ h2
      intro s p _ s' hs
      obtain ⟨c1, c2⟩ := loop3_from v0 v1 eps a na e s s' p hs
      refine ⟨fun x hx => ?_, fun x hx => ?_⟩
      · rcases c1 with c | c
        · left; rw [← c]; exact hx
        · right; rw [c] at hx; injection hx with hx; exact hx.symm
      · rcases c2 with c | c
        · left; rw [← c]; exact hx
        · right; rw [c] at hx; injection hx with hx; exact hx.symm

theorem scan_from (v0 v1 : Rat × Rat) (eps : Rat) (a na : Nat) (cs : List GElem) (st' : Option GElem × Option GElem)
    (h : cs.foldlM (QuadtreeGen.InitialMesh_refine_msh_bdr_loop2 v0 v1 eps a na) (none, none) = .ok st') :
    (∀ x, st'.1 = some x → x ∈ cs) ∧ (∀ x, st'.2 = some x → x ∈ cs) := by
  have := foldlM_from _ (fun x => x ∈ cs) cs (fun st el ha st' hs => ?_) (none, none) st' h
  · exact ⟨fun x hx => (this.1 x hx).resolve_left (by simp), fun x hx => (this.2 x hx).resolve_left (by simp)⟩
  · obtain ⟨c1, c2⟩ := loop2_from v0 v1 eps a na st el st' hs
    refine ⟨fun x hx => ?_, fun x hx => ?_⟩
    · rcases c1 x hx with c | c
      · exact Or.inl c
      · exact Or.inr (c ▸ ha)
    · rcases c2 x hx with c | c
      · exact Or.inl c
      · exact Or.inr (c ▸ ha)

/-! ### the `while True` loop -/

theorem map_error {α β : Type} (f : α → β) {x : Except String α} {y : Except String β} {e : String}
    (h : f <$> x = y) (hx : x = .error e) : y = .error e := by
  rw [← h, hx]; rfl

theorem map_ok {α β : Type} (f : α → β) {x : Except String α} {y : Except String β} {a : α}
    (h : f <$> x = y) (hx : x = .ok a) : y = .ok (f a) := by
  rw [← h, hx]; rfl

/-- the loop `while True` of the generated `refine_msh_bdr` is `bdrLoop` of the hand model, relative to `refine` -/
theorem bdr_while_eq {I : GMesh → Prop} (hI : RefineSim I) (v0 v1 : Rat × Rat) (b : Bool)
    (hs : coord v0 (!b) ≤ coord v1 (!b)) : ∀ (fuel : Nat) (g : GMesh) (cs : List GElem), I g →
    (∀ e ∈ cs, e ∈ g.elements) →
    (fun r : GMesh × GElem => (absMesh r.1, absElem (nRoots r.1) r.2)) <$>
        QuadtreeGen.InitialMesh_refine_msh_bdr_while v0 v1 0 (ax b) (ax (!b)) fuel g cs =
      bdrLoop v0 v1 b fuel (absMesh g) (cs.map (absElem (nRoots g))) := by
  intro fuel
  induction fuel with
  | zero => intro g cs _ _; rfl
  | succ fuel ih =>
    intro g cs hg hcs
    rw [QuadtreeGen.InitialMesh_refine_msh_bdr_while, bdrLoop]
    have hsc := scan_eq (nRoots g) v0 v1 b hs cs (none, none) (fun e he => hI.shaped g hg e (hcs e he))
    obtain ⟨st', h1, h2⟩ := ok_of_map_ok hsc
    have hfrom := scan_from v0 v1 0 (ax b) (ax (!b)) cs st' h1
    have h2' : scan v0 v1 b (cs.map (absElem (nRoots g))) = absScan (nRoots g) st' := h2.symm
    simp only [h1, h2', bind, Except.bind]
    rcases st' with ⟨r, p⟩
    cases r with
    | some ret => rfl
    | none =>
      cases p with
      | none => rfl
      | some parent =>
        have hp : parent ∈ g.elements := hcs parent (hfrom.2 parent rfl)
        have hstep := hI.step g hg parent hp
        simp only [absScan, Option.map_none, Option.map_some]
        cases hr : QuadtreeGen.refineCall g parent with
        | error e =>
          have := map_error _ hstep hr
          simp only [absElem] at this ⊢
          rw [this]
          rfl
        | ok r =>
          have := map_ok _ hstep hr
          obtain ⟨q1, q2, _, q4, q5⟩ := hI.pres g hg parent hp r hr
          simp only [absElem] at this ⊢
          rw [this]
          simp only []
          rw [← q5]
          exact ih r.1 r.2 q1 q4

/-- the invariant survives the loop -/
theorem bdr_while_inv {I : GMesh → Prop} (hI : RefineSim I) (v0 v1 : Rat × Rat) (eps : Rat) (a na : Nat) :
    ∀ (fuel : Nat) (g : GMesh) (cs : List GElem), I g → (∀ e ∈ cs, e ∈ g.elements) → ∀ r,
    QuadtreeGen.InitialMesh_refine_msh_bdr_while v0 v1 eps a na fuel g cs = .ok r → I r.1 := by
  intro fuel
  induction fuel with
  | zero => intro g cs _ _ r h; cases h
  | succ fuel ih =>
    intro g cs hg hcs r h
    rw [QuadtreeGen.InitialMesh_refine_msh_bdr_while] at h
    cases h1 : cs.foldlM (QuadtreeGen.InitialMesh_refine_msh_bdr_loop2 v0 v1 eps a na) (none, none) with
    | error e => rw [h1] at h; cases h
    | ok st' =>
      have hfrom := scan_from v0 v1 eps a na cs st' h1
      rw [h1] at h
      simp only [bind, Except.bind] at h
      rcases st' with ⟨ret, p⟩
      cases ret with
      | some ret => injection h with h; subst h; exact hg
      | none =>
        cases p with
        | none => cases h
        | some parent =>
          have hp : parent ∈ g.elements := hcs parent (hfrom.2 parent rfl)
          simp only [] at h
          cases hr : QuadtreeGen.refineCall g parent with
          | error e => rw [hr] at h; cases h
          | ok r1 =>
            rw [hr] at h
            obtain ⟨q1, _, _, q4, _⟩ := hI.pres g hg parent hp r1 hr
            exact ih r1.1 r1.2 q1 q4 r h

/-! ### `refine_msh_bdr` -/

theorem axis_fold (v0 v1 : Rat × Rat) :
    (List.range 2).foldlM (QuadtreeGen.InitialMesh_refine_msh_bdr_loop1 v0 v1) none =
      .ok (if v0.2 = v1.2 then some 1 else if v0.1 = v1.1 then some 0 else none) := by
  have : List.range 2 = [0, 1] := rfl
  rw [this]
  simp only [List.foldlM_cons, List.foldlM_nil, QuadtreeGen.InitialMesh_refine_msh_bdr_loop1, QuadtreeGen.coord]
  by_cases h1 : v0.1 = v1.1 <;> by_cases h2 : v0.2 = v1.2 <;> simp [h1, h2, bind, Except.bind, pure, Except.pure]

theorem lexLe_total (a b : Rat × Rat) (h : ¬ lexLe a b = true) : lexLe b a = true := by
  simp only [lexLe, decide_eq_true_eq, not_or, not_and, not_lt, not_le] at h ⊢
  obtain ⟨h1, h2⟩ := h
  rcases lt_or_eq_of_le h1 with h3 | h3
  · exact Or.inl h3
  · exact Or.inr ⟨h3, le_of_lt (h2 h3.symm)⟩

theorem bdr_sorted {I : GMesh → Prop} (hI : RefineSim I) (fuel : Nat) (g : GMesh) (hg : I g) (v0 v1 : Rat × Rat)
    (hle : lexLe v0 v1 = true) :
    (fun r : GMesh × GElem => (absMesh r.1, absElem (nRoots r.1) r.2)) <$>
        ((List.range 2).foldlM (QuadtreeGen.InitialMesh_refine_msh_bdr_loop1 v0 v1) none >>= fun axis =>
          match axis with
          | none => .error "assert:axis"
          | some axis => QuadtreeGen.InitialMesh_refine_msh_bdr_while v0 v1 0 axis (QuadtreeGen.notAxis axis) fuel g
              g.leaf_elements) =
      (if v0.2 = v1.2 then bdrLoop v0 v1 true fuel (absMesh g) (absMesh g).leaves
       else if v0.1 = v1.1 then bdrLoop v0 v1 false fuel (absMesh g) (absMesh g).leaves
       else .error "assert:axis") := by
  rw [axis_fold]
  simp only [lexLe, decide_eq_true_eq] at hle
  by_cases h2 : v0.2 = v1.2
  · rw [if_pos h2, if_pos h2]
    have hs : coord v0 (!true) ≤ coord v1 (!true) := by
      simp only [Bool.not_true, coord]
      rcases hle with h | h
      · exact le_of_lt h
      · exact le_of_eq h.1
    exact bdr_while_eq hI v0 v1 true hs fuel g g.leaf_elements hg (hI.leaves g hg)
  · rw [if_neg h2, if_neg h2]
    by_cases h1 : v0.1 = v1.1
    · rw [if_pos h1, if_pos h1]
      have hs : coord v0 (!false) ≤ coord v1 (!false) := by
        simp only [Bool.not_false, coord]
        rcases hle with h | h
        · exact absurd h1 (ne_of_lt h)
        · exact h.2
      exact bdr_while_eq hI v0 v1 false hs fuel g g.leaf_elements hg (hI.leaves g hg)
    · rw [if_neg h1, if_neg h1]
      rfl

/-- `refine_msh_bdr(v0, v1)` regenerated from the source (with `eps = 0`) is `refineMshBdr` of the hand model, relative
to `refine` -/
theorem gen_refine_msh_bdr_eq_rel {I : GMesh → Prop} (hI : RefineSim I) (fuel : Nat) (g : GMesh) (hg : I g)
    (a b : Rat × Rat) :
    (fun r : GMesh × GElem => (absMesh r.1, absElem (nRoots r.1) r.2)) <$>
        QuadtreeGen.InitialMesh_refine_msh_bdr fuel g a b 0 = refineMshBdr fuel (absMesh g) a b := by
  unfold QuadtreeGen.InitialMesh_refine_msh_bdr refineMshBdr
  by_cases hl : lexLe a b = true
  · have hg' : QuadtreeGen.lexGt a b = false := by simp [QuadtreeGen.lexGt, lexLe_eq, hl]
    simp only [hg', hl, if_true, Bool.false_eq_true, if_false]
    exact bdr_sorted hI fuel g hg a b hl
  · have hg' : QuadtreeGen.lexGt a b = true := by simpa [QuadtreeGen.lexGt, lexLe_eq] using hl
    simp only [hg', hl, if_true]
    exact bdr_sorted hI fuel g hg b a (lexLe_total a b hl)

theorem gen_refine_msh_bdr_inv {I : GMesh → Prop} (hI : RefineSim I) (fuel : Nat) (g : GMesh) (hg : I g)
    (a b : Rat × Rat) (eps : Rat) (r : GMesh × GElem)
    (h : QuadtreeGen.InitialMesh_refine_msh_bdr fuel g a b eps = .ok r) : I r.1 := by
  unfold QuadtreeGen.InitialMesh_refine_msh_bdr at h
  simp only [bind, Except.bind] at h
  split at h
  · cases h
  · split at h
    · cases h
    · exact bdr_while_inv hI _ _ eps _ _ fuel g g.leaf_elements hg (hI.leaves g hg) r h

/-! ### `uniform_refine` -/

/-- `uniform_refine()` regenerated from the source, for every enumeration `es` of elements of the mesh, is
`uniformRefine` of the hand model on their indices, relative to `refine` -/
theorem gen_uniform_refine_eq_rel {I : GMesh → Prop} (hI : RefineSim I) : ∀ (es : List GElem) (g : GMesh), I g →
    (∀ e ∈ es, e ∈ g.elements) →
    absMesh <$> QuadtreeGen.InitialMesh_uniform_refine g es = uniformRefine (absMesh g) (es.map (·.id)) := by
  intro es
  unfold QuadtreeGen.InitialMesh_uniform_refine uniformRefine
  induction es with
  | nil => intro g _ _; rfl
  | cons e es ih =>
    intro g hg hes
    have he : e ∈ g.elements := hes e (by simp)
    rw [List.foldlM_cons, List.map_cons, List.foldlM_cons]
    have hfind : findElem (absMesh g) e.id = some (absElem (nRoots g) e) :=
      findElem_of_mem (hI.ids g hg) (c := absElem (nRoots g) e) (List.mem_map_of_mem he)
    have hstep := hI.step g hg e he
    simp only [refineId, hfind, QuadtreeGen.InitialMesh_uniform_refine_loop1]
    cases hr : QuadtreeGen.refineCall g e with
    | error err =>
      have := map_error _ hstep hr
      simp only [absElem] at this ⊢
      rw [this]
      rfl
    | ok r =>
      have := map_ok _ hstep hr
      obtain ⟨q1, _, q3, _, _⟩ := hI.pres g hg e he r hr
      simp only [absElem] at this ⊢
      rw [this]
      exact ih r.1 q1 (fun c hc => q3 c (hes c (by simp [hc])))

end Stbem.QuadtreeTie
