import Stbem.Lemmas.QuadtreeCoherentTail
import Stbem.Lemmas.QuadtreeRefine

/-!
# The dictionaries of the generated state, read geometrically

Under `Coherent g` and `QInv (absMesh g)`: a directed edge (a pair of vertex objects of the mesh) whose coordinates are side
`t` of the square `T` is a key of `nbrs` iff an element is the square `T` (`nbrs_has`, `nbrs_get`), a key of `__bisect_edge`
iff that element is refined (`bis_has`).  These are the readings `findSq` / `bisected` of the hand model.
-/
namespace Stbem.QuadtreeTie
open Stbem.Quadtree Stbem.Gen
open QuadtreeGen (dictHas dictGet dictSet Element_edges)

/-- the square with lower left corner `(x, y)` and side `S` -/
def sq (x y S : Rat) : Elem := ⟨x, y, S, 0, 0, none, 4⟩

theorem edgePts_congr {c d : Elem} (hx : c.x0 = d.x0) (hy : c.y0 = d.y0) (hs : c.size = d.size) (s : Side) :
    edgePts c s = edgePts d s := by
  cases s <;> simp only [edgePts, hx, hy, hs]

/-- a directed edge determines the square on its left -/
theorem edgePts_inj {c d : Elem} (hc : 0 < c.size) (hd : 0 < d.size) {s' s : Side} (h : edgePts c s' = edgePts d s) :
    s' = s ∧ c.x0 = d.x0 ∧ c.y0 = d.y0 ∧ c.size = d.size := by
  cases s <;> cases s' <;> simp only [edgePts, Prod.mk.injEq] at h <;> obtain ⟨⟨h1, h2⟩, ⟨h3, h4⟩⟩ := h <;>
    first
    | (exfalso; linarith)
    | exact ⟨rfl, by linarith, by linarith, by linarith⟩

/-- the reversed edge is a side of the same-size square across -/
theorem edgePts_swap (c : Elem) (s : Side) :
    (edgePts c s).swap = edgePts (sq (nbrX c s) (nbrY c s) c.size) s.opp := by
  cases s <;> simp only [edgePts, Prod.swap, sq, nbrX, nbrY, Side.dx, Side.dy, Side.opp, Prod.mk.injEq] <;>
    refine ⟨⟨?_, ?_⟩, ⟨?_, ?_⟩⟩ <;> ring

theorem absElem_size_pos (n : Nat) {e : GElem} (h : Shaped e) : 0 < (absElem n e).size := by
  have h2 := h.x12; have h6 := h.pos
  simp only [absElem]; linarith

theorem mem_edges_iff (e : GElem) (q : QuadtreeGen.Edge) : q ∈ Element_edges e ↔ ∃ s, q = edgeOf e s := by
  rw [edges_eq]
  simp only [List.mem_map]
  constructor
  · rintro ⟨s, -, rfl⟩; exact ⟨s, rfl⟩
  · rintro ⟨s, rfl⟩; exact ⟨s, by cases s <;> simp [Side.all], rfl⟩

theorem edgeOf_mem (e : GElem) (s : Side) : edgeOf e s ∈ Element_edges e := (mem_edges_iff e _).mpr ⟨s, rfl⟩

theorem edgeOf_verts {g : GMesh} (hc : Coherent g) {e : GElem} (he : e ∈ g.elements) (s : Side) :
    (edgeOf e s).1 ∈ g.vertices ∧ (edgeOf e s).2 ∈ g.vertices := by
  obtain ⟨h0, h1, h2, h3⟩ := hc.everts e he
  cases s <;> simp only [edgeOf] <;> constructor <;> assumption

theorem mem_abs_elems {g : GMesh} {f : Elem} (h : f ∈ (absMesh g).elems) : ∃ P ∈ g.elements, absElem (nRoots g) P = f := by
  simpa [absMesh] using h

theorem abs_mem_elems {g : GMesh} {P : GElem} (h : P ∈ g.elements) : absElem (nRoots g) P ∈ (absMesh g).elems :=
  List.mem_map_of_mem h

/-- a leaf of the abstraction comes from a leaf -/
theorem abs_leaf_iff {g : GMesh} (hc : Coherent g) (hq : QInv (absMesh g)) {P : GElem} (hP : P ∈ g.elements) :
    absElem (nRoots g) P ∈ (absMesh g).leaves ↔ P ∈ g.leaf_elements := by
  constructor
  · intro h
    obtain ⟨l, hl, he⟩ : ∃ l ∈ g.leaf_elements, absElem (nRoots g) l = absElem (nRoots g) P := by
      simpa [absMesh] using h
    have : l = P := elem_inj_of_inv hq (hc.leaves_sub l hl) hP (by simpa [absElem] using congrArg Elem.id he)
    exact this ▸ hl
  · intro h; exact List.mem_map_of_mem h

/-- an element with the directed edge `(a, b)` is the square `T` on the left of that edge -/
theorem own1 {g : GMesh} (hc : Coherent g) (hq : QInv (absMesh g)) {P : GElem} (hP : P ∈ g.elements)
    {a b : Vtx} (hab : (a, b) ∈ Element_edges P) {T : Elem} (hT : 0 < T.size) {t : Side}
    (hpts : (a.xy, b.xy) = edgePts T t) :
    findSq (absMesh g) T.x0 T.y0 T.size = some (absElem (nRoots g) P) := by
  obtain ⟨s', hs'⟩ := (mem_edges_iff P _).mp hab
  have hsh := hc.shaped P hP
  have h1 := edgePts_abs (nRoots g) P hsh s'
  rw [← hs'] at h1
  simp only at h1
  rw [hpts] at h1
  obtain ⟨-, ex, ey, es⟩ := edgePts_inj (absElem_size_pos _ hsh) hT h1
  have hm := abs_mem_elems hP
  cases hf : findSq (absMesh g) T.x0 T.y0 T.size with
  | none => exact absurd ⟨ex, ey, es⟩ (findSq_none hf hm)
  | some f =>
    obtain ⟨hfm, fx, fy, fs⟩ := findSq_some hf
    rw [hq.forest.uniq_size hfm hm (by rw [fs, es]) (by rw [fx, ex]) (by rw [fy, ey])]

/-- the element that is the square `T` has the directed edge `(a, b)` if these are vertices at the end points of side `t` -/
theorem own2 {g : GMesh} (hc : Coherent g) (hq : QInv (absMesh g)) {T : Elem} {f : Elem}
    (hf : findSq (absMesh g) T.x0 T.y0 T.size = some f) {a b : Vtx} (ha : a ∈ g.vertices) (hb : b ∈ g.vertices)
    {t : Side} (hpts : (a.xy, b.xy) = edgePts T t) :
    ∃ P ∈ g.elements, absElem (nRoots g) P = f ∧ (a, b) = edgeOf P t := by
  obtain ⟨hfm, fx, fy, fs⟩ := findSq_some hf
  obtain ⟨P, hP, rfl⟩ := mem_abs_elems hfm
  refine ⟨P, hP, rfl, ?_⟩
  have h1 := edgePts_abs (nRoots g) P (hc.shaped P hP) t
  rw [edgePts_congr fx fy fs t, ← hpts] at h1
  obtain ⟨v1, v2⟩ := edgeOf_verts hc hP t
  simp only [Prod.mk.injEq] at h1
  have e1 := vinj_of_inv hq ha v1 h1.1
  have e2 := vinj_of_inv hq hb v2 h1.2
  exact Prod.ext e1 e2

/-- `(a, b) in self.nbrs`, geometrically -/
theorem nbrs_has {g : GMesh} (hc : Coherent g) (hq : QInv (absMesh g)) {a b : Vtx} (ha : a ∈ g.vertices)
    (hb : b ∈ g.vertices) {T : Elem} (hT : 0 < T.size) {t : Side} (hpts : (a.xy, b.xy) = edgePts T t) :
    dictHas g.nbrs (a, b) = (findSq (absMesh g) T.x0 T.y0 T.size).isSome := by
  cases hf : findSq (absMesh g) T.x0 T.y0 T.size with
  | some f =>
    obtain ⟨P, hP, -, hab⟩ := own2 hc hq hf ha hb hpts
    rw [hab]
    exact hc.nbrs_complete P hP _ (edgeOf_mem P t)
  | none =>
    cases hh : dictHas g.nbrs (a, b) with
    | false => rfl
    | true =>
      obtain ⟨P, -, hm⟩ := dictGet_of_has hh
      obtain ⟨h1, h2⟩ := hc.nbrs_sound _ hm
      have := own1 hc hq h1 h2 hT hpts
      rw [hf] at this
      cases this

/-- `self.nbrs[(a, b)]`, geometrically -/
theorem nbrs_get {g : GMesh} (hc : Coherent g) (hq : QInv (absMesh g)) {a b : Vtx} {T : Elem} (hT : 0 < T.size)
    {t : Side} (hpts : (a.xy, b.xy) = edgePts T t) {P : GElem} (h : dictGet g.nbrs (a, b) = .ok P) :
    P ∈ g.elements ∧ findSq (absMesh g) T.x0 T.y0 T.size = some (absElem (nRoots g) P) := by
  obtain ⟨h1, h2⟩ := hc.nbrs_sound _ (dictGet_ok h)
  exact ⟨h1, own1 hc hq h1 h2 hT hpts⟩

/-- `(a, b) in self.__bisect_edge`, geometrically -/
theorem bis_has {g : GMesh} (hc : Coherent g) (hq : QInv (absMesh g)) {a b : Vtx} (ha : a ∈ g.vertices)
    (hb : b ∈ g.vertices) {T : Elem} (hT : 0 < T.size) {t : Side} (hpts : (a.xy, b.xy) = edgePts T t) :
    dictHas g.bisect_edge (a, b) = true ↔
      ∃ f, findSq (absMesh g) T.x0 T.y0 T.size = some f ∧ f ∉ (absMesh g).leaves := by
  constructor
  · intro hh
    obtain ⟨p, hp, hk⟩ := (dictHas_iff _ _).mp hh
    obtain ⟨⟨P, hP, hnl, hed⟩, -, -⟩ := hc.bis_sound p hp
    rw [hk] at hed
    exact ⟨_, own1 hc hq hP hed hT hpts, fun hl => hnl ((abs_leaf_iff hc hq hP).mp hl)⟩
  · rintro ⟨f, hf, hnl⟩
    obtain ⟨P, hP, rfl, hab⟩ := own2 hc hq hf ha hb hpts
    rw [hab]
    exact hc.bis_complete P hP (fun hl => hnl ((abs_leaf_iff hc hq hP).mpr hl)) _ (edgeOf_mem P t)

/-- the edges of a leaf are not registered, those of a refined element are -/
theorem bis_has_own {g : GMesh} (hc : Coherent g) (hq : QInv (absMesh g)) {e : GElem} (he : e ∈ g.elements)
    (s : Side) : dictHas g.bisect_edge (edgeOf e s) = true ↔ e ∉ g.leaf_elements := by
  obtain ⟨v1, v2⟩ := edgeOf_verts hc he s
  have hsh := hc.shaped e he
  have hpts := (edgePts_abs (nRoots g) e hsh s).symm
  have := bis_has hc hq v1 v2 (absElem_size_pos _ hsh) hpts
  rw [show edgeOf e s = ((edgeOf e s).1, (edgeOf e s).2) from rfl, this]
  have hown := own1 hc hq he (edgeOf_mem e s) (absElem_size_pos (nRoots g) hsh) hpts
  constructor
  · rintro ⟨f, hf, hnl⟩ hl
    rw [hown] at hf
    injection hf with hf
    exact hnl (hf ▸ (abs_leaf_iff hc hq he).mpr hl)
  · intro hnl
    exact ⟨_, hown, fun hl => hnl ((abs_leaf_iff hc hq he).mp hl)⟩

/-- `(b, a) in self.__bisect_edge` for the edge `(a, b)` of `e` on side `s` is `bisected` of the hand model -/
theorem bis_rev {g : GMesh} (hc : Coherent g) (hq : QInv (absMesh g)) {e : GElem} (he : e ∈ g.elements) (s : Side) :
    dictHas g.bisect_edge ((edgeOf e s).2, (edgeOf e s).1) = bisected (absMesh g) (absElem (nRoots g) e) s := by
  obtain ⟨v1, v2⟩ := edgeOf_verts hc he s
  have hsh := hc.shaped e he
  have hpts : (((edgeOf e s).2).xy, ((edgeOf e s).1).xy) =
      edgePts (sq (nbrX (absElem (nRoots g) e) s) (nbrY (absElem (nRoots g) e) s) (absElem (nRoots g) e).size) s.opp := by
    rw [← edgePts_swap, edgePts_abs (nRoots g) e hsh s]; rfl
  have hT : 0 < (sq (nbrX (absElem (nRoots g) e) s) (nbrY (absElem (nRoots g) e) s) (absElem (nRoots g) e).size).size :=
    absElem_size_pos (nRoots g) hsh
  have := bis_has hc hq v2 v1 hT hpts
  simp only [sq] at this
  unfold bisected
  cases hf : findSq (absMesh g) (nbrX (absElem (nRoots g) e) s) (nbrY (absElem (nRoots g) e) s)
      (absElem (nRoots g) e).size with
  | none =>
    rw [hf] at this
    simp only [reduceCtorEq, false_and, exists_false, iff_false] at this
    simpa using this
  | some f =>
    rw [hf] at this
    simp only [Option.some.injEq, exists_eq_left'] at this
    by_cases hl : f ∈ (absMesh g).leaves
    · simp only [hl, not_true_eq_false, iff_false] at this
      simpa [hl] using this
    · simp only [hl, not_false_eq_true, iff_true] at this
      simpa [hl] using this

/-- `(b, a) in self.nbrs` for the edge `(a, b)` of `e` on side `s` -/
theorem nbrs_rev {g : GMesh} (hc : Coherent g) (hq : QInv (absMesh g)) {e : GElem} (he : e ∈ g.elements) (s : Side) :
    dictHas g.nbrs ((edgeOf e s).2, (edgeOf e s).1) =
      (findSq (absMesh g) (nbrX (absElem (nRoots g) e) s) (nbrY (absElem (nRoots g) e) s)
        (absElem (nRoots g) e).size).isSome := by
  obtain ⟨v1, v2⟩ := edgeOf_verts hc he s
  have hsh := hc.shaped e he
  have hpts : (((edgeOf e s).2).xy, ((edgeOf e s).1).xy) =
      edgePts (sq (nbrX (absElem (nRoots g) e) s) (nbrY (absElem (nRoots g) e) s) (absElem (nRoots g) e).size) s.opp := by
    rw [← edgePts_swap, edgePts_abs (nRoots g) e hsh s]; rfl
  have hT : 0 < (sq (nbrX (absElem (nRoots g) e) s) (nbrY (absElem (nRoots g) e) s) (absElem (nRoots g) e).size).size :=
    absElem_size_pos (nRoots g) hsh
  exact nbrs_has hc hq v2 v1 hT hpts

end Stbem.QuadtreeTie
