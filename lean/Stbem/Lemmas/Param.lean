import Stbem.Model.Param
import Stbem.Lemmas.MeshInit
import Mathlib.Tactic.FieldSimp
import Mathlib.Tactic.Linarith
import Mathlib.Tactic.Ring
import Mathlib.Algebra.Order.Field.Rat
import Mathlib.Algebra.Order.AbsoluteValue.Basic

/-!
# Axis-parallel polygons over ℚ: what `PiecewisePolygon.__init__` builds (`Stbem.Param.polygon`)

`Spec s vs gs pw` is the relational specification of the constructor loop started at arc length `s`:
piece by piece, the parameter range `[s, p]`, `x_start = s`, unit direction, exact end points, and
`p − s` = side length.  `polyGo_spec` proves it for every result of the model; the remaining lemmas
derive the list-level facts used in `Props/C18`.
-/

namespace Stbem.Param
open Stbem.SL (Piece absR distSq)
open Stbem.Mesh (pairs)

theorem absR_eq_abs (x : Rat) : absR x = |x| := by
  unfold absR
  split
  · rename_i h; rw [abs_of_neg h]
  · rename_i h; rw [abs_of_nonneg (not_lt.mp h)]

theorem axisNorm_spec {a b : Pt} {n : Rat} (h : axisNorm a b = some n) :
    (a.2 = b.2 ∧ n = |b.1 - a.1|) ∨ (a.1 = b.1 ∧ n = |b.2 - a.2|) := by
  unfold axisNorm at h
  split at h
  · rename_i h1; left; exact ⟨h1, by rw [← absR_eq_abs]; exact (Option.some.inj h).symm⟩
  · split at h
    · rename_i h1; right; exact ⟨h1, by rw [← absR_eq_abs]; exact (Option.some.inj h).symm⟩
    · cases h

theorem axisNorm_len {a b : Pt} {n : Rat} (h : axisNorm a b = some n) :
    n = |b.1 - a.1| + |b.2 - a.2| ∧ (a.1 = b.1 ∨ a.2 = b.2) ∧ 0 ≤ n := by
  rcases axisNorm_spec h with ⟨h1, h2⟩ | ⟨h1, h2⟩
  · refine ⟨?_, Or.inr h1, by rw [h2]; exact abs_nonneg _⟩
    rw [h2, h1]; simp
  · refine ⟨?_, Or.inl h1, by rw [h2]; exact abs_nonneg _⟩
    rw [h2, h1]; simp

theorem mkPiece_unit {a b : Pt} {n : Rat} (h : axisNorm a b = some n) (hn : n ≠ 0) (s : Rat) :
    (mkPiece a b n s).dx ^ 2 + (mkPiece a b n s).dy ^ 2 = 1 := by
  simp only [mkPiece]
  rcases axisNorm_spec h with ⟨h1, h2⟩ | ⟨h1, h2⟩
  · have : (b.1 - a.1) ^ 2 = n ^ 2 := by rw [h2, sq_abs]
    rw [h1, sub_self, zero_div, div_pow, this, div_self (pow_ne_zero 2 hn)]; norm_num
  · have : (b.2 - a.2) ^ 2 = n ^ 2 := by rw [h2, sq_abs]
    rw [h1, sub_self, zero_div, div_pow, this, div_self (pow_ne_zero 2 hn)]; norm_num

theorem mkPiece_at_start (a b : Pt) (n s : Rat) : (mkPiece a b n s).at s = a := by
  simp [mkPiece, Piece.at]

theorem mkPiece_at_end (a b : Pt) {n : Rat} (hn : n ≠ 0) (s : Rat) : (mkPiece a b n s).at (s + n) = b := by
  simp only [mkPiece, Piece.at]
  ext
  · simp only; field_simp; ring
  · simp only; field_simp; ring


/-- unit direction ⇒ arc-length parametrisation of the (extended) straight piece -/
theorem Piece.unit_speed {g : Piece} (hg : g.dx ^ 2 + g.dy ^ 2 = 1) (x y : Rat) :
    distSq (g.at x) (g.at y) = (x - y) ^ 2 := by
  simp only [distSq, Piece.at]
  have : (g.px + (x - g.start) * g.dx - (g.px + (y - g.start) * g.dx)) ^ 2 +
      (g.py + (x - g.start) * g.dy - (g.py + (y - g.start) * g.dy)) ^ 2 =
      (x - y) ^ 2 * (g.dx ^ 2 + g.dy ^ 2) := by ring
  rw [this, hg, mul_one]

/-! ### relational specification of the constructor loop -/

inductive Spec : Rat → List Pt → List Piece → List Rat → Prop
  | nil (s : Rat) : Spec s [] [] []
  | single (s : Rat) (a : Pt) : Spec s [a] [] []
  | cons {s p : Rat} {a b : Pt} {l : List Pt} {g : Piece} {gs : List Piece} {pw : List Rat} :
      s < p → g.start = s → g.dx ^ 2 + g.dy ^ 2 = 1 → g.at s = a → g.at p = b →
      p - s = |b.1 - a.1| + |b.2 - a.2| → (a.1 = b.1 ∨ a.2 = b.2) →
      Spec p (b :: l) gs pw → Spec s (a :: b :: l) (g :: gs) (p :: pw)

theorem polyGo_cons2 (s : Rat) (a b : Pt) (l : List Pt) :
    polyGo s (a :: b :: l) =
      (match axisNorm a b with
      | none => .error "not-axis-parallel"
      | some n =>
        if n = 0 then .error "assert:endpoint"
        else
          if (mkPiece a b n s).at s ≠ a then .error "assert:endpoint"
          else if (mkPiece a b n s).at (s + n) ≠ b then .error "assert:endpoint"
          else match polyGo (s + n) (b :: l) with
            | .error e => .error e
            | .ok (gs, pw) => .ok (mkPiece a b n s :: gs, (s + n) :: pw)) := by
  rw [polyGo]
  rfl

theorem polyGo_spec : ∀ (vs : List Pt) (s : Rat) (gs : List Piece) (pw : List Rat),
    polyGo s vs = .ok (gs, pw) → Spec s vs gs pw := by
  intro vs
  induction vs with
  | nil => intro s gs pw h; simp [polyGo] at h; obtain ⟨rfl, rfl⟩ := h; exact Spec.nil s
  | cons a l ih =>
    cases l with
    | nil => intro s gs pw h; simp [polyGo] at h; obtain ⟨rfl, rfl⟩ := h; exact Spec.single s a
    | cons b l =>
      intro s gs pw h
      rw [polyGo_cons2] at h
      cases hn : axisNorm a b with
      | none => rw [hn] at h; cases h
      | some n =>
        rw [hn] at h
        simp only at h
        split at h
        · cases h
        · rename_i hn0
          split at h
          · cases h
          · split at h
            · cases h
            · cases hr : polyGo (s + n) (b :: l) with
              | error e => rw [hr] at h; cases h
              | ok r =>
                obtain ⟨gs', pw'⟩ := r
                rw [hr] at h
                simp only [Except.ok.injEq, Prod.mk.injEq] at h
                obtain ⟨rfl, rfl⟩ := h
                obtain ⟨h1, h2, h3⟩ := axisNorm_len hn
                have hpos : 0 < n := lt_of_le_of_ne h3 (Ne.symm hn0)
                exact Spec.cons (by linarith) rfl (mkPiece_unit hn hn0 s) (mkPiece_at_start a b n s)
                  (mkPiece_at_end a b hn0 s) (by rw [← h1]; ring) h2 (ih (s + n) gs' pw' hr)

/-! ### list-level consequences -/

/-- the pieces together with their closed parameter ranges `[pw[i], pw[i+1]]` -/
def segsOf (pw : List Rat) (gs : List Piece) : List ((Rat × Rat) × Piece) := (pairs pw).zip gs

def Curve.segs (c : Curve) : List ((Rat × Rat) × Piece) := segsOf c.pw c.pieces

theorem segsOf_cons2 (s p : Rat) (pw : List Rat) (g : Piece) (gs : List Piece) :
    segsOf (s :: p :: pw) (g :: gs) = ((s, p), g) :: segsOf (p :: pw) gs := by
  simp [segsOf, Stbem.Mesh.pairs_cons2]

theorem segsOf_nil_right (pw : List Rat) : segsOf pw [] = [] := by simp [segsOf]

/-- what is known about one side: parameter range, piece, end points -/
structure SideOK (q : ((Rat × Rat) × Piece) × (Pt × Pt)) : Prop where
  pos : q.1.1.1 < q.1.1.2
  start : q.1.2.start = q.1.1.1
  unit : q.1.2.dx ^ 2 + q.1.2.dy ^ 2 = 1
  at_lo : q.1.2.at q.1.1.1 = q.2.1
  at_hi : q.1.2.at q.1.1.2 = q.2.2
  len : q.1.1.2 - q.1.1.1 = |q.2.2.1 - q.2.1.1| + |q.2.2.2 - q.2.1.2|
  axis : q.2.1.1 = q.2.2.1 ∨ q.2.1.2 = q.2.2.2

theorem Spec.lengths {s : Rat} {vs : List Pt} {gs : List Piece} {pw : List Rat} (h : Spec s vs gs pw) :
    gs.length = pw.length ∧ pw.length = vs.length - 1 ∧ (pairs vs).length = gs.length ∧
    (segsOf (s :: pw) gs).length = gs.length := by
  induction h with
  | nil s => simp [pairs, segsOf]
  | single s a => simp [pairs, segsOf]
  | cons _ _ _ _ _ _ _ _ ih =>
    obtain ⟨h1, h2, h3, h4⟩ := ih
    rw [segsOf_cons2, Stbem.Mesh.pairs_cons2]
    simp only [List.length_cons] at *
    omega

theorem Spec.sides {s : Rat} {vs : List Pt} {gs : List Piece} {pw : List Rat} (h : Spec s vs gs pw) :
    ∀ q ∈ (segsOf (s :: pw) gs).zip (pairs vs), SideOK q := by
  induction h with
  | nil s => intro q hq; simp [pairs, segsOf] at hq
  | single s a => intro q hq; simp [pairs, segsOf] at hq
  | cons h1 h2 h3 h4 h5 h6 h7 _ ih =>
    intro q hq
    rw [segsOf_cons2, Stbem.Mesh.pairs_cons2, List.zip_cons_cons] at hq
    rcases List.mem_cons.mp hq with rfl | hq
    · exact ⟨h1, h2, h3, h4, h5, h6, h7⟩
    · exact ih q hq

/-- every piece of the result, with its range: positive length, `x_start`, unit direction -/
theorem Spec.segs {s : Rat} {vs : List Pt} {gs : List Piece} {pw : List Rat} (h : Spec s vs gs pw) :
    ∀ q ∈ segsOf (s :: pw) gs, q.1.1 < q.1.2 ∧ q.2.start = q.1.1 ∧ q.2.dx ^ 2 + q.2.dy ^ 2 = 1 := by
  induction h with
  | nil s => intro q hq; simp [segsOf] at hq
  | single s a => intro q hq; simp [segsOf] at hq
  | cons h1 h2 h3 _ _ _ _ _ ih =>
    intro q hq
    rw [segsOf_cons2] at hq
    rcases List.mem_cons.mp hq with rfl | hq
    · exact ⟨h1, h2, h3⟩
    · exact ih q hq

theorem Spec.pieces_unit {s : Rat} {vs : List Pt} {gs : List Piece} {pw : List Rat} (h : Spec s vs gs pw) :
    ∀ g ∈ gs, g.dx ^ 2 + g.dy ^ 2 = 1 := by
  induction h with
  | nil s => intro g hg; simp at hg
  | single s a => intro g hg; simp at hg
  | cons _ _ h3 _ _ _ _ _ ih =>
    intro g hg
    rcases List.mem_cons.mp hg with rfl | hg
    · exact h3
    · exact ih g hg

/-- ranges start at or after `s`; the one that starts at `s` starts in the first vertex -/
theorem Spec.lo_ge {s : Rat} {vs : List Pt} {gs : List Piece} {pw : List Rat} (h : Spec s vs gs pw) :
    ∀ q ∈ segsOf (s :: pw) gs, s ≤ q.1.1 ∧ (q.1.1 = s → ∀ a, vs.head? = some a → q.2.at s = a) := by
  induction h with
  | nil s => intro q hq; simp [segsOf] at hq
  | single s a => intro q hq; simp [segsOf] at hq
  | cons h1 _ _ h4 _ _ _ _ ih =>
    intro q hq
    rw [segsOf_cons2] at hq
    rcases List.mem_cons.mp hq with rfl | hq
    · refine ⟨le_refl _, fun _ a ha => ?_⟩
      simp only [List.head?_cons, Option.some.injEq] at ha
      rw [← ha]; exact h4
    · obtain ⟨h, _⟩ := ih q hq
      exact ⟨by linarith, fun e => by linarith⟩

/-- ranges end at or before the last break point -/
theorem Spec.hi_le {s : Rat} {vs : List Pt} {gs : List Piece} {pw : List Rat} (h : Spec s vs gs pw) :
    s ≤ (s :: pw).getLastD 0 ∧ ∀ q ∈ segsOf (s :: pw) gs, q.1.2 ≤ (s :: pw).getLastD 0 := by
  induction h with
  | nil s => simp [segsOf]
  | single s a => simp [segsOf]
  | @cons s p a b l g gs pw h1 _ _ _ _ _ _ _ ih =>
    have e : (s :: p :: pw).getLastD 0 = (p :: pw).getLastD 0 := by
      rw [List.getLastD_cons, List.getLastD_cons, List.getLastD_cons]
    rw [e]
    refine ⟨by linarith [ih.1], ?_⟩
    intro q hq
    rw [segsOf_cons2] at hq
    rcases List.mem_cons.mp hq with rfl | hq
    · exact ih.1
    · exact ih.2 q hq

/-- `np.select` (first matching piece) agrees with EVERY piece whose closed range contains the
parameter: at a break point both adjacent pieces give the common vertex -/
theorem Spec.select_eq {s : Rat} {vs : List Pt} {gs : List Piece} {pw : List Rat} (h : Spec s vs gs pw)
    (x : Rat) : ∀ q ∈ segsOf (s :: pw) gs, q.1.1 ≤ x → x ≤ q.1.2 →
      select (s :: pw) gs x = some (q.2.at x) := by
  induction h with
  | nil s => intro q hq; simp [segsOf] at hq
  | single s a => intro q hq; simp [segsOf] at hq
  | @cons s p a b l g gs pw h1 _ _ _ h5 _ _ hs ih =>
    intro q hq hlo hhi
    rw [segsOf_cons2] at hq
    have hsel : select (s :: p :: pw) (g :: gs) x =
        if s ≤ x ∧ x ≤ p then some (g.at x) else select (p :: pw) gs x := by rw [select]
    rw [hsel]
    rcases List.mem_cons.mp hq with rfl | hq
    · rw [if_pos ⟨hlo, hhi⟩]
    · obtain ⟨hge, hat⟩ := hs.lo_ge q hq
      by_cases hc : s ≤ x ∧ x ≤ p
      · rw [if_pos hc]
        have hx : x = p := le_antisymm hc.2 (le_trans hge hlo)
        have hq1 : q.1.1 = p := le_antisymm (hx ▸ hlo) hge
        rw [hx, h5, hat hq1 b rfl]
      · rw [if_neg hc]
        exact ih q hq hlo hhi

/-- the last piece ends in the last vertex at the last break point -/
theorem Spec.last {s : Rat} {vs : List Pt} {gs : List Piece} {pw : List Rat} (h : Spec s vs gs pw)
    (h2 : 2 ≤ vs.length) : ∃ q ∈ segsOf (s :: pw) gs, q.1.2 = (s :: pw).getLastD 0 ∧
      ∀ b, vs.getLast? = some b → q.2.at q.1.2 = b := by
  induction h with
  | nil s => simp at h2
  | single s a => simp at h2
  | @cons s p a b l g gs pw _ _ _ _ h5 _ _ hs ih =>
    have e : (s :: p :: pw).getLastD 0 = (p :: pw).getLastD 0 := by
      rw [List.getLastD_cons, List.getLastD_cons, List.getLastD_cons]
    rw [e, segsOf_cons2]
    cases l with
    | nil =>
      cases hs with
      | single _ _ =>
        refine ⟨((s, p), g), by simp, by simp, ?_⟩
        intro b' hb'
        simp at hb'
        rw [← hb']; exact h5
    | cons c l =>
      obtain ⟨q, hq, h1, h2⟩ := ih (by simp)
      refine ⟨q, List.mem_cons_of_mem _ hq, h1, ?_⟩
      intro b' hb'
      apply h2
      rw [← hb']
      simp [List.getLast?_cons_cons]

/-- consecutive pieces share their break point and agree there -/
theorem Spec.cont {s : Rat} {vs : List Pt} {gs : List Piece} {pw : List Rat} (h : Spec s vs gs pw) :
    ∀ r ∈ pairs (segsOf (s :: pw) gs), r.1.1.2 = r.2.1.1 ∧ r.1.2.at r.1.1.2 = r.2.2.at r.1.1.2 := by
  induction h with
  | nil s => intro r hr; simp [segsOf, pairs] at hr
  | single s a => intro r hr; simp [segsOf, pairs] at hr
  | @cons s p a b l g gs pw _ _ _ _ h5 _ _ hs ih =>
    intro r hr
    rw [segsOf_cons2] at hr
    cases hs with
    | single _ _ => simp [segsOf, pairs] at hr
    | @cons _ p' _ c l' g' gs' pw' _ _ _ h4' _ _ _ hs' =>
      rw [segsOf_cons2, Stbem.Mesh.pairs_cons2] at hr
      rcases List.mem_cons.mp hr with rfl | hr
      · exact ⟨rfl, by simp only; rw [h5, h4']⟩
      · apply ih
        rw [segsOf_cons2]
        exact hr

/-! ### the constructor as a whole -/

theorem polygon_inv {vs : List Pt} {closed : Bool} {c : Curve} (h : polygon vs closed = .ok c) :
    ∃ gs pw, polyGo 0 vs = .ok (gs, pw) ∧ c = ⟨0 :: pw, gs, closed⟩ ∧ 0 < c.length ∧
      (closed = true → vs.head? = vs.getLast?) := by
  unfold polygon at h
  split at h
  · cases h
  · rename_i hcl
    cases hr : polyGo 0 vs with
    | error e => rw [hr] at h; cases h
    | ok r =>
      obtain ⟨gs, pw⟩ := r
      rw [hr] at h
      simp only at h
      unfold checkCurve at h
      split at h
      · cases h
      · rename_i hlen
        have hc : c = ⟨0 :: pw, gs, closed⟩ := by
          split at h
          · split at h
            · split at h
              · exact (Except.ok.inj h).symm
              · cases h
            · cases h
          · exact (Except.ok.inj h).symm
        refine ⟨gs, pw, rfl, hc, ?_, ?_⟩
        · rw [hc]; rw [not_or] at hlen; exact not_not.mp hlen.2
        · intro hcl'
          subst hcl'
          simpa using hcl

theorem polygon_spec {vs : List Pt} {closed : Bool} {c : Curve} (h : polygon vs closed = .ok c) :
    ∃ pw, c.pw = 0 :: pw ∧ c.closed = closed ∧ Spec 0 vs c.pieces pw := by
  obtain ⟨gs, pw, h1, rfl, _, _⟩ := polygon_inv h
  exact ⟨pw, rfl, rfl, polyGo_spec vs 0 gs pw h1⟩

/-- `eval` agrees with every piece whose closed range contains the parameter -/
theorem evalCurve_eq {vs : List Pt} {c : Curve} {pw : List Rat} (hpw : c.pw = 0 :: pw)
    (hs : Spec 0 vs c.pieces pw) {q : (Rat × Rat) × Piece} (hq : q ∈ c.segs) {x : Rat}
    (hlo : q.1.1 ≤ x) (hhi : x ≤ q.1.2) : evalCurve c x = .ok (q.2.at x) := by
  unfold Curve.segs at hq
  rw [hpw] at hq
  have h0 : 0 ≤ x := le_trans (hs.lo_ge q hq).1 hlo
  have hL : x ≤ c.length := by
    unfold Curve.length; rw [hpw]; exact le_trans hhi (hs.hi_le.2 q hq)
  have hsel := hs.select_eq x q hq hlo hhi
  unfold evalCurve
  rw [if_neg (by simp [h0, hL])]
  rw [hpw]
  split
  · rename_i g hg
    rw [hg] at hsel hq
    cases pw with
    | nil => simp [segsOf, pairs] at hq
    | cons p pw =>
      rw [segsOf_cons2, segsOf_nil_right] at hq
      simp only [List.mem_singleton] at hq
      rw [hq]
  · rw [hsel]; rfl

theorem pairs_length {α} : ∀ (l : List α), (pairs l).length = l.length - 1 := by
  intro l
  induction l with
  | nil => simp [pairs]
  | cons a l ih =>
    cases l with
    | nil => simp [pairs]
    | cons b l => rw [Stbem.Mesh.pairs_cons2, List.length_cons, ih]; simp

theorem mem_zip_left {α β} : ∀ {l1 : List α} {l2 : List β} {a : α}, a ∈ l1 → l1.length ≤ l2.length →
    ∃ b, (a, b) ∈ l1.zip l2 := by
  intro l1
  induction l1 with
  | nil => intro l2 a h; simp at h
  | cons x l1 ih =>
    intro l2 a h hl
    cases l2 with
    | nil => simp at hl
    | cons y l2 =>
      rcases List.mem_cons.mp h with rfl | h
      · exact ⟨y, by simp⟩
      · obtain ⟨b, hb⟩ := ih h (by simpa using hl)
        exact ⟨b, by simp [hb]⟩

/-- every parameter of `[s, last break point]` lies in the closed range of some piece -/
theorem Spec.cover {s : Rat} {vs : List Pt} {gs : List Piece} {pw : List Rat} (h : Spec s vs gs pw)
    (h2 : 2 ≤ vs.length) {x : Rat} (hlo : s ≤ x) (hhi : x ≤ (s :: pw).getLastD 0) :
    ∃ q ∈ segsOf (s :: pw) gs, q.1.1 ≤ x ∧ x ≤ q.1.2 := by
  rcases lt_or_eq_of_le hhi with hlt | heq
  · obtain ⟨p, hp, h1, h2'⟩ := Stbem.Mesh.pairs_cover (X := s :: pw) x (by simpa using hlo) hlt
    obtain ⟨g, hg⟩ := mem_zip_left (l2 := gs) hp (by
      have := h.lengths
      rw [pairs_length]; simp only [List.length_cons]; omega)
    exact ⟨(p, g), hg, h1, le_of_lt h2'⟩
  · obtain ⟨q, hq, h1, _⟩ := h.last h2
    refine ⟨q, hq, ?_, by rw [h1, heq]⟩
    have := (h.segs q hq).1
    rw [heq, ← h1]; exact le_of_lt this

/-- start and end of the whole curve: `eval(0)` is the first vertex, `eval(L)` the last one, `L > 0` -/
theorem Spec.ends {vs : List Pt} {gs : List Piece} {pw : List Rat} (h : Spec 0 vs gs pw)
    (h2 : 2 ≤ vs.length) (cl : Bool) :
    ∃ a b, vs.head? = some a ∧ vs.getLast? = some b ∧ 0 < (⟨0 :: pw, gs, cl⟩ : Curve).length ∧
      evalCurve ⟨0 :: pw, gs, cl⟩ 0 = .ok a ∧
      evalCurve ⟨0 :: pw, gs, cl⟩ (⟨0 :: pw, gs, cl⟩ : Curve).length = .ok b := by
  obtain ⟨q, hq, hq1, hq2⟩ := h.last h2
  have hL : (⟨0 :: pw, gs, cl⟩ : Curve).length = (0 :: pw).getLastD 0 := rfl
  cases h with
  | nil => simp at h2
  | single _ _ => simp at h2
  | @cons _ p a b l g gs' pw' h1 h2' h3 h4 h5 h6 h7 hs =>
    have hspec : Spec 0 (a :: b :: l) (g :: gs') (p :: pw') := Spec.cons h1 h2' h3 h4 h5 h6 h7 hs
    have hne : (a :: b :: l) ≠ [] := by simp
    refine ⟨a, (a :: b :: l).getLast hne, rfl, List.getLast?_eq_getLast_of_ne_nil hne, ?_, ?_, ?_⟩
    · rw [hL, ← hq1]
      have := (hspec.segs q hq).1
      have := (hspec.lo_ge q hq).1
      linarith
    · have hfirst : ((0, p), g) ∈ (⟨0 :: p :: pw', g :: gs', cl⟩ : Curve).segs := by
        show _ ∈ segsOf (0 :: p :: pw') (g :: gs')
        rw [segsOf_cons2]; simp
      have := evalCurve_eq (c := ⟨0 :: p :: pw', g :: gs', cl⟩) rfl hspec hfirst (x := 0) (le_refl _)
        (le_of_lt h1)
      rw [this]; simp only; rw [h4]
    · have := evalCurve_eq (c := ⟨0 :: p :: pw', g :: gs', cl⟩) rfl hspec hq
        (x := (0 :: p :: pw').getLastD 0) (by rw [← hq1]; exact le_of_lt (hspec.segs q hq).1)
        (by rw [hq1])
      rw [hL, this, ← hq1, hq2 _ (List.getLast?_eq_getLast_of_ne_nil hne)]

/-- acceptance: in ℚ the bit-exact end-point tests of `PiecewisePolygon` hold for every axis-parallel
polygon without zero-length sides -/
theorem polyGo_accepts : ∀ (vs : List Pt) (s : Rat),
    (∀ e ∈ pairs vs, (e.1.1 = e.2.1 ∨ e.1.2 = e.2.2) ∧ e.1 ≠ e.2) → ∃ r, polyGo s vs = .ok r := by
  intro vs
  induction vs with
  | nil => intro s _; exact ⟨([], []), by simp [polyGo]⟩
  | cons a l ih =>
    cases l with
    | nil => intro s _; exact ⟨([], []), by simp [polyGo]⟩
    | cons b l =>
      intro s h
      have hab := h (a, b) (by simp [pairs])
      obtain ⟨r, hr⟩ := ih (s := s + (|b.1 - a.1| + |b.2 - a.2|)) (fun e he => h e (by
        rw [Stbem.Mesh.pairs_cons2]; exact List.mem_cons_of_mem _ he))
      have hn : axisNorm a b = some (|b.1 - a.1| + |b.2 - a.2|) := by
        unfold axisNorm
        rcases hab.1 with h1 | h1
        · by_cases h2 : a.2 = b.2
          · rw [if_pos h2, absR_eq_abs, h2]; simp
          · rw [if_neg h2, if_pos h1, absR_eq_abs, h1]; simp
        · rw [if_pos h1, absR_eq_abs, h1]; simp
      have hn0 : |b.1 - a.1| + |b.2 - a.2| ≠ 0 := by
        intro h0
        have h1 : |b.1 - a.1| = 0 := by linarith [abs_nonneg (b.1 - a.1), abs_nonneg (b.2 - a.2)]
        have h2 : |b.2 - a.2| = 0 := by linarith [abs_nonneg (b.1 - a.1), abs_nonneg (b.2 - a.2)]
        apply hab.2
        have e1 := sub_eq_zero.mp (abs_eq_zero.mp h1)
        have e2 := sub_eq_zero.mp (abs_eq_zero.mp h2)
        exact Prod.ext e1.symm e2.symm
      obtain ⟨gs, pw⟩ := r
      refine ⟨(mkPiece a b (|b.1 - a.1| + |b.2 - a.2|) s :: gs, (s + (|b.1 - a.1| + |b.2 - a.2|)) :: pw), ?_⟩
      rw [polyGo_cons2, hn]
      simp only
      rw [if_neg hn0, if_neg (by rw [mkPiece_at_start]; simp),
        if_neg (by rw [mkPiece_at_end a b hn0]; simp), hr]

/-- decidable summary of a constructor result: its `pw_start` -/
def pwOf (r : Except String Curve) : Option (List Rat) :=
  match r with
  | .ok c => some c.pw
  | .error _ => none

end Stbem.Param
