import Stbem.Lemmas.SLSignReal

/-!
# `bilformQuadR`, `evaluateR`, `potentialR` are the model's algorithms

`Extends SR S`: the real record `SR` takes, at rational arguments, the (cast) values of the rational
record `S`.  Then the generated real terms `R.sl_dtk`, `R.sl_tik` (and the inline kernel of
`evaluate`) at rational arguments are the casts of the generated rational terms `Q.sl_dtk`,
`Q.sl_tik` (`dtk_cast`, `tik_cast`: the two emissions of `translate/formulas.py` agree), and

  `bilformQuadR … = ↑(bilform … false …)`,  `evaluateR … = ↑(evaluate …)`,  `potentialR … = ↑(potential …)`

including the error cases.  So the real-valued functions of `Lemmas/SLSignReal.lean` differ from the
model (which is tied to the Python code) only in the number type of the special functions.
-/
namespace Stbem.SL
open Stbem.Quad

/-- `SR` extends `S`: on rational arguments the real special functions take the rational values -/
structure Extends (SR : Stbem.Formulas.R.Fns) (S : Stbem.Formulas.Q.Fns) : Prop where
  exp : ∀ q : Rat, SR.exp (q : ℝ) = ((S.exp q : Rat) : ℝ)
  ei : ∀ q : Rat, SR.ei (q : ℝ) = ((S.ei q : Rat) : ℝ)
  fpi : SR.fpiInv = ((S.fpiInv : Rat) : ℝ)

variable {SR : Stbem.Formulas.R.Fns} {S : Stbem.Formulas.Q.Fns}

theorem dtk_cast (h : Extends SR S) (a b c d r : Rat) :
    Stbem.Formulas.R.sl_dtk SR a b c d r = ((Stbem.Formulas.Q.sl_dtk S a b c d r : Rat) : ℝ) := by
  unfold Stbem.Formulas.R.sl_dtk Stbem.Formulas.Q.sl_dtk
  simp only [gt_iff_lt, Rat.cast_lt]
  split_ifs <;>
  simp only [← h.exp, ← h.ei, h.fpi, Rat.cast_add, Rat.cast_mul, Rat.cast_sub, Rat.cast_div,
    Rat.cast_neg, Rat.cast_ofNat, Rat.cast_zero]

theorem tik_cast (h : Extends SR S) (t a b r : Rat) :
    Stbem.Formulas.R.sl_tik SR t a b r = ((Stbem.Formulas.Q.sl_tik S t a b r : Rat) : ℝ) := by
  unfold Stbem.Formulas.R.sl_tik Stbem.Formulas.Q.sl_tik Stbem.Formulas.R.sl_g Stbem.Formulas.Q.sl_g
  simp only [Rat.cast_le]
  split_ifs <;>
  simp only [← h.ei, h.fpi, Rat.cast_mul, Rat.cast_sub, Rat.cast_div,
    Rat.cast_neg, Rat.cast_ofNat, Rat.cast_zero]

theorem evalKernel_cast (h : Extends SR S) (t ta tb r : Rat) :
    evalKernelR SR t ta tb r = ((evalKernel S t ta tb r : Rat) : ℝ) := by
  unfold evalKernelR evalKernel
  simp only [Rat.cast_le]
  split_ifs <;>
  simp only [← h.ei, h.fpi, Rat.cast_mul, Rat.cast_sub, Rat.cast_div,
    Rat.cast_neg, Rat.cast_ofNat]

variable (cfg : Cfg) (log : Rule1) (gs : List Piece)

theorem bilformQuadR_cast (h : Extends SR S) (trial test : Elem) :
    bilformQuadR cfg SR log gs trial test =
      (bilform cfg S log gs false trial test).map fun q : Rat => (q : ℝ) := by
  have hk : ∀ u v, kernR SR gs trial test u v = ((kern S gs trial test u v : Rat) : ℝ) :=
    fun u v => dtk_cast h _ _ _ _ _
  have hk1 : (fun x y => kernR SR gs trial test x y) = fun x y => ((kern S gs trial test x y : Rat) : ℝ) :=
    funext fun x => funext fun y => hk x y
  have hk2 : (fun x y => kernR SR gs trial test y x) = fun x y => ((kern S gs trial test y x : Rat) : ℝ) :=
    funext fun x => funext fun y => hk y x
  rw [bilform_false]
  unfold bilformQuadR quadPath
  by_cases hc : test.t1 ≤ trial.t0
  · simp only [if_pos hc]
    show Except.ok (0 : ℝ) = Except.ok ((0 : Rat) : ℝ)
    rw [Rat.cast_zero]
  · simp only [if_neg hc]
    by_cases hl : lexLe test.x0 test.x1 trial.x0 trial.x1 = true
    · simp only [if_pos hl]
      cases panels cfg 12 test.x0 test.x1 trial.x0 trial.x1 with
      | error e => rfl
      | ok ps =>
        show Except.ok _ = Except.ok _
        rw [hk1, integratePanelsR_cast]
    · simp only [if_neg hl]
      cases panels cfg 12 trial.x0 trial.x1 test.x0 test.x1 with
      | error e => rfl
      | ok ps =>
        show Except.ok _ = Except.ok _
        rw [hk2, integratePanelsR_cast]

theorem evaluateR_cast (h : Extends SR S) (onePlus oneMinus : Rat) (e : Elem) (t xhat : Rat)
    (x : Rat × Rat) :
    evaluateR cfg SR log gs onePlus oneMinus e t xhat x =
      ((evaluate cfg onePlus oneMinus S log gs e t xhat x : Rat) : ℝ) := by
  have hk : (fun y => evalKernelR SR t e.t0 e.t1 ((distSq x ((pieceOf gs e.piece).at y) : Rat) : ℝ)) =
      fun y => ((evalKernel S t e.t0 e.t1 (distSq x ((pieceOf gs e.piece).at y)) : Rat) : ℝ) :=
    funext fun y => evalKernel_cast h _ _ _ _
  unfold evaluateR
  cases hplan : evalPlan cfg onePlus oneMinus e t xhat with
  | zero =>
    rw [evaluate_zero cfg onePlus oneMinus S log gs e t xhat x
      ((evalPlan_zero_iff cfg onePlus oneMinus e t xhat).mp hplan), Rat.cast_zero]
  | inElem =>
    rw [evaluate_inElem cfg onePlus oneMinus S log gs e t xhat x hplan, Rat.cast_add]
    simp only [hk, integrate1R_cast]
  | outside m =>
    rw [evaluate_outside cfg onePlus oneMinus S log gs e t xhat x m hplan]
    simp only [hk, integrate1R_cast]

theorem potentialR_cast (h : Extends SR S) (gauss : Rule1) (e : Elem) (t : Rat) (x : Rat × Rat) :
    potentialR SR gs gauss e t x = ((potential S gauss gs e t x : Rat) : ℝ) := by
  have hk : (fun y => Stbem.Formulas.R.sl_tik SR t e.t0 e.t1
        ((distSq x ((pieceOf gs e.piece).at y) : Rat) : ℝ)) =
      fun y => ((Stbem.Formulas.Q.sl_tik S t e.t0 e.t1 (distSq x ((pieceOf gs e.piece).at y)) : Rat) : ℝ) :=
    funext fun y => tik_cast h _ _ _ _
  unfold potentialR potential
  by_cases ht : t ≤ e.t0
  · rw [if_pos ht, if_pos ht, Rat.cast_zero]
  · rw [if_neg ht, if_neg ht]
    simp only [hk, integrate1R_cast]

end Stbem.SL
