import Stbem.Lemmas.QuadtreeInv
import Mathlib.Tactic.Positivity
import Mathlib.Tactic.FieldSimp
import Mathlib.Tactic.NormNum

/-!
# Arithmetic of the dyadic grids
-/
namespace Stbem.Quadtree

theorem OnGrid.size_pos {e : Elem} (h : OnGrid e) : 0 < e.size := by
  rw [h.1]; positivity

theorem two_pow_inj {a b : Nat} (h : (1 : Rat) / 2 ^ a = 1 / 2 ^ b) : a = b := by
  have ha : (2 : Rat) ^ a ≠ 0 := by positivity
  have hb : (2 : Rat) ^ b ≠ 0 := by positivity
  have h2 : (2 : Rat) ^ a = 2 ^ b := by
    field_simp at h
    linarith
  have h3 : (2 : Nat) ^ a = 2 ^ b := by exact_mod_cast h2
  exact Nat.pow_right_injective (le_refl 2) h3

theorem half_pow (k : Nat) : (1 : Rat) / 2 ^ k / 2 = 1 / 2 ^ (k + 1) := by
  rw [pow_succ]; field_simp

/-- elements of equal size have equal level -/
theorem OnGrid.level_eq {f g : Elem} (hf : OnGrid f) (hg : OnGrid g) (h : f.size = g.size) :
    f.level = g.level := by
  rw [hf.1, hg.1] at h; exact two_pow_inj h

theorem OnGrid.size_eq {f g : Elem} (hf : OnGrid f) (hg : OnGrid g) (h : f.level = g.level) :
    f.size = g.size := by
  rw [hf.1, hg.1, h]

/-- an element one level deeper has half the size -/
theorem OnGrid.size_succ {f g : Elem} (hf : OnGrid f) (hg : OnGrid g) (h : f.level = g.level + 1) :
    g.size = 2 * f.size := by
  rw [hf.1, hg.1, h, pow_succ]; field_simp

theorem OnGrid.level_succ {f g : Elem} (hf : OnGrid f) (hg : OnGrid g) (h : g.size = 2 * f.size) :
    f.level = g.level + 1 := by
  apply two_pow_inj
  rw [← half_pow, ← hf.1, ← hg.1, h]; ring

theorem lt_of_mul_lt {s a b : Rat} (hs : 0 < s) (h : a * s < b * s) : a < b :=
  lt_of_mul_lt_mul_right h hs.le

theorem le_of_mul_le {s a b : Rat} (hs : 0 < s) (h : a * s ≤ b * s) : a ≤ b :=
  le_of_mul_le_mul_right h hs

/-- two half-open grid intervals of the same mesh width that share a point are equal -/
theorem grid_eq {s x : Rat} (hs : 0 < s) {i j : Int} (h1 : (i : Rat) * s ≤ x) (h2 : x < i * s + s)
    (h3 : (j : Rat) * s ≤ x) (h4 : x < j * s + s) : i = j := by
  have a : (i : Rat) < j + 1 := lt_of_mul_lt hs (by linarith)
  have b : (j : Rat) < i + 1 := lt_of_mul_lt hs (by linarith)
  have a' : i < j + 1 := by exact_mod_cast a
  have b' : j < i + 1 := by exact_mod_cast b
  omega

/-- a multiple of `2^-k` is a multiple of `2^-L` for `k ≤ L` -/
theorem grid_coarsen {k L : Nat} (h : k ≤ L) (a : Int) :
    ∃ i : Int, (a : Rat) * (1 / 2 ^ k) = i * (1 / 2 ^ L) := by
  obtain ⟨d, rfl⟩ := Nat.exists_eq_add_of_le h
  refine ⟨a * 2 ^ d, ?_⟩
  push_cast
  rw [pow_add]
  field_simp

/-- a grid point is not the mid point of a grid interval -/
theorem not_half {s : Rat} (hs : 0 < s) (q i : Int) : (q : Rat) * s ≠ i * s + s / 2 := by
  intro h
  have h1 : ((2 : Rat) * q) * s = (2 * i + 1) * s := by linarith
  have h2 : (2 : Rat) * q = 2 * i + 1 := by
    have := mul_right_cancel₀ (ne_of_gt hs) h1
    exact this
  have h3 : (2 : Int) * q = 2 * i + 1 := by exact_mod_cast h2
  omega

/-- corner coordinates of a grid element are grid points of every finer level -/
theorem OnGrid.corner_x {f : Elem} (hf : OnGrid f) {L : Nat} (hl : f.level ≤ L) {v : Rat × Rat}
    (hv : Corner f v) : ∃ q : Int, v.1 = q * (1 / 2 ^ L) := by
  obtain ⟨hs, i, j, hx, hy⟩ := hf
  rcases hv.1 with h | h
  · obtain ⟨q, hq⟩ := grid_coarsen hl i
    exact ⟨q, by rw [h, hx, hs, hq]⟩
  · obtain ⟨q, hq⟩ := grid_coarsen hl (i + 1)
    refine ⟨q, ?_⟩
    rw [h, hx, ← hq, hs]; push_cast; ring

theorem OnGrid.corner_y {f : Elem} (hf : OnGrid f) {L : Nat} (hl : f.level ≤ L) {v : Rat × Rat}
    (hv : Corner f v) : ∃ q : Int, v.2 = q * (1 / 2 ^ L) := by
  obtain ⟨hs, i, j, hx, hy⟩ := hf
  rcases hv.2 with h | h
  · obtain ⟨q, hq⟩ := grid_coarsen hl j
    exact ⟨q, by rw [h, hy, hs, hq]⟩
  · obtain ⟨q, hq⟩ := grid_coarsen hl (j + 1)
    refine ⟨q, ?_⟩
    rw [h, hy, ← hq, hs]; push_cast; ring

/-- two grid elements of the same level that share a point have the same lower left corner -/
theorem OnGrid.same {f g : Elem} (hf : OnGrid f) (hg : OnGrid g) (hl : f.level = g.level) {x y : Rat}
    (h1 : f.Contains x y) (h2 : g.Contains x y) : f.x0 = g.x0 ∧ f.y0 = g.y0 := by
  have hs : f.size = g.size := hf.size_eq hg hl
  have hp := hf.size_pos
  obtain ⟨-, i, j, hx, hy⟩ := hf
  obtain ⟨-, i', j', hx', hy'⟩ := hg
  obtain ⟨a1, a2, a3, a4⟩ := h1
  obtain ⟨b1, b2, b3, b4⟩ := h2
  rw [← hs] at hx' hy' b2 b4
  have e1 : i = i' := grid_eq (x := x) hp (by linarith) (by linarith) (by linarith) (by linarith)
  have e2 : j = j' := grid_eq (x := y) hp (by linarith) (by linarith) (by linarith) (by linarith)
  rw [hx, hx', hy, hy', e1, e2]; exact ⟨rfl, rfl⟩

end Stbem.Quadtree
