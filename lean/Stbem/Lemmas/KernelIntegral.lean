import Stbem.Lemmas.KernelExt
import Mathlib.MeasureTheory.Integral.IntervalIntegral.FundThmCalculus

/-!
# `sl_tik` and `sl_dtk` are (iterated) time integrals of the heat kernel; sign of `sl_dtk`

With `G(z,x) = Gk S z x = fpiInv·e^{-x/(4z)}/z` (`x = |·|² > 0`):

* `sl_tik S t a b x = ∫ s in a..b, [s < t]·G(t-s, x)`,
* `sl_dtk S a b c d x = ∫ t in a..b, sl_tik S t c d x = ∫ t in a..b, ∫ s in c..d, [s < t]·G(t-s, x)`

for **all** real `a b c d t` (no ordering needed: both sides are additive and change sign when the
end points of an interval are exchanged), about the terms *as generated* (guards included).
Hence `0 ≤ sl_dtk` for `a ≤ b`, `c < d`, and `0 < sl_dtk` iff `c < b` (for `a < b`, `c < d`).
-/
namespace Stbem.Formulas.R
open Filter Topology MeasureTheory

/-! ### the generated terms in terms of the extensions by zero -/

theorem g_eq_ext (S : Fns) (a b x : ℝ) : sl_g S a b x = S.fpiInv * ext0 (Ep S (x / 4)) (a - b) := by
  by_cases h : a ≤ b
  · rw [g_zero' S a b x h, ext0_nonpos _ (by linarith), mul_zero]
  · have hz : 0 < a - b := by linarith [not_le.mp h]
    rw [g_pos S a b x (not_le.mp h), ext0_pos _ hz]
    unfold Ep
    congr 2
    field_simp

theorem tik_eq_ext (S : Fns) (t a b x : ℝ) : sl_tik S t a b x =
    S.fpiInv * (ext0 (Ep S (x / 4)) (t - b) - ext0 (Ep S (x / 4)) (t - a)) := by
  rw [tik_eq', g_eq_ext, g_eq_ext]; ring

theorem Fg_eq_ext (S : Fns) (z r : ℝ) : Fg S z r = S.fpiInv * ext0 (Hp S (r / 4)) z := by
  unfold Fg ext0
  split_ifs with h
  · rfl
  · rw [mul_zero]

theorem dtk_eq_ext (S : Fns) (a b c d x : ℝ) : sl_dtk S a b c d x =
    S.fpiInv * (ext0 (Hp S (x / 4)) (b - d) - ext0 (Hp S (x / 4)) (b - c)
      + ext0 (Hp S (x / 4)) (a - c) - ext0 (Hp S (x / 4)) (a - d)) := by
  rw [dtk_eq_Fg]; simp only [Fg_eq_ext]; ring

/-- `[s < t]·G(t-s, x)` -/
theorem heat_eq_ext (S : Fns) (t s x : ℝ) :
    (if s < t then Gk S (t - s) x else 0) = S.fpiInv * ext0 (Kp (x / 4)) (t - s) := by
  unfold ext0 Kp Gk
  by_cases h : s < t
  · have hz : 0 < t - s := by linarith
    rw [if_pos h, if_pos hz]
    have e : -x / (4 * (t - s)) = -(x / 4) / (t - s) := by field_simp
    rw [e]
  · rw [if_neg h, if_neg (by linarith [not_lt.mp h]), mul_zero]

/-! ### fundamental theorem of calculus, twice -/

section
variable (S : Fns) (ρ : ℝ)

theorem Eext_shift_hasDerivAt (hei : EiLaw S) (hlim : EiLim S) (hρ : 0 < ρ) (t s : ℝ) :
    HasDerivAt (fun s => ext0 (Ep S ρ) (t - s)) (ext0 (Kp ρ) (t - s)) s := by
  have h1 : HasDerivAt (fun s : ℝ => t - s) (-1) s := (hasDerivAt_id' s).const_sub t
  have h2 := (Eext_hasDerivAt S hei hlim ρ hρ (t - s)).comp s h1
  exact h2.congr_deriv (by ring)

theorem Hext_shift_hasDerivAt (hexp : S.exp = Real.exp) (hei : EiLaw S) (hlim : EiLim S)
    (hρ : 0 < ρ) (d t : ℝ) :
    HasDerivAt (fun t => ext0 (Hp S ρ) (t - d)) (ext0 (Ep S ρ) (t - d)) t := by
  have h1 : HasDerivAt (fun t : ℝ => t - d) 1 t := (hasDerivAt_id' t).sub_const d
  have h2 := (Hext_hasDerivAt S hexp hei hlim ρ hρ (t - d)).comp t h1
  exact h2.congr_deriv (by ring)

theorem integral_Kext (hei : EiLaw S) (hlim : EiLim S) (hρ : 0 < ρ) (t a b : ℝ) :
    ∫ s in a..b, ext0 (Kp ρ) (t - s) = ext0 (Ep S ρ) (t - b) - ext0 (Ep S ρ) (t - a) :=
  intervalIntegral.integral_eq_sub_of_hasDerivAt
    (fun s _ => Eext_shift_hasDerivAt S ρ hei hlim hρ t s)
    (((Kext_continuous ρ hρ).comp (continuous_const.sub continuous_id)).intervalIntegrable a b)

theorem integral_Eext (hexp : S.exp = Real.exp) (hei : EiLaw S) (hlim : EiLim S) (hρ : 0 < ρ)
    (d a b : ℝ) :
    ∫ t in a..b, ext0 (Ep S ρ) (t - d) = ext0 (Hp S ρ) (b - d) - ext0 (Hp S ρ) (a - d) :=
  intervalIntegral.integral_eq_sub_of_hasDerivAt
    (fun t _ => Hext_shift_hasDerivAt S ρ hexp hei hlim hρ d t)
    (((Eext_continuous S hei hlim ρ hρ).comp (continuous_id.sub continuous_const)).intervalIntegrable
      a b)

end

/-- `t ↦ sl_tik S t c d x` is continuous -/
theorem tik_continuous (S : Fns) (hei : EiLaw S) (hlim : EiLim S) (c d x : ℝ) (hx : 0 < x) :
    Continuous fun t => sl_tik S t c d x := by
  have hE := Eext_continuous S hei hlim (x / 4) (by linarith)
  have : (fun t => sl_tik S t c d x) = fun t =>
      S.fpiInv * (ext0 (Ep S (x / 4)) (t - d) - ext0 (Ep S (x / 4)) (t - c)) :=
    funext fun t => tik_eq_ext S t c d x
  rw [this]
  exact continuous_const.mul ((hE.comp (continuous_id.sub continuous_const)).sub
    (hE.comp (continuous_id.sub continuous_const)))

/-- **`time_integrated_kernel` is the time integral of the heat kernel** over the part of `[a,b]`
before `t` -/
theorem tik_eq_integral' (S : Fns) (hei : EiLaw S) (hlim : EiLim S) (t a b x : ℝ) (hx : 0 < x) :
    sl_tik S t a b x = ∫ s in a..b, (if s < t then Gk S (t - s) x else 0) := by
  simp only [heat_eq_ext]
  rw [intervalIntegral.integral_const_mul, integral_Kext S (x / 4) hei hlim (by linarith), tik_eq_ext]

/-- **`double_time_integrated_kernel` is the integral of `time_integrated_kernel`** over the test
interval -/
theorem dtk_eq_integral_tik' (S : Fns) (hexp : S.exp = Real.exp) (hei : EiLaw S) (hlim : EiLim S)
    (a b c d x : ℝ) (hx : 0 < x) : sl_dtk S a b c d x = ∫ t in a..b, sl_tik S t c d x := by
  have hρ : 0 < x / 4 := by linarith
  have hE := Eext_continuous S hei hlim (x / 4) hρ
  have hi : ∀ e : ℝ, IntervalIntegrable (fun t => ext0 (Ep S (x / 4)) (t - e)) volume a b :=
    fun e => (hE.comp (continuous_id.sub continuous_const)).intervalIntegrable a b
  simp only [tik_eq_ext]
  rw [intervalIntegral.integral_const_mul, intervalIntegral.integral_sub (hi d) (hi c),
    integral_Eext S (x / 4) hexp hei hlim hρ, integral_Eext S (x / 4) hexp hei hlim hρ, dtk_eq_ext]
  ring

/-- **the kernel is the double time integral of the heat kernel** -/
theorem dtk_eq_integral' (S : Fns) (hexp : S.exp = Real.exp) (hei : EiLaw S) (hlim : EiLim S)
    (a b c d x : ℝ) (hx : 0 < x) :
    sl_dtk S a b c d x = ∫ t in a..b, ∫ s in c..d, (if s < t then Gk S (t - s) x else 0) := by
  rw [dtk_eq_integral_tik' S hexp hei hlim a b c d x hx]
  congr 1
  funext t
  exact tik_eq_integral' S hei hlim t c d x hx

/-! ### sign of `sl_dtk` -/

theorem dtk_nonneg' (S : Fns) (hexp : S.exp = Real.exp) (hei : EiLaw S) (hlim : EiLim S)
    (hfpi : 0 < S.fpiInv) {a b c d x : ℝ} (hab : a ≤ b) (hcd : c < d) (hx : 0 < x) :
    0 ≤ sl_dtk S a b c d x := by
  rw [dtk_eq_integral_tik' S hexp hei hlim a b c d x hx]
  exact intervalIntegral.integral_nonneg hab fun t _ => tik_nonneg' S hei hlim hfpi hcd hx

theorem dtk_pos' (S : Fns) (hexp : S.exp = Real.exp) (hei : EiLaw S) (hlim : EiLim S)
    (hfpi : 0 < S.fpiInv) {a b c d x : ℝ} (hab : a < b) (hcd : c < d) (hx : 0 < x) (hcb : c < b) :
    0 < sl_dtk S a b c d x := by
  have hm : max a c < b := max_lt hab hcb
  rw [dtk_add_test S a (max a c) b c d x]
  have h1 : 0 ≤ sl_dtk S a (max a c) c d x :=
    dtk_nonneg' S hexp hei hlim hfpi (le_max_left a c) hcd hx
  have h2 : 0 < sl_dtk S (max a c) b c d x := by
    rw [dtk_eq_integral_tik' S hexp hei hlim _ b c d x hx]
    refine intervalIntegral.intervalIntegral_pos_of_pos_on
      ((tik_continuous S hei hlim c d x hx).intervalIntegrable _ _) ?_ hm
    intro t ht
    exact tik_pos' S hei hlim hfpi hcd hx (lt_of_le_of_lt (le_max_right a c) ht.1)
  linarith

theorem dtk_pos_iff' (S : Fns) (hexp : S.exp = Real.exp) (hei : EiLaw S) (hlim : EiLim S)
    (hfpi : 0 < S.fpiInv) {a b c d x : ℝ} (hab : a < b) (hcd : c < d) (hx : 0 < x) :
    0 < sl_dtk S a b c d x ↔ c < b := by
  constructor
  · intro h
    by_contra hn
    rw [dtk_acausal_zero' S a b c d x hab hcd (not_lt.mp hn)] at h
    exact lt_irrefl _ h
  · exact dtk_pos' S hexp hei hlim hfpi hab hcd hx

end Stbem.Formulas.R
