import Stbem.Lemmas.SLBasic

/-!
The recursion of `panels` as an inductive relation `Tiles` (one constructor per `pure`/recursive
branch, carrying every guard that was passed on the way), and the inversion lemma
`panels … = .ok ps → Tiles … ps`.  All structural theorems on `panels` are inductions on `Tiles`.
-/
namespace Stbem.SL

/-- the three leading assertions of `__integrate` -/
structure Base (cfg : Cfg) (a b c d : Rat) : Prop where
  sx : cfg.minSize < b - a
  sy : cfg.minSize < d - c
  ab : a < b
  cd : c < d
  lex : a < c ∨ (a = c ∧ b ≤ d)

/-- the guards passed before the "seam" test: not identical, not touching, not `isclose` -/
structure Apart (cfg : Cfg) (a b c d : Rat) : Prop extends Base cfg a b c d where
  nid : ¬(a = c ∧ b = d)
  nbc : b ≠ c
  ncl : isclose cfg b c = false

/-- the seam test -/
abbrev Seam (cfg : Cfg) (a d : Rat) : Prop := a = 0 ∧ d = cfg.len ∧ cfg.glue = true

/-- `Tiles cfg n a b c d ps`: the recursion of `panels` on `[a,b]×[c,d]` succeeds with the panel list
`ps`, using recursion depth `n` (so any fuel `≥ n` works) -/
inductive Tiles (cfg : Cfg) : Nat → Rat → Rat → Rat → Rat → List Panel → Prop
  | ident {a b c d} : Base cfg a b c d → a = c → b = d →
      Tiles cfg 1 a b c d [⟨.duffyId, a, b, c, d⟩]
  | touchSq {a b c d} : Base cfg a b c d → ¬(a = c ∧ b = d) → b = c →
      absR ((b - a) - (d - c)) < cfg.eps10 →
      Tiles cfg 1 a b c d [⟨.duffyMx, a, b, c, d⟩]
  | touchWide {n a b c d r} : Base cfg a b c d → ¬(a = c ∧ b = d) → b = c →
      ¬ absR ((b - a) - (d - c)) < cfg.eps10 → d - c < b - a →
      Tiles cfg n a (b - (d - c)) c d r →
      Tiles cfg (n + 1) a b c d (⟨.duffyMx, b - (d - c), b, c, d⟩ :: r)
  | touchTall {n a b c d r} : Base cfg a b c d → ¬(a = c ∧ b = d) → b = c →
      ¬ absR ((b - a) - (d - c)) < cfg.eps10 → ¬ d - c < b - a →
      Tiles cfg n a b (c + (b - a)) d r →
      Tiles cfg (n + 1) a b c d (⟨.duffyMx, a, b, c, c + (b - a)⟩ :: r)
  | seamSq {a b c d} : Apart cfg a b c d → Seam cfg a d → b < c →
      absR ((b - a) - (d - c)) < cfg.eps10 →
      Tiles cfg 1 a b c d [⟨.duffyMy, a, b, c, d⟩]
  | seamWide {n a b c d r} : Apart cfg a b c d → Seam cfg a d → b < c →
      ¬ absR ((b - a) - (d - c)) < cfg.eps10 → d - c < b - a →
      Tiles cfg n (a + (d - c)) b c d r →
      Tiles cfg (n + 1) a b c d (⟨.duffyMy, a, a + (d - c), c, d⟩ :: r)
  | seamTall {n a b c d r} : Apart cfg a b c d → Seam cfg a d → b < c →
      ¬ absR ((b - a) - (d - c)) < cfg.eps10 → ¬ d - c < b - a →
      Tiles cfg n a b c (d - (b - a)) r →
      Tiles cfg (n + 1) a b c d (r ++ [⟨.duffyMy, a, b, d - (b - a), d⟩])
  | farX {a b c d} : Apart cfg a b c d → ¬ Seam cfg a d → b < c →
      (c - b < cfg.len - d + a ∨ cfg.glue = false) →
      Tiles cfg 1 a b c d [⟨.logMx, a, b, c, d⟩]
  | farY {a b c d} : Apart cfg a b c d → ¬ Seam cfg a d → b < c →
      ¬(c - b < cfg.len - d + a ∨ cfg.glue = false) →
      Tiles cfg 1 a b c d [⟨.logMy, a, b, c, d⟩]
  | over {n a b c d r} : Apart cfg a b c d → ¬ Seam cfg a d → ¬ b < c → d < b →
      Tiles cfg n a d c d r →
      Tiles cfg (n + 1) a b c d (r ++ [⟨.duffyMy, d, b, c, d⟩])
  | nest {n1 n2 a b c d r1 r2} : Apart cfg a b c d → ¬ Seam cfg a d → ¬ b < c → ¬ d < b →
      a = c → b < d →
      Tiles cfg n1 a b c b r1 → Tiles cfg n2 a b b d r2 →
      Tiles cfg (max n1 n2 + 1) a b c d (r1 ++ r2)
  | stag {n1 n2 a b c d r1 r2} : Apart cfg a b c d → ¬ Seam cfg a d → ¬ b < c → ¬ d < b → a ≠ c →
      isclose cfg a c = false → a < c →
      Tiles cfg n1 a c c d r1 → Tiles cfg n2 c b c d r2 →
      Tiles cfg (max n1 n2 + 1) a b c d (r1 ++ r2)

theorem Tiles.base {cfg n a b c d ps} (h : Tiles cfg n a b c d ps) : Base cfg a b c d := by
  cases h <;> first | assumption | exact Apart.toBase ‹_›

/-- inversion: a successful run of `panels` is a derivation of `Tiles` -/
theorem panels_tiles (cfg : Cfg) : ∀ (fuel : Nat) (a b c d : Rat) (ps : List Panel),
    panels cfg fuel a b c d = .ok ps → ∃ n, n ≤ fuel ∧ Tiles cfg n a b c d ps := by
  intro fuel
  induction fuel with
  | zero => intro a b c d ps h; rw [panels] at h; cases h
  | succ fuel ih =>
    intro a b c d ps h
    rw [panels] at h
    by_cases h1 : (!(decide (b - a > cfg.minSize) && decide (d - c > cfg.minSize))) = true
    · rw [if_pos h1] at h; cases h
    rw [if_neg h1] at h
    by_cases h2 : (!(decide (a < b) && decide (c < d))) = true
    · rw [if_pos h2] at h; cases h
    rw [if_neg h2] at h
    by_cases h3 : (!lexLe a b c d) = true
    · rw [if_pos h3] at h; cases h
    rw [if_neg h3] at h
    simp only [Bool.not_eq_true, Bool.not_eq_false', Bool.and_eq_true, decide_eq_true_eq,
      gt_iff_lt] at h1 h2 h3
    rw [lexLe_iff] at h3
    have hB : Base cfg a b c d := ⟨h1.1, h1.2, h2.1, h2.2, h3⟩
    by_cases h4 : a = c ∧ b = d
    · rw [if_pos h4, pure_ok] at h; subst h; exact ⟨1, by omega, .ident hB h4.1 h4.2⟩
    rw [if_neg h4] at h
    by_cases h5 : b = c
    · rw [if_pos h5] at h
      by_cases h6 : absR (b - a - (d - c)) < cfg.eps10
      · rw [if_pos h6, pure_ok] at h; subst h; exact ⟨1, by omega, .touchSq hB h4 h5 h6⟩
      rw [if_neg h6] at h
      by_cases h7 : b - a > d - c
      · rw [if_pos h7, bind_ok] at h
        obtain ⟨r, hr, h⟩ := h
        rw [pure_ok] at h; subst h
        obtain ⟨n, hn, ht⟩ := ih _ _ _ _ _ hr
        exact ⟨n + 1, by omega, .touchWide hB h4 h5 h6 h7 ht⟩
      · rw [if_neg h7, bind_ok] at h
        obtain ⟨r, hr, h⟩ := h
        rw [pure_ok] at h; subst h
        obtain ⟨n, hn, ht⟩ := ih _ _ _ _ _ hr
        exact ⟨n + 1, by omega, .touchTall hB h4 h5 h6 h7 ht⟩
    rw [if_neg h5] at h
    by_cases h6 : isclose cfg b c = true
    · rw [if_pos h6] at h; cases h
    rw [if_neg h6] at h
    have hA : Apart cfg a b c d := ⟨hB, h4, h5, by simpa using h6⟩
    by_cases h7 : a = 0 ∧ d = cfg.len ∧ cfg.glue = true
    · rw [if_pos h7] at h
      by_cases h8 : (!decide (b < c)) = true
      · rw [if_pos h8] at h; cases h
      rw [if_neg h8] at h
      simp only [Bool.not_eq_true, Bool.not_eq_false', decide_eq_true_eq] at h8
      by_cases h9 : absR (b - a - (d - c)) < cfg.eps10
      · rw [if_pos h9, pure_ok] at h; subst h; exact ⟨1, by omega, .seamSq hA h7 h8 h9⟩
      rw [if_neg h9] at h
      by_cases h10 : b - a > d - c
      · rw [if_pos h10, bind_ok] at h
        obtain ⟨r, hr, h⟩ := h
        rw [pure_ok] at h; subst h
        obtain ⟨n, hn, ht⟩ := ih _ _ _ _ _ hr
        exact ⟨n + 1, by omega, .seamWide hA h7 h8 h9 h10 ht⟩
      · rw [if_neg h10, bind_ok] at h
        obtain ⟨r, hr, h⟩ := h
        rw [pure_ok] at h; subst h
        obtain ⟨n, hn, ht⟩ := ih _ _ _ _ _ hr
        exact ⟨n + 1, by omega, .seamTall hA h7 h8 h9 h10 ht⟩
    rw [if_neg h7] at h
    by_cases h8 : b < c
    · rw [if_pos h8] at h
      by_cases h9 : c - b < cfg.len - d + a ∨ cfg.glue = false
      · rw [if_pos h9, pure_ok] at h; subst h; exact ⟨1, by omega, .farX hA h7 h8 h9⟩
      · rw [if_neg h9, pure_ok] at h; subst h; exact ⟨1, by omega, .farY hA h7 h8 h9⟩
    rw [if_neg h8] at h
    by_cases h9 : d < b
    · rw [if_pos h9, bind_ok] at h
      obtain ⟨r, hr, h⟩ := h
      rw [pure_ok] at h; subst h
      obtain ⟨n, hn, ht⟩ := ih _ _ _ _ _ hr
      exact ⟨n + 1, by omega, .over hA h7 h8 h9 ht⟩
    rw [if_neg h9] at h
    by_cases h10 : a = c
    · rw [if_pos h10] at h
      by_cases h11 : (!decide (b < d)) = true
      · rw [if_pos h11] at h; cases h
      rw [if_neg h11, bind_ok] at h
      simp only [Bool.not_eq_true, Bool.not_eq_false', decide_eq_true_eq] at h11
      obtain ⟨r1, hr1, h⟩ := h
      rw [bind_ok] at h
      obtain ⟨r2, hr2, h⟩ := h
      rw [pure_ok] at h; subst h
      obtain ⟨n1, hn1, ht1⟩ := ih _ _ _ _ _ hr1
      obtain ⟨n2, hn2, ht2⟩ := ih _ _ _ _ _ hr2
      exact ⟨max n1 n2 + 1, by omega, .nest hA h7 h8 h9 h10 h11 ht1 ht2⟩
    rw [if_neg h10] at h
    by_cases h11 : isclose cfg a c = true
    · rw [if_pos h11] at h; cases h
    rw [if_neg h11] at h
    by_cases h12 : (!decide (a < c)) = true
    · rw [if_pos h12] at h; cases h
    rw [if_neg h12, bind_ok] at h
    simp only [Bool.not_eq_true, Bool.not_eq_false', decide_eq_true_eq] at h12
    obtain ⟨r1, hr1, h⟩ := h
    rw [bind_ok] at h
    obtain ⟨r2, hr2, h⟩ := h
    rw [pure_ok] at h; subst h
    obtain ⟨n1, hn1, ht1⟩ := ih _ _ _ _ _ hr1
    obtain ⟨n2, hn2, ht2⟩ := ih _ _ _ _ _ hr2
    exact ⟨max n1 n2 + 1, by omega, .stag hA h7 h8 h9 h10 (by simpa using h11) h12 ht1 ht2⟩

end Stbem.SL
