import Stbem.Gen.ProblemsR
import Stbem.Lemmas.ProblemsComplex

/-!
# The generated complex-error-function closed forms `smooth_square_M0u0`, `smooth_pisquare_M0u0`
(proofs for `Props/C03Problems.lean`)

Both are `Re(−1/16 · erfComb(x) · erfComb(y) · e^{−iκ(x+y) − 2κ²t})` (`κ = π, L = 1` resp. `κ = 1, L = π`), the first
literally, the second after `erfc = 1 − erf` and oddness of `erf`; `Lemmas/ProblemsComplex.lean` identifies that
expression with the heat-kernel potential of the sine product.  To compare error-function terms whose arguments differ
by a sign, `cerf` is replaced on both sides by its odd part `(F z − F (−z))/2`; then `ring_nf` normalises all arguments.
-/
namespace Stbem.Problems.R
open Complex MeasureTheory

theorem smooth_square_M0u0_eq (S : Fns) (hsqrt : S.sqrt = Real.sqrt) (hpi : S.pi = Real.pi)
    (hcexp : S.cexp = Complex.exp) (t x y : ℝ) :
    smooth_square_M0u0 S t x y = (-(1 / 16) * erfComb S.cerf t Real.pi 1 x * erfComb S.cerf t Real.pi 1 y
          * Complex.exp (-(I * Real.pi * ((x : ℂ) + y)) - 2 * (Real.pi : ℂ) ^ 2 * t)).re := by
  simp only [smooth_square_M0u0, hsqrt, hpi, hcexp, erfComb, erfPair]
  congr 1
  rw [div_eq_mul_inv, ← Complex.exp_neg]
  push_cast
  ring_nf
  simp only [Complex.I_sq]
  ring_nf

theorem smooth_pisquare_M0u0_eq (S : Fns) (hsqrt : S.sqrt = Real.sqrt) (hpi : S.pi = Real.pi)
    (hcexp : S.cexp = Complex.exp) (hodd : ∀ z, S.cerf (-z) = - S.cerf z)
    (herfc : ∀ z, S.cerfc z = 1 - S.cerf z) (t x y : ℝ) :
    smooth_pisquare_M0u0 S t x y = (-(1 / 16) * erfComb S.cerf t 1 Real.pi x * erfComb S.cerf t 1 Real.pi y
          * Complex.exp (-(I * (1 : ℝ) * ((x : ℂ) + y)) - 2 * ((1 : ℝ) : ℂ) ^ 2 * t)).re := by
  obtain ⟨F, hF⟩ : ∃ F : ℂ → ℂ, S.cerf = fun z => (F z - F (-z)) / 2 :=
    ⟨S.cerf, by funext z; rw [hodd]; ring⟩
  simp only [smooth_pisquare_M0u0, hsqrt, hpi, hcexp, herfc, erfComb, erfPair, hF]
  congr 1
  push_cast
  ring_nf

theorem smooth_square_potential' (S : Fns) (hsqrt : S.sqrt = Real.sqrt) (hpi : S.pi = Real.pi)
    (hsin : S.sin = Real.sin) (hcexp : S.cexp = Complex.exp)
    (hcerf : ∀ z, HasDerivAt S.cerf (2 / ((Real.sqrt Real.pi : ℝ) : ℂ) * Complex.exp (-z ^ 2)) z)
    (hodd : ∀ z, S.cerf (-z) = - S.cerf z) (t x y : ℝ) (ht : 0 < t) :
    smooth_square_M0u0 S t x y
      = ∫ x' in (0 : ℝ)..1, ∫ y' in (0 : ℝ)..1, heatKernel t (x - x') (y - y') * smooth_square_u0 S x' y' := by
  rw [smooth_square_M0u0_eq S hsqrt hpi hcexp, ← potential_sinsin S.cerf hcerf hodd ht]
  simp only [smooth_square_u0, hsin, hpi]

theorem smooth_pisquare_potential' (S : Fns) (hsqrt : S.sqrt = Real.sqrt) (hpi : S.pi = Real.pi)
    (hsin : S.sin = Real.sin) (hcexp : S.cexp = Complex.exp)
    (hcerf : ∀ z, HasDerivAt S.cerf (2 / ((Real.sqrt Real.pi : ℝ) : ℂ) * Complex.exp (-z ^ 2)) z)
    (hodd : ∀ z, S.cerf (-z) = - S.cerf z) (herfc : ∀ z, S.cerfc z = 1 - S.cerf z) (t x y : ℝ) (ht : 0 < t) :
    smooth_pisquare_M0u0 S t x y
      = ∫ x' in (0 : ℝ)..Real.pi, ∫ y' in (0 : ℝ)..Real.pi,
          heatKernel t (x - x') (y - y') * smooth_pisquare_u0 S x' y' := by
  rw [smooth_pisquare_M0u0_eq S hsqrt hpi hcexp hodd herfc, ← potential_sinsin S.cerf hcerf hodd ht]
  simp only [smooth_pisquare_u0, hsin, one_mul]

end Stbem.Problems.R
